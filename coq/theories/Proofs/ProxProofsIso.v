(* monotonicity_prox: the coded "maximum of running means + backward minimum" IS the least-squares monotone fit, for every input.
   Proof: the fit has a recursive block structure.  With q = the reversed input, take the LAST maximiser j of the prefix means of q
   (= the smallest start index i* maximising mean(v[i..n-1])).  Then v = p ++ b with |b| = j+1, the coded fit of v is
   (coded fit of p) ++ (mean of b repeated), every entry of the fit of p is < mean b, and every suffix of b has mean <= mean b.
   The KKT conditions (Proofs/ProxProofsMono.iso_cert_sound) then follow by strong induction on the length.
   Consequences: optimality, idempotence, firm non-expansiveness, and the decreasing variant. *)
From Coq Require Import List Reals Lra Psatz Lia Bool.
From TLV Require Import Base.Ops Model.Prox Proofs.ProxProofs Proofs.ProxProofsHard Proofs.ProxProofsSimplex Proofs.ProxProofsMono.
Import ListNotations.
Open Scope R_scope.


(* ---------- prefix sums / prefix means of the reversed processed prefix q (newest entry first) *)
Fixpoint ss (q : list R) : list R := match q with [] => [] | a :: q' => a :: map (fun s => s + a) (ss q') end.
Definition pm (q : list R) (i : nat) : R := lsum Rops (firstn (S i) q) / INR (S i).
Definition Ymax (q : list R) : R := maxl Rops (hd 0 q) (tl (means_of Rops (ss q))).

Lemma nth_map_lt {A B} (f : A -> B) : forall l i d d', (i < length l)%nat -> nth i (map f l) d' = f (nth i l d).
Proof. induction l as [|x l IH]; intros i d d' Hi; [cbn in Hi; lia|]. destruct i; [reflexivity|]. cbn [map nth]. apply IH. cbn in Hi; lia. Qed.
Lemma ss_length : forall q, length (ss q) = length q.
Proof. induction q as [|a q IH]; [reflexivity|]. cbn [ss length]. rewrite map_length, IH. reflexivity. Qed.
Lemma ss_nth : forall q i, (i < length q)%nat -> nth i (ss q) 0 = lsum Rops (firstn (S i) q).
Proof.
  induction q as [|a q IH]; intros i Hi; [cbn in Hi; lia|].
  destruct i as [|i].
  - cbn. ring.
  - cbn [length] in Hi. cbn [ss nth]. change (firstn (S (S i)) (a :: q)) with (a :: firstn (S i) q). rewrite lsum_cons.
    rewrite (nth_map_lt _ _ _ 0) by (rewrite ss_length; lia). rewrite IH by lia. ring.
Qed.
Lemma means_nth_gen : forall sums k i, (i < length sums)%nat ->
  nth i (map (fun sk : R * nat => fdiv Rops (fst sk) (nat2F Rops (S (snd sk)))) (combine sums (seq k (length sums)))) 0
  = nth i sums 0 / INR (S (k + i)).
Proof.
  intros sums k i Hi.
  rewrite (nth_map_lt _ _ _ (0, O)) by (rewrite combine_length, seq_length; lia).
  rewrite combine_nth by (rewrite seq_length; reflexivity).
  cbn [fst snd]. rewrite seq_nth by exact Hi. rewrite nat2F_INR. reflexivity.
Qed.
Lemma means_nth q i : (i < length q)%nat -> nth i (means_of Rops (ss q)) 0 = pm q i.
Proof.
  intros Hi. unfold means_of. rewrite means_nth_gen by (rewrite ss_length; exact Hi).
  rewrite ss_nth by exact Hi. reflexivity.
Qed.
Lemma means_length q : length (means_of Rops (ss q)) = length q.
Proof. unfold means_of. rewrite map_length, combine_length, seq_length, ss_length. lia. Qed.

Lemma maxl_spec : forall l d m, (m = d \/ In m l) -> d <= m -> (forall e, In e l -> e <= m) -> maxl Rops d l = m.
Proof.
  induction l as [|x r IH]; intros d m Hm Hd Hl.
  - destruct Hm as [->|[]]. reflexivity.
  - cbn [maxl]. apply IH.
    + unfold fmax. cbn [fleb Rops]. destruct (Rleb d x) eqn:E; [apply Rleb_true in E | apply Rleb_false in E].
      * destruct Hm as [->|[->|H]]; [left; pose proof (Hl x (or_introl eq_refl)); lra | left; reflexivity | right; exact H].
      * destruct Hm as [->|[->|H]]; [left; reflexivity | lra | right; exact H].
    + unfold fmax. cbn [fleb Rops]. destruct (Rleb d x); [apply Hl; left; reflexivity | exact Hd].
    + intros e He. apply Hl. right. exact He.
Qed.
Lemma pm_0 a q : pm (a :: q) 0 = a.
Proof. unfold pm. cbn. field. Qed.
Lemma Ymax_spec q j : (j < length q)%nat -> (forall i, (i < length q)%nat -> pm q i <= pm q j) -> Ymax q = pm q j.
Proof.
  intros Hj Hmax. destruct q as [|a q]; [cbn in Hj; lia|].
  unfold Ymax. cbn [hd]. apply maxl_spec.
  - destruct j as [|j]; [left; apply pm_0|]. right.
    rewrite <- (means_nth (a :: q) (S j) Hj).
    assert (L := means_length (a :: q)). destruct (means_of Rops (ss (a :: q))) as [|m0 ms] eqn:E; [cbn in L; lia|].
    cbn [tl nth]. apply nth_In. cbn [length] in *. lia.
  - pose proof (Hmax O ltac:(cbn; lia)) as H0. rewrite pm_0 in H0. exact H0.
  - intros e He.
    assert (L := means_length (a :: q)). destruct (means_of Rops (ss (a :: q))) as [|m0 ms] eqn:E; [cbn in L; lia|].
    cbn [tl] in He. destruct (In_nth _ _ 0 He) as (i & Hi & Hn).
    assert (Hi' : (S i < length (a :: q))%nat) by (cbn [length] in *; lia).
    pose proof (means_nth (a :: q) (S i) Hi') as M. rewrite E in M. cbn [nth] in M. rewrite Hn in M. rewrite M. apply Hmax. exact Hi'.
Qed.

(* the LAST index at which a function attains its maximum on [0, n) *)
Lemma last_argmax (f : nat -> R) : forall n, (1 <= n)%nat ->
  exists j, (j < n)%nat /\ (forall i, (i < n)%nat -> f i <= f j) /\ (forall i, (j < i < n)%nat -> f i < f j).
Proof.
  induction n as [|n IH]; intros Hn; [lia|].
  destruct n as [|n].
  - exists O. repeat split; [lia | intros i Hi; replace i with O by lia; lra | intros i Hi; lia].
  - destruct (IH ltac:(lia)) as (j & Hj & Hmax & Hlast).
    destruct (Rle_dec (f j) (f (S n))) as [Y|N].
    + exists (S n). repeat split; [lia | | intros i Hi; lia].
      intros i Hi. destruct (Nat.eq_dec i (S n)) as [->|Ne]; [lra|]. specialize (Hmax i ltac:(lia)). lra.
    + exists j. repeat split; [lia | |].
      * intros i Hi. destruct (Nat.eq_dec i (S n)) as [->|Ne]; [lra|]. apply Hmax. lia.
      * intros i Hi. destruct (Nat.eq_dec i (S n)) as [->|Ne]; [lra|]. apply Hlast. lia.
Qed.


Lemma lsum_app : forall a b : list R, lsum Rops (a ++ b) = lsum Rops a + lsum Rops b.
Proof. induction a as [|x a IH]; intros b; [cbn; ring|]. cbn [app]. rewrite !lsum_cons, IH. ring. Qed.
Lemma lsum_rev : forall a : list R, lsum Rops (rev a) = lsum Rops a.
Proof. induction a as [|x a IH]; [reflexivity|]. cbn [rev]. rewrite lsum_app, IH, lsum_cons. cbn. ring. Qed.
Lemma firstn_add {A} : forall (l : list A) a b, firstn (a + b) l = firstn a l ++ firstn b (skipn a l).
Proof. induction l as [|x l IH]; intros a b; [destruct a, b; reflexivity|]. destruct a; [reflexivity|]. cbn [Nat.add firstn skipn app]. rewrite IH. reflexivity. Qed.
Lemma INR_S_pos n : 0 < INR (S n).
Proof. apply lt_0_INR. lia. Qed.
Lemma pm_le q i mu : pm q i <= mu <-> lsum Rops (firstn (S i) q) <= mu * INR (S i).
Proof. unfold pm. pose proof (INR_S_pos i). set (s := lsum Rops _). assert (E : s = s / INR (S i) * INR (S i)) by (field; lra). split; intros; nra. Qed.
Lemma pm_lt q i mu : pm q i < mu <-> lsum Rops (firstn (S i) q) < mu * INR (S i).
Proof. unfold pm. pose proof (INR_S_pos i). set (s := lsum Rops _). assert (E : s = s / INR (S i) * INR (S i)) by (field; lra). split; intros; nra. Qed.
Lemma pm_eq q i mu : pm q i = mu -> lsum Rops (firstn (S i) q) = mu * INR (S i).
Proof. unfold pm. pose proof (INR_S_pos i). intros <-. field. lra. Qed.

(* the decomposition q = qb ++ qp at the LAST maximiser j of the prefix means: facts F1-F4 *)
Section Split.
Variable q : list R.
Variable j : nat.
Hypothesis Hj : (j < length q)%nat.
Hypothesis Hmax : forall i, (i < length q)%nat -> pm q i <= pm q j.
Hypothesis Hlast : forall i, (j < i < length q)%nat -> pm q i < pm q j.
Let mu := pm q j.
Let qb := firstn (S j) q.
Let qp := skipn (S j) q.

Lemma split_q : q = qb ++ qp. Proof. symmetry. apply firstn_skipn. Qed.
Lemma qb_length : length qb = S j. Proof. apply firstn_length_le. lia. Qed.
Lemma qp_length : length qp = (length q - S j)%nat. Proof. apply skipn_length. Qed.
Lemma F1 i : (i < length q)%nat -> lsum Rops (firstn (S i) q) <= mu * INR (S i).
Proof. intros Hi. apply pm_le, Hmax, Hi. Qed.
Lemma F2 : lsum Rops qb = mu * INR (S j).
Proof. apply pm_eq. reflexivity. Qed.
Lemma F3 m : (m < length qp)%nat -> lsum Rops (firstn (S m) qp) < mu * INR (S m).
Proof.
  intros Hm. rewrite qp_length in Hm.
  assert (Hi : (j < S j + m < length q)%nat) by lia.
  pose proof (proj1 (pm_lt q (S j + m) mu) (Hlast _ Hi)) as H.
  replace (S (S j + m)) with (S j + S m)%nat in H by lia. rewrite firstn_add, lsum_app, plus_INR in H.
  fold qb qp in H. rewrite F2 in H. lra.
Qed.
(* every non-empty suffix of qb has mean >= mu *)
Lemma F4 c : (c <= j)%nat -> mu * INR (S j - c) <= lsum Rops (skipn c qb).
Proof.
  intros Hc. pose proof F2 as E. rewrite <- (firstn_skipn c qb), lsum_app in E.
  assert (Hf : lsum Rops (firstn c qb) <= mu * INR c).
  { destruct c as [|c]; [cbn; lra|]. unfold qb. rewrite firstn_firstn, Nat.min_l by lia. apply F1. lia. }
  rewrite minus_INR by lia. lra.
Qed.
Lemma pm_app_suffix c : (c <= j)%nat -> mu <= pm (skipn c qb ++ qp) (j - c).
Proof.
  intros Hc. apply Rnot_lt_le. intros H. apply pm_lt in H.
  assert (L : length (skipn c qb) = (S j - c)%nat) by (rewrite skipn_length, qb_length; reflexivity).
  replace (S (j - c)) with (S j - c)%nat in H by lia.
  rewrite firstn_app, L, Nat.sub_diag in H. cbn [firstn] in H. rewrite app_nil_r, firstn_all2 in H by lia.
  pose proof (F4 c Hc). lra.
Qed.
End Split.


(* ---------- the forward pass in terms of Ymax of the reversed processed prefix *)
Lemma run_cons q a r : run_max_means Rops (ss q) (a :: r) = Ymax (a :: q) :: run_max_means Rops (ss (a :: q)) r.
Proof. reflexivity. Qed.
Lemma run_app : forall w1 w2 q, run_max_means Rops (ss q) (w1 ++ w2) = run_max_means Rops (ss q) w1 ++ run_max_means Rops (ss (rev w1 ++ q)) w2.
Proof.
  induction w1 as [|a w1 IH]; intros w2 q; [reflexivity|].
  cbn [app]. rewrite !run_cons, IH. cbn [rev app]. rewrite <- app_assoc. reflexivity.
Qed.
Lemma run_nth : forall w q m, (m < length w)%nat ->
  nth m (run_max_means Rops (ss q) w) 0 = Ymax (rev (firstn (S m) w) ++ q).
Proof.
  induction w as [|a w IH]; intros q m Hm; [cbn in Hm; lia|].
  rewrite run_cons. destruct m as [|m].
  - destruct w; reflexivity.
  - cbn [nth]. rewrite IH by (cbn in Hm; lia).
    change (firstn (S (S m)) (a :: w)) with (a :: firstn (S m) w). cbn [rev]. rewrite <- app_assoc. reflexivity.
Qed.
Lemma run_length : forall w sums, length (run_max_means Rops sums w) = length w.
Proof. exact run_max_means_length. Qed.

(* ---------- the backward pass *)
Lemma back_min_cons a l : back_min Rops (a :: l) =
  match back_min Rops l with [] => [a] | b :: _ => (if fltb Rops b a then b else a) :: back_min Rops l end.
Proof. reflexivity. Qed.
Lemma back_min_nil_iff l : back_min Rops l = [] -> l = [].
Proof. intros H. apply (f_equal (@length R)) in H. rewrite back_min_length in H. destruct l; [reflexivity | discriminate]. Qed.
(* a block whose entries are all >= its last entry mu is flattened to mu *)
Lemma back_min_block mu : forall l, l <> [] -> Forall (fun y => mu <= y) l -> last l 0 = mu -> back_min Rops l = repeat mu (length l).
Proof.
  induction l as [|a l IH]; intros Hne Hall Hlast; [contradiction|].
  pose proof (Forall_inv Hall) as Ha. pose proof (Forall_inv_tail Hall) as Hl. rewrite back_min_cons.
  destruct l as [|b l'].
  - cbn in *. rewrite Hlast. reflexivity.
  - rewrite IH; [|discriminate | exact Hl | exact Hlast].
    cbn [length repeat]. f_equal. cbn beta in Ha. destruct (fltb_R mu a) as [[E L]|[E L]]; rewrite E; [reflexivity | lra].
Qed.
Lemma back_min_le_last : forall l e, In e (back_min Rops l) -> e <= last l 0.
Proof.
  induction l as [|a l IH]; intros e He; [destruct He|].
  rewrite back_min_cons in He. destruct (back_min Rops l) as [|b r] eqn:E.
  - apply back_min_nil_iff in E. subst. destruct He as [<-|[]]. cbn. lra.
  - assert (Hl : l <> []) by (intros ->; discriminate).
    assert (Hlast : last (a :: l) 0 = last l 0) by (destruct l; [contradiction | reflexivity]). rewrite Hlast.
    destruct He as [<-|He]; [|apply IH; exact He].
    pose proof (IH b (or_introl eq_refl)) as Hb.
    destruct (fltb_R b a) as [[Eb L]|[Eb L]]; rewrite Eb; lra.
Qed.
(* a prefix whose flattened entries are all <= the head of the flattened rest is not affected by the rest *)
Lemma back_min_app c : forall l z rest, back_min Rops z = c :: rest -> (forall e, In e (back_min Rops l) -> e <= c) ->
  back_min Rops (l ++ z) = back_min Rops l ++ back_min Rops z.
Proof.
  induction l as [|a l IH]; intros z rest Hz Hle; [reflexivity|].
  cbn [app]. rewrite !back_min_cons.
  assert (Hle' : forall e, In e (back_min Rops l) -> e <= c).
  { intros e He. apply Hle. rewrite back_min_cons. destruct (back_min Rops l); [destruct He | right; exact He]. }
  rewrite (IH z rest Hz Hle').
  destruct (back_min Rops l) as [|b r] eqn:E.
  - cbn [app]. rewrite Hz. cbn [app]. f_equal.
    assert (a <= c) by (apply Hle; rewrite back_min_cons, E; left; reflexivity).
    destruct (fltb_R c a) as [[Ec L]|[Ec L]]; rewrite Ec; [lra | reflexivity].
  - reflexivity.
Qed.


Lemma Ymax_ge q i : (i < length q)%nat -> pm q i <= Ymax q.
Proof.
  intros Hi. destruct (last_argmax (pm q) (length q) ltac:(lia)) as (j & Hj & Hmax & _).
  rewrite (Ymax_spec q j Hj Hmax). apply Hmax, Hi.
Qed.
Lemma last_nth {A} : forall (l : list A) d, l <> [] -> last l d = nth (length l - 1) l d.
Proof.
  induction l as [|a l IH]; intros d Hne; [contradiction|]. destruct l as [|b l]; [reflexivity|].
  change (last (a :: b :: l) d) with (last (b :: l) d). rewrite IH by discriminate. cbn [length]. 
  replace (S (S (length l)) - 1)%nat with (S (length l - 0)) by lia. cbn [nth]. replace (S (length l) - 1)%nat with (length l - 0)%nat by lia. reflexivity.
Qed.

(* the last block of the coded fit: v = p ++ b, the fit is (fit of p) ++ (mean of b repeated) *)
Lemma mono_decompose v : v <> [] -> exists p b mu,
  v = p ++ b /\ b <> [] /\
  monotone_inc Rops v = monotone_inc Rops p ++ repeat mu (length b) /\
  lsum Rops b = mu * INR (length b) /\
  (forall c, (c < length b)%nat -> lsum Rops (skipn c b) <= mu * INR (length b - c)) /\
  (forall e, In e (monotone_inc Rops p) -> e <= mu).
Proof.
  intros Hv. set (q := rev v).
  assert (Hq : (1 <= length q)%nat). { unfold q. rewrite rev_length. destruct v; [contradiction | cbn; lia]. }
  destruct (last_argmax (pm q) (length q) Hq) as (j & Hj & Hmax & Hlast).
  set (mu := pm q j). set (qb := firstn (S j) q). set (qp := skipn (S j) q).
  assert (Lqb : length qb = S j) by (apply qb_length; exact Hj).
  exists (rev qp), (rev qb), mu.
  assert (Ev : v = rev qp ++ rev qb).
  { rewrite <- rev_app_distr. fold qb qp. unfold qb, qp. rewrite firstn_skipn. unfold q. symmetry. apply rev_involutive. }
  assert (Lb : length (rev qb) = S j) by (rewrite rev_length; exact Lqb).
  split; [exact Ev|]. split; [intros E; rewrite E in Lb; discriminate|].
  (* the forward values *)
  set (Yp := run_max_means Rops (ss []) (rev qp)).
  set (Yb := run_max_means Rops (ss qp) (rev qb)).
  assert (EY : run_max_means Rops [] v = Yp ++ Yb).
  { change (@nil R) with (ss []) at 1. rewrite Ev, run_app. rewrite rev_involutive, app_nil_r. reflexivity. }
  assert (LYb : length Yb = S j) by (unfold Yb; rewrite run_length; exact Lb).
  assert (Hall : Forall (fun y => mu <= y) Yb).
  { apply Forall_forall. intros e He. destruct (In_nth _ _ 0 He) as (m & Hm & <-). rewrite LYb in Hm.
    unfold Yb. rewrite run_nth by lia. rewrite firstn_rev, rev_involutive, Lqb.
    replace (S j - S m)%nat with (j - m)%nat by lia.
    eapply Rle_trans; [apply (pm_app_suffix q j Hj Hmax (j - m)); lia|].
    apply Ymax_ge. rewrite app_length, skipn_length. fold qb. rewrite Lqb. lia. }
  assert (HlastY : last Yb 0 = mu).
  { rewrite last_nth by (intros E; rewrite E in LYb; discriminate). rewrite LYb. unfold Yb. rewrite run_nth by lia.
    replace (S (S j - 1)) with (S j) by lia. rewrite firstn_all2 by lia. rewrite rev_involutive.
    unfold qb, qp. rewrite firstn_skipn. apply Ymax_spec; assumption. }
  assert (EB : back_min Rops Yb = repeat mu (S j)).
  { rewrite <- LYb. apply back_min_block; [intros E; rewrite E in LYb; discriminate | exact Hall | exact HlastY]. }
  assert (Hple : forall e, In e (back_min Rops Yp) -> e <= mu).
  { intros e He.
    destruct (Nat.eq_dec (length qp) 0) as [Z|NZ].
    - apply length_zero_iff_nil in Z. unfold Yp in He. rewrite Z in He. cbn in He. destruct He.
    - apply back_min_le_last in He.
      assert (Lp : length Yp = length qp) by (unfold Yp; rewrite run_length, rev_length; reflexivity).
      rewrite last_nth in He by (intros E; apply (f_equal (@length R)) in E; rewrite Lp in E; cbn [length] in E; lia). rewrite Lp in He.
      unfold Yp in He. rewrite run_nth in He by (rewrite rev_length; lia).
      replace (S (length qp - 1)) with (length (rev qp)) in He by (rewrite rev_length; lia).
      rewrite firstn_all, rev_involutive, app_nil_r in He.
      destruct (last_argmax (pm qp) (length qp) ltac:(lia)) as (j' & Hj' & Hmax' & _).
      rewrite (Ymax_spec _ j' Hj' Hmax') in He.
      assert (pm qp j' < mu) by (apply pm_lt; apply (F3 q j Hj Hlast); exact Hj').
    lra. }
  split.
  { unfold monotone_inc. rewrite EY. rewrite (back_min_app mu Yp Yb (repeat mu j)); [| rewrite EB; reflexivity | exact Hple].
    rewrite EB, Lb. reflexivity. }
  split.
  { rewrite lsum_rev, Lb. apply (F2 q j). }
  split.
  { intros c Hc. rewrite Lb in *. rewrite skipn_rev, lsum_rev, Lqb.
    unfold qb. rewrite firstn_firstn, Nat.min_l by lia.
    destruct (S j - c)%nat as [|k] eqn:Ek; [lia|]. apply (F1 q j Hmax). lia. }
  exact Hple.
Qed.


Fixpoint sufneg (r : list R) : Prop := match r with [] => True | _ :: r' => lsum Rops r <= 0 /\ sufneg r' end.
Definition KKT (v x : list R) : Prop :=
  length x = length v /\ ndec x /\ lsum Rops (resid v x) = 0 /\ sufneg (resid v x) /\ dot Rops (resid v x) x = 0.

Lemma sufneg_bool : forall r, sufneg r -> suffix_sums_nonpos Rops r = true.
Proof.
  induction r as [|a r IH]; intros H; [reflexivity|]. destruct H as [H1 H2].
  change (suffix_sums_nonpos Rops (a :: r)) with (Rleb (lsum Rops (a :: r)) 0 && suffix_sums_nonpos Rops r).
  rewrite (IH H2), andb_true_r. apply Rleb_true. exact H1.
Qed.
Lemma KKT_cert v x : KKT v x -> iso_cert Rops v x = true.
Proof.
  intros (HL & Hn & Hs & Hsuf & Hd). unfold iso_cert. cbv zeta. change (map (fun p : R * R => fsub Rops (fst p) (snd p)) (combine v x)) with (resid v x). change (f0 Rops) with 0.
  rewrite HL, Nat.eqb_refl, (proj2 (nondecr_ndec x) Hn), (sufneg_bool _ Hsuf).
  rewrite (proj2 (feqb_true _ _) Hs), (proj2 (feqb_true _ _) Hd). reflexivity.
Qed.

Lemma resid_app : forall p xp b xb, length xp = length p -> resid (p ++ b) (xp ++ xb) = resid p xp ++ resid b xb.
Proof.
  induction p as [|a p IH]; intros [|y xp] b xb L; try discriminate; [reflexivity|].
  injection L as L. unfold resid in *. cbn [app combine map]. rewrite IH by exact L. reflexivity.
Qed.
Lemma resid_length v x : length x = length v -> length (resid v x) = length v.
Proof. intros L. unfold resid. rewrite map_length, combine_length, L. apply Nat.min_id. Qed.
Lemma dot_app : forall a b c d : list R, length a = length c -> dot Rops (a ++ b) (c ++ d) = dot Rops a c + dot Rops b d.
Proof.
  induction a as [|x a IH]; intros b [|y c] d L; try discriminate; [cbn; ring|].
  injection L as L. cbn [app]. rewrite !dot_cons, IH by exact L. ring.
Qed.
Lemma sufneg_app : forall r1 r2, sufneg r1 -> sufneg r2 -> lsum Rops r2 = 0 -> sufneg (r1 ++ r2).
Proof.
  induction r1 as [|a r1 IH]; intros r2 H1 H2 Z; [exact H2|].
  destruct H1 as [Ha H1]. cbn [app]. split; [|apply IH; assumption].
  change (lsum Rops (a :: r1 ++ r2)) with (a + lsum Rops (r1 ++ r2)). rewrite lsum_app, Z. rewrite lsum_cons in Ha. lra.
Qed.
Lemma ndec_app : forall a c, ndec a -> ndec c -> (forall e f, In e a -> In f c -> e <= f) -> ndec (a ++ c).
Proof.
  induction a as [|x a IH]; intros c Ha Hc Hle; [exact Hc|].
  destruct a as [|y a'].
  - cbn [app]. destruct c as [|f c']; [exact I|]. split; [apply Hle; left; reflexivity | exact Hc].
  - destruct Ha as [Hxy Ha]. change ((x :: y :: a') ++ c) with (x :: (y :: a') ++ c).
    change (ndec (x :: (y :: a') ++ c)) with (x <= y /\ ndec ((y :: a') ++ c)).
    split; [exact Hxy|]. apply IH; [exact Ha | exact Hc |]. intros e f He Hf. apply Hle; [right; exact He | exact Hf].
Qed.
Lemma ndec_repeat mu : forall k, ndec (repeat mu k).
Proof. induction k as [|k IH]; [exact I|]. destruct k as [|k]; [exact I|]. cbn [repeat] in *. split; [lra | exact IH]. Qed.
Lemma resid_repeat_lsum mu : forall b, lsum Rops (resid b (repeat mu (length b))) = lsum Rops b - mu * INR (length b).
Proof.
  induction b as [|a b IH]; [cbn; ring|]. cbn [length repeat]. unfold resid in *. cbn [combine map fst snd]. rewrite !lsum_cons, IH, S_INR. ring.
Qed.
Lemma dot_repeat mu : forall r, dot Rops r (repeat mu (length r)) = mu * lsum Rops r.
Proof. induction r as [|a r IH]; [cbn; ring|]. cbn [length repeat]. rewrite dot_cons, lsum_cons, IH. ring. Qed.
Lemma sufneg_block mu : forall b, (forall c, (c < length b)%nat -> lsum Rops (skipn c b) <= mu * INR (length b - c)) ->
  sufneg (resid b (repeat mu (length b))).
Proof.
  induction b as [|a b IH]; intros H; [exact I|].
  assert (E : resid (a :: b) (repeat mu (length (a :: b))) = (a - mu) :: resid b (repeat mu (length b))) by reflexivity.
  rewrite E. split.
  - rewrite <- E, resid_repeat_lsum. pose proof (H O ltac:(cbn; lia)) as H0. cbn [skipn] in H0. rewrite Nat.sub_0_r in H0. lra.
  - apply IH. intros c Hc. pose proof (H (S c) ltac:(cbn; lia)) as H1. cbn [skipn length] in H1.
    replace (S (length b) - S c)%nat with (length b - c)%nat in H1 by lia. exact H1.
Qed.

Theorem monotone_inc_KKT : forall n v, length v = n -> KKT v (monotone_inc Rops v).
Proof.
  induction n as [n IH] using (well_founded_induction lt_wf). intros v Hn.
  assert (Hcase : v = [] \/ v <> []) by (destruct v; [left; reflexivity | right; discriminate]).
  destruct Hcase as [->|Hne].
  { repeat split; cbn; try lra; exact I. }
  destruct (mono_decompose v Hne) as (p & b & mu & Evb & Hb & Ex & Hsum & Hsuf & Hle).
  subst v.
  assert (Lb : (1 <= length b)%nat) by (destruct b; [contradiction | cbn; lia]).
  assert (Lp : (length p < n)%nat) by (rewrite <- Hn, app_length; lia).
  destruct (IH (length p) Lp p eq_refl) as (KL & Kn & Ks & Ksuf & Kd).
  rewrite Ex. unfold KKT.
  assert (Lr : length (resid p (monotone_inc Rops p)) = length (monotone_inc Rops p)) by (rewrite resid_length; auto).
  assert (Zb : lsum Rops (resid b (repeat mu (length b))) = 0) by (rewrite resid_repeat_lsum, Hsum; ring).
  split; [rewrite !app_length, repeat_length, KL; reflexivity|].
  split.
  { apply ndec_app; [exact Kn | apply ndec_repeat|]. intros e f He Hf. apply repeat_spec in Hf. subst f. apply Hle, He. }
  rewrite (resid_app p _ b _ KL).
  split; [rewrite lsum_app, Ks, Zb; ring|].
  split; [apply sufneg_app; [exact Ksuf | apply sufneg_block; exact Hsuf | exact Zb]|].
  rewrite dot_app by exact Lr. rewrite Kd.
  rewrite <- (resid_length b (repeat mu (length b))) at 2 by apply repeat_length.
  rewrite dot_repeat, Zb. ring.
Qed.

Theorem monotone_inc_cert v : iso_cert Rops v (monotone_inc Rops v) = true.
Proof. apply KKT_cert. apply (monotone_inc_KKT (length v)). reflexivity. Qed.
Theorem monotone_inc_optimal v z : length z = length v -> ndec z ->
  dist2 Rops (monotone_inc Rops v) v <= dist2 Rops z v.
Proof. intros L Hz. exact (proj2 (iso_cert_sound v _ (monotone_inc_cert v)) z L Hz). Qed.


Theorem monotone_inc_fixes_feasible v : ndec v -> monotone_inc Rops v = v.
Proof.
  intros Hv. apply dist2_zero_eq; [apply monotone_inc_length|].
  pose proof (monotone_inc_optimal v v eq_refl Hv) as H. rewrite dist2_refl in H.
  pose proof (ProxProofs.dist2_nonneg (monotone_inc Rops v) v). lra.
Qed.
Theorem monotone_inc_idempotent v : monotone_inc Rops (monotone_inc Rops v) = monotone_inc Rops v.
Proof. apply monotone_inc_fixes_feasible, monotone_inc_feasible. Qed.

Lemma ndec_convex n : convex_set n ndec.
Proof.
  intros a b lam Ha Hb La Lb Hlam. clear La. revert n b Hb Lb.
  induction a as [|x a IH]; intros n b Hb Lb; [exact I|].
  destruct b as [|y b]; [exact I|].
  destruct a as [|x2 a']; [exact I|]. destruct b as [|y2 b']; [exact I|].
  destruct Ha as [Hx Ha]. destruct Hb as [Hy Hb].
  change (lerp lam (x :: x2 :: a') (y :: y2 :: b')) with ((x + lam * (y - x)) :: lerp lam (x2 :: a') (y2 :: b')).
  change (lerp lam (x2 :: a') (y2 :: b')) with ((x2 + lam * (y2 - x2)) :: lerp lam a' b') at 1.
  split; [nra|].
  change ((x2 + lam * (y2 - x2)) :: lerp lam a' b') with (lerp lam (x2 :: a') (y2 :: b')).
  apply (IH Ha (length (y2 :: b')) (y2 :: b') Hb eq_refl).
Qed.
Theorem monotone_inc_firmly_nonexpansive u v : length u = length v ->
  dist2 Rops (monotone_inc Rops u) (monotone_inc Rops v) <= dotd (monotone_inc Rops u) (monotone_inc Rops v) u v.
Proof.
  intros L. apply (firmly_nonexpansive (length v) ndec (monotone_inc Rops)); auto.
  - apply ndec_convex.
  - intros w Lw. split; [apply monotone_inc_feasible|]. split; [rewrite monotone_inc_length; exact Lw|].
    intros z Hz Lz. apply monotone_inc_optimal; [congruence | exact Hz].
Qed.

(* decreasing=True : flip, fit, flip back *)
Lemma dist2_app : forall a b c d : list R, length a = length b -> dist2 Rops (a ++ c) (b ++ d) = dist2 Rops a b + dist2 Rops c d.
Proof.
  induction a as [|x a IH]; intros [|y b] c d L; try discriminate; [cbn; ring|].
  injection L as L. cbn [app]. rewrite !dist2_cons, IH by exact L. ring.
Qed.
Lemma dist2_rev : forall a b : list R, length a = length b -> dist2 Rops (rev a) (rev b) = dist2 Rops a b.
Proof.
  induction a as [|x a IH]; intros [|y b] L; try discriminate; [reflexivity|].
  injection L as L. cbn [rev]. rewrite dist2_app by (rewrite !rev_length; exact L). rewrite IH by exact L.
  rewrite dist2_cons. cbn. ring.
Qed.
Theorem monotone_dec_optimal v z : length z = length v -> ndec (rev z) ->
  dist2 Rops (monotonicity_prox Rops true v) v <= dist2 Rops z v.
Proof.
  intros L Hz. unfold monotonicity_prox.
  rewrite <- (rev_involutive v) at 2. rewrite dist2_rev by (rewrite monotone_inc_length; reflexivity).
  rewrite <- (dist2_rev z v L). apply monotone_inc_optimal; [rewrite !rev_length; exact L | exact Hz].
Qed.
Theorem monotone_dec_idempotent v : monotonicity_prox Rops true (monotonicity_prox Rops true v) = monotonicity_prox Rops true v.
Proof. unfold monotonicity_prox. rewrite rev_involutive, monotone_inc_idempotent. reflexivity. Qed.
Theorem monotone_idempotent d v : monotonicity_prox Rops d (monotonicity_prox Rops d v) = monotonicity_prox Rops d v.
Proof. destruct d; [apply monotone_dec_idempotent | apply monotone_inc_idempotent]. Qed.
