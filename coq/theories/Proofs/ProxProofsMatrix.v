(* Lifting of the per-vector operators to matrices as the code applies them: column by column (Model/Prox.colwise: smoothness,
   simplex, soft_sparsity, monotonicity) or on the flattened tensor (flatwise: clip, soft / hard thresholding, l2, normalisations).
   For a rectangular n x c matrix (n, c >= 1) the j-th column of colwise f X is f applied to the j-th column of X, and the
   flattened flatwise f X is f applied to the flattened X; so every per-vector theorem holds column by column / on the flattening. *)
From Coq Require Import List Reals Lra Lia Bool.
From TLV Require Import Base.Ops Model.Prox Proofs.ProxProofs Proofs.ProxProofsSimplex Proofs.ProxProofsMono Proofs.ProxProofsIso.
Import ListNotations.
Open Scope R_scope.

Definition rect (n c : nat) (X : list (list R)) : Prop := length X = n /\ Forall (fun r => length r = c) X.

Lemma cols_of_cons r X : cols_of Rops (r :: X) = map (fun j => map (fun row => nth j row 0) (r :: X)) (seq 0 (length r)).
Proof. reflexivity. Qed.
Lemma rect_row n c X i : rect n c X -> (i < n)%nat -> length (nth i X []) = c.
Proof. intros [L F] Hi. rewrite Forall_forall in F. apply F. apply nth_In. lia. Qed.
Lemma cols_of_rect n c X : (1 <= n)%nat -> rect n c X -> rect c n (cols_of Rops X).
Proof.
  intros Hn [L F]. destruct X as [|r X]; [cbn in L; lia|]. rewrite cols_of_cons.
  inversion F as [|? ? Hr F']; subst. split; [rewrite map_length, seq_length; reflexivity|].
  apply Forall_forall. intros col Hc. apply in_map_iff in Hc. destruct Hc as (j & <- & _). rewrite map_length. reflexivity.
Qed.
Lemma cols_of_nth n c X i j : (1 <= n)%nat -> rect n c X -> (i < n)%nat -> (j < c)%nat ->
  nth i (nth j (cols_of Rops X) []) 0 = nth j (nth i X []) 0.
Proof.
  intros Hn [L F] Hi Hj. destruct X as [|r X]; [cbn in L; lia|]. rewrite cols_of_cons.
  inversion F as [|? ? Hr F']; subst.
  rewrite (nth_map_lt _ _ _ O) by (rewrite seq_length; lia). rewrite seq_nth by lia. cbn [Nat.add].
  rewrite (nth_map_lt _ _ _ []) by lia. reflexivity.
Qed.
Theorem transpose_involutive n c X : (1 <= n)%nat -> (1 <= c)%nat -> rect n c X -> cols_of Rops (cols_of Rops X) = X.
Proof.
  intros Hn Hc HX. pose proof (cols_of_rect n c X Hn HX) as H1. pose proof (cols_of_rect c n _ Hc H1) as H2.
  destruct HX as [L F]. destruct H2 as [L2 F2].
  apply (nth_ext _ _ [] []); [congruence|]. intros i Hi. rewrite L2 in Hi.
  assert (Li : length (nth i (cols_of Rops (cols_of Rops X)) []) = c).
  { rewrite Forall_forall in F2. apply F2. apply nth_In. lia. }
  assert (Li' : length (nth i X []) = c) by (apply (rect_row n c X i (conj L F) Hi)).
  apply (nth_ext _ _ 0 0); [congruence|]. intros j Hj. rewrite Li in Hj.
  rewrite (cols_of_nth c n (cols_of Rops X) j i Hc H1 Hj Hi).
  apply (cols_of_nth n c X i j Hn (conj L F) Hi Hj).
Qed.
(* column-wise operators *)
Theorem colwise_columns n c (f : list R -> list R) X : (1 <= n)%nat -> (1 <= c)%nat -> rect n c X ->
  (forall col, length col = n -> length (f col) = n) ->
  cols_of Rops (colwise Rops f X) = map f (cols_of Rops X).
Proof.
  intros Hn Hc HX Hf. unfold colwise. apply (transpose_involutive c n); [exact Hc | exact Hn |].
  destruct (cols_of_rect n c X Hn HX) as [L F]. split; [rewrite map_length; exact L|].
  apply Forall_forall. intros y Hy. apply in_map_iff in Hy. destruct Hy as (col & <- & Hin).
  apply Hf. rewrite Forall_forall in F. apply F, Hin.
Qed.
Corollary colwise_simplex n c p X : (1 <= n)%nat -> (1 <= c)%nat -> rect n c X -> 0 < p ->
  Forall (fun col => Forall (fun x => 0 <= x) col /\ lsum Rops col = p) (cols_of Rops (colwise Rops (simplex_prox Rops p) X)).
Proof.
  intros Hn Hc HX Hp. rewrite (colwise_columns n c _ X Hn Hc HX) by (intros col L; rewrite simplex_length; exact L).
  destruct (cols_of_rect n c X Hn HX) as [_ F]. rewrite Forall_forall in *. intros y Hy.
  apply in_map_iff in Hy. destruct Hy as (col & <- & Hin). apply simplex_feasible; [exact Hp|].
  intros ->. specialize (F [] Hin). cbn in F. lia.
Qed.
Corollary colwise_monotone n c d X : (1 <= n)%nat -> (1 <= c)%nat -> rect n c X ->
  cols_of Rops (colwise Rops (monotonicity_prox Rops d) X) = map (monotonicity_prox Rops d) (cols_of Rops X).
Proof. intros Hn Hc HX. apply (colwise_columns n c); auto. intros col L. rewrite monotone_length. exact L. Qed.

(* operators on the flattened tensor *)
Lemma concat_chunk : forall fuel c (l : list R), (1 <= c)%nat -> (length l <= fuel * c)%nat -> concat (chunk fuel c l) = l.
Proof.
  induction fuel as [|fu IH]; intros c l Hc Hl.
  - destruct l; [reflexivity | cbn in Hl; lia].
  - destruct l as [|x l']; [reflexivity|]. cbn [chunk concat].
    rewrite IH; [apply firstn_skipn | exact Hc | rewrite skipn_length; cbn [length Nat.mul] in *; lia].
Qed.
Lemma concat_length_rect n c X : rect n c X -> length (concat X) = (n * c)%nat.
Proof.
  intros [L F]. subst n. induction F as [|r X Hr F IH]; [reflexivity|]. cbn [concat length Nat.mul]. rewrite app_length, IH, Hr. reflexivity.
Qed.
Theorem flatwise_flat n c (f : list R -> list R) X : (1 <= n)%nat -> (1 <= c)%nat -> rect n c X ->
  length (f (concat X)) = length (concat X) -> concat (flatwise f X) = f (concat X).
Proof.
  intros Hn Hc HX Hf. pose proof (concat_length_rect n c X HX) as LC. destruct HX as [L F].
  destruct X as [|r X]; [cbn in L; lia|]. unfold flatwise.
  inversion F as [|? ? Hr F']; subst. apply concat_chunk; [lia|]. rewrite Hf, LC. lia.
Qed.
