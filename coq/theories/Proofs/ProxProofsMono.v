(* monotonicity_prox (maximum of running means + backward minimum pass), at the instance Rops:
   - the output is non-decreasing (non-increasing for decreasing=True) for EVERY input and has the input's length;
   - soundness of the KKT certificate iso_cert that the correspondence decides (exactly, in Q) on the model's
     output of every case: a vector accepted by iso_cert is the least-squares non-decreasing fit.
   normalized_sparsity_prox: k-sparse and of unit l2 norm whenever the kept part is non-zero. *)
From Coq Require Import List Reals Lra Psatz Lia Bool.
From TLV Require Import Base.Ops Model.Prox Proofs.ProxProofs Proofs.ProxProofsHard.
Import ListNotations.
Open Scope R_scope.

Fixpoint ndec (l : list R) : Prop :=
  match l with [] => True | a :: r => match r with [] => True | b :: _ => a <= b /\ ndec r end end.
Lemma nondecr_ndec : forall l, nondecr Rops l = true <-> ndec l.
Proof.
  induction l as [|a r IH]; [cbn; tauto|]. destruct r as [|b r']; [cbn; tauto|].
  change (nondecr Rops (a :: b :: r')) with (Rleb a b && nondecr Rops (b :: r')).
  change (ndec (a :: b :: r')) with (a <= b /\ ndec (b :: r')).
  rewrite andb_true_iff, Rleb_true, IH. tauto.
Qed.

(* ---------- feasibility of the coded operator *)
Lemma back_min_ndec : forall l, ndec (back_min Rops l).
Proof.
  induction l as [|a r IH]; [exact I|]. cbn [back_min].
  destruct (back_min Rops r) as [|b r'] eqn:E; [exact I|].
  change (ndec ((if fltb Rops b a then b else a) :: b :: r')) with ((if fltb Rops b a then b else a) <= b /\ ndec (b :: r')).
  split; [|exact IH]. destruct (fltb_R b a) as [[Eb L]|[Eb L]]; rewrite Eb; lra.
Qed.
Lemma back_min_length : forall l, length (back_min Rops l) = length l.
Proof.
  induction l as [|a r IH]; [reflexivity|]. cbn [back_min].
  destruct (back_min Rops r) as [|b r'] eqn:E; cbn [length] in *; rewrite <- IH; reflexivity.
Qed.
Lemma run_max_means_length : forall l sums, length (run_max_means Rops sums l) = length l.
Proof. induction l as [|a r IH]; intros sums; [reflexivity|]. cbn [run_max_means length]. rewrite IH. reflexivity. Qed.
Theorem monotone_inc_feasible v : ndec (monotone_inc Rops v).
Proof. apply back_min_ndec. Qed.
Theorem monotone_inc_length v : length (monotone_inc Rops v) = length v.
Proof. unfold monotone_inc. rewrite back_min_length. apply run_max_means_length. Qed.
Theorem monotone_dec_feasible v : ndec (rev (monotonicity_prox Rops true v)).
Proof. unfold monotonicity_prox. rewrite rev_involutive. apply back_min_ndec. Qed.
Theorem monotone_length d v : length (monotonicity_prox Rops d v) = length v.
Proof. destruct d; unfold monotonicity_prox; [rewrite rev_length, monotone_inc_length, rev_length | rewrite monotone_inc_length]; reflexivity. Qed.

(* ---------- soundness of the certificate *)
Definition resid (v x : list R) : list R := map (fun p : R * R => fst p - snd p) (combine v x).
Fixpoint crossm (v x z : list R) : R :=
  match v, x, z with a :: v', b :: x', c :: z' => (a - b) * (c - b) + crossm v' x' z' | _, _, _ => 0 end.
Lemma crossm_dot : forall v x z, length x = length v -> length z = length v ->
  crossm v x z = dot Rops (resid v x) z - dot Rops (resid v x) x.
Proof.
  induction v as [|a v IH]; intros [|b x] [|c z] L1 L2; try discriminate; [cbn; ring|].
  injection L1 as L1. injection L2 as L2. unfold resid in *. cbn [combine map crossm fst snd]. rewrite !dot_cons, (IH x z L1 L2). ring.
Qed.
Lemma dist2_expand_crossm : forall v x z, length z = length v -> length x = length v ->
  dist2 Rops z v = dist2 Rops x v + dist2 Rops z x - 2 * crossm v x z.
Proof.
  induction v as [|a v IH]; intros [|b x] [|c z] Hl1 Hl2; try discriminate; [cbn; ring|].
  injection Hl1 as Hl1. injection Hl2 as Hl2. rewrite !dist2_cons. cbn [crossm]. rewrite (IH x z Hl1 Hl2). ring.
Qed.
Lemma suffix_cons a r : suffix_sums_nonpos Rops (a :: r) = true -> lsum Rops (a :: r) <= 0 /\ suffix_sums_nonpos Rops r = true.
Proof.
  change (suffix_sums_nonpos Rops (a :: r)) with (Rleb (lsum Rops (a :: r)) 0 && suffix_sums_nonpos Rops r).
  rewrite andb_true_iff, Rleb_true. tauto.
Qed.
(* Abel summation: <r, z> <= z_0 * sum r  when z is non-decreasing and every suffix sum of r is <= 0 *)
Lemma abel : forall r z, length r = length z -> ndec z -> suffix_sums_nonpos Rops r = true ->
  dot Rops r z <= hd 0 z * lsum Rops r.
Proof.
  induction r as [|a r IH]; intros [|c z] L Hz Hs; try discriminate; [cbn; lra|].
  injection L as L. apply suffix_cons in Hs. destruct Hs as [_ Hs].
  rewrite dot_cons, lsum_cons. cbn [hd].
  destruct z as [|d z'].
  - destruct r; [|discriminate]. cbn. lra.
  - destruct Hz as [Hcd Hz]. specialize (IH (d :: z') L Hz Hs). cbn [hd] in IH.
    destruct r as [|b r']; [discriminate|]. apply suffix_cons in Hs. destruct Hs as [Hneg _].
    set (S := lsum Rops (b :: r')) in *. clearbody S. nra.
Qed.
Theorem iso_cert_sound v x : iso_cert Rops v x = true ->
  ndec x /\ forall z, length z = length v -> ndec z -> dist2 Rops x v <= dist2 Rops z v.
Proof.
  unfold iso_cert. fold (resid v x). rewrite !andb_true_iff.
  intros [[[[HL Hn] Hsum] Hsuf] Hdot].
  apply Nat.eqb_eq in HL. apply nondecr_ndec in Hn.
  assert (E1 : lsum Rops (resid v x) = 0).
  { apply feqb_true in Hsum. exact Hsum. }
  assert (E2 : dot Rops (resid v x) x = 0).
  { apply feqb_true in Hdot. exact Hdot. }
  split; [exact Hn|]. intros z Lz Hz.
  rewrite (dist2_expand_crossm v x z Lz HL), (crossm_dot v x z HL Lz), E2.
  assert (Lr : length (resid v x) = length z).
  { unfold resid. rewrite map_length, combine_length, HL, Lz. apply Nat.min_id. }
  pose proof (abel (resid v x) z Lr Hz Hsuf) as A. rewrite E1 in A.
  pose proof (dist2_nonneg z x). lra.
Qed.

Theorem monotone_feasible v :
  ndec (monotonicity_prox Rops false v) /\ ndec (rev (monotonicity_prox Rops true v)) /\ 
  length (monotonicity_prox Rops false v) = length v /\ length (monotonicity_prox Rops true v) = length v.
Proof. repeat split; [apply monotone_inc_feasible | apply monotone_dec_feasible | apply (monotone_length false) | apply (monotone_length true)]. Qed.
Theorem monotone_optimal_partial v : iso_cert Rops v (monotonicity_prox Rops false v) = true ->
  forall z, length z = length v -> ndec z -> dist2 Rops (monotonicity_prox Rops false v) v <= dist2 Rops z v.
Proof. intros H. exact (proj2 (iso_cert_sound v _ H)). Qed.

(* ---------- normalized_sparsity_prox: feasibility *)
Lemma sumsq_div s : s <> 0 -> forall h, sumsq Rops (map (fun x => fdiv Rops x s) h) = sumsq Rops h / (s * s).
Proof.
  intros Hs. induction h as [|a h IH]; [cbn; field; exact Hs|]. cbn [map]. rewrite !sumsq_cons, IH. cbn [fdiv Rops]. field. exact Hs.
Qed.
Lemma nnz_div s : forall h, (nnzR (map (fun x => fdiv Rops x s) h) <= nnzR h)%nat.
Proof.
  induction h as [|a h IH]; [cbn; lia|].
  change (map (fun x => fdiv Rops x s) (a :: h)) with ((a / s) :: map (fun x => fdiv Rops x s) h).
  unfold nnzR in *. cbn [filter].
  destruct (Req_EM_T (a / s) 0) as [E|N]; destruct (Req_EM_T a 0) as [E'|N']; cbn [length].
  - exact IH.
  - lia.
  - exfalso. apply N. rewrite E'. unfold Rdiv. ring.
  - lia.
Qed.
Theorem normalized_sparsity_feasible s k v : 0 < s -> s * s = sumsq Rops (hard_thresholding Rops k v) ->
  sumsq Rops (normalized_sparsity_with Rops s k v) = 1 /\ (nnzR (normalized_sparsity_with Rops s k v) <= k)%nat.
Proof.
  intros Hs E. unfold normalized_sparsity_with. split.
  - rewrite sumsq_div by lra. rewrite <- E. field. lra.
  - eapply Nat.le_trans; [apply nnz_div | apply hard_sparse].
Qed.
