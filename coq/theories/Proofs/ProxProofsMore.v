(* Round 4 additions: firm non-expansiveness of smoothness_prox, of monotonicity_prox(decreasing=True) and of the l1-ball operator on
   or outside the ball; idempotence of max-normalisation and of normalized_sparsity_prox; the column-wise / flattened lifting of
   the per-vector operators to matrices (Model/Prox.colwise, flatwise). *)
From Coq Require Import List Reals Lra Psatz Lia Bool.
From TLV Require Import Base.Ops Model.Prox Proofs.ProxProofs Proofs.ProxProofsHard Proofs.ProxProofsRefute Proofs.ProxProofsSimplex
  Proofs.ProxProofsMono Proofs.ProxProofsIso Proofs.ProxProofsSmooth Proofs.ProxProofsFirm Proofs.ProxProofsNormSp.
Import ListNotations.
Open Scope R_scope.

(* ---------- smoothness_prox = prox of the convex quadratic (t/2) rough *)
Lemma rough_convex lam : 0 <= lam <= 1 -> forall a b pa pb, length a = length b ->
  rough (pa + lam * (pb - pa)) (lerp lam a b) <= (1 - lam) * rough pa a + lam * rough pb b.
Proof.
  intros Hl. induction a as [|x a IH]; intros [|y b] pa pb L; try discriminate.
  - cbn [lerp combine map rough].
    assert (0 <= lam * (1 - lam) * ((pa - pb) * (pa - pb))) by (apply Rmult_le_pos; [apply Rmult_le_pos; lra | apply sq_nonneg]). nra.
  - injection L as L. unfold lerp in *. cbn [combine map fst snd rough]. specialize (IH b x y L).
    assert (0 <= lam * (1 - lam) * (((x - pa) - (y - pb)) * ((x - pa) - (y - pb)))) by (apply Rmult_le_pos; [apply Rmult_le_pos; lra | apply sq_nonneg]).
    nra.
Qed.
Lemma smooth_pen_convex t n : 0 <= t -> convex_fun n (fun x => t / 2 * rough 0 x).
Proof.
  intros Ht a b lam La Lb Hlam. cbv beta.
  pose proof (rough_convex lam Hlam a b 0 0 ltac:(congruence)) as H. replace (0 + lam * (0 - 0)) with 0 in H by ring. nra.
Qed.
Theorem smoothness_firmly_nonexpansive t u v : 0 <= t -> length u = length v ->
  dist2 Rops (smoothness_solve Rops t u) (smoothness_solve Rops t v)
  <= dotd (smoothness_solve Rops t u) (smoothness_solve Rops t v) u v.
Proof.
  intros Ht L. apply (prox_firmly_nonexpansive (length v) (fun x => t / 2 * rough 0 x) (smoothness_solve Rops t)); auto.
  - apply smooth_pen_convex; exact Ht.
  - intros w Lw. split; [rewrite smoothness_solve_length; exact Lw|]. intros z Lz.
    pose proof (smoothness_solve_optimal t w z Ht ltac:(congruence)) as H. unfold smooth_obj in H. exact H.
Qed.

(* ---------- monotonicity_prox(decreasing=True) *)
Lemma dotd_app : forall a b c d a' b' c' d' : list R, length a = length b -> length a = length c -> length a = length d ->
  dotd (a ++ a') (b ++ b') (c ++ c') (d ++ d') = dotd a b c d + dotd a' b' c' d'.
Proof.
  induction a as [|x a IH]; intros [|y b] [|z c] [|w d] a' b' c' d' L1 L2 L3; try discriminate; [cbn; ring|].
  injection L1 as L1. injection L2 as L2. injection L3 as L3. cbn [app dotd]. rewrite IH by assumption. ring.
Qed.
Lemma dotd_rev : forall a b c d : list R, length a = length b -> length a = length c -> length a = length d ->
  dotd (rev a) (rev b) (rev c) (rev d) = dotd a b c d.
Proof.
  induction a as [|x a IH]; intros [|y b] [|z c] [|w d] L1 L2 L3; try discriminate; [reflexivity|].
  injection L1 as L1. injection L2 as L2. injection L3 as L3. cbn [rev].
  rewrite dotd_app by (rewrite !rev_length; assumption). rewrite IH by assumption. cbn. ring.
Qed.
Theorem monotone_dec_firmly_nonexpansive u v : length u = length v ->
  dist2 Rops (monotonicity_prox Rops true u) (monotonicity_prox Rops true v)
  <= dotd (monotonicity_prox Rops true u) (monotonicity_prox Rops true v) u v.
Proof.
  intros L. unfold monotonicity_prox.
  set (X := monotone_inc Rops (rev u)). set (Y := monotone_inc Rops (rev v)).
  assert (LX : length X = length u) by (unfold X; rewrite monotone_inc_length, rev_length; reflexivity).
  assert (LY : length Y = length v) by (unfold Y; rewrite monotone_inc_length, rev_length; reflexivity).
  rewrite dist2_rev by congruence.
  replace (dotd (rev X) (rev Y) u v) with (dotd (rev X) (rev Y) (rev (rev u)) (rev (rev v))) by (rewrite !rev_involutive; reflexivity).
  rewrite dotd_rev by (rewrite ?rev_length; congruence).
  apply monotone_inc_firmly_nonexpansive. rewrite !rev_length. exact L.
Qed.

(* ---------- the l1-ball operator, both points on or outside the ball *)
Lemma soft_sparsity_length p v : length (soft_sparsity_prox Rops p v) = length v.
Proof. rewrite soft_sparsity_is_soft. apply soft_length. Qed.
Lemma l1ball_convex p n : convex_set n (fun z => l1n Rops z <= p).
Proof.
  intros a b lam Ha Hb La Lb Hlam. cbv beta in *.
  pose proof (l1n_convex 1 n ltac:(lra) a b lam La Lb Hlam) as H. cbv beta in H. nra.
Qed.
Theorem l1ball_outside_firmly_nonexpansive p u v : 0 < p -> p <= l1n Rops u -> p <= l1n Rops v -> length u = length v ->
  dist2 Rops (soft_sparsity_prox Rops p u) (soft_sparsity_prox Rops p v)
  <= dotd (soft_sparsity_prox Rops p u) (soft_sparsity_prox Rops p v) u v.
Proof.
  intros Hp Hu Hv L.
  set (n := length v). set (C := fun z => l1n Rops z <= p).
  set (Pu := soft_sparsity_prox Rops p u). set (Pv := soft_sparsity_prox Rops p v).
  assert (LPu : length Pu = n) by (unfold Pu, n; rewrite soft_sparsity_length; exact L).
  assert (LPv : length Pv = n) by (unfold Pv, n; apply soft_sparsity_length).
  assert (Cu : C Pu) by (unfold C, Pu; rewrite l1ball_outside_feasible by assumption; lra).
  assert (Cv : C Pv) by (unfold C, Pv; rewrite l1ball_outside_feasible by assumption; lra).
  pose proof (projection_variational n C Pu u Pv (l1ball_convex p n) Cu Cv LPu LPv L
    (fun w Hw Lw => l1ball_outside_optimal p u w Hp Hu ltac:(unfold n in Lw; congruence) Hw)) as V1.
  pose proof (projection_variational n C Pv v Pu (l1ball_convex p n) Cv Cu LPv LPu eq_refl
    (fun w Hw Lw => l1ball_outside_optimal p v w Hp Hv ltac:(unfold n in Lw; congruence) Hw)) as V2.
  rewrite (dotd_split u v Pu Pv) by (unfold n in *; congruence). lra.
Qed.

(* ---------- idempotence of the two normalisations *)
Lemma map_div_one : forall l : list R, map (fun x => fdiv Rops x 1) l = l.
Proof. induction l as [|a l IH]; [reflexivity|]. cbn [map]. rewrite IH. f_equal. cbn. field. Qed.
Theorem normalize_idempotent v : 0 < maxabs Rops v -> normalize Rops (normalize Rops v) = normalize Rops v.
Proof.
  intros H. unfold normalize at 1. rewrite (maxnorm_partial v H). apply map_div_one.
Qed.
(* re-applying the operator to its own output x (whose norm tape is 1) returns x *)
Theorem normalized_sparsity_idempotent s k v : 0 < s -> s * s = sumsq Rops (hard_thresholding Rops k v) ->
  normalized_sparsity_with Rops 1 k (normalized_sparsity_with Rops s k v) = normalized_sparsity_with Rops s k v.
Proof.
  intros Hs E. destruct (normalized_sparsity_feasible s k v Hs E) as [_ Hk].
  unfold normalized_sparsity_with at 1. rewrite (hard_fixes_sparse k _ Hk). apply map_div_one.
Qed.

(* instances of the hypotheses convex_set / convex_fun of the two generic lemmas *)
Lemma convexity_instances :
  convex_set 3 (Forall (fun x => 0 <= x)) /\ convex_set 3 ndec /\ convex_set 3 (in_simplex 1) /\
  convex_fun 3 (fun x => 2 * l1n Rops x) /\ convex_fun 3 (fun x => 2 * sqrt (sumsq Rops x)).
Proof. refine (conj (nonneg_convex 3) (conj (ndec_convex 3) (conj (simplex_convex 1 3) (conj (l1n_convex 2 3 _) (norm_convex 2 3 _))))); lra. Qed.
