(* normalized_sparsity_prox = hard_thresholding / its l2 norm is a NEAREST point of the (non-convex) set
   { x : at most k non-zeros, |x|_2 = 1 } whenever the kept part is non-zero. *)
From Coq Require Import List Reals Lra Psatz Lia Bool.
From TLV Require Import Base.Ops Model.Prox Proofs.ProxProofs Proofs.ProxProofsHard Proofs.ProxProofsMono.
Import ListNotations.
Open Scope R_scope.

Lemma apply_mask_length : forall m (v : list R), length m = length v -> length (apply_mask Rops m v) = length v.
Proof. intros m v L. unfold apply_mask. rewrite map_length, combine_length, L. apply Nat.min_id. Qed.
Lemma sumsq_mask_split : forall m v, length m = length v -> sumsq Rops v = sumsq Rops (apply_mask Rops m v) + dropsum m v.
Proof.
  induction m as [|b m IH]; intros [|y v] L; try discriminate; [cbn; ring|].
  injection L as L. rewrite apply_mask_cons, !sumsq_cons. cbn [dropsum]. rewrite (IH v L). destruct b; ring.
Qed.
Lemma dot_mask_self : forall m v, dot Rops (apply_mask Rops m v) v = sumsq Rops (apply_mask Rops m v).
Proof.
  induction m as [|b m IH]; intros [|y v]; try reflexivity.
  rewrite apply_mask_cons, dot_cons, sumsq_cons, IH. destruct b; ring.
Qed.
Lemma dot_nz_mask : forall z v, length z = length v -> dot Rops z (apply_mask Rops (map nzb z) v) = dot Rops z v.
Proof.
  induction z as [|a z IH]; intros [|y v] L; try discriminate; [reflexivity|].
  injection L as L. cbn [map]. rewrite apply_mask_cons, !dot_cons, (IH v L). unfold nzb.
  destruct (Req_EM_T a 0) as [->|N]; ring.
Qed.
Lemma dot_div s : forall h v, dot Rops (map (fun x => fdiv Rops x s) h) v = dot Rops h v / s.
Proof.
  induction h as [|a h IH]; intros [|y v]; try (cbn; unfold Rdiv; ring).
  cbn [map]. rewrite !dot_cons, IH. cbn [fdiv Rops]. unfold Rdiv. ring.
Qed.

Theorem normalized_sparsity_nearest s k v z : 0 < s -> s * s = sumsq Rops (hard_thresholding Rops k v) ->
  length z = length v -> (nnzR z <= k)%nat -> sumsq Rops z = 1 ->
  dist2 Rops (normalized_sparsity_with Rops s k v) v <= dist2 Rops z v.
Proof.
  intros Hs Es Lz Hk Hz.
  set (h := hard_thresholding Rops k v) in *.
  assert (Lh : length h = length v) by apply hard_length.
  (* the output: |x|^2 = 1, <x, v> = s *)
  unfold normalized_sparsity_with. fold h.
  rewrite (dist2_expand_dot _ v) by (rewrite map_length; exact Lh).
  rewrite (dist2_expand_dot z v Lz), Hz.
  rewrite sumsq_div by lra. rewrite dot_div.
  assert (Ehv : dot Rops h v = s * s).
  { unfold h, hard_thresholding. rewrite dot_mask_self. exact (eq_sym Es). }
  rewrite Ehv, <- Es.
  replace (s * s / (s * s)) with 1 by (field; lra). replace (s * s / s) with s by (field; lra).
  (* any competitor: <z, v> = <z, v restricted to the support of z> <= |v restricted| <= |h| = s *)
  set (w := apply_mask Rops (map nzb z) v).
  assert (Lw : length w = length v) by (apply apply_mask_length; rewrite map_length; exact Lz).
  assert (Hw : (nnzR w <= k)%nat).
  { eapply Nat.le_trans; [apply nnz_apply_mask|]. rewrite cnt_nzb. exact Hk. }
  pose proof (hard_nearest k v w Lw Hw) as Hn. fold h in Hn.
  unfold w in Hn at 1. rewrite dist2_apply_mask in Hn.
  unfold h, hard_thresholding in Hn. rewrite dist2_apply_mask in Hn.
  pose proof (sumsq_mask_split (map nzb z) v ltac:(rewrite map_length; exact Lz)) as S1. fold w in S1.
  pose proof (sumsq_mask_split (hard_mask Rops k v) v (hard_mask_length k v)) as S2.
  fold (hard_thresholding Rops k v) in S2. fold h in S2.
  assert (Hsw : sumsq Rops w <= s * s) by lra.
  pose proof (dot_le_norms z w 1 (sqrt (sumsq Rops w)) ltac:(congruence) ltac:(lra) (sqrt_pos _) ltac:(lra)
               (sqrt_sqrt _ (sumsq_nonneg w))) as CS.
  pose proof (dot_nz_mask z v Lz) as DM. fold w in DM. rewrite DM in CS.
  assert (sqrt (sumsq Rops w) <= s).
  { rewrite <- (sqrt_square s) by lra. apply sqrt_le_1; [apply sumsq_nonneg | nra | exact Hsw]. }
  lra.
Qed.
