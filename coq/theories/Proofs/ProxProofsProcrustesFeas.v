(* Round 8: feasibility / nearest point / idempotence of procrustes WITHOUT the exact contract of the SVD oracle, as per-case certificates.
   (A) index level: a matrix X whose columns (rows) are orthonormal to within e entrywise has |X|_F^2 <= cols (1 + e)  (rows (1 + e));
       if moreover <Q, M> <= <X, M> + g for a matrix Q with |Q|_F^2 = c and |X|_F^2 <= c (1 + e), then
           |X - M|_F^2 <= |Q - M|_F^2 + c e + 2 g              (nearest point up to c e + 2 g).
   (B) procrustes_feasible_case_certified: the Boolean Corr/C12.procrustes_feasible_ok the correspondence evaluates on the matrix the executed model
       returns IS approximate feasibility: its columns (tall / square input) or rows (wide input) are orthonormal to within 1e-9 entrywise.
   (C) procrustes_nearest_case_certified: with the Boolean of the maximisation certificate (procrustes_case_ok) as well, the returned matrix is
       a nearest point of the set up to  min(m, n) 1e-9 + 2 procrustes_gap;  procrustes_fixed_case_certified: in particular an input M that is itself
       feasible is moved by at most that much (idempotence up to the certificate). *)
From Coq Require Import List Arith ZArith QArith Reals Qreals Lra Lia Bool.
From TLV Require Import Base.Ops Base.RSum Model.Prox Model.ProxSvtGap Corr.C12
  Proofs.ProxProofsMatrix Proofs.ProxProofsSvt Proofs.ProxProofsSvtList Proofs.ProxProofsSvtPerturb Proofs.ProxProofsTapeCert Proofs.ProxProofsSvtFirmGap.
Import ListNotations.
Open Scope R_scope.

Lemma aocols_frob_le m n e X : aocols m n e X -> frob m n X X <= INR n * (1 + e).
Proof.
  intros H. unfold frob. rewrite rsum_exchange. rewrite <- rsum_const. apply rsum_le; intros j Hj.
  pose proof (H j j Hj Hj) as B. unfold gram, delta in B. destruct (Nat.eq_dec j j) as [_|N]; [|congruence].
  pose proof (Rle_abs (rsum m (fun i => X i j * X i j) - 1)). lra.
Qed.
Lemma aorows_frob_le m n e X : aocols n m e (fun j i => X i j) -> frob m n X X <= INR m * (1 + e).
Proof.
  intros H. unfold frob. rewrite <- rsum_const. apply rsum_le; intros i Hi.
  pose proof (H i i Hi Hi) as B. unfold gram, delta in B. destruct (Nat.eq_dec i i) as [_|N]; [|congruence].
  pose proof (Rle_abs (rsum n (fun j => X i j * X i j) - 1)). lra.
Qed.
Lemma fro2_expand m n A B : fro2 m n A B = frob m n A A - 2 * frob m n A B + frob m n B B.
Proof.
  rewrite fro2_rsum2, !frob_rsum2.
  rewrite (rsum2_lin4 m n 1 (-2) 1 0 _ (fun i j => A i j * A i j) (fun i j => A i j * B i j) (fun i j => B i j * B i j) (fun _ _ => 0)); [ring|].
  intros i j. ring.
Qed.
Lemma nearest_from_max m n X Q M c e g : frob m n Q Q = c -> frob m n X X <= c * (1 + e) -> frob m n Q M <= frob m n X M + g ->
  fro2 m n X M <= fro2 m n Q M + c * e + 2 * g.
Proof. intros HQ HX Hmax. rewrite !fro2_expand. lra. Qed.

Lemma Q2R_e9 : Q2R (1 # 1000000000) = / 1000000000.
Proof. unfold Q2R. cbn. lra. Qed.

Theorem procrustes_feasible_case_certified (m n : nat) (X : list (list Q)) :
  procrustes_feasible_ok m n X = true ->
  ((n <= m)%nat -> aocols m n (Q2R (1 # 1000000000)) (mfun (map (map Q2R) X))) /\
  ((m < n)%nat -> aocols n m (Q2R (1 # 1000000000)) (fun j i => mfun (map (map Q2R) X) i j)).
Proof.
  unfold procrustes_feasible_ok. intros H. repeat rewrite andb_true_iff in H. destruct H as [[[Hm Hn] HX] G].
  apply Nat.leb_le in Hm. apply Nat.leb_le in Hn. pose proof (rectb_rect _ _ _ HX) as RX.
  split; intros L.
  - assert (E : Nat.leb n m = true) by (apply Nat.leb_le; exact L). rewrite E in G.
    apply gram_cols_close_aocols; assumption.
  - assert (E : Nat.leb n m = false) by (apply Nat.leb_gt; exact L). rewrite E in G.
    apply gram_rows_close_aocols; assumption.
Qed.

Theorem procrustes_nearest_case_certified (m n k : nat) (U : list (list Q)) (s : list Q) (V M : list (list Q)) (d : Q) :
  procrustes_case_ok m n k U s V M d = true -> procrustes_feasible_ok m n (procrustes_with Qops U V) = true ->
  forall Qm : nat -> nat -> R, (ocols m n Qm /\ (n <= m)%nat) \/ (ocols n m (fun j i => Qm i j) /\ (m <= n)%nat) ->
  let X := mfun (map (map Q2R) (procrustes_with Qops U V)) in
  fro2 m n X (mfun (map (map Q2R) M))
  <= fro2 m n Qm (mfun (map (map Q2R) M)) + INR (Nat.min m n) * Q2R (1 # 1000000000) + 2 * Q2R (procrustes_gap Qops (1 # 1000000000) d U s V M).
Proof.
  intros C F Qm HQ X.
  assert (Hmax : frob m n Qm (mfun (map (map Q2R) M)) <= frob m n X (mfun (map (map Q2R) M)) + Q2R (procrustes_gap Qops (1 # 1000000000) d U s V M)).
  { apply (procrustes_case_certified m n k U s V M d C). destruct HQ as [[H _]|[H _]]; [left | right]; exact H. }
  destruct (procrustes_feasible_case_certified m n _ F) as [Fc Fr]. fold X in Fc, Fr.
  assert (HQn : frob m n Qm Qm = INR (Nat.min m n)).
  { destruct HQ as [[H L]|[H L]].
    - rewrite (ocols_frob m n Qm H). f_equal. lia.
    - rewrite (orows_frob m n Qm H). f_equal. lia. }
  assert (HXn : frob m n X X <= INR (Nat.min m n) * (1 + Q2R (1 # 1000000000))).
  { destruct (le_lt_dec n m) as [L|L].
    - replace (Nat.min m n) with n by lia. apply aocols_frob_le, Fc, L.
    - replace (Nat.min m n) with m by lia. apply aorows_frob_le, Fr, L. }
  apply nearest_from_max; assumption.
Qed.

(* idempotence up to the certificate: an input that is itself in the set is moved by at most min(m, n) 1e-9 + 2 procrustes_gap (squared distance) *)
Theorem procrustes_fixed_case_certified (m n k : nat) (U : list (list Q)) (s : list Q) (V M : list (list Q)) (d : Q) :
  procrustes_case_ok m n k U s V M d = true -> procrustes_feasible_ok m n (procrustes_with Qops U V) = true ->
  let Mf := mfun (map (map Q2R) M) in
  (ocols m n Mf /\ (n <= m)%nat) \/ (ocols n m (fun j i => Mf i j) /\ (m <= n)%nat) ->
  fro2 m n (mfun (map (map Q2R) (procrustes_with Qops U V))) Mf
  <= INR (Nat.min m n) * Q2R (1 # 1000000000) + 2 * Q2R (procrustes_gap Qops (1 # 1000000000) d U s V M).
Proof.
  intros C F Mf HM.
  pose proof (procrustes_nearest_case_certified m n k U s V M d C F Mf HM) as P. cbv zeta in P. fold Mf in P.
  assert (Z : fro2 m n Mf Mf = 0).
  { unfold fro2, frob. apply rsum_zero; intros i _. apply rsum_zero; intros j _. ring. }
  rewrite Z in P. lra.
Qed.
