(* Round 8: feasibility of procrustes from the APPROXIMATE contract of the SVD oracle (a perturbation theorem, no per-case Boolean on the output).
   If the Gram matrix of the columns of U (m x k) is within e of the identity entrywise, and so is the Gram matrix of the columns of V (k x n) - the extra
   clause of C12_procrustes_feasible, "the square factor V is orthogonal on both sides", in approximate form; the per-run check decides both on the
   recorded answer with e = 1e-9 - then the columns of U V are orthonormal to within  e (1 + k (1 + e))  entrywise.  Symmetrically for the rows of
   U V (wide input) from the rows of V and of U.  With e = 0 this is C12_procrustes_feasible. *)
From Coq Require Import Reals Lra Lia List.
From TLV Require Import Base.Ops Base.RSum Model.Prox Proofs.ProxProofsMatrix Proofs.ProxProofsSvt Proofs.ProxProofsSvtList Proofs.ProxProofsSvtPerturb.
Open Scope R_scope.

Lemma Rabs_rsum n f : Rabs (rsum n f) <= rsum n (fun i => Rabs (f i)).
Proof.
  induction n as [|n IH]; cbn [rsum]; [rewrite Rabs_R0; lra|].
  eapply Rle_trans; [apply Rabs_triang|]. lra.
Qed.
Lemma rsum_delta_row k (c d : nat -> R) :
  rsum k (fun l => rsum k (fun l' => (c l * d l') * delta l l')) = rsum k (fun l => c l * d l).
Proof.
  apply rsum_ext; intros l Hl. exact (rsum_delta k (fun x => c l * d x) l Hl).
Qed.
(* the quadratic form of an approximately orthonormal family *)
Lemma aquad rows cols e A c d : aocols rows cols e A ->
  Rabs (rsum rows (fun i => rsum cols (fun l => c l * A i l) * rsum cols (fun l => d l * A i l)) - rsum cols (fun l => c l * d l))
  <= e * (rsum cols (fun l => Rabs (c l)) * rsum cols (fun l => Rabs (d l))).
Proof.
  intros H. rewrite quad_expand_gram, <- (rsum_delta_row cols c d).
  rewrite <- rsum_sub.
  rewrite (rsum_ext cols _ (fun l => rsum cols (fun l' => (c l * d l') * (gram rows A l l' - delta l l'))))
    by (intros l _; rewrite <- rsum_sub; apply rsum_ext; intros l' _; ring).
  eapply Rle_trans; [apply Rabs_rsum|].
  rewrite rsum_mul, <- rsum_scale. apply rsum_le; intros l Hl.
  eapply Rle_trans; [apply Rabs_rsum|]. rewrite <- rsum_scale. apply rsum_le; intros l' Hl'.
  rewrite !Rabs_mult. pose proof (H l l' Hl Hl') as B.
  pose proof (Rabs_pos (c l)). pose proof (Rabs_pos (d l')).
  assert (0 <= Rabs (c l) * Rabs (d l')) by (apply Rmult_le_pos; assumption).
  nra.
Qed.
Lemma l1_l2 k (c : nat -> R) : (rsum k (fun l => Rabs (c l)))^2 <= INR k * rsum k (fun l => (c l)^2).
Proof.
  pose proof (cauchy_schwarz k (fun l => Rabs (c l)) (fun _ => 1)) as CS. cbv beta in CS.
  rewrite (rsum_ext k (fun i => Rabs (c i) * 1) (fun l => Rabs (c l))) in CS by (intros; ring).
  rewrite (rsum_ext k (fun i => Rabs (c i) ^ 2) (fun l => (c l)^2)) in CS by (intros; apply pow2_abs).
  rewrite (rsum_ext k (fun _ => 1 ^ 2) (fun _ => 1)) in CS by (intros; ring).
  rewrite rsum_const in CS. lra.
Qed.
Lemma l1_product k (c d : nat -> R) b : rsum k (fun l => (c l)^2) <= b -> rsum k (fun l => (d l)^2) <= b ->
  rsum k (fun l => Rabs (c l)) * rsum k (fun l => Rabs (d l)) <= INR k * b.
Proof.
  intros Hc Hd. pose proof (l1_l2 k c) as Lc. pose proof (l1_l2 k d) as Ld.
  set (x := rsum k (fun l => Rabs (c l))) in *. set (y := rsum k (fun l => Rabs (d l))) in *.
  assert (K : 0 <= INR k) by apply pos_INR.
  assert (x * y <= (x^2 + y^2) / 2) by (pose proof (pow2_ge_0 (x - y)); nra).
  assert (x^2 <= INR k * b) by nra. assert (y^2 <= INR k * b) by nra. lra.
Qed.
Lemma aocols_diag_le rows cols e A a : aocols rows cols e A -> (a < cols)%nat -> rsum rows (fun i => (A i a)^2) <= 1 + e.
Proof.
  intros H Ha. pose proof (H a a Ha Ha) as B. unfold gram, delta in B. destruct (Nat.eq_dec a a) as [_|N]; [|congruence].
  rewrite (rsum_ext rows (fun i => (A i a)^2) (fun i => A i a * A i a)) by (intros; ring).
  pose proof (Rle_abs (rsum rows (fun i => A i a * A i a) - 1)). lra.
Qed.

(* tall / square input: columns of U V *)
Theorem procrustes_feasible_cols_perturbed m n k U V e : aocols m k e U -> aocols k n e V ->
  aocols m n (e * (1 + INR k * (1 + e))) (compose k U (fun _ => 1) V).
Proof.
  intros HU HV a b Ha Hb. unfold gram, compose.
  rewrite (rsum_ext m _ (fun i => rsum k (fun l => V l a * U i l) * rsum k (fun l => V l b * U i l)))
    by (intros; f_equal; apply rsum_ext; intros; ring).
  pose proof (aquad m k e U (fun l => V l a) (fun l => V l b) HU) as Q. cbv beta in Q.
  pose proof (HV a b Ha Hb) as G. unfold gram in G.
  pose proof (l1_product k (fun l => V l a) (fun l => V l b) (1 + e) (aocols_diag_le k n e V a HV Ha) (aocols_diag_le k n e V b HV Hb)) as L.
  assert (E0 : 0 <= e) by (pose proof (Rabs_pos (rsum k (fun i => V i a * V i b) - delta a b)); lra).
  set (S1 := rsum m (fun i => rsum k (fun l => V l a * U i l) * rsum k (fun l => V l b * U i l))) in *.
  set (S2 := rsum k (fun l => V l a * V l b)) in *.
  replace (S1 - delta a b) with ((S1 - S2) + (S2 - delta a b)) by ring.
  eapply Rle_trans; [apply Rabs_triang|].
  set (P := rsum k (fun l => Rabs (V l a)) * rsum k (fun l => Rabs (V l b))) in *.
  assert (e * P <= e * (INR k * (1 + e))) by (apply Rmult_le_compat_l; assumption).
  lra.
Qed.
(* wide / square input: rows of U V *)
Theorem procrustes_feasible_rows_perturbed m n k U V e : aocols n k e (fun j l => V l j) -> aocols k m e (fun l i => U i l) ->
  aocols n m (e * (1 + INR k * (1 + e))) (fun j i => compose k U (fun _ => 1) V i j).
Proof.
  intros HV HU a b Ha Hb. unfold gram, compose.
  rewrite (rsum_ext n _ (fun j => rsum k (fun l => U a l * V l j) * rsum k (fun l => U b l * V l j)))
    by (intros; f_equal; apply rsum_ext; intros; ring).
  pose proof (aquad n k e (fun j l => V l j) (fun l => U a l) (fun l => U b l) HV) as Q. cbv beta in Q.
  pose proof (HU a b Ha Hb) as G. unfold gram in G.
  pose proof (l1_product k (fun l => U a l) (fun l => U b l) (1 + e)
                (aocols_diag_le k m e (fun l i => U i l) a HU Ha) (aocols_diag_le k m e (fun l i => U i l) b HU Hb)) as L.
  assert (E0 : 0 <= e) by (pose proof (Rabs_pos (rsum k (fun i => U a i * U b i) - delta a b)); lra).
  set (S1 := rsum n (fun j => rsum k (fun l => U a l * V l j) * rsum k (fun l => U b l * V l j))) in *.
  set (S2 := rsum k (fun l => U a l * U b l)) in *.
  replace (S1 - delta a b) with ((S1 - S2) + (S2 - delta a b)) by ring.
  eapply Rle_trans; [apply Rabs_triang|].
  set (P := rsum k (fun l => Rabs (U a l)) * rsum k (fun l => Rabs (U b l))) in *.
  assert (e * P <= e * (INR k * (1 + e))) by (apply Rmult_le_compat_l; assumption).
  lra.
Qed.

Theorem procrustes_feasible_perturbed (m n k : nat) (U V : nat -> nat -> R) (e : R) :
  (aocols m k e U -> aocols k n e V -> aocols m n (e * (1 + INR k * (1 + e))) (compose k U (fun _ => 1) V)) /\
  (aocols n k e (fun j l => V l j) -> aocols k m e (fun l i => U i l) -> aocols n m (e * (1 + INR k * (1 + e))) (fun j i => compose k U (fun _ => 1) V i j)).
Proof. split; [apply procrustes_feasible_cols_perturbed | apply procrustes_feasible_rows_perturbed]. Qed.
(* the same for the list model *)
Lemma aocols_ext rows cols e A B : (forall i a, (i < rows)%nat -> (a < cols)%nat -> A i a = B i a) -> aocols rows cols e B -> aocols rows cols e A.
Proof.
  intros E H a b Ha Hb. unfold gram.
  rewrite (rsum_ext rows _ (fun i => B i a * B i b)) by (intros i Hi; rewrite !E by assumption; reflexivity). apply (H a b Ha Hb).
Qed.
Theorem procrustes_list_feasible_perturbed (m n k : nat) (U V : list (list R)) (e : R) :
  (1 <= k)%nat -> rect m k U -> rect k n V -> aocols m k e (mfun U) -> aocols n k e (fun j l => mfun V l j) ->
  (aocols k n e (mfun V) -> aocols m n (e * (1 + INR k * (1 + e))) (mfun (procrustes_with Rops U V))) /\
  (aocols k m e (fun l i => mfun U i l) -> aocols n m (e * (1 + INR k * (1 + e))) (fun j i => mfun (procrustes_with Rops U V) i j)).
Proof.
  intros Hk RU RV HU HV. split.
  - intros HVc. apply (aocols_ext m n _ _ (compose k (mfun U) (fun _ => 1) (mfun V))).
    + intros i a Hi Ha. apply (procrustes_entries m n k U V Hk RU RV i a Hi Ha).
    + apply procrustes_feasible_cols_perturbed; assumption.
  - intros HUr. apply (aocols_ext n m _ _ (fun j i => compose k (mfun U) (fun _ => 1) (mfun V) i j)).
    + intros j i Hj Hi. apply (procrustes_entries m n k U V Hk RU RV i j Hi Hj).
    + apply procrustes_feasible_rows_perturbed; assumption.
Qed.
(* non-vacuity: the approximately orthonormal 2 x 2 instance of ProxProofsSvtPerturb with itself as V *)
Lemma feasible_perturbed_instance :
  let A := fun i j : nat => match i, j with O, O => 1 | O, S O => 1 / 100 | S O, S O => 1 | _, _ => 0 end in
  aocols 2 2 (1 / 50) A /\ ~ ocols 2 2 A /\ aocols 2 2 (1 / 50 * (1 + INR 2 * (1 + 1 / 50))) (compose 2 A (fun _ => 1) A).
Proof.
  intros A. destruct aocols_instance as (H & N & _). fold A in H, N.
  split; [exact H | split; [exact N | apply procrustes_feasible_cols_perturbed; exact H]].
Qed.
