(* procrustes without the exact SVD contract: for ANY recorded answer (U, s, V) whose singular vectors are orthonormal to within e entrywise and
   s >= 0, any input M and any weight d > 0, every matrix Q with orthonormal columns (or rows) satisfies
     <Q, M>  <=  <U V, M> + procrustes_gap e d U s V M,
   an arithmetic expression in the recorded answer and M (Model/ProxSvtGap.v) that the correspondence evaluates exactly per case. *)
From Coq Require Import List Reals Lra Lia Bool.
From TLV Require Import Base.Ops Base.RSum Model.Prox Model.ProxSvtGap Proofs.ProxProofs Proofs.ProxProofsIso Proofs.ProxProofsSimplex
  Proofs.ProxProofsMatrix Proofs.ProxProofsSvt Proofs.ProxProofsSvtList Proofs.ProxProofsSvtPerturb Proofs.ProxProofsSvtGap.
Import ListNotations.
Open Scope R_scope.

Lemma frob_cs_bound m n A B d : 0 < d -> frob m n A B <= (d * frob m n A A + frob m n B B / d) / 2.
Proof.
  intros Hd. set (i := / d). assert (Hi : d * i = 1) by (unfold i; apply Rinv_r; lra). assert (Ip : 0 < i) by (apply Rinv_0_lt_compat, Hd).
  assert (E : (d * frob m n A A + frob m n B B / d) / 2 - frob m n A B
              = rsum m (fun r => rsum n (fun c => (d * (A r c * A r c) + (B r c * B r c) * i) / 2 - A r c * B r c))).
  { unfold frob, Rdiv. fold i. rewrite <- !rsum_scale. rewrite (Rmult_comm (rsum m _) i), <- rsum_scale, <- rsum_add.
    rewrite (Rmult_comm _ (/ 2)), <- rsum_scale, <- rsum_sub. apply rsum_ext; intros r _.
    rewrite <- !rsum_scale, <- rsum_add, <- rsum_scale, <- rsum_sub. apply rsum_ext; intros c _. ring. }
  assert (P : 0 <= rsum m (fun r => rsum n (fun c => (d * (A r c * A r c) + (B r c * B r c) * i) / 2 - A r c * B r c))).
  { apply rsum_nonneg; intros r _. apply rsum_nonneg; intros c _. set (a := A r c). set (b := B r c).
    assert (Q : d * (a * a) - 2 * (a * b) + b * b * i = (d * a - b)^2 * i + (1 - d * i) * (d * (a * a) - 2 * (a * b))) by ring.
    rewrite Hi in Q. assert (0 <= (d * a - b)^2 * i) by (apply Rmult_le_pos; [apply pow2_ge_0 | lra]). lra. }
  lra.
Qed.

Section ProcrustesPerturbed.
Variables (m n k : nat) (U V : nat -> nat -> R) (s : nat -> R) (e : R).
Hypothesis HU : aocols m k e U.
Hypothesis HV : aocols n k e (fun j l => V l j).
Hypothesis Hs : forall l, (l < k)%nat -> 0 <= s l.
Theorem procrustes_perturbed (M Q : nat -> nat -> R) (d : R) : 0 < d -> ocols m n Q \/ ocols n m (fun j i => Q i j) ->
  frob m n Q M <= (1 + e) * rsum k s + (d * INR (Nat.max m n) + fro2f m n M (compose k U s V) / d) / 2.
Proof.
  intros Hd HQ.
  assert (SQ : spec_le m n 1 Q).
  { intros u v Hu Hv. destruct HQ as [C|Rw]; [apply bil_isometry_cols | apply bil_isometry_rows]; assumption. }
  pose proof (anuc_compose m n k U V e s HU HV Hs Q SQ) as N1.
  assert (FQ : frob m n Q Q <= INR (Nat.max m n)).
  { destruct HQ as [C|Rw]; [rewrite (ocols_frob m n Q C) | rewrite (orows_frob m n Q Rw)]; apply le_INR; lia. }
  pose proof (frob_cs_bound m n Q (fun i j => M i j - compose k U s V i j) d Hd) as N2.
  assert (Sp : frob m n Q M = frob m n Q (compose k U s V) + frob m n Q (fun i j => M i j - compose k U s V i j)).
  { unfold frob. rewrite <- rsum_add. apply rsum_ext; intros i _. rewrite <- rsum_add. apply rsum_ext; intros j _. ring. }
  unfold fro2f. rewrite Sp.
  assert (d * frob m n Q Q <= d * INR (Nat.max m n)) by (apply Rmult_le_compat_l; lra).
  set (RR := frob m n (fun i j => M i j - compose k U s V i j) (fun i j => M i j - compose k U s V i j)) in *.
  unfold Rdiv in *. lra.
Qed.
End ProcrustesPerturbed.

Section ProcrustesGapSound.
Variables (m n k : nat) (U : list (list R)) (s : list R) (V M : list (list R)) (e d : R).
Hypothesis Hm : (1 <= m)%nat.
Hypothesis Hk : (1 <= k)%nat.
Hypothesis RU : rect m k U.
Hypothesis Ls : length s = k.
Hypothesis RV : rect k n V.
Hypothesis RM : rect m n M.
Hypothesis HU : aocols m k e (mfun U).
Hypothesis HV : aocols n k e (fun j l => mfun V l j).
Hypothesis Hs : Forall (fun x => 0 <= x) s.
Hypothesis Hd : 0 < d.
Theorem procrustes_gap_sound (Q : nat -> nat -> R) : ocols m n Q \/ ocols n m (fun j i => Q i j) ->
  frob m n Q (mfun M) <= frob m n (mfun (procrustes_with Rops U V)) (mfun M) + procrustes_gap Rops e d U s V M.
Proof.
  intros HQ.
  assert (Hs' : forall l, (l < k)%nat -> 0 <= vfun s l) by (intros l Hl; unfold vfun; rewrite Forall_forall in Hs; apply Hs, nth_In; lia).
  pose proof (procrustes_perturbed m n k (mfun U) (mfun V) (vfun s) e HU HV Hs' (mfun M) Q d Hd HQ) as P.
  set (Rl := mat_zip (fun a b => a - b) M (mat_mul Rops U (scale_rows Rops s V))).
  assert (RS : rect m n (mat_mul Rops U (scale_rows Rops s V))) by (apply (mat_mul_rect m k n); [exact Hk | exact RU | apply scale_rows_rect; assumption]).
  assert (RR : rect m n Rl) by (apply mat_zip_rect; assumption).
  assert (RP : rect m n (mat_mul Rops U V)) by (apply (mat_mul_rect m k n); assumption).
  assert (F1 : mat_frob Rops Rl Rl = fro2f m n (mfun M) (compose k (mfun U) (vfun s) (mfun V))).
  { rewrite (mat_frob_frob m n Rl Rl RR RR). unfold fro2f.
    assert (EE : forall i j, (i < m)%nat -> (j < n)%nat -> mfun Rl i j = mfun M i j - compose k (mfun U) (vfun s) (mfun V) i j).
    { intros i j Hi Hj. unfold Rl. rewrite (mat_zip_entry m n _ M _ i j RM RS Hi Hj). f_equal.
      rewrite (mat_mul_entry m k n U _ i j Hk RU (scale_rows_rect k n _ V Ls RV) Hi Hj).
      unfold compose. apply rsum_ext; intros l Hl. rewrite (scale_rows_entry k n _ V l j Ls RV Hl). ring. }
    apply frob_ext; assumption. }
  assert (F2 : mat_frob Rops (mat_mul Rops U V) M = frob m n (mfun (procrustes_with Rops U V)) (mfun M)).
  { unfold procrustes_with. apply (mat_frob_frob m n); assumption. }
  assert (LM : length M = m) by (destruct RM; assumption).
  assert (LH : length (hd [] M) = n).
  { destruct RM as [L F]. destruct M as [|r M']; [cbn in L; lia|]. inversion F; subst. reflexivity. }
  assert (G : procrustes_gap Rops e d U s V M
              = ((1 + e) * lsum Rops s + (d * INR (Nat.max m n) + mat_frob Rops Rl Rl / d) / 2) - mat_frob Rops (mat_mul Rops U V) M).
  { unfold procrustes_gap. cbn [fmul fadd fsub fdiv Rops f1 f0]. rewrite LM, LH, nat2F_INR. unfold two. cbn [fadd f1 Rops]. fold Rl.
    replace (if (m <=? n)%nat then n else m) with (Nat.max m n) by (destruct (m <=? n)%nat eqn:E; [apply Nat.leb_le in E | apply Nat.leb_gt in E]; lia).
    replace (1 + 1) with 2 by ring. reflexivity. }
  rewrite G, F1, F2. rewrite lsum_rsum, Ls. lra.
Qed.
End ProcrustesGapSound.
