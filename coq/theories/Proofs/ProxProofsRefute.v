(* Refutations (exact rational witnesses, decided by vm_compute on the executed instance Qops) of the
   three deliberately unfixed operators, and the restricted statements that do hold. *)
From Coq Require Import List QArith Qabs Reals Lra Psatz Bool.
From TLV Require Import Base.Ops Model.Prox Proofs.ProxProofs.
Import ListNotations.

(* ---- soft_sparsity_prox: a point INSIDE the l1 ball is moved (a projection would fix it) *)
Lemma l1ball_refuted : exists (p : Q) (v : list Q),
  Qle_bool (l1n Qops v) p = true /\
  (dist2 Qops v v < dist2 Qops (soft_sparsity_prox Qops p v) v)%Q.
Proof. exists 1%Q, [(1#10); (2#10)]%Q. split; vm_compute; reflexivity. Qed.

(* ---- max-normalisation: feasible competitor strictly closer than v / max|v| *)
Lemma maxnorm_refuted : exists (v z : list Q),
  Qeq_bool (maxabs Qops z) 1 = true /\ (dist2 Qops z v < dist2 Qops (normalize Qops v) v)%Q.
Proof. exists [(1#2); (1#4)]%Q, [1; (1#4)]%Q. split; vm_compute; reflexivity. Qed.

(* ---- unimodality_prox: an already unimodal vector is changed (not idempotent, not nearest) *)
Fixpoint nonincr {F} (Op : fops F) (l : list F) : bool :=
  match l with [] => true | a :: r => match r with [] => true | b :: _ => fleb Op b a && nonincr Op r end end.
Definition unimodalb {F} (Op : fops F) (l : list F) : bool :=
  existsb (fun m => nondecr Op (firstn (S m) l) && nonincr Op (skipn m l)) (seq 0 (length l)).
Lemma unimodal_refuted : exists (v : list Q),
  unimodalb Qops v = true /\
  (dist2 Qops v v < dist2 Qops (hd [] (unimodality_cols Qops [v])) v)%Q.
Proof. exists [(24#10); (34#10); (34#10); (34#10); (25#10); (15#10)]%Q. split; vm_compute; reflexivity. Qed.

Open Scope R_scope.
(* ---- what does hold for soft_sparsity_prox: it is soft-thresholding by the simplex threshold tau of |v|;
   whenever tau >= 0 and the result lies on the sphere |x|_1 = p (i.e. v outside the ball) it is the projection *)
Lemma soft_sparsity_entry tau a : relu Rops (fabs Rops a - tau) * fsign Rops a = soft1 Rops tau a.
Proof. unfold soft1. cbn [fmul fsub Rops]. ring. Qed.
Lemma soft_sparsity_is_soft p v :
  soft_sparsity_prox Rops p v = soft_thresholding Rops (simplex_tau Rops p (map (fabs Rops) v)) v.
Proof.
  unfold soft_sparsity_prox, simplex_prox, soft_thresholding.
  set (tau := simplex_tau Rops p (map (fabs Rops) v)). clearbody tau.
  induction v as [|a v IH]; [reflexivity|]. cbn [map combine fst snd]. rewrite IH. f_equal.
  cbn [fsub fmul Rops]. apply soft_sparsity_entry.
Qed.
Theorem l1ball_partial p v z :
  0 <= simplex_tau Rops p (map (fabs Rops) v) -> l1n Rops (soft_sparsity_prox Rops p v) = p ->
  length z = length v -> l1n Rops z <= p ->
  dist2 Rops (soft_sparsity_prox Rops p v) v <= dist2 Rops z v.
Proof.
  intros Ht Hs Hl Hz. rewrite soft_sparsity_is_soft in *.
  set (tau := simplex_tau Rops p (map (fabs Rops) v)) in *.
  pose proof (soft_optimal tau Ht v z Hl) as H. rewrite Hs in H.
  assert (tau * l1n Rops z <= tau * p) by (apply Rmult_le_compat_l; assumption). lra.
Qed.
(* ---- what does hold for max-normalisation: the result is feasible (largest magnitude 1) when v <> 0 *)
Lemma maxabs_nonneg : forall v, 0 <= maxabs Rops v.
Proof.
  induction v as [|a v IH]; [cbn; lra|]. cbn [maxabs fold_right] in *. unfold fmax. cbn [fleb Rops].
  destruct (Rleb (fabs Rops a) _) eqn:E; [exact IH|]. rewrite fabs_Rabs. apply Rabs_pos.
Qed.
Lemma maxabs_scale c : 0 <= c -> forall v, maxabs Rops (map (fun x => x * c) v) = maxabs Rops v * c.
Proof.
  intros Hc v. unfold maxabs. induction v as [|a v IH]; [cbn; ring|]. cbn [map fold_right]. rewrite IH.
  set (m := fold_right (fun x m => fmax Rops (fabs Rops x) m) (f0 Rops) v). clearbody m.
  unfold fmax. cbn [fleb Rops]. rewrite !fabs_Rabs, Rabs_mult, (Rabs_right c) by lra.
  destruct (Rleb (Rabs a) m) eqn:E1; [apply Rleb_true in E1 | apply Rleb_false in E1];
  destruct (Rleb (Rabs a * c) (m * c)) eqn:E2; [apply Rleb_true in E2 | apply Rleb_false in E2| apply Rleb_true in E2 | apply Rleb_false in E2]; try reflexivity.
  - exfalso. assert (Rabs a * c <= m * c) by (apply Rmult_le_compat_r; lra). lra.
  - destruct (Req_dec c 0) as [Z|NZ]; [subst; ring|].
    exfalso. assert (0 < c) by lra. apply Rmult_lt_compat_r with (r := c) in E1; [|assumption]. lra.
Qed.
Theorem maxnorm_partial v : 0 < maxabs Rops v -> maxabs Rops (normalize Rops v) = 1.
Proof.
  intros H. unfold normalize. cbn [fdiv Rops]. unfold Rdiv.
  rewrite (maxabs_scale (/ maxabs Rops v)).
  - field. lra.
  - left. apply Rinv_0_lt_compat. exact H.
Qed.
