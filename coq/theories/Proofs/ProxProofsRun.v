(* proximal_operator end to end (Model/ProxDispatch.proximal_operator: early exit, validate_constraints, twelve-way dispatch,
   parameter passing, column-wise / flattened application): whatever keywords are written, the returned tensor is the input
   (no constraint selected / n_const None) or satisfies the feasibility + optimality statement of the selected operator,
   column by column or on the flattening; the call raises exactly when validate_constraints does. *)
From Coq Require Import List Reals QArith Qreals Lra Lia Bool.
From TLV Require Import Base.Ops Base.Tensor Model.Prox Model.Constraints Model.ProxDispatch
  Proofs.ProxProofs Proofs.ProxProofsHard Proofs.ProxProofsRefute Proofs.ProxProofsSimplex Proofs.ProxProofsMono Proofs.ProxProofsIso
  Proofs.ProxProofsSmooth Proofs.ProxProofsNormSp Proofs.ProxProofsMore Proofs.ProxProofsMatrix Proofs.ProxProofsUni
  Proofs.ConstraintsProofsUni.
Import ListNotations.
Open Scope R_scope.

Definition per_column (P : list R -> list R -> Prop) (Y X : list (list R)) : Prop := Forall2 P (cols_of Rops Y) (cols_of Rops X).
Definition on_flat (P : list R -> list R -> Prop) (Y X : list (list R)) : Prop := P (concat Y) (concat X).

(* what the branch of constraint kind k returns (y: a column / the flattening of the output, v: of the input) *)
Definition prox_spec (k : kind) (p : R) (kk : nat) (aux : R) (Y X : list (list R)) : Prop :=
  match k with
  | KNonNeg => on_flat (fun y v => Forall (fun x => 0 <= x) y /\
      forall z, length z = length v -> Forall (fun x => 0 <= x) z -> dist2 Rops y v <= dist2 Rops z v) Y X
  | KL1 => 0 <= p -> on_flat (fun y v => forall z, length z = length v ->
      p * l1n Rops y + dist2 Rops y v / 2 <= p * l1n Rops z + dist2 Rops z v / 2) Y X
  | KL2 => 0 <= p -> aux = sqrt (sumsq Rops (concat X)) -> on_flat (fun y v => forall z, length z = length v ->
      p * sqrt (sumsq Rops y) + dist2 Rops y v / 2 <= p * sqrt (sumsq Rops z) + dist2 Rops z v / 2) Y X
  | KL2sq => 0 <= p -> on_flat (fun y v => forall z, length z = length v ->
      p * sumsq Rops y + dist2 Rops y v / 2 <= p * sumsq Rops z + dist2 Rops z v / 2) Y X
  (* deliberately unfixed operator: not the nearest unimodal point (unimodal_refuted), but every output column IS unimodal, for any
     number of columns (the global-maximum fill couples them: Proofs/ConstraintsProofsUni.unimodality_cols_feasible, builder of C11) *)
  | KUnimodal => per_column (fun y v => unimodalP y /\ length y = length v) Y X
  | KNormalize => 0 < maxabs Rops (concat X) -> maxabs Rops (concat Y) = 1
  | KSimplex => 0 < p -> per_column (fun y v => Forall (fun x => 0 <= x) y /\ lsum Rops y = p /\
      forall z, length z = length v -> Forall (fun x => 0 <= x) z -> lsum Rops z = p -> dist2 Rops y v <= dist2 Rops z v) Y X
  | KNormSparsity => 0 < aux -> aux * aux = sumsq Rops (hard_thresholding Rops kk (concat X)) ->
      on_flat (fun y v => sumsq Rops y = 1 /\ (nnzR y <= kk)%nat /\
        forall z, length z = length v -> (nnzR z <= kk)%nat -> sumsq Rops z = 1 -> dist2 Rops y v <= dist2 Rops z v) Y X
  | KSoftSparsity => 0 < p -> per_column (fun y v => p <= l1n Rops v -> l1n Rops y = p /\
      forall z, length z = length v -> l1n Rops z <= p -> dist2 Rops y v <= dist2 Rops z v) Y X
  | KSmooth => 0 <= p -> per_column (fun y v => sm_apply Rops p 0 y = v /\
      forall z, length z = length v -> smooth_obj p y v <= smooth_obj p z v) Y X
  | KMonotone => per_column (fun y v => ndec y /\ forall z, length z = length v -> ndec z -> dist2 Rops y v <= dist2 Rops z v) Y X
  | KHardSparsity => on_flat (fun y v => (nnzR y <= kk)%nat /\
      forall z, length z = length v -> (nnzR z <= kk)%nat -> dist2 Rops y v <= dist2 Rops z v) Y X
  end.

Lemma flat_lift n c (f : list R -> list R) (P : list R -> list R -> Prop) X : (1 <= n)%nat -> (1 <= c)%nat -> rect n c X ->
  (forall v, length (f v) = length v) -> P (f (concat X)) (concat X) -> on_flat P (flatwise f X) X.
Proof. intros Hn Hc HX Hl HP. unfold on_flat. rewrite (flatwise_flat n c f X Hn Hc HX (Hl _)). exact HP. Qed.
Lemma Forall2_map_self {A} (f : A -> A) (P : A -> A -> Prop) : forall l, Forall (fun a => P (f a) a) l -> Forall2 P (map f l) l.
Proof. induction l as [|a l IH]; intros H; [constructor|]. inversion H; subst. constructor; auto. Qed.
Lemma col_lift n c (f : list R -> list R) (P : list R -> list R -> Prop) X : (1 <= n)%nat -> (1 <= c)%nat -> rect n c X ->
  (forall v, length (f v) = length v) -> (forall v, length v = n -> P (f v) v) -> per_column P (colwise Rops f X) X.
Proof.
  intros Hn Hc HX Hl HP. unfold per_column. rewrite (colwise_columns n c f X Hn Hc HX) by (intros col L; rewrite Hl; exact L).
  apply Forall2_map_self. destruct (cols_of_rect n c X Hn HX) as [_ F]. rewrite Forall_forall in *. intros col Hin. apply HP, F, Hin.
Qed.
Lemma normalized_sparsity_length s k v : length (normalized_sparsity_with Rops s k v) = length v.
Proof. unfold normalized_sparsity_with. rewrite map_length. apply hard_length. Qed.
Lemma l2sq_length t v : length (l2_square_prox Rops t v) = length v.
Proof. apply map_length. Qed.

Lemma Forall2_of_lengths (Q : list R -> Prop) : forall l1 l2 : list (list R), Forall Q l1 -> map (@length R) l1 = map (@length R) l2 ->
  Forall2 (fun y v => Q y /\ length y = length v) l1 l2.
Proof.
  induction l1 as [|a l1 IH]; intros [|b l2] HF HL; try discriminate HL; [constructor|].
  inversion HF; subst. cbn [map] in HL. injection HL as Hab HL. constructor; [split; assumption | apply IH; assumption].
Qed.
Lemma unimodal_lift n c X : (1 <= n)%nat -> (1 <= c)%nat -> rect n c X ->
  per_column (fun y v => unimodalP y /\ length y = length v) (cols_of Rops (unimodality_cols Rops (cols_of Rops X))) X.
Proof.
  intros Hn Hc HX. unfold per_column. destruct (cols_of_rect n c X Hn HX) as [LC FC].
  destruct (unimodality_cols_feasible (cols_of Rops X)) as [HU HL].
  assert (RU : rect c n (unimodality_cols Rops (cols_of Rops X))).
  { split.
    - rewrite <- LC. rewrite <- (map_length (@length R) (unimodality_cols Rops (cols_of Rops X))), HL, map_length. reflexivity.
    - apply Forall_forall. intros y Hy. apply (in_map (@length R)) in Hy. rewrite HL in Hy. apply in_map_iff in Hy.
      destruct Hy as (v & <- & Hv). rewrite Forall_forall in FC. apply FC, Hv. }
  rewrite (transpose_involutive c n _ Hc Hn RU). apply Forall2_of_lengths; assumption.
Qed.

(* every branch of the dispatch *)
Theorem prun_sound k p aux nr nc X : (1 <= nr)%nat -> (1 <= nc)%nat -> rect nr nc X ->
  prox_spec k (Q2R p) (rank_bound p) aux (prun Rops (pop_of Q2R k p aux) X) X.
Proof.
  intros Hn Hc HX. destruct k; cbn [pop_of prun prox_spec].
  - apply (flat_lift nr nc); auto; [apply nonneg_length|]. split; [apply nonneg_feasible | apply nonneg_optimal].
  - intros Hp. apply (flat_lift nr nc); auto; [apply soft_length|]. intros z Lz. apply soft_optimal; assumption.
  - intros Hp ->. apply (flat_lift nr nc); auto; [intros v; apply ProxProofsFirm.l2_prox_length|].
    intros z Lz. apply (l2_optimal_sqrt (Q2R p) (concat X) z Hp Lz).
  - intros Hp. apply (flat_lift nr nc); auto; [apply l2sq_length|]. intros z Lz. apply l2sq_optimal; assumption.
  - apply (unimodal_lift nr nc); assumption.
  - intros Hm. unfold on_flat. rewrite (flatwise_flat nr nc _ X Hn Hc HX) by (unfold normalize; apply map_length).
    apply maxnorm_partial, Hm.
  - intros Hp. apply (col_lift nr nc); auto; [apply simplex_length|]. intros v Lv.
    assert (Hne : v <> []) by (intros ->; cbn in Lv; lia).
    destruct (simplex_feasible (Q2R p) v Hp Hne) as [F S]. repeat split; auto. intros z Lz Fz Sz. apply simplex_optimal; assumption.
  - intros Hs Hc2. apply (flat_lift nr nc); auto; [apply normalized_sparsity_length|].
    destruct (normalized_sparsity_feasible aux (rank_bound p) (concat X) Hs Hc2) as [S N]. repeat split; auto.
    intros z Lz Nz Sz. apply normalized_sparsity_nearest; assumption.
  - intros Hp. apply (col_lift nr nc); auto; [apply soft_sparsity_length|]. intros v Lv Hout. split.
    + apply l1ball_outside_feasible; assumption.
    + intros z Lz Hz. apply l1ball_outside_optimal; assumption.
  - intros Hp. apply (col_lift nr nc); auto; [apply smoothness_solve_length|]. intros v Lv. split.
    + apply smoothness_solve_correct, Hp.
    + intros z Lz. apply smoothness_solve_optimal; assumption.
  - apply (col_lift nr nc); auto; [apply monotone_length|]. intros v Lv. split.
    + apply monotone_inc_feasible.
    + intros z Lz Hz. apply monotone_inc_optimal; assumption.
  - apply (flat_lift nr nc); auto; [apply hard_length|]. split; [apply hard_sparse | apply hard_nearest].
Qed.

(* proximal_operator: what is returned, and when it raises *)
Theorem proximal_operator_sound n order specs aux nr nc X Y : (1 <= nr)%nat -> (1 <= nc)%nat -> rect nr nc X ->
  proximal_operator Rops Q2R (Some n) order specs aux X = Ok Y ->
  exists sel, validate_kwargs n order specs = Ok sel /\
    match sel with None => Y = X | Some (k, p) => prox_spec k (Q2R p) (rank_bound p) aux Y X end.
Proof.
  intros Hn Hc HX. unfold proximal_operator, selected_pop. destruct (validate_kwargs n order specs) as [[[k p]|]|] eqn:E; intros H; try discriminate H.
  - injection H as <-. exists (Some (k, p)). split; [reflexivity|]. apply (prun_sound k p aux nr nc); assumption.
  - injection H as <-. exists None. split; reflexivity.
Qed.
Theorem proximal_operator_raises_iff {F} (Op : fops F) conv n order specs aux X :
  proximal_operator Op conv (Some n) order specs aux X = Err <-> validate_kwargs n order specs = Err.
Proof.
  unfold proximal_operator, selected_pop. destruct (validate_kwargs n order specs) as [[[k p]|]|]; split; intros H; try discriminate H; reflexivity.
Qed.
Theorem proximal_operator_no_const {F} (Op : fops F) conv order specs aux X : proximal_operator Op conv None order specs aux X = Ok X.
Proof. reflexivity. Qed.

(* number of dimensions: with one or two dimensions nothing is refused; in general the call raises exactly when validate_constraints
   raises or the selected operator refuses the number of dimensions (monotonicity / unimodality / simplex / soft_sparsity with ndim > 2) *)
Theorem proximal_operator_nd_le2 {F} (Op : fops F) conv ndim n_const order specs aux X : (1 <= ndim <= 2)%nat ->
  proximal_operator_nd Op conv ndim n_const order specs aux X = proximal_operator Op conv n_const order specs aux X.
Proof.
  intros [H1 H2]. unfold proximal_operator_nd, proximal_operator. destruct (selected_pop conv n_const order specs aux) as [o|]; [|reflexivity].
  assert (E : ndim_ok o ndim = true).
  { destruct o; cbn [ndim_ok]; try reflexivity; apply andb_true_intro; split; apply Nat.leb_le; assumption. }
  rewrite E. reflexivity.
Qed.
Theorem proximal_operator_nd_raises_iff {F} (Op : fops F) conv ndim n_const order specs aux X :
  proximal_operator_nd Op conv ndim n_const order specs aux X = Err <->
  selected_pop conv n_const order specs aux = Err \/ exists o, selected_pop conv n_const order specs aux = Ok o /\ ndim_ok o ndim = false.
Proof.
  unfold proximal_operator_nd. destruct (selected_pop conv n_const order specs aux) as [o|]; split.
  - destruct (ndim_ok o ndim) eqn:E; intros H; [discriminate H|]. right. exists o. split; [reflexivity | exact E].
  - intros [H|(o' & H & E)]; [discriminate H|]. injection H as <-. rewrite E. reflexivity.
  - intros _. left. reflexivity.
  - reflexivity.
Qed.

(* `order` as a Python int: a non-negative order below n_const is that mode, -j (1 <= j <= n_const) is mode n_const - j, anything else raises *)
Theorem selected_pop_z_spec {F} (conv : Q -> F) n (order : Z) specs aux :
  ((0 <= order < Z.of_nat n)%Z -> selected_pop_z conv (Some n) order specs aux = selected_pop conv (Some n) (Z.to_nat order) specs aux) /\
  ((- Z.of_nat n <= order < 0)%Z -> selected_pop_z conv (Some n) order specs aux = selected_pop conv (Some n) (Z.to_nat (order + Z.of_nat n)) specs aux) /\
  ((order < - Z.of_nat n \/ Z.of_nat n <= order)%Z -> selected_pop_z conv (Some n) order specs aux = Err).
Proof.
  unfold selected_pop_z, resolve. repeat split; intros H.
  - destruct (0 <=? order)%Z eqn:E1; [|apply Z.leb_gt in E1; lia]. destruct (order <? Z.of_nat n)%Z eqn:E2; [reflexivity | apply Z.ltb_ge in E2; lia].
  - destruct (0 <=? order)%Z eqn:E1; [apply Z.leb_le in E1; lia|]. destruct (- Z.of_nat n <=? order)%Z eqn:E2; [reflexivity | apply Z.leb_gt in E2; lia].
  - destruct (0 <=? order)%Z eqn:E1.
    + apply Z.leb_le in E1. destruct (order <? Z.of_nat n)%Z eqn:E2; [apply Z.ltb_lt in E2; lia | reflexivity].
    + apply Z.leb_gt in E1. destruct (- Z.of_nat n <=? order)%Z eqn:E2; [apply Z.leb_le in E2; lia | reflexivity].
Qed.
