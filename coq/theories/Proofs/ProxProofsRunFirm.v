(* Firm non-expansiveness at the level of proximal_operator's dispatch (Model/ProxDispatch.prun on two rectangular tensors of the same
   shape): |P(X) - P(X')|^2 <= <P(X) - P(X'), X - X'> on the flattening (operators on the flattened tensor) or column by column
   (column-wise operators), for the convex kinds non-negativity, l1 (t >= 0), squared l2 (t >= 0), simplex (p > 0), smoothness (t >= 0),
   monotonicity, identity.  (l2_reg is C12_l2_firmly_nonexpansive per vector: its norm value depends on the input.) *)
From Coq Require Import List Reals QArith Qreals Lra Lia Bool.
From TLV Require Import Base.Ops Base.Tensor Model.Prox Model.Constraints Model.ProxDispatch
  Proofs.ProxProofs Proofs.ProxProofsFirm Proofs.ProxProofsSimplex Proofs.ProxProofsMono Proofs.ProxProofsIso
  Proofs.ProxProofsSmooth Proofs.ProxProofsMore Proofs.ProxProofsMatrix.
Import ListNotations.
Open Scope R_scope.

Definition firm_pair (y y' v v' : list R) : Prop := dist2 Rops y y' <= dotd y y' v v'.
Definition colwise_pop (o : @pop R) : bool :=
  match o with PSimplex _ | PSoftSparsity _ | PSmooth _ | PMonotone _ | PUnimodal => true | _ => false end.
Definition firm_side (o : @pop R) : Prop :=
  match o with
  | PNonneg | PMonotone _ | PIdentity => True
  | PSoft t | PL2sq t | PSmooth t => 0 <= t
  | PSimplex p => 0 < p
  | _ => False
  end.
Definition firm_spec (o : @pop R) (nc : nat) (Y Y' X X' : list (list R)) : Prop :=
  if colwise_pop o then
    forall j, (j < nc)%nat -> firm_pair (nth j (cols_of Rops Y) []) (nth j (cols_of Rops Y') []) (nth j (cols_of Rops X) []) (nth j (cols_of Rops X') [])
  else firm_pair (concat Y) (concat Y') (concat X) (concat X').

Lemma dist2_dotd_id : forall u v : list R, length u = length v -> dist2 Rops u v = dotd u v u v.
Proof. induction u as [|x u IH]; intros [|y v] L; try discriminate L; [reflexivity|]. rewrite dist2_cons. cbn [dotd]. rewrite (IH v) by (cbn in L; lia). reflexivity. Qed.
Lemma flat_firm n c (f : list R -> list R) X X' : (1 <= n)%nat -> (1 <= c)%nat -> rect n c X -> rect n c X' ->
  (forall v, length (f v) = length v) -> (forall u v, length u = length v -> firm_pair (f u) (f v) u v) ->
  firm_pair (concat (flatwise f X)) (concat (flatwise f X')) (concat X) (concat X').
Proof.
  intros Hn Hc HX HX' Hl Hf. rewrite (flatwise_flat n c f X Hn Hc HX (Hl _)), (flatwise_flat n c f X' Hn Hc HX' (Hl _)).
  apply Hf. rewrite (concat_length_rect n c X HX), (concat_length_rect n c X' HX'). reflexivity.
Qed.
Lemma col_firm n c (f : list R -> list R) X X' : (1 <= n)%nat -> (1 <= c)%nat -> rect n c X -> rect n c X' ->
  (forall v, length (f v) = length v) -> (forall u v, length u = n -> length v = n -> firm_pair (f u) (f v) u v) ->
  forall j, (j < c)%nat -> firm_pair (nth j (cols_of Rops (colwise Rops f X)) []) (nth j (cols_of Rops (colwise Rops f X')) [])
                                     (nth j (cols_of Rops X) []) (nth j (cols_of Rops X') []).
Proof.
  intros Hn Hc HX HX' Hl Hf j Hj.
  rewrite (colwise_columns n c f X Hn Hc HX), (colwise_columns n c f X' Hn Hc HX') by (intros col L; rewrite Hl; exact L).
  destruct (cols_of_rect n c X Hn HX) as [LC FC]. destruct (cols_of_rect n c X' Hn HX') as [LC' FC'].
  rewrite (nth_map_lt f _ j [] []) by lia. rewrite (nth_map_lt f _ j [] []) by lia.
  rewrite Forall_forall in FC, FC'. apply Hf; [apply FC | apply FC']; apply nth_In; lia.
Qed.

Theorem prun_firmly_nonexpansive o nr nc X X' : (1 <= nr)%nat -> (1 <= nc)%nat -> rect nr nc X -> rect nr nc X' -> firm_side o ->
  firm_spec o nc (prun Rops o X) (prun Rops o X') X X'.
Proof.
  intros Hn Hc HX HX' Hs. destruct o; cbn [firm_side] in Hs; try contradiction; unfold firm_spec; cbn [colwise_pop prun].
  - apply (flat_firm nr nc); auto; [apply nonneg_length | intros u v L; apply nonneg_firmly_nonexpansive, L].
  - apply (flat_firm nr nc); auto; [apply soft_length | intros u v L; apply soft_firmly_nonexpansive; assumption].
  - apply (flat_firm nr nc); auto; [intros v; apply map_length | intros u v L; apply l2sq_firmly_nonexpansive; assumption].
  - apply (col_firm nr nc); auto; [apply simplex_length|]. intros u v Lu Lv. apply simplex_firmly_nonexpansive; [exact Hs | | congruence].
    intros ->. cbn in Lu. lia.
  - apply (col_firm nr nc); auto; [apply smoothness_solve_length|]. intros u v Lu Lv. apply smoothness_firmly_nonexpansive; [exact Hs | congruence].
  - apply (col_firm nr nc); auto; [apply monotone_length|]. intros u v Lu Lv.
    destruct dec; [apply monotone_dec_firmly_nonexpansive | apply monotone_inc_firmly_nonexpansive]; congruence.
  - unfold firm_pair. rewrite dist2_dotd_id; [lra|]. rewrite (concat_length_rect nr nc X HX), (concat_length_rect nr nc X' HX'). reflexivity.
Qed.

(* l2_reg (block soft thresholding): the norm value the branch asks for depends on the tensor, so the two calls select PL2 with their own
   norms; with the exact norms (Coq's sqrt) the operator is firmly non-expansive on the flattening *)
Theorem prun_l2_firmly_nonexpansive t nr nc X X' : 0 <= t -> (1 <= nr)%nat -> (1 <= nc)%nat -> rect nr nc X -> rect nr nc X' ->
  firm_pair (concat (prun Rops (PL2 t (sqrt (sumsq Rops (concat X)))) X)) (concat (prun Rops (PL2 t (sqrt (sumsq Rops (concat X')))) X'))
            (concat X) (concat X').
Proof.
  intros Ht Hn Hc HX HX'. cbn [prun].
  rewrite (flatwise_flat nr nc _ X Hn Hc HX) by apply l2_prox_length. rewrite (flatwise_flat nr nc _ X' Hn Hc HX') by apply l2_prox_length.
  apply (l2_firmly_nonexpansive t (concat X) (concat X') Ht).
  rewrite (concat_length_rect nr nc X HX), (concat_length_rect nr nc X' HX'). reflexivity.
Qed.
