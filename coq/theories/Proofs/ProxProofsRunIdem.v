(* Idempotence at the level of proximal_operator's dispatch (Model/ProxDispatch.prun on a rectangular tensor): applying the selected
   projection a second time changes nothing, for non-negativity, simplex, monotonicity (both directions), hard sparsity,
   max-normalisation (non-zero tensor), the l1-ball operator (columns on or outside the ball) and the identity. *)
From Coq Require Import List Reals QArith Qreals Lra Lia Bool.
From TLV Require Import Base.Ops Base.Tensor Model.Prox Model.Constraints Model.ProxDispatch
  Proofs.ProxProofs Proofs.ProxProofsHard Proofs.ProxProofsRefute Proofs.ProxProofsSimplex Proofs.ProxProofsMono Proofs.ProxProofsIso
  Proofs.ProxProofsSmooth Proofs.ProxProofsNormSp Proofs.ProxProofsMore Proofs.ProxProofsMatrix Proofs.ProxProofsFirm2.
Import ListNotations.
Open Scope R_scope.

Lemma chunk_rect : forall fuel c (l : list R), (1 <= c)%nat -> length l = (fuel * c)%nat -> rect fuel c (chunk fuel c l).
Proof.
  induction fuel as [|fu IH]; intros c l Hc Hl; [split; [reflexivity | constructor]|].
  destruct l as [|x l']; [cbn in Hl; lia|]. cbn [chunk].
  assert (Hs : length (skipn c (x :: l')) = (fu * c)%nat) by (rewrite skipn_length, Hl; cbn [Nat.mul]; lia).
  destruct (IH c (skipn c (x :: l')) Hc Hs) as [L F]. split; [cbn [length]; rewrite L; reflexivity|].
  constructor; [|exact F]. rewrite firstn_length, Hl. cbn [Nat.mul]. lia.
Qed.
Lemma flatwise_rect n c (f : list R -> list R) X : (1 <= n)%nat -> (1 <= c)%nat -> rect n c X ->
  length (f (concat X)) = length (concat X) -> rect n c (flatwise f X).
Proof.
  intros Hn Hc HX Hf. pose proof (concat_length_rect n c X HX) as LC. destruct HX as [L F].
  destruct X as [|r X]; [cbn in L; lia|]. unfold flatwise. inversion F as [|? ? Hr F']; subst.
  apply chunk_rect; [exact Hc | rewrite Hf, LC; reflexivity].
Qed.
Lemma flatwise_unfold n c (f : list R -> list R) X : (1 <= n)%nat -> rect n c X -> flatwise f X = chunk n c (f (concat X)).
Proof. intros Hn [L F]. destruct X as [|r X]; [cbn in L; lia|]. unfold flatwise. inversion F; subst. reflexivity. Qed.
Theorem flatwise_idempotent n c (f : list R -> list R) X : (1 <= n)%nat -> (1 <= c)%nat -> rect n c X ->
  (forall v, length (f v) = length v) -> f (f (concat X)) = f (concat X) -> flatwise f (flatwise f X) = flatwise f X.
Proof.
  intros Hn Hc HX Hl Hi. pose proof (flatwise_rect n c f X Hn Hc HX (Hl _)) as HY.
  rewrite (flatwise_unfold n c f (flatwise f X) Hn HY). rewrite (flatwise_flat n c f X Hn Hc HX (Hl _)), Hi.
  symmetry. apply (flatwise_unfold n c f X Hn HX).
Qed.
Theorem colwise_idempotent n c (f : list R -> list R) X : (1 <= n)%nat -> (1 <= c)%nat -> rect n c X ->
  (forall v, length (f v) = length v) -> Forall (fun col => f (f col) = f col) (cols_of Rops X) ->
  colwise Rops f (colwise Rops f X) = colwise Rops f X.
Proof.
  intros Hn Hc HX Hl Hi. unfold colwise at 1. rewrite (colwise_columns n c f X Hn Hc HX) by (intros col L; rewrite Hl; exact L).
  unfold colwise. f_equal. rewrite map_map. apply map_ext_in. intros col Hin. rewrite Forall_forall in Hi. apply Hi, Hin.
Qed.

(* the projection kinds of the dispatch; side conditions as in the per-vector theorems *)
Definition idem_side (o : @pop R) (X : list (list R)) : Prop :=
  match o with
  | PNonneg | PMonotone _ | PHard _ | PIdentity => True
  | PSimplex p => 0 < p
  | PNormalize => 0 < maxabs Rops (concat X)
  | PSoftSparsity p => 0 < p /\ Forall (fun col => p <= l1n Rops col) (cols_of Rops X)
  | _ => False
  end.
Theorem prun_idempotent o nr nc X : (1 <= nr)%nat -> (1 <= nc)%nat -> rect nr nc X -> idem_side o X ->
  prun Rops o (prun Rops o X) = prun Rops o X.
Proof.
  intros Hn Hc HX Hs. pose proof (cols_of_rect nr nc X Hn HX) as [_ FC].
  destruct o; cbn [prun idem_side] in *; try contradiction.
  - apply (flatwise_idempotent nr nc); auto; [apply nonneg_length | apply nonneg_idempotent].
  - apply (flatwise_idempotent nr nc); auto; [intros v; unfold normalize; apply map_length | apply normalize_idempotent, Hs].
  - apply (colwise_idempotent nr nc); auto; [apply simplex_length|]. rewrite Forall_forall in *. intros col Hin.
    apply simplex_idempotent; [exact Hs|]. intros ->. specialize (FC [] Hin). cbn in FC. lia.
  - destruct Hs as [Hp Hout]. apply (colwise_idempotent nr nc); auto; [apply soft_sparsity_length|].
    rewrite Forall_forall in *. intros col Hin. apply l1ball_outside_idempotent; [exact Hp | apply Hout, Hin].
  - apply (colwise_idempotent nr nc); auto; [apply monotone_length|]. rewrite Forall_forall. intros col _. apply monotone_idempotent.
  - apply (flatwise_idempotent nr nc); auto; [apply hard_length | apply hard_idempotent].
  - reflexivity.
Qed.
(* proximal_operator called again with the same keyword arguments on its own result returns that result *)
Theorem proximal_operator_idempotent n_const order specs aux nr nc X Y o : (1 <= nr)%nat -> (1 <= nc)%nat -> rect nr nc X ->
  selected_pop Q2R n_const order specs aux = Ok o -> idem_side o X ->
  proximal_operator Rops Q2R n_const order specs aux X = Ok Y -> proximal_operator Rops Q2R n_const order specs aux Y = Ok Y.
Proof.
  intros Hn Hc HX Hsel Hs. unfold proximal_operator. rewrite Hsel. intros H. injection H as <-. f_equal.
  apply (prun_idempotent o nr nc); assumption.
Qed.
