(* simplex_prox (sort descending / cumulative sums / count / threshold), at the instance Rops:
   (a) characterisation: any x = max(v - tau, 0) whose entries sum to p is the Euclidean projection of v
       onto {z >= 0, sum z = p};
   (b) the CODED threshold (count of u_k > (S_k - p)/k on the sorted list, tau = thr[count-1]) satisfies
       sum max(v - tau, 0) = p for every non-empty v and p > 0 (prefix property of the count);
   hence feasibility, optimality, idempotence of the coded operator, and the l1-ball operator
   soft_sparsity_prox is the projection for every v on or outside the ball. *)
From Coq Require Import List Reals Lra Psatz Lia Bool Sorted Permutation.
From TLV Require Import Base.Ops Model.Prox Proofs.ProxProofs Proofs.ProxProofsRefute.
Import ListNotations.
Open Scope R_scope.

Definition rl (tau x : R) : R := relu Rops (x - tau).
Definition proj (tau : R) (v : list R) : list R := map (rl tau) v.
Lemma simplex_prox_proj p v : simplex_prox Rops p v = proj (simplex_tau Rops p v) v.
Proof. reflexivity. Qed.

Lemma rl_spec tau a : (a - tau <= 0 /\ rl tau a = 0) \/ (0 < a - tau /\ rl tau a = a - tau).
Proof. unfold rl. destruct (relu_spec (a - tau)) as [[H E]|[H E]]; rewrite E; [|left; lra].
  destruct (Req_dec (a - tau) 0) as [Z|NZ]; [left; lra | right; lra]. Qed.

(* ---------- (a) characterisation *)
Fixpoint cross (v x z : list R) : R :=
  match v, x, z with a :: v', b :: x', c :: z' => (a - b) * (c - b) + cross v' x' z' | _, _, _ => 0 end.
Lemma cross_bound tau : forall v z, length z = length v -> Forall (fun t => 0 <= t) z ->
  cross v (proj tau v) z <= tau * (lsum Rops z - lsum Rops (proj tau v)).
Proof.
  induction v as [|a v IH]; intros [|c z] Hl Hz; try discriminate.
  - cbn. lra.
  - inversion Hz as [|? ? Hc Hz']; subst. injection Hl as Hl. specialize (IH z Hl Hz').
    unfold proj in *. cbn [map cross]. rewrite !lsum_cons.
    destruct (rl_spec tau a) as [[H1 H2]|[H1 H2]]; rewrite H2; nra.
Qed.
Lemma dist2_expand_cross : forall v x z, length z = length v -> length x = length v ->
  dist2 Rops z v = dist2 Rops x v + dist2 Rops z x - 2 * cross v x z.
Proof.
  induction v as [|a v IH]; intros [|b x] [|c z] Hl1 Hl2; try discriminate; [cbn; ring|].
  injection Hl1 as Hl1. injection Hl2 as Hl2. rewrite !dist2_cons. cbn [cross]. rewrite (IH x z Hl1 Hl2). ring.
Qed.
Theorem simplex_characterisation tau p v z :
  length z = length v -> Forall (fun t => 0 <= t) z -> lsum Rops z = p ->
  lsum Rops (proj tau v) = p ->
  dist2 Rops (proj tau v) v <= dist2 Rops z v.
Proof.
  intros Hl Hz Hsz Hsx.
  pose proof (cross_bound tau v z Hl Hz) as Hc. rewrite Hsz, Hsx in Hc.
  rewrite (dist2_expand_cross v (proj tau v) z Hl) by apply map_length.
  pose proof (dist2_nonneg z (proj tau v)). nra.
Qed.
Lemma proj_nonneg tau : forall v, Forall (fun x => 0 <= x) (proj tau v).
Proof. induction v as [|a v IH]; constructor; [|exact IH]. destruct (rl_spec tau a) as [[H E]|[H E]]; rewrite E; lra. Qed.

(* ---------- sorting *)
Definition geR (a b : R) : Prop := b <= a.
Lemma insert_desc_perm x : forall l, Permutation (insert_desc Rops x l) (x :: l).
Proof.
  induction l as [|y r IH]; cbn [insert_desc]; [reflexivity|].
  destruct (fleb Rops y x); [reflexivity|]. etransitivity; [apply perm_skip, IH | apply perm_swap].
Qed.
Lemma sort_desc_perm : forall v, Permutation (sort_desc Rops v) v.
Proof. induction v as [|x v IH]; cbn [sort_desc]; [constructor|]. etransitivity; [apply insert_desc_perm | apply perm_skip, IH]. Qed.
Lemma insert_desc_sorted x : forall l, StronglySorted geR l -> StronglySorted geR (insert_desc Rops x l).
Proof.
  induction l as [|y r IH]; intros H; cbn [insert_desc].
  - repeat constructor.
  - apply StronglySorted_inv in H. destruct H as [Hs Hf]. cbn [fleb Rops].
    destruct (Rleb y x) eqn:E; [apply Rleb_true in E | apply Rleb_false in E].
    + constructor; [constructor; auto|]. constructor; [exact E|].
      eapply Forall_impl; [|exact Hf]. intros c Hc. unfold geR in *. lra.
    + constructor; auto. rewrite Forall_forall. intros c Hc.
      apply (Permutation_in _ (insert_desc_perm x r)) in Hc.
      destruct Hc as [<-|Hc]; [unfold geR; lra|]. rewrite Forall_forall in Hf; auto.
Qed.
Lemma sort_desc_sorted : forall v, StronglySorted geR (sort_desc Rops v).
Proof. induction v as [|x v IH]; cbn [sort_desc]; [constructor|]. apply insert_desc_sorted, IH. Qed.
Lemma lsum_perm : forall a b : list R, Permutation a b -> lsum Rops a = lsum Rops b.
Proof. induction 1; try reflexivity; rewrite ?lsum_cons in *; lra. Qed.
Lemma lsum_proj_perm tau a b : Permutation a b -> lsum Rops (proj tau a) = lsum Rops (proj tau b).
Proof. intros H. apply lsum_perm. unfold proj. apply Permutation_map, H. Qed.

(* ---------- (b) the coded threshold, generalised over the running state (acc = sum of the k earlier entries) *)
Definition thrf (p acc : R) (k : nat) (u : list R) : list R :=
  map (fun ck : R * nat => fdiv Rops (fsub Rops (fst ck) p) (nat2F Rops (S (snd ck)))) (combine (cumsum_from Rops acc u) (seq k (length u))).
Lemma nat2F_INR : forall n, nat2F Rops n = INR n.
Proof. induction n as [|n IH]; [reflexivity|]. rewrite S_INR. cbn [nat2F]. rewrite IH. reflexivity. Qed.
Lemma thrf_cons p acc k x r : thrf p acc k (x :: r) = (acc + x - p) / INR (S k) :: thrf p (acc + x) (S k) r.
Proof. unfold thrf. cbn [length seq cumsum_from combine map fst snd]. rewrite nat2F_INR. reflexivity. Qed.
Lemma thrf_nil p acc k : thrf p acc k [] = [].
Proof. reflexivity. Qed.
Lemma simplex_thr_thrf p u : simplex_thr Rops p u = thrf p 0 0 u.
Proof. reflexivity. Qed.
Lemma count_cons x r t thr : simplex_count Rops (x :: r) (t :: thr) = ((if fltb Rops t x then 1 else 0) + simplex_count Rops r thr)%nat.
Proof. unfold simplex_count. cbn [combine filter fst snd]. destruct (fltb Rops t x); reflexivity. Qed.
Lemma count_nil thr : simplex_count Rops [] thr = O.
Proof. reflexivity. Qed.

Definition tauf (p acc : R) (k : nat) (u : list R) : R :=
  match simplex_count Rops u (thrf p acc k u) with O => (acc - p) / INR k | S c => nth c (thrf p acc k u) 0 end.

Lemma div_lt_iff a b c : 0 < c -> (a / c < b <-> a < b * c).
Proof. intros Hc. assert (E : a = a / c * c) by (field; lra). split; intros H; nra. Qed.
Lemma div_le_iff a b c : 0 < c -> (b <= a / c <-> b * c <= a).
Proof. intros Hc. assert (E : a = a / c * c) by (field; lra). split; intros H; nra. Qed.
(* u_{k+1} > (S_k + u_{k+1} - p)/(k+1)  <->  u_{k+1} > (S_k - p)/k *)
Lemma active_iff p acc k x : (1 <= k)%nat -> ((acc + x - p) / INR (S k) < x <-> (acc - p) / INR k < x).
Proof.
  intros Hk. assert (Kp : 0 < INR k) by (apply lt_0_INR; lia). rewrite S_INR.
  assert (Kq : 0 < INR k + 1) by lra.
  pose proof (div_lt_iff (acc + x - p) x (INR k + 1) Kq) as A. pose proof (div_lt_iff (acc - p) x (INR k) Kp) as B.
  split; intros H; [apply B; apply A in H; lra | apply A; apply B in H; lra].
Qed.

(* once an entry fails the test, every later (smaller) entry fails too *)
Lemma fail_stays p : forall u acc k, (1 <= k)%nat -> StronglySorted geR u -> Forall (fun y => y <= (acc - p) / INR k) u ->
  simplex_count Rops u (thrf p acc k u) = O.
Proof.
  induction u as [|x r IH]; intros acc k Hk Hs Hu; [reflexivity|].
  rewrite thrf_cons, count_cons. inversion Hu as [|? ? Hx Hr]; subst.
  apply StronglySorted_inv in Hs. destruct Hs as [Hs Hf].
  assert (0 < INR k) by (apply lt_0_INR; lia).
  destruct (fltb_R ((acc + x - p) / INR (S k)) x) as [[E L]|[E L]]; rewrite E.
  - exfalso. apply (proj1 (active_iff p acc k x Hk)) in L. exact (Rlt_irrefl _ (Rle_lt_trans _ _ _ Hx L)).
  - rewrite IH; [reflexivity | lia | exact Hs |].
    eapply Forall_impl; [|exact Hf]. intros y Hy. unfold geR in Hy.
    apply div_le_iff in Hx; [|lra]. rewrite S_INR. apply div_le_iff; [lra|]. nra.
Qed.

Lemma Forall_le_trans (m x : R) (r : list R) : x <= m -> Forall (geR x) r -> Forall (fun y => y <= m) r.
Proof. intros H. apply Forall_impl. intros y Hy. unfold geR in Hy. lra. Qed.

Lemma proj_zero tau : forall u, Forall (fun y => y <= tau) u -> lsum Rops (proj tau u) = 0.
Proof.
  induction 1 as [|y u Hy Hu IH]; [reflexivity|]. unfold proj in *. cbn [map]. rewrite lsum_cons, IH.
  destruct (rl_spec tau y) as [[H E]|[H E]]; rewrite E; lra.
Qed.

(* main invariant: with k >= 1 earlier entries (sum acc), all of them >= m > (acc - p)/k, and the rest u sorted
   and bounded by m, the final threshold T stays below m and  (acc - k T) + sum max(u - T, 0) = p *)
Lemma tau_invariant p : forall u acc k m, (1 <= k)%nat -> StronglySorted geR u -> Forall (fun y => y <= m) u ->
  (acc - p) / INR k < m ->
  tauf p acc k u < m /\ (acc - INR k * tauf p acc k u) + lsum Rops (proj (tauf p acc k u) u) = p.
Proof.
  induction u as [|x r IH]; intros acc k m Hk Hs Hm Hprev.
  - assert (0 < INR k) by (apply lt_0_INR; lia).
    unfold tauf. rewrite thrf_nil, count_nil. split; [exact Hprev|]. cbn [proj map lsum f0 Rops]. field. lra.
  - assert (Kpos : 0 < INR k) by (apply lt_0_INR; lia).
    apply StronglySorted_inv in Hs. destruct Hs as [Hs Hf]. inversion Hm as [|? ? Hxm Hrm]; subst.
    destruct (fltb_R ((acc + x - p) / INR (S k)) x) as [[E L]|[E L]].
    + (* x is counted *)
      assert (ET : tauf p acc k (x :: r) = tauf p (acc + x) (S k) r).
      { unfold tauf. rewrite thrf_cons, count_cons, E. cbn [Nat.add].
        destruct (simplex_count Rops r (thrf p (acc + x) (S k) r)) as [|c]; reflexivity. }
      rewrite ET.
      destruct (IH (acc + x) (S k) x ltac:(lia) Hs (Forall_le_trans x x r ltac:(lra) Hf) L) as [HT Hsum].
      split; [lra|]. unfold proj in *. cbn [map]. rewrite lsum_cons.
      destruct (rl_spec (tauf p (acc + x) (S k) r) x) as [[H1 H2]|[H1 H2]]; [lra|]. rewrite H2.
      rewrite S_INR in Hsum. lra.
    + (* x fails: nothing later is counted *)
      assert (Hx : x <= (acc - p) / INR k).
      { destruct (Rle_dec x ((acc - p) / INR k)) as [Y|N]; [exact Y|]. exfalso.
        assert ((acc - p) / INR k < x) as A by (apply Rnot_le_lt; exact N). apply (proj2 (active_iff p acc k x Hk)) in A.
        exact (Rlt_irrefl _ (Rle_lt_trans _ _ _ L A)). }
      assert (Hall : Forall (fun y => y <= (acc - p) / INR k) (x :: r)).
      { constructor; [exact Hx|]. eapply Forall_le_trans; [exact Hx | exact Hf]. }
      assert (ET : tauf p acc k (x :: r) = (acc - p) / INR k).
      { unfold tauf. rewrite (fail_stays p (x :: r) acc k Hk (SSorted_cons x Hs Hf) Hall). reflexivity. }
      rewrite ET. split; [exact Hprev|]. rewrite (proj_zero _ _ Hall). field. lra.
Qed.

Lemma simplex_tau_sorted_sum p x r : 0 < p -> StronglySorted geR (x :: r) ->
  let T := match simplex_count Rops (x :: r) (simplex_thr Rops p (x :: r)) with
           | O => last (simplex_thr Rops p (x :: r)) 0 | S c => nth c (simplex_thr Rops p (x :: r)) 0 end in
  lsum Rops (proj T (x :: r)) = p.
Proof.
  intros Hp Hs. rewrite simplex_thr_thrf, thrf_cons, count_cons. cbn zeta.
  apply StronglySorted_inv in Hs. destruct Hs as [Hs Hf].
  replace (0 + x - p) with (x - p) by ring. change (INR 1) with 1.
  destruct (fltb_R ((x - p) / 1) x) as [[E L]|[E L]]; [|exfalso; unfold Rdiv in L; rewrite Rinv_1 in L; lra].
  rewrite E. cbn [Nat.add].
  assert (ET : match simplex_count Rops r (thrf p (0 + x) 1 r) with
               | O => (x - p) / 1 | S c => nth c (thrf p (0 + x) 1 r) 0 end = tauf p (0 + x) 1 r).
  { unfold tauf. change (INR 1) with 1. replace (0 + x - p) with (x - p) by ring. reflexivity. }
  assert (EQ : nth (simplex_count Rops r (thrf p (0 + x) 1 r)) ((x - p) / 1 :: thrf p (0 + x) 1 r) 0 = tauf p (0 + x) 1 r).
  { rewrite <- ET. destruct (simplex_count Rops r (thrf p (0 + x) 1 r)); reflexivity. }
  rewrite EQ.
  assert (Hprev : (0 + x - p) / INR 1 < x) by (change (INR 1) with 1; replace (0 + x - p) with (x - p) by ring; exact L).
  destruct (tau_invariant p r (0 + x) 1%nat x ltac:(lia) Hs (Forall_le_trans x x r ltac:(lra) Hf) Hprev) as [HT Hsum].
  unfold proj in *. cbn [map]. rewrite lsum_cons.
  destruct (rl_spec (tauf p (0 + x) 1 r) x) as [[H1 H2]|[H1 H2]]; [lra|]. rewrite H2.
  change (INR 1) with 1 in Hsum. lra.
Qed.

(* ---------- the coded operator *)
Theorem simplex_sum p v : 0 < p -> v <> [] -> lsum Rops (simplex_prox Rops p v) = p.
Proof.
  intros Hp Hv. rewrite simplex_prox_proj.
  rewrite <- (lsum_proj_perm _ _ _ (sort_desc_perm v)).
  unfold simplex_tau. pose proof (sort_desc_sorted v) as Hs. pose proof (sort_desc_perm v) as Hperm.
  destruct (sort_desc Rops v) as [|x r] eqn:Eu.
  - exfalso. apply Permutation_nil in Hperm. contradiction.
  - apply (simplex_tau_sorted_sum p x r Hp Hs).
Qed.
Theorem simplex_nonneg p v : Forall (fun x => 0 <= x) (simplex_prox Rops p v).
Proof. rewrite simplex_prox_proj. apply proj_nonneg. Qed.
Theorem simplex_feasible p v : 0 < p -> v <> [] ->
  Forall (fun x => 0 <= x) (simplex_prox Rops p v) /\ lsum Rops (simplex_prox Rops p v) = p.
Proof. intros Hp Hv. split; [apply simplex_nonneg | apply simplex_sum; assumption]. Qed.
Theorem simplex_length p v : length (simplex_prox Rops p v) = length v.
Proof. apply map_length. Qed.
Theorem simplex_optimal p v z : 0 < p -> v <> [] ->
  length z = length v -> Forall (fun t => 0 <= t) z -> lsum Rops z = p ->
  dist2 Rops (simplex_prox Rops p v) v <= dist2 Rops z v.
Proof.
  intros Hp Hv Hl Hz Hs. rewrite simplex_prox_proj.
  apply (simplex_characterisation _ p); auto. rewrite <- simplex_prox_proj. apply simplex_sum; auto.
Qed.
Theorem simplex_fixes_feasible p v : 0 < p -> Forall (fun t => 0 <= t) v -> lsum Rops v = p -> simplex_prox Rops p v = v.
Proof.
  intros Hp Hz Hs. assert (Hv : v <> []) by (intros ->; cbn in Hs; lra).
  apply dist2_zero_eq; [apply simplex_length|].
  pose proof (simplex_optimal p v v Hp Hv eq_refl Hz Hs) as H. rewrite dist2_refl in H.
  pose proof (dist2_nonneg (simplex_prox Rops p v) v). lra.
Qed.
Theorem simplex_idempotent p v : 0 < p -> v <> [] ->
  simplex_prox Rops p (simplex_prox Rops p v) = simplex_prox Rops p v.
Proof. intros Hp Hv. apply simplex_fixes_feasible; [exact Hp | apply simplex_nonneg | apply simplex_sum; auto]. Qed.

(* the simplex {z >= 0, sum z = p} is convex: with the generic lemma the coded operator is firmly non-expansive *)
Definition in_simplex (p : R) (z : list R) : Prop := Forall (fun t => 0 <= t) z /\ lsum Rops z = p.
Lemma lsum_lerp lam : forall a b, length a = length b ->
  lsum Rops (lerp lam a b) = lsum Rops a + lam * (lsum Rops b - lsum Rops a).
Proof.
  induction a as [|x a IH]; intros [|y b] L; try discriminate; [cbn; ring|].
  injection L as L. unfold lerp in *. cbn [combine map fst snd]. rewrite !lsum_cons, (IH b L). ring.
Qed.
Lemma simplex_convex p n : convex_set n (in_simplex p).
Proof.
  intros a b lam [Ha Sa] [Hb Sb] La Lb Hlam. split.
  - apply (nonneg_convex n); auto.
  - rewrite lsum_lerp by congruence. rewrite Sa, Sb. ring.
Qed.
Theorem simplex_firmly_nonexpansive p u v : 0 < p -> u <> [] -> length u = length v ->
  dist2 Rops (simplex_prox Rops p u) (simplex_prox Rops p v) <= dotd (simplex_prox Rops p u) (simplex_prox Rops p v) u v.
Proof.
  intros Hp Hu L.
  apply (firmly_nonexpansive (length v) (in_simplex p) (simplex_prox Rops p)); auto.
  - apply simplex_convex.
  - intros w Lw. assert (Hw : w <> []) by (intros ->; destruct u; [contradiction | cbn in *; congruence]).
    split; [split; [apply simplex_nonneg | apply simplex_sum; auto]|].
    split; [rewrite simplex_length; exact Lw|].
    intros z [Hz Sz] Lz. apply simplex_optimal; auto. congruence.
Qed.

(* ---------- soft_sparsity_prox on or outside the l1 ball is the Euclidean projection onto the ball *)
Lemma proj_neg_tau tau : tau < 0 -> forall w, Forall (fun x => 0 <= x) w ->
  lsum Rops (proj tau w) = lsum Rops w - INR (length w) * tau.
Proof.
  intros Ht. induction 1 as [|x w Hx Hw IH]; [cbn; ring|].
  unfold proj in *. cbn [map length]. rewrite !lsum_cons, IH, S_INR.
  destruct (rl_spec tau x) as [[H E]|[H E]]; [lra|]. rewrite E. ring.
Qed.
Lemma abs_all_nonneg : forall v, Forall (fun x => 0 <= x) (map (fabs Rops) v).
Proof. induction v as [|a v IH]; constructor; [rewrite fabs_Rabs; apply Rabs_pos | exact IH]. Qed.
Lemma lsum_abs_l1n v : lsum Rops (map (fabs Rops) v) = l1n Rops v.
Proof. reflexivity. Qed.
Lemma soft_l1n tau : 0 <= tau -> forall v,
  l1n Rops (soft_thresholding Rops tau v) = lsum Rops (proj tau (map (fabs Rops) v)).
Proof.
  intros Ht. induction v as [|a v IH]; [reflexivity|].
  unfold soft_thresholding, proj in *. cbn [map]. rewrite l1n_cons, lsum_cons, IH. f_equal.
  rewrite fabs_Rabs.
  destruct (soft1_spec tau a Ht) as [[H E]|[[H E]|[H E]]]; rewrite E;
    destruct (rl_spec tau (Rabs a)) as [[H1 E1]|[H1 E1]]; rewrite E1;
    destruct (Rabs_cases a) as [[Ha Ea]|[Ha Ea]]; rewrite Ea in *; try lra;
    try (rewrite Rabs_right by lra; lra); try (rewrite Rabs_left by lra; lra); try (rewrite Rabs_R0; lra).
Qed.
Theorem l1ball_tau_nonneg p v : 0 < p -> p <= l1n Rops v -> 0 <= simplex_tau Rops p (map (fabs Rops) v).
Proof.
  intros Hp Hout.
  assert (Hv : map (fabs Rops) v <> []) by (destruct v; [cbn in Hout; lra | discriminate]).
  pose proof (simplex_sum p _ Hp Hv) as Hs. rewrite simplex_prox_proj in Hs.
  destruct (Rle_dec 0 (simplex_tau Rops p (map (fabs Rops) v))) as [Y|N]; [exact Y|exfalso].
  assert (Ht : simplex_tau Rops p (map (fabs Rops) v) < 0) by lra.
  rewrite (proj_neg_tau _ Ht _ (abs_all_nonneg v)), lsum_abs_l1n in Hs.
  assert (0 < INR (length (map (fabs Rops) v))).
  { apply lt_0_INR. destruct (map (fabs Rops) v); [contradiction | cbn; lia]. }
  nra.
Qed.
Theorem l1ball_outside_feasible p v : 0 < p -> p <= l1n Rops v -> l1n Rops (soft_sparsity_prox Rops p v) = p.
Proof.
  intros Hp Hout. pose proof (l1ball_tau_nonneg p v Hp Hout) as Ht.
  rewrite soft_sparsity_is_soft, (soft_l1n _ Ht). rewrite <- simplex_prox_proj. apply simplex_sum; [exact Hp|].
  destruct v; [cbn in Hout; lra | discriminate].
Qed.
Theorem l1ball_outside_optimal p v z : 0 < p -> p <= l1n Rops v -> length z = length v -> l1n Rops z <= p ->
  dist2 Rops (soft_sparsity_prox Rops p v) v <= dist2 Rops z v.
Proof.
  intros Hp Hout Hl Hz. apply l1ball_partial; auto; [apply l1ball_tau_nonneg | apply l1ball_outside_feasible]; auto.
Qed.
