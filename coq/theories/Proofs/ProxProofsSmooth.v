(* smoothness_prox: the executable tridiagonal elimination of the model (forward sweep + back substitution) solves the
   coded system for EVERY right-hand side and every t >= 0 (pivots stay >= t + 1 > 0), the solution is unique, and hence any
   exact solver's answer (the contract of tl.solve) is the model's answer and the minimiser of the smoothness objective. *)
From Coq Require Import List Reals Lra Psatz Lia Bool.
From TLV Require Import Base.Ops Model.Prox Proofs.ProxProofs.
Import ListNotations.
Open Scope R_scope.

Lemma sm_forward_cons_false t cp dp y r :
  sm_forward Rops t cp dp false (y :: r) =
  let den := (2 * t + 1) - (- t) * cp in
  ((- t) / den, (y - (- t) * dp) / den) :: sm_forward Rops t ((- t) / den) ((y - (- t) * dp) / den) false r.
Proof. cbn. unfold two; cbn. replace (1 + 1) with 2 by ring. reflexivity. Qed.
Lemma sm_forward_first t y r :
  sm_forward Rops t 0 0 true (y :: r) = sm_forward Rops t 0 0 false (y :: r).
Proof.
  rewrite sm_forward_cons_false. cbn. unfold two; cbn. replace (1 + 1) with 2 by ring.
  replace (2 * t + 1 - - t * 0) with (2 * t + 1) by ring. replace (y - - t * 0) with y by ring. reflexivity.
Qed.
Lemma sm_back_cons cd r : sm_back Rops (cd :: r) =
  match sm_back Rops r with [] => [snd cd] | xn :: _ => (snd cd - fst cd * xn) :: sm_back Rops r end.
Proof. reflexivity. Qed.
Lemma sm_apply_cons t prev a r : sm_apply Rops t prev (a :: r) = ((2 * t + 1) * a - t * prev - t * hd 0 r) :: sm_apply Rops t a r.
Proof. cbn. unfold two; cbn. replace (1 + 1) with 2 by ring. reflexivity. Qed.
Lemma sm_forward_length : forall v t cp dp f, length (sm_forward Rops t cp dp f v) = length v.
Proof. induction v as [|y r IH]; intros; [reflexivity|]. cbn [sm_forward length]. rewrite IH. reflexivity. Qed.
Lemma sm_back_length : forall l, length (sm_back Rops l) = length l.
Proof.
  induction l as [|cd r IH]; [reflexivity|]. rewrite sm_back_cons.
  destruct (sm_back Rops r) eqn:E; cbn [length] in *; rewrite <- IH; reflexivity.
Qed.

Lemma sm_general : forall v t cp dp, 0 <= t -> -1 < cp <= 0 ->
  sm_apply Rops t (dp - cp * hd 0 (sm_back Rops (sm_forward Rops t cp dp false v))) (sm_back Rops (sm_forward Rops t cp dp false v)) = v.
Proof.
  induction v as [|y r IH]; intros t cp dp Ht Hcp; [reflexivity|].
  rewrite sm_forward_cons_false. cbv zeta.
  set (den := 2 * t + 1 - - t * cp).
  assert (Hden : t + 1 <= den) by (unfold den; nra).
  set (cp' := - t / den). set (dp' := (y - - t * dp) / den).
  assert (Hcp' : -1 < cp' <= 0).
  { unfold cp'. split.
    - apply Rmult_lt_reg_r with den; [lra|]. unfold Rdiv. rewrite Rmult_assoc, Rinv_l by lra. lra.
    - apply Rmult_le_reg_r with den; [lra|]. unfold Rdiv. rewrite Rmult_assoc, Rinv_l by lra. lra. }
  specialize (IH t cp' dp' Ht Hcp').
  rewrite sm_back_cons. cbn [fst snd].
  assert (Ed : den * dp' = y + t * dp) by (unfold dp'; field; lra).
  assert (Ec : den * cp' = - t) by (unfold cp'; field; lra).
  destruct (sm_back Rops (sm_forward Rops t cp' dp' false r)) as [|xn rest] eqn:E.
  - assert (r = []).
    { apply (f_equal (@length R)) in E. rewrite sm_back_length, sm_forward_length in E. destruct r; [reflexivity | discriminate]. }
    subst r. cbn [hd]. rewrite sm_apply_cons. cbn [hd sm_apply]. f_equal.
    match goal with |- ?l = _ => replace l with (den * dp' - t * dp) by (unfold den; ring) end. rewrite Ed. ring.
  - cbn [hd] in *. rewrite sm_apply_cons. cbn [hd]. rewrite IH. f_equal.
    match goal with |- ?l = _ => replace l with (den * dp' - (den * cp') * xn - t * dp - t * xn) by (unfold den; ring) end. rewrite Ed, Ec. ring.
Qed.
Theorem smoothness_solve_correct t v : 0 <= t -> sm_apply Rops t 0 (smoothness_solve Rops t v) = v.
Proof.
  intros Ht. unfold smoothness_solve. destruct v as [|y r]; [reflexivity|].
  change (f0 Rops) with 0. rewrite sm_forward_first.
  pose proof (sm_general (y :: r) t 0 0 Ht ltac:(lra)) as H.
  replace (0 - 0 * hd 0 (sm_back Rops (sm_forward Rops t 0 0 false (y :: r)))) with 0 in H by ring. exact H.
Qed.
Theorem smoothness_solve_length t v : length (smoothness_solve Rops t v) = length v.
Proof. unfold smoothness_solve. rewrite sm_back_length, sm_forward_length. reflexivity. Qed.
Theorem smoothness_solve_optimal t v z : 0 <= t -> length z = length v ->
  smooth_obj t (smoothness_solve Rops t v) v <= smooth_obj t z v.
Proof. intros Ht Hl. apply smooth_optimal; [exact Ht | apply smoothness_solve_correct; exact Ht | rewrite smoothness_solve_length; exact Hl]. Qed.

(* uniqueness: two solutions of the system coincide (the objective is strictly convex) *)
Lemma sm_apply_length : forall x t p, length (sm_apply Rops t p x) = length x.
Proof. induction x as [|a x IH]; intros; [reflexivity|]. cbn [sm_apply length]. rewrite IH. reflexivity. Qed.
Lemma add_zero : forall (x d : list R), sumsq Rops d = 0 -> length d = length x ->
  map (fun p => fst p + snd p) (combine x d) = x.
Proof.
  induction x as [|a x IH]; intros [|e d] Z Hd; try discriminate; [reflexivity|].
  rewrite sumsq_cons in Z. pose proof (sumsq_nonneg d). pose proof (sq_nonneg e). assert (e = 0) by nra. subst e.
  cbn [combine map fst snd]. f_equal; [ring|]. apply IH; [nra | cbn in Hd; lia].
Qed.
Theorem smooth_solution_unique t x x' v : 0 <= t -> sm_apply Rops t 0 x = v -> sm_apply Rops t 0 x' = v -> x = x'.
Proof.
  intros Ht Hx Hx'.
  assert (L : length x' = length x).
  { rewrite <- (sm_apply_length x t 0), <- (sm_apply_length x' t 0), Hx, Hx'. reflexivity. }
  (* the gap of the objective between z and a solution x is (t/2) rough(z - x) + |z - x|^2 / 2 *)
  set (d := map (fun p => fst p - snd p) (combine x' x)).
  assert (Hd : length d = length x) by (unfold d; rewrite map_length, combine_length, L; apply Nat.min_id).
  assert (Hv : length v = length x) by (rewrite <- Hx; apply sm_apply_length).
  pose proof (smooth_optimal t x' v x Ht Hx' (eq_sym L)) as O2.
  pose proof (add_sub_combine x x' L) as A. fold d in A.
  unfold smooth_obj in O2. rewrite <- A in O2 at 1 2.
  rewrite (dist2_add x d v Hd Hv) in O2.
  pose proof (rough_add x d 0 0 Hd) as RA. rewrite Rplus_0_l in RA. rewrite RA in O2.
  pose proof (bil_apply t x d 0 0 Hd) as B. rewrite Hx in B.
  pose proof (rough_nonneg d 0). pose proof (sumsq_nonneg d).
  assert (Z : sumsq Rops d = 0) by nra.
  rewrite <- A. symmetry. apply add_zero; assumption.
Qed.
Corollary smooth_any_solver_is_model t x v : 0 <= t -> sm_apply Rops t 0 x = v -> x = smoothness_solve Rops t v.
Proof. intros Ht Hx. apply (smooth_solution_unique t x _ v Ht Hx). apply smoothness_solve_correct. exact Ht. Qed.
