(* Round 7: smoothness_prox on a tensor with three or more dimensions (Model/ProxDispatch.smooth_nd, the code as it is): the call raises
   exactly when shape[-2] <> shape[0]; otherwise every p x q slice of the result is, column by column, the solution of the coded tridiagonal
   system and the minimiser of the smoothness objective ALONG AXIS -2 of that slice. *)
From Coq Require Import List Reals QArith Qreals Lra Lia Bool.
From TLV Require Import Base.Ops Base.Tensor Model.Prox Model.Constraints Model.ProxDispatch
  Proofs.ProxProofs Proofs.ProxProofsSmooth Proofs.ProxProofsMatrix Proofs.ProxProofsRun.
Import ListNotations.

Lemma rchunk_concat {F} p : (1 <= p)%nat -> forall (L : list (list (list F))) fuel,
  Forall (fun s => length s = p) L -> (length L <= fuel)%nat -> rchunk fuel p (concat L) = L.
Proof.
  intros Hp. induction L as [|s L IH]; intros fuel HF Hfu.
  - destruct fuel; reflexivity.
  - inversion HF as [|? ? Hs HF']; subst. destruct fuel as [|fu]; [cbn in Hfu; lia|]. cbn [concat].
    destruct s as [|r s']; [cbn in Hp; lia|]. cbn [app rchunk]. change (r :: s' ++ concat L) with ((r :: s') ++ concat L).
    rewrite firstn_app, skipn_app, Nat.sub_diag, firstn_all, skipn_all. cbn [firstn skipn app]. rewrite app_nil_r.
    f_equal. apply IH; [exact HF' | cbn in Hfu; lia].
Qed.
Theorem smooth_nd_raises_iff {F} (Op : fops F) t d0 p rows : smooth_nd Op t d0 p rows = Err <-> p <> d0.
Proof.
  unfold smooth_nd. destruct (Nat.eqb p d0) eqn:E; [apply Nat.eqb_eq in E | apply Nat.eqb_neq in E]; split; intros H; try discriminate H; try contradiction; auto.
Qed.
Lemma concat_slices_length {F} p (L : list (list (list F))) : (1 <= p)%nat -> Forall (fun s => length s = p) L -> (length L <= length (concat L))%nat.
Proof.
  intros Hp. induction L as [|s L IH]; intros HF; [cbn; lia|]. inversion HF; subst. cbn [concat length]. rewrite app_length. specialize (IH H2). lia.
Qed.

Open Scope R_scope.
(* the tensor given as its list of p x q slices *)
Theorem smooth_nd_sound t d0 p q (slices : list (list (list R))) Y : 0 <= t -> (1 <= p)%nat -> (1 <= q)%nat ->
  Forall (rect p q) slices -> smooth_nd Rops t d0 p (concat slices) = Ok Y ->
  p = d0 /\ Y = concat (smooth_slices Rops t slices) /\
  Forall2 (fun Ys Xs => per_column (fun y v => sm_apply Rops t 0 y = v /\ forall z, length z = length v -> smooth_obj t y v <= smooth_obj t z v) Ys Xs)
          (smooth_slices Rops t slices) slices.
Proof.
  intros Ht Hp Hq HR. unfold smooth_nd. destruct (Nat.eqb p d0) eqn:E; [|discriminate]. apply Nat.eqb_eq in E. intros H. injection H as <-.
  assert (HL : Forall (fun s : list (list R) => length s = p) slices) by (eapply Forall_impl; [|exact HR]; intros s [L _]; exact L).
  rewrite (rchunk_concat p Hp slices _ HL (concat_slices_length p slices Hp HL)).
  split; [exact E|]. split; [reflexivity|]. unfold smooth_slices.
  induction slices as [|s L IH]; [constructor|]. inversion HR; subst. inversion HL; subst. cbn [map]. constructor; [|apply IH; assumption].
  apply (col_lift (length s) q); auto; [apply smoothness_solve_length|]. intros v Lv. split.
  - apply smoothness_solve_correct, Ht.
  - intros z Lz. apply smoothness_solve_optimal; assumption.
Qed.
Example smooth_nd_instance :
  smooth_nd Qops 1%Q 2 2 [[1; 2]; [3; 4]; [5; 6]; [7; 8]]%Q
    = Ok (concat (smooth_slices Qops 1%Q [[[1; 2]; [3; 4]]; [[5; 6]; [7; 8]]]%Q)) /\
  smooth_nd Qops 1%Q 3 1 [[1; 2]; [3; 4]; [5; 6]]%Q = Err.
Proof. split; vm_compute; reflexivity. Qed.
