(* svd_thresholding and procrustes: optimality from the CONTRACT of the SVD oracle (U with orthonormal columns, V with orthonormal
   rows, s >= 0, M = U diag(s) V), no von Neumann trace inequality.  Matrices are index functions nat -> nat -> R summed with
   Base/RSum.rsum (the bridge to the list model Model/Prox.svd_thresholding_with / procrustes_with is Proofs/ProxProofsSvtList.v).
   * procrustes (full): for every Q with orthonormal columns (m x n, Q^T Q = I) or orthonormal rows,  <Q, M> <= sum s = <U V, M>.
   * svd_thresholding (partial in one respect: the competitor Z is presented with a singular value decomposition U' diag(s') V' -
     every real matrix has one, a classical fact not available in Coq's library - and its nuclear norm is sum s'):
       t * sum soft(s) + |X - M|^2 / 2  <=  t * sum s' + |Z - M|^2 / 2      for X = U diag(soft_t(s)) V. *)
From Coq Require Import Reals Lra Lia List.
From TLV Require Import Base.RSum.
Open Scope R_scope.

Lemma rsum_mul n m f g : rsum n f * rsum m g = rsum n (fun i => rsum m (fun j => f i * g j)).
Proof.
  transitivity (rsum n (fun i => rsum m g * f i)); [rewrite rsum_scale; ring|].
  apply rsum_ext; intros i _. rewrite Rmult_comm, <- rsum_scale. reflexivity.
Qed.
Lemma rot3 m n k (F : nat -> nat -> nat -> R) :
  rsum m (fun i => rsum n (fun j => rsum k (fun l => F i j l))) = rsum k (fun l => rsum m (fun i => rsum n (fun j => F i j l))).
Proof.
  transitivity (rsum m (fun i => rsum k (fun l => rsum n (fun j => F i j l)))).
  - apply rsum_ext; intros i _. apply rsum_exchange.
  - apply (rsum_exchange m k (fun i l => rsum n (fun j => F i j l))).
Qed.

Definition delta (a b : nat) : R := if Nat.eq_dec a b then 1 else 0.
(* the columns 0..cols-1 of the rows x cols matrix A are orthonormal *)
Definition ocols (rows cols : nat) (A : nat -> nat -> R) : Prop :=
  forall a b, (a < cols)%nat -> (b < cols)%nat -> rsum rows (fun i => A i a * A i b) = delta a b.
Definition compose (k : nat) (U : nat -> nat -> R) (d : nat -> R) (V : nat -> nat -> R) : nat -> nat -> R :=
  fun i j => rsum k (fun l => U i l * d l * V l j).
Definition frob (m n : nat) (A B : nat -> nat -> R) : R := rsum m (fun i => rsum n (fun j => A i j * B i j)).
Definition bil (m n : nat) (u : nat -> R) (G : nat -> nat -> R) (v : nat -> R) : R :=
  rsum m (fun i => rsum n (fun j => u i * G i j * v j)).

Lemma rsum_delta k (c : nat -> R) l : (l < k)%nat -> rsum k (fun l' => c l' * delta l l') = c l.
Proof.
  intros Hl. rewrite (rsum_single k l); [unfold delta; destruct (Nat.eq_dec l l); [ring | congruence]| exact Hl |].
  intros i _ Hne. unfold delta. destruct (Nat.eq_dec l i); [congruence | ring].
Qed.

(* sum_i (sum_l c_l A_il)(sum_l' d_l' A_il') = sum_l c_l d_l  for orthonormal columns *)
Lemma quad_expand rows cols A c d : ocols rows cols A ->
  rsum rows (fun i => rsum cols (fun l => c l * A i l) * rsum cols (fun l => d l * A i l)) = rsum cols (fun l => c l * d l).
Proof.
  intros HA.
  rewrite (rsum_ext rows _ (fun i => rsum cols (fun l => rsum cols (fun l' => (c l * d l') * (A i l * A i l')))))
    by (intros i _; rewrite rsum_mul; apply rsum_ext; intros l _; apply rsum_ext; intros l' _; ring).
  rewrite (rot3 rows cols cols (fun i l l' => (c l * d l') * (A i l * A i l'))).
  rewrite (rot3 cols rows cols (fun l' i l => (c l * d l') * (A i l * A i l'))).
  apply rsum_ext; intros l Hl.
  rewrite (rsum_ext cols _ (fun l' => (c l * d l') * delta l l')).
  - rewrite (rsum_delta cols (fun l' => c l * d l') l Hl). reflexivity.
  - intros l' Hl'. rewrite rsum_scale. rewrite (HA l l' Hl Hl'). reflexivity.
Qed.

(* Bessel's inequality for orthonormal columns *)
Lemma bessel rows cols A u : ocols rows cols A ->
  rsum cols (fun l => (rsum rows (fun i => u i * A i l))^2) <= rsum rows (fun i => (u i)^2).
Proof.
  intros HA. set (al := fun l => rsum rows (fun i => u i * A i l)).
  set (p := fun i => rsum cols (fun l => al l * A i l)).
  assert (H0 : 0 <= rsum rows (fun i => (u i - p i)^2)) by (apply rsum_nonneg; intros; apply pow2_ge_0).
  rewrite (rsum_ext rows _ (fun i => ((u i)^2 + (-2) * (u i * p i)) + p i * p i)) in H0 by (intros; ring).
  rewrite !rsum_add, rsum_scale in H0.
  assert (H1 : rsum rows (fun i => u i * p i) = rsum cols (fun l => (al l)^2)).
  { unfold p. rewrite (rsum_ext rows _ (fun i => rsum cols (fun l => al l * (u i * A i l))))
      by (intros i _; rewrite <- rsum_scale; apply rsum_ext; intros; ring).
    rewrite rsum_exchange. apply rsum_ext; intros l _. rewrite rsum_scale. unfold al. ring. }
  assert (H2 : rsum rows (fun i => p i * p i) = rsum cols (fun l => (al l)^2)).
  { unfold p. rewrite (quad_expand rows cols A al al HA). apply rsum_ext; intros; ring. }
  rewrite H1, H2 in H0. change (rsum cols (fun l => (al l)^2) <= rsum rows (fun i => (u i)^2)). lra.
Qed.

(* <U diag(a) V, G> = sum_l a_l * (u_l^T G v_l) *)
Lemma frob_compose_l m n k U a V G :
  frob m n (compose k U a V) G = rsum k (fun l => a l * bil m n (fun i => U i l) G (fun j => V l j)).
Proof.
  unfold frob, compose, bil.
  rewrite (rsum_ext m _ (fun i => rsum n (fun j => rsum k (fun l => a l * (U i l * G i j * V l j))))).
  - rewrite (rot3 m n k (fun i j l => a l * (U i l * G i j * V l j))).
    apply rsum_ext; intros l _. rewrite <- rsum_scale. apply rsum_ext; intros i _. rewrite <- rsum_scale. reflexivity.
  - intros i _. apply rsum_ext; intros j _. rewrite Rmult_comm, <- rsum_scale. apply rsum_ext; intros; ring.
Qed.
(* u^T (U diag(g) V) v = sum_l g_l (u . U_l) (V_l . v) *)
Lemma bil_compose m n k u U g V v :
  bil m n u (compose k U g V) v = rsum k (fun l => g l * (rsum m (fun i => u i * U i l) * rsum n (fun j => V l j * v j))).
Proof.
  unfold bil, compose.
  rewrite (rsum_ext m _ (fun i => rsum n (fun j => rsum k (fun l => g l * ((u i * U i l) * (V l j * v j)))))).
  - rewrite (rot3 m n k (fun i j l => g l * ((u i * U i l) * (V l j * v j)))).
    apply rsum_ext; intros l _. rewrite rsum_mul. rewrite <- rsum_scale. apply rsum_ext; intros i _. rewrite <- rsum_scale. reflexivity.
  - intros i _. apply rsum_ext; intros j _.
    transitivity ((u i * v j) * rsum k (fun l => U i l * g l * V l j)); [ring|]. rewrite <- rsum_scale. apply rsum_ext; intros; ring.
Qed.
Lemma frob_comm m n A B : frob m n A B = frob m n B A.
Proof. unfold frob. apply rsum_ext; intros; apply rsum_ext; intros; ring. Qed.

Definition unit_vec (n : nat) (u : nat -> R) : Prop := rsum n (fun i => (u i)^2) = 1.
Lemma ocols_unit rows cols A l : ocols rows cols A -> (l < cols)%nat -> unit_vec rows (fun i => A i l).
Proof. intros HA Hl. unfold unit_vec. rewrite (rsum_ext rows _ (fun i => A i l * A i l)) by (intros; ring). rewrite (HA l l Hl Hl). unfold delta. destruct (Nat.eq_dec l l); [reflexivity | congruence]. Qed.

Section SvdContract.
Variables (m n k : nat) (U : nat -> nat -> R) (s : nat -> R) (V : nat -> nat -> R).
Hypothesis HU : ocols m k U.
Hypothesis HV : ocols n k (fun j l => V l j).
Let M := compose k U s V.

(* u_l^T (U diag(g) V) v_l' = g_l delta *)
Lemma bil_orth g l l' : (l < k)%nat -> (l' < k)%nat ->
  bil m n (fun i => U i l) (compose k U g V) (fun j => V l' j) = g l * delta l l'.
Proof.
  intros Hl Hl'. rewrite bil_compose.
  rewrite (rsum_ext k _ (fun l2 => (g l2 * delta l2 l') * delta l l2)).
  - rewrite (rsum_delta k (fun l2 => g l2 * delta l2 l') l Hl). reflexivity.
  - intros l2 Hl2. rewrite (HU l l2 Hl Hl2). rewrite (HV l2 l' Hl2 Hl'). ring.
Qed.
Lemma frob_compose_compose a g : frob m n (compose k U a V) (compose k U g V) = rsum k (fun l => a l * g l).
Proof.
  rewrite frob_compose_l. apply rsum_ext; intros l Hl. rewrite (bil_orth g l l Hl Hl). unfold delta.
  destruct (Nat.eq_dec l l); [ring | congruence].
Qed.

(* |u^T (U diag(g) V) v| <= t for unit u, v and 0 <= g <= t *)
Lemma bil_bound g t u v : 0 <= t -> (forall l, (l < k)%nat -> 0 <= g l <= t) -> unit_vec m u -> unit_vec n v ->
  bil m n u (compose k U g V) v <= t.
Proof.
  intros Ht Hg Hu Hv. rewrite bil_compose.
  set (al := fun l => rsum m (fun i => u i * U i l)). set (be := fun l => rsum n (fun j => V l j * v j)).
  assert (Ha : rsum k (fun l => (al l)^2) <= 1) by (rewrite <- Hu; apply (bessel m k U u HU)).
  assert (Hb : rsum k (fun l => (be l)^2) <= 1).
  { rewrite <- Hv. pose proof (bessel n k (fun j l => V l j) v HV) as B. cbv beta in B.
    rewrite (rsum_ext k _ (fun l => (rsum n (fun i => v i * V l i))^2)); [exact B|].
    intros l _. unfold be. f_equal. apply rsum_ext; intros; ring. }
  apply Rle_trans with (rsum k (fun l => t / 2 * (al l)^2 + t / 2 * (be l)^2)).
  - apply rsum_le. intros l Hl. fold (al l) (be l). destruct (Hg l Hl) as [G0 G1].
    assert (0 <= (al l - be l)^2) by apply pow2_ge_0. assert (0 <= (al l)^2 + (be l)^2) by (pose proof (pow2_ge_0 (al l)); pose proof (pow2_ge_0 (be l)); lra).
    nra.
  - rewrite rsum_add, !rsum_scale.
    nra.
Qed.
End SvdContract.

(* ---------- procrustes: U V maximises <Q, M> over the matrices with orthonormal columns (tall / square) or rows (wide) *)
Lemma bil_isometry_cols m n Q u v : ocols m n Q -> unit_vec m u -> unit_vec n v -> bil m n u Q v <= 1.
Proof.
  intros HQ Hu Hv. unfold bil. set (w := fun i => rsum n (fun j => v j * Q i j)).
  rewrite (rsum_ext m _ (fun i => u i * w i)) by (intros i _; unfold w; rewrite <- rsum_scale; apply rsum_ext; intros; ring).
  assert (Hw : rsum m (fun i => w i * w i) = 1).
  { unfold w. rewrite (quad_expand m n Q v v HQ). rewrite <- Hv. apply rsum_ext; intros; ring. }
  assert (H0 : 0 <= rsum m (fun i => (u i - w i)^2)) by (apply rsum_nonneg; intros; apply pow2_ge_0).
  rewrite (rsum_ext m _ (fun i => ((u i)^2 + (-2) * (u i * w i)) + w i * w i)) in H0 by (intros; ring).
  rewrite !rsum_add, rsum_scale, Hw in H0. unfold unit_vec in Hu. lra.
Qed.
Lemma bil_transpose m n u G v : bil m n u G v = bil n m v (fun j i => G i j) u.
Proof. unfold bil. rewrite rsum_exchange. apply rsum_ext; intros; apply rsum_ext; intros; ring. Qed.
Lemma bil_isometry_rows m n Q u v : ocols n m (fun j i => Q i j) -> unit_vec m u -> unit_vec n v -> bil m n u Q v <= 1.
Proof. intros HQ Hu Hv. rewrite bil_transpose. apply bil_isometry_cols; assumption. Qed.

Lemma rsum_const n c : rsum n (fun _ => c) = INR n * c.
Proof. induction n as [|n IH]; [cbn; ring|]. cbn [rsum]. rewrite IH, S_INR. ring. Qed.
(* a matrix with n orthonormal columns (m orthonormal rows) has squared Frobenius norm n (m) *)
Lemma ocols_frob m n Q : ocols m n Q -> frob m n Q Q = INR n.
Proof.
  intros H. unfold frob. rewrite rsum_exchange. rewrite (rsum_ext n _ (fun _ => 1)); [rewrite rsum_const; ring|].
  intros j Hj. rewrite (H j j Hj Hj). unfold delta. destruct (Nat.eq_dec j j); [reflexivity | congruence].
Qed.
Lemma orows_frob m n Q : ocols n m (fun j i => Q i j) -> frob m n Q Q = INR m.
Proof.
  intros H. unfold frob. rewrite (rsum_ext m _ (fun _ => 1)); [rewrite rsum_const; ring|].
  intros i Hi. rewrite (H i i Hi Hi). unfold delta. destruct (Nat.eq_dec i i); [reflexivity | congruence].
Qed.
(* feasibility of U V: orthonormal columns when V also has orthonormal columns (tall / square input: V is a square orthogonal matrix),
   orthonormal rows when U also has orthonormal rows (wide / square input) *)
Lemma procrustes_feasible_cols m n k U V : ocols m k U -> ocols k n V -> ocols m n (compose k U (fun _ => 1) V).
Proof.
  intros HU HV a b Ha Hb. unfold compose.
  rewrite (rsum_ext m _ (fun i => rsum k (fun l => V l a * U i l) * rsum k (fun l => V l b * U i l)))
    by (intros; f_equal; apply rsum_ext; intros; ring).
  rewrite (quad_expand m k U (fun l => V l a) (fun l => V l b) HU). apply (HV a b Ha Hb).
Qed.
Lemma procrustes_feasible_rows m n k U V : ocols n k (fun j l => V l j) -> ocols k m (fun l i => U i l) ->
  ocols n m (fun j i => compose k U (fun _ => 1) V i j).
Proof.
  intros HV HU a b Ha Hb. unfold compose.
  rewrite (rsum_ext n _ (fun j => rsum k (fun l => U a l * V l j) * rsum k (fun l => U b l * V l j)))
    by (intros; f_equal; apply rsum_ext; intros; ring).
  rewrite (quad_expand n k (fun j l => V l j) (fun l => U a l) (fun l => U b l) HV). apply (HU a b Ha Hb).
Qed.

Section Procrustes.
Variables (m n k : nat) (U : nat -> nat -> R) (s : nat -> R) (V : nat -> nat -> R).
Hypothesis HU : ocols m k U.
Hypothesis HV : ocols n k (fun j l => V l j).
Hypothesis Hs : forall l, (l < k)%nat -> 0 <= s l.
Let M := compose k U s V.
Let one := fun _ : nat => 1.

Theorem procrustes_value : frob m n (compose k U one V) M = rsum k s.
Proof. unfold M. rewrite (frob_compose_compose m n k U V HU HV one s). apply rsum_ext; intros; unfold one; ring. Qed.
Theorem procrustes_norm : frob m n (compose k U one V) (compose k U one V) = INR k.
Proof.
  rewrite (frob_compose_compose m n k U V HU HV one one). unfold one. clear. induction k as [|k' IH]; [reflexivity|].
  cbn [rsum]. rewrite IH, S_INR. ring.
Qed.
Theorem procrustes_max Q : ocols m n Q \/ ocols n m (fun j i => Q i j) -> frob m n Q M <= rsum k s.
Proof.
  intros HQ. rewrite frob_comm. unfold M. rewrite frob_compose_l. apply rsum_le. intros l Hl.
  assert (B : bil m n (fun i => U i l) Q (fun j => V l j) <= 1).
  { pose proof (ocols_unit m k U l HU Hl) as Hu. pose proof (ocols_unit n k (fun j l => V l j) l HV Hl) as Hv.
    destruct HQ as [HQ|HQ]; [apply bil_isometry_cols | apply bil_isometry_rows]; assumption. }
  pose proof (Hs l Hl). nra.
Qed.
(* nearest: |U V - M|^2 <= |Q - M|^2 whenever |Q|_F^2 = |U V|_F^2 (= k, the value for every matrix with k orthonormal columns / rows) *)
Theorem procrustes_nearest Q : ocols m n Q \/ ocols n m (fun j i => Q i j) -> frob m n Q Q = INR k ->
  frob m n (fun i j => compose k U one V i j - M i j) (fun i j => compose k U one V i j - M i j)
  <= frob m n (fun i j => Q i j - M i j) (fun i j => Q i j - M i j).
Proof.
  intros HQ HN. pose proof (procrustes_max Q HQ) as Hm. pose proof procrustes_value as Hv. pose proof procrustes_norm as Hn.
  assert (E : forall A, frob m n (fun i j => A i j - M i j) (fun i j => A i j - M i j) = frob m n A A - 2 * frob m n A M + frob m n M M).
  { intros A. unfold frob. rewrite <- rsum_scale, <- rsum_sub, <- rsum_add. apply rsum_ext; intros i _.
    rewrite <- rsum_scale, <- rsum_sub, <- rsum_add. apply rsum_ext; intros; ring. }
  rewrite (E Q), (E (compose k U one V)). lra.
Qed.
End Procrustes.

(* ---------- singular value thresholding *)
Section Svt.
Variables (m n k : nat) (U : nat -> nat -> R) (s : nat -> R) (V : nat -> nat -> R) (t : R).
Hypothesis HU : ocols m k U.
Hypothesis HV : ocols n k (fun j l => V l j).
Hypothesis Ht : 0 <= t.
(* sf: the thresholded singular values, g = s - sf the removed part *)
Variables (sf g : nat -> R).
Hypothesis Hsplit : forall l, (l < k)%nat -> s l = sf l + g l.
Hypothesis Hg : forall l, (l < k)%nat -> 0 <= g l <= t.
Hypothesis Hcompl : forall l, (l < k)%nat -> sf l * g l = t * sf l.
Let M := compose k U s V.
Let X := compose k U sf V.
Let G := compose k U g V.

Lemma svt_residual i j : M i j - X i j = G i j.
Proof. unfold M, X, G, compose. rewrite <- rsum_sub. apply rsum_ext; intros l Hl. rewrite (Hsplit l Hl). ring. Qed.
Lemma svt_XG : frob m n X G = t * rsum k sf.
Proof. unfold X, G. rewrite (frob_compose_compose m n k U V HU HV sf g). rewrite <- rsum_scale. apply rsum_ext; intros l Hl. apply Hcompl, Hl. Qed.

Variables (k' : nat) (U' : nat -> nat -> R) (s' : nat -> R) (V' : nat -> nat -> R).
Hypothesis HU' : ocols m k' U'.
Hypothesis HV' : ocols n k' (fun j l => V' l j).
Hypothesis Hs' : forall l, (l < k')%nat -> 0 <= s' l.
Let Z := compose k' U' s' V'.

Lemma svt_ZG : frob m n Z G <= t * rsum k' s'.
Proof.
  unfold Z. rewrite frob_compose_l. rewrite <- rsum_scale. apply rsum_le. intros l Hl.
  assert (B : bil m n (fun i => U' i l) G (fun j => V' l j) <= t).
  { unfold G. apply (bil_bound m n k U V HU HV g t); [exact Ht | exact Hg | apply (ocols_unit m k' U' l HU' Hl) | apply (ocols_unit n k' (fun j l => V' l j) l HV' Hl)]. }
  pose proof (Hs' l Hl). nra.
Qed.
Theorem svt_optimal :
  t * rsum k sf + frob m n (fun i j => X i j - M i j) (fun i j => X i j - M i j) / 2
  <= t * rsum k' s' + frob m n (fun i j => Z i j - M i j) (fun i j => Z i j - M i j) / 2.
Proof.
  pose proof svt_XG as H1. pose proof svt_ZG as H2.
  assert (E : frob m n (fun i j => Z i j - M i j) (fun i j => Z i j - M i j)
            = frob m n (fun i j => X i j - M i j) (fun i j => X i j - M i j)
              + frob m n (fun i j => Z i j - X i j) (fun i j => Z i j - X i j) - 2 * frob m n Z G + 2 * frob m n X G).
  { unfold frob. rewrite <- !rsum_scale, <- rsum_add, <- rsum_sub, <- rsum_add. apply rsum_ext; intros i _.
    rewrite <- !rsum_scale, <- rsum_add, <- rsum_sub, <- rsum_add. apply rsum_ext; intros j _. rewrite <- (svt_residual i j). ring. }
  assert (P : 0 <= frob m n (fun i j => Z i j - X i j) (fun i j => Z i j - X i j)).
  { unfold frob. apply rsum_nonneg; intros; apply rsum_nonneg; intros; cbv beta; apply Rle_0_sqr. }
  rewrite E. lra.
Qed.
End Svt.

(* ---------- procrustes is idempotent: a matrix M that already has orthonormal columns (rows) has all singular values 1 in ANY
   decomposition satisfying the contract, so U V = U diag(s) V = M *)
Lemma delta_sym a b : delta a b = delta b a.
Proof. unfold delta. destruct (Nat.eq_dec a b), (Nat.eq_dec b a); congruence. Qed.
Section ProcrustesFixed.
Variables (m n k : nat) (U : nat -> nat -> R) (s : nat -> R) (V : nat -> nat -> R).
Hypothesis HU : ocols m k U.
Hypothesis HV : ocols n k (fun j l => V l j).
Hypothesis Hs : forall l, (l < k)%nat -> 0 <= s l.
Let M := compose k U s V.

Lemma M_times_row l i : (l < k)%nat -> rsum n (fun j => M i j * V l j) = U i l * s l.
Proof.
  intros Hl. unfold M, compose.
  rewrite (rsum_ext n _ (fun j => rsum k (fun l2 => (U i l2 * s l2) * (V l2 j * V l j))))
    by (intros j _; rewrite Rmult_comm, <- rsum_scale; apply rsum_ext; intros; ring).
  rewrite rsum_exchange.
  rewrite (rsum_ext k _ (fun l2 => (U i l2 * s l2) * delta l l2)).
  - apply (rsum_delta k (fun l2 => U i l2 * s l2) l Hl).
  - intros l2 Hl2. rewrite rsum_scale. rewrite (HV l2 l Hl2 Hl), delta_sym. reflexivity.
Qed.
Lemma col_times_M l j : (l < k)%nat -> rsum m (fun i => U i l * M i j) = s l * V l j.
Proof.
  intros Hl. unfold M, compose.
  rewrite (rsum_ext m _ (fun i => rsum k (fun l2 => (s l2 * V l2 j) * (U i l * U i l2))))
    by (intros i _; rewrite <- rsum_scale; apply rsum_ext; intros; ring).
  rewrite rsum_exchange.
  rewrite (rsum_ext k _ (fun l2 => (s l2 * V l2 j) * delta l l2)).
  - apply (rsum_delta k (fun l2 => s l2 * V l2 j) l Hl).
  - intros l2 Hl2. rewrite rsum_scale. rewrite (HU l l2 Hl Hl2). reflexivity.
Qed.
Lemma sq_one x : 0 <= x -> x * x = 1 -> x = 1.
Proof. intros H0 H1. nra. Qed.
Lemma singular_values_one_cols : ocols m n M -> forall l, (l < k)%nat -> s l = 1.
Proof.
  intros HM l Hl. apply sq_one; [apply Hs, Hl|].
  pose proof (quad_expand m n M (fun j => V l j) (fun j => V l j) HM) as Q. cbv beta in Q.
  rewrite (rsum_ext m _ (fun i => (s l * s l) * (U i l * U i l))) in Q.
  - rewrite rsum_scale, (HU l l Hl Hl) in Q. rewrite (HV l l Hl Hl) in Q. unfold delta in Q.
    destruct (Nat.eq_dec l l); [lra | congruence].
  - intros i _. rewrite (rsum_ext n _ (fun j => M i j * V l j)) by (intros; ring). rewrite (M_times_row l i Hl). ring.
Qed.
Lemma singular_values_one_rows : ocols n m (fun j i => M i j) -> forall l, (l < k)%nat -> s l = 1.
Proof.
  intros HM l Hl. apply sq_one; [apply Hs, Hl|].
  pose proof (quad_expand n m (fun j i => M i j) (fun i => U i l) (fun i => U i l) HM) as Q. cbv beta in Q.
  rewrite (rsum_ext n _ (fun j => (s l * s l) * (V l j * V l j))) in Q.
  - rewrite rsum_scale, (HV l l Hl Hl) in Q. rewrite (HU l l Hl Hl) in Q. unfold delta in Q.
    destruct (Nat.eq_dec l l); [lra | congruence].
  - intros j _. rewrite (col_times_M l j Hl). ring.
Qed.
Theorem procrustes_fixed : ocols m n M \/ ocols n m (fun j i => M i j) -> forall i j, compose k U (fun _ => 1) V i j = M i j.
Proof.
  intros HM i j. unfold M, compose. apply rsum_ext; intros l Hl.
  destruct HM as [HM|HM]; [rewrite (singular_values_one_cols HM l Hl) | rewrite (singular_values_one_rows HM l Hl)]; reflexivity.
Qed.
End ProcrustesFixed.

(* ---------- singular value thresholding is firmly non-expansive (full: both outputs come with their decompositions) *)
Section SvtFirm.
Variables (m n : nat) (t : R).
Hypothesis Ht : 0 <= t.
Variables (k1 : nat) (U1 : nat -> nat -> R) (s1 : nat -> R) (V1 : nat -> nat -> R) (sf1 g1 : nat -> R).
Variables (k2 : nat) (U2 : nat -> nat -> R) (s2 : nat -> R) (V2 : nat -> nat -> R) (sf2 g2 : nat -> R).
Hypothesis HU1 : ocols m k1 U1.
Hypothesis HV1 : ocols n k1 (fun j l => V1 l j).
Hypothesis HU2 : ocols m k2 U2.
Hypothesis HV2 : ocols n k2 (fun j l => V2 l j).
Hypothesis Hsplit1 : forall l, (l < k1)%nat -> s1 l = sf1 l + g1 l.
Hypothesis Hsplit2 : forall l, (l < k2)%nat -> s2 l = sf2 l + g2 l.
Hypothesis Hg1 : forall l, (l < k1)%nat -> 0 <= g1 l <= t.
Hypothesis Hg2 : forall l, (l < k2)%nat -> 0 <= g2 l <= t.
Hypothesis Hc1 : forall l, (l < k1)%nat -> sf1 l * g1 l = t * sf1 l.
Hypothesis Hc2 : forall l, (l < k2)%nat -> sf2 l * g2 l = t * sf2 l.
Hypothesis Hp1 : forall l, (l < k1)%nat -> 0 <= sf1 l.
Hypothesis Hp2 : forall l, (l < k2)%nat -> 0 <= sf2 l.
Let M1 := compose k1 U1 s1 V1. Let X1 := compose k1 U1 sf1 V1. Let G1 := compose k1 U1 g1 V1.
Let M2 := compose k2 U2 s2 V2. Let X2 := compose k2 U2 sf2 V2. Let G2 := compose k2 U2 g2 V2.

Theorem svt_firmly_nonexpansive :
  frob m n (fun i j => X1 i j - X2 i j) (fun i j => X1 i j - X2 i j) <= frob m n (fun i j => X1 i j - X2 i j) (fun i j => M1 i j - M2 i j).
Proof.
  pose proof (svt_XG m n k1 U1 V1 t HU1 HV1 sf1 g1 Hc1) as A1. pose proof (svt_XG m n k2 U2 V2 t HU2 HV2 sf2 g2 Hc2) as A2.
  pose proof (svt_ZG m n k1 U1 V1 t HU1 HV1 Ht g1 Hg1 k2 U2 sf2 V2 HU2 HV2 Hp2) as B1.
  pose proof (svt_ZG m n k2 U2 V2 t HU2 HV2 Ht g2 Hg2 k1 U1 sf1 V1 HU1 HV1 Hp1) as B2.
  fold X1 G1 in A1. fold X2 G2 in A2. fold X2 G1 in B1. fold X1 G2 in B2.
  assert (E : frob m n (fun i j => X1 i j - X2 i j) (fun i j => M1 i j - M2 i j)
            = frob m n (fun i j => X1 i j - X2 i j) (fun i j => X1 i j - X2 i j)
              + (frob m n X1 G1 - frob m n X1 G2 - frob m n X2 G1 + frob m n X2 G2)).
  { unfold frob. rewrite <- !rsum_sub, <- !rsum_add. apply rsum_ext; intros i _.
    rewrite <- !rsum_sub, <- !rsum_add. apply rsum_ext; intros j _.
    pose proof (svt_residual k1 U1 s1 V1 sf1 g1 Hsplit1 i j) as R1. pose proof (svt_residual k2 U2 s2 V2 sf2 g2 Hsplit2 i j) as R2.
    fold M1 X1 G1 in R1. fold M2 X2 G2 in R2. rewrite <- R1, <- R2. ring. }
  rewrite E. lra.
Qed.
End SvtFirm.

(* ---------- the nuclear norm by duality, and singular value thresholding against EVERY competitor (no decomposition of the competitor).
   spec_le c W : the spectral norm of W is at most c (bound on the bilinear form over unit vectors);
   nuc_le Z nu : nu is an upper bound of <W, Z> over the spectral unit ball, i.e. |Z|_* <= nu (the nuclear norm is the dual of the
   spectral norm); is_nuc Z nu : the bound is attained, nu = |Z|_*. *)
Definition spec_le (m n : nat) (c : R) (W : nat -> nat -> R) : Prop :=
  forall u v, unit_vec m u -> unit_vec n v -> bil m n u W v <= c.
Definition nuc_le (m n : nat) (Z : nat -> nat -> R) (nu : R) : Prop := forall W, spec_le m n 1 W -> frob m n W Z <= nu.
Definition is_nuc (m n : nat) (Z : nat -> nat -> R) (nu : R) : Prop := nuc_le m n Z nu /\ exists W, spec_le m n 1 W /\ frob m n W Z = nu.

Lemma bil_scale m n c u G v : bil m n u (fun i j => c * G i j) v = c * bil m n u G v.
Proof. unfold bil. rewrite <- rsum_scale. apply rsum_ext; intros i _. rewrite <- rsum_scale. apply rsum_ext; intros; ring. Qed.
Lemma frob_scale_l m n c A B : frob m n (fun i j => c * A i j) B = c * frob m n A B.
Proof. unfold frob. rewrite <- rsum_scale. apply rsum_ext; intros i _. rewrite <- rsum_scale. apply rsum_ext; intros; ring. Qed.
(* <Z, G> <= c * |Z|_* when the spectral norm of G is at most c *)
Lemma nuc_dual_bound m n Z nu G c : 0 <= c -> nuc_le m n Z nu -> spec_le m n c G -> (c = 0 -> forall i j, G i j = 0) -> frob m n Z G <= c * nu.
Proof.
  intros Hc HZ HG H0. destruct (Req_dec c 0) as [E|E].
  - rewrite (frob_comm m n Z G). unfold frob. rewrite rsum_zero; [subst; lra|]. intros i _. apply rsum_zero. intros j _. rewrite (H0 E i j). ring.
  - assert (Hpos : 0 < c) by lra.
    assert (HW : spec_le m n 1 (fun i j => / c * G i j)).
    { intros u v Hu Hv. rewrite bil_scale. pose proof (HG u v Hu Hv) as B. apply Rmult_le_reg_l with c; [exact Hpos|].
      rewrite <- Rmult_assoc, Rinv_r by exact E. lra. }
    pose proof (HZ _ HW) as B. rewrite frob_scale_l in B. rewrite (frob_comm m n Z G).
    apply Rmult_le_reg_l with (/ c); [apply Rinv_0_lt_compat, Hpos|]. rewrite <- Rmult_assoc, Rinv_l by exact E. lra.
Qed.

Section SvtDual.
Variables (m n k : nat) (U : nat -> nat -> R) (s : nat -> R) (V : nat -> nat -> R) (t : R).
Hypothesis HU : ocols m k U.
Hypothesis HV : ocols n k (fun j l => V l j).
Hypothesis Ht : 0 <= t.
Variables (sf g : nat -> R).
Hypothesis Hsplit : forall l, (l < k)%nat -> s l = sf l + g l.
Hypothesis Hg : forall l, (l < k)%nat -> 0 <= g l <= t.
Hypothesis Hcompl : forall l, (l < k)%nat -> sf l * g l = t * sf l.
Hypothesis Hp : forall l, (l < k)%nat -> 0 <= sf l.
Let M := compose k U s V.
Let X := compose k U sf V.
Let G := compose k U g V.

(* sum a is the nuclear norm of U diag(a) V for a >= 0 *)
Lemma nuc_compose a : (forall l, (l < k)%nat -> 0 <= a l) -> is_nuc m n (compose k U a V) (rsum k a).
Proof.
  intros Ha. split.
  - intros W HW. rewrite frob_comm, frob_compose_l. apply rsum_le. intros l Hl.
    pose proof (HW _ _ (ocols_unit m k U l HU Hl) (ocols_unit n k (fun j l => V l j) l HV Hl)) as B. pose proof (Ha l Hl). nra.
  - exists (compose k U (fun _ => 1) V). split.
    + intros u v Hu Hv. apply (bil_bound m n k U V HU HV (fun _ => 1) 1); auto; [lra | intros; lra].
    + rewrite (frob_compose_compose m n k U V HU HV). apply rsum_ext; intros; ring.
Qed.
Lemma svt_output_nuc : is_nuc m n X (rsum k sf).
Proof. apply nuc_compose, Hp. Qed.
Lemma G_zero : t = 0 -> forall i j, G i j = 0.
Proof.
  intros E i j. unfold G, compose. apply rsum_zero. intros l Hl. destruct (Hg l Hl) as [Ga Gb].
  assert (Gz : g l = 0) by lra. rewrite Gz. ring.
Qed.
(* against every matrix Z and every upper bound nu of its nuclear norm (in particular the nuclear norm itself) *)
Theorem svt_optimal_dual (Z : nat -> nat -> R) (nu : R) : nuc_le m n Z nu ->
  t * rsum k sf + frob m n (fun i j => X i j - M i j) (fun i j => X i j - M i j) / 2
  <= t * nu + frob m n (fun i j => Z i j - M i j) (fun i j => Z i j - M i j) / 2.
Proof.
  intros HZ. pose proof (svt_XG m n k U V t HU HV sf g Hcompl) as H1. fold X G in H1.
  assert (H2 : frob m n Z G <= t * nu).
  { apply nuc_dual_bound; [exact Ht | exact HZ | | exact G_zero]. intros u v Hu Hv. apply (bil_bound m n k U V HU HV g t); assumption. }
  assert (E : frob m n (fun i j => Z i j - M i j) (fun i j => Z i j - M i j)
            = frob m n (fun i j => X i j - M i j) (fun i j => X i j - M i j)
              + frob m n (fun i j => Z i j - X i j) (fun i j => Z i j - X i j) - 2 * frob m n Z G + 2 * frob m n X G).
  { unfold frob. rewrite <- !rsum_scale, <- rsum_add, <- rsum_sub, <- rsum_add. apply rsum_ext; intros i _.
    rewrite <- !rsum_scale, <- rsum_add, <- rsum_sub, <- rsum_add. apply rsum_ext; intros j _.
    pose proof (svt_residual k U s V sf g Hsplit i j) as R1. fold M X G in R1. rewrite <- R1. ring. }
  assert (P : 0 <= frob m n (fun i j => Z i j - X i j) (fun i j => Z i j - X i j)).
  { unfold frob. apply rsum_nonneg; intros; apply rsum_nonneg; intros; cbv beta; apply Rle_0_sqr. }
  rewrite E. lra.
Qed.
End SvtDual.
