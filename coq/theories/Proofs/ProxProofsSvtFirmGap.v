(* Round 8: firm non-expansiveness of svd_thresholding WITHOUT the exact contract of the SVD oracle.
   (A) approx_firm: let X1, X2 be g1-, g2-approximate minimisers of  t |Z|_nuc + |Z - M1|^2 / 2,  resp.  t |Z|_nuc + |Z - M2|^2 / 2
       (the hypothesis is exactly the conclusion of svt_gap_sound / svt_case_certified: nu_i bounds the nuclear norm of X_i and
       t nu_i + |X_i - M_i|^2 / 2 <= t nu + |Z - M_i|^2 / 2 + g_i for every Z with nuclear norm <= nu).  Then for every 0 <= lam <= 1
           lam (1 - lam) |X1 - X2|^2  <=  lam <X1 - X2, M1 - M2> + g1 + g2.
       (Proof: compare X1 with the point (1 - lam) X1 + lam X2 in the first problem, X2 with (1 - lam) X2 + lam X1 in the second; the nuclear norm in
       dual form is convex, the quadratic is 1-strongly convex; add.)  Nothing is assumed about M1, M2, t.
   (B) firm_limit: with g1 + g2 = 0 the family of inequalities is the firm non-expansiveness |X1 - X2|^2 <= <X1 - X2, M1 - M2> (lam -> 0).
   (C) svt_firm_case_certified: for two svd_thresholding cases whose Boolean Corr/C12.svt_case_ok holds (what the correspondence evaluates per
       case), the matrices the executed model returns satisfy (A) with g_i = svt_gap of the case: no hypothesis about the SVD oracle is left. *)
From Coq Require Import List Arith ZArith QArith Reals Qreals Lra Lia Bool.
From TLV Require Import Base.Ops Base.RSum Model.Prox Model.ProxSvtGap Corr.C12
  Proofs.ProxProofsSvt Proofs.ProxProofsSvtList Proofs.ProxProofsSvtPerturb Proofs.ProxProofsTapeCert.
Import ListNotations.
Open Scope R_scope.

Definition rsum2 (m n : nat) (F : nat -> nat -> R) : R := rsum m (fun i => rsum n (fun j => F i j)).
Lemma rsum2_lin4 m n (a b c d : R) (K F G H L : nat -> nat -> R) :
  (forall i j, K i j = a * F i j + b * G i j + c * H i j + d * L i j) ->
  rsum2 m n K = a * rsum2 m n F + b * rsum2 m n G + c * rsum2 m n H + d * rsum2 m n L.
Proof.
  intros E. unfold rsum2. rewrite <- !rsum_scale, <- !rsum_add. apply rsum_ext; intros i _.
  rewrite <- !rsum_scale, <- !rsum_add. apply rsum_ext; intros j _. apply E.
Qed.
Lemma frob_rsum2 m n A B : frob m n A B = rsum2 m n (fun i j => A i j * B i j).
Proof. reflexivity. Qed.
Lemma fro2_rsum2 m n A B : fro2 m n A B = rsum2 m n (fun i j => (A i j - B i j) * (A i j - B i j)).
Proof. reflexivity. Qed.

Section ApproxFirm.
Variables (m n : nat) (X1 X2 M1 M2 : nat -> nat -> R) (t nu1 nu2 g1 g2 : R).
Hypothesis N1 : nuc_le m n X1 nu1.
Hypothesis N2 : nuc_le m n X2 nu2.
Hypothesis A1 : forall (Z : nat -> nat -> R) (nu : R), nuc_le m n Z nu -> t * nu1 + fro2 m n X1 M1 / 2 <= t * nu + fro2 m n Z M1 / 2 + g1.
Hypothesis A2 : forall (Z : nat -> nat -> R) (nu : R), nuc_le m n Z nu -> t * nu2 + fro2 m n X2 M2 / 2 <= t * nu + fro2 m n Z M2 / 2 + g2.

Lemma nuc_le_mix lam A B a b : 0 <= lam <= 1 -> nuc_le m n A a -> nuc_le m n B b ->
  nuc_le m n (fun i j => (1 - lam) * A i j + lam * B i j) ((1 - lam) * a + lam * b).
Proof.
  intros Hl HA HB W HW. pose proof (HA W HW) as PA. pose proof (HB W HW) as PB.
  assert (E : frob m n W (fun i j => (1 - lam) * A i j + lam * B i j) = (1 - lam) * frob m n W A + lam * frob m n W B).
  { rewrite !frob_rsum2.
    rewrite (rsum2_lin4 m n (1 - lam) lam 0 0 _ (fun i j => W i j * A i j) (fun i j => W i j * B i j) (fun _ _ => 0) (fun _ _ => 0)); [ring|].
    intros i j. ring. }
  rewrite E. assert (0 <= 1 - lam) by lra. assert (0 <= lam) by lra. nra.
Qed.
Lemma fro2_mix lam A B C :
  fro2 m n (fun i j => (1 - lam) * A i j + lam * B i j) C
  = (1 - lam) * fro2 m n A C + lam * fro2 m n B C - lam * (1 - lam) * fro2 m n A B.
Proof.
  rewrite !fro2_rsum2.
  rewrite (rsum2_lin4 m n (1 - lam) lam (- (lam * (1 - lam))) 0 _ (fun i j => (A i j - C i j) * (A i j - C i j))
             (fun i j => (B i j - C i j) * (B i j - C i j)) (fun i j => (A i j - B i j) * (A i j - B i j)) (fun _ _ => 0)); [ring|].
  intros i j. ring.
Qed.
Lemma fro2_sym A B : fro2 m n A B = fro2 m n B A.
Proof. rewrite !fro2_rsum2. unfold rsum2. apply rsum_ext; intros i _. apply rsum_ext; intros j _. ring. Qed.
Lemma fro2_cross :
  fro2 m n X1 M1 + fro2 m n X2 M2 - fro2 m n X2 M1 - fro2 m n X1 M2
  = - 2 * frob m n (fun i j => X1 i j - X2 i j) (fun i j => M1 i j - M2 i j).
Proof.
  rewrite !fro2_rsum2, frob_rsum2. symmetry.
  rewrite (rsum2_lin4 m n (-1/2) (-1/2) (1/2) (1/2) _ (fun i j => (X1 i j - M1 i j) * (X1 i j - M1 i j))
             (fun i j => (X2 i j - M2 i j) * (X2 i j - M2 i j)) (fun i j => (X2 i j - M1 i j) * (X2 i j - M1 i j))
             (fun i j => (X1 i j - M2 i j) * (X1 i j - M2 i j))); [lra|].
  intros i j. field.
Qed.

Theorem approx_firm lam : 0 <= lam <= 1 ->
  lam * (1 - lam) * fro2 m n X1 X2
  <= lam * frob m n (fun i j => X1 i j - X2 i j) (fun i j => M1 i j - M2 i j) + g1 + g2.
Proof.
  intros Hl.
  pose proof (A1 _ _ (nuc_le_mix lam X1 X2 nu1 nu2 Hl N1 N2)) as P1.
  pose proof (A2 _ _ (nuc_le_mix lam X2 X1 nu2 nu1 Hl N2 N1)) as P2.
  rewrite fro2_mix in P1, P2. rewrite (fro2_sym X2 X1) in P2.
  pose proof fro2_cross as Cr.
  set (D := fro2 m n X1 X2) in *. set (P := frob m n (fun i j => X1 i j - X2 i j) (fun i j => M1 i j - M2 i j)) in *.
  set (a := fro2 m n X1 M1) in *. set (b := fro2 m n X2 M2) in *. set (c := fro2 m n X2 M1) in *. set (d := fro2 m n X1 M2) in *.
  nra.
Qed.
End ApproxFirm.

(* the limit case: no gap -> firm non-expansiveness *)
Lemma firm_limit (D P : R) : 0 <= D -> (forall lam, 0 <= lam <= 1 -> lam * (1 - lam) * D <= lam * P) -> D <= P.
Proof.
  intros HD H. destruct (Rle_dec D P) as [L|L]; [exact L | exfalso]. apply Rnot_le_lt in L.
  assert (D0 : 0 < D).
  { destruct (Rle_lt_or_eq_dec 0 D HD) as [G|G]; [exact G|]. subst D. pose proof (H (1/2) ltac:(lra)). lra. }
  pose proof (H (1/2) ltac:(lra)) as Hh.
  assert (P0 : 0 <= P) by nra.
  set (l := (D - P) / (2 * D)).
  assert (Rl : 0 < l <= 1/2).
  { unfold l. split.
    - apply Rdiv_lt_0_compat; lra.
    - apply Rmult_le_reg_r with (2 * D); [lra|]. unfold Rdiv. rewrite Rmult_assoc, Rinv_l by lra. lra. }
  assert (E : l * (2 * D) = D - P) by (unfold l, Rdiv; rewrite Rmult_assoc, Rinv_l by lra; ring).
  clearbody l.
  assert (Hl1 : 0 <= l <= 1) by lra.
  pose proof (H l Hl1) as Hlam.
  assert (Q1 : (1 - l) * D <= P) by (apply Rmult_le_reg_l with l; [apply Rl|]; rewrite <- Rmult_assoc; exact Hlam).
  nra.
Qed.
Theorem approx_firm_exact m n X1 X2 M1 M2 t nu1 nu2 : nuc_le m n X1 nu1 -> nuc_le m n X2 nu2 ->
  (forall Z nu, nuc_le m n Z nu -> t * nu1 + fro2 m n X1 M1 / 2 <= t * nu + fro2 m n Z M1 / 2 + 0) ->
  (forall Z nu, nuc_le m n Z nu -> t * nu2 + fro2 m n X2 M2 / 2 <= t * nu + fro2 m n Z M2 / 2 + 0) ->
  fro2 m n X1 X2 <= frob m n (fun i j => X1 i j - X2 i j) (fun i j => M1 i j - M2 i j).
Proof.
  intros N1 N2 A1 A2. apply firm_limit.
  - unfold fro2, frob. apply rsum_nonneg; intros i _. apply rsum_nonneg; intros j _. generalize (X1 i j - X2 i j); intros x. nra.
  - intros lam Hl. pose proof (approx_firm m n X1 X2 M1 M2 t nu1 nu2 0 0 N1 N2 A1 A2 lam Hl). lra.
Qed.

(* (C) two certified cases *)
Theorem svt_firm_case_certified (m n k1 k2 : nat) (U1 : list (list Q)) (s1 : list Q) (V1 M1 : list (list Q))
    (U2 : list (list Q)) (s2 : list Q) (V2 M2 : list (list Q)) (t : Q) :
  svt_case_ok m n k1 U1 s1 V1 M1 t = true -> svt_case_ok m n k2 U2 s2 V2 M2 t = true ->
  forall lam : R, 0 <= lam <= 1 ->
  let e := (1 # 1000000000)%Q in
  let X1 := mfun (map (map Q2R) (svd_thresholding_with Qops U1 s1 V1 t)) in
  let X2 := mfun (map (map Q2R) (svd_thresholding_with Qops U2 s2 V2 t)) in
  lam * (1 - lam) * fro2 m n X1 X2
  <= lam * frob m n (fun i j => X1 i j - X2 i j) (fun i j => mfun (map (map Q2R) M1) i j - mfun (map (map Q2R) M2) i j)
     + Q2R (svt_gap Qops e U1 s1 V1 t M1) + Q2R (svt_gap Qops e U2 s2 V2 t M2).
Proof.
  intros C1 C2 lam Hl e X1 X2.
  set (nu1 := (1 + Q2R e) * lsum Rops (soft_thresholding Rops (Q2R t) (map Q2R s1))).
  set (nu2 := (1 + Q2R e) * lsum Rops (soft_thresholding Rops (Q2R t) (map Q2R s2))).
  assert (N1 : nuc_le m n X1 nu1).
  { destruct (svt_case_certified m n k1 U1 s1 V1 M1 t C1 (fun _ _ => 0) 0) as [N _]; [|exact N].
    intros W _. unfold frob. apply Req_le. apply rsum_zero; intros i _. apply rsum_zero; intros j _. ring. }
  assert (N2 : nuc_le m n X2 nu2).
  { destruct (svt_case_certified m n k2 U2 s2 V2 M2 t C2 (fun _ _ => 0) 0) as [N _]; [|exact N].
    intros W _. unfold frob. apply Req_le. apply rsum_zero; intros i _. apply rsum_zero; intros j _. ring. }
  apply (approx_firm m n X1 X2 _ _ (Q2R t) nu1 nu2 _ _ N1 N2); [| |exact Hl].
  - intros Z nu HZ. apply (svt_case_certified m n k1 U1 s1 V1 M1 t C1 Z nu HZ).
  - intros Z nu HZ. apply (svt_case_certified m n k2 U2 s2 V2 M2 t C2 Z nu HZ).
Qed.
