(* svd_thresholding without the exact SVD contract, at the level of the list model: for the matrix X the model computes from ANY recorded
   answer (U, s, V) whose singular vectors are orthonormal to within e entrywise (k e < 1) and with s >= 0,
     t |X|_nuc + |X - M|^2 / 2  <=  t |Z|_nuc + |Z - M|^2 / 2 + svt_gap e U s V t M        for every matrix Z,
   where svt_gap (Model/ProxSvtGap.v) is an arithmetic expression in the recorded answer and the input M alone - the quantity the per-run
   correspondence evaluates exactly in Q and bounds by 1e-7 (t sum soft(s) + |M|^2 / 2).  Nothing is assumed about M = U diag(s) V. *)
From Coq Require Import List Reals Lra Lia Bool.
From TLV Require Import Base.Ops Base.RSum Model.Prox Model.ProxSvtGap Proofs.ProxProofs Proofs.ProxProofsIso Proofs.ProxProofsSimplex
  Proofs.ProxProofsMatrix Proofs.ProxProofsSvt Proofs.ProxProofsSvtList Proofs.ProxProofsSvtPerturb.
Import ListNotations.
Open Scope R_scope.

Lemma mfun_overflow_row A i j : (length A <= i)%nat -> mfun A i j = 0.
Proof. intros H. unfold mfun. rewrite (nth_overflow A) by exact H. destruct j; reflexivity. Qed.
Lemma mat_frob_frob m n A B : rect m n A -> rect m n B -> mat_frob Rops A B = frob m n (mfun A) (mfun B).
Proof.
  intros [LA FA] [LB FB]. unfold mat_frob, frob. rewrite lsum_rsum, map_length, combine_length, LA, LB, Nat.min_id.
  apply rsum_ext; intros i Hi. unfold vfun. rewrite (nth_map_lt _ _ _ ([], [])) by (rewrite combine_length; lia).
  rewrite combine_nth by lia. cbn [fst snd].
  assert (La : length (nth i A []) = n) by (rewrite Forall_forall in FA; apply FA, nth_In; lia).
  assert (Lb : length (nth i B []) = n) by (rewrite Forall_forall in FB; apply FB, nth_In; lia).
  rewrite dot_rsum by congruence. rewrite La. reflexivity.
Qed.
Lemma mat_zip_entry m n f A B i j : rect m n A -> rect m n B -> (i < m)%nat -> (j < n)%nat ->
  mfun (mat_zip f A B) i j = f (mfun A i j) (mfun B i j).
Proof.
  intros [LA FA] [LB FB] Hi Hj. unfold mfun, mat_zip.
  rewrite (nth_map_lt _ _ _ ([], [])) by (rewrite combine_length; lia). rewrite combine_nth by lia. cbn [fst snd].
  assert (La : length (nth i A []) = n) by (rewrite Forall_forall in FA; apply FA, nth_In; lia).
  assert (Lb : length (nth i B []) = n) by (rewrite Forall_forall in FB; apply FB, nth_In; lia).
  rewrite (nth_map_lt _ _ _ (0, 0)) by (rewrite combine_length; lia). rewrite combine_nth by lia. reflexivity.
Qed.
Lemma mat_zip_rect m n f A B : rect m n A -> rect m n B -> rect m n (mat_zip f A B).
Proof.
  intros [LA FA] [LB FB]. unfold mat_zip. split; [rewrite map_length, combine_length; lia|].
  apply Forall_forall. intros r Hr. apply in_map_iff in Hr. destruct Hr as ([a b] & <- & Hin). cbn [fst snd].
  rewrite map_length, combine_length. rewrite Forall_forall in FA, FB.
  rewrite (FA a (in_combine_l _ _ _ _ Hin)), (FB b (in_combine_r _ _ _ _ Hin)). lia.
Qed.
Lemma map_map_entry (c : R) A i j : mfun (map (map (fun x => c * x)) A) i j = c * mfun A i j.
Proof.
  unfold mfun. destruct (Nat.lt_ge_cases i (length A)) as [Hi|Hi].
  - rewrite (nth_map_lt _ _ _ []) by exact Hi. destruct (Nat.lt_ge_cases j (length (nth i A []))) as [Hj|Hj].
    + rewrite (nth_map_lt _ _ _ 0) by exact Hj. reflexivity.
    + rewrite (nth_overflow (map _ _)) by (rewrite map_length; exact Hj). rewrite (nth_overflow (nth i A [])) by exact Hj. ring.
  - rewrite (nth_overflow (map _ A)) by (rewrite map_length; exact Hi). rewrite (nth_overflow A) by exact Hi. destruct j; cbn; ring.
Qed.
Lemma map_map_rect m n (g : R -> R) A : rect m n A -> rect m n (map (map g) A).
Proof.
  intros [LA FA]. split; [rewrite map_length; exact LA|]. apply Forall_forall. intros r Hr. apply in_map_iff in Hr.
  destruct Hr as (a & <- & Hin). rewrite map_length. rewrite Forall_forall in FA. apply FA, Hin.
Qed.
Lemma mat_mul_rect m k n A B : (1 <= k)%nat -> rect m k A -> rect k n B -> rect m n (mat_mul Rops A B).
Proof.
  intros Hk [LA FA] HB. unfold mat_mul. split; [rewrite map_length; exact LA|].
  apply Forall_forall. intros r Hr. apply in_map_iff in Hr. destruct Hr as (a & <- & Hin). rewrite map_length.
  destruct (cols_of_rect k n B Hk HB) as [L _]. exact L.
Qed.

(* the certificate weights lie in [0, 1] *)
Lemma svt_weights_range t s l : 0 <= t -> Forall (fun x => 0 <= x) s -> (l < length s)%nat -> 0 <= vfun (svt_weights Rops t s) l <= 1.
Proof.
  intros Ht Hs Hl. unfold vfun, svt_weights. rewrite (nth_map_lt _ _ _ 0) by exact Hl.
  assert (Hx : 0 <= nth l s 0) by (rewrite Forall_forall in Hs; apply Hs, nth_In, Hl).
  unfold feqb. cbn [fleb Rops f0 fsub fdiv].
  destruct (Rleb t 0) eqn:E1; [apply Rleb_true in E1 | apply Rleb_false in E1]; cbn [andb].
  - destruct (Rleb 0 t) eqn:E2; [lra | apply Rleb_false in E2; lra].
  - set (x := nth l s 0) in *. destruct (soft1_spec t x Ht) as [[H1 E]|[[H1 E]|[H1 E]]]; rewrite E.
    + replace (x - (x - t)) with t by ring. unfold Rdiv. rewrite Rinv_r by lra. lra.
    + lra.
    + rewrite Rminus_0_r. split; [apply Rmult_le_pos; [lra | left; apply Rinv_0_lt_compat; lra]|].
      apply Rmult_le_reg_r with t; [lra|]. unfold Rdiv. rewrite Rmult_assoc, Rinv_l by lra. lra.
Qed.

Section GapSound.
Variables (m n k : nat) (U : list (list R)) (s : list R) (V M : list (list R)) (e t : R).
Hypothesis Hk : (1 <= k)%nat.
Hypothesis RU : rect m k U.
Hypothesis Ls : length s = k.
Hypothesis RV : rect k n V.
Hypothesis RM : rect m n M.
(* the contract of the SVD oracle, APPROXIMATE; no clause about M *)
Hypothesis HU : aocols m k e (mfun U).
Hypothesis HV : aocols n k e (fun j l => mfun V l j).
Hypothesis He : INR k * e < 1.
Hypothesis Hs : Forall (fun x => 0 <= x) s.
Hypothesis Ht : 0 <= t.
Let X := svd_thresholding_with Rops U s V t.
Let sf := soft_thresholding Rops t s.

Lemma e_nonneg : 0 <= e.
Proof. pose proof (HU 0%nat 0%nat ltac:(lia) ltac:(lia)) as B. pose proof (Rabs_pos (gram m (mfun U) 0 0 - delta 0 0)). lra. Qed.
(* (1 + e) sum soft(s) bounds the nuclear norm of the returned matrix *)
Theorem svt_output_nuc_bound : nuc_le m n (mfun X) ((1 + e) * lsum Rops sf).
Proof.
  assert (Lsf : length sf = k) by (unfold sf; rewrite soft_length; exact Ls).
  destruct (soft_split_facts t k s Ht Ls Hs) as (_ & _ & _ & D).
  pose proof (anuc_compose m n k (mfun U) (mfun V) e (vfun sf) HU HV D) as N.
  intros W HW. rewrite lsum_rsum, Lsf.
  rewrite (frob_ext m n W W (mfun X) (compose k (mfun U) (vfun sf) (mfun V))); [apply N, HW | reflexivity |].
  intros i j Hi Hj. apply (svt_entries m n k U s V Hk RU Ls RV); assumption.
Qed.
Theorem svt_gap_sound (Z : nat -> nat -> R) (nu : R) : nuc_le m n Z nu ->
  t * ((1 + e) * lsum Rops sf) + fro2 m n (mfun X) (mfun M) / 2 <= t * nu + fro2 m n Z (mfun M) / 2 + svt_gap Rops e U s V t M.
Proof.
  intros HZ.
  assert (Lsf : length sf = k) by (unfold sf; rewrite soft_length; exact Ls).
  set (w := svt_weights Rops t s). assert (Lw : length w = k) by (unfold w, svt_weights; rewrite map_length; exact Ls).
  set (c := 1 - INR k * e).
  set (Wl := map (map (fun x => c * x)) (mat_mul Rops U (scale_rows Rops w V))).
  assert (RX : rect m n X) by (apply (mat_mul_rect m k n); [exact Hk | exact RU | apply scale_rows_rect; assumption]).
  assert (RW : rect m n Wl) by (apply map_map_rect, (mat_mul_rect m k n); [exact Hk | exact RU | apply scale_rows_rect; assumption]).
  assert (Hw : forall l, (l < k)%nat -> 0 <= vfun w l <= 1) by (intros l Hl; apply svt_weights_range; [exact Ht | exact Hs | lia]).
  pose proof (svt_perturbed m n k (mfun U) (mfun V) e HU HV He (mfun M) (vfun sf) (vfun w) t Ht Hw Z nu HZ) as P. cbv zeta in P.
  set (Xf := compose k (mfun U) (vfun sf) (mfun V)) in *.
  set (Wf := fun i j => (1 - INR k * e) * compose k (mfun U) (vfun w) (mfun V) i j) in *.
  assert (EX : forall i j, (i < m)%nat -> (j < n)%nat -> mfun X i j = Xf i j)
    by (intros i j Hi Hj; apply (svt_entries m n k U s V Hk RU Ls RV); assumption).
  assert (EW : forall i j, (i < m)%nat -> (j < n)%nat -> mfun Wl i j = Wf i j).
  { intros i j Hi Hj. unfold Wl, Wf. rewrite map_map_entry. fold c. f_equal.
    rewrite (mat_mul_entry m k n U _ i j Hk RU (scale_rows_rect k n _ V Lw RV) Hi Hj).
    unfold compose. apply rsum_ext; intros l Hl. rewrite (scale_rows_entry k n _ V l j Lw RV Hl). ring. }
  (* the three list-level quantities of svt_gap are the index-level ones *)
  assert (F1 : mat_frob Rops Wl X = frob m n Wf Xf).
  { rewrite (mat_frob_frob m n Wl X RW RX). apply frob_ext; assumption. }
  set (El := mat_zip (fun mm xw => mm - xw) M (mat_zip (fun x ww => x + t * ww) X Wl)).
  assert (F2 : mat_frob Rops El El = fro2f m n (mfun M) (fun i j => Xf i j + t * Wf i j)).
  { assert (RE : rect m n El) by (apply mat_zip_rect; [exact RM | apply mat_zip_rect; assumption]).
    rewrite (mat_frob_frob m n El El RE RE). unfold fro2f.
    assert (EE : forall i j, (i < m)%nat -> (j < n)%nat -> mfun El i j = mfun M i j - (Xf i j + t * Wf i j)).
    { intros i j Hi Hj. unfold El. rewrite (mat_zip_entry m n _ M _ i j RM (mat_zip_rect m n _ X Wl RX RW) Hi Hj).
      rewrite (mat_zip_entry m n _ X Wl i j RX RW Hi Hj), EX, EW by assumption. reflexivity. }
    apply frob_ext; assumption. }
  assert (F3 : fro2 m n (mfun X) (mfun M) = fro2f m n Xf (mfun M)).
  { unfold fro2, fro2f. apply frob_ext; intros i j Hi Hj; rewrite EX by assumption; reflexivity. }
  assert (G : svt_gap Rops e U s V t M = t * ((1 + e) * lsum Rops sf - mat_frob Rops Wl X) + mat_frob Rops El El / 2).
  { unfold svt_gap. cbn [fmul fadd fsub fdiv Rops f1 f0]. rewrite Ls, nat2F_INR. unfold two. cbn [fadd f1 Rops]. fold sf w c Wl X El.
    replace (1 + 1) with 2 by ring. reflexivity. }
  rewrite G, F1, F2, F3. unfold fro2 at 1. fold (fro2f m n Z (mfun M)). lra.
Qed.
End GapSound.
