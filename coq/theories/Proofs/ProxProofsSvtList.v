(* Bridge between the list model of svd_thresholding / procrustes (Model/Prox.svd_thresholding_with, procrustes_with: mat_mul,
   scale_rows, soft_thresholding on lists of rows) and the index-function statements of Proofs/ProxProofsSvt.v: entry (i, j) of the
   model's output is sum_l U_il soft_t(s_l) V_lj (resp. sum_l U_il V_lj); hence the optimality theorems hold for the model's output. *)
From Coq Require Import Reals Lra Lia List.
From TLV Require Import Base.Ops Base.RSum Model.Prox Proofs.ProxProofs Proofs.ProxProofsIso Proofs.ProxProofsMatrix Proofs.ProxProofsSvt.
Import ListNotations.
Open Scope R_scope.

Definition mfun (A : list (list R)) (i j : nat) : R := nth j (nth i A []) 0.
Definition vfun (s : list R) (l : nat) : R := nth l s 0.
Definition fro2 (m n : nat) (A B : nat -> nat -> R) : R := frob m n (fun i j => A i j - B i j) (fun i j => A i j - B i j).

Lemma rsum_shift k f : rsum (S k) f = f O + rsum k (fun i => f (S i)).
Proof. induction k as [|k IH]; [cbn [rsum]; ring|]. change (rsum (S (S k)) f) with (rsum (S k) f + f (S k)). rewrite IH. cbn [rsum]. ring. Qed.
Lemma dot_rsum : forall a b, length a = length b -> dot Rops a b = rsum (length a) (fun l => nth l a 0 * nth l b 0).
Proof.
  induction a as [|x a IH]; intros [|y b] L; try discriminate L; [reflexivity|].
  cbn [length]. rewrite rsum_shift, dot_cons. cbn [nth]. rewrite (IH b) by (cbn in L; lia). reflexivity.
Qed.
Lemma lsum_rsum : forall s, lsum Rops s = rsum (length s) (vfun s).
Proof. induction s as [|x s IH]; [reflexivity|]. cbn [length]. rewrite rsum_shift, lsum_cons, IH. reflexivity. Qed.

(* entries of a product: A is m x k, B is k x n (k, n >= 1) *)
Lemma mat_mul_entry m k n A B i j : (1 <= k)%nat -> rect m k A -> rect k n B -> (i < m)%nat -> (j < n)%nat ->
  mfun (mat_mul Rops A B) i j = rsum k (fun l => mfun A i l * mfun B l j).
Proof.
  intros Hk HA HB Hi Hj. unfold mfun, mat_mul.
  destruct HA as [LA FA]. pose proof HB as [LB FB].
  rewrite (nth_map_lt _ _ _ []) by lia.
  assert (Lc : length (cols_of Rops B) = n) by (destruct (cols_of_rect k n B Hk HB) as [L _]; exact L).
  rewrite (nth_map_lt _ _ _ []) by lia.
  assert (Lrow : length (nth i A []) = k) by (rewrite Forall_forall in FA; apply FA, nth_In; lia).
  assert (Lcol : length (nth j (cols_of Rops B) []) = k).
  { destruct (cols_of_rect k n B Hk HB) as [_ F]. rewrite Forall_forall in F. apply F, nth_In. lia. }
  rewrite dot_rsum by congruence. rewrite Lrow. apply rsum_ext; intros l Hl.
  rewrite (cols_of_nth k n B l j Hk HB Hl Hj). reflexivity.
Qed.
Lemma scale_rows_entry k n s V l j : length s = k -> rect k n V -> (l < k)%nat ->
  mfun (scale_rows Rops s V) l j = vfun s l * mfun V l j.
Proof.
  intros Ls [LV FV] Hl. unfold mfun, scale_rows, vfun.
  rewrite (nth_map_lt _ _ _ (0, [])) by (rewrite combine_length; lia).
  rewrite combine_nth by lia. cbn [fst snd].
  destruct (Nat.lt_ge_cases j (length (nth l V []))) as [Hj|Hj].
  - rewrite (nth_map_lt _ _ _ 0) by exact Hj. reflexivity.
  - rewrite (nth_overflow (map _ _)) by (rewrite map_length; exact Hj). rewrite (nth_overflow (nth l V [])) by exact Hj. ring.
Qed.
Lemma scale_rows_rect k n s V : length s = k -> rect k n V -> rect k n (scale_rows Rops s V).
Proof.
  intros Ls [LV FV]. unfold scale_rows. split; [rewrite map_length, combine_length; lia|].
  apply Forall_forall. intros r Hr. apply in_map_iff in Hr. destruct Hr as ([a row] & <- & Hin). cbn [fst snd]. rewrite map_length.
  apply in_combine_r in Hin. rewrite Forall_forall in FV. apply FV, Hin.
Qed.

Section ListSvd.
Variables (m n k : nat) (U : list (list R)) (s : list R) (V M : list (list R)).
Hypothesis Hk : (1 <= k)%nat.
Hypothesis RU : rect m k U.
Hypothesis Ls : length s = k.
Hypothesis RV : rect k n V.
(* the contract of the SVD oracle, exact *)
Hypothesis HU : ocols m k (mfun U).
Hypothesis HV : ocols n k (fun j l => mfun V l j).
Hypothesis Hs : Forall (fun x => 0 <= x) s.
Hypothesis HM : forall i j, (i < m)%nat -> (j < n)%nat -> mfun M i j = compose k (mfun U) (vfun s) (mfun V) i j.

Lemma svt_entries t i j : (i < m)%nat -> (j < n)%nat ->
  mfun (svd_thresholding_with Rops U s V t) i j = compose k (mfun U) (vfun (soft_thresholding Rops t s)) (mfun V) i j.
Proof.
  intros Hi Hj. unfold svd_thresholding_with.
  assert (Lsoft : length (soft_thresholding Rops t s) = k) by (rewrite soft_length; exact Ls).
  rewrite (mat_mul_entry m k n U _ i j Hk RU (scale_rows_rect k n _ V Lsoft RV) Hi Hj).
  unfold compose. apply rsum_ext; intros l Hl. rewrite (scale_rows_entry k n _ V l j Lsoft RV Hl). ring.
Qed.
Lemma procrustes_entries i j : (i < m)%nat -> (j < n)%nat ->
  mfun (procrustes_with Rops U V) i j = compose k (mfun U) (fun _ => 1) (mfun V) i j.
Proof.
  intros Hi Hj. unfold procrustes_with. rewrite (mat_mul_entry m k n U V i j Hk RU RV Hi Hj).
  unfold compose. apply rsum_ext; intros; ring.
Qed.
Lemma frob_ext A A' B B' : (forall i j, (i < m)%nat -> (j < n)%nat -> A i j = A' i j) ->
  (forall i j, (i < m)%nat -> (j < n)%nat -> B i j = B' i j) -> frob m n A B = frob m n A' B'.
Proof. intros HA HB. unfold frob. apply rsum_ext; intros i Hi. apply rsum_ext; intros j Hj. rewrite HA, HB by assumption. reflexivity. Qed.
Lemma vfun_nonneg l : (l < k)%nat -> 0 <= vfun s l.
Proof. intros Hl. unfold vfun. rewrite Forall_forall in Hs. apply Hs, nth_In. lia. Qed.

(* procrustes: the model's output maximises <Q, M> over the matrices with orthonormal columns or rows, and is a nearest one *)
Theorem procrustes_list_max Q : ocols m n Q \/ ocols n m (fun j i => Q i j) ->
  frob m n Q (mfun M) <= frob m n (mfun (procrustes_with Rops U V)) (mfun M).
Proof.
  intros HQ.
  rewrite (frob_ext (mfun (procrustes_with Rops U V)) (compose k (mfun U) (fun _ => 1) (mfun V)) (mfun M) (compose k (mfun U) (vfun s) (mfun V)))
    by (intros; first [apply procrustes_entries; assumption | apply HM; assumption]).
  rewrite (procrustes_value m n k (mfun U) (vfun s) (mfun V) HU HV).
  rewrite (frob_ext Q Q (mfun M) (compose k (mfun U) (vfun s) (mfun V))) by (intros; first [apply HM; assumption | reflexivity]).
  apply (procrustes_max m n k (mfun U) (vfun s) (mfun V) HU HV vfun_nonneg Q HQ).
Qed.
Theorem procrustes_list_nearest Q : ocols m n Q \/ ocols n m (fun j i => Q i j) -> frob m n Q Q = INR k ->
  fro2 m n (mfun (procrustes_with Rops U V)) (mfun M) <= fro2 m n Q (mfun M).
Proof.
  intros HQ HN. unfold fro2.
  rewrite (frob_ext (fun i j => mfun (procrustes_with Rops U V) i j - mfun M i j)
                    (fun i j => compose k (mfun U) (fun _ => 1) (mfun V) i j - compose k (mfun U) (vfun s) (mfun V) i j)
                    (fun i j => mfun (procrustes_with Rops U V) i j - mfun M i j)
                    (fun i j => compose k (mfun U) (fun _ => 1) (mfun V) i j - compose k (mfun U) (vfun s) (mfun V) i j))
    by (intros; rewrite procrustes_entries, HM by assumption; reflexivity).
  rewrite (frob_ext (fun i j => Q i j - mfun M i j) (fun i j => Q i j - compose k (mfun U) (vfun s) (mfun V) i j)
                    (fun i j => Q i j - mfun M i j) (fun i j => Q i j - compose k (mfun U) (vfun s) (mfun V) i j))
    by (intros; rewrite HM by assumption; reflexivity).
  apply (procrustes_nearest m n k (mfun U) (vfun s) (mfun V) HU HV vfun_nonneg Q HQ HN).
Qed.

(* (k = min(m, n): the competitors are the matrices with n = k orthonormal columns, resp. m = k orthonormal rows) *)
Theorem procrustes_list_nearest_set Q : (ocols m n Q /\ n = k) \/ (ocols n m (fun j i => Q i j) /\ m = k) ->
  fro2 m n (mfun (procrustes_with Rops U V)) (mfun M) <= fro2 m n Q (mfun M).
Proof.
  intros [[HQ E]|[HQ E]]; apply procrustes_list_nearest; auto; rewrite <- E; [apply ocols_frob | apply orows_frob]; exact HQ.
Qed.
Lemma ocols_ext rows cols A A' : (forall i j, (i < rows)%nat -> (j < cols)%nat -> A i j = A' i j) -> ocols rows cols A' -> ocols rows cols A.
Proof. intros E H a b Ha Hb. rewrite <- (H a b Ha Hb). apply rsum_ext; intros i Hi. rewrite !E by assumption. reflexivity. Qed.
(* feasibility of the model's output (extra clause of the contract: V, resp. U, is a square orthogonal matrix) *)
Theorem procrustes_list_feasible_cols : ocols k n (mfun V) -> ocols m n (mfun (procrustes_with Rops U V)).
Proof.
  intros HVc. apply (ocols_ext m n _ (compose k (mfun U) (fun _ => 1) (mfun V))); [intros; apply procrustes_entries; assumption|].
  apply procrustes_feasible_cols; assumption.
Qed.
Theorem procrustes_list_feasible_rows : ocols k m (fun l i => mfun U i l) -> ocols n m (fun j i => mfun (procrustes_with Rops U V) i j).
Proof.
  intros HUr. apply (ocols_ext n m _ (fun j i => compose k (mfun U) (fun _ => 1) (mfun V) i j)); [intros; apply procrustes_entries; assumption|].
  apply procrustes_feasible_rows; assumption.
Qed.

(* idempotence: if M itself has orthonormal columns (rows), the model's output is M, whatever decomposition the oracle returned *)
Theorem procrustes_list_fixed : ocols m n (mfun M) \/ ocols n m (fun j i => mfun M i j) ->
  forall i j, (i < m)%nat -> (j < n)%nat -> mfun (procrustes_with Rops U V) i j = mfun M i j.
Proof.
  intros HMo i j Hi Hj. rewrite procrustes_entries, HM by assumption.
  apply (procrustes_fixed m n k (mfun U) (vfun s) (mfun V) HU HV vfun_nonneg).
  destruct HMo as [H|H]; [left | right].
  - apply (ocols_ext m n _ (mfun M)); [intros; symmetry; apply HM; assumption | exact H].
  - apply (ocols_ext n m _ (fun j i => mfun M i j)); [intros; symmetry; apply HM; assumption | exact H].
Qed.

(* svd_thresholding: the model's output X = U diag(soft_t(s)) V against any Z presented with a singular value decomposition *)
Theorem svt_list_optimal t k' U' s' V' : 0 <= t ->
  ocols m k' U' -> ocols n k' (fun j l => V' l j) -> (forall l, (l < k')%nat -> 0 <= s' l) ->
  t * lsum Rops (soft_thresholding Rops t s) + fro2 m n (mfun (svd_thresholding_with Rops U s V t)) (mfun M) / 2
  <= t * rsum k' s' + fro2 m n (compose k' U' s' V') (mfun M) / 2.
Proof.
  intros Ht HU' HV' Hs'. unfold fro2.
  set (sf := vfun (soft_thresholding Rops t s)). set (g := fun l => vfun s l - sf l).
  assert (Esf : forall l, (l < k)%nat -> sf l = soft1 Rops t (vfun s l)).
  { intros l Hl. unfold sf, vfun, soft_thresholding. rewrite (nth_map_lt _ _ _ 0) by lia. reflexivity. }
  rewrite (frob_ext (fun i j => mfun (svd_thresholding_with Rops U s V t) i j - mfun M i j)
                    (fun i j => compose k (mfun U) sf (mfun V) i j - compose k (mfun U) (vfun s) (mfun V) i j)
                    (fun i j => mfun (svd_thresholding_with Rops U s V t) i j - mfun M i j)
                    (fun i j => compose k (mfun U) sf (mfun V) i j - compose k (mfun U) (vfun s) (mfun V) i j))
    by (intros; rewrite svt_entries, HM by assumption; reflexivity).
  rewrite (frob_ext (fun i j => compose k' U' s' V' i j - mfun M i j) (fun i j => compose k' U' s' V' i j - compose k (mfun U) (vfun s) (mfun V) i j)
                    (fun i j => compose k' U' s' V' i j - mfun M i j) (fun i j => compose k' U' s' V' i j - compose k (mfun U) (vfun s) (mfun V) i j))
    by (intros; rewrite HM by assumption; reflexivity).
  rewrite lsum_rsum, soft_length, Ls. fold sf.
  apply (svt_optimal m n k (mfun U) (vfun s) (mfun V) t HU HV Ht sf g); try assumption.
  - intros l Hl. unfold g. ring.
  - intros l Hl. unfold g. rewrite (Esf l Hl). pose proof (vfun_nonneg l Hl) as Hx.
    destruct (soft1_spec t (vfun s l) Ht) as [[H E]|[[H E]|[H E]]]; rewrite E; lra.
  - intros l Hl. unfold g. rewrite (Esf l Hl). pose proof (vfun_nonneg l Hl) as Hx.
    destruct (soft1_spec t (vfun s l) Ht) as [[H E]|[[H E]|[H E]]]; rewrite E; try lra; try ring.
Qed.
End ListSvd.

(* the thresholded singular values and the removed part: the facts the index-function theorems need *)
Lemma soft_split_facts t k (s : list R) : 0 <= t -> length s = k -> Forall (fun x => 0 <= x) s ->
  let sf := vfun (soft_thresholding Rops t s) in let g := fun l => vfun s l - sf l in
  (forall l, (l < k)%nat -> vfun s l = sf l + g l) /\ (forall l, (l < k)%nat -> 0 <= g l <= t) /\
  (forall l, (l < k)%nat -> sf l * g l = t * sf l) /\ (forall l, (l < k)%nat -> 0 <= sf l).
Proof.
  intros Ht Ls Hs sf g.
  assert (Esf : forall l, (l < k)%nat -> sf l = soft1 Rops t (vfun s l)).
  { intros l Hl. unfold sf, vfun, soft_thresholding. rewrite (nth_map_lt _ _ _ 0) by lia. reflexivity. }
  assert (Hx : forall l, (l < k)%nat -> 0 <= vfun s l).
  { intros l Hl. unfold vfun. rewrite Forall_forall in Hs. apply Hs, nth_In. lia. }
  split; [|split; [|split]]; intros l Hl; unfold g; try rewrite (Esf l Hl); pose proof (Hx l Hl).
  - ring.
  - destruct (soft1_spec t (vfun s l) Ht) as [[H1 E]|[[H1 E]|[H1 E]]]; rewrite E; lra.
  - destruct (soft1_spec t (vfun s l) Ht) as [[H1 E]|[[H1 E]|[H1 E]]]; rewrite E; try lra; try ring.
  - destruct (soft1_spec t (vfun s l) Ht) as [[H1 E]|[[H1 E]|[H1 E]]]; rewrite E; lra.
Qed.
(* singular value thresholding is firmly non-expansive: two inputs, each with the oracle's decomposition *)
Theorem svt_list_firmly_nonexpansive m n t k1 U1 s1 V1 M1 k2 U2 s2 V2 M2 : 0 <= t ->
  (1 <= k1)%nat -> rect m k1 U1 -> length s1 = k1 -> rect k1 n V1 -> ocols m k1 (mfun U1) -> ocols n k1 (fun j l => mfun V1 l j) ->
  Forall (fun x => 0 <= x) s1 -> (forall i j, (i < m)%nat -> (j < n)%nat -> mfun M1 i j = compose k1 (mfun U1) (vfun s1) (mfun V1) i j) ->
  (1 <= k2)%nat -> rect m k2 U2 -> length s2 = k2 -> rect k2 n V2 -> ocols m k2 (mfun U2) -> ocols n k2 (fun j l => mfun V2 l j) ->
  Forall (fun x => 0 <= x) s2 -> (forall i j, (i < m)%nat -> (j < n)%nat -> mfun M2 i j = compose k2 (mfun U2) (vfun s2) (mfun V2) i j) ->
  let X1 := mfun (svd_thresholding_with Rops U1 s1 V1 t) in let X2 := mfun (svd_thresholding_with Rops U2 s2 V2 t) in
  frob m n (fun i j => X1 i j - X2 i j) (fun i j => X1 i j - X2 i j)
  <= frob m n (fun i j => X1 i j - X2 i j) (fun i j => mfun M1 i j - mfun M2 i j).
Proof.
  intros Ht Hk1 RU1 Ls1 RV1 HU1 HV1 Hs1 HM1 Hk2 RU2 Ls2 RV2 HU2 HV2 Hs2 HM2 X1 X2.
  destruct (soft_split_facts t k1 s1 Ht Ls1 Hs1) as (A1 & B1 & C1 & D1).
  destruct (soft_split_facts t k2 s2 Ht Ls2 Hs2) as (A2 & B2 & C2 & D2).
  set (sf1 := vfun (soft_thresholding Rops t s1)) in *. set (sf2 := vfun (soft_thresholding Rops t s2)) in *.
  pose proof (svt_firmly_nonexpansive m n t Ht k1 (mfun U1) (vfun s1) (mfun V1) sf1 (fun l => vfun s1 l - sf1 l)
                k2 (mfun U2) (vfun s2) (mfun V2) sf2 (fun l => vfun s2 l - sf2 l) HU1 HV1 HU2 HV2 A1 A2 B1 B2 C1 C2 D1 D2) as F.
  assert (E1 : forall i j, (i < m)%nat -> (j < n)%nat -> X1 i j - X2 i j = compose k1 (mfun U1) sf1 (mfun V1) i j - compose k2 (mfun U2) sf2 (mfun V2) i j).
  { intros i j Hi Hj. unfold X1, X2. rewrite (svt_entries m n k1 U1 s1 V1 Hk1 RU1 Ls1 RV1 t i j Hi Hj), (svt_entries m n k2 U2 s2 V2 Hk2 RU2 Ls2 RV2 t i j Hi Hj). reflexivity. }
  rewrite (frob_ext m n _ _ _ _ E1 E1).
  rewrite (frob_ext m n (fun i j => X1 i j - X2 i j) (fun i j => compose k1 (mfun U1) sf1 (mfun V1) i j - compose k2 (mfun U2) sf2 (mfun V2) i j)
                        (fun i j => mfun M1 i j - mfun M2 i j) (fun i j => compose k1 (mfun U1) (vfun s1) (mfun V1) i j - compose k2 (mfun U2) (vfun s2) (mfun V2) i j) E1)
    by (intros i j Hi Hj; rewrite HM1, HM2 by assumption; reflexivity).
  exact F.
Qed.

(* singular value thresholding against EVERY matrix: the nuclear norm is the dual of the spectral norm (nuc_le / is_nuc, ProxProofsSvt.v);
   no decomposition of the competitor is needed *)
Section ListSvdDual.
Variables (m n k : nat) (U : list (list R)) (s : list R) (V M : list (list R)).
Hypothesis Hk : (1 <= k)%nat.
Hypothesis RU : rect m k U.
Hypothesis Ls : length s = k.
Hypothesis RV : rect k n V.
Hypothesis HU : ocols m k (mfun U).
Hypothesis HV : ocols n k (fun j l => mfun V l j).
Hypothesis Hs : Forall (fun x => 0 <= x) s.
Hypothesis HM : forall i j, (i < m)%nat -> (j < n)%nat -> mfun M i j = compose k (mfun U) (vfun s) (mfun V) i j.

Theorem svt_list_output_nuc t : 0 <= t -> is_nuc m n (mfun (svd_thresholding_with Rops U s V t)) (lsum Rops (soft_thresholding Rops t s)).
Proof.
  intros Ht. destruct (soft_split_facts t k s Ht Ls Hs) as (A & B & Cc & D).
  rewrite lsum_rsum, soft_length, Ls.
  destruct (nuc_compose m n k (mfun U) (mfun V) HU HV (vfun (soft_thresholding Rops t s)) D) as [N1 (W & HW & EW)].
  assert (E : forall W0, frob m n W0 (mfun (svd_thresholding_with Rops U s V t))
                       = frob m n W0 (compose k (mfun U) (vfun (soft_thresholding Rops t s)) (mfun V))).
  { intros W0. apply frob_ext; intros; [reflexivity | apply (svt_entries m n k U s V Hk RU Ls RV); assumption]. }
  split.
  - intros W0 HW0. rewrite E. apply N1, HW0.
  - exists W. split; [exact HW | rewrite E; exact EW].
Qed.
Theorem svt_list_optimal_full t (Z : nat -> nat -> R) (nu : R) : 0 <= t -> nuc_le m n Z nu ->
  t * lsum Rops (soft_thresholding Rops t s) + fro2 m n (mfun (svd_thresholding_with Rops U s V t)) (mfun M) / 2
  <= t * nu + fro2 m n Z (mfun M) / 2.
Proof.
  intros Ht HZ. unfold fro2. destruct (soft_split_facts t k s Ht Ls Hs) as (A & B & Cc & D).
  set (sf := vfun (soft_thresholding Rops t s)) in *.
  rewrite (frob_ext m n (fun i j => mfun (svd_thresholding_with Rops U s V t) i j - mfun M i j)
                    (fun i j => compose k (mfun U) sf (mfun V) i j - compose k (mfun U) (vfun s) (mfun V) i j)
                    (fun i j => mfun (svd_thresholding_with Rops U s V t) i j - mfun M i j)
                    (fun i j => compose k (mfun U) sf (mfun V) i j - compose k (mfun U) (vfun s) (mfun V) i j))
    by (intros; rewrite (svt_entries m n k U s V Hk RU Ls RV), HM by assumption; reflexivity).
  rewrite (frob_ext m n (fun i j => Z i j - mfun M i j) (fun i j => Z i j - compose k (mfun U) (vfun s) (mfun V) i j)
                    (fun i j => Z i j - mfun M i j) (fun i j => Z i j - compose k (mfun U) (vfun s) (mfun V) i j))
    by (intros; rewrite HM by assumption; reflexivity).
  rewrite lsum_rsum, soft_length, Ls. fold sf.
  apply (svt_optimal_dual m n k (mfun U) (vfun s) (mfun V) t HU HV Ht sf (fun l => vfun s l - sf l) A B Cc Z nu HZ).
Qed.
End ListSvdDual.

Theorem procrustes_list_feasible (m n k : nat) (U V : list (list R)) :
  (1 <= k)%nat -> rect m k U -> rect k n V -> ocols m k (mfun U) -> ocols n k (fun j l => mfun V l j) ->
  (ocols k n (mfun V) -> ocols m n (mfun (procrustes_with Rops U V))) /\
  (ocols k m (fun l i => mfun U i l) -> ocols n m (fun j i => mfun (procrustes_with Rops U V) i j)).
Proof.
  intros Hk RU RV HU HV. split; [exact (procrustes_list_feasible_cols m n k U V Hk RU RV HU) | exact (procrustes_list_feasible_rows m n k U V Hk RU RV HV)].
Qed.

(* the hypotheses of the three theorems are satisfiable (a 2 x 2 instance with a permutation as V) *)
Lemma svd_contract_instance :
  let U := [[1; 0]; [0; 1]] in let s := [3; 1] in let V := [[0; 1]; [1; 0]] in let M := [[0; 3]; [1; 0]] in
  rect 2 2 U /\ length s = 2%nat /\ rect 2 2 V /\ ocols 2 2 (mfun U) /\ ocols 2 2 (fun j l => mfun V l j) /\ ocols 2 2 (mfun V) /\
  Forall (fun x => 0 <= x) s /\ (forall i j, (i < 2)%nat -> (j < 2)%nat -> mfun M i j = compose 2 (mfun U) (vfun s) (mfun V) i j) /\
  frob 2 2 (mfun U) (mfun U) = INR 2.
Proof.
  cbv zeta.
  assert (O1 : ocols 2 2 (mfun [[1; 0]; [0; 1]])).
  { intros a b Ha Hb. destruct a as [|[|a]]; destruct b as [|[|b]]; try lia; unfold mfun, delta; cbn; lra. }
  assert (O2 : ocols 2 2 (fun j l => mfun [[0; 1]; [1; 0]] l j)).
  { intros a b Ha Hb. destruct a as [|[|a]]; destruct b as [|[|b]]; try lia; unfold mfun, delta; cbn; lra. }
  assert (O3 : ocols 2 2 (mfun [[0; 1]; [1; 0]])).
  { intros a b Ha Hb. destruct a as [|[|a]]; destruct b as [|[|b]]; try lia; unfold mfun, delta; cbn; lra. }
  repeat split; try assumption; try (repeat constructor; lra).
  - intros i j Hi Hj. destruct i as [|[|i]]; destruct j as [|[|j]]; try lia; unfold mfun, compose, vfun; cbn; lra.
  - unfold frob, mfun; cbn; lra.
Qed.
