(* Round 7: svd_thresholding WITHOUT the exact contract of the SVD oracle.
   (A) svt_certificate: for ANY matrices X, M, W with W in the spectral unit ball and any t >= 0, every competitor Z satisfies
         t <W, X> + |X - M|^2 / 2 - |M - X - t W|^2 / 2  <=  t |Z|_nuc + |Z - M|^2 / 2.
       (a dual certificate: the suboptimality of X is at most  t (|X|_nuc - <W, X>) + |M - X - t W|_F^2 / 2; with the exact contract the
       certificate W = U diag(min(s,t)/t) V has <W, X> = |X|_nuc and M - X - t W = 0: C12_svt_optimal.)
   (B) approximately orthonormal singular vectors: if the Gram matrices of the columns of U and of the rows of V are within eps of the
       identity ENTRYWISE (what the per-run check decides on the recorded LAPACK answer, eps = 1e-9) and k eps < 1, Bessel's inequality
       holds up to the factor 1 / (1 - k eps), hence U diag(g) V with 0 <= g <= t has spectral norm at most t / (1 - k eps).
   (C) svt_perturbed: the two together, for the matrix the code returns, X = U diag(soft_t(s)) V: its objective exceeds the minimum by at most
         t (nu_X - (1 - k eps) <W0, X>) + |M - X - (1 - k eps) t W0|_F^2 / 2,   W0 = U diag(min(s, t) / t) V   (t > 0)
       where nu_X is any upper bound of its nuclear norm; nothing is assumed about M = U diag(s) V (the reconstruction error enters through
       the residual term). *)
From Coq Require Import Reals Lra Lia List.
From TLV Require Import Base.RSum Proofs.ProxProofsSvt.
Open Scope R_scope.

Definition fro2f (m n : nat) (A B : nat -> nat -> R) : R := frob m n (fun i j => A i j - B i j) (fun i j => A i j - B i j).

(* ---------- (A) *)
Theorem svt_certificate (m n : nat) (X M W Z : nat -> nat -> R) (t nu : R) : 0 <= t -> spec_le m n 1 W -> nuc_le m n Z nu ->
  t * frob m n W X + fro2f m n X M / 2 - fro2f m n M (fun i j => X i j + t * W i j) / 2 <= t * nu + fro2f m n Z M / 2.
Proof.
  intros Ht HW HZ. pose proof (HZ W HW) as B.
  set (E := fun i j => M i j - (X i j + t * W i j)).
  assert (Id : fro2f m n Z M = fro2f m n X M + fro2f m n Z X - 2 * t * frob m n W Z + 2 * t * frob m n W X
                               - 2 * frob m n (fun i j => Z i j - X i j) E).
  { unfold fro2f, frob. rewrite <- !rsum_scale, <- rsum_add, <- rsum_sub, <- rsum_add, <- rsum_sub. apply rsum_ext; intros i _.
    rewrite <- !rsum_scale, <- rsum_add, <- rsum_sub, <- rsum_add, <- rsum_sub. apply rsum_ext; intros j _. unfold E. ring. }
  assert (Y : 2 * frob m n (fun i j => Z i j - X i j) E <= fro2f m n Z X + fro2f m n M (fun i j => X i j + t * W i j)).
  { unfold fro2f, frob. rewrite <- rsum_scale, <- rsum_add. apply rsum_le; intros i _.
    rewrite <- rsum_scale, <- rsum_add. apply rsum_le; intros j _. unfold E.
    pose proof (pow2_ge_0 ((Z i j - X i j) - (M i j - (X i j + t * W i j)))). nra. }
  assert (tB : t * frob m n W Z <= t * nu) by (apply Rmult_le_compat_l; assumption).
  rewrite Id. lra.
Qed.

(* ---------- (B) *)
Definition gram (rows : nat) (A : nat -> nat -> R) (a b : nat) : R := rsum rows (fun i => A i a * A i b).
Definition aocols (rows cols : nat) (e : R) (A : nat -> nat -> R) : Prop :=
  forall a b, (a < cols)%nat -> (b < cols)%nat -> Rabs (gram rows A a b - delta a b) <= e.
Lemma ocols_aocols rows cols A : ocols rows cols A -> aocols rows cols 0 A.
Proof. intros H a b Ha Hb. unfold gram. rewrite (H a b Ha Hb). replace (delta a b - delta a b) with 0 by ring. rewrite Rabs_R0. lra. Qed.

Lemma quad_expand_gram rows cols A c d :
  rsum rows (fun i => rsum cols (fun l => c l * A i l) * rsum cols (fun l => d l * A i l))
  = rsum cols (fun l => rsum cols (fun l' => (c l * d l') * gram rows A l l')).
Proof.
  rewrite (rsum_ext rows _ (fun i => rsum cols (fun l => rsum cols (fun l' => (c l * d l') * (A i l * A i l')))))
    by (intros i _; rewrite rsum_mul; apply rsum_ext; intros l _; apply rsum_ext; intros l' _; ring).
  rewrite (rot3 rows cols cols (fun i l l' => (c l * d l') * (A i l * A i l'))).
  rewrite (rot3 cols rows cols (fun l' i l => (c l * d l') * (A i l * A i l'))).
  apply rsum_ext; intros l Hl. apply rsum_ext; intros l' Hl'. rewrite rsum_scale. reflexivity.
Qed.
Lemma rsum_const' n c : rsum n (fun _ => c) = INR n * c.
Proof. induction n as [|n IH]; [cbn; ring|]. cbn [rsum]. rewrite IH, S_INR. ring. Qed.

(* Bessel's inequality up to the factor (1 - cols * e) *)
Lemma abessel rows cols e A u : aocols rows cols e A ->
  (1 - INR cols * e) * rsum cols (fun l => (rsum rows (fun i => u i * A i l))^2) <= rsum rows (fun i => (u i)^2).
Proof.
  intros HA. set (al := fun l => rsum rows (fun i => u i * A i l)).
  set (p := fun i => rsum cols (fun l => al l * A i l)).
  set (S := rsum cols (fun l => (al l)^2)).
  assert (H0 : 0 <= rsum rows (fun i => (u i - p i)^2)) by (apply rsum_nonneg; intros; apply pow2_ge_0).
  rewrite (rsum_ext rows _ (fun i => ((u i)^2 + (-2) * (u i * p i)) + p i * p i)) in H0 by (intros; ring).
  rewrite !rsum_add, rsum_scale in H0.
  assert (H1 : rsum rows (fun i => u i * p i) = S).
  { unfold p. rewrite (rsum_ext rows _ (fun i => rsum cols (fun l => al l * (u i * A i l))))
      by (intros i _; rewrite <- rsum_scale; apply rsum_ext; intros; ring).
    rewrite rsum_exchange. apply rsum_ext; intros l _. rewrite rsum_scale. unfold al. ring. }
  assert (H2 : rsum rows (fun i => p i * p i) <= S + INR cols * e * S).
  { unfold p. rewrite (quad_expand_gram rows cols A al al).
    apply Rle_trans with (rsum cols (fun l => rsum cols (fun l' => (al l * al l') * delta l l' + e / 2 * ((al l)^2 + (al l')^2)))).
    - apply rsum_le; intros l Hl. apply rsum_le; intros l' Hl'. pose proof (HA l l' Hl Hl') as B.
      set (D := gram rows A l l' - delta l l') in *. replace (gram rows A l l') with (delta l l' + D) by (unfold D; ring).
      assert (Ee : 0 <= e) by (pose proof (Rabs_pos D); lra).
      assert (Hxy : Rabs (al l * al l') <= ((al l)^2 + (al l')^2) / 2).
      { apply Rabs_le. pose proof (pow2_ge_0 (al l - al l')). pose proof (pow2_ge_0 (al l + al l')). split; nra. }
      assert (Hprod : al l * al l' * D <= Rabs (al l * al l') * Rabs D) by (rewrite <- Rabs_mult; apply Rle_abs).
      assert (Rabs (al l * al l') * Rabs D <= ((al l)^2 + (al l')^2) / 2 * e).
      { apply Rmult_le_compat; [apply Rabs_pos | apply Rabs_pos | exact Hxy | exact B]. }
      replace (al l * al l' * (delta l l' + D)) with (al l * al l' * delta l l' + al l * al l' * D) by ring. lra.
    - rewrite (rsum_ext cols _ (fun l => (al l)^2 + (e / 2 * (INR cols * (al l)^2) + e / 2 * S))).
      + rewrite !rsum_add, !rsum_scale, rsum_const'. fold S. lra.
      + intros l Hl. rewrite rsum_add. rewrite (rsum_delta cols (fun l' => al l * al l') l Hl).
        rewrite rsum_scale, rsum_add, rsum_const'. fold S. ring. }
  rewrite H1 in H0. change ((1 - INR cols * e) * S <= rsum rows (fun i => (u i)^2)).
  replace ((1 - INR cols * e) * S) with (S - INR cols * e * S) by ring. lra.
Qed.

Section Approx.
Variables (m n k : nat) (U : nat -> nat -> R) (V : nat -> nat -> R) (e : R).
Hypothesis HU : aocols m k e U.
Hypothesis HV : aocols n k e (fun j l => V l j).
Hypothesis He : INR k * e < 1.

(* u^T (U diag(g) V) v <= t / (1 - k e) for unit u, v and 0 <= g <= t *)
Lemma abil_bound g t u v : 0 <= t -> (forall l, (l < k)%nat -> 0 <= g l <= t) -> unit_vec m u -> unit_vec n v ->
  (1 - INR k * e) * bil m n u (compose k U g V) v <= t.
Proof.
  intros Ht Hg Hu Hv. rewrite bil_compose.
  set (al := fun l => rsum m (fun i => u i * U i l)). set (be := fun l => rsum n (fun j => V l j * v j)).
  set (q := 1 - INR k * e) in *. assert (Hq : 0 < q) by (unfold q; lra).
  assert (Ha : q * rsum k (fun l => (al l)^2) <= 1) by (rewrite <- Hu; apply (abessel m k e U u HU)).
  assert (Hb : q * rsum k (fun l => (be l)^2) <= 1).
  { rewrite <- Hv. pose proof (abessel n k e (fun j l => V l j) v HV) as B. cbv beta in B.
    rewrite (rsum_ext k _ (fun l => (rsum n (fun i => v i * V l i))^2)); [exact B|].
    intros l _. unfold be. f_equal. apply rsum_ext; intros; ring. }
  assert (Hs : rsum k (fun l => g l * (al l * be l)) <= rsum k (fun l => t / 2 * (al l)^2 + t / 2 * (be l)^2)).
  { apply rsum_le. intros l Hl. destruct (Hg l Hl) as [G0 G1].
    assert (0 <= (al l - be l)^2) by apply pow2_ge_0. assert (0 <= (al l + be l)^2) by apply pow2_ge_0.
    assert (0 <= (al l)^2 + (be l)^2) by (pose proof (pow2_ge_0 (al l)); pose proof (pow2_ge_0 (be l)); lra).
    nra. }
  rewrite rsum_add, !rsum_scale in Hs.
  apply Rle_trans with (q * (t / 2 * rsum k (fun l => (al l)^2) + t / 2 * rsum k (fun l => (be l)^2))).
  - apply Rmult_le_compat_l; [lra | exact Hs].
  - nra.
Qed.
Lemma aspec_le g t : 0 <= t -> (forall l, (l < k)%nat -> 0 <= g l <= t) ->
  spec_le m n t (fun i j => (1 - INR k * e) * compose k U g V i j).
Proof. intros Ht Hg u v Hu Hv. rewrite bil_scale. apply abil_bound; assumption. Qed.

(* ---------- (C) the returned matrix X = U diag(sf) V with sf = soft_t(s), certificate weights w = min(s, t) / t in [0, 1] *)
Variables (M : nat -> nat -> R) (sf w : nat -> R) (t : R).
Hypothesis Ht : 0 <= t.
Hypothesis Hw : forall l, (l < k)%nat -> 0 <= w l <= 1.
Let X := compose k U sf V.
Let W := fun i j => (1 - INR k * e) * compose k U w V i j.
Theorem svt_perturbed (Z : nat -> nat -> R) (nu : R) : nuc_le m n Z nu ->
  t * frob m n W X + fro2f m n X M / 2 - fro2f m n M (fun i j => X i j + t * W i j) / 2 <= t * nu + fro2f m n Z M / 2.
Proof. intros HZ. apply svt_certificate; [exact Ht | apply aspec_le; [lra | exact Hw] | exact HZ]. Qed.
End Approx.

(* with the exact contract (e = 0) the bound of (C) is the optimality statement: <W, X> = sum sf and the residual vanishes *)
Lemma svt_perturbed_exact m n k U V s sf g w t : ocols m k U -> ocols n k (fun j l => V l j) -> 0 < t ->
  (forall l, (l < k)%nat -> s l = sf l + g l) -> (forall l, (l < k)%nat -> g l = t * w l) ->
  (forall l, (l < k)%nat -> sf l * g l = t * sf l) ->
  let X := compose k U sf V in let W := fun i j => (1 - INR k * 0) * compose k U w V i j in let M := compose k U s V in
  frob m n W X = rsum k sf /\ fro2f m n M (fun i j => X i j + t * W i j) = 0.
Proof.
  intros HU HV Ht Hsplit Hgw Hc X W M. split.
  - unfold W, X. rewrite (frob_scale_l m n _ (compose k U w V)), (frob_compose_compose m n k U V HU HV). rewrite Rmult_0_r, Rminus_0_r, Rmult_1_l.
    apply rsum_ext; intros l Hl. pose proof (Hc l Hl) as C. rewrite (Hgw l Hl) in C. nra.
  - unfold fro2f, frob. apply rsum_zero; intros i _. apply rsum_zero; intros j _.
    assert (E : M i j - (X i j + t * W i j) = 0); [|rewrite E; ring].
    unfold M, X, W, compose. rewrite Rmult_0_r, Rminus_0_r, Rmult_1_l, <- rsum_scale, <- rsum_add, <- rsum_sub.
    apply rsum_zero; intros l Hl. rewrite (Hsplit l Hl), (Hgw l Hl). ring.
Qed.

(* ---------- (D) an upper bound of the nuclear norm of U diag(a) V for approximately orthonormal singular vectors: (1 + e) sum a *)
Lemma bil_scale_vecs m n al be u W v : bil m n (fun i => al * u i) W (fun j => be * v j) = al * be * bil m n u W v.
Proof. unfold bil. rewrite <- rsum_scale. apply rsum_ext; intros i _. rewrite <- rsum_scale. apply rsum_ext; intros; ring. Qed.
Lemma bil_zero_l m n u W v : (forall i, (i < m)%nat -> u i = 0) -> bil m n u W v = 0.
Proof. intros H. unfold bil. apply rsum_zero; intros i Hi. apply rsum_zero; intros j _. rewrite (H i Hi). ring. Qed.
Lemma bil_zero_r m n u W v : (forall j, (j < n)%nat -> v j = 0) -> bil m n u W v = 0.
Proof. intros H. unfold bil. apply rsum_zero; intros i _. apply rsum_zero; intros j Hj. rewrite (H j Hj). ring. Qed.
Lemma unit_of_scaled n u : 0 < rsum n (fun i => (u i)^2) -> unit_vec n (fun i => / sqrt (rsum n (fun i => (u i)^2)) * u i).
Proof.
  intros Ha. set (a := rsum n (fun i => (u i)^2)) in *. unfold unit_vec.
  rewrite (rsum_ext n _ (fun i => (/ sqrt a)^2 * (u i)^2)) by (intros; ring). rewrite rsum_scale. fold a.
  assert (Hs : 0 < sqrt a) by (apply sqrt_lt_R0, Ha). assert (E : sqrt a * sqrt a = a) by (apply sqrt_sqrt; lra).
  rewrite <- E at 2. field. lra.
Qed.
Lemma bil_bound_general m n W u v : spec_le m n 1 W ->
  bil m n u W v <= (rsum m (fun i => (u i)^2) + rsum n (fun j => (v j)^2)) / 2.
Proof.
  intros HW. set (a := rsum m (fun i => (u i)^2)). set (b := rsum n (fun j => (v j)^2)).
  assert (Ha0 : 0 <= a) by (apply rsum_nonneg; intros; apply pow2_ge_0).
  assert (Hb0 : 0 <= b) by (apply rsum_nonneg; intros; apply pow2_ge_0).
  destruct (Req_dec a 0) as [Ea|Ea]; [rewrite (bil_zero_l m n u W v (rsum_sq_zero m u Ea)); lra|].
  destruct (Req_dec b 0) as [Eb|Eb]; [rewrite (bil_zero_r m n u W v (rsum_sq_zero n v Eb)); lra|].
  assert (Ha : 0 < a) by lra. assert (Hb : 0 < b) by lra.
  pose proof (unit_of_scaled m u Ha) as Uu. pose proof (unit_of_scaled n v Hb) as Uv. fold a in Uu. fold b in Uv.
  pose proof (HW _ _ Uu Uv) as B.
  assert (Sa : 0 < sqrt a) by (apply sqrt_lt_R0, Ha). assert (Sb : 0 < sqrt b) by (apply sqrt_lt_R0, Hb).
  assert (Ea2 : sqrt a * sqrt a = a) by (apply sqrt_sqrt; lra). assert (Eb2 : sqrt b * sqrt b = b) by (apply sqrt_sqrt; lra).
  assert (E : bil m n u W v = sqrt a * sqrt b * bil m n (fun i => / sqrt a * u i) W (fun j => / sqrt b * v j)).
  { rewrite <- bil_scale_vecs. unfold bil. apply rsum_ext; intros i _. apply rsum_ext; intros j _.
    field. split; lra. }
  rewrite E. set (z := bil m n (fun i => / sqrt a * u i) W (fun j => / sqrt b * v j)) in *.
  assert (P : 0 < sqrt a * sqrt b) by (apply Rmult_lt_0_compat; assumption).
  assert (sqrt a * sqrt b * z <= sqrt a * sqrt b) by nra.
  pose proof (pow2_ge_0 (sqrt a - sqrt b)). nra.
Qed.
Lemma anuc_compose m n k U V e a : aocols m k e U -> aocols n k e (fun j l => V l j) -> (forall l, (l < k)%nat -> 0 <= a l) ->
  nuc_le m n (compose k U a V) ((1 + e) * rsum k a).
Proof.
  intros HU HV Ha W HW. rewrite frob_comm, frob_compose_l, <- rsum_scale. apply rsum_le. intros l Hl.
  pose proof (bil_bound_general m n W (fun i => U i l) (fun j => V l j) HW) as B. cbv beta in B.
  pose proof (HU l l Hl Hl) as GU. pose proof (HV l l Hl Hl) as GV. unfold gram, delta in GU, GV.
  destruct (Nat.eq_dec l l) as [_|N]; [|congruence].
  pose proof (Rle_abs (rsum m (fun i => U i l * U i l) - 1)) as GU'. pose proof (Rle_abs (rsum n (fun i => V l i * V l i) - 1)) as GV'.
  rewrite (rsum_ext m (fun i => (U i l)^2) (fun i => U i l * U i l)) in B by (intros; ring).
  rewrite (rsum_ext n (fun j => (V l j)^2) (fun j => V l j * V l j)) in B by (intros; ring).
  pose proof (Ha l Hl). nra.
Qed.

(* the hypotheses of (B) / (C) are satisfiable by a matrix that is NOT exactly orthonormal *)
Lemma aocols_instance :
  let A := fun i j : nat => match i, j with O, O => 1 | O, S O => 1 / 100 | S O, S O => 1 | _, _ => 0 end in
  aocols 2 2 (1 / 50) A /\ ~ ocols 2 2 A /\ INR 2 * (1 / 50) < 1.
Proof.
  intros A. split; [|split].
  - intros a b Ha Hb. destruct a as [|[|a]]; [| |lia]; (destruct b as [|[|b]]; [| |lia]); unfold gram, delta, A; cbn; apply Rabs_le; split; lra.
  - intros H. pose proof (H 0%nat 1%nat ltac:(lia) ltac:(lia)) as E. unfold delta, A in E. cbn in E. lra.
  - cbn. lra.
Qed.
