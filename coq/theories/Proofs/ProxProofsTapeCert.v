(* From the Booleans the correspondence computes on a recorded SVD answer to the hypotheses of svt_gap_exec_sound: the entrywise comparison
   of the two Gram matrices with the identity (Corr/C12.rows_close e 0, exact rational arithmetic) IS the approximate-orthonormality
   hypothesis aocols of the perturbation theorems, for the tape mapped into R.  Hence a per-case certificate: if the Boolean svt_case_ok holds
   for a case, the matrix the executed model returns is optimal up to the rational number svt_gap computes. *)
From Coq Require Import List Arith ZArith QArith Qabs Reals Qreals Lra Lia Bool.
From Param Require Import Param.
From TLV Require Import Base.Ops Base.RSum Base.Transfer Model.Prox Model.ProxSvtGap Corr.Common Corr.C12
  Proofs.ProxProofs Proofs.ProxProofsIso Proofs.ProxProofsMatrix Proofs.ProxProofsSvt Proofs.ProxProofsSvtList Proofs.ProxProofsSvtPerturb
  Proofs.ProxProofsSvtGap Proofs.ProxSvtGapTransfer Proofs.ProxProofsProcrustesGap.
Import ListNotations.

Parametricity Recursive gram_cols.
Parametricity Recursive gram_rows.
Lemma gram_cols_transfer U : map (map Q2R) (gram_cols Qops U) = gram_cols Rops (map (map Q2R) U).
Proof. apply list_list_R_map. apply gram_cols_R; [apply ops_rel | apply list_list_R_of_map]. Qed.
Lemma gram_rows_transfer V : map (map Q2R) (gram_rows Qops V) = gram_rows Rops (map (map Q2R) V).
Proof. apply list_list_R_map. apply gram_rows_R; [apply ops_rel | apply list_list_R_of_map]. Qed.

Local Open Scope Q_scope.
Lemma Q2R_zero : Q2R 0 = 0%R.
Proof. unfold Q2R. cbn. rewrite Rmult_0_l. reflexivity. Qed.
Lemma Q2R_Qabs x : Q2R (Qabs x) = Rabs (Q2R x).
Proof.
  apply (Qabs_case x (fun y => Q2R y = Rabs (Q2R x))); intros H; apply Qle_Rle in H; rewrite Q2R_zero in H.
  - symmetry. apply Rabs_right. lra.
  - rewrite Q2R_opp. symmetry. apply Rabs_left1. exact H.
Qed.
Lemma qclose_R atol a b : qclose atol 0 a b = true -> (Rabs (Q2R a - Q2R b) <= Q2R atol)%R.
Proof.
  unfold qclose. intros H. apply Qle_bool_iff in H.
  assert (E : atol + 0 * (Qabs a + Qabs b) == atol) by ring. rewrite E in H.
  apply Qle_Rle in H. rewrite Q2R_Qabs, Q2R_minus in H. exact H.
Qed.
Lemma nth_map_Q2R (row : list Q) j : nth j (map Q2R row) 0%R = Q2R (nth j row 0).
Proof.
  destruct (Nat.lt_ge_cases j (length row)) as [Hj|Hj].
  - apply (nth_map_lt Q2R row j 0 0%R Hj).
  - rewrite (nth_overflow (map Q2R row)) by (rewrite map_length; exact Hj). rewrite (nth_overflow row) by exact Hj. symmetry. apply Q2R_zero.
Qed.
Lemma mfun_map_Q2R (A : list (list Q)) i j : mfun (map (map Q2R) A) i j = Q2R (nth j (nth i A []) 0).
Proof. unfold mfun. change (@nil R) with (map Q2R []). rewrite map_nth. apply nth_map_Q2R. Qed.
Lemma q_list_close_R atol : forall x y, q_list_close atol 0 x y = true ->
  forall j, (j < length x)%nat -> (Rabs (Q2R (nth j x 0%Q) - Q2R (nth j y 0%Q)) <= Q2R atol)%R.
Proof.
  induction x as [|a x IH]; intros [|b y] H j Hj; try discriminate H; [cbn in Hj; lia|].
  cbn [q_list_close] in H. apply andb_true_iff in H. destruct H as [H1 H2]. destruct j; [apply qclose_R, H1|].
  cbn [nth]. apply IH; [exact H2 | cbn in Hj; lia].
Qed.
Lemma rows_close_R atol : forall A B, rows_close atol 0 A B = true ->
  forall i j, (i < length A)%nat -> (j < length (nth i A []))%nat ->
  (Rabs (mfun (map (map Q2R) A) i j - mfun (map (map Q2R) B) i j) <= Q2R atol)%R.
Proof.
  induction A as [|x A IH]; intros [|y B] H i j Hi Hj; try discriminate H; [cbn in Hi; lia|].
  cbn [rows_close] in H. apply andb_true_iff in H. destruct H as [H1 H2]. destruct i.
  - rewrite !mfun_map_Q2R. cbn [nth] in *. apply (q_list_close_R atol x y H1 j Hj).
  - unfold mfun in *. cbn [map nth] in *. apply (IH B H2 i j); [cbn in Hi; lia | exact Hj].
Qed.
Lemma identity_entry k a b : (a < k)%nat -> (b < k)%nat -> mfun (map (map Q2R) (identity_mat Qops k)) a b = delta a b.
Proof.
  intros Ha Hb. rewrite mfun_map_Q2R. unfold identity_mat.
  rewrite (nth_map_lt _ (seq 0 k) a 0%nat []) by (rewrite seq_length; exact Ha).
  rewrite (nth_map_lt _ (seq 0 k) b 0%nat 0%Q) by (rewrite seq_length; exact Hb).
  rewrite !seq_nth by assumption. cbn [Nat.add]. unfold delta.
  destruct (Nat.eqb a b) eqn:E; [apply Nat.eqb_eq in E | apply Nat.eqb_neq in E]; destruct (Nat.eq_dec a b); try contradiction; cbn [f0 f1 Qops].
  - unfold Q2R. cbn. lra.
  - apply Q2R_zero.
Qed.

Open Scope R_scope.
Lemma gram_cols_entry m k U a b : (1 <= m)%nat -> (1 <= k)%nat -> rect m k U -> (a < k)%nat -> (b < k)%nat ->
  mfun (gram_cols Rops U) a b = gram m (mfun U) a b.
Proof.
  intros Hm Hk RU Ha Hb. unfold gram_cols, gram.
  rewrite (mat_mul_entry k m k (cols_of Rops U) U a b Hm (cols_of_rect m k U Hm RU) RU Ha Hb).
  apply rsum_ext; intros i Hi. unfold mfun. rewrite (cols_of_nth m k U i a Hm RU Hi Ha). reflexivity.
Qed.
Lemma gram_rows_entry n k V a b : (1 <= n)%nat -> (1 <= k)%nat -> rect k n V -> (a < k)%nat -> (b < k)%nat ->
  mfun (gram_rows Rops V) a b = gram n (fun j l => mfun V l j) a b.
Proof.
  intros Hn Hk RV Ha Hb. unfold gram_rows, gram.
  rewrite (mat_mul_entry k n k V (cols_of Rops V) a b Hn RV (cols_of_rect k n V Hk RV) Ha Hb).
  apply rsum_ext; intros j Hj. unfold mfun. rewrite (cols_of_nth k n V b j Hk RV Hb Hj). reflexivity.
Qed.

(* the Boolean the correspondence computes implies the hypothesis of the perturbation theorems *)
Theorem gram_cols_close_aocols m k (U : list (list Q)) (e : Q) : (1 <= m)%nat -> (1 <= k)%nat -> rect m k (map (map Q2R) U) ->
  rows_close e 0 (gram_cols Qops U) (identity_mat Qops k) = true -> aocols m k (Q2R e) (mfun (map (map Q2R) U)).
Proof.
  intros Hm Hk RU H a b Ha Hb.
  assert (RG : rect k k (gram_cols Rops (map (map Q2R) U))).
  { unfold gram_cols. apply (mat_mul_rect k m k); [exact Hm | apply cols_of_rect; assumption | exact RU]. }
  rewrite <- gram_cols_transfer in RG. destruct RG as [LG FG]. rewrite map_length in LG.
  assert (Lrow : length (nth a (gram_cols Qops U) []) = k).
  { rewrite Forall_forall in FG. specialize (FG (map Q2R (nth a (gram_cols Qops U) []))). rewrite map_length in FG. apply FG.
    apply in_map, nth_In. lia. }
  pose proof (rows_close_R e _ _ H a b ltac:(lia) ltac:(lia)) as B.
  rewrite gram_cols_transfer, (gram_cols_entry m k _ a b Hm Hk RU Ha Hb), (identity_entry k a b Ha Hb) in B. exact B.
Qed.
Theorem gram_rows_close_aocols n k (V : list (list Q)) (e : Q) : (1 <= n)%nat -> (1 <= k)%nat -> rect k n (map (map Q2R) V) ->
  rows_close e 0 (gram_rows Qops V) (identity_mat Qops k) = true -> aocols n k (Q2R e) (fun j l => mfun (map (map Q2R) V) l j).
Proof.
  intros Hn Hk RV H a b Ha Hb.
  assert (RG : rect k k (gram_rows Rops (map (map Q2R) V))).
  { unfold gram_rows. apply (mat_mul_rect k n k); [exact Hn | exact RV | apply cols_of_rect; assumption]. }
  rewrite <- gram_rows_transfer in RG. destruct RG as [LG FG]. rewrite map_length in LG.
  assert (Lrow : length (nth a (gram_rows Qops V) []) = k).
  { rewrite Forall_forall in FG. specialize (FG (map Q2R (nth a (gram_rows Qops V) []))). rewrite map_length in FG. apply FG.
    apply in_map, nth_In. lia. }
  pose proof (rows_close_R e _ _ H a b ltac:(lia) ltac:(lia)) as B.
  rewrite gram_rows_transfer, (gram_rows_entry n k _ a b Hn Hk RV Ha Hb), (identity_entry k a b Ha Hb) in B. exact B.
Qed.

(* ---------- the per-case certificate.  Everything on the left of the implication is a Boolean evaluated on the case's rational data. *)
Lemma rectb_rect m n A : rectb m n A = true -> rect m n (map (map Q2R) A).
Proof.
  unfold rectb. intros H. apply andb_true_iff in H. destruct H as [H1 H2]. apply Nat.eqb_eq in H1. rewrite forallb_forall in H2.
  split; [rewrite map_length; exact H1|]. apply Forall_forall. intros r Hr. apply in_map_iff in Hr. destruct Hr as (r0 & <- & Hin).
  rewrite map_length. apply Nat.eqb_eq, H2, Hin.
Qed.
Theorem svt_case_certified (m n k : nat) (U : list (list Q)) (s : list Q) (V M : list (list Q)) (t : Q) :
  svt_case_ok m n k U s V M t = true ->
  forall (Z : nat -> nat -> R) (nu : R), nuc_le m n Z nu ->
  let e := (1 # 1000000000)%Q in
  let X := mfun (map (map Q2R) (svd_thresholding_with Qops U s V t)) in
  nuc_le m n X ((1 + Q2R e) * lsum Rops (soft_thresholding Rops (Q2R t) (map Q2R s))) /\
  Q2R t * ((1 + Q2R e) * lsum Rops (soft_thresholding Rops (Q2R t) (map Q2R s))) + fro2 m n X (mfun (map (map Q2R) M)) / 2
  <= Q2R t * nu + fro2 m n Z (mfun (map (map Q2R) M)) / 2 + Q2R (svt_gap Qops e U s V t M).
Proof.
  intros H Z nu HZ e X. unfold svt_case_ok in H.
  repeat rewrite andb_true_iff in H.
  destruct H as [[[[[[[[[[[Hm Hn] Hk] Hk2] HU] Hs] HV] HM] Hs0] Ht] GU] GV].
  apply Nat.leb_le in Hm. apply Nat.leb_le in Hn. apply Nat.leb_le in Hk. apply Nat.ltb_lt in Hk2.
  pose proof (rectb_rect _ _ _ HU) as RU. apply Nat.eqb_eq in Hs. pose proof (rectb_rect _ _ _ HV) as RV. pose proof (rectb_rect _ _ _ HM) as RM.
  apply (svt_gap_exec_sound m n k U s V M e t); auto.
  - apply gram_cols_close_aocols; assumption.
  - apply gram_rows_close_aocols; assumption.
  - assert (INR k < 1000) by (replace 1000 with (INR 1000) by (simpl; lra); apply lt_INR; exact Hk2).
    assert (Ee : Q2R e = / 1000000000) by (unfold e, Q2R; cbn; lra).
    rewrite Ee. assert (0 <= INR k) by apply pos_INR. lra.
  - apply Forall_forall. intros x Hx. apply in_map_iff in Hx. destruct Hx as (q & <- & Hq). rewrite forallb_forall in Hs0.
    specialize (Hs0 q Hq). apply Qle_bool_iff, Qle_Rle in Hs0. rewrite Q2R_zero in Hs0. exact Hs0.
  - apply Qle_bool_iff, Qle_Rle in Ht. rewrite Q2R_zero in Ht. exact Ht.
Qed.

(* ---------- procrustes: the same per-case certificate *)
Parametricity Recursive procrustes_gap.
Parametricity Recursive procrustes_with.
Lemma procrustes_gap_transfer e d U s V M :
  Q2R (procrustes_gap Qops e d U s V M)
  = procrustes_gap Rops (Q2R e) (Q2R d) (map (map Q2R) U) (map Q2R s) (map (map Q2R) V) (map (map Q2R) M).
Proof.
  exact (procrustes_gap_R Q R QR Qops Rops ops_rel e _ (QR_refl e) d _ (QR_refl d) U _ (list_list_R_of_map U) s _ (list_R_of_map s)
                          V _ (list_list_R_of_map V) M _ (list_list_R_of_map M)).
Qed.
Lemma procrustes_transfer U V : map (map Q2R) (procrustes_with Qops U V) = procrustes_with Rops (map (map Q2R) U) (map (map Q2R) V).
Proof. apply list_list_R_map. apply procrustes_with_R; [apply ops_rel | apply list_list_R_of_map | apply list_list_R_of_map]. Qed.
Theorem procrustes_case_certified (m n k : nat) (U : list (list Q)) (s : list Q) (V M : list (list Q)) (d : Q) :
  procrustes_case_ok m n k U s V M d = true ->
  forall Qm : nat -> nat -> R, ocols m n Qm \/ ocols n m (fun j i => Qm i j) ->
  frob m n Qm (mfun (map (map Q2R) M))
  <= frob m n (mfun (map (map Q2R) (procrustes_with Qops U V))) (mfun (map (map Q2R) M))
     + Q2R (procrustes_gap Qops (1 # 1000000000) d U s V M).
Proof.
  intros H Qm HQ. unfold procrustes_case_ok in H. repeat rewrite andb_true_iff in H.
  destruct H as [[[[[[[[[[Hm Hn] Hk] HU] Hs] HV] HM] Hs0] Hd] GU] GV].
  apply Nat.leb_le in Hm. apply Nat.leb_le in Hn. apply Nat.leb_le in Hk.
  pose proof (rectb_rect _ _ _ HU) as RU. apply Nat.eqb_eq in Hs. pose proof (rectb_rect _ _ _ HV) as RV. pose proof (rectb_rect _ _ _ HM) as RM.
  rewrite procrustes_transfer, procrustes_gap_transfer.
  assert (Ls' : length (map Q2R s) = k) by (rewrite map_length; exact Hs).
  apply (procrustes_gap_sound m n k _ _ _ _ (Q2R (1 # 1000000000)) (Q2R d) Hm Hk RU Ls' RV RM); auto.
  - apply gram_cols_close_aocols; assumption.
  - apply gram_rows_close_aocols; assumption.
  - apply Forall_forall. intros x Hx. apply in_map_iff in Hx. destruct Hx as (q & <- & Hq). rewrite forallb_forall in Hs0.
    specialize (Hs0 q Hq). apply Qle_bool_iff, Qle_Rle in Hs0. rewrite Q2R_zero in Hs0. exact Hs0.
  - apply negb_true_iff in Hd. destruct (Qlt_le_dec 0 d) as [L|L]; [apply Qlt_Rlt in L; rewrite Q2R_zero in L; exact L|].
    apply Qle_bool_iff in L. congruence.
Qed.
