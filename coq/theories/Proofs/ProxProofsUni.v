(* unimodality_prox: what does hold.  The output column is assembled as
     (increasing fit)[:m] ++ [v_m] ++ (decreasing fit)[m+1:]
   for the selected index m; whenever m is a flagged peak candidate (v_m >= both fits at m - the rows the code marks with
   values == 1) the assembled column is unimodal with mode m. *)
From Coq Require Import List Reals Lra Psatz Lia Bool.
From TLV Require Import Base.Ops Model.Prox Proofs.ProxProofs Proofs.ProxProofsHard Proofs.ProxProofsSimplex Proofs.ProxProofsMono Proofs.ProxProofsIso.
Import ListNotations.
Open Scope R_scope.

(* rises (weakly) up to position m, falls (weakly) from position m on *)
Definition unimodal_at (m : nat) (l : list R) : Prop := ndec (firstn (S m) l) /\ ndec (rev (skipn m l)).
Definition unimodalP (l : list R) : Prop := exists m, unimodal_at m l.

Lemma ndec_tail a l : ndec (a :: l) -> ndec l.
Proof. destruct l as [|b l]; [intros; exact I | intros [_ H]; exact H]. Qed.
Lemma ndec_firstn : forall k l, ndec l -> ndec (firstn k l).
Proof.
  induction k as [|k IH]; intros l H; [exact I|]. destruct l as [|a l]; [exact I|].
  cbn [firstn]. pose proof (IH l (ndec_tail a l H)) as Ht.
  destruct k as [|k]; [exact I|]. destruct l as [|b l]; [exact I|]. cbn [firstn] in *. destruct H as [Hab _]. split; assumption.
Qed.
Lemma ndec_nth_le : forall l i j, ndec l -> (i <= j < length l)%nat -> nth i l 0 <= nth j l 0.
Proof.
  induction l as [|a l IH]; intros i j H Hij; [cbn in Hij; lia|].
  destruct j as [|j]; [replace i with O by lia; lra|].
  destruct i as [|i].
  - cbn [nth]. destruct l as [|b l]; [cbn in Hij; lia|]. destruct H as [Hab H].
    pose proof (IH O j H ltac:(cbn [length] in *; lia)) as H0. cbn [nth] in H0. cbn [nth]. lra.
  - cbn [nth]. apply IH; [apply (ndec_tail a), H | cbn [length] in Hij; lia].
Qed.
Lemma In_firstn_nth (l : list R) k e : In e (firstn k l) -> exists i, (i < k)%nat /\ (i < length l)%nat /\ nth i l 0 = e.
Proof.
  revert l. induction k as [|k IH]; intros l H; [destruct H|]. destruct l as [|a l]; [destruct H|].
  destruct H as [<-|H]; [exists O; cbn; repeat split; lia|].
  destruct (IH l H) as (i & Hi & Hl & E). exists (S i). cbn. repeat split; [lia | lia | exact E].
Qed.

Lemma peak_flag_nth v inc dec m : length inc = length v -> length dec = length v -> (m < length v)%nat ->
  nth m (peak_flags Rops v inc dec) false = true -> nth m dec 0 <= nth m v 0 /\ nth m inc 0 <= nth m v 0.
Proof.
  intros Li Ld Hm. unfold peak_flags.
  rewrite (nth_map_lt _ _ _ (0, (0, 0))) by (rewrite !combine_length; lia).
  rewrite !combine_nth by (rewrite ?combine_length; lia). cbn [fst snd].
  rewrite andb_true_iff. cbn [fleb fsub f0 Rops]. rewrite !Rleb_true. lra.
Qed.

Theorem uni_assemble_unimodal v m : (m < length v)%nat ->
  nth m (fst (uni_scores Rops v)) false = true -> unimodal_at m (uni_assemble Rops m v).
Proof.
  intros Hm Hflag. unfold uni_scores in Hflag. cbn [fst] in Hflag.
  set (inc := monotone_inc Rops v) in *. set (dec := monotonicity_prox Rops true v) in *.
  assert (Li : length inc = length v) by apply monotone_inc_length.
  assert (Ld : length dec = length v) by apply (monotone_length true).
  destruct (peak_flag_nth v inc dec m Li Ld Hm Hflag) as [Hd Hi].
  assert (Hinc : ndec inc) by apply monotone_inc_feasible.
  assert (Hdec : ndec (rev dec)) by apply monotone_dec_feasible.
  unfold uni_assemble. fold inc dec.
  assert (Lf : length (firstn m inc) = m) by (apply firstn_length_le; lia).
  assert (Ev : firstn 1 (skipn m v) = [nth m v 0]).
  { rewrite <- (firstn_skipn m v) at 2. rewrite app_nth2 by (rewrite firstn_length_le; lia).
    rewrite firstn_length_le, Nat.sub_diag by lia.
    destruct (skipn m v) as [|a r] eqn:E; [|reflexivity].
    apply (f_equal (@length R)) in E. rewrite skipn_length in E. cbn in E. lia. }
  rewrite Ev. split.
  - (* rising part *)
    replace (S m) with (m + 1)%nat by lia.
    rewrite firstn_app, Lf. replace (m + 1 - m)%nat with 1%nat by lia.
    rewrite (firstn_all2 (firstn m inc)) by lia. cbn [app firstn].
    apply ndec_app; [apply ndec_firstn, Hinc | exact I |].
    intros e f He [<-|[]]. destruct (In_firstn_nth inc m e He) as (i & Hi1 & Hi2 & <-).
    pose proof (ndec_nth_le inc i m Hinc ltac:(lia)). lra.
  - (* falling part *)
    rewrite skipn_app, Lf, Nat.sub_diag, skipn_O. rewrite (skipn_all2 (firstn m inc)) by lia. cbn [app].
    change (rev (nth m v 0 :: skipn (S m) dec)) with (rev (skipn (S m) dec) ++ [nth m v 0]).
    assert (Er : rev (skipn (S m) dec) = firstn (length v - S m) (rev dec)).
    { rewrite <- (rev_involutive dec) at 1. rewrite skipn_rev, rev_involutive, rev_length, Ld. reflexivity. }
    rewrite Er. apply ndec_app; [apply ndec_firstn, Hdec | exact I |].
    intros e f He [<-|[]]. destruct (In_firstn_nth (rev dec) _ e He) as (i & Hi1 & Hi2 & <-).
    rewrite rev_length, Ld in Hi2.
    pose proof (ndec_nth_le (rev dec) i (length v - S m) Hdec ltac:(rewrite rev_length; lia)) as H.
    assert (E2 : nth (length v - S m) (rev dec) 0 = nth m dec 0).
    { rewrite rev_nth by lia. rewrite Ld. f_equal. lia. }
    rewrite E2 in H. lra.
Qed.
Corollary uni_assemble_feasible v m : (m < length v)%nat ->
  nth m (fst (uni_scores Rops v)) false = true -> unimodalP (uni_assemble Rops m v).
Proof. intros H1 H2. exists m. apply uni_assemble_unimodal; assumption. Qed.

(* the coded operator on one column *)
Definition uni_choice1 (v : list R) : nat :=
  let sc := uni_scores Rops v in
  let gmax := match snd sc with [] => 0 | x :: r => maxl Rops x r end in
  argmin Rops (uni_difference gmax sc).
Lemma unimodality_single v : unimodality_cols Rops [v] = [uni_assemble Rops (uni_choice1 v) v].
Proof. unfold unimodality_cols, uni_choice1. cbn [map combine concat fst snd]. rewrite app_nil_r. reflexivity. Qed.
Theorem unimodal_feasible_partial v : (uni_choice1 v < length v)%nat ->
  nth (uni_choice1 v) (fst (uni_scores Rops v)) false = true ->
  unimodalP (hd [] (unimodality_cols Rops [v])).
Proof. intros H1 H2. rewrite unimodality_single. cbn [hd]. apply uni_assemble_feasible; assumption. Qed.
