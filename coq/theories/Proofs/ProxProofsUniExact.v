(* Exactness of the candidate repair of unimodality_prox (Model/ProxUniExact.v): the returned column is unimodal, is a nearest unimodal
   vector, and a unimodal column is returned unchanged.  Supports build/fix_candidates/C12_unimodality_exact.*; not a statement about the
   current code (Props/C12.v does not use it). *)
From Coq Require Import List Reals Lra Psatz Lia Bool.
From TLV Require Import Base.Ops Model.Prox Model.ProxUniExact Proofs.ProxProofs Proofs.ProxProofsMono Proofs.ProxProofsIso Proofs.ProxProofsUni
  Proofs.ConstraintsProofsUni.
Import ListNotations.
Open Scope R_scope.

(* ---- the first arg-min is a minimum *)
Lemma argmin_from_min : forall l best bi i, (bi < i)%nat ->
  let m := argmin_from Rops best bi i l in
  (m = bi /\ forall x, In x l -> best <= x) \/
  ((i <= m)%nat /\ (m - i < length l)%nat /\ nth (m - i) l 0 <= best /\ forall x, In x l -> nth (m - i) l 0 <= x).
Proof.
  induction l as [|x r IH]; intros best bi i Hb; cbn [argmin_from].
  - left. split; [reflexivity | intros y []].
  - unfold fltb. cbn [fleb Rops]. destruct (Rleb best x) eqn:E; cbn [negb].
    + apply Rleb_true in E. destruct (IH best bi (S i) ltac:(lia)) as [(Hm & Ha) | (Hi & Hl & Hle & Ha)].
      * left. split; [exact Hm|]. intros y [<-|Hy]; [exact E | apply Ha, Hy].
      * right. set (m := argmin_from Rops best bi (S i) r) in *.
        replace (m - i)%nat with (S (m - S i)) by lia. cbn [nth length].
        split; [lia|]. split; [lia|]. split; [exact Hle|]. intros y [<-|Hy]; [lra | apply Ha, Hy].
    + apply Rleb_false in E. destruct (IH x i (S i) ltac:(lia)) as [(Hm & Ha) | (Hi & Hl & Hle & Ha)].
      * right. rewrite Hm, Nat.sub_diag. cbn [nth length]. split; [lia|]. split; [lia|]. split; [lra|].
        intros y [<-|Hy]; [lra | apply Ha, Hy].
      * right. set (m := argmin_from Rops x i (S i) r) in *.
        replace (m - i)%nat with (S (m - S i)) by lia. cbn [nth length].
        split; [lia|]. split; [lia|]. split; [lra|]. intros y [<-|Hy]; [lra | apply Ha, Hy].
Qed.
Lemma argmin_min l : l <> [] -> (argmin Rops l < length l)%nat /\ forall x, In x l -> nth (argmin Rops l) l 0 <= x.
Proof.
  destruct l as [|x r]; [congruence|]. intros _. cbn [argmin].
  destruct (argmin_from_min r x 0%nat 1%nat ltac:(lia)) as [(Hm & Ha) | (Hi & Hl & Hle & Ha)]; cbv zeta in *.
  - rewrite Hm. cbn [length nth]. split; [lia|]. intros y [<-|Hy]; [lra | apply Ha, Hy].
  - set (m := argmin_from Rops x 0 1 r) in *. destruct m as [|m]; [lia|].
    replace (S m - 1)%nat with m in * by lia. cbn [nth length]. split; [lia|]. intros y [<-|Hy]; [exact Hle | apply Ha, Hy].
Qed.

(* ---- every candidate is unimodal *)
Lemma ndec_short (l : list R) : (length l <= 1)%nat -> ndec l.
Proof. destruct l as [|a [|b l]]; cbn; intros H; try exact I; lia. Qed.
Lemma ndec_all_le_last a x : ndec (a ++ [x]) -> forall e, In e (a ++ [x]) -> e <= x.
Proof. intros H e He. apply in_app_or in He. destruct He as [He|[<-|[]]]; [apply (ndec_last_ge a x H e He) | lra]. Qed.
Lemma uni_split_length m v : length (uni_split Rops m v) = length v.
Proof.
  unfold uni_split. rewrite app_length, monotone_inc_length, (monotone_length true), firstn_length, skipn_length. lia.
Qed.
Theorem uni_split_unimodal m v : (m < length v)%nat -> unimodalP (uni_split Rops m v).
Proof.
  intros Hm. unfold uni_split. set (a := monotone_inc Rops (firstn (S m) v)). set (b := monotonicity_prox Rops true (skipn (S m) v)).
  assert (La : length a = S m) by (unfold a; rewrite monotone_inc_length, firstn_length; lia).
  assert (Na : ndec a) by apply monotone_inc_feasible.
  assert (Nb : ndec (rev b)) by apply monotone_dec_feasible.
  assert (Hne : a <> []) by (intros E; rewrite E in La; discriminate La).
  destruct (exists_last Hne) as (a' & x & Ea). rewrite Ea in *.
  assert (La' : length a' = m) by (rewrite app_length in La; cbn in La; lia).
  assert (Hfirst : forall r, firstn (S m) ((a' ++ [x]) ++ r) = a' ++ [x]).
  { intros r. replace (S m) with (length (a' ++ [x]) + 0)%nat by (rewrite app_length; cbn; lia). rewrite firstn_app_2. cbn [firstn]. apply app_nil_r. }
  assert (Hskip : forall r, skipn m ((a' ++ [x]) ++ r) = x :: r).
  { intros r. rewrite <- !app_assoc. rewrite skipn_app, La', Nat.sub_diag. rewrite <- La' at 1. rewrite skipn_all. reflexivity. }
  destruct b as [|y b'].
  - exists m. split; [rewrite Hfirst; exact Na | rewrite Hskip; apply ndec_short; cbn; lia].
  - destruct (Rle_dec y x) as [Hyx|Hyx].
    + exists m. split; [rewrite Hfirst; exact Na|]. rewrite Hskip. cbn [rev].
      change (rev (x :: y :: b')) with (rev (y :: b') ++ [x]). apply ndec_app; [exact Nb | exact I|].
      intros e f He [<-|[]]. cbn [rev] in Nb, He. apply in_app_or in He. destruct He as [He|[<-|[]]]; [|exact Hyx].
      apply Rle_trans with y; [|exact Hyx]. apply (ndec_last_ge (rev b') y Nb e He).
    + exists (S m). split.
      * replace (S (S m)) with (length (a' ++ [x]) + 1)%nat by (rewrite app_length; cbn; lia). rewrite firstn_app_2. cbn [firstn].
        apply ndec_app; [exact Na | exact I|]. intros e f He [<-|[]]. pose proof (ndec_all_le_last a' x Na e He). lra.
      * replace (S m) with (length (a' ++ [x]) + 0)%nat by (rewrite app_length; cbn; lia). rewrite skipn_app.
        rewrite skipn_all2 by lia. replace (length (a' ++ [x]) + 0 - length (a' ++ [x]))%nat with O by lia. exact Nb.
Qed.

Lemma skipn_S_tl {A} : forall p (l : list A), skipn (S p) l = skipn 1 (skipn p l).
Proof. induction p as [|p IH]; intros l; [reflexivity|]. destruct l as [|a l]; [reflexivity|]. cbn [skipn] in *. apply (IH l). Qed.
(* ---- a unimodal competitor is no nearer than the candidate split after its mode *)
Lemma split_beats_unimodal v z p : v <> [] -> length z = length v -> unimodal_at p z ->
  exists m, (m < length v)%nat /\ dist2 Rops (uni_split Rops m v) v <= dist2 Rops z v.
Proof.
  intros Hv L [Hup Hdown]. assert (Hn : (0 < length v)%nat) by (destruct v; [congruence | cbn; lia]).
  set (m := Nat.min p (length v - 1)). exists m. split; [unfold m; lia|].
  assert (Nz1 : ndec (firstn (S m) z)).
  { assert (Em : Nat.min (S m) (S p) = S m) by (unfold m; lia).
    rewrite <- Em, <- firstn_firstn. apply ndec_firstn, Hup. }
  assert (Nz2 : ndec (rev (skipn (S m) z))).
  { destruct (Nat.lt_ge_cases p (length v)) as [Hp|Hp].
    - assert (Emp : m = p) by (unfold m; lia). rewrite Emp, skipn_S_tl.
      apply skipn_rev_ndec, Hdown.
    - rewrite skipn_all2 by (unfold m; lia). exact I. }
  unfold uni_split.
  assert (Lf : length (firstn (S m) z) = length (firstn (S m) v)) by (rewrite !firstn_length, L; reflexivity).
  assert (Ls : length (skipn (S m) z) = length (skipn (S m) v)) by (rewrite !skipn_length, L; reflexivity).
  pose proof (monotone_inc_optimal (firstn (S m) v) (firstn (S m) z) Lf Nz1) as H1.
  pose proof (monotone_dec_optimal (skipn (S m) v) (skipn (S m) z) Ls Nz2) as H2.
  assert (G : dist2 Rops (monotone_inc Rops (firstn (S m) v) ++ monotonicity_prox Rops true (skipn (S m) v)) (firstn (S m) v ++ skipn (S m) v)
              <= dist2 Rops (firstn (S m) z ++ skipn (S m) z) (firstn (S m) v ++ skipn (S m) v)).
  { rewrite (dist2_app (firstn (S m) z) (firstn (S m) v)) by exact Lf. rewrite dist2_app by (rewrite monotone_inc_length; reflexivity). lra. }
  rewrite !firstn_skipn in G. exact G.
Qed.

(* ---- the candidate operator: unimodal, nearest, fixes unimodal columns *)
Lemma uni_exact_is_split v : v <> [] -> exists m, (m < length v)%nat /\ uni_exact Rops v = uni_split Rops m v /\
  forall j, (j < length v)%nat -> dist2 Rops (uni_split Rops m v) v <= dist2 Rops (uni_split Rops j v) v.
Proof.
  intros Hv. assert (Hn : (0 < length v)%nat) by (destruct v; [congruence | cbn; lia]).
  unfold uni_exact. set (cands := uni_candidates Rops v). set (ds := map (fun c => dist2 Rops c v) cands).
  assert (Lc : length cands = length v) by (unfold cands, uni_candidates; rewrite map_length, seq_length; reflexivity).
  assert (Ld : length ds = length v) by (unfold ds; rewrite map_length; exact Lc).
  assert (Hds : ds <> []) by (intros E; rewrite E in Ld; cbn in Ld; lia).
  destruct (argmin_min ds Hds) as [Hlt Hmin]. set (m := argmin Rops ds) in *. rewrite Ld in Hlt.
  assert (Hc : forall j, (j < length v)%nat -> nth j cands v = uni_split Rops j v).
  { intros j Hj. unfold cands, uni_candidates. rewrite (nth_map_lt _ _ _ O) by (rewrite seq_length; exact Hj). rewrite seq_nth by exact Hj. reflexivity. }
  assert (Hd : forall j, (j < length v)%nat -> nth j ds 0 = dist2 Rops (uni_split Rops j v) v).
  { intros j Hj. unfold ds. rewrite (nth_map_lt _ _ _ v) by lia. rewrite Hc by exact Hj. reflexivity. }
  exists m. split; [exact Hlt|]. split; [apply Hc, Hlt|]. intros j Hj. rewrite <- (Hd m Hlt), <- (Hd j Hj). apply Hmin, nth_In. lia.
Qed.
Theorem uni_exact_unimodal v : unimodalP (uni_exact Rops v) /\ length (uni_exact Rops v) = length v.
Proof.
  destruct v as [|a v']; [split; [exists O; split; exact I | reflexivity]|].
  destruct (uni_exact_is_split (a :: v') ltac:(discriminate)) as (m & Hm & E & _). rewrite E.
  split; [apply uni_split_unimodal, Hm | apply uni_split_length].
Qed.
Theorem uni_exact_nearest v z : length z = length v -> unimodalP z -> dist2 Rops (uni_exact Rops v) v <= dist2 Rops z v.
Proof.
  intros L [p Hp]. destruct v as [|a v'].
  - destruct z; [cbn; lra | discriminate L].
  - destruct (uni_exact_is_split (a :: v') ltac:(discriminate)) as (m & Hm & E & Hbest). rewrite E.
    destruct (split_beats_unimodal (a :: v') z p ltac:(discriminate) L Hp) as (j & Hj & Hle). pose proof (Hbest j Hj). lra.
Qed.
Theorem uni_exact_fixes_unimodal v : unimodalP v -> uni_exact Rops v = v.
Proof.
  intros Hu. destruct (uni_exact_unimodal v) as [_ L]. apply ProxProofs.dist2_zero_eq; [exact L|].
  pose proof (uni_exact_nearest v v eq_refl Hu) as H. pose proof (ProxProofs.dist2_nonneg (uni_exact Rops v) v).
  assert (E : dist2 Rops v v = 0) by (clear; induction v as [|x v IH]; [reflexivity | rewrite dist2_cons, IH; ring]). lra.
Qed.
Corollary uni_exact_idempotent v : uni_exact Rops (uni_exact Rops v) = uni_exact Rops v.
Proof. apply uni_exact_fixes_unimodal, uni_exact_unimodal. Qed.
(* the witness of C12_unimodal_refuted is returned unchanged by the candidate (executed at Q) *)
Example uni_exact_witness :
  let q := fun n d => QArith_base.Qmake n d in
  let w := [q 12%Z 5%positive; q 17%Z 5%positive; q 17%Z 5%positive; q 17%Z 5%positive; q 5%Z 2%positive; q 3%Z 2%positive] in
  uni_exact Qops w = w.
Proof. vm_compute. reflexivity. Qed.
