(* Executed instance = proved instance for proximal_operator's own body: the dispatch model run at Q (what the correspondence
   evaluates) and mapped into R is the dispatch model at R on the mapped tensor (Paramcoq free theorem of prun + case analysis). *)
From Coq Require Import List QArith Reals Lra Qreals Bool.
From Param Require Import Param.
From TLV Require Import Base.Ops Base.Tensor Base.Transfer Model.Prox Model.Constraints Model.ProxDispatch Proofs.ProxTransfer Proofs.ProxProofsMatrix Proofs.ProxProofsRun.
Import ListNotations.

Parametricity Recursive prun. Check prun_R.

Definition pop_map (o : @pop Q) : @pop R :=
  match o with
  | PNonneg => PNonneg | PSoft t => PSoft (Q2R t) | PL2 t s => PL2 (Q2R t) (Q2R s) | PL2sq t => PL2sq (Q2R t) | PUnimodal => PUnimodal
  | PNormalize => PNormalize | PSimplex p => PSimplex (Q2R p) | PNormSparsity k s => PNormSparsity k (Q2R s)
  | PSoftSparsity p => PSoftSparsity (Q2R p) | PSmooth t => PSmooth (Q2R t) | PMonotone d => PMonotone d | PHard k => PHard k
  | PIdentity => PIdentity
  end.
Lemma pop_rel o : pop_R Q R QR o (pop_map o).
Proof. destruct o; cbn; constructor; try apply QR_refl; try apply nat_R_refl; try apply bool_R_refl. Qed.
Theorem prun_transfer o X : map (map Q2R) (prun Qops o X) = prun Rops (pop_map o) (map (map Q2R) X).
Proof. apply list_list_R_map. apply prun_R; [apply ops_rel | apply pop_rel | apply list_list_R_of_map]. Qed.
Lemma pop_of_transfer k p aux : pop_map (pop_of (fun q : Q => q) k p aux) = pop_of Q2R k p (Q2R aux).
Proof. destruct k; reflexivity. Qed.
Theorem proximal_operator_exec n order specs aux X Y :
  proximal_operator Qops (fun q : Q => q) n order specs aux X = Ok Y ->
  proximal_operator Rops Q2R n order specs (Q2R aux) (map (map Q2R) X) = Ok (map (map Q2R) Y).
Proof.
  unfold proximal_operator, selected_pop. destruct n as [n|]; [|intros H; injection H as <-; reflexivity].
  destruct (validate_kwargs n order specs) as [[[k p]|]|]; intros H; try discriminate H; injection H as <-; [|reflexivity].
  rewrite prun_transfer, pop_of_transfer. reflexivity.
Qed.

(* hence the end-to-end statement holds for the tensor the executed (rational) dispatch model computes *)
Lemma rect_map n c (X : list (list Q)) : length X = n -> Forall (fun r => length r = c) X -> rect n c (map (map Q2R) X).
Proof.
  intros L F. split; [rewrite map_length; exact L|]. rewrite Forall_forall in *. intros r Hr. apply in_map_iff in Hr.
  destruct Hr as (r0 & <- & Hin). rewrite map_length. apply F, Hin.
Qed.
Theorem proximal_operator_exec_sound n order specs aux nr nc (X Y : list (list Q)) : (1 <= nr)%nat -> (1 <= nc)%nat ->
  length X = nr -> Forall (fun r => length r = nc) X ->
  proximal_operator Qops (fun q : Q => q) (Some n) order specs aux X = Ok Y ->
  exists sel, validate_kwargs n order specs = Ok sel /\
    match sel with
    | None => Y = X
    | Some (k, p) => prox_spec k (Q2R p) (rank_bound p) (Q2R aux) (map (map Q2R) Y) (map (map Q2R) X)
    end.
Proof.
  intros Hn Hc L F H. pose proof (proximal_operator_exec _ _ _ _ _ _ H) as HR.
  destruct (proximal_operator_sound n order specs (Q2R aux) nr nc _ _ Hn Hc (rect_map nr nc X L F) HR) as (sel & Hv & Hs).
  exists sel. split; [exact Hv|]. destruct sel as [[k p]|]; [exact Hs|].
  revert H. unfold proximal_operator, selected_pop. rewrite Hv. intros H. injection H as <-. reflexivity.
Qed.
