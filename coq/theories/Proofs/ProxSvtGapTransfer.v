(* The gap bound of Model/ProxSvtGap.v evaluated at Q (what the correspondence computes per svd_thresholding case) and mapped into R is the
   gap bound at R on the mapped tape (Paramcoq free theorem); hence svt_gap_sound applies to the computed rational number. *)
From Coq Require Import List QArith Reals Lra Qreals Bool.
From Param Require Import Param.
From TLV Require Import Base.Ops Base.Transfer Model.Prox Model.ProxSvtGap Proofs.ProxProofsMatrix Proofs.ProxProofsSvt Proofs.ProxProofsSvtList
  Proofs.ProxProofsSvtPerturb Proofs.ProxProofsSvtGap Proofs.ProxTransfer.
Import ListNotations.

Parametricity Recursive svt_gap. Check svt_gap_R.
Parametricity Recursive svd_thresholding_with. Check svd_thresholding_with_R.

Lemma svt_gap_transfer e U s V t M :
  Q2R (svt_gap Qops e U s V t M) = svt_gap Rops (Q2R e) (map (map Q2R) U) (map Q2R s) (map (map Q2R) V) (Q2R t) (map (map Q2R) M).
Proof.
  exact (svt_gap_R Q R QR Qops Rops ops_rel e (Q2R e) (QR_refl e) U _ (list_list_R_of_map U) s _ (list_R_of_map s) V _ (list_list_R_of_map V)
                   t _ (QR_refl t) M _ (list_list_R_of_map M)).
Qed.
Lemma svt_transfer U s V t :
  map (map Q2R) (svd_thresholding_with Qops U s V t) = svd_thresholding_with Rops (map (map Q2R) U) (map Q2R s) (map (map Q2R) V) (Q2R t).
Proof.
  apply list_list_R_map. apply svd_thresholding_with_R; [apply ops_rel | apply list_list_R_of_map | apply list_R_of_map | apply list_list_R_of_map | apply QR_refl].
Qed.

Open Scope R_scope.
(* for the rational tape of a case: the matrix the executed model returns exceeds the minimum of the objective by at most the computed number *)
Theorem svt_gap_exec_sound (m n k : nat) (U : list (list Q)) (s : list Q) (V M : list (list Q)) (e t : Q) :
  (1 <= k)%nat -> rect m k (map (map Q2R) U) -> length s = k -> rect k n (map (map Q2R) V) -> rect m n (map (map Q2R) M) ->
  aocols m k (Q2R e) (mfun (map (map Q2R) U)) -> aocols n k (Q2R e) (fun j l => mfun (map (map Q2R) V) l j) -> INR k * Q2R e < 1 ->
  Forall (fun x => 0 <= x) (map Q2R s) -> 0 <= Q2R t ->
  forall (Z : nat -> nat -> R) (nu : R), nuc_le m n Z nu ->
  let X := mfun (map (map Q2R) (svd_thresholding_with Qops U s V t)) in
  nuc_le m n X ((1 + Q2R e) * lsum Rops (soft_thresholding Rops (Q2R t) (map Q2R s))) /\
  Q2R t * ((1 + Q2R e) * lsum Rops (soft_thresholding Rops (Q2R t) (map Q2R s))) + fro2 m n X (mfun (map (map Q2R) M)) / 2
  <= Q2R t * nu + fro2 m n Z (mfun (map (map Q2R) M)) / 2 + Q2R (svt_gap Qops e U s V t M).
Proof.
  intros Hk RU Ls RV RM HU HV He Hs Ht Z nu HZ X. unfold X. rewrite svt_transfer, svt_gap_transfer.
  assert (Ls' : length (map Q2R s) = k) by (rewrite map_length; exact Ls).
  split.
  - apply (svt_output_nuc_bound m n k _ _ _ (Q2R e) (Q2R t) Hk RU Ls' RV HU HV Hs Ht).
  - apply (svt_gap_sound m n k _ _ _ _ (Q2R e) (Q2R t) Hk RU Ls' RV RM HU HV He Hs Ht Z nu HZ).
Qed.
