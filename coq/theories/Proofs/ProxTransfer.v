(* Transfer between the EXECUTED instance of Model/Prox.v (Q, reduced after every operation: what the correspondence
   evaluates and compares with the implementation) and the instance the theorems are about (R), through Paramcoq's free
   theorems (Base/Transfer.v): for every operator, mapping the rational result into R gives the real-number model's result
   on the mapped inputs.  Hence the optimality / feasibility theorems hold for the values the correspondence computes. *)
From Coq Require Import List QArith Reals Lra Qreals Bool.
From Param Require Import Param.
From TLV Require Import Base.Ops Base.Transfer Model.Prox Proofs.ProxProofs Proofs.ProxProofsHard Proofs.ProxProofsSimplex Proofs.ProxProofsMono Proofs.ProxProofsIso Proofs.ProxProofsSmooth.
Import ListNotations.

Parametricity Recursive non_negative. Check non_negative_R.
Parametricity Recursive soft_thresholding. Check soft_thresholding_R.
Parametricity Recursive soft_thresholding_arr. Check soft_thresholding_arr_R.
Parametricity Recursive l2_square_prox. Check l2_square_prox_R.
Parametricity Recursive l2_prox_with. Check l2_prox_with_R.
Parametricity Recursive smoothness_solve. Check smoothness_solve_R.
Parametricity Recursive sm_apply. Check sm_apply_R.
Parametricity Recursive simplex_prox. Check simplex_prox_R.
Parametricity Recursive soft_sparsity_prox. Check soft_sparsity_prox_R.
Parametricity Recursive monotonicity_prox. Check monotonicity_prox_R.
Parametricity Recursive hard_thresholding. Check hard_thresholding_R.
Parametricity Recursive normalized_sparsity_with. Check normalized_sparsity_with_R.
Parametricity Recursive normalize. Check normalize_R.
Parametricity Recursive unimodality_cols. Check unimodality_cols_R.

Lemma non_negative_transfer v : map Q2R (non_negative Qops v) = non_negative Rops (map Q2R v).
Proof. apply list_R_map. apply non_negative_R; [apply ops_rel | apply list_R_of_map]. Qed.
Lemma soft_transfer t v : map Q2R (soft_thresholding Qops t v) = soft_thresholding Rops (Q2R t) (map Q2R v).
Proof. apply list_R_map. apply soft_thresholding_R; [apply ops_rel | apply QR_refl | apply list_R_of_map]. Qed.
Lemma soft_arr_transfer ts v : map Q2R (soft_thresholding_arr Qops ts v) = soft_thresholding_arr Rops (map Q2R ts) (map Q2R v).
Proof. apply list_R_map. apply soft_thresholding_arr_R; [apply ops_rel | apply list_R_of_map | apply list_R_of_map]. Qed.
Lemma l2sq_transfer t v : map Q2R (l2_square_prox Qops t v) = l2_square_prox Rops (Q2R t) (map Q2R v).
Proof. apply list_R_map. apply l2_square_prox_R; [apply ops_rel | apply QR_refl | apply list_R_of_map]. Qed.
Lemma l2_transfer s t v : map Q2R (l2_prox_with Qops s t v) = l2_prox_with Rops (Q2R s) (Q2R t) (map Q2R v).
Proof. apply list_R_map. apply l2_prox_with_R; [apply ops_rel | apply QR_refl | apply QR_refl | apply list_R_of_map]. Qed.
Lemma smoothness_solve_transfer t v : map Q2R (smoothness_solve Qops t v) = smoothness_solve Rops (Q2R t) (map Q2R v).
Proof. apply list_R_map. apply smoothness_solve_R; [apply ops_rel | apply QR_refl | apply list_R_of_map]. Qed.
Lemma sm_apply_transfer t prev x : map Q2R (sm_apply Qops t prev x) = sm_apply Rops (Q2R t) (Q2R prev) (map Q2R x).
Proof. apply list_R_map. apply sm_apply_R; [apply ops_rel | apply QR_refl | apply QR_refl | apply list_R_of_map]. Qed.
Lemma simplex_transfer p v : map Q2R (simplex_prox Qops p v) = simplex_prox Rops (Q2R p) (map Q2R v).
Proof. apply list_R_map. apply simplex_prox_R; [apply ops_rel | apply QR_refl | apply list_R_of_map]. Qed.
Lemma soft_sparsity_transfer p v : map Q2R (soft_sparsity_prox Qops p v) = soft_sparsity_prox Rops (Q2R p) (map Q2R v).
Proof. apply list_R_map. apply soft_sparsity_prox_R; [apply ops_rel | apply QR_refl | apply list_R_of_map]. Qed.
Lemma monotonicity_transfer d v : map Q2R (monotonicity_prox Qops d v) = monotonicity_prox Rops d (map Q2R v).
Proof. apply list_R_map. apply monotonicity_prox_R; [apply ops_rel | apply bool_R_refl | apply list_R_of_map]. Qed.
Lemma hard_transfer k v : map Q2R (hard_thresholding Qops k v) = hard_thresholding Rops k (map Q2R v).
Proof. apply list_R_map. apply hard_thresholding_R; [apply ops_rel | apply nat_R_refl | apply list_R_of_map]. Qed.
Lemma normalized_sparsity_transfer s k v :
  map Q2R (normalized_sparsity_with Qops s k v) = normalized_sparsity_with Rops (Q2R s) k (map Q2R v).
Proof. apply list_R_map. apply normalized_sparsity_with_R; [apply ops_rel | apply QR_refl | apply nat_R_refl | apply list_R_of_map]. Qed.
Lemma normalize_transfer v : map Q2R (normalize Qops v) = normalize Rops (map Q2R v).
Proof. apply list_R_map. apply normalize_R; [apply ops_rel | apply list_R_of_map]. Qed.
Lemma unimodality_transfer cols : map (map Q2R) (unimodality_cols Qops cols) = unimodality_cols Rops (map (map Q2R) cols).
Proof. apply list_list_R_map. apply unimodality_cols_R; [apply ops_rel | apply list_list_R_of_map]. Qed.

(* ---------- the theorems, stated for the values the executed (rational) instance computes *)
Open Scope R_scope.
Lemma map_neq_nil {A B} (f : A -> B) l : l <> [] -> map f l <> [].
Proof. destruct l; [contradiction | discriminate]. Qed.
Theorem simplex_exec_optimal (p : Q) (v : list Q) (z : list R) : 0 < Q2R p -> v <> [] ->
  length z = length v -> Forall (fun t => 0 <= t) z -> lsum Rops z = Q2R p ->
  Forall (fun x => 0 <= x) (map Q2R (simplex_prox Qops p v)) /\ lsum Rops (map Q2R (simplex_prox Qops p v)) = Q2R p /\
  dist2 Rops (map Q2R (simplex_prox Qops p v)) (map Q2R v) <= dist2 Rops z (map Q2R v).
Proof.
  intros Hp Hv Hl Hz Hs. rewrite simplex_transfer.
  pose proof (map_neq_nil Q2R v Hv) as Hv'.
  split; [apply simplex_nonneg|]. split; [apply simplex_sum; assumption|].
  apply simplex_optimal; auto. rewrite map_length. exact Hl.
Qed.
Theorem monotone_exec_optimal (v : list Q) (z : list R) : length z = length v -> ndec z ->
  ndec (map Q2R (monotonicity_prox Qops false v)) /\
  dist2 Rops (map Q2R (monotonicity_prox Qops false v)) (map Q2R v) <= dist2 Rops z (map Q2R v).
Proof.
  intros Hl Hz. rewrite monotonicity_transfer. split; [apply monotone_inc_feasible|].
  apply monotone_inc_optimal; [rewrite map_length; exact Hl | exact Hz].
Qed.
Theorem hard_exec_nearest (k : nat) (v : list Q) (z : list R) : length z = length v -> (nnzR z <= k)%nat ->
  (nnzR (map Q2R (hard_thresholding Qops k v)) <= k)%nat /\
  dist2 Rops (map Q2R (hard_thresholding Qops k v)) (map Q2R v) <= dist2 Rops z (map Q2R v).
Proof.
  intros Hl Hz. rewrite hard_transfer. split; [apply hard_sparse|].
  apply hard_nearest; [rewrite map_length; exact Hl | exact Hz].
Qed.
Theorem soft_exec_optimal (t : Q) (v : list Q) (z : list R) : 0 <= Q2R t -> length z = length v ->
  Q2R t * l1n Rops (map Q2R (soft_thresholding Qops t v)) + dist2 Rops (map Q2R (soft_thresholding Qops t v)) (map Q2R v) / 2
  <= Q2R t * l1n Rops z + dist2 Rops z (map Q2R v) / 2.
Proof. intros Ht Hl. rewrite soft_transfer. apply soft_optimal; [exact Ht | rewrite map_length; exact Hl]. Qed.

Theorem smooth_exec_optimal (t : Q) (v : list Q) (z : list R) : 0 <= Q2R t -> length z = length v ->
  sm_apply Rops (Q2R t) 0 (map Q2R (smoothness_solve Qops t v)) = map Q2R v /\
  smooth_obj (Q2R t) (map Q2R (smoothness_solve Qops t v)) (map Q2R v) <= smooth_obj (Q2R t) z (map Q2R v).
Proof.
  intros Ht Hl. rewrite smoothness_solve_transfer. split; [apply smoothness_solve_correct; exact Ht|].
  apply smoothness_solve_optimal; [exact Ht | rewrite map_length; exact Hl].
Qed.

Lemma transfer_closed_forms :
  (forall v, map Q2R (non_negative Qops v) = non_negative Rops (map Q2R v)) /\
  (forall t v, map Q2R (soft_thresholding Qops t v) = soft_thresholding Rops (Q2R t) (map Q2R v)) /\
  (forall ts v, map Q2R (soft_thresholding_arr Qops ts v) = soft_thresholding_arr Rops (map Q2R ts) (map Q2R v)) /\
  (forall t v, map Q2R (l2_square_prox Qops t v) = l2_square_prox Rops (Q2R t) (map Q2R v)) /\
  (forall s t v, map Q2R (l2_prox_with Qops s t v) = l2_prox_with Rops (Q2R s) (Q2R t) (map Q2R v)) /\
  (forall t v, map Q2R (smoothness_solve Qops t v) = smoothness_solve Rops (Q2R t) (map Q2R v)) /\
  (forall t prev x, map Q2R (sm_apply Qops t prev x) = sm_apply Rops (Q2R t) (Q2R prev) (map Q2R x)) /\
  (forall v, map Q2R (normalize Qops v) = normalize Rops (map Q2R v)).
Proof.
  repeat split; intros; [apply non_negative_transfer | apply soft_transfer | apply soft_arr_transfer | apply l2sq_transfer
    | apply l2_transfer | apply smoothness_solve_transfer | apply sm_apply_transfer | apply normalize_transfer].
Qed.
Lemma transfer_projections :
  (forall p v, map Q2R (simplex_prox Qops p v) = simplex_prox Rops (Q2R p) (map Q2R v)) /\
  (forall p v, map Q2R (soft_sparsity_prox Qops p v) = soft_sparsity_prox Rops (Q2R p) (map Q2R v)) /\
  (forall d v, map Q2R (monotonicity_prox Qops d v) = monotonicity_prox Rops d (map Q2R v)) /\
  (forall k v, map Q2R (hard_thresholding Qops k v) = hard_thresholding Rops k (map Q2R v)) /\
  (forall s k v, map Q2R (normalized_sparsity_with Qops s k v) = normalized_sparsity_with Rops (Q2R s) k (map Q2R v)) /\
  (forall cols, map (map Q2R) (unimodality_cols Qops cols) = unimodality_cols Rops (map (map Q2R) cols)).
Proof.
  repeat split; intros; [apply simplex_transfer | apply soft_sparsity_transfer | apply monotonicity_transfer | apply hard_transfer
    | apply normalized_sparsity_transfer | apply unimodality_transfer].
Qed.
