(* Lemmas about Model/Regress.v: ring regime (any commutative ring given as a record of operations
   satisfying ring_theory). *)
From Coq Require Import List Arith Lia Bool Ring.
From TLV Require Import Base.Shape Base.PyList Base.Tensor Base.BigSum Base.Ops Model.Base Proofs.BaseProofs Model.Regress.
Import ListNotations.

(* ---------- generic list / shape facts ---------- *)
Lemma lastn_0 {B} (l : list B) : lastn 0 l = [].
Proof. unfold lastn. rewrite Nat.sub_0_r. apply skipn_all. Qed.

Lemma inb_cons_inv d s idx : inb (d :: s) idx -> exists i r, idx = i :: r /\ i < d /\ inb s r.
Proof. destruct idx as [|i r]; simpl; [tauto|]. intros [H1 H2]. exists i, r. auto. Qed.

Lemma inb_nil_inv idx : inb [] idx -> idx = [].
Proof. destruct idx; simpl; tauto. Qed.

Section P.
Context {A : Type} (d : A).

Lemma moveaxis_same (t : tensor A) a : wf t -> a < ndim t -> moveaxis d t a a = t.
Proof.
  intros W Ha. unfold ndim in Ha.
  assert (Hs : shape (moveaxis d t a a) = shape t) by (rewrite shape_moveaxis; apply insert_remove; exact Ha).
  apply tensor_ext with (d := d); [apply wf_moveaxis | exact W | exact Hs |].
  intros idx Hi. rewrite Hs in Hi.
  assert (Hl : length idx = length (shape t)) by (apply inb_length; exact Hi).
  rewrite <- (insert_remove a idx 0) at 1 by lia.
  apply get_moveaxis; unfold ndim; auto.
Qed.

(* partial_tensor_to_vec(X) (skip_begin=1): the samples stay, each sample is vectorised row-major *)
Lemma ptv_eq (X : tensor A) n sx : wf X -> shape X = n :: sx -> sx <> [] -> 0 < n ->
  partial_tensor_to_vec d X 1 0 = Ok (reshape [n; prod sx] X).
Proof.
  intros W Hs Hsx Hn. unfold partial_tensor_to_vec, partial_unfold. rewrite Hs.
  assert (Hl : (0 + 1 <? length (n :: sx)) && (0 <=? length (n :: sx)) = true).
  { destruct sx; [congruence|]. reflexivity. }
  rewrite Hl. rewrite lastn_0. cbn [firstn map].
  rewrite moveaxis_same by (auto; unfold ndim; rewrite Hs; destruct sx; [congruence | simpl; lia]).
  change ([Some n] ++ [None] ++ []) with (map Some [n] ++ [None] ++ map Some (@nil nat)).
  assert (Hk : prod [n] * prod [] = n) by (cbn [prod fold_right]; lia).
  rewrite reshape_spec_one_none.
  - rewrite Hk, Hs. cbn [app]. change (prod (n :: sx)) with (n * prod sx).
    rewrite Nat.mul_comm, Nat.div_mul by lia. reflexivity.
  - rewrite Hk. lia.
  - rewrite Hk, Hs. change (prod (n :: sx)) with (n * prod sx). rewrite Nat.mul_comm. apply Nat.mod_mul. lia.
Qed.
End P.
