(* Lemmas about Model/Regress.v: ring regime (any commutative ring given as a record of operations
   satisfying ring_theory). *)
From Coq Require Import List Arith Lia Bool Ring.
From TLV Require Import Base.Shape Base.PyList Base.Tensor Base.BigSum Base.Ops Model.Base Proofs.BaseProofs Model.Regress.
Import ListNotations.

(* ---------- generic list / shape facts ---------- *)
Lemma lastn_0 {B} (l : list B) : lastn 0 l = [].
Proof. unfold lastn. rewrite Nat.sub_0_r. apply skipn_all. Qed.

Lemma inb_cons_inv d s idx : inb (d :: s) idx -> exists i r, idx = i :: r /\ i < d /\ inb s r.
Proof. destruct idx as [|i r]; simpl; [tauto|]. intros [H1 H2]. exists i, r. auto. Qed.

Lemma inb_nil_inv idx : inb [] idx -> idx = [].
Proof. destruct idx; simpl; tauto. Qed.

Section P.
Context {A : Type} (d : A).

Lemma moveaxis_same (t : tensor A) a : wf t -> a < ndim t -> moveaxis d t a a = t.
Proof.
  intros W Ha. unfold ndim in Ha.
  assert (Hs : shape (moveaxis d t a a) = shape t) by (rewrite shape_moveaxis; apply insert_remove; exact Ha).
  apply tensor_ext with (d := d); [apply wf_moveaxis | exact W | exact Hs |].
  intros idx Hi. rewrite Hs in Hi.
  assert (Hl : length idx = length (shape t)) by (apply inb_length; exact Hi).
  rewrite <- (insert_remove a idx 0) at 1 by lia.
  apply get_moveaxis; unfold ndim; auto.
Qed.

(* partial_tensor_to_vec(X) (skip_begin=1): the samples stay, each sample is vectorised row-major *)
Lemma ptv_eq (X : tensor A) n sx : wf X -> shape X = n :: sx -> sx <> [] -> 0 < n ->
  partial_tensor_to_vec d X 1 0 = Ok (reshape [n; prod sx] X).
Proof.
  intros W Hs Hsx Hn. unfold partial_tensor_to_vec, partial_unfold. rewrite Hs.
  assert (Hl : (0 + 1 <? length (n :: sx)) && (0 <=? length (n :: sx)) = true).
  { destruct sx; [congruence|]. reflexivity. }
  rewrite Hl. rewrite lastn_0. cbn [firstn map].
  assert (Hnd : 1 < ndim X) by (unfold ndim; rewrite Hs; destruct sx; [congruence | simpl; lia]).
  change (0 + 1) with 1. rewrite (moveaxis_same X 1 W Hnd).
  change ([Some n] ++ [None] ++ []) with (map Some [n] ++ [None] ++ map Some (@nil nat)).
  assert (Hk : prod [n] * prod [] = n) by (cbn [prod fold_right]; lia).
  rewrite reshape_spec_one_none.
  - rewrite Hk, Hs. cbn [app]. change (prod (n :: sx)) with (n * prod sx).
    rewrite Nat.mul_comm, Nat.div_mul by lia. reflexivity.
  - rewrite Hk. lia.
  - rewrite Hk, Hs. change (prod (n :: sx)) with (n * prod sx). rewrite Nat.mul_comm. apply Nat.mod_mul. lia.
Qed.
End P.

(* reshape with one leading -1 *)
Section Q.
Context {A : Type} (d : A).
Lemma reshape_lead_none (t : tensor A) (tail : list nat) : prod tail <> 0 -> prod (shape t) mod prod tail = 0 ->
  reshape_spec (None :: map Some tail) t = Ok (reshape (prod (shape t) / prod tail :: tail) t).
Proof.
  intros H0 Hm.
  change (None :: map Some tail) with (map Some (@nil nat) ++ [None] ++ map Some tail).
  assert (Hk : prod [] * prod tail = prod tail) by (cbn [prod fold_right]; lia).
  rewrite reshape_spec_one_none; rewrite ?Hk; auto.
Qed.

Lemma reshape_none (t : tensor A) : reshape_spec [None] t = Ok (reshape [prod (shape t)] t).
Proof. exact (tensor_to_vec_eq t). Qed.

Lemma get_reshape_rows (t : tensor A) n sx i j : shape t = n :: sx -> j < prod sx ->
  get d (reshape [n; prod sx] t) [i; j] = get d t (i :: unravel sx j).
Proof.
  intros Hs Hj. unfold get, reshape. cbn [shape data]. rewrite Hs. cbn [ravel prod fold_right].
  rewrite ravel_unravel by exact Hj. f_equal. lia.
Qed.

Lemma get_reshape_split (t : tensor A) sx so J o : shape t = sx ++ so -> length J = length sx ->
  get d (reshape [prod sx; prod so] t) [ravel sx J; ravel so o] = get d t (J ++ o).
Proof.
  intros Hs Hl. unfold get, reshape. cbn [shape data]. rewrite Hs, ravel_app by exact Hl.
  cbn [ravel prod fold_right]. f_equal. lia.
Qed.

Lemma get_reshape_tail (t : tensor A) n so i o : 
  get d (reshape (n :: so) t) (i :: o) = get d (reshape [n; prod so] t) [i; ravel so o].
Proof. unfold get, reshape. cbn [shape data ravel prod fold_right]. f_equal. lia. Qed.
End Q.

(* ---------- ring regime ---------- *)
Section Ring.
Context {F : Type} (Op : fops F).
Hypothesis Rth : ring_theory (f0 Op) (f1 Op) (fadd Op) (fmul Op) (fsub Op) (fopp Op) (@eq F).
Add Ring Fr : Rth.

Notation tget := (tget Op).
Notation fsumn := (fsumn Op).
Notation fsum_idx := (fsum_idx Op).

Lemma fsumn_ext n f g : (forall i, i < n -> f i = g i) -> fsumn n f = fsumn n g.
Proof. apply bigsum_ext. Qed.
Lemma fsum_idx_ext s f g : (forall idx, inb s idx -> f idx = g idx) -> fsum_idx s f = fsum_idx s g.
Proof. apply sum_idx_ext. Qed.

(* CPRegressor.predict = contraction of every sample with the weight tensor over the non-sample
   modes; for every per-sample order (sx non-empty) and every output shape so (possibly []) *)
Theorem predict_cp_contraction (W X : tensor F) n sx so :
  wf X -> wf W -> shape X = n :: sx -> sx <> [] -> shape W = sx ++ so -> 0 < n -> 0 < prod so ->
  exists P, predict_cp Op W X = Ok P /\ shape P = n :: so /\ wf P /\
    forall i o, i < n -> inb so o ->
      tget P (i :: o) = fsum_idx sx (fun J => fmul Op (tget X (i :: J)) (tget W (J ++ o))).
Proof.
  intros WX WW HsX Hsx HsW Hn Hso. unfold predict_cp.
  rewrite (ptv_eq (f0 Op) X n sx WX HsX Hsx Hn). cbn [rbind].
  assert (Hk : ndim X - 1 = length sx) by (unfold ndim; rewrite HsX; simpl; lia).
  rewrite Hk, HsW.
  assert (Htail : skipn (length sx) (sx ++ so) = so).
  { rewrite skipn_app, skipn_all, Nat.sub_diag. reflexivity. }
  rewrite Htail.
  assert (HpW : prod (shape W) = prod sx * prod so) by (rewrite HsW; apply prod_app).
  destruct so as [|a so'].
  - (* scalar target *)
    assert (Hlt : (length sx <? ndim W) = false) by (apply Nat.ltb_ge; unfold ndim; rewrite HsW, app_nil_r; lia).
    rewrite Hlt. rewrite reshape_none. cbn [rbind].
    unfold dot. cbn [shape reshape]. rewrite HpW. cbn [prod fold_right]. rewrite Nat.mul_1_r, Nat.eqb_refl. cbn [rbind].
    cbn [map]. rewrite reshape_none. eexists. split; [reflexivity|].
    cbn [shape reshape tabulate prod fold_right]. rewrite Nat.mul_1_r.
    split; [reflexivity|]. split; [apply wf_reshape; [apply wf_tabulate | reflexivity]|].
    intros i o Hi Ho. apply inb_nil_inv in Ho. subst o.
    set (g := fun idx : list nat => _).
    change (reshape [n] (tabulate [n] g)) with (tabulate [n] g).
    unfold Regress.tget at 1. rewrite get_tabulate by (cbn [inb]; auto).
    unfold g. cbn [nth]. unfold Regress.fsum_idx, sum_idx. apply bigsum_ext. intros j Hj.
    f_equal.
    + unfold Regress.tget. apply get_reshape_rows; assumption.
    + rewrite app_nil_r. unfold Regress.tget, get, reshape. cbn [shape data ravel prod fold_right].
      rewrite HsW, app_nil_r, ravel_unravel by exact Hj. f_equal. lia.
  - (* tensor-valued target *)
    set (so := a :: so') in *.
    assert (Hlt : (length sx <? ndim W) = true) by (apply Nat.ltb_lt; unfold ndim; rewrite HsW, app_length; simpl; lia).
    rewrite Hlt.
    change [None; Some (prod so)] with (None :: map Some [prod so]).
    assert (Hp1 : prod [prod so] = prod so) by (cbn [prod fold_right]; lia).
    rewrite reshape_lead_none; [| rewrite Hp1; lia | rewrite Hp1, HpW; apply Nat.mod_mul; lia].
    rewrite Hp1, HpW, Nat.div_mul by lia. cbn [rbind].
    unfold dot. cbn [shape reshape]. rewrite Nat.eqb_refl. cbn [rbind].
    set (g := fun idx : list nat => _).
    assert (Hpg : prod (shape (tabulate [n; prod so] g)) = n * prod so) by (cbn [shape tabulate prod fold_right]; lia).
    rewrite reshape_lead_none; [| lia | rewrite Hpg; apply Nat.mod_mul; lia].
    rewrite Hpg, Nat.div_mul by lia.
    eexists. split; [reflexivity|]. split; [reflexivity|].
    split; [apply wf_reshape; [apply wf_tabulate | rewrite Hpg; cbn [prod fold_right]; reflexivity]|].
    intros i o Hi Ho.
    unfold Regress.tget at 1. rewrite get_reshape_tail.
    change (reshape [n; prod so] (tabulate [n; prod so] g)) with (tabulate [n; prod so] g).
    pose proof (ravel_lt _ _ Ho) as Hc.
    rewrite get_tabulate by (cbn [inb]; auto).
    unfold g. cbn [nth]. unfold Regress.fsum_idx, sum_idx. apply bigsum_ext. intros j Hj.
    f_equal.
    + unfold Regress.tget. apply get_reshape_rows; assumption.
    + unfold Regress.tget.
      rewrite <- (ravel_unravel sx j Hj) at 1.
      apply get_reshape_split; [exact HsW | apply unravel_length].
Qed.

(* TuckerRegressor.predict with vec_W_ = tensor_to_vec(weight tensor) *)
Theorem predict_tucker_contraction (W vecW X : tensor F) n sx :
  wf X -> wf W -> shape X = n :: sx -> sx <> [] -> shape W = sx -> 0 < n ->
  tensor_to_vec W = Ok vecW ->
  exists P, predict_tucker Op vecW X = Ok P /\ shape P = [n] /\ wf P /\
    forall i, i < n -> tget P [i] = fsum_idx sx (fun J => fmul Op (tget X (i :: J)) (tget W J)).
Proof.
  intros WX WW HsX Hsx HsW Hn Hv. rewrite tensor_to_vec_eq in Hv. injection Hv as <-.
  unfold predict_tucker. rewrite (ptv_eq (f0 Op) X n sx WX HsX Hsx Hn). cbn [rbind].
  unfold dot. cbn [shape reshape]. rewrite HsW, Nat.eqb_refl.
  set (g := fun idx : list nat => _).
  eexists. split; [reflexivity|]. split; [reflexivity|]. split; [apply wf_tabulate|].
  intros i Hi. unfold Regress.tget at 1. rewrite get_tabulate by (cbn [inb]; auto).
  unfold g. cbn [nth]. unfold Regress.fsum_idx, sum_idx. apply bigsum_ext. intros j Hj.
  f_equal.
  - change (mk [n; prod sx] (data X)) with (reshape [n; prod sx] X). unfold Regress.tget.
    apply get_reshape_rows; assumption.
  - unfold Regress.tget, get, reshape. cbn [shape data ravel prod fold_right].
    rewrite HsW, ravel_unravel by exact Hj. f_equal. lia.
Qed.

(* what fit stores *)
Lemma cp_stored_vec w fs : vec_W_ (cp_fit_tail Op w fs) = tensor_to_vec (weight_tensor_ (cp_fit_tail Op w fs)).
Proof. reflexivity. Qed.
Lemma tucker_stored_vec G fs : vec_W_ (tucker_fit_tail Op G fs) = tensor_to_vec (weight_tensor_ (tucker_fit_tail Op G fs)).
Proof. reflexivity. Qed.

Lemma cp_weight_entry w fs idx : inb (factor_rows fs) idx ->
  tget (weight_tensor_ (cp_fit_tail Op w fs)) idx =
  fsumn (nth 0 (shape w) 0) (fun r => fmul Op (tget w [r]) (cp_coeff Op fs idx r)).
Proof. intros H. unfold Regress.tget at 1. cbn [cp_fit_tail weight_tensor_]. unfold cp_to_tensor. now rewrite get_tabulate. Qed.
Lemma tucker_weight_entry G fs idx : inb (factor_rows fs) idx ->
  tget (weight_tensor_ (tucker_fit_tail Op G fs)) idx =
  fsum_idx (shape G) (fun J => fmul Op (tget G J) (tk_coeff Op fs idx J)).
Proof. intros H. unfold Regress.tget at 1. cbn [tucker_fit_tail weight_tensor_]. unfold tucker_to_tensor. now rewrite get_tabulate. Qed.

Lemma inb_unravel_app sx so J o : inb sx J -> inb so o -> inb (sx ++ so) (J ++ o).
Proof. apply inb_app. Qed.

(* the fitted CP regressor predicts with the reconstruction of the factors it exposes *)
Theorem cp_regressor_predict_factors (w : tensor F) (fs : list (tensor F)) (X : tensor F) n sx so :
  wf X -> shape X = n :: sx -> sx <> [] -> factor_rows fs = sx ++ so -> 0 < n -> 0 < prod so ->
  exists P, cp_regressor_predict Op w fs X = Ok P /\ shape P = n :: so /\
    forall i o, i < n -> inb so o ->
      tget P (i :: o) = fsum_idx sx (fun J => fmul Op (tget X (i :: J))
                          (fsumn (nth 0 (shape w) 0) (fun r => fmul Op (tget w [r]) (cp_coeff Op fs (J ++ o) r)))).
Proof.
  intros WX HsX Hsx Hfs Hn Hso. unfold cp_regressor_predict.
  assert (WW : wf (weight_tensor_ (cp_fit_tail Op w fs))) by apply wf_tabulate.
  destruct (predict_cp_contraction (weight_tensor_ (cp_fit_tail Op w fs)) X n sx so WX WW HsX Hsx Hfs Hn Hso) as (P & HP & HsP & _ & HE).
  - exists P. split; [exact HP|]. split; [exact HsP|]. intros i o Hi Ho. rewrite (HE i o Hi Ho).
    apply sum_idx_ext. intros J HJ. f_equal. apply cp_weight_entry. rewrite Hfs. now apply inb_app.
Qed.

Theorem tucker_regressor_predict_factors (G : tensor F) (fs : list (tensor F)) (X : tensor F) n sx :
  wf X -> shape X = n :: sx -> sx <> [] -> factor_rows fs = sx -> 0 < n ->
  exists P, tucker_regressor_predict Op G fs X = Ok P /\ shape P = [n] /\
    forall i, i < n ->
      tget P [i] = fsum_idx sx (fun J => fmul Op (tget X (i :: J))
                          (fsum_idx (shape G) (fun K => fmul Op (tget G K) (tk_coeff Op fs J K)))).
Proof.
  intros WX HsX Hsx Hfs Hn. unfold tucker_regressor_predict.
  set (W := weight_tensor_ (tucker_fit_tail Op G fs)).
  assert (Hv : vec_W_ (tucker_fit_tail Op G fs) = Ok (reshape [prod (shape W)] W)) by (apply tensor_to_vec_eq).
  rewrite Hv. cbn [rbind].
  assert (WW : wf W) by apply wf_tabulate.
  assert (HsW : shape W = sx) by exact Hfs.
  destruct (predict_tucker_contraction W (reshape [prod (shape W)] W) X n sx WX WW HsX Hsx HsW Hn (tensor_to_vec_eq W)) as (P & HP & HsP & _ & HE).
  - exists P. split; [exact HP|]. split; [exact HsP|]. intros i Hi. rewrite (HE i Hi).
    apply sum_idx_ext. intros J HJ. f_equal. apply tucker_weight_entry. now rewrite Hfs.
Qed.

(* ---------- CP_PLSR, ring regime ---------- *)
Lemma tabulate_ext {B} s (f g : list nat -> B) : (forall idx, inb s idx -> f idx = g idx) -> tabulate s f = tabulate s g.
Proof.
  intros H. unfold tabulate. f_equal. apply map_ext_in. intros k Hk. apply in_seq in Hk.
  apply H. apply unravel_inb. lia.
Qed.

Section Replay.
Variable inner : tensor F -> tensor F -> list (tensor F) * tensor F.
Variable lstsq : list (list F) -> list F -> list F.

(* transform replays the score / deflation sequence of fit, whatever the black boxes return *)
Lemma transform_replays_fit k : forall X Y T,
  transform_cols Op X (map (c_load (F:=F)) (fit_loop Op inner lstsq k X Y T)) = map (c_score (F:=F)) (fit_loop Op inner lstsq k X Y T).
Proof.
  induction k; intros X Y T; [reflexivity|].
  cbn [fit_loop map transform_cols c_load c_score]. f_equal. apply IHk.
Qed.

Theorem fit_transform_train ncomp X Y :
  fit_transform_X Op (fit Op inner lstsq ncomp X Y) X =
  cols_to_matrix Op (nsamp X) (fitted_scores (fit Op inner lstsq ncomp X Y)).
Proof.
  unfold fit_transform_X, transform, loadings, fitted_scores, fit. cbn [X_mean_ comps].
  now rewrite transform_replays_fit.
Qed.
End Replay.

Lemma shape_center X m : shape (center Op X m) = shape X. Proof. reflexivity. Qed.
Lemma shape_shift X c : shape (shift Op X c) = shape X. Proof. reflexivity. Qed.

Lemma inb_tl s idx : inb s idx -> inb (tl s) (tl idx).
Proof. destruct s, idx; simpl; tauto. Qed.

(* mean-centring lemma, ring part: subtracting the shifted mean from the shifted data *)
Theorem center_shift X m c : shape m = sshape X ->
  center Op (shift Op X c) (tadd Op m c) = center Op X m.
Proof.
  intros Hm. unfold center. rewrite shape_shift. apply tabulate_ext. intros idx Hi.
  unfold Regress.tget at 1. unfold shift. rewrite get_tabulate by exact Hi.
  unfold Regress.tget at 3. unfold tadd. rewrite get_tabulate by (rewrite Hm; apply inb_tl; exact Hi).
  fold (tget X idx). ring.
Qed.

(* sums are invariant under re-ordering *)
Definition lsum (l : list F) : F := fold_right (fun x acc => fadd Op acc x) (f0 Op) l.
Lemma lsum_app a b : lsum (a ++ b) = fadd Op (lsum b) (lsum a).
Proof. induction a; simpl; [ring | rewrite IHa; ring]. Qed.
Lemma fsumn_lsum n f : fsumn n f = lsum (map f (seq 0 n)).
Proof.
  unfold Regress.fsumn. induction n; [reflexivity|].
  rewrite seq_S, map_app, lsum_app. cbn [bigsum]. rewrite IHn. simpl. ring.
Qed.
Lemma lsum_perm l l' : Permutation.Permutation l l' -> lsum l = lsum l'.
Proof. induction 1; simpl; try congruence; [ring]. Qed.
Lemma map_nth_seq (p : list nat) : map (fun i => nth i p 0) (seq 0 (length p)) = p.
Proof.
  apply nth_ext with (d := 0) (d' := 0); [now rewrite map_length, seq_length|].
  intros k Hk. rewrite map_length, seq_length in Hk.
  rewrite (nth_map' (fun i => nth i p 0) _ _ 0) by (now rewrite seq_length). now rewrite seq_nth.
Qed.
Theorem fsumn_perm n p f : Permutation.Permutation p (seq 0 n) -> fsumn n (fun i => f (nth i p 0)) = fsumn n f.
Proof.
  intros H. rewrite !fsumn_lsum.
  assert (Hl : length p = n) by (rewrite (Permutation.Permutation_length H); apply seq_length).
  rewrite <- (map_map (fun i => nth i p 0) f). rewrite <- Hl at 1. rewrite map_nth_seq.
  apply lsum_perm. now apply Permutation.Permutation_map.
Qed.

Lemma perm_bound n p i : Permutation.Permutation p (seq 0 n) -> i < n -> nth i p 0 < n.
Proof.
  intros H Hi. assert (Hl : length p = n) by (rewrite (Permutation.Permutation_length H); apply seq_length).
  assert (In (nth i p 0) (seq 0 n)) by (eapply Permutation.Permutation_in; [exact H | apply nth_In; lia]).
  apply in_seq in H0. lia.
Qed.

Lemma tget_perm_samples p X i J n sx : shape X = n :: sx -> i < n -> inb sx J ->
  tget (perm_samples Op p X) (i :: J) = tget X (nth i p 0 :: J).
Proof.
  intros Hs Hi HJ. unfold Regress.tget at 1. unfold perm_samples.
  rewrite get_tabulate by (rewrite Hs; cbn [inb]; auto). reflexivity.
Qed.

(* the mean over the samples does not see their order (no property of the division is used) *)
Theorem mean0_perm p X n sx : shape X = n :: sx -> Permutation.Permutation p (seq 0 n) ->
  mean0 Op (perm_samples Op p X) = mean0 Op X.
Proof.
  intros Hs Hp. unfold mean0, sshape, nsamp. cbn [perm_samples tabulate shape]. rewrite Hs. cbn [hd tl].
  apply tabulate_ext. intros J HJ. f_equal.
  rewrite <- (fsumn_perm n p (fun i => tget X (i :: J)) Hp).
  apply fsumn_ext. intros i Hi. apply (tget_perm_samples p X i J n sx); auto.
Qed.

(* permutation equivariance of mean-centring *)
Theorem center_perm p X n sx : shape X = n :: sx -> Permutation.Permutation p (seq 0 n) ->
  center Op (perm_samples Op p X) (mean0 Op (perm_samples Op p X)) = perm_samples Op p (center Op X (mean0 Op X)).
Proof.
  intros Hs Hp. rewrite (mean0_perm p X n sx Hs Hp).
  set (m := mean0 Op X).
  change (tabulate (shape X) (fun idx => fsub Op (tget (perm_samples Op p X) idx) (tget m (tl idx))) =
          tabulate (shape X) (fun idx => tget (center Op X m) (nth (hd 0 idx) p 0 :: tl idx))).
  apply tabulate_ext. intros idx Hi. rewrite Hs in Hi.
  destruct (inb_cons_inv _ _ _ Hi) as (i & J & -> & Hin & HJ). cbn [hd tl].
  rewrite (tget_perm_samples p X i J n sx Hs Hin HJ).
  unfold Regress.tget at 3. unfold center. 
  rewrite get_tabulate by (rewrite Hs; cbn [inb]; split; [apply perm_bound; assumption | exact HJ]).
  reflexivity.
Qed.

(* ---------- re-ordering / re-sampling the rows: every score and every deflation acts sample by sample ---------- *)
Lemma scores_length X ls : length (scores Op X ls) = nsamp X.
Proof. unfold scores. now rewrite map_length, seq_length. Qed.

Lemma nth_scores X ls i : i < nsamp X -> nth i (scores Op X ls) (f0 Op) = score Op X ls i.
Proof.
  intros Hi. unfold scores. rewrite (nth_map' (score Op X ls) _ _ 0) by (now rewrite seq_length).
  now rewrite seq_nth.
Qed.

Lemma scores_perm p X ls n sx : shape X = n :: sx -> rows_ok n p ->
  scores Op (perm_samples Op p X) ls = pick Op n p (scores Op X ls).
Proof.
  intros Hs Hp. unfold scores at 1, pick.
  assert (Hn : nsamp (perm_samples Op p X) = n) by (unfold nsamp; cbn [perm_samples tabulate shape]; now rewrite Hs).
  rewrite Hn. apply map_ext_in. intros i Hi. apply in_seq in Hi.
  rewrite nth_scores by (unfold nsamp; rewrite Hs; cbn [hd]; apply Hp; lia).
  unfold score, sshape. cbn [perm_samples tabulate shape]. rewrite Hs. cbn [tl].
  apply sum_idx_ext. intros J HJ. f_equal.
  apply (tget_perm_samples p X i J n sx); auto; lia.
Qed.

Lemma nth_pick n p t i : i < n -> nth i (pick Op n p t) (f0 Op) = nth (nth i p 0) t (f0 Op).
Proof.
  intros Hi. unfold pick. rewrite (nth_map' (fun i => nth (nth i p 0) t (f0 Op)) _ _ 0) by (now rewrite seq_length).
  now rewrite seq_nth.
Qed.

Lemma tget_deflate X ls t idx : inb (shape X) idx ->
  tget (deflate Op X ls t) idx = fsub Op (tget X idx) (fmul Op (nth (hd 0 idx) t (f0 Op)) (rank1 Op ls (tl idx))).
Proof. intros H. unfold Regress.tget at 1. unfold deflate. now rewrite get_tabulate. Qed.
Lemma tget_center X m idx : inb (shape X) idx ->
  tget (center Op X m) idx = fsub Op (tget X idx) (tget m (tl idx)).
Proof. intros H. unfold Regress.tget at 1. unfold center. now rewrite get_tabulate. Qed.

Lemma deflate_perm p X ls t n sx : shape X = n :: sx -> rows_ok n p ->
  deflate Op (perm_samples Op p X) ls (pick Op n p t) = perm_samples Op p (deflate Op X ls t).
Proof.
  intros Hs Hp.
  change (tabulate (shape X) (fun idx => fsub Op (tget (perm_samples Op p X) idx)
            (fmul Op (nth (hd 0 idx) (pick Op n p t) (f0 Op)) (rank1 Op ls (tl idx)))) =
          tabulate (shape X) (fun idx => tget (deflate Op X ls t) (nth (hd 0 idx) p 0 :: tl idx))).
  apply tabulate_ext. intros idx Hi. rewrite Hs in Hi.
  destruct (inb_cons_inv _ _ _ Hi) as (i & J & -> & Hin & HJ). cbn [hd tl].
  rewrite (tget_perm_samples p X i J n sx Hs Hin HJ), nth_pick by exact Hin.
  rewrite tget_deflate by (rewrite Hs; cbn [inb]; split; [apply Hp; exact Hin | exact HJ]).
  reflexivity.
Qed.

Theorem transform_cols_perm p loads : forall X n sx, shape X = n :: sx -> rows_ok n p ->
  transform_cols Op (perm_samples Op p X) loads = map (pick Op n p) (transform_cols Op X loads).
Proof.
  induction loads as [|ls rest IH]; intros X n sx Hs Hp; [reflexivity|].
  cbn [transform_cols map]. rewrite (scores_perm p X ls n sx Hs Hp). f_equal.
  rewrite (deflate_perm p X ls _ n sx Hs Hp). apply (IH _ n sx); auto.
Qed.

Lemma center_rows p X m n sx : shape X = n :: sx -> rows_ok n p ->
  center Op (perm_samples Op p X) m = perm_samples Op p (center Op X m).
Proof.
  intros Hs Hp.
  change (tabulate (shape X) (fun idx => fsub Op (tget (perm_samples Op p X) idx) (tget m (tl idx))) =
          tabulate (shape X) (fun idx => tget (center Op X m) (nth (hd 0 idx) p 0 :: tl idx))).
  apply tabulate_ext. intros idx Hi. rewrite Hs in Hi.
  destruct (inb_cons_inv _ _ _ Hi) as (i & J & -> & Hin & HJ). cbn [hd tl].
  rewrite (tget_perm_samples p X i J n sx Hs Hin HJ).
  rewrite tget_center by (rewrite Hs; cbn [inb]; split; [apply Hp; exact Hin | exact HJ]).
  reflexivity.
Qed.

Lemma transform_cols_length X loads : length (transform_cols Op X loads) = length loads.
Proof. revert X; induction loads; intros X; simpl; auto. Qed.

(* transform (hence predict) of re-ordered samples = re-ordered transform *)
Theorem transform_perm p xmean loads X n sx i c : shape X = n :: sx -> rows_ok n p -> i < n -> c < length loads ->
  tget (transform Op xmean loads (perm_samples Op p X)) [i; c] = tget (transform Op xmean loads X) [nth i p 0; c].
Proof.
  intros Hs Hp Hi Hc. unfold transform.
  assert (Hn : nsamp (perm_samples Op p X) = n) by (unfold nsamp; cbn [perm_samples tabulate shape]; now rewrite Hs).
  assert (Hn' : nsamp X = n) by (unfold nsamp; now rewrite Hs).
  rewrite Hn, Hn'. rewrite (center_rows p X xmean n sx Hs Hp).
  rewrite (transform_cols_perm p loads (center Op X xmean) n sx Hs Hp).
  unfold cols_to_matrix. rewrite map_length.
  unfold Regress.tget. rewrite !get_tabulate by (rewrite transform_cols_length; cbn [inb]; auto).
  cbn [nth].
  rewrite (nth_map' (pick Op n p) _ _ []) by (now rewrite transform_cols_length).
  apply nth_pick. exact Hi.
Qed.

(* ---------- ring part of the prediction shift ---------- *)
Lemma transform_shift xm loads X c : shape xm = sshape X ->
  transform Op (tadd Op xm c) loads (shift Op X c) = transform Op xm loads X.
Proof.
  intros H. unfold transform. rewrite (center_shift X xm c H). reflexivity.
Qed.

Theorem plsr_predict_shift xm ym loads coef yl X c d m i o :
  shape xm = sshape X -> shape ym = [m] -> nth 0 (shape yl) 0 = m -> i < nsamp X -> o < m ->
  tget (plsr_predict Op (tadd Op xm c) (tadd Op ym d) loads coef yl (shift Op X c)) [i; o] =
  fadd Op (tget (plsr_predict Op xm ym loads coef yl X) [i; o]) (tget d [o]).
Proof.
  intros Hx Hy Hyl Hi Ho. unfold plsr_predict. rewrite (transform_shift xm loads X c Hx).
  change (nsamp (shift Op X c)) with (nsamp X). rewrite Hyl.
  unfold Regress.tget at 1. rewrite get_tabulate by (cbn [inb]; auto).
  unfold Regress.tget at 5. rewrite get_tabulate by (cbn [inb]; auto).
  cbn [nth].
  assert (E : tget (tadd Op ym d) [o] = fadd Op (tget ym [o]) (tget d [o])).
  { unfold Regress.tget at 1. unfold tadd. rewrite get_tabulate by (rewrite Hy; cbn [inb]; auto). reflexivity. }
  rewrite E. ring.
Qed.
End Ring.
