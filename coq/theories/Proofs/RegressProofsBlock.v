(* The design matrix of an input-mode ridge block of CPRegressor.fit (Model/Regress.v: cp_phi_in) is the matrix of the
   map  W_i |-> predictions:  row (s, o) of phi applied to vec(W_i) is the contraction of sample s with the CP
   reconstruction of the current factors at output index o, i.e. exactly what predict computes from weight_tensor_.
   Commutative ring. *)
From Coq Require Import List Arith Lia Bool Ring.
From TLV Require Import Base.Shape Base.PyList Base.Tensor Base.BigSum Base.Ops Model.Base Proofs.BaseProofs Model.Regress Proofs.RegressProofs.
Import ListNotations.

Lemma insert_at_app {A} i (j : A) : forall a b, i <= length a -> insert_at i j a ++ b = insert_at i j (a ++ b).
Proof.
  induction i as [|i IH]; intros a b H; [reflexivity|].
  destruct a as [|x a]; [simpl in H; lia|]. cbn [insert_at app]. f_equal. apply IH. simpl in H. lia.
Qed.

Lemma remove_nth_len {A} i : forall (l : list A), i < length l -> length (remove_nth i l) = length l - 1.
Proof. induction i; destruct l; simpl; intros; try lia. rewrite IHi by lia. lia. Qed.

Lemma insert_at_app_r {A} l (c : A) : forall a b, insert_at (length a + l) c (a ++ b) = a ++ insert_at l c b.
Proof. induction a as [|x a IH]; intros b; [reflexivity|]. cbn [length Nat.add app insert_at]. f_equal. apply IH. Qed.

Section Block.
Context {F : Type} (Op : fops F).
Hypothesis Rth : ring_theory (f0 Op) (f1 Op) (fadd Op) (fmul Op) (fsub Op) (fopp Op) (@eq F).
Add Ring Fr4 : Rth.
Notation tget := (tget Op).
Notation fsumn := (fsumn Op).
Notation fsum_idx := (fsum_idx Op).
Notation "a *f b" := (fmul Op a b) (at level 40, left associativity).

Lemma fsumn_exchange n m (f : nat -> nat -> F) :
  fsumn n (fun i => fsumn m (fun j => f i j)) = fsumn m (fun j => fsumn n (fun i => f i j)).
Proof. exact (bigsum_exchange F _ _ _ _ _ _ Rth n m f). Qed.
Lemma fsumn_scale_r n c f : fsumn n (fun i => f i *f c) = fsumn n f *f c.
Proof. exact (bigsum_scale_r F _ _ _ _ _ _ Rth n c f). Qed.
Lemma fsumn_scale_l n c f : fsumn n (fun i => c *f f i) = c *f fsumn n f.
Proof. exact (bigsum_scale_l F _ _ _ _ _ _ Rth n c f). Qed.
Lemma fsum_idx_cons d s f : fsum_idx (d :: s) f = fsumn d (fun i => fsum_idx s (fun idx => f (i :: idx))).
Proof. exact (sum_idx_cons F _ _ _ _ _ _ Rth d s f). Qed.
Lemma fsum_idx_exchange s n (f : list nat -> nat -> F) :
  fsum_idx s (fun J => fsumn n (fun r => f J r)) = fsumn n (fun r => fsum_idx s (fun J => f J r)).
Proof. unfold Regress.fsum_idx, sum_idx. apply fsumn_exchange. Qed.

(* summing over an index space = summing over position i, then over the rest *)
Lemma fsum_idx_insert : forall i s f, i < length s ->
  fsum_idx s f = fsumn (nth i s 0) (fun j => fsum_idx (remove_nth i s) (fun J' => f (insert_at i j J'))).
Proof.
  induction i as [|i IH]; intros s f Hi; destruct s as [|d s]; try (simpl in Hi; lia).
  - cbn [nth remove_nth]. rewrite fsum_idx_cons. apply fsumn_ext. intros j Hj. reflexivity.
  - cbn [nth remove_nth]. rewrite fsum_idx_cons.
    rewrite (fsumn_ext Op d _ (fun a => fsumn (nth i s 0) (fun j => fsum_idx (remove_nth i s) (fun J' => f (a :: insert_at i j J'))))).
    2:{ intros a Ha. apply (IH s (fun idx => f (a :: idx))). simpl in Hi. lia. }
    rewrite fsumn_exchange. apply fsumn_ext. intros j Hj.
    rewrite fsum_idx_cons. apply fsumn_ext. intros a Ha. reflexivity.
Qed.

(* the CP term factorises at position i *)
Lemma cp_coeff_insert : forall i (fs : list (tensor F)) idx j r, i < length fs -> i <= length idx ->
  cp_coeff Op fs (insert_at i j idx) r = tget (nth i fs (mk [] [])) [j; r] *f cp_coeff Op (remove_nth i fs) idx r.
Proof.
  induction i as [|i IH]; intros fs idx j r Hf Hi; destruct fs as [|U fs]; try (simpl in Hf; lia).
  - reflexivity.
  - destruct idx as [|a idx]; [simpl in Hi; lia|]. cbn [insert_at cp_coeff nth remove_nth].
    rewrite IH by (simpl in *; lia). ring.
Qed.

Theorem cp_phi_in_linear (X : tensor F) (fs : list (tensor F)) (so : list nat) (R i n : nat) (sx : list nat) (s : nat) (o : list nat) :
  shape X = n :: sx -> i < length sx -> length sx <= length fs -> 0 < R -> s < n -> inb so o ->
  fsumn (nth i sx 0 * R)
        (fun c => tget (cp_phi_in Op X fs so R i) [ravel (n :: so) (s :: o); c] *f tget (nth i fs (mk [] [])) [c / R; c mod R])
  = fsum_idx sx (fun J => tget X (s :: J) *f fsumn R (fun r => cp_coeff Op fs (J ++ o) r)).
Proof.
  intros HX Hi Hfs HR Hs Ho.
  assert (Hin : inb (n :: so) (s :: o)) by (cbn [inb]; auto).
  pose proof (ravel_lt _ _ Hin) as Hrow. change (prod (n :: so)) with (n * prod so) in Hrow.
  assert (HnX : nsamp X = n) by (unfold nsamp; now rewrite HX).
  assert (HsX : sshape X = sx) by (unfold sshape; now rewrite HX).
  set (d := nth i sx 0). set (Wi := nth i fs (mk [] [])). set (cr := cp_coeff Op (remove_nth i fs)).
  (* left-hand side: unfold the tabulated design matrix *)
  rewrite (fsumn_ext Op (d * R) _ (fun c =>
     fsum_idx (remove_nth i sx) (fun J' => tget X (s :: insert_at i (c / R) J') *f cr (J' ++ o) (c mod R)) *f tget Wi [c / R; c mod R])).
  2:{ intros c Hc. f_equal. unfold Regress.tget at 1. unfold cp_phi_in. rewrite HnX, HsX. fold d.
      rewrite get_tabulate by (cbn [inb]; auto). cbv zeta. cbn [nth].
      unfold row_split. rewrite (unravel_ravel _ _ Hin). cbn [hd tl fst snd]. reflexivity. }
  unfold Regress.fsumn at 1. rewrite (bigsum_mul F _ _ _ _ _ _ Rth d R). fold (Regress.fsumn Op).
  (* right-hand side: split off position i *)
  rewrite (fsum_idx_insert i sx _ Hi). fold d.
  apply fsumn_ext. intros j Hj.
  transitivity (fsumn R (fun r => fsum_idx (remove_nth i sx) (fun J' => tget X (s :: insert_at i j J') *f cr (J' ++ o) r *f tget Wi [j; r]))).
  { apply (fsumn_ext Op). intros r Hr.
    assert (E1 : (j * R + r) / R = j) by (rewrite Nat.div_add_l by lia; rewrite Nat.div_small by lia; lia).
    assert (E2 : (j * R + r) mod R = r) by (rewrite Nat.add_comm, Nat.mod_add by lia; apply Nat.mod_small; lia).
    rewrite E1, E2. unfold Regress.fsum_idx, sum_idx. symmetry. apply fsumn_scale_r. }
  rewrite <- fsum_idx_exchange. apply fsum_idx_ext. intros J' HJ'.
  assert (HlJ : i <= length J').
  { rewrite (inb_length _ _ HJ'), remove_nth_len by exact Hi. lia. }
  rewrite <- fsumn_scale_l. apply fsumn_ext. intros r Hr.
  rewrite (insert_at_app i j J' o HlJ).
  rewrite cp_coeff_insert by (rewrite ?app_length; lia).
  fold Wi. unfold cr. ring.
Qed.

(* the same for an output-mode block: row (s, o') of phi applied to row c of W_i is the prediction at the output index
   obtained by inserting c at that mode *)
Theorem cp_phi_out_linear (X : tensor F) (fs : list (tensor F)) (so : list nat) (R i n : nat) (sx : list nat) (s : nat) (o' : list nat) (c : nat) :
  shape X = n :: sx -> length sx <= i -> i < length fs -> i - length sx < length so -> s < n ->
  inb (remove_nth (i - length sx) so) o' ->
  fsumn R (fun r => tget (cp_phi_out Op X fs so R i) [ravel (n :: remove_nth (i - length sx) so) (s :: o'); r]
                    *f tget (nth i fs (mk [] [])) [c; r])
  = fsum_idx sx (fun J => tget X (s :: J) *f fsumn R (fun r => cp_coeff Op fs (J ++ insert_at (i - length sx) c o') r)).
Proof.
  intros HX Hi Hfs Hl Hs Ho.
  set (l := i - length sx) in *. set (so' := remove_nth l so) in *.
  assert (Hin : inb (n :: so') (s :: o')) by (cbn [inb]; auto).
  pose proof (ravel_lt _ _ Hin) as Hrow. change (prod (n :: so')) with (n * prod so') in Hrow.
  assert (HnX : nsamp X = n) by (unfold nsamp; now rewrite HX).
  assert (HsX : sshape X = sx) by (unfold sshape; now rewrite HX).
  set (Wi := nth i fs (mk [] [])). set (cr := cp_coeff Op (remove_nth i fs)).
  rewrite (fsumn_ext Op R _ (fun r => fsum_idx sx (fun J => tget X (s :: J) *f cr (J ++ o') r *f tget Wi [c; r]))).
  2:{ intros r Hr. unfold Regress.tget at 1. unfold cp_phi_out. rewrite HnX, HsX. fold l. fold so'.
      rewrite get_tabulate by (cbn [inb]; auto). cbv zeta. cbn [nth].
      unfold row_split. rewrite (unravel_ravel _ _ Hin). cbn [hd tl fst snd].
      unfold Regress.fsum_idx, sum_idx. symmetry. apply fsumn_scale_r. }
  rewrite <- fsum_idx_exchange. apply fsum_idx_ext. intros J HJ.
  rewrite <- fsumn_scale_l. apply fsumn_ext. intros r Hr.
  assert (Ei : i = length J + l) by (rewrite (inb_length _ _ HJ); unfold l; lia).
  rewrite <- (insert_at_app_r l c J o'). rewrite <- Ei.
  rewrite cp_coeff_insert.
  - fold Wi. unfold cr. ring.
  - exact Hfs.
  - rewrite app_length, (inb_length _ _ Ho). unfold so'. rewrite remove_nth_len by exact Hl. lia.
Qed.

(* ---------- TuckerRegressor: the factor blocks and the core block ---------- *)
Lemma tk_coeff_insert : forall i (fs : list (tensor F)) J K j q, i < length fs -> i <= length J -> i <= length K ->
  tk_coeff Op fs (insert_at i j J) (insert_at i q K) = tget (nth i fs (mk [] [])) [j; q] *f tk_coeff Op (remove_nth i fs) J K.
Proof.
  induction i as [|i IH]; intros fs J K j q Hf HJ HK; destruct fs as [|U fs]; try (simpl in Hf; lia).
  - reflexivity.
  - destruct J as [|a J]; [simpl in HJ; lia|]. destruct K as [|b K]; [simpl in HK; lia|].
    cbn [insert_at tk_coeff nth remove_nth]. rewrite IH by (simpl in *; lia). ring.
Qed.

Lemma fsum_idx_scale_r s c f : fsum_idx s (fun J => f J *f c) = fsum_idx s f *f c.
Proof. unfold Regress.fsum_idx, sum_idx. apply fsumn_scale_r. Qed.
Lemma fsum_idx_scale_l s c f : fsum_idx s (fun J => c *f f J) = c *f fsum_idx s f.
Proof. unfold Regress.fsum_idx, sum_idx. apply fsumn_scale_l. Qed.
Lemma fsum_idx_exchange2 s1 s2 (f : list nat -> list nat -> F) :
  fsum_idx s1 (fun J => fsum_idx s2 (fun K => f J K)) = fsum_idx s2 (fun K => fsum_idx s1 (fun J => f J K)).
Proof. unfold Regress.fsum_idx, sum_idx. apply fsumn_exchange. Qed.

(* row s of the design matrix of factor block i applied to vec(W_i) = the prediction for sample s *)
Theorem tk_phi_mode_linear (X G : tensor F) (fs : list (tensor F)) (i n : nat) (sx : list nat) (s : nat) :
  shape X = n :: sx -> i < length sx -> length sx <= length fs -> length (shape G) = length sx ->
  0 < nth i (shape G) 0 -> s < n ->
  fsumn (nth i sx 0 * nth i (shape G) 0)
        (fun c => tget (tk_phi_mode Op X G fs i) [s; c]
                  *f tget (nth i fs (mk [] [])) [c / nth i (shape G) 0; c mod nth i (shape G) 0])
  = fsum_idx sx (fun J => tget X (s :: J) *f fsum_idx (shape G) (fun K => tget G K *f tk_coeff Op fs J K)).
Proof.
  intros HX Hi Hfs HG Hq Hs.
  assert (HnX : nsamp X = n) by (unfold nsamp; now rewrite HX).
  assert (HsX : sshape X = sx) by (unfold sshape; now rewrite HX).
  set (d := nth i sx 0). set (qi := nth i (shape G) 0) in *. set (Wi := nth i fs (mk [] [])).
  set (tkr := tk_coeff Op (remove_nth i fs)).
  set (A := fun J' q => fsum_idx (remove_nth i (shape G)) (fun K' => tget G (insert_at i q K') *f tkr J' K')).
  rewrite (fsumn_ext Op (d * qi) _ (fun c =>
     fsum_idx (remove_nth i sx) (fun J' => tget X (s :: insert_at i (c / qi) J') *f A J' (c mod qi)) *f tget Wi [c / qi; c mod qi])).
  2:{ intros c Hc. f_equal. unfold Regress.tget at 1. unfold tk_phi_mode. rewrite HnX, HsX. fold d. fold qi.
      rewrite get_tabulate by (cbn [inb]; auto). cbv zeta. cbn [nth]. reflexivity. }
  unfold Regress.fsumn at 1. rewrite (bigsum_mul F _ _ _ _ _ _ Rth d qi). fold (Regress.fsumn Op).
  rewrite (fsum_idx_insert i sx _ Hi). fold d.
  apply fsumn_ext. intros j Hj.
  transitivity (fsumn qi (fun q => fsum_idx (remove_nth i sx) (fun J' => tget X (s :: insert_at i j J') *f A J' q *f tget Wi [j; q]))).
  { apply (fsumn_ext Op). intros q Hq'.
    assert (E1 : (j * qi + q) / qi = j) by (rewrite Nat.div_add_l by lia; rewrite Nat.div_small by lia; lia).
    assert (E2 : (j * qi + q) mod qi = q) by (rewrite Nat.add_comm, Nat.mod_add by lia; apply Nat.mod_small; lia).
    rewrite E1, E2. symmetry. apply fsum_idx_scale_r. }
  rewrite <- fsum_idx_exchange. apply fsum_idx_ext. intros J' HJ'.
  assert (HlJ : i <= length J') by (rewrite (inb_length _ _ HJ'), remove_nth_len by exact Hi; lia).
  assert (HiG : i < length (shape G)) by lia.
  rewrite (fsum_idx_insert i (shape G) _ HiG). fold qi.
  rewrite <- fsumn_scale_l. apply fsumn_ext. intros q Hq'.
  unfold A.
  rewrite (fsum_idx_ext Op (remove_nth i (shape G))
             (fun K' => tget G (insert_at i q K') *f tk_coeff Op fs (insert_at i j J') (insert_at i q K'))
             (fun K' => tget G (insert_at i q K') *f tkr J' K' *f tget Wi [j; q])).
  2:{ intros K' HK'. rewrite tk_coeff_insert.
      - fold Wi. unfold tkr. ring.
      - lia.
      - exact HlJ.
      - rewrite (inb_length _ _ HK'), remove_nth_len by exact HiG. lia. }
  rewrite fsum_idx_scale_r. ring.
Qed.

(* row s of the design matrix of the core block applied to vec(G) = the prediction for sample s *)
Theorem tk_phi_core_linear (X G : tensor F) (fs : list (tensor F)) (n : nat) (sx : list nat) (s : nat) :
  shape X = n :: sx -> s < n ->
  fsumn (prod (shape G)) (fun c => tget (tk_phi_core Op X fs (shape G)) [s; c] *f tget G (unravel (shape G) c))
  = fsum_idx sx (fun J => tget X (s :: J) *f fsum_idx (shape G) (fun K => tget G K *f tk_coeff Op fs J K)).
Proof.
  intros HX Hs.
  assert (HnX : nsamp X = n) by (unfold nsamp; now rewrite HX).
  assert (HsX : sshape X = sx) by (unfold sshape; now rewrite HX).
  rewrite (fsumn_ext Op (prod (shape G)) _ (fun c =>
     fsum_idx sx (fun J => tget X (s :: J) *f tk_coeff Op fs J (unravel (shape G) c) *f tget G (unravel (shape G) c)))).
  2:{ intros c Hc. unfold Regress.tget at 1. unfold tk_phi_core. rewrite HnX, HsX.
      rewrite get_tabulate by (cbn [inb]; auto). cbn [nth]. symmetry. apply fsum_idx_scale_r. }
  change (fsumn (prod (shape G)) (fun c => fsum_idx sx (fun J => tget X (s :: J) *f tk_coeff Op fs J (unravel (shape G) c) *f tget G (unravel (shape G) c))))
    with (fsum_idx (shape G) (fun K => fsum_idx sx (fun J => tget X (s :: J) *f tk_coeff Op fs J K *f tget G K))).
  rewrite fsum_idx_exchange2. apply fsum_idx_ext. intros J HJ.
  rewrite <- fsum_idx_scale_l. apply fsum_idx_ext. intros K HK. ring.
Qed.
End Block.
