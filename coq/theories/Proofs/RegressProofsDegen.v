(* Degenerate training data of CP_PLSR over R: when every sample of X is the same tensor the centred X is the zero tensor,
   every X loading of every component is the normalisation of a zero vector -- the zero vector in R (0/0 = NaN in the
   implementation) -- and every X score is 0, whatever the SVD initialisation, the solver, the budget and the tolerance.
   This is the input class on which the second alternative of the unit-norm theorems is realised. *)
From Coq Require Import List Arith Lia Bool Ring Reals Lra.
From TLV Require Import Base.Shape Base.PyList Base.Tensor Base.BigSum Base.Ops Model.Base Proofs.BaseProofs Model.Regress
  Proofs.RegressProofs Proofs.RegressProofsPlsr Proofs.RegressProofsR Model.RegressObj Model.RegressObj2.
Import ListNotations.

Section Degenerate.
Open Scope R_scope.
Notation tgetR := (tget Rops).
Variable init : tensor R -> list (tensor R).
Variable ne_solve : list (list R) -> list R -> list R.
Variable tol : R.

Definition Zr (t : tensor R) : Prop := forall idx, tgetR t idx = 0.

Lemma nth_map_seq {A} (g : nat -> A) n k d : (k < n)%nat -> nth k (map g (seq 0 n)) d = g k.
Proof.
  intros H. rewrite (nth_indep _ d (g 0%nat)) by (now rewrite map_length, seq_length).
  rewrite (map_nth g (seq 0 n) 0%nat k). now rewrite seq_nth.
Qed.

Lemma tab_zr s f : (forall idx, inb s idx -> f idx = 0) -> Zr (tabulate s f).
Proof.
  intros H idx. unfold Regress.tget, get, tabulate. cbn [shape data].
  destruct (lt_dec (ravel s idx) (prod s)) as [Hl|Hl].
  - rewrite nth_map_seq by exact Hl. apply H. apply unravel_inb. exact Hl.
  - apply nth_overflow. rewrite map_length, seq_length. lia.
Qed.

Lemma fsumn_R_zero n f : (forall i, (i < n)%nat -> f i = 0) -> fsumn Rops n f = 0.
Proof. exact (bigsum_zero R _ _ _ _ _ _ RTheory n f). Qed.
Lemma fsum_idx_R_zero s f : (forall J, f J = 0) -> Regress.fsum_idx Rops s f = 0.
Proof. intros H. unfold Regress.fsum_idx, sum_idx. apply (bigsum_zero R _ _ _ _ _ _ RTheory). intros k _. apply H. Qed.

Lemma xty_zr X u : Zr X -> Zr (xty Rops X u).
Proof. intros H. apply tab_zr. intros J _. apply fsumn_R_zero. intros i _. rewrite H. cbn. ring. Qed.
Lemma mode_factor_zr Z ls m : Zr Z -> Zr (mode_factor Rops Z ls m).
Proof. intros H. apply tab_zr. intros idx _. apply fsum_idx_R_zero. intros J. rewrite H. cbn. ring. Qed.
Lemma normalize_zr v : Zr v -> Zr (normalize Rops sqrt v).
Proof. intros H. apply tab_zr. intros J _. rewrite H. cbn [Rops fdiv]. unfold Rdiv. ring. Qed.

Lemma mode_sweep_zr Z modes : Zr Z -> forall ls k d, In k modes -> (k < length ls)%nat ->
  Zr (nth k (mode_sweep Rops sqrt Z ls modes) d).
Proof.
  intros HZ. induction modes as [|m r IH]; intros ls k d Hin Hk; [destruct Hin|]. cbn [mode_sweep].
  destruct (in_dec Nat.eq_dec k r) as [Hr|Hr].
  - apply IH; [exact Hr | now rewrite set_nth_length].
  - destruct Hin as [->|Hin]; [|contradiction].
    rewrite (mode_sweep_other Rops sqrt) by exact Hr. rewrite nth_set_nth_same by exact Hk.
    apply normalize_zr, mode_factor_zr, HZ.
Qed.

Lemma score_zr X ls i : Zr X -> score Rops X ls i = 0.
Proof. intros H. unfold score. apply fsum_idx_R_zero. intros J. rewrite H. cbn. ring. Qed.
Lemma scores_zr X ls : Zr X -> forall i, nth i (scores Rops X ls) 0 = 0.
Proof.
  intros H i. unfold scores. destruct (lt_dec i (nsamp X)) as [Hl|Hl].
  - rewrite nth_map_seq by exact Hl. apply score_zr, H.
  - apply nth_overflow. rewrite map_length, seq_length. lia.
Qed.

Lemma inner_step_zr X Y ls u b : Zr X ->
  Forall Zr (i_ls (inner_step Rops sqrt init X Y ls u b)) /\ (forall i, nth i (i_t (inner_step Rops sqrt init X Y ls u b)) 0 = 0).
Proof.
  intros HX. unfold inner_step. cbv zeta. cbn [i_ls i_t]. split; [|apply scores_zr, HX].
  pose proof (xty_zr X u HX) as HZ.
  destruct (2 <=? ndim (xty Rops X u))%nat.
  - apply Forall_forall. intros x Hx. destruct (In_nth _ _ (mk [] []) Hx) as (k & Hk & <-).
    rewrite (mode_sweep_length Rops sqrt) in Hk. apply mode_sweep_zr; [exact HZ | apply in_seq; lia | exact Hk].
  - constructor; [apply normalize_zr, HZ | constructor].
Qed.

Lemma deflate_zr X ls t : Zr X -> (forall i, nth i t 0 = 0) -> Zr (deflate Rops X ls t).
Proof. intros HX Ht. apply tab_zr. intros idx _. rewrite HX. change (f0 Rops) with 0. rewrite Ht. cbn. ring. Qed.

Lemma fit_loop_zr n_iter lstsq k : forall X Y T, Zr X ->
  Forall (fun c : comp => Forall Zr (c_load c) /\ (forall i, nth i (c_score c) 0 = 0))
         (fit_loop Rops (inner_cp Rops sqrt init tol n_iter) lstsq k X Y T).
Proof.
  induction k as [|k IH]; intros X Y T HX; cbn [fit_loop]; [constructor|]. cbv zeta.
  assert (HL : Forall Zr (fst (inner_cp Rops sqrt init tol n_iter X Y))).
  { unfold inner_cp. cbv zeta. cbn [fst].
    apply (inner_state_inv Rops sqrt init tol (fun st => Forall Zr (i_ls st))). intros ls u b. apply inner_step_zr, HX. }
  constructor.
  - cbn [c_load c_score]. split; [exact HL | apply scores_zr, HX].
  - apply IH. apply deflate_zr; [exact HX | apply scores_zr, HX].
Qed.

Lemma center_const_zr X n sx : shape X = n :: sx -> (0 < n)%nat -> constant_samples Rops X -> Zr (center Rops X (mean0 Rops X)).
Proof.
  intros Hs Hn Hc. apply tab_zr. intros idx Hidx. rewrite Hs in Hidx. destruct idx as [|i J]; [destruct Hidx|]. destruct Hidx as [Hi HJ].
  cbn [tl].
  assert (HsX : sshape X = sx) by (unfold sshape; now rewrite Hs).
  assert (HnX : nsamp X = n) by (unfold nsamp; now rewrite Hs).
  assert (E : tgetR (mean0 Rops X) J = tgetR X (0%nat :: J)).
  { unfold Regress.tget at 1. unfold mean0. rewrite get_tabulate by (now rewrite HsX). rewrite HnX, nat2F_INR.
    rewrite (fsumn_ext Rops n _ (fun _ => tgetR X (0%nat :: J))).
    2:{ intros k Hk. apply Hc; [now rewrite HnX | now rewrite HsX]. }
    rewrite fsumn_R_const. cbn [Rops fdiv]. assert (INR n <> 0) by (apply not_0_INR; lia). field. assumption. }
  rewrite E, (Hc i J) by (rewrite ?HnX, ?HsX; assumption). cbn. ring.
Qed.

Lemma zr_sumsq l : Zr l -> sumsq Rops l = 0.
Proof. intros H. unfold sumsq. apply fsum_idx_R_zero. intros J. rewrite H. cbn. ring. Qed.

(* constant training samples: every X loading of every component is the zero vector and every X score is 0 *)
Theorem plsr_constant_X_degenerate n_iter ncomp X Y n sx r c :
  shape X = n :: sx -> (0 < n)%nat -> constant_samples Rops X ->
  cp_plsr_fit Rops sqrt init ne_solve tol n_iter ncomp X Y = Ok r -> In c (comps r) ->
  (forall l, In l (c_load c) -> sumsq Rops l = 0 /\ forall J, tgetR l J = 0) /\ (forall t, In t (c_score c) -> t = 0).
Proof.
  intros Hs Hn Hc H Hin. rewrite (cp_plsr_fit_ok Rops sqrt init ne_solve tol _ _ _ _ _ H) in Hin.
  unfold fit_cp, fit in Hin. cbv zeta in Hin. cbn [comps] in Hin.
  pose proof (fit_loop_zr n_iter (lstsq_ne Rops ne_solve) ncomp _ (center Rops Y (mean0 Rops Y)) [] (center_const_zr X n sx Hs Hn Hc)) as HF.
  rewrite Forall_forall in HF. destruct (HF c Hin) as [H1 H2]. split.
  - intros l Hl. rewrite Forall_forall in H1. split; [apply zr_sumsq, H1, Hl | apply H1, Hl].
  - intros t Ht. destruct (In_nth _ _ 0 Ht) as (k & _ & <-). apply H2.
Qed.
(* ---- constant targets: every Y loading of every component is the zero vector and every Y score is 0 ---- *)
Lemma yscore_zr Y q : Zr Y -> forall i, nth i (yscore Rops Y q) 0 = 0.
Proof.
  intros H i. unfold yscore. destruct (lt_dec i (nsamp Y)) as [Hl|Hl].
  - rewrite nth_map_seq by exact Hl. apply fsumn_R_zero. intros o _. rewrite H. cbn. ring.
  - apply nth_overflow. rewrite map_length, seq_length. lia.
Qed.
Lemma ydeflate_zr Y Tc B q : Zr Y -> Zr q -> Zr (ydeflate Rops Y Tc B q).
Proof. intros HY Hq. apply tab_zr. intros idx _. cbv zeta. rewrite HY, Hq. cbn. ring. Qed.

Lemma inner_step_zr_Y X Y ls u b : Zr Y ->
  Zr (i_q (inner_step Rops sqrt init X Y ls u b)) /\ (forall i, nth i (i_u (inner_step Rops sqrt init X Y ls u b)) 0 = 0).
Proof.
  intros HY. unfold inner_step. cbv zeta. cbn [i_q i_u]. split; [apply normalize_zr, xty_zr, HY | apply yscore_zr, HY].
Qed.

Lemma fit_loop_zr_Y n_iter lstsq k : forall X Y T, Zr Y ->
  Forall (fun c : comp => Zr (c_yload c) /\ (forall i, nth i (c_yscore c) 0 = 0))
         (fit_loop Rops (inner_cp Rops sqrt init tol n_iter) lstsq k X Y T).
Proof.
  induction k as [|k IH]; intros X Y T HY; cbn [fit_loop]; [constructor|]. cbv zeta.
  assert (HQ : Zr (snd (inner_cp Rops sqrt init tol n_iter X Y))).
  { unfold inner_cp. cbv zeta. cbn [snd].
    apply (inner_state_inv Rops sqrt init tol (fun st => Zr (i_q st))). intros ls u b. apply inner_step_zr_Y, HY. }
  constructor.
  - cbn [c_yload c_yscore]. split; [exact HQ | apply yscore_zr, HY].
  - apply IH. apply ydeflate_zr; [exact HY | exact HQ].
Qed.

Theorem plsr_constant_Y_degenerate n_iter ncomp X Y n sy r c :
  shape Y = n :: sy -> (0 < n)%nat -> constant_samples Rops Y ->
  cp_plsr_fit Rops sqrt init ne_solve tol n_iter ncomp X Y = Ok r -> In c (comps r) ->
  (sumsq Rops (c_yload c) = 0 /\ forall J, tgetR (c_yload c) J = 0) /\ (forall t, In t (c_yscore c) -> t = 0).
Proof.
  intros Hs Hn Hc H Hin. rewrite (cp_plsr_fit_ok Rops sqrt init ne_solve tol _ _ _ _ _ H) in Hin.
  unfold fit_cp, fit in Hin. cbv zeta in Hin. cbn [comps] in Hin.
  pose proof (fit_loop_zr_Y n_iter (lstsq_ne Rops ne_solve) ncomp (center Rops X (mean0 Rops X)) _ [] (center_const_zr Y n sy Hs Hn Hc)) as HF.
  rewrite Forall_forall in HF. destruct (HF c Hin) as [H1 H2]. split.
  - split; [apply zr_sumsq, H1 | apply H1].
  - intros t Ht. destruct (In_nth _ _ 0 Ht) as (k & _ & <-). apply H2.
Qed.
End Degenerate.
