(* Link between the entrywise reconstructions used by Model/Regress.v (cp_to_tensor / tucker_to_tensor as tabulated
   sums) and the code-level models of tensorly.cp_tensor.cp_to_tensor / tensorly.tucker_tensor.tucker_to_tensor
   of Model/Factorized.v (validation, khatri_rao + dot + fold, resp. the chain of mode products), through the
   specification theorems of Proofs/FactorizedProofs*.v (property C03; imported, not edited). *)
From Coq Require Import List Arith Lia Bool Ring.
From TLV Require Import Base.Shape Base.PyList Base.Tensor Base.BigSum Base.Ops Model.Base Model.Factorized
  Proofs.BaseProofs Proofs.FactorizedProofs Proofs.FactorizedProofs5 Model.Regress.
Import ListNotations.

Section Link.
Context {F : Type} (Op : fops F).
Hypothesis Rth : ring_theory (f0 Op) (f1 Op) (fadd Op) (fmul Op) (fsub Op) (fopp Op) (@eq F).

Lemma cp_coeff_prod_entries fs : forall idx r, Regress.cp_coeff Op fs idx r = prod_entries F Op fs idx r.
Proof.
  induction fs as [|f fs IH]; intros idx r; [reflexivity|]. destruct idx as [|i idx]; [reflexivity|].
  cbn [Regress.cp_coeff prod_entries]. rewrite IH. reflexivity.
Qed.

Lemma mats_factor_rows R fs ns : mats F R fs ns -> factor_rows fs = ns.
Proof. induction 1 as [|f n fs ns Hf _ IH]; [reflexivity|]. cbn [factor_rows map]. rewrite Hf. cbn [nth]. f_equal. exact IH. Qed.

(* the weight tensor stored by CPRegressor.fit, computed by the code-level model of cp_to_tensor((weights, W)),
   is the entrywise reconstruction of Model/Regress.v *)
Theorem cp_to_tensor_link (w : tensor F) (fs : list (tensor F)) shp R :
  validate_cp (Some w) fs = Ok (shp, R) -> Forall (fun f => ndim f = 2) fs ->
  exists t, Factorized.cp_to_tensor Op (Some w) fs None = Ok t /\
    shape t = shape (Regress.cp_to_tensor Op w fs) /\
    forall idx, inb (shape t) idx -> get (f0 Op) t idx = tget Op (Regress.cp_to_tensor Op w fs) idx.
Proof.
  intros Hv H2.
  destruct (cp_to_tensor_spec F Op Rth (Some w) fs shp R Hv H2) as (t & Ht & Hst & Hg).
  pose proof (mats_factor_rows R fs shp (valid_mats F (Some w) fs shp R Hv H2)) as Hrows.
  assert (Hw : shape w = [R]) by (apply (validate_cp_iff F) in Hv; destruct Hv as (_ & _ & Hw); exact Hw).
  exists t. split; [exact Ht|]. split.
  - rewrite Hst. unfold Regress.cp_to_tensor. cbn [shape tabulate]. symmetry. exact Hrows.
  - intros idx Hi. rewrite Hst in Hi. rewrite (Hg idx Hi).
    unfold tget, Regress.cp_to_tensor. rewrite get_tabulate by (rewrite Hrows; exact Hi).
    unfold cp_entry, Regress.fsumn, Factorized.fsumn. rewrite Hw. cbn [nth].
    apply bigsum_ext. intros r Hr. unfold wv, get1. f_equal; try (symmetry; apply cp_coeff_prod_entries).
Qed.

Lemma tk_prod_none : forall (Ms : list (tensor F)) k is js, tk_prod F Op k None Ms is js = Regress.tk_coeff Op Ms is js.
Proof.
  induction Ms as [|M Ms IH]; intros k is js; [reflexivity|].
  destruct is as [|i is]; [reflexivity|]. destruct js as [|j js]; [reflexivity|].
  cbn [tk_prod Regress.tk_coeff]. rewrite IH. reflexivity.
Qed.

Lemma tk_shapes_factor_rows k fs ns cs : tk_shapes F k None fs ns cs -> factor_rows fs = ns.
Proof.
  remember None as sk eqn:E. induction 1 as [|k skip M Ms n c ns cs HM _ IH]; [reflexivity|]. subst skip.
  cbn [factor_rows map]. rewrite HM. cbn [nth]. f_equal. apply IH. reflexivity.
Qed.

(* the weight tensor stored by TuckerRegressor.fit, computed by the code-level model of tucker_to_tensor((G, W)) *)
Theorem tucker_to_tensor_link (core : tensor F) (fs : list (tensor F)) ns :
  tk_shapes F 0 None fs ns (shape core) -> wf core -> 0 < prod (shape core) -> 0 < prod ns ->
  exists t, Factorized.tucker_to_tensor Op core fs None false = Ok t /\
    shape t = shape (Regress.tucker_to_tensor Op core fs) /\
    forall idx, inb (shape t) idx -> get (f0 Op) t idx = tget Op (Regress.tucker_to_tensor Op core fs) idx.
Proof.
  intros Hsh W Hp Hn.
  destruct (tucker_to_tensor_spec F Op Rth core fs ns None Hsh W Hp Hn) as (t & Ht & Hst & Hg).
  pose proof (tk_shapes_factor_rows 0 fs ns (shape core) Hsh) as Hrows.
  exists t. split; [exact Ht|]. split.
  - rewrite Hst. unfold Regress.tucker_to_tensor. cbn [shape tabulate]. symmetry. exact Hrows.
  - intros idx Hi. rewrite Hst in Hi. rewrite (Hg idx Hi).
    unfold tget, Regress.tucker_to_tensor. rewrite get_tabulate by (rewrite Hrows; exact Hi).
    unfold Regress.fsum_idx. apply sum_idx_ext. intros js Hjs. f_equal; try apply tk_prod_none.
Qed.
End Link.
