(* Lemmas about Model/RegressObj.v: the trace of the regressors' fit loop (which pass it stops in, what n_iterations_ and
   norm_W_ are), the regressor and CP_PLSR objects under arbitrary sequences of calls. *)
From Coq Require Import List Arith Lia Bool Ring Permutation.
From TLV Require Import Base.Shape Base.PyList Base.Tensor Base.BigSum Base.Ops Model.Base Proofs.BaseProofs Model.Regress
  Proofs.RegressProofs Proofs.RegressProofsPlsr Model.RegressObj.
Import ListNotations.

(* ------------------------------------------------------------------ the trace of reg_loop *)
Section TraceP.
Context {F P : Type}.
Variable sweep : P -> P.
Variable rebuild : P -> tensor F.
Variable nrm : tensor F -> F.
Variable small : F -> F -> bool.
Variable w0 : P.

Notation passes := (passes sweep).
Notation norm_at := (norm_at sweep rebuild nrm w0).
Notation stop_test := (stop_test sweep rebuild nrm small w0).
Definition norms_upto (k : nat) : list F := rev (map norm_at (seq 1 k)).

Lemma norms_upto_S k : norms_upto (S k) = norm_at (S k) :: norms_upto k.
Proof. unfold norms_upto. rewrite seq_S, map_app, rev_app_distr. reflexivity. Qed.
Lemma norms_upto_length k : length (norms_upto k) = k.
Proof. unfold norms_upto. now rewrite rev_length, map_length, seq_length. Qed.

Lemma reg_loop_trace fuel : forall it w wt,
  w = passes it w0 -> (forall j, 3 <= j <= it -> stop_test j = false) ->
  forall w' wt' ns, reg_loop sweep rebuild nrm small fuel it w wt (norms_upto it) = (w', wt', ns) ->
  let k := length ns in
  it <= k <= it + fuel /\ (0 < fuel -> it < k /\ wt' = Some (rebuild (passes k w0))) /\
  w' = passes k w0 /\ ns = norms_upto k /\
  (forall j, 3 <= j < k -> stop_test j = false) /\
  (k < it + fuel -> 3 <= k /\ stop_test k = true).
Proof.
  induction fuel as [|f IH]; intros it w wt Hw Hns w' wt' ns E; cbn [reg_loop] in E.
  - injection E as <- <- <-. rewrite norms_upto_length. cbv zeta.
    refine (conj _ (conj _ (conj _ (conj _ (conj _ _))))); try lia; auto.
    intros j Hj. apply Hns. lia.
  - cbv zeta in E.
    assert (Hw' : sweep w = passes (S it) w0) by (subst w; reflexivity).
    assert (Hn' : nrm (rebuild (sweep w)) :: norms_upto it = norms_upto (S it)).
    { rewrite norms_upto_S. unfold RegressObj.norm_at. now rewrite <- Hw'. }
    rewrite Hn' in E.
    assert (Hrec : stop_test (S it) = false \/ it <= 1 -> (forall j, 3 <= j <= it -> stop_test j = false) ->
              reg_loop sweep rebuild nrm small f (S it) (sweep w) (Some (rebuild (sweep w))) (norms_upto (S it)) = (w', wt', ns) ->
              let k := length ns in
              it <= k <= it + S f /\ (0 < S f -> it < k /\ wt' = Some (rebuild (passes k w0))) /\
              w' = passes k w0 /\ ns = norms_upto k /\ (forall j, 3 <= j < k -> stop_test j = false) /\
              (k < it + S f -> 3 <= k /\ stop_test k = true)).
    { intros Hst Hns0 E0.
      assert (Hns' : forall j, 3 <= j <= S it -> stop_test j = false).
      { intros j Hj. destruct (Nat.eq_dec j (S it)) as [->|]; [|apply Hns0; lia].
        destruct Hst as [Hst|Hst]; [exact Hst|lia]. }
      pose proof (IH (S it) (sweep w) (Some (rebuild (sweep w))) Hw' Hns' w' wt' ns E0) as H.
      cbv zeta in H |- *. destruct H as (H1 & H2 & H3 & H4 & H5 & H6).
      refine (conj _ (conj _ (conj _ (conj _ (conj _ _))))); try lia; auto.
      - intros _. destruct f as [|f'].
        + cbn [reg_loop] in E0. injection E0 as <- <- <-. rewrite norms_upto_length. split; [lia|now rewrite Hw'].
        + destruct (H2 ltac:(lia)) as [Ha Hb]. split; [lia|exact Hb].
      - intros Hk. apply H6. lia. }
    destruct (1 <? it) eqn:Hit; cbn [andb] in E.
    + apply Nat.ltb_lt in Hit.
      assert (Htest : match norms_upto it with [] => false | b :: _ => small (nrm (rebuild (sweep w))) b end = stop_test (S it)).
      { destruct it as [|it']; [lia|]. rewrite norms_upto_S.
        unfold RegressObj.stop_test, RegressObj.norm_at. rewrite Hw'. now replace (S (S it') - 1) with (S it') by lia. }
      rewrite Htest in E. destruct (stop_test (S it)) eqn:Hst.
      * injection E as <- <- <-. rewrite norms_upto_length. cbv zeta. rewrite Hw'.
        split; [lia|]. split; [intros _; split; [lia|reflexivity]|]. split; [reflexivity|]. split; [reflexivity|].
        split; [intros j Hj; apply Hns; lia | intros _; split; [lia|exact Hst]].
      * apply Hrec; auto.
    + apply Nat.ltb_ge in Hit. apply Hrec; auto.
Qed.

(* CPRegressor.fit / TuckerRegressor.fit: n_iterations_ = k passes were executed, 1 <= k <= n_iter_max; the exposed blocks
   and weight_tensor_ are those after exactly k passes; norm_W_ lists the norms after passes 1..k; no pass before k met the
   stopping test, and if the budget was not exhausted then k >= 3 and pass k met it.  Hence k = min(n_iter_max, first
   pass >= 3 whose relative norm change is <= tol): the same statement for a fit stopped by n_iter_max and by tolerance *)
Theorem reg_fit_trace n_iter r : reg_fit_full sweep rebuild nrm small n_iter w0 = Ok r ->
  let k := rf_n_iterations r in
  1 <= k <= n_iter /\
  r_blocks (rf_stored r) = passes k w0 /\
  r_weight_tensor (rf_stored r) = rebuild (passes k w0) /\
  r_vec (rf_stored r) = tensor_to_vec (rebuild (passes k w0)) /\
  rf_norm_W r = map norm_at (seq 1 k) /\
  (forall j, 3 <= j < k -> stop_test j = false) /\
  (k < n_iter -> 3 <= k /\ stop_test k = true).
Proof.
  unfold reg_fit_full.
  destruct (reg_loop sweep rebuild nrm small n_iter 0 w0 None []) as [[w wt] ns] eqn:E.
  destruct wt as [t|]; [|discriminate]. intros H. injection H as <-.
  cbn [rf_n_iterations rf_stored rf_norm_W r_blocks r_weight_tensor r_vec]. cbv zeta.
  change (@nil F) with (norms_upto 0) in E.
  pose proof (reg_loop_trace n_iter 0 w0 None eq_refl (fun j Hj => ltac:(lia)) w (Some t) ns E) as H.
  cbv zeta in H. destruct H as (H1 & H2 & H3 & H4 & H5 & H6).
  destruct n_iter as [|n].
  - cbn [reg_loop] in E. discriminate.
  - destruct (H2 ltac:(lia)) as [Hk Ht]. injection Ht as ->. subst w.
    split; [lia|]. split; [reflexivity|]. split; [reflexivity|]. split; [reflexivity|].
    split; [rewrite H4 at 1; unfold norms_upto; now rewrite rev_involutive|].
    split; [exact H5|]. intros Hlt. apply H6. lia.
Qed.

Theorem reg_fit_full_stored n_iter :
  reg_fit sweep rebuild nrm small n_iter w0 =
  match reg_fit_full sweep rebuild nrm small n_iter w0 with Ok r => Ok (rf_stored r) | Err => Err end.
Proof.
  unfold reg_fit, reg_fit_full.
  destruct (reg_loop sweep rebuild nrm small n_iter 0 w0 None []) as [[w wt] ns]. now destruct wt.
Qed.

(* a budget that is never cut short by the test runs all passes *)
Corollary reg_fit_exhausts n_iter r : reg_fit_full sweep rebuild nrm small n_iter w0 = Ok r ->
  (forall j, 3 <= j <= n_iter -> stop_test j = false) -> rf_n_iterations r = n_iter.
Proof.
  intros H Hno. pose proof (reg_fit_trace n_iter r H) as T. cbv zeta in T.
  destruct T as (H1 & _ & _ & _ & _ & _ & H6).
  destruct (Nat.eq_dec (rf_n_iterations r) n_iter) as [|Hne]; [assumption|].
  destruct (H6 ltac:(lia)) as [H3 Hs]. rewrite Hno in Hs by lia. discriminate.
Qed.

(* norm_W_[-1] is the norm of the stored weight_tensor_ (the tensor of the last executed pass) *)
Corollary reg_fit_last_norm n_iter r d : reg_fit_full sweep rebuild nrm small n_iter w0 = Ok r ->
  last (rf_norm_W r) d = nrm (r_weight_tensor (rf_stored r)) /\ length (rf_norm_W r) = rf_n_iterations r.
Proof.
  intros H. pose proof (reg_fit_trace n_iter r H) as T. cbv zeta in T.
  destruct T as (H1 & _ & Hw & _ & Hn & _). rewrite Hn, Hw, map_length, seq_length. split; [|reflexivity].
  destruct (rf_n_iterations r) as [|k]; [lia|]. rewrite seq_S, map_app. cbn [map]. rewrite last_last. reflexivity.
Qed.
End TraceP.

(* ------------------------------------------------------------------ a regressor object under a sequence of calls *)
Section RegObjP.
Context {F Prm D St : Type}.
Variable fit_of : Prm -> D -> res St.
Variable predict_of : St -> tensor F -> res (tensor F).
Notation rstep := (rstep fit_of predict_of).
Notation rrun := (rrun fit_of predict_of).

Lemma rrun_app a : forall o b,
  rrun o (a ++ b) = (fst (rrun (fst (rrun o a)) b), snd (rrun o a) ++ snd (rrun (fst (rrun o a)) b)).
Proof.
  induction a as [|c a IH]; intros o b; cbn [app RegressObj.rrun fst snd].
  - now destruct (rrun o b).
  - rewrite IH. reflexivity.
Qed.

(* predict on an object that has no attributes raises (AttributeError) *)
Theorem robj_predict_unfitted p X : snd (rstep (mkRobj p None) (RPredict X)) = ORaise.
Proof. reflexivity. Qed.

(* whatever every successful fit establishes holds of the attributes in every reachable state *)
Theorem robj_reachable_inv (Inv : St -> Prop) : (forall p d st, fit_of p d = Ok st -> Inv st) ->
  forall cs o, (forall st, o_attrs o = Some st -> Inv st) ->
  forall st, o_attrs (fst (rrun o cs)) = Some st -> Inv st.
Proof.
  intros Hfit. induction cs as [|c cs IH]; intros o Ho st; cbn [RegressObj.rrun fst]; [apply Ho|].
  apply IH. destruct c as [d|X|p|]; cbn [RegressObj.rstep fst]; try exact Ho.
  destruct (fit_of (o_params o) d) as [st'|] eqn:E; cbn [fst o_attrs]; [|exact Ho].
  intros st0 H0. injection H0 as <-. eapply Hfit; exact E.
Qed.

(* calls that are not a successful fit (predict, get_params, set_params, a fit that raises) leave the attributes alone *)
Notation no_refit := (no_refit fit_of predict_of).
Theorem robj_frame cs : forall o, no_refit o cs -> o_attrs (fst (rrun o cs)) = o_attrs o.
Proof.
  induction cs as [|c cs IH]; intros o H; cbn [RegressObj.rrun fst]; [reflexivity|].
  destruct H as [Hk Hr]. rewrite (IH _ Hr).
  destruct c as [d|X|p|]; cbn [RegressObj.rstep fst o_attrs]; try reflexivity.
  cbn [keeps_attrs] in Hk. now rewrite Hk.
Qed.

(* the constructor parameters in force are those of the last set_params *)
Theorem robj_params cs : forall o, o_params (fst (rrun o cs)) = last_params (o_params o) cs.
Proof.
  induction cs as [|c cs IH]; intros o; cbn [RegressObj.rrun fst RegressObj.last_params fold_left]; [reflexivity|].
  rewrite IH. unfold RegressObj.last_params. f_equal.
  destruct c as [d|X|p|]; cbn [RegressObj.rstep fst o_params]; try reflexivity.
  now destruct (fit_of (o_params o) d).
Qed.

(* a successful fit re-binds the attributes to those computed from the parameters in force and its own arguments: nothing of
   an earlier fit survives *)
Theorem robj_fit_overwrites o cs d st : fit_of (last_params (o_params o) cs) d = Ok st ->
  o_attrs (fst (rrun o (cs ++ [RFit d]))) = Some st.
Proof.
  intros H. rewrite rrun_app. cbn [fst RegressObj.rrun RegressObj.rstep]. rewrite robj_params, H. reflexivity.
Qed.

(* every predict of a history answers with the attributes bound at that moment *)
Theorem robj_predict_uses_current cs1 X cs2 o :
  nth (length cs1) (snd (rrun o (cs1 ++ RPredict X :: cs2))) ORaise =
  match o_attrs (fst (rrun o cs1)) with
  | None => ORaise
  | Some st => match predict_of st X with Ok t => OTensor t | Err => ORaise end
  end.
Proof.
  rewrite rrun_app. cbn [snd].
  assert (L : length (snd (rrun o cs1)) = length cs1).
  { clear. revert o. induction cs1 as [|c cs IH]; intros o; cbn [RegressObj.rrun snd length]; [reflexivity|now rewrite IH]. }
  rewrite app_nth2 by lia. rewrite L, Nat.sub_diag. reflexivity.
Qed.
End RegObjP.

(* ------------------------------------------------------------------ the two regressors as objects *)
Section RegObjInst.
Context {F : Type} (Op : fops F).
Context {Prm D : Type}.
Notation blocks := (tensor F * list (tensor F))%type.
Variable sweep_of : Prm -> D -> blocks -> blocks.
Variable nrm : tensor F -> F.
Variable small_of : Prm -> F -> F -> bool.
Variable niter_of : Prm -> nat.
Variable w0_of : Prm -> D -> blocks.

Definition cp_obj_fit (p : Prm) (d : D) : res (reg_stored (F:=F) (P:=blocks)) :=
  reg_fit (sweep_of p d) (cp_rebuild Op) nrm (small_of p) (niter_of p) (w0_of p d).
Definition cp_obj_predict (st : reg_stored (F:=F) (P:=blocks)) (X : tensor F) := predict_cp Op (r_weight_tensor st) X.
Definition tk_obj_fit (p : Prm) (d : D) : res (reg_stored (F:=F) (P:=blocks)) :=
  reg_fit (sweep_of p d) (tucker_rebuild Op) nrm (small_of p) (niter_of p) (w0_of p d).
Definition tk_obj_predict (st : reg_stored (F:=F) (P:=blocks)) (X : tensor F) :=
  rbind (r_vec st) (fun v => predict_tucker Op v X).

(* CPRegressor: after ANY sequence of fit (successful or raising) / set_params / get_params / predict calls on one object,
   a predict call answers with the contraction of each sample with the CP reconstruction of the factors the object exposes
   at that moment *)
Theorem cp_obj_history_predict cs p0 st X n sx so :
  o_attrs (fst (rrun cp_obj_fit cp_obj_predict (mkRobj p0 None) cs)) = Some st ->
  wf X -> shape X = n :: sx -> sx <> [] -> factor_rows (snd (r_blocks st)) = sx ++ so -> 0 < n -> 0 < prod so ->
  r_weight_tensor st = cp_rebuild Op (r_blocks st) /\ r_vec st = tensor_to_vec (r_weight_tensor st) /\
  exists Pr, snd (rstep cp_obj_fit cp_obj_predict (fst (rrun cp_obj_fit cp_obj_predict (mkRobj p0 None) cs)) (RPredict X)) = OTensor Pr /\
    shape Pr = n :: so /\
    forall i o, i < n -> inb so o ->
      tget Op Pr (i :: o) = fsum_idx Op sx (fun J => fmul Op (tget Op X (i :: J))
        (fsumn Op (nth 0 (shape (fst (r_blocks st))) 0)
               (fun r => fmul Op (tget Op (fst (r_blocks st)) [r]) (cp_coeff Op (snd (r_blocks st)) (J ++ o) r)))).
Proof.
  intros Hat WX HsX Hsx Hfr Hn Hso.
  assert (Hinv : exists p d, cp_obj_fit p d = Ok st).
  { apply (robj_reachable_inv cp_obj_fit cp_obj_predict (fun st => exists p d, cp_obj_fit p d = Ok st)) with (cs := cs) (o := mkRobj p0 None).
    - intros p d st' E. now exists p, d.
    - cbn. discriminate.
    - exact Hat. }
  destruct Hinv as (p & d & E). unfold cp_obj_fit in E.
  destruct (reg_fit_consistent _ _ _ _ _ _ _ E) as [C1 C2].
  split; [exact C1|]. split; [exact C2|].
  destruct (cp_fit_predict Op _ _ _ _ _ st X n sx so E WX HsX Hsx Hfr Hn Hso) as (Pr & HP & HS & HV).
  exists Pr. cbn [RegressObj.rstep snd]. rewrite Hat. unfold cp_obj_predict. rewrite HP. auto.
Qed.

Theorem tk_obj_history_predict cs p0 st X n sx :
  o_attrs (fst (rrun tk_obj_fit tk_obj_predict (mkRobj p0 None) cs)) = Some st ->
  wf X -> shape X = n :: sx -> sx <> [] -> factor_rows (snd (r_blocks st)) = sx -> 0 < n ->
  r_weight_tensor st = tucker_rebuild Op (r_blocks st) /\ r_vec st = tensor_to_vec (r_weight_tensor st) /\
  exists Pr, snd (rstep tk_obj_fit tk_obj_predict (fst (rrun tk_obj_fit tk_obj_predict (mkRobj p0 None) cs)) (RPredict X)) = OTensor Pr /\
    shape Pr = [n] /\
    forall i, i < n ->
      tget Op Pr [i] = fsum_idx Op sx (fun J => fmul Op (tget Op X (i :: J))
        (fsum_idx Op (shape (fst (r_blocks st))) (fun K => fmul Op (tget Op (fst (r_blocks st)) K) (tk_coeff Op (snd (r_blocks st)) J K)))).
Proof.
  intros Hat WX HsX Hsx Hfr Hn.
  assert (Hinv : exists p d, tk_obj_fit p d = Ok st).
  { apply (robj_reachable_inv tk_obj_fit tk_obj_predict (fun st => exists p d, tk_obj_fit p d = Ok st)) with (cs := cs) (o := mkRobj p0 None).
    - intros p d st' E. now exists p, d.
    - cbn. discriminate.
    - exact Hat. }
  destruct Hinv as (p & d & E). unfold tk_obj_fit in E.
  destruct (reg_fit_consistent _ _ _ _ _ _ _ E) as [C1 C2].
  split; [exact C1|]. split; [exact C2|].
  destruct (tucker_fit_predict Op _ _ _ _ _ st X n sx E WX HsX Hsx Hfr Hn) as (Pr & HP & HS & HV).
  exists Pr. cbn [RegressObj.rstep snd]. rewrite Hat. unfold tk_obj_predict. rewrite HP. auto.
Qed.
End RegObjInst.

(* ------------------------------------------------------------------ the CP_PLSR object *)
Lemma nl_eqb_refl a : nl_eqb a a = true.
Proof. induction a; cbn; [reflexivity|]. now rewrite Nat.eqb_refl. Qed.

Section PlsrObjP.
Context {F : Type} (Op : fops F).
Variable sqrtF : F -> F.
Variable init : tensor F -> list (tensor F).
Variable ne_solve : list (list F) -> list F -> list F.
Notation fit_entry := (plsr_fit_entry Op sqrtF init ne_solve).
Notation pstep := (pstep Op sqrtF init ne_solve).
Notation prun := (prun Op sqrtF init ne_solve).

(* the components are nested: the scores over the first j fitted components are the first j score columns (what
   transform(X) returns after set_params(n_components=j), j below the fitted width) *)
Theorem transform_cols_firstn j : forall loads X,
  transform_cols Op X (firstn j loads) = firstn j (transform_cols Op X loads).
Proof.
  induction j as [|j IH]; intros loads X; [reflexivity|].
  destruct loads as [|ls rest]; [reflexivity|]. cbn [firstn transform_cols]. cbv zeta. f_equal. apply IH.
Qed.

Lemma fit_loop_length (inner : tensor F -> tensor F -> list (tensor F) * tensor F) lstsq k :
  forall X Y T, length (fit_loop Op inner lstsq k X Y T) = k.
Proof. induction k; intros; cbn [fit_loop length]; [reflexivity|]. cbv zeta. cbn [length]. now rewrite IHk. Qed.

(* what a successful fit call establishes *)
Lemma fit_entry_ok p X Y a : fit_entry p X Y = FitOk a ->
  let Y2 := as_matrix Y in
  a_xshape a = shape X /\ a_yshape a = shape Y2 /\
  cp_plsr_fit Op sqrtF init ne_solve (pp_tol p) (pp_niter p) (pp_ncomp p) X Y2 = Ok (a_fit a) /\
  a_fit a = fit_cp Op sqrtF init ne_solve (pp_tol p) (pp_niter p) (pp_ncomp p) X Y2 /\
  fitted_width a = pp_ncomp p /\ ((ndim Y =? 1) || (ndim Y =? 2)) = true /\ nsamp X = nsamp (as_matrix Y).
Proof.
  unfold RegressObj.plsr_fit_entry. destruct (shape X) as [|nx sx] eqn:HX; [discriminate|].
  destruct (shape Y) as [|ny sy] eqn:HY; [discriminate|].
  destruct (nx =? ny) eqn:En; cbn [negb]; [apply Nat.eqb_eq in En|discriminate]. destruct (ndim X <? 2); [discriminate|].
  assert (Hns : nsamp X = nsamp (as_matrix Y)).
  { unfold nsamp, as_matrix. rewrite HX, HY. destruct sy as [|m l]; cbn [shape hd]; [exact En|]. rewrite HY. exact En. }
  destruct ((ndim Y =? 1) || (ndim Y =? 2)) eqn:HnY; cbn [negb]; [|discriminate].
  destruct (cp_plsr_fit _ _ _ _ _ _ _ _ _) as [r|] eqn:E; [|discriminate].
  intros H. injection H as <-. cbv zeta. cbn [a_xshape a_yshape a_fit].
  pose proof (cp_plsr_fit_ok Op sqrtF init ne_solve (pp_tol p) _ _ _ _ _ E) as Hr.
  repeat split; auto.
  unfold fitted_width. cbn [a_fit]. rewrite Hr. unfold fit_cp, fit. cbn [comps]. apply fit_loop_length.
Qed.

(* fit(X, Y) followed by transform(X) on the same object returns the fitted X scores: at the level of the entry points
   (validation, vector-valued Y, the call-time n_components), after any earlier history of the object *)
Theorem plsr_obj_fit_then_transform o X Y a : fit_entry (po_prm o) X Y = FitOk a ->
  pstep o (PFit X Y) = (mkPobj (po_prm o) (Some a), PSelf) /\
  snd (pstep (mkPobj (po_prm o) (Some a)) (PTransform X None)) =
    PTensor (cols_to_matrix Op (nsamp X) (fitted_scores (a_fit a))).
Proof.
  intros H. pose proof (fit_entry_ok _ _ _ _ H) as K. cbv zeta in K. destruct K as (Hx & Hy & _ & Hfit & Hw & _ & _).
  split; [cbn [RegressObj.pstep]; now rewrite H|].
  cbn [RegressObj.pstep snd po_attrs po_prm]. unfold plsr_transform_entry.
  rewrite Hx, nl_eqb_refl. cbn [negb]. rewrite Hw, Nat.ltb_irrefl.
  cbn [out_of_transform]. f_equal. f_equal.
  rewrite <- Hw at 1. unfold fitted_width, loadings. rewrite <- (map_length (c_load (F:=F))), firstn_all.
  rewrite Hfit. unfold fit_cp, fit, fitted_scores. cbn [X_mean_ comps].
  apply transform_replays_fit.
Qed.

(* after set_params(n_components = j) with j at most the fitted width, transform(X_train) returns the first j fitted score
   columns; with j above the fitted width it raises *)
Theorem plsr_obj_transform_fewer o X Y a j tolv nit : fit_entry (po_prm o) X Y = FitOk a ->
  snd (pstep (mkPobj (mkPprm j nit tolv) (Some a)) (PTransform X None)) =
    if j <=? pp_ncomp (po_prm o) then PTensor (cols_to_matrix Op (nsamp X) (firstn j (fitted_scores (a_fit a)))) else PRaise.
Proof.
  intros H. pose proof (fit_entry_ok _ _ _ _ H) as K. cbv zeta in K. destruct K as (Hx & Hy & _ & Hfit & Hw & _ & _).
  cbn [RegressObj.pstep snd po_attrs po_prm]. unfold plsr_transform_entry. cbn [pp_ncomp].
  rewrite Hx, nl_eqb_refl. cbn [negb]. rewrite Hw.
  destruct (j <=? pp_ncomp (po_prm o)) eqn:Hj.
  - apply Nat.leb_le in Hj. destruct (pp_ncomp (po_prm o) <? j) eqn:Hlt; [apply Nat.ltb_lt in Hlt; lia|].
    cbn [out_of_transform]. f_equal. f_equal. rewrite transform_cols_firstn. f_equal.
    rewrite Hfit. unfold fit_cp, fit, fitted_scores, loadings. cbn [X_mean_ comps]. apply transform_replays_fit.
  - apply Nat.leb_gt in Hj. destruct (pp_ncomp (po_prm o) <? j) eqn:Hlt; [reflexivity|apply Nat.ltb_ge in Hlt; lia].
Qed.

(* predict / transform on an object without attributes raise; a fit rejected by the validation leaves the object as it was *)
Theorem plsr_obj_unfitted p X Yo :
  snd (pstep (mkPobj p None) (PPredict X)) = PRaise /\ snd (pstep (mkPobj p None) (PTransform X Yo)) = PRaise.
Proof. split; reflexivity. Qed.
Theorem plsr_obj_rejected_fit_keeps o X Y : fit_entry (po_prm o) X Y = FitRaiseClean -> pstep o (PFit X Y) = (o, PRaise).
Proof. intros H. cbn [RegressObj.pstep]. now rewrite H. Qed.

(* which fits are rejected by the validation, raise in the component loop, succeed *)
Theorem plsr_fit_entry_cases p X Y nx sx ny sy : shape X = nx :: sx -> shape Y = ny :: sy ->
  match fit_entry p X Y with
  | FitRaiseClean => nx <> ny \/ sx = [] \/ 2 <= length sy
  | FitRaisePartial a => nx = ny /\ sx <> [] /\ length sy <= 1 /\ pp_niter p = 0 /\ 0 < pp_ncomp p /\
                         a_xshape a = shape X /\ a_fit a = zero_plsr Op (pp_ncomp p) X (as_matrix Y)
  | FitOk a => nx = ny /\ sx <> [] /\ length sy <= 1 /\ (0 < pp_niter p \/ pp_ncomp p = 0)
  end.
Proof.
  intros HX HY. unfold RegressObj.plsr_fit_entry, ndim. rewrite HX, HY. cbn [length].
  destruct (nx =? ny) eqn:En; cbn [negb]; [apply Nat.eqb_eq in En|apply Nat.eqb_neq in En; now left].
  destruct sx as [|d sx']; cbn [length Nat.ltb Nat.leb]; [right; now left|].
  destruct sy as [|m [|m' sy']]; cbn [length Nat.eqb orb negb].
  1,2: unfold cp_plsr_fit; destruct (pp_niter p) as [|k] eqn:Hk; cbn [Nat.eqb andb];
       [destruct (pp_ncomp p) as [|c] eqn:Hc; cbn [Nat.ltb Nat.leb andb];
        [repeat split; auto; try discriminate; try lia|cbn [a_xshape a_fit]; repeat split; auto; try discriminate; lia]
       |repeat split; auto; try discriminate; lia].
  right; right. lia.
Qed.

(* the entry points raise on shape grounds exactly as the shape tests of Model/RegressObj.v say (the tests that the harness
   regenerates from the Python source on every run) *)
Theorem plsr_entry_shape_tests p X Y a Xn Yn :
  (fit_entry p X Y = FitRaiseClean <-> plsr_fit_rejects (shape X) (shape Y) = true) /\
  shape (as_matrix Y) = y_matrix_shape (shape Y) /\
  (plsr_new_x_rejects (a_xshape a) (shape Xn) = true ->
     plsr_predict_entry Op p a Xn = Err /\ forall Yo, plsr_transform_entry Op p a Xn Yo = Err) /\
  (plsr_new_y_rejects (a_yshape a) (shape Yn) = true -> plsr_transform_entry Op p a Xn (Some Yn) = Err).
Proof.
  split; [|split; [|split]].
  - unfold RegressObj.plsr_fit_entry, plsr_fit_rejects, ndim.
    destruct (shape X) as [|nx sx]; [tauto|]. destruct (shape Y) as [|ny sy]; [tauto|].
    destruct (negb (nx =? ny)); cbn [orb]; [tauto|].
    destruct (length (nx :: sx) <? 2); cbn [orb]; [tauto|].
    destruct ((length (ny :: sy) =? 1) || (length (ny :: sy) =? 2)); cbn [negb]; [|tauto].
    destruct (cp_plsr_fit _ _ _ _ _ _ _ _ _); split; discriminate.
  - unfold as_matrix, y_matrix_shape. destruct (shape Y) as [|n [|m l]] eqn:E; cbn [shape]; auto.
  - unfold plsr_new_x_rejects. intros H. split; [unfold plsr_predict_entry|intros Yo; unfold plsr_transform_entry]; now rewrite H.
  - unfold plsr_new_y_rejects, plsr_transform_entry, ndim. intros H.
    destruct (negb (nl_eqb (tl (a_xshape a)) (tl (shape Xn)))); [reflexivity|].
    destruct (fitted_width a <? pp_ncomp p); [reflexivity|].
    destruct (negb ((length (shape Yn) =? 1) || (length (shape Yn) =? 2))); [reflexivity|]. cbn [orb] in H.
    assert (E : shape (as_matrix Yn) = y_matrix_shape (shape Yn))
      by (unfold as_matrix, y_matrix_shape; destruct (shape Yn) as [|n [|m l]] eqn:E0; cbn [shape]; auto).
    rewrite E, H. reflexivity.
Qed.

(* a fit interrupted by lstsq raising at component c: the exposed components are those of the un-interrupted fit before c, component
   c without its coef_ column, zero columns after *)
Lemma zero_comp_shape (X Y X' Y' : tensor F) : shape X' = shape X -> shape Y' = shape Y -> zero_comp Op X' Y' = zero_comp Op X Y.
Proof. intros HX HY. unfold zero_comp, sshape, nsamp. now rewrite HX, HY. Qed.

Lemma fit_loop_until_spec (inner : tensor F -> tensor F -> list (tensor F) * tensor F) lstsq d : forall c k X Y T, c < k ->
  fit_loop_until Op inner lstsq c k X Y T =
  firstn c (fit_loop Op inner lstsq k X Y T) ++ strip_B (nth c (fit_loop Op inner lstsq k X Y T) d) :: repeat (zero_comp Op X Y) (k - S c).
Proof.
  induction c as [|c IH]; intros [|k] X Y T Hk; try lia; cbn [fit_loop_until fit_loop firstn nth app]; cbv zeta.
  - unfold strip_B. cbn [c_load c_score c_yload c_yscore Nat.sub]. rewrite ?Nat.sub_0_r. reflexivity.
  - cbn [app]. f_equal. rewrite IH by lia. cbn [Nat.sub].
    rewrite (zero_comp_shape X Y (deflate Op X (fst (inner X Y)) (scores Op X (fst (inner X Y)))) _) by reflexivity. reflexivity.
Qed.

Theorem plsr_fit_raising_spec c p X Y a : fit_entry p X Y = FitOk a -> c < pp_ncomp p ->
  exists a', plsr_fit_entry_raising Op sqrtF init ne_solve c p X Y = FitRaisePartial a' /\
    a_xshape a' = a_xshape a /\ a_yshape a' = a_yshape a /\
    X_mean_ (a_fit a') = X_mean_ (a_fit a) /\ Y_mean_ (a_fit a') = Y_mean_ (a_fit a) /\
    comps (a_fit a') = firstn c (comps (a_fit a)) ++ strip_B (nth c (comps (a_fit a)) (zero_comp Op X (as_matrix Y)))
                       :: repeat (zero_comp Op X (as_matrix Y)) (pp_ncomp p - S c).
Proof.
  intros H Hc. pose proof (fit_entry_ok _ _ _ _ H) as K. cbv zeta in K. destruct K as (Hx & Hy & _ & Hfit & _).
  unfold plsr_fit_entry_raising. rewrite H. apply Nat.ltb_lt in Hc. rewrite Hc. apply Nat.ltb_lt in Hc.
  eexists. split; [reflexivity|]. cbn [a_xshape a_yshape a_fit X_mean_ Y_mean_ comps]. rewrite Hx, Hy, Hfit.
  unfold fit_cp, fit. cbn [X_mean_ Y_mean_ comps]. repeat split.
  rewrite (fit_loop_until_spec _ _ (zero_comp Op X (as_matrix Y))) by exact Hc. reflexivity.
Qed.

(* histories of the CP_PLSR object *)
Lemma prun_app a : forall o b,
  prun o (a ++ b) = (fst (prun (fst (prun o a)) b), snd (prun o a) ++ snd (prun (fst (prun o a)) b)).
Proof.
  induction a as [|c a IH]; intros o b; cbn [app RegressObj.prun fst snd].
  - now destruct (prun o b).
  - rewrite IH. reflexivity.
Qed.

(* the attributes of every reachable state were bound by ONE fit call (successful, or raising inside its component loop):
   whatever every such call establishes holds in every reachable state *)
Theorem pobj_reachable_inv (Inv : pattrs -> Prop) :
  (forall p X Y a, fit_entry p X Y = FitOk a \/ fit_entry p X Y = FitRaisePartial a -> Inv a) ->
  forall cs o, (forall a, po_attrs o = Some a -> Inv a) -> forall a, po_attrs (fst (prun o cs)) = Some a -> Inv a.
Proof.
  intros Hfit. induction cs as [|c cs IH]; intros o Ho a; cbn [RegressObj.prun fst]; [apply Ho|].
  apply IH. destruct c as [X Y|X|X Yo|X Y|p]; cbn [RegressObj.pstep fst]; try exact Ho.
  - destruct (fit_entry (po_prm o) X Y) as [|a'|a'] eqn:E; cbn [fst po_attrs]; [exact Ho| |];
      intros a0 H0; injection H0 as <-; eapply Hfit; [right|left]; exact E.
  - destruct (fit_entry (po_prm o) X Y) as [|a'|a'] eqn:E; cbn [fst po_attrs]; [exact Ho| |];
      intros a0 H0; injection H0 as <-; eapply Hfit; [right|left]; exact E.
Qed.

(* e.g. the recorded shapes: X_shape_ has at least two modes, Y_shape_ exactly two, the first modes agree, and the number of
   exposed components is the n_components of that fit call *)
Theorem pobj_reachable_shapes cs p0 a :
  po_attrs (fst (prun (mkPobj p0 None) cs)) = Some a -> attrs_shapes_ok a.
Proof.
  apply (pobj_reachable_inv attrs_shapes_ok); [|cbn; discriminate].
  clear. intros p X Y a H. unfold RegressObj.plsr_fit_entry, ndim in H.
  destruct (shape X) as [|nx sx] eqn:HX; [destruct H; discriminate|].
  destruct (shape Y) as [|ny sy] eqn:HY; [destruct H; discriminate|].
  destruct (nx =? ny) eqn:En; cbn [negb] in H; [apply Nat.eqb_eq in En|destruct H; discriminate].
  destruct (length (nx :: sx) <? 2) eqn:El; [destruct H; discriminate|]. apply Nat.ltb_ge in El.
  assert (HY2 : length (shape (as_matrix Y)) = 2 /\ hd 0 (shape (as_matrix Y)) = ny).
  { unfold as_matrix. rewrite HY. destruct sy as [|m [|m' l]]; cbn [shape length hd]; try rewrite HY; cbn [length hd]; auto.
    cbn [length Nat.eqb orb negb] in H. destruct H; discriminate. }
  destruct ((length (ny :: sy) =? 1) || (length (ny :: sy) =? 2)); cbn [negb] in H; [|destruct H; discriminate].
  destruct (cp_plsr_fit _ _ _ _ _ _ _ _ _); destruct H as [H|H]; try discriminate; injection H as <-;
    unfold attrs_shapes_ok; cbn [a_xshape a_yshape hd]; rewrite ?HX; cbn [hd]; destruct HY2 as [-> ->]; auto.
Qed.

(* every predict of a history answers from the attributes and the n_components in force at that moment *)
Theorem pobj_predict_uses_current cs1 X cs2 o :
  nth (length cs1) (snd (prun o (cs1 ++ PPredict X :: cs2))) PRaise =
  match po_attrs (fst (prun o cs1)) with
  | None => PRaise
  | Some a => match plsr_predict_entry Op (po_prm (fst (prun o cs1))) a X with Ok t => PTensor t | Err => PRaise end
  end.
Proof.
  rewrite prun_app. cbn [snd].
  assert (L : length (snd (prun o cs1)) = length cs1).
  { clear. revert o. induction cs1 as [|c cs IH]; intros o; cbn [RegressObj.prun snd length]; [reflexivity|now rewrite IH]. }
  rewrite app_nth2 by lia. rewrite L, Nat.sub_diag. reflexivity.
Qed.
End PlsrObjP.

(* ------------------------------------------------------------------ ring regime: fit_transform(X, Y); the zero state *)
Section PlsrObjRing.
Context {F : Type} (Op : fops F).
Hypothesis Rth : ring_theory (f0 Op) (f1 Op) (fadd Op) (fmul Op) (fsub Op) (fopp Op) (@eq F).
Add Ring Fr9 : Rth.
Variable sqrtF : F -> F.
Variable init : tensor F -> list (tensor F).
Variable ne_solve : list (list F) -> list F -> list F.
Hypothesis Hlen : forall G b, length (ne_solve G b) <= length G.
Notation fit_entry := (plsr_fit_entry Op sqrtF init ne_solve).
Notation pstep := (pstep Op sqrtF init ne_solve).

(* fit_transform(X, Y) = (fitted X scores, fitted Y scores), entry-point level *)
Theorem plsr_obj_fit_transform o X Y a : fit_entry (po_prm o) X Y = FitOk a ->
  pstep o (PFitTransform X Y) =
    (mkPobj (po_prm o) (Some a),
     PPair (cols_to_matrix Op (nsamp X) (fitted_scores (a_fit a)))
           (cols_to_matrix Op (nsamp (as_matrix Y)) (map (c_yscore (F:=F)) (comps (a_fit a))))).
Proof.
  intros H. pose proof (fit_entry_ok Op sqrtF init ne_solve _ _ _ _ H) as K. cbv zeta in K.
  destruct K as (Hx & Hy & _ & Hfit & Hw & HnY & Hns).
  cbn [RegressObj.pstep]. rewrite H. f_equal. unfold plsr_transform_entry.
  rewrite Hx, nl_eqb_refl. cbn [negb]. rewrite Hw, Nat.ltb_irrefl, HnY. cbn [negb].
  rewrite Hy, nl_eqb_refl. cbn [negb]. rewrite Nat.eqb_refl. cbn [negb]. rewrite Bool.andb_false_r.
  rewrite Hns, Nat.eqb_refl. cbn [negb]. rewrite Bool.andb_false_r. cbn [andb].
  cbn [out_of_transform].
  assert (Hl : firstn (pp_ncomp (po_prm o)) (loadings (a_fit a)) = loadings (a_fit a)).
  { rewrite <- Hw. unfold fitted_width, loadings. now rewrite <- (map_length (c_load (F:=F))), firstn_all. }
  assert (Hb : firstn (pp_ncomp (po_prm o)) (map (c_B (F:=F)) (comps (a_fit a))) = map (c_B (F:=F)) (comps (a_fit a))).
  { rewrite <- Hw. unfold fitted_width. now rewrite <- (map_length (c_B (F:=F))), firstn_all. }
  assert (Hq : firstn (pp_ncomp (po_prm o)) (map (c_yload (F:=F)) (comps (a_fit a))) = map (c_yload (F:=F)) (comps (a_fit a))).
  { rewrite <- Hw. unfold fitted_width. now rewrite <- (map_length (c_yload (F:=F))), firstn_all. }
  rewrite Hl, Hb, Hq.
  assert (HT : transform_cols Op (center Op X (X_mean_ (a_fit a))) (loadings (a_fit a)) = fitted_scores (a_fit a)).
  { rewrite Hfit. unfold fit_cp, fit, fitted_scores, loadings. cbn [X_mean_ comps]. apply transform_replays_fit. }
  f_equal; [now rewrite HT|]. f_equal.
  pose proof (fit_transform_Y_train Op Rth (inner_cp Op sqrtF init (pp_tol (po_prm o)) (pp_niter (po_prm o)))
                (lstsq_ne Op ne_solve)) as HY.
  assert (Hc : forall Tc u, length (lstsq_ne Op ne_solve Tc u) <= length Tc).
  { intros Tc u. unfold lstsq_ne. etransitivity; [apply Hlen|]. now rewrite map_length. }
  specialize (HY Hc (pp_ncomp (po_prm o)) X (as_matrix Y)). unfold fit_transform_Y in HY.
  rewrite Hfit. unfold fit_cp. exact HY.
Qed.

(* the state a fit leaves behind when it raises inside the component loop (budget n_iter_max = 0): zero factors and a zero
   coef_, the means of the NEW data -- predict then answers Y_mean_ for every sample *)
Lemma fit_entry_partial p X Y a : fit_entry p X Y = FitRaisePartial a ->
  a_xshape a = shape X /\ a_yshape a = shape (as_matrix Y) /\ a_fit a = zero_plsr Op (pp_ncomp p) X (as_matrix Y).
Proof.
  unfold RegressObj.plsr_fit_entry. destruct (shape X) as [|nx sx] eqn:HX; [discriminate|].
  destruct (shape Y) as [|ny sy] eqn:HY; [discriminate|].
  destruct (negb (nx =? ny)); [discriminate|]. destruct (ndim X <? 2); [discriminate|].
  destruct ((ndim Y =? 1) || (ndim Y =? 2)); cbn [negb]; [|discriminate].
  destruct (cp_plsr_fit _ _ _ _ _ _ _ _ _) as [r|]; [discriminate|].
  intros H. injection H as <-. cbn [a_xshape a_yshape a_fit]. auto.
Qed.

Lemma nth_B_zero (zc : comp (F:=F)) k : c_B zc = [] ->
  forall c c', nth c (nth c' (map (c_B (F:=F)) (repeat zc k)) []) (f0 Op) = f0 Op.
Proof.
  intros Hz c c'. assert (E : nth c' (map (c_B (F:=F)) (repeat zc k)) [] = []).
  { revert c'. induction k as [|k IH]; intros [|c']; cbn [repeat map nth]; auto. }
  rewrite E. now destruct c.
Qed.

Theorem plsr_obj_zero_state_predict o X Y a Xn ny m : fit_entry (po_prm o) X Y = FitRaisePartial a ->
  shape (as_matrix Y) = [ny; m] -> tl (shape Xn) = tl (shape X) ->
  exists Pr, snd (pstep (mkPobj (po_prm o) (Some a)) (PPredict Xn)) = PTensor Pr /\ shape Pr = [nsamp Xn; m] /\
    forall i j, i < nsamp Xn -> j < m -> tget Op Pr [i; j] = tget Op (mean0 Op (as_matrix Y)) [j].
Proof.
  intros H HY HX. destruct (fit_entry_partial _ _ _ _ H) as (Hx & Hy & Hfit).
  cbn [RegressObj.pstep snd po_attrs po_prm]. unfold plsr_predict_entry.
  rewrite Hx, HX, nl_eqb_refl. cbn [negb]. unfold fitted_width. rewrite Hfit. unfold zero_plsr at 1. cbn [comps].
  rewrite repeat_length, Nat.eqb_refl. cbn [negb].
  eexists. split; [reflexivity|].
  unfold fit_predict, plsr_predict, zero_plsr. cbn [X_mean_ Y_mean_ comps].
  assert (Hm : hd 0 (shape (mean0 Op (as_matrix Y))) = m).
  { unfold mean0. cbn [shape]. unfold sshape. now rewrite HY. }
  rewrite Hm. unfold yload_of at 1. cbn [shape nth].
  split; [reflexivity|]. intros i j Hi Hj.
  unfold Regress.tget at 1. rewrite get_tabulate by (cbn; repeat split; auto).
  cbn [nth]. fold (tget Op (mean0 Op (as_matrix Y)) [j]).
  set (k := length (loadings (mkPlsr (mean0 Op X) (mean0 Op (as_matrix Y)) (repeat (zero_comp Op X (as_matrix Y)) (pp_ncomp (po_prm o)))))).
  unfold Regress.fsumn at 1.
  rewrite (bigsum_zero F _ _ _ _ _ _ Rth k).
  - ring.
  - intros c' Hc'. unfold Regress.fsumn.
    rewrite (bigsum_zero F _ _ _ _ _ _ Rth k); [ring|].
    intros c Hc. unfold coef_of. unfold Regress.tget at 2.
    assert (Hk : k = pp_ncomp (po_prm o)) by (unfold k, loadings; cbn [comps]; now rewrite map_length, repeat_length).
    rewrite get_tabulate by (rewrite repeat_length; cbn; repeat split; lia).
    cbn [nth]. rewrite nth_B_zero by reflexivity. ring.
Qed.
End PlsrObjRing.

(* ------------------------------------------------------------------ sample permutation at the level of the entry point *)
Section PlsrEntryPerm.
Context {F : Type} (Op : fops F).
Lemma as_matrix_perm p (Y : tensor F) n : shape Y = [n] ->
  as_matrix (perm_samples Op p Y) = perm_samples Op p (as_matrix Y).
Proof.
  intros H. unfold as_matrix, perm_samples, tabulate. cbn [shape data]. rewrite !H. cbn [shape data].
  f_equal. cbn [prod fold_right]. rewrite !Nat.mul_1_r.
  apply map_ext. intros k. unfold Regress.tget, get. cbn [shape data unravel ravel prod fold_right hd tl].
  rewrite ?H. cbn [ravel prod fold_right]. f_equal.
Qed.

Hypothesis Rth : ring_theory (f0 Op) (f1 Op) (fadd Op) (fmul Op) (fsub Op) (fopp Op) (@eq F).
Variable sqrtF : F -> F.
Variable init : tensor F -> list (tensor F).
Variable ne_solve : list (list F) -> list F -> list F.
Variables (p : list nat) (n : nat).
Hypothesis Hp : Permutation p (seq 0 n).
Notation fit_entry := (plsr_fit_entry Op sqrtF init ne_solve).
Notation perm := (perm_samples Op p).

(* CP_PLSR().fit(X[p], Y[p]) at the level of the entry point (validation, matrix or vector Y): accepted iff fit(X, Y) is, same
   recorded shapes, means, loadings, coefficients and predictions, consistently re-ordered X and Y scores *)
Theorem plsr_entry_perm prm X Y sx a : shape X = n :: sx ->
  (shape Y = [n] \/ exists m, shape Y = [n; m] /\ 0 < m) ->
  fit_entry prm X Y = FitOk a ->
  exists a', fit_entry prm (perm X) (perm Y) = FitOk a' /\
    a_xshape a' = a_xshape a /\ a_yshape a' = a_yshape a /\
    X_mean_ (a_fit a') = X_mean_ (a_fit a) /\ Y_mean_ (a_fit a') = Y_mean_ (a_fit a) /\
    loadings (a_fit a') = loadings (a_fit a) /\
    map (c_yload (F:=F)) (comps (a_fit a')) = map (c_yload (F:=F)) (comps (a_fit a)) /\
    map (c_B (F:=F)) (comps (a_fit a')) = map (c_B (F:=F)) (comps (a_fit a)) /\
    fitted_scores (a_fit a') = map (pick Op n p) (fitted_scores (a_fit a)) /\
    map (c_yscore (F:=F)) (comps (a_fit a')) = map (pick Op n p) (map (c_yscore (F:=F)) (comps (a_fit a))) /\
    forall q Xn, plsr_predict_entry Op q a' Xn = plsr_predict_entry Op q a Xn.
Proof.
  intros HX HY H.
  pose proof (fit_entry_ok Op sqrtF init ne_solve _ _ _ _ H) as K. cbv zeta in K. destruct K as (Hx & Hy & Hfit & _ & Hw & _ & _).
  assert (EA : as_matrix (perm Y) = perm (as_matrix Y) /\ exists m, shape (as_matrix Y) = [n; m] /\ 0 < m).
  { destruct HY as [HY|(m & HY & Hm)].
    - split; [exact (as_matrix_perm p Y n HY)|]. exists 1. unfold as_matrix. rewrite HY. cbn [shape]. auto.
    - assert (E1 : as_matrix Y = Y) by (unfold as_matrix; now rewrite HY).
      assert (E2 : as_matrix (perm Y) = perm Y) by (unfold as_matrix; change (shape (perm Y)) with (shape Y); now rewrite HY).
      rewrite E1, E2. split; [reflexivity|]. exists m. auto. }
  destruct EA as (EA & m & HYm & Hm).
  destruct (plsr_fit_perm_equivariance Op Rth sqrtF init ne_solve (pp_tol prm) p n Hp (pp_niter prm) (pp_ncomp prm) X (as_matrix Y) sx m (a_fit a) HX HYm Hm Hfit)
    as (r' & Hr' & E1 & E2 & E3 & E4 & E5 & E6 & E7 & E8).
  exists (mkPattrs (shape X) (shape (as_matrix Y)) r').
  split.
  - unfold RegressObj.plsr_fit_entry in *. unfold ndim in *.
    change (shape (perm X)) with (shape X). change (shape (perm Y)) with (shape Y).
    destruct (shape X) as [|nx sx0]; [discriminate|]. destruct (shape Y) as [|ny sy0]; [discriminate|].
    destruct (negb (nx =? ny)); [discriminate|]. destruct (length (nx :: sx0) <? 2); [discriminate|].
    destruct (negb ((length (ny :: sy0) =? 1) || (length (ny :: sy0) =? 2))); [discriminate|].
    rewrite EA, Hr'. reflexivity.
  - cbn [a_xshape a_yshape a_fit]. rewrite Hx, Hy. repeat split; auto.
    intros q Xn. unfold plsr_predict_entry, fitted_width. cbn [a_xshape a_fit]. rewrite Hx.
    assert (EL : length (comps r') = length (comps (a_fit a))).
    { rewrite <- (map_length (c_B (F:=F)) (comps r')), E5, map_length. reflexivity. }
    rewrite EL, E8. reflexivity.
Qed.
End PlsrEntryPerm.
