(* Over R: the unit-norm clause for every reachable state of a CP_PLSR object. *)
From Coq Require Import List Arith Lia Bool Ring Reals Lra.
From TLV Require Import Base.Shape Base.PyList Base.Tensor Base.BigSum Base.Ops Model.Base Proofs.BaseProofs Model.Regress
  Proofs.RegressProofs Proofs.RegressProofsPlsr Proofs.RegressProofsR Model.RegressObj Proofs.RegressProofsObj.
Import ListNotations.

Section ObjR.
Open Scope R_scope.
Variable init : tensor R -> list (tensor R).
Variable ne_solve : list (list R) -> list R -> list R.

Lemma sumsq_zeros s : sumsq Rops (zeros Rops s) = 0.
Proof.
  unfold sumsq, Regress.fsum_idx, sum_idx, zeros. cbn [shape].
  apply (bigsum_zero R _ _ _ _ _ _ RTheory). intros k Hk.
  unfold Regress.tget. rewrite get_tabulate by (apply unravel_inb; exact Hk). cbn. ring.
Qed.

Definition loadings_unit_or_zero (a : pattrs (F:=R)) : Prop :=
  forall c, In c (comps (a_fit a)) ->
    (forall l, In l (c_load c) -> sumsq Rops l = 1 \/ sumsq Rops l = 0) /\
    (sumsq Rops (c_yload c) = 1 \/ sumsq Rops (c_yload c) = 0).

(* in EVERY state a CP_PLSR object can reach from a fresh one (fits, rejected fits, fits raising in their loop, refits,
   set_params, predict, transform in any order) every exposed loading vector has squared norm 1 -- or 0: the zero factors
   left by a fit that raised, or the normalisation of a zero vector (NaN in the implementation) *)
Theorem pobj_reachable_unit_norm cs p0 a :
  po_attrs (fst (prun Rops sqrt init ne_solve (mkPobj p0 None) cs)) = Some a -> loadings_unit_or_zero a.
Proof.
  apply (pobj_reachable_inv Rops sqrt init ne_solve loadings_unit_or_zero); [|cbn; discriminate].
  clear. intros p X Y a [H|H] c Hc.
  - pose proof (fit_entry_ok Rops sqrt init ne_solve _ _ _ _ H) as K. cbv zeta in K. destruct K as (_ & _ & Hfit & _).
    exact (plsr_fit_unit_norm init ne_solve _ _ _ _ _ _ c Hfit Hc).
  - destruct (fit_entry_partial Rops sqrt init ne_solve _ _ _ _ H) as (_ & _ & Hz).
    rewrite Hz in Hc. unfold zero_plsr in Hc. cbn [comps] in Hc. apply repeat_spec in Hc. subst c.
    unfold zero_comp. cbn [c_load c_yload]. split.
    + intros l Hl. apply in_map_iff in Hl. destruct Hl as (d & <- & _). right. apply sumsq_zeros.
    + right. apply sumsq_zeros.
Qed.
End ObjR.

(* ------------------------------------------------------------------ constant shifts at the level of the entry point *)
Section PlsrEntryShift.
Lemma as_matrix_shift {F} (Op : fops F) (Y d : tensor F) n : shape Y = [n] ->
  as_matrix (shift Op Y d) = shift Op (as_matrix Y) (mk [1] (data d)).
Proof.
  intros H. unfold as_matrix, shift, tabulate. cbn [shape data]. rewrite !H. cbn [shape data].
  f_equal. cbn [prod fold_right]. rewrite !Nat.mul_1_r.
  apply map_ext. intros k. unfold Regress.tget, get. cbn [shape data unravel ravel prod fold_right hd tl].
  rewrite ?H. cbn [ravel prod fold_right]. f_equal.
  replace (ravel (shape d) []) with 0 by (destruct (shape d); reflexivity).
  rewrite (Nat.mod_1_r (k mod (1 * 1) / 1)). reflexivity.
Qed.

Variable init : tensor R -> list (tensor R).
Variable ne_solve : list (list R) -> list R -> list R.
Notation fit_entryR := (plsr_fit_entry Rops sqrt init ne_solve).


(* CP_PLSR().fit(X + c, Y + d) at the level of the entry point (validation, matrix or vector Y): accepted iff fit(X, Y) is, same
   recorded shapes, same components (loadings, scores, coefficients), predict(X_new + c) = predict(X_new) + d *)
Theorem plsr_entry_shift prm X Y c d n sx a : shape X = n :: sx -> (shape Y = [n] \/ exists m, shape Y = [n; m]) -> 0 < n ->
  fit_entryR prm X Y = FitOk a ->
  exists a', fit_entryR prm (shift Rops X c) (shift Rops Y d) = FitOk a' /\
    a_xshape a' = a_xshape a /\ a_yshape a' = a_yshape a /\
    comps (a_fit a') = comps (a_fit a) /\ loadings (a_fit a') = loadings (a_fit a) /\
    fitted_scores (a_fit a') = fitted_scores (a_fit a) /\
    forall Xn i o, sshape Xn = sx -> i < nsamp Xn -> o < nth 1 (a_yshape a) 0 ->
      tget Rops (fit_predict Rops (a_fit a') (shift Rops Xn c)) [i; o] =
      (tget Rops (fit_predict Rops (a_fit a) Xn) [i; o] + tget Rops (y_offset Y d) [o])%R.
Proof.
  intros HX HY Hn H.
  pose proof (fit_entry_ok Rops sqrt init ne_solve _ _ _ _ H) as K. cbv zeta in K. destruct K as (Hx & Hy & Hfit & _ & Hw & _).
  assert (EA : as_matrix (shift Rops Y d) = shift Rops (as_matrix Y) (y_offset Y d) /\ exists m, shape (as_matrix Y) = [n; m]).
  { unfold y_offset. destruct HY as [HY|(m & HY)].
    - rewrite HY. split; [exact (as_matrix_shift Rops Y d n HY)|]. exists 1. unfold as_matrix. rewrite HY. reflexivity.
    - assert (E1 : as_matrix Y = Y) by (unfold as_matrix; now rewrite HY).
      assert (E2 : as_matrix (shift Rops Y d) = shift Rops Y d) by (unfold as_matrix; change (shape (shift Rops Y d)) with (shape Y); now rewrite HY).
      rewrite E1, E2, HY. split; [reflexivity|]. exists m. reflexivity. }
  destruct EA as (EA & m & HYm).
  destruct (plsr_fit_shift_invariance init ne_solve (pp_tol prm) (pp_niter prm) (pp_ncomp prm) X (as_matrix Y) c (y_offset Y d) n sx m (a_fit a) HX HYm Hn Hfit)
    as (r' & Hr' & E1 & E2 & E3 & E4).
  exists (mkPattrs (shape X) (shape (as_matrix Y)) r').
  split.
  - unfold RegressObj.plsr_fit_entry in *. unfold ndim in *.
    change (shape (shift Rops X c)) with (shape X). change (shape (shift Rops Y d)) with (shape Y).
    destruct (shape X) as [|nx sx0]; [discriminate|]. destruct (shape Y) as [|ny sy0]; [discriminate|].
    destruct (negb (nx =? ny)); [discriminate|]. destruct (length (nx :: sx0) <? 2); [discriminate|].
    destruct (negb ((length (ny :: sy0) =? 1) || (length (ny :: sy0) =? 2))); [discriminate|].
    rewrite EA, Hr'. reflexivity.
  - cbn [a_xshape a_yshape a_fit]. rewrite Hx, Hy. repeat split; auto.
    intros Xn i o HXn Hi Ho. rewrite HYm in Ho. cbn [nth] in Ho. apply E4; assumption.
Qed.
End PlsrEntryShift.
