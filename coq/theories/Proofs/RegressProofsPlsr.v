(* Lemmas about the concrete inner iteration of CP_PLSR.fit (Model/Regress.v, Section Inner) and about the
   iteration of CPRegressor.fit / TuckerRegressor.fit around their block updates (Section RegLoop):
   every loading vector is the result of a normalisation; the whole fit is equivariant under a
   re-ordering of the samples (any commutative ring; sqrt, the SVD initialisation, the normal-equation
   solver and the tolerance are arbitrary); the stored attributes of the regressors are taken from the
   same iterate. *)
From Coq Require Import List Arith Lia Bool Ring Permutation.
From TLV Require Import Base.Shape Base.PyList Base.Tensor Base.BigSum Base.Ops Model.Base Proofs.BaseProofs Model.Regress Proofs.RegressProofs.
Import ListNotations.

(* ------------------------------------------------------------------ loadings are normalised vectors *)
Section Norm.
Context {F : Type} (Op : fops F).
Variable sqrtF : F -> F.
Variable init : tensor F -> list (tensor F).
Variable ne_solve : list (list F) -> list F -> list F.
Variable tol : F.

Notation is_norm := (is_normalized Op sqrtF).

Lemma mode_sweep_length Z modes : forall ls, length (mode_sweep Op sqrtF Z ls modes) = length ls.
Proof. induction modes as [|m r IH]; intros ls; cbn [mode_sweep]; [reflexivity|]. now rewrite IH, set_nth_length. Qed.

Lemma mode_sweep_other Z modes : forall ls k d, ~ In k modes -> nth k (mode_sweep Op sqrtF Z ls modes) d = nth k ls d.
Proof.
  induction modes as [|m r IH]; intros ls k d H; cbn [mode_sweep]; [reflexivity|].
  rewrite IH by (intro; apply H; right; assumption).
  apply nth_set_nth_other. intro E. apply H. left. symmetry. exact E.
Qed.

Lemma mode_sweep_norm Z modes : forall ls k d, In k modes -> k < length ls ->
  is_norm (nth k (mode_sweep Op sqrtF Z ls modes) d).
Proof.
  induction modes as [|m r IH]; intros ls k d Hin Hk; [destruct Hin|]. cbn [mode_sweep].
  destruct (in_dec Nat.eq_dec k r) as [Hr|Hr].
  - apply IH; [exact Hr | now rewrite set_nth_length].
  - destruct Hin as [->|Hin]; [|contradiction].
    rewrite mode_sweep_other by exact Hr. rewrite nth_set_nth_same by exact Hk. eexists; reflexivity.
Qed.

Lemma inner_step_norm X Y ls u b :
  Forall is_norm (i_ls (inner_step Op sqrtF init X Y ls u b)) /\ is_norm (i_q (inner_step Op sqrtF init X Y ls u b)).
Proof.
  unfold inner_step. cbv zeta. cbn [i_ls i_q]. split; [|eexists; reflexivity].
  destruct (2 <=? ndim (xty Op X u)).
  - apply Forall_forall. intros x Hx. destruct (In_nth _ _ (mk [] []) Hx) as (k & Hk & <-).
    rewrite mode_sweep_length in Hk. apply mode_sweep_norm; [apply in_seq; lia | exact Hk].
  - constructor; [eexists; reflexivity | constructor].
Qed.

Lemma inner_loop_inv (P : istate -> Prop) X Y : (forall ls u b, P (inner_step Op sqrtF init X Y ls u b)) ->
  forall fuel st, P st -> P (inner_loop Op sqrtF init tol fuel X Y st).
Proof.
  intros H. induction fuel as [|k IH]; intros st H0; cbn [inner_loop]; [exact H0|]. cbv zeta.
  destruct (fltb Op _ tol); [apply H | apply IH, H].
Qed.

Lemma inner_state_inv (P : istate -> Prop) n_iter X Y : (forall ls u b, P (inner_step Op sqrtF init X Y ls u b)) ->
  P (inner_state Op sqrtF init tol n_iter X Y).
Proof. intros H. unfold inner_state. apply inner_loop_inv; [exact H | apply H]. Qed.

Lemma fit_loop_Forall (inner : tensor F -> tensor F -> list (tensor F) * tensor F) (lstsq : list (list F) -> list F -> list F)
  (Q : list (tensor F) -> tensor F -> Prop) : (forall X Y, Q (fst (inner X Y)) (snd (inner X Y))) ->
  forall k X Y T, Forall (fun c => Q (c_load c) (c_yload c)) (fit_loop Op inner lstsq k X Y T).
Proof.
  intros H. induction k as [|k IH]; intros X Y T; cbn [fit_loop]; [constructor|]. cbv zeta.
  constructor; [cbn [c_load c_yload]; apply H | apply IH].
Qed.

(* every non-sample loading vector and every Y loading vector of every component is the result of a normalisation *)
Theorem plsr_loadings_normalized n_iter ncomp X Y c :
  In c (comps (fit_cp Op sqrtF init ne_solve tol n_iter ncomp X Y)) ->
  Forall is_norm (c_load c) /\ is_norm (c_yload c).
Proof.
  unfold fit_cp, fit. cbv zeta. cbn [comps]. intros Hin.
  pose proof (fit_loop_Forall (inner_cp Op sqrtF init tol n_iter) (lstsq_ne Op ne_solve)
               (fun ls q => Forall is_norm ls /\ is_norm q)) as HF.
  eapply Forall_forall in HF; [exact HF | | exact Hin].
  intros X0 Y0. unfold inner_cp. cbv zeta. cbn [fst snd].
  apply (inner_state_inv (fun st => Forall is_norm (i_ls st) /\ is_norm (i_q st))).
  intros ls u b. apply inner_step_norm.
Qed.

(* fit raises exactly on the budget 0 with at least one component *)
Theorem cp_plsr_fit_defined n_iter ncomp X Y :
  cp_plsr_fit Op sqrtF init ne_solve tol n_iter ncomp X Y = Err <-> (n_iter = 0 /\ 0 < ncomp).
Proof.
  unfold cp_plsr_fit. destruct (Nat.eqb_spec n_iter 0) as [->|Hn]; destruct (Nat.ltb_spec 0 ncomp) as [Hc|Hc]; cbn [andb];
    split; try discriminate; try (intros [? ?]; lia); auto.
Qed.
Lemma cp_plsr_fit_ok n_iter ncomp X Y r :
  cp_plsr_fit Op sqrtF init ne_solve tol n_iter ncomp X Y = Ok r -> r = fit_cp Op sqrtF init ne_solve tol n_iter ncomp X Y.
Proof. unfold cp_plsr_fit. destruct ((n_iter =? 0) && (0 <? ncomp)); [discriminate | intros H; now injection H]. Qed.

Theorem plsr_fit_loadings_normalized n_iter ncomp X Y r c :
  cp_plsr_fit Op sqrtF init ne_solve tol n_iter ncomp X Y = Ok r -> In c (comps r) ->
  Forall is_norm (c_load c) /\ is_norm (c_yload c).
Proof. intros H. rewrite (cp_plsr_fit_ok _ _ _ _ _ H). apply plsr_loadings_normalized. Qed.
End Norm.

(* ------------------------------------------------------------------ re-ordering the samples *)
Section PermFit.
Context {F : Type} (Op : fops F).
Hypothesis Rth : ring_theory (f0 Op) (f1 Op) (fadd Op) (fmul Op) (fsub Op) (fopp Op) (@eq F).
Add Ring Fr2 : Rth.
Variable sqrtF : F -> F.
Variable init : tensor F -> list (tensor F).
Variable ne_solve : list (list F) -> list F -> list F.
Variable tol : F.
Variables (p : list nat) (n : nat).
Hypothesis Hp : Permutation p (seq 0 n).

Notation tget := (tget Op).
Notation fsumn := (fsumn Op).
Notation perm := (perm_samples Op p).
Notation pk := (pick Op n p).

Lemma rows_of_perm : rows_ok n p.
Proof. intros i Hi. now apply perm_bound. Qed.

Lemma pick_length t : length (pk t) = n.
Proof. unfold pick. now rewrite map_length, seq_length. Qed.

Lemma shape_perm X : shape (perm X) = shape X. Proof. reflexivity. Qed.
Lemma nsamp_perm X : nsamp (perm X) = nsamp X. Proof. reflexivity. Qed.

Lemma xty_perm X sx u : shape X = n :: sx -> xty Op (perm X) (pk u) = xty Op X u.
Proof.
  intros Hs. unfold xty, sshape, nsamp. rewrite shape_perm, Hs. cbn [hd tl].
  apply tabulate_ext. intros J HJ.
  rewrite <- (fsumn_perm Op Rth n p (fun i => fmul Op (tget X (i :: J)) (nth i u (f0 Op))) Hp).
  apply fsumn_ext. intros i Hi.
  rewrite (tget_perm_samples Op p X i J n sx Hs Hi HJ), (nth_pick Op n p u i Hi). reflexivity.
Qed.

Lemma nth_map_seq {B} (f : nat -> B) m i d : i < m -> nth i (map f (seq 0 m)) d = f i.
Proof. intros Hi. rewrite (nth_map' f _ _ 0) by (now rewrite seq_length). now rewrite seq_nth. Qed.

Lemma yscore_perm Y m q : shape Y = [n; m] -> yscore Op (perm Y) q = pk (yscore Op Y q).
Proof.
  intros Hs. unfold yscore, pick. rewrite nsamp_perm, shape_perm. unfold nsamp. rewrite Hs. cbn [hd nth].
  apply map_ext_in. intros i Hi. apply in_seq in Hi.
  rewrite nth_map_seq by (apply rows_of_perm; lia).
  apply fsumn_ext. intros o Ho. f_equal.
  apply (tget_perm_samples Op p Y i [o] n [m] Hs); [lia | cbn [inb]; auto].
Qed.

Lemma col0_perm Y m : shape Y = [n; m] -> 0 < m -> col0 Op (perm Y) = pk (col0 Op Y).
Proof.
  intros Hs Hm. unfold col0, pick. rewrite nsamp_perm. unfold nsamp. rewrite Hs. cbn [hd].
  apply map_ext_in. intros i Hi. apply in_seq in Hi.
  rewrite nth_map_seq by (apply rows_of_perm; lia).
  apply (tget_perm_samples Op p Y i [0] n [m] Hs); [lia | cbn [inb]; auto].
Qed.

Lemma ldist_perm a b : ldist Op sqrtF n (pk a) (pk b) = ldist Op sqrtF n a b.
Proof.
  unfold ldist. f_equal. cbv zeta.
  etransitivity; [| apply (fsumn_perm Op Rth n p (fun i => fmul Op (fsub Op (nth i a (f0 Op)) (nth i b (f0 Op))) (fsub Op (nth i a (f0 Op)) (nth i b (f0 Op)))) Hp)].
  apply fsumn_ext. intros i Hi. rewrite !(nth_pick Op n p _ i Hi). reflexivity.
Qed.

Lemma ldot_perm a b : ldot Op n (pk a) (pk b) = ldot Op n a b.
Proof.
  unfold ldot.
  etransitivity; [| apply (fsumn_perm Op Rth n p (fun i => fmul Op (nth i a (f0 Op)) (nth i b (f0 Op))) Hp)].
  apply fsumn_ext. intros i Hi. rewrite !(nth_pick Op n p _ i Hi). reflexivity.
Qed.

Definition pick_st (st : istate) : istate := mkI (i_ls st) (pk (i_t st)) (i_q st) (pk (i_u st)).

Lemma inner_step_perm X Y sx m ls u b : shape X = n :: sx -> shape Y = [n; m] ->
  inner_step Op sqrtF init (perm X) (perm Y) ls (pk u) b = pick_st (inner_step Op sqrtF init X Y ls u b).
Proof.
  intros HX HY. unfold inner_step, pick_st. cbv zeta. cbn [i_ls i_t i_q i_u].
  rewrite (xty_perm X sx u HX).
  set (ls2 := if 2 <=? ndim (xty Op X u) then _ else _).
  rewrite (scores_perm Op p X ls2 n sx HX rows_of_perm).
  rewrite (xty_perm Y [m] _ HY).
  rewrite (yscore_perm Y m _ HY). reflexivity.
Qed.

Lemma inner_loop_perm X Y sx m : shape X = n :: sx -> shape Y = [n; m] -> forall fuel st,
  inner_loop Op sqrtF init tol fuel (perm X) (perm Y) (pick_st st) = pick_st (inner_loop Op sqrtF init tol fuel X Y st).
Proof.
  intros HX HY. induction fuel as [|k IH]; intros st; cbn [inner_loop]; [reflexivity|]. cbv zeta.
  change (i_ls (pick_st st)) with (i_ls st). change (i_u (pick_st st)) with (pk (i_u st)).
  rewrite (inner_step_perm X Y sx m (i_ls st) (i_u st) false HX HY).
  set (s1 := inner_step Op sqrtF init X Y (i_ls st) (i_u st) false).
  change (i_u (pick_st s1)) with (pk (i_u s1)).
  rewrite nsamp_perm. assert (Hn : nsamp Y = n) by (unfold nsamp; now rewrite HY). rewrite Hn, ldist_perm.
  destruct (fltb Op _ tol); [reflexivity | apply IH].
Qed.

Lemma inner_cp_perm n_iter X Y sx m : shape X = n :: sx -> shape Y = [n; m] -> 0 < m ->
  inner_cp Op sqrtF init tol n_iter (perm X) (perm Y) = inner_cp Op sqrtF init tol n_iter X Y.
Proof.
  intros HX HY Hm. unfold inner_cp, inner_state. cbv zeta.
  rewrite (col0_perm Y m HY Hm), (inner_step_perm X Y sx m [] (col0 Op Y) true HX HY).
  rewrite (inner_loop_perm X Y sx m HX HY). reflexivity.
Qed.

Lemma lstsq_ne_perm Tc u : length u = n ->
  lstsq_ne Op ne_solve (map pk Tc) (pk u) = lstsq_ne Op ne_solve Tc u.
Proof.
  intros Hu. unfold lstsq_ne. rewrite pick_length, Hu. f_equal.
  - rewrite map_map. apply map_ext. intros a. rewrite map_map. apply map_ext. intros b. apply ldot_perm.
  - rewrite map_map. apply map_ext. intros a. apply ldot_perm.
Qed.

Lemma yscore_length Y q : length (yscore Op Y q) = nsamp Y.
Proof. unfold yscore. now rewrite map_length, seq_length. Qed.

Lemma ydeflate_perm Y m Tc B q : shape Y = [n; m] ->
  ydeflate Op (perm Y) (map pk Tc) B q = perm (ydeflate Op Y Tc B q).
Proof.
  intros Hs.
  change (tabulate (shape Y) (fun idx => let i := nth 0 idx 0 in let o := nth 1 idx 0 in
            fsub Op (tget (perm Y) idx)
              (fmul Op (fsumn (length (map pk Tc)) (fun c => fmul Op (nth i (nth c (map pk Tc) []) (f0 Op)) (nth c B (f0 Op)))) (tget q [o]))) =
          tabulate (shape Y) (fun idx => tget (ydeflate Op Y Tc B q) (nth (hd 0 idx) p 0 :: tl idx))).
  apply tabulate_ext. intros idx Hi. rewrite Hs in Hi. cbv zeta.
  destruct (inb_cons_inv _ _ _ Hi) as (i & J & -> & Hin & HJ).
  destruct (inb_cons_inv _ _ _ HJ) as (o & J' & -> & Ho & HJ'). apply inb_nil_inv in HJ'. subst J'.
  cbn [hd tl nth].
  rewrite (tget_perm_samples Op p Y i [o] n [m] Hs Hin HJ).
  unfold Regress.tget at 3. unfold ydeflate.
  rewrite get_tabulate by (rewrite Hs; cbn [inb]; repeat split; [apply rows_of_perm; exact Hin | exact Ho]).
  cbv zeta. cbn [nth]. rewrite map_length. f_equal. f_equal.
  apply fsumn_ext. intros c Hc. f_equal.
  rewrite (nth_map' pk _ _ []) by exact Hc. apply nth_pick. exact Hin.
Qed.

Definition pick_comp (c : comp) : comp :=
  mkComp (c_load c) (pk (c_score c)) (c_yload c) (pk (c_yscore c)) (c_B c).

Section Generic.
Variable inner : tensor F -> tensor F -> list (tensor F) * tensor F.
Variable lstsq : list (list F) -> list F -> list F.
Hypothesis Hinner : forall X Y sx m, shape X = n :: sx -> shape Y = [n; m] -> 0 < m -> inner (perm X) (perm Y) = inner X Y.
Hypothesis Hlstsq : forall Tc u, length u = n -> lstsq (map pk Tc) (pk u) = lstsq Tc u.

Lemma fit_loop_perm sx m : 0 < m -> forall k X Y Tprev, shape X = n :: sx -> shape Y = [n; m] ->
  fit_loop Op inner lstsq k (perm X) (perm Y) (map pk Tprev) = map pick_comp (fit_loop Op inner lstsq k X Y Tprev).
Proof.
  intros Hm. induction k as [|k IH]; intros X Y Tprev HX HY; cbn [fit_loop map]; [reflexivity|]. cbv zeta.
  rewrite (Hinner X Y sx m HX HY Hm).
  set (ls := fst (inner X Y)). set (q := snd (inner X Y)).
  rewrite (scores_perm Op p X ls n sx HX rows_of_perm), (yscore_perm Y m q HY).
  set (t := scores Op X ls). set (u := yscore Op Y q).
  assert (Hu : length u = n) by (unfold u; rewrite yscore_length; unfold nsamp; now rewrite HY).
  change [pk t] with (map pk [t]). rewrite <- map_app.
  rewrite (Hlstsq (Tprev ++ [t]) u Hu).
  set (B := lstsq (Tprev ++ [t]) u).
  rewrite (deflate_perm Op p X ls t n sx HX rows_of_perm), (ydeflate_perm Y m (Tprev ++ [t]) B q HY).
  rewrite (IH (deflate Op X ls t) (ydeflate Op Y (Tprev ++ [t]) B q) (Tprev ++ [t]) HX HY).
  reflexivity.
Qed.

Theorem fit_perm_generic ncomp X Y sx m : shape X = n :: sx -> shape Y = [n; m] -> 0 < m ->
  fit Op inner lstsq ncomp (perm X) (perm Y) =
  mkPlsr (mean0 Op X) (mean0 Op Y) (map pick_comp (comps (fit Op inner lstsq ncomp X Y))).
Proof.
  intros HX HY Hm. unfold fit. cbv zeta. cbn [comps].
  rewrite (center_perm Op Rth p X n sx HX Hp), (center_perm Op Rth p Y n [m] HY Hp).
  rewrite (mean0_perm Op Rth p X n sx HX Hp), (mean0_perm Op Rth p Y n [m] HY Hp).
  f_equal. exact (fit_loop_perm sx m Hm ncomp (center Op X (mean0 Op X)) (center Op Y (mean0 Op Y)) [] HX HY).
Qed.
End Generic.

(* CP_PLSR.fit on re-ordered samples: same means, same loadings, same Y loadings, same coefficients;
   X and Y scores re-ordered consistently *)
Theorem fit_cp_perm n_iter ncomp X Y sx m : shape X = n :: sx -> shape Y = [n; m] -> 0 < m ->
  fit_cp Op sqrtF init ne_solve tol n_iter ncomp (perm X) (perm Y) =
  mkPlsr (mean0 Op X) (mean0 Op Y) (map pick_comp (comps (fit_cp Op sqrtF init ne_solve tol n_iter ncomp X Y))).
Proof.
  intros HX HY Hm. unfold fit_cp. apply (fit_perm_generic _ _) with (sx := sx) (m := m); auto.
  - intros X0 Y0 sx0 m0 H1 H2 H3. apply (inner_cp_perm n_iter X0 Y0 sx0 m0 H1 H2 H3).
  - apply lstsq_ne_perm.
Qed.

Lemma map_pick_comp_load cs : map (c_load (F:=F)) (map pick_comp cs) = map (c_load (F:=F)) cs.
Proof. rewrite map_map. reflexivity. Qed.
Lemma map_pick_comp_yload cs : map (c_yload (F:=F)) (map pick_comp cs) = map (c_yload (F:=F)) cs.
Proof. rewrite map_map. reflexivity. Qed.
Lemma map_pick_comp_B cs : map (c_B (F:=F)) (map pick_comp cs) = map (c_B (F:=F)) cs.
Proof. rewrite map_map. reflexivity. Qed.
Lemma map_pick_comp_score cs : map (c_score (F:=F)) (map pick_comp cs) = map pk (map (c_score (F:=F)) cs).
Proof. rewrite !map_map. reflexivity. Qed.
Lemma map_pick_comp_yscore cs : map (c_yscore (F:=F)) (map pick_comp cs) = map pk (map (c_yscore (F:=F)) cs).
Proof. rewrite !map_map. reflexivity. Qed.

(* the statement of the property: loadings (X and Y side), coefficients, means and predictions are unchanged,
   the scores are permuted consistently *)
Theorem plsr_perm_equivariance n_iter ncomp X Y sx m : shape X = n :: sx -> shape Y = [n; m] -> 0 < m ->
  let r := fit_cp Op sqrtF init ne_solve tol n_iter ncomp X Y in
  let r' := fit_cp Op sqrtF init ne_solve tol n_iter ncomp (perm X) (perm Y) in
  X_mean_ r' = X_mean_ r /\ Y_mean_ r' = Y_mean_ r /\
  loadings r' = loadings r /\
  map (c_yload (F:=F)) (comps r') = map (c_yload (F:=F)) (comps r) /\
  map (c_B (F:=F)) (comps r') = map (c_B (F:=F)) (comps r) /\
  fitted_scores r' = map pk (fitted_scores r) /\
  map (c_yscore (F:=F)) (comps r') = map pk (map (c_yscore (F:=F)) (comps r)) /\
  forall Xn, fit_predict Op r' Xn = fit_predict Op r Xn.
Proof.
  intros HX HY Hm r r'.
  assert (E : r' = mkPlsr (mean0 Op X) (mean0 Op Y) (map pick_comp (comps r))) by (apply fit_cp_perm with (sx := sx) (m := m); assumption).
  rewrite E. unfold loadings, fitted_scores. cbn [X_mean_ Y_mean_ comps].
  split; [reflexivity|]. split; [reflexivity|].
  split; [apply map_pick_comp_load|]. split; [apply map_pick_comp_yload|]. split; [apply map_pick_comp_B|].
  split; [apply map_pick_comp_score|]. split; [apply map_pick_comp_yscore|].
  intros Xn. unfold fit_predict, loadings, coef_of, yload_of. cbn [X_mean_ Y_mean_ comps].
  rewrite map_pick_comp_load, map_pick_comp_yload, map_pick_comp_B, map_length. reflexivity.
Qed.

(* the same about fit as the source behaves (budget 0 rejected): the permuted run succeeds iff the original does *)
Theorem plsr_fit_perm_equivariance n_iter ncomp X Y sx m r : shape X = n :: sx -> shape Y = [n; m] -> 0 < m ->
  cp_plsr_fit Op sqrtF init ne_solve tol n_iter ncomp X Y = Ok r ->
  exists r', cp_plsr_fit Op sqrtF init ne_solve tol n_iter ncomp (perm X) (perm Y) = Ok r' /\
  X_mean_ r' = X_mean_ r /\ Y_mean_ r' = Y_mean_ r /\
  loadings r' = loadings r /\
  map (c_yload (F:=F)) (comps r') = map (c_yload (F:=F)) (comps r) /\
  map (c_B (F:=F)) (comps r') = map (c_B (F:=F)) (comps r) /\
  fitted_scores r' = map pk (fitted_scores r) /\
  map (c_yscore (F:=F)) (comps r') = map pk (map (c_yscore (F:=F)) (comps r)) /\
  forall Xn, fit_predict Op r' Xn = fit_predict Op r Xn.
Proof.
  intros HX HY Hm H. pose proof (cp_plsr_fit_ok Op sqrtF init ne_solve tol _ _ _ _ _ H) as ->.
  exists (fit_cp Op sqrtF init ne_solve tol n_iter ncomp (perm X) (perm Y)). split.
  - unfold cp_plsr_fit in *. destruct ((n_iter =? 0) && (0 <? ncomp)); [discriminate | reflexivity].
  - exact (plsr_perm_equivariance n_iter ncomp X Y sx m HX HY Hm).
Qed.
End PermFit.

(* ------------------------------------------------------------------ transform(X_train, Y_train): the Y scores *)
Section YReplay.
Context {F : Type} (Op : fops F).
Hypothesis Rth : ring_theory (f0 Op) (f1 Op) (fadd Op) (fmul Op) (fsub Op) (fopp Op) (@eq F).
Add Ring Fr3 : Rth.
Variable inner : tensor F -> tensor F -> list (tensor F) * tensor F.
Variable lstsq : list (list F) -> list F -> list F.
(* contract of the solver: one coefficient per column *)
Hypothesis Hlen : forall Tc u, length (lstsq Tc u) <= length Tc.

Lemma ydeflate_prefix Y T1 T2 B q : length B <= length T1 -> ydeflate Op Y (T1 ++ T2) B q = ydeflate Op Y T1 B q.
Proof.
  intros HB. unfold ydeflate. apply tabulate_ext. intros idx Hi. cbv zeta. f_equal. f_equal.
  rewrite app_length. unfold Regress.fsumn.
  rewrite (bigsum_app F _ _ _ _ _ _ Rth (length T1) (length T2)).
  rewrite (bigsum_zero F _ _ _ _ _ _ Rth (length T2)).
  - rewrite (bigsum_ext F (f0 Op) (fadd Op) (length T1) _ (fun c => fmul Op (nth (nth 0 idx 0) (nth c T1 []) (f0 Op)) (nth c B (f0 Op)))).
    + ring.
    + intros c Hc. rewrite app_nth1 by exact Hc. reflexivity.
  - intros j Hj. rewrite (nth_overflow B) by lia. ring.
Qed.

Lemma ytransform_replays k : forall X Y Tprev,
  ytransform_cols Op Y (Tprev ++ map (c_score (F:=F)) (fit_loop Op inner lstsq k X Y Tprev))
                  (map (c_B (F:=F)) (fit_loop Op inner lstsq k X Y Tprev)) (map (c_yload (F:=F)) (fit_loop Op inner lstsq k X Y Tprev))
  = map (c_yscore (F:=F)) (fit_loop Op inner lstsq k X Y Tprev).
Proof.
  induction k as [|k IH]; intros X Y Tprev; cbn [fit_loop map]; [reflexivity|]. cbv zeta.
  cbn [map ytransform_cols c_score c_B c_yload c_yscore]. f_equal.
  set (ls := fst (inner X Y)). set (q := snd (inner X Y)).
  set (t := scores Op X ls). set (u := yscore Op Y q). set (B := lstsq (Tprev ++ [t]) u).
  set (rest := fit_loop Op inner lstsq k (deflate Op X ls t) (ydeflate Op Y (Tprev ++ [t]) B q) (Tprev ++ [t])).
  change (t :: map (c_score (F:=F)) rest) with ([t] ++ map (c_score (F:=F)) rest). rewrite app_assoc.
  rewrite (ydeflate_prefix Y (Tprev ++ [t]) _ B q) by apply Hlen.
  apply IH.
Qed.

(* transform(X_train, Y_train) returns the fitted Y scores as its second component *)
Theorem fit_transform_Y_train ncomp X Y :
  fit_transform_Y Op (fit Op inner lstsq ncomp X Y) X Y = map (c_yscore (F:=F)) (comps (fit Op inner lstsq ncomp X Y)).
Proof.
  unfold fit_transform_Y, loadings, fit. cbv zeta. cbn [X_mean_ Y_mean_ comps].
  rewrite (transform_replays_fit Op inner lstsq).
  exact (ytransform_replays ncomp _ _ []).
Qed.
End YReplay.

(* ------------------------------------------------------------------ the iteration of the regressors' fit *)
Section RegLoopP.
Context {F : Type} {P : Type}.
Variable sweep : P -> P.
Variable rebuild : P -> tensor F.
Variable nrm : tensor F -> F.
Variable small : F -> F -> bool.

Lemma reg_loop_some fuel : forall it w wt norms, (forall t, wt = Some t -> t = rebuild w) ->
  forall w' t ns, reg_loop sweep rebuild nrm small fuel it w wt norms = (w', Some t, ns) -> t = rebuild w'.
Proof.
  induction fuel as [|k IH]; intros it w wt norms H w' t ns E; cbn [reg_loop] in E.
  - injection E as <- -> _. now apply H.
  - cbv zeta in E. destruct ((1 <? it) && _).
    + injection E as <- <- _. reflexivity.
    + eapply IH; [|exact E]. intros t0 E0. now injection E0 as <-.
Qed.

Lemma reg_loop_pos fuel : forall it w wt norms, 0 < fuel ->
  exists w' t ns, reg_loop sweep rebuild nrm small fuel it w wt norms = (w', Some t, ns).
Proof.
  induction fuel as [|k IH]; intros it w wt norms Hf; [lia|]. cbn [reg_loop]. cbv zeta.
  destruct ((1 <? it) && _); [do 3 eexists; reflexivity|].
  destruct k as [|k']; [cbn [reg_loop]; do 3 eexists; reflexivity|]. apply IH. lia.
Qed.

(* what fit stores comes from one and the same iterate: weight_tensor_ is the reconstruction of the exposed
   blocks and vec_W_ its vectorisation, whatever the number of passes and wherever the loop stops *)
Theorem reg_fit_consistent n_iter w0 st : reg_fit sweep rebuild nrm small n_iter w0 = Ok st ->
  r_weight_tensor st = rebuild (r_blocks st) /\ r_vec st = tensor_to_vec (r_weight_tensor st).
Proof.
  unfold reg_fit. destruct (reg_loop sweep rebuild nrm small n_iter 0 w0 None []) as [[w wt] ns] eqn:E.
  destruct wt as [t|]; [|discriminate]. intros H. injection H as <-. cbn [r_weight_tensor r_blocks r_vec].
  assert (Ht : t = rebuild w) by (eapply reg_loop_some; [|exact E]; intros t0 E0; discriminate).
  subst t. split; reflexivity.
Qed.

Theorem reg_fit_defined n_iter w0 : 0 < n_iter -> exists st, reg_fit sweep rebuild nrm small n_iter w0 = Ok st.
Proof.
  intros H. unfold reg_fit. destruct (reg_loop_pos n_iter 0 w0 None [] H) as (w & t & ns & E).
  rewrite E. eexists; reflexivity.
Qed.
End RegLoopP.

(* ------------------------------------------------------------------ fit (any number of passes) followed by predict *)
Section FitPredict.
Context {F : Type} (Op : fops F).
Notation cp_rebuild := (cp_rebuild Op).
Notation tucker_rebuild := (tucker_rebuild Op).

Theorem cp_fit_predict (sweep : tensor F * list (tensor F) -> tensor F * list (tensor F)) nrm small n_iter w0 st
  (X : tensor F) n sx so :
  reg_fit sweep cp_rebuild nrm small n_iter w0 = Ok st ->
  wf X -> shape X = n :: sx -> sx <> [] -> factor_rows (snd (r_blocks st)) = sx ++ so -> 0 < n -> 0 < prod so ->
  exists P, predict_cp Op (r_weight_tensor st) X = Ok P /\ shape P = n :: so /\
    forall i o, i < n -> inb so o ->
      tget Op P (i :: o) = fsum_idx Op sx (fun J => fmul Op (tget Op X (i :: J))
        (fsumn Op (nth 0 (shape (fst (r_blocks st))) 0)
               (fun r => fmul Op (tget Op (fst (r_blocks st)) [r]) (cp_coeff Op (snd (r_blocks st)) (J ++ o) r)))).
Proof.
  intros H WX HsX Hsx Hfs Hn Hso.
  destruct (reg_fit_consistent sweep cp_rebuild nrm small n_iter w0 st H) as [E _]. rewrite E.
  exact (cp_regressor_predict_factors Op (fst (r_blocks st)) (snd (r_blocks st)) X n sx so WX HsX Hsx Hfs Hn Hso).
Qed.

Theorem tucker_fit_predict (sweep : tensor F * list (tensor F) -> tensor F * list (tensor F)) nrm small n_iter w0 st
  (X : tensor F) n sx :
  reg_fit sweep tucker_rebuild nrm small n_iter w0 = Ok st ->
  wf X -> shape X = n :: sx -> sx <> [] -> factor_rows (snd (r_blocks st)) = sx -> 0 < n ->
  exists P, rbind (r_vec st) (fun v => predict_tucker Op v X) = Ok P /\ shape P = [n] /\
    forall i, i < n ->
      tget Op P [i] = fsum_idx Op sx (fun J => fmul Op (tget Op X (i :: J))
        (fsum_idx Op (shape (fst (r_blocks st))) (fun K => fmul Op (tget Op (fst (r_blocks st)) K) (tk_coeff Op (snd (r_blocks st)) J K)))).
Proof.
  intros H WX HsX Hsx Hfs Hn.
  destruct (reg_fit_consistent sweep tucker_rebuild nrm small n_iter w0 st H) as [E1 E2]. rewrite E2, E1.
  exact (tucker_regressor_predict_factors Op (fst (r_blocks st)) (snd (r_blocks st)) X n sx WX HsX Hsx Hfs Hn).
Qed.
End FitPredict.

(* ------------------------------------------------------------------ the fit loop around the CONCRETE ridge blocks *)
Section ConcreteCp.
Context {F : Type} (Op : fops F).
Notation cp_concrete_sweep := (cp_concrete_sweep Op).

Lemma cp_sweep_length solve reg X y so R : forall fs, length (cp_sweep Op solve reg X y so R fs) = length fs.
Proof.
  intros fs. unfold cp_sweep. generalize (seq 0 (length fs)). intros l. revert fs.
  induction l as [|i l IH]; intros fs; cbn [fold_left]; [reflexivity|]. rewrite IH. apply set_nth_length.
Qed.

Theorem cp_concrete_fit_predict solve reg Xtr ytr so R nrm small n_iter w0 st (X : tensor F) n sx so' :
  reg_fit (cp_concrete_sweep solve reg Xtr ytr so R) (cp_rebuild Op) nrm small n_iter w0 = Ok st ->
  wf X -> shape X = n :: sx -> sx <> [] -> factor_rows (snd (r_blocks st)) = sx ++ so' -> 0 < n -> 0 < prod so' ->
  exists P, predict_cp Op (r_weight_tensor st) X = Ok P /\ shape P = n :: so' /\
    forall i o, i < n -> inb so' o ->
      tget Op P (i :: o) = fsum_idx Op sx (fun J => fmul Op (tget Op X (i :: J))
        (fsumn Op (nth 0 (shape (fst (r_blocks st))) 0)
               (fun r => fmul Op (tget Op (fst (r_blocks st)) [r]) (cp_coeff Op (snd (r_blocks st)) (J ++ o) r)))).
Proof. apply cp_fit_predict. Qed.

Theorem tucker_concrete_fit_predict solve reg Xtr ytr nrm small n_iter w0 st (X : tensor F) n sx :
  reg_fit (tk_concrete_sweep Op solve reg Xtr ytr) (tucker_rebuild Op) nrm small n_iter w0 = Ok st ->
  wf X -> shape X = n :: sx -> sx <> [] -> factor_rows (snd (r_blocks st)) = sx -> 0 < n ->
  exists P, rbind (r_vec st) (fun v => predict_tucker Op v X) = Ok P /\ shape P = [n] /\
    forall i, i < n ->
      tget Op P [i] = fsum_idx Op sx (fun J => fmul Op (tget Op X (i :: J))
        (fsum_idx Op (shape (fst (r_blocks st))) (fun K => fmul Op (tget Op (fst (r_blocks st)) K) (tk_coeff Op (snd (r_blocks st)) J K)))).
Proof. apply tucker_fit_predict. Qed.
End ConcreteCp.
