(* Lemmas about Model/Regress.v over R: the mean of shifted data, shift invariance of CP_PLSR.fit / predict. *)
From Coq Require Import List Arith Lia Bool Ring Reals Lra.
From TLV Require Import Base.Shape Base.PyList Base.Tensor Base.BigSum Base.Ops Model.Base Proofs.BaseProofs Model.Regress Proofs.RegressProofs Proofs.RegressProofsPlsr.
Import ListNotations.

(* ordered-field part: the mean of shifted data *)
Section RealShift.
Open Scope R_scope.
Notation tgetR := (tget Rops).

Lemma nat2F_INR n : nat2F Rops n = INR n.
Proof. induction n; [reflexivity|]. cbn [nat2F]. rewrite IHn, S_INR. reflexivity. Qed.

Lemma fsumn_R_add n f g : fsumn Rops n (fun i => f i + g i) = fsumn Rops n f + fsumn Rops n g.
Proof. exact (bigsum_add R _ _ _ _ _ _ RTheory n f g). Qed.
Lemma fsumn_R_const n c : fsumn Rops n (fun _ => c) = INR n * c.
Proof.
  unfold fsumn. induction n; [cbn; ring|]. cbn [bigsum]. rewrite IHn, S_INR.
  change (fadd Rops (INR n * c) c) with (INR n * c + c). ring.
Qed.

Lemma tget_shift X c idx : inb (shape X) idx -> tgetR (shift Rops X c) idx = tgetR X idx + tgetR c (tl idx).
Proof. intros H. unfold tget at 1. unfold shift. now rewrite get_tabulate. Qed.

Theorem mean0_shift X c n sx : shape X = n :: sx -> (0 < n)%nat ->
  mean0 Rops (shift Rops X c) = tadd Rops (mean0 Rops X) c.
Proof.
  intros Hs Hn. unfold mean0 at 1. unfold tadd.
  change (sshape (shift Rops X c)) with (sshape X). change (nsamp (shift Rops X c)) with (nsamp X).
  change (shape (mean0 Rops X)) with (sshape X).
  apply tabulate_ext. intros J HJ.
  assert (HsX : sshape X = sx) by (unfold sshape; now rewrite Hs).
  assert (HnX : nsamp X = n) by (unfold nsamp; now rewrite Hs).
  rewrite HsX in HJ.
  assert (E : tgetR (mean0 Rops X) J = fsumn Rops n (fun i => tgetR X (i :: J)) / INR n).
  { unfold tget at 1. unfold mean0. rewrite get_tabulate by (now rewrite HsX). rewrite HnX, nat2F_INR. reflexivity. }
  rewrite E, HnX, nat2F_INR.
  rewrite (fsumn_ext Rops n _ (fun i => tgetR X (i :: J) + tgetR c J)).
  2:{ intros i Hi. rewrite tget_shift by (rewrite Hs; cbn [inb]; auto). reflexivity. }
  rewrite fsumn_R_add, fsumn_R_const. cbn [Rops fdiv fadd].
  assert (INR n <> 0) by (apply not_0_INR; lia). field. assumption.
Qed.

Section FitR.
Variable inner : tensor R -> tensor R -> list (tensor R) * tensor R.
Variable lstsq : list (list R) -> list R -> list R.

(* adding a constant tensor to every sample of X and a constant to Y: the two runs are the same term *)
Theorem fit_shift ncomp X Y c d n sx n' sy : shape X = n :: sx -> shape Y = n' :: sy -> (0 < n)%nat -> (0 < n')%nat ->
  fit Rops inner lstsq ncomp (shift Rops X c) (shift Rops Y d) =
  mkPlsr (tadd Rops (mean0 Rops X) c) (tadd Rops (mean0 Rops Y) d) (comps (fit Rops inner lstsq ncomp X Y)).
Proof.
  intros HX HY Hn Hn'. unfold fit.
  rewrite (mean0_shift X c n sx HX Hn), (mean0_shift Y d n' sy HY Hn').
  rewrite !(center_shift Rops RTheory) by reflexivity. reflexivity.
Qed.

(* CP_PLSR: loadings, scores, coefficients and predictions-minus-offset do not change when a constant
   tensor is added to every sample of X and a constant vector to every row of Y *)
Theorem plsr_shift_invariance ncomp X Y c d n sx m : shape X = n :: sx -> shape Y = [n; m] -> (0 < n)%nat ->
  let p := fit Rops inner lstsq ncomp X Y in
  let p' := fit Rops inner lstsq ncomp (shift Rops X c) (shift Rops Y d) in
  comps p' = comps p /\ loadings p' = loadings p /\ fitted_scores p' = fitted_scores p /\
  forall Xn i o, sshape Xn = sx -> (i < nsamp Xn)%nat -> (o < m)%nat ->
    tgetR (fit_predict Rops p' (shift Rops Xn c)) [i; o] = tgetR (fit_predict Rops p Xn) [i; o] + tgetR d [o].
Proof.
  intros HX HY Hn p p'.
  assert (E : p' = mkPlsr (tadd Rops (mean0 Rops X) c) (tadd Rops (mean0 Rops Y) d) (comps p))
    by (apply (fit_shift ncomp X Y c d n sx n [m]); assumption).
  rewrite E. unfold loadings, fitted_scores. cbn [comps]. repeat split.
  intros Xn i o HXn Hi Ho. unfold fit_predict, loadings. cbn [X_mean_ Y_mean_ comps].
  assert (HmY : shape (mean0 Rops Y) = [m]) by (unfold mean0, sshape; cbn [tabulate shape]; now rewrite HY).
  assert (HmX : shape (mean0 Rops X) = sshape Xn) by (unfold mean0 at 1, sshape at 1; cbn [tabulate shape]; rewrite HX, HXn; reflexivity).
  change (shape (tadd Rops (mean0 Rops Y) d)) with (shape (mean0 Rops Y)).
  change (Y_mean_ p) with (mean0 Rops Y). change (X_mean_ p) with (mean0 Rops X).
  rewrite HmY. cbn [hd].
  apply (plsr_predict_shift Rops RTheory _ _ _ _ _ Xn c d m i o); auto.
Qed.
End FitR.
End RealShift.

(* unit norm of the loadings: over R with sqrtF = sqrt *)
Section UnitNorm.
Open Scope R_scope.
Notation tgetR := (tget Rops).

Lemma bigsum_R_nonneg n f : (forall i, 0 <= f i) -> 0 <= bigsum R 0 Rplus n f.
Proof. intros H. induction n; cbn [bigsum]; [lra|]. specialize (H n). lra. Qed.

Lemma sumsq_nonneg v : 0 <= sumsq Rops v.
Proof. unfold sumsq, fsum_idx, sum_idx. apply bigsum_R_nonneg. intros i. apply Rle_0_sqr. Qed.

Lemma sumsq_normalize v :
  sumsq Rops (normalize Rops sqrt v) = sumsq Rops v * (/ sqrt (sumsq Rops v) * / sqrt (sumsq Rops v)).
Proof.
  unfold sumsq at 1. change (shape (normalize Rops sqrt v)) with (shape v).
  rewrite (fsum_idx_ext Rops (shape v) _ (fun J => (tgetR v J * tgetR v J) * (/ sqrt (sumsq Rops v) * / sqrt (sumsq Rops v)))).
  - unfold sumsq at 3. unfold fsum_idx, sum_idx.
    exact (bigsum_scale_r R _ _ _ _ _ _ RTheory (prod (shape v)) _ (fun k => tgetR v (unravel (shape v) k) * tgetR v (unravel (shape v) k))).
  - intros J HJ. unfold tget at 1 2. unfold normalize. rewrite get_tabulate by exact HJ.
    fold (tgetR v J). unfold norm2. cbn [Rops fdiv fmul]. unfold Rdiv. ring.
Qed.

Theorem normalize_unit_pos v : 0 < sumsq Rops v -> sumsq Rops (normalize Rops sqrt v) = 1.
Proof.
  intros H. rewrite sumsq_normalize. set (S := sumsq Rops v) in *.
  assert (Hs : 0 < sqrt S) by (apply sqrt_lt_R0; exact H).
  rewrite <- (sqrt_sqrt S) at 1 by lra. field. lra.
Qed.

(* a normalised vector has unit norm unless it is the normalisation of the zero vector *)
Theorem normalize_unit v : sumsq Rops (normalize Rops sqrt v) <> 0 -> sumsq Rops (normalize Rops sqrt v) = 1.
Proof.
  intros H. destruct (Req_dec (sumsq Rops v) 0) as [E|E].
  - exfalso. apply H. rewrite sumsq_normalize, E. ring.
  - apply normalize_unit_pos. pose proof (sumsq_nonneg v). lra.
Qed.

End UnitNorm.

Theorem plsr_unit_norm init ne_solve tol n_iter ncomp X Y c :
  In c (comps (fit_cp Rops sqrt init ne_solve tol n_iter ncomp X Y)) ->
  (forall l, In l (c_load c) -> sumsq Rops l <> 0%R -> sumsq Rops l = 1%R) /\
  (sumsq Rops (c_yload c) <> 0%R -> sumsq Rops (c_yload c) = 1%R).
Proof.
  intros Hin. destruct (plsr_loadings_normalized Rops sqrt init ne_solve tol n_iter ncomp X Y c Hin) as [H1 H2].
  split.
  - intros l Hl. rewrite Forall_forall in H1. destruct (H1 l Hl) as [v ->]. apply normalize_unit.
  - destruct H2 as [v ->]. apply normalize_unit.
Qed.

(* shift invariance for the concrete fit (instance of plsr_shift_invariance) *)
Theorem plsr_cp_shift_invariance (init : tensor R -> list (tensor R)) (ne_solve : list (list R) -> list R -> list R)
  (tol : R) (n_iter ncomp : nat) (X Y c d : tensor R) (n : nat) (sx : list nat) (m : nat) :
  shape X = n :: sx -> shape Y = [n; m] -> 0 < n ->
  let p := fit_cp Rops sqrt init ne_solve tol n_iter ncomp X Y in
  let p' := fit_cp Rops sqrt init ne_solve tol n_iter ncomp (shift Rops X c) (shift Rops Y d) in
  comps p' = comps p /\ loadings p' = loadings p /\ fitted_scores p' = fitted_scores p /\
  forall Xn i o, sshape Xn = sx -> i < nsamp Xn -> o < m ->
    tget Rops (fit_predict Rops p' (shift Rops Xn c)) [i; o] = (tget Rops (fit_predict Rops p Xn) [i; o] + tget Rops d [o])%R.
Proof.
  exact (plsr_shift_invariance (inner_cp Rops sqrt init tol n_iter) (lstsq_ne Rops ne_solve) ncomp X Y c d n sx m).
Qed.

(* the statements about fit as the source behaves (cp_plsr_fit: budget 0 rejected) *)
Theorem plsr_fit_unit_norm init ne_solve tol n_iter ncomp X Y r c :
  cp_plsr_fit Rops sqrt init ne_solve tol n_iter ncomp X Y = Ok r -> In c (comps r) ->
  (forall l, In l (c_load c) -> sumsq Rops l = 1%R \/ sumsq Rops l = 0%R) /\
  (sumsq Rops (c_yload c) = 1%R \/ sumsq Rops (c_yload c) = 0%R).
Proof.
  intros H Hin. rewrite (cp_plsr_fit_ok Rops sqrt init ne_solve tol _ _ _ _ _ H) in Hin.
  destruct (plsr_unit_norm init ne_solve tol n_iter ncomp X Y c Hin) as [H1 H2]. split.
  - intros l Hl. destruct (Req_dec (sumsq Rops l) 0) as [E|E]; [right; exact E | left; exact (H1 l Hl E)].
  - destruct (Req_dec (sumsq Rops (c_yload c)) 0) as [E|E]; [right; exact E | left; exact (H2 E)].
Qed.

Theorem plsr_fit_shift_invariance (init : tensor R -> list (tensor R)) (ne_solve : list (list R) -> list R -> list R)
  (tol : R) (n_iter ncomp : nat) (X Y c d : tensor R) (n : nat) (sx : list nat) (m : nat) r :
  shape X = n :: sx -> shape Y = [n; m] -> 0 < n ->
  cp_plsr_fit Rops sqrt init ne_solve tol n_iter ncomp X Y = Ok r ->
  exists r', cp_plsr_fit Rops sqrt init ne_solve tol n_iter ncomp (shift Rops X c) (shift Rops Y d) = Ok r' /\
  comps r' = comps r /\ loadings r' = loadings r /\ fitted_scores r' = fitted_scores r /\
  forall Xn i o, sshape Xn = sx -> i < nsamp Xn -> o < m ->
    tget Rops (fit_predict Rops r' (shift Rops Xn c)) [i; o] = (tget Rops (fit_predict Rops r Xn) [i; o] + tget Rops d [o])%R.
Proof.
  intros HX HY Hn H. pose proof (cp_plsr_fit_ok Rops sqrt init ne_solve tol _ _ _ _ _ H) as ->.
  exists (fit_cp Rops sqrt init ne_solve tol n_iter ncomp (shift Rops X c) (shift Rops Y d)). split.
  - unfold cp_plsr_fit in *. destruct ((n_iter =? 0) && (0 <? ncomp)); [discriminate | reflexivity].
  - exact (plsr_cp_shift_invariance init ne_solve tol n_iter ncomp X Y c d n sx m HX HY Hn).
Qed.
