(* Lemmas about Model/RegressObj2.v (round 7): a CP_PLSR fit interrupted by initialize_cp raising; the exact unit-norm
   characterisation over R; CP_PLSR.score over R (at most 1, invariant under the constant shifts of the property). *)
From Coq Require Import List Arith Lia Bool Ring Reals Lra.
From TLV Require Import Base.Shape Base.PyList Base.Tensor Base.BigSum Base.Ops Model.Base Proofs.BaseProofs Model.Regress
  Proofs.RegressProofs Proofs.RegressProofsPlsr Proofs.RegressProofsR Model.RegressObj Proofs.RegressProofsObj Proofs.RegressProofsObjR
  Model.RegressObj2.
Import ListNotations.

(* ------------------------------------------------------------------ initialize_cp raising at component c *)
Section InitRaise.
Context {F : Type} (Op : fops F).
Variable sqrtF : F -> F.
Variable init : tensor F -> list (tensor F).
Variable ne_solve : list (list F) -> list F -> list F.
Notation fit_entry := (plsr_fit_entry Op sqrtF init ne_solve).

Lemma fit_loop_init_until_spec (inner : tensor F -> tensor F -> list (tensor F) * tensor F) lstsq : forall c k X Y T, c <= k ->
  fit_loop_init_until Op inner lstsq c k X Y T =
  firstn c (fit_loop Op inner lstsq k X Y T) ++ repeat (zero_comp Op X Y) (k - c).
Proof.
  induction c as [|c IH]; intros [|k] X Y T Hk; try lia; cbn [fit_loop_init_until fit_loop firstn app]; cbv zeta.
  - reflexivity.
  - reflexivity.
  - cbn [app]. f_equal. rewrite IH by lia. cbn [Nat.sub].
    rewrite (zero_comp_shape Op X Y (deflate Op X (fst (inner X Y)) (scores Op X (fst (inner X Y)))) _) by reflexivity. reflexivity.
Qed.

Theorem plsr_fit_init_raising_spec c p X Y a : fit_entry p X Y = FitOk a -> c < pp_ncomp p ->
  exists a', plsr_fit_entry_init_raising Op sqrtF init ne_solve c p X Y = FitRaisePartial a' /\
    a_xshape a' = a_xshape a /\ a_yshape a' = a_yshape a /\
    X_mean_ (a_fit a') = X_mean_ (a_fit a) /\ Y_mean_ (a_fit a') = Y_mean_ (a_fit a) /\
    comps (a_fit a') = firstn c (comps (a_fit a)) ++ repeat (zero_comp Op X (as_matrix Y)) (pp_ncomp p - c).
Proof.
  intros H Hc. pose proof (fit_entry_ok Op sqrtF init ne_solve _ _ _ _ H) as K. cbv zeta in K. destruct K as (Hx & Hy & _ & Hfit & _).
  unfold plsr_fit_entry_init_raising. rewrite H. apply Nat.ltb_lt in Hc. rewrite Hc. apply Nat.ltb_lt in Hc.
  eexists. split; [reflexivity|]. cbn [a_xshape a_yshape a_fit X_mean_ Y_mean_ comps]. rewrite Hx, Hy, Hfit.
  unfold fit_cp, fit. cbn [X_mean_ Y_mean_ comps]. repeat split.
  rewrite fit_loop_init_until_spec by lia. reflexivity.
Qed.

(* raising at component 0 leaves exactly the state of a fit without pass budget: shapes, means, zero factors *)
Corollary plsr_fit_init_raising_first p X Y a : fit_entry p X Y = FitOk a -> 0 < pp_ncomp p ->
  plsr_fit_entry_init_raising Op sqrtF init ne_solve 0 p X Y =
  FitRaisePartial (mkPattrs (shape X) (shape (as_matrix Y)) (zero_plsr Op (pp_ncomp p) X (as_matrix Y))).
Proof.
  intros H Hc. unfold plsr_fit_entry_init_raising. rewrite H. apply Nat.ltb_lt in Hc. rewrite Hc.
  destruct (pp_ncomp p) as [|k]; [discriminate|]. cbn [fit_loop_init_until]. reflexivity.
Qed.
End InitRaise.

(* ------------------------------------------------------------------ exact unit norm over R *)
Section UnitIff.
Open Scope R_scope.

Lemma bigsum_R_zero_all n f : (forall i, 0 <= f i) -> bigsum R 0 Rplus n f = 0 -> forall i, (i < n)%nat -> f i = 0.
Proof.
  intros Hf. induction n; intros Hs i Hi; [lia|]. cbn [bigsum] in Hs.
  pose proof (bigsum_R_nonneg n f Hf) as Hn. pose proof (Hf n) as Hfn.
  destruct (Nat.eq_dec i n) as [->|Hne]; [lra|]. apply IHn; [lra|lia].
Qed.

(* a normalised vector has unit norm exactly when the vector it was obtained from is not the zero vector *)
Theorem normalize_unit_iff v : sumsq Rops (normalize Rops sqrt v) = 1 <-> sumsq Rops v <> 0.
Proof.
  split.
  - intros H E. rewrite sumsq_normalize, E in H. lra.
  - intros H. apply normalize_unit_pos. pose proof (sumsq_nonneg v). lra.
Qed.

(* squared norm 0 means every entry is 0: the second alternative of the unit-norm theorems is the zero vector *)
Theorem sumsq_zero_entries v : sumsq Rops v = 0 -> forall J, inb (shape v) J -> tget Rops v J = 0.
Proof.
  intros H J HJ. unfold sumsq, Regress.fsum_idx, sum_idx in H.
  pose proof (bigsum_R_zero_all (prod (shape v)) (fun k => tget Rops v (unravel (shape v) k) * tget Rops v (unravel (shape v) k))) as K.
  specialize (K (fun i => Rle_0_sqr _) H (ravel (shape v) J) (ravel_lt _ _ HJ)). cbv beta in K.
  rewrite unravel_ravel in K by exact HJ. apply Rmult_integral in K. tauto.
Qed.
End UnitIff.

(* ------------------------------------------------------------------ CP_PLSR.score over R *)
Section ScoreR.
Open Scope R_scope.
Notation tgetR := (tget Rops).

Lemma fsum_idx_R_nonneg s f : (forall J, 0 <= f J) -> 0 <= Regress.fsum_idx Rops s f.
Proof. intros H. unfold Regress.fsum_idx, sum_idx. apply bigsum_R_nonneg. intros i. apply H. Qed.

Lemma fsum_idx_R_zero_all s f : (forall J, 0 <= f J) -> Regress.fsum_idx Rops s f = 0 -> forall J, inb s J -> f J = 0.
Proof.
  intros Hf H J HJ. unfold Regress.fsum_idx, sum_idx in H.
  pose proof (bigsum_R_zero_all (prod s) (fun k => f (unravel s k)) (fun i => Hf _) H (ravel s J) (ravel_lt _ _ HJ)) as K.
  cbv beta in K. now rewrite unravel_ravel in K by exact HJ.
Qed.

Definition score_num (a : pattrs (F:=R)) (X Y : tensor R) : R :=
  Regress.fsum_idx Rops (shape Y) (fun J => let e := tgetR (fit_predict Rops (a_fit a) X) J - tgetR Y J in e * e).
Definition score_den (a : pattrs (F:=R)) (Y : tensor R) : R :=
  Regress.fsum_idx Rops (shape Y) (fun J => let e := tgetR Y J - tgetR (Y_mean_ (a_fit a)) (tl J) in e * e).

Lemma plsr_score_parts a X Y : plsr_score Rops a X Y = 1 - score_num a X Y / score_den a Y.
Proof. reflexivity. Qed.

Lemma score_num_nonneg a X Y : 0 <= score_num a X Y.
Proof. apply fsum_idx_R_nonneg. intros J. cbv zeta. apply Rle_0_sqr. Qed.
Lemma score_den_nonneg a Y : 0 <= score_den a Y.
Proof. apply fsum_idx_R_nonneg. intros J. cbv zeta. apply Rle_0_sqr. Qed.

(* R2 is at most 1 (no hypothesis: a vanishing denominator gives 1 - x/0 = 1 in R, inf / nan in floating point) *)
Theorem plsr_score_le_1 a X Y : plsr_score Rops a X Y <= 1.
Proof.
  rewrite plsr_score_parts. pose proof (score_num_nonneg a X Y) as Hn. pose proof (score_den_nonneg a Y) as Hd.
  assert (0 <= score_num a X Y / score_den a Y); [|lra].
  destruct (Req_dec (score_den a Y) 0) as [E|E].
  - rewrite E. unfold Rdiv. rewrite Rinv_0. lra.
  - apply Rmult_le_pos; [exact Hn|]. apply Rlt_le, Rinv_0_lt_compat. lra.
Qed.

(* ... with equality exactly when every prediction equals its target (the targets not all equal to the fitted mean) *)
Theorem plsr_score_one_iff a X Y : 0 < score_den a Y ->
  (plsr_score Rops a X Y = 1 <-> forall J, inb (shape Y) J -> tgetR (fit_predict Rops (a_fit a) X) J = tgetR Y J).
Proof.
  intros Hd. rewrite plsr_score_parts. split.
  - intros H J HJ.
    assert (E : score_num a X Y = 0).
    { assert (score_num a X Y / score_den a Y = 0) by lra. unfold Rdiv in H0. apply Rmult_integral in H0. destruct H0; [assumption|].
      exfalso. pose proof (Rinv_0_lt_compat _ Hd). lra. }
    unfold score_num in E.
    pose proof (fsum_idx_R_zero_all (shape Y)
                  (fun J => let e := tgetR (fit_predict Rops (a_fit a) X) J - tgetR Y J in e * e)
                  (fun J0 => Rle_0_sqr (tgetR (fit_predict Rops (a_fit a) X) J0 - tgetR Y J0)) E J HJ) as K. cbv beta zeta in K.
    apply Rmult_integral in K. lra.
  - intros H. assert (E : score_num a X Y = 0).
    { unfold score_num. unfold Regress.fsum_idx, sum_idx. apply (bigsum_zero R _ _ _ _ _ _ RTheory). intros k Hk. cbv zeta.
      rewrite H by (apply unravel_inb; exact Hk). ring. }
    rewrite E. unfold Rdiv. lra.
Qed.

Lemma tget_tadd (a b : tensor R) idx : inb (shape a) idx -> tgetR (tadd Rops a b) idx = tgetR a idx + tgetR b idx.
Proof. intros H. unfold Regress.tget at 1. unfold tadd. now rewrite get_tabulate. Qed.

Section FitScore.
Variable inner : tensor R -> tensor R -> list (tensor R) * tensor R.
Variable lstsq : list (list R) -> list R -> list R.

(* the score is invariant under the constant shifts of the property: fit on (X + c, Y + d), evaluate on (Xn + c, Yn + d) *)
Theorem plsr_score_shift ncomp X Y c d n sx m sX sY sX' sY' : shape X = n :: sx -> shape Y = [n; m] -> (0 < n)%nat ->
  let p := fit Rops inner lstsq ncomp X Y in
  let p' := fit Rops inner lstsq ncomp (shift Rops X c) (shift Rops Y d) in
  forall Xn Yn k, shape Xn = k :: sx -> shape Yn = [k; m] ->
    plsr_score Rops (mkPattrs sX' sY' p') (shift Rops Xn c) (shift Rops Yn d) = plsr_score Rops (mkPattrs sX sY p) Xn Yn.
Proof.
  intros HX HY Hn p p' Xn Yn k HXn HYn.
  destruct (plsr_shift_invariance inner lstsq ncomp X Y c d n sx m HX HY Hn) as (_ & _ & _ & E4).
  fold p p' in E4.
  assert (E : p' = mkPlsr (tadd Rops (mean0 Rops X) c) (tadd Rops (mean0 Rops Y) d) (comps p))
    by (apply (fit_shift inner lstsq ncomp X Y c d n sx n [m]); assumption).
  assert (HmY : shape (mean0 Rops Y) = [m]) by (unfold mean0, sshape; cbn [tabulate shape]; now rewrite HY).
  rewrite !plsr_score_parts. unfold score_num, score_den. cbn [a_fit].
  change (shape (shift Rops Yn d)) with (shape Yn). rewrite HYn.
  f_equal. f_equal.
  - apply (fsum_idx_ext Rops). intros J HJ. destruct J as [|i [|o [|? ?]]]; cbn [inb] in HJ; try tauto. destruct HJ as (Hi & Ho & _).
    cbv zeta. rewrite (E4 Xn i o) by (unfold sshape, nsamp; rewrite ?HXn; cbn [tl hd]; auto).
    rewrite tget_shift by (rewrite HYn; cbn [inb]; auto). cbn [tl]. ring.
  - apply (fsum_idx_ext Rops). intros J HJ. destruct J as [|i [|o [|? ?]]]; cbn [inb] in HJ; try tauto. destruct HJ as (Hi & Ho & _).
    cbv zeta. rewrite tget_shift by (rewrite HYn; cbn [inb]; auto). cbn [tl].
    rewrite E. cbn [Y_mean_]. rewrite tget_tadd by (rewrite HmY; cbn [inb]; auto).
    change (Y_mean_ p) with (mean0 Rops Y). ring.
Qed.
End FitScore.

Variable init : tensor R -> list (tensor R).
Variable ne_solve : list (list R) -> list R -> list R.
Notation fit_entryR := (plsr_fit_entry Rops sqrt init ne_solve).

(* the same at the level of the entry points (validation, vector- or matrix-valued training targets, predict's tests) *)
Theorem plsr_entry_score_shift prm X Y c d n sx a : shape X = n :: sx -> (shape Y = [n] \/ exists m, shape Y = [n; m]) -> (0 < n)%nat ->
  fit_entryR prm X Y = FitOk a ->
  exists a', fit_entryR prm (shift Rops X c) (shift Rops Y d) = FitOk a' /\
    forall q Xn Yn k, shape Xn = k :: sx -> shape Yn = [k; nth 1 (a_yshape a) 0%nat] ->
      plsr_score_entry Rops q a' (shift Rops Xn c) (shift Rops Yn (y_offset Y d)) = plsr_score_entry Rops q a Xn Yn.
Proof.
  intros HX HY Hn H.
  destruct (plsr_entry_shift init ne_solve prm X Y c d n sx a HX HY Hn H) as (a' & H' & Sx & Sy & Ec & _).
  exists a'. split; [exact H'|]. intros q Xn Yn k HXn HYn.
  pose proof (fit_entry_ok Rops sqrt init ne_solve _ _ _ _ H) as K. cbv zeta in K. destruct K as (Hx & Hy & _ & Hfit & _).
  pose proof (fit_entry_ok Rops sqrt init ne_solve _ _ _ _ H') as K. cbv zeta in K. destruct K as (Hx' & Hy' & _ & Hfit' & _).
  assert (EA : as_matrix (shift Rops Y d) = shift Rops (as_matrix Y) (y_offset Y d) /\ exists m, shape (as_matrix Y) = [n; m]).
  { unfold y_offset. destruct HY as [HY|(m & HY)].
    - rewrite HY. split; [exact (as_matrix_shift Rops Y d n HY)|]. exists 1%nat. unfold as_matrix. rewrite HY. reflexivity.
    - assert (E1 : as_matrix Y = Y) by (unfold as_matrix; now rewrite HY).
      assert (E2 : as_matrix (shift Rops Y d) = shift Rops Y d) by (unfold as_matrix; change (shape (shift Rops Y d)) with (shape Y); now rewrite HY).
      rewrite E1, E2, HY. split; [reflexivity|]. exists m. reflexivity. }
  destruct EA as (EA & m & HYm).
  unfold plsr_score_entry, plsr_predict_entry. rewrite Sx. change (shape (shift Rops Xn c)) with (shape Xn).
  assert (Ew : fitted_width a' = fitted_width a) by (unfold fitted_width; now rewrite Ec). rewrite Ew.
  destruct (negb (nl_eqb (tl (a_xshape a)) (tl (shape Xn)))); [reflexivity|].
  destruct (negb (pp_ncomp q =? fitted_width a)); [reflexivity|]. f_equal.
  rewrite Hy, HYm in HYn. cbn [nth] in HYn.
  destruct a as [ax ay af], a' as [ax' ay' af']. cbn [a_fit] in *. subst af af'. rewrite EA.
  exact (plsr_score_shift (inner_cp Rops sqrt init (pp_tol prm) (pp_niter prm)) (lstsq_ne Rops ne_solve) (pp_ncomp prm)
           X (as_matrix Y) c (y_offset Y d) n sx m ax ay ax' ay' HX HYm Hn Xn Yn k HXn HYn).
Qed.
End ScoreR.
