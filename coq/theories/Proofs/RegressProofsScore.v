(* CP_PLSR.score is the R2 of tensorly/metrics/regression.py: the link between Model/RegressObj.plsr_score and the model of
   R2_score of property C20 (Model/Metrics.v, read only): over any commutative ring,
     plsr_score a X Y = R2_score (Y - Y_mean_) (predict(X) - Y_mean_)
   for a matrix Y of the shape of the predictions. *)
From Coq Require Import List Arith Lia Bool Ring.
From TLV Require Import Base.Shape Base.PyList Base.Tensor Base.BigSum Base.Ops Model.Base Proofs.BaseProofs Model.Regress
  Proofs.RegressProofs Model.RegressObj.
From TLV Require Model.Metrics.
Import ListNotations.

Section ScoreLink.
Context {F : Type} (Op : fops F).
Hypothesis Rth : ring_theory (f0 Op) (f1 Op) (fadd Op) (fmul Op) (fsub Op) (fopp Op) (@eq F).
Add Ring Fr7 : Rth.

(* the left fold of the metrics model is the big sum of this model (no algebraic law needed) *)
Lemma fsum_seq_bigsum n (g : nat -> F) : fsum Op (map g (seq 0 n)) = bigsum F (f0 Op) (fadd Op) n g.
Proof.
  induction n; [reflexivity|]. rewrite seq_S, map_app. unfold fsum in *. rewrite fold_left_app, IHn. reflexivity.
Qed.

Lemma fsum_data_tabulate s (f : list nat -> F) (h : F -> F) :
  fsum Op (map h (data (tabulate s f))) = Regress.fsum_idx Op s (fun J => h (f J)).
Proof. unfold tabulate. cbn [data]. rewrite map_map. apply fsum_seq_bigsum. Qed.

Theorem plsr_score_is_R2 (a : pattrs (F:=F)) (X Y : tensor F) :
  let Pr := fit_predict Op (a_fit a) X in
  plsr_score Op a X Y =
  Metrics.R2_score Op (center Op Y (Y_mean_ (a_fit a)))
                      (tabulate (shape Y) (fun J => fsub Op (tget Op Pr J) (tget Op (Y_mean_ (a_fit a)) (tl J)))).
Proof.
  cbv zeta. unfold plsr_score, Metrics.R2_score. f_equal. f_equal.
  - unfold Metrics.tzip. cbn [shape]. rewrite (fsum_data_tabulate (shape Y) _ (Metrics.fsq Op)).
    apply (sum_idx_ext F). intros J HJ. cbv zeta. unfold Metrics.tget. rewrite get_tabulate by exact HJ.
    fold (Regress.tget Op (center Op Y (Y_mean_ (a_fit a))) J). rewrite tget_center by exact HJ.
    unfold Metrics.fsq. ring.
  - unfold center. rewrite (fsum_data_tabulate (shape Y) _ (Metrics.fsq Op)). reflexivity.
Qed.
End ScoreLink.
