(* C08 -- the loop of coupled_matrix_tensor_3d_factorization at the level of shapes: every least-squares problem of every sweep is well
   formed and the factor shapes I_k x r are invariant, so for every iteration cap >= 1 and every stopping path the result has the
   structure of the one-line model cmtf (tensor part: weights r, factors I_k x r; matrix part: weights r, factors I_0 x r and m x r, the
   first one being the tensor part's first factor).  With no sweep V is unbound and the call raises (model: Err). *)
From Coq Require Import List Arith Bool Lia.
From TLV Require Import Base.Shape Base.PyList Base.Tensor Model.Structure Model.StructureCmtf.
Import ListNotations.
Local Open Scope nat_scope.

Section Cmtf.
  Variables (I0 I1 I2 m r : nat).
  Local Notation shape3 := [I0; I1; I2].
  Local Notation mshape := [I0; m].
  Local Notation fac := [[I0; r]; [I1; r]; [I2; r]].

  Lemma cmtf_update_2 : cmtf_update shape3 mshape [m; r] fac 2 = Ok ([I0 * (I1 * 1); r], [I0 * (I1 * 1); I2], fac).
  Proof. unfold cmtf_update, cm_khatri_rao, cm_unfold. cbn. repeat (rewrite !Nat.eqb_refl; cbn). reflexivity. Qed.
  Lemma cmtf_update_1 : cmtf_update shape3 mshape [m; r] fac 1 = Ok ([I0 * (I2 * 1); r], [I0 * (I2 * 1); I1], fac).
  Proof. unfold cmtf_update, cm_khatri_rao, cm_unfold. cbn. repeat (rewrite !Nat.eqb_refl; cbn). reflexivity. Qed.
  Lemma cmtf_update_0 : cmtf_update shape3 mshape [m; r] fac 0 = Ok ([I1 * (I2 * 1) + m; r], [I1 * (I2 * 1) + m; I0], fac).
  Proof. unfold cmtf_update, cm_khatri_rao, cm_unfold. cbn. repeat (rewrite !Nat.eqb_refl; cbn). reflexivity. Qed.

  (* the four least-squares systems of a sweep; V is m x r; the factor shapes are invariant *)
  Lemma cmtf_sweep_ok : cmtf_sweep shape3 mshape fac =
    Ok ([([I0; r], [I0; m]); ([I0 * (I1 * 1); r], [I0 * (I1 * 1); I2]); ([I0 * (I2 * 1); r], [I0 * (I2 * 1); I1]);
         ([I1 * (I2 * 1) + m; r], [I1 * (I2 * 1) + m; I0])], [m; r], fac).
  Proof.
    unfold cmtf_sweep. cbn [nth cm_lstsq]. rewrite Nat.eqb_refl. cbn [rbind cm_transpose length seq rev app cmtf_updates].
    rewrite cmtf_update_2. cbn [rbind snd fst]. rewrite cmtf_update_1. cbn [rbind snd fst]. rewrite cmtf_update_0. reflexivity.
  Qed.

  (* any positive number of sweeps on any stopping path *)
  Lemma cmtf_loop_ok : forall fuel it decisions V0, 1 <= fuel ->
    cmtf_loop shape3 mshape it fuel decisions V0 fac = Ok (Some [m; r], fac).
  Proof.
    induction fuel as [|fuel IH]; intros it decisions V0 Hf; [lia|].
    cbn [cmtf_loop]. rewrite cmtf_sweep_ok. cbn [rbind fst snd].
    destruct ((1 <=? it) && hd false decisions); [reflexivity|].
    destruct fuel as [|fuel']; [reflexivity|]. apply IH. lia.
  Qed.
  Lemma cmtf_loop_0 it decisions : cmtf_loop shape3 mshape it 0 decisions None fac = Ok (None, fac).
  Proof. reflexivity. Qed.
End Cmtf.

Theorem cmtf_run_structure I0 I1 I2 m spec n_iter_max decisions r :
  validate_cp_rank [I0; I1; I2] spec RRound = Ok r -> 1 <= n_iter_max ->
  cmtf_run [I0; I1; I2] m spec n_iter_max decisions = Ok (cp_shapes [I0; I1; I2] r ++ cp_shapes [I0; m] r) /\
  cmtf [I0; I1; I2] m spec = Ok (cp_shapes [I0; I1; I2] r ++ cp_shapes [I0; m] r).
Proof.
  intros Hv Hn. split.
  - unfold cmtf_run. rewrite Hv. cbn [rbind hd map]. rewrite cmtf_loop_ok by exact Hn. reflexivity.
  - unfold cmtf. rewrite Hv. reflexivity.
Qed.
(* with no sweep the matrix part cannot be built (V is unbound in the code: the call raises) *)
Theorem cmtf_run_no_sweep I0 I1 I2 m spec decisions : cmtf_run [I0; I1; I2] m spec 0 decisions = Err.
Proof. unfold cmtf_run. destruct (validate_cp_rank [I0; I1; I2] spec RRound); reflexivity. Qed.
Example cmtf_run_ex : cmtf_run [3; 4; 5] 6 (RInt 2) 2 [false; true] = Ok [[2]; [3; 2]; [4; 2]; [5; 2]; [2]; [3; 2]; [6; 2]] /\
  cmtf_sweep [3; 4; 5] [2; 6] [[3; 2]; [4; 2]; [5; 2]] = Err.
Proof. vm_compute. split; reflexivity. Qed.
