(* C08 -- Tucker canonical form over an arbitrary commutative ring WITH CONJUGATION (an involutive ring automorphism):
   real data are the instance conj = id over R, complex data the instance C = R x R with the usual conjugation.

   A factor U (m x k) has UNITARY COLUMNS when U^H U = I_k (sum_i conj(U i a) * U i b = delta a b).  For tensors of EVERY
   order (functions list nat -> K summed over a whole index space with Base/BigSum.sum_idx; induction over the list of modes):
     trec  ranks fs G  = G x_0 U_0 x_1 U_1 ...             (tucker_to_tensor; multi_mode_dot(core, factors))
     tproj shape fs X  = X x_0 U_0^H x_1 U_1^H ...         (multi_mode_dot(tensor, factors, transpose=True): CONJUGATE transpose)
   tproj is the adjoint of trec (no hypothesis), and for factors with unitary columns it is a left inverse of trec, trec is an
   isometry, the residual X - trec (tproj X) is orthogonal to every tensor of the form trec H, and
   <X,X> = <core,core> + <residual,residual> for core = tproj X -- the identity partial_tucker's error formula relies on. *)
From Coq Require Import List Arith Lia Ring.
From TLV Require Import Base.Shape Base.BigSum.
Import ListNotations.

Section Conj.
  Variable K : Type.
  Variables (k0 k1 : K) (kadd kmul ksub : K -> K -> K) (kopp : K -> K).
  Hypothesis Kth : ring_theory k0 k1 kadd kmul ksub kopp (@eq K).
  Add Ring Kr : Kth.
  Variable conj : K -> K.
  Hypothesis conj_add : forall a b, conj (kadd a b) = kadd (conj a) (conj b).
  Hypothesis conj_mul : forall a b, conj (kmul a b) = kmul (conj a) (conj b).
  Hypothesis conj_inv : forall a, conj (conj a) = a.
  Infix "+k" := kadd (at level 50, left associativity).
  Infix "*k" := kmul (at level 40, left associativity).
  Infix "-k" := ksub (at level 50, left associativity).

  Notation S := (bigsum K k0 kadd).
  Notation SI := (sum_idx K k0 kadd).

  (* ---------------------------------------------------------------- conjugation: derived laws *)
  Lemma conj_0 : conj k0 = k0.
  Proof.
    assert (H : conj k0 +k conj k0 = conj k0) by (rewrite <- conj_add; f_equal; ring).
    transitivity ((conj k0 +k conj k0) -k conj k0); [ring | rewrite H; ring].
  Qed.
  Lemma conj_1 : conj k1 = k1.
  Proof.
    transitivity (conj k1 *k conj (conj k1)); [rewrite conj_inv; ring|].
    rewrite <- conj_mul. replace (k1 *k conj k1) with (conj k1) by ring. apply conj_inv.
  Qed.
  Lemma conj_opp a : conj (kopp a) = kopp (conj a).
  Proof.
    assert (H : conj (kopp a) +k conj a = k0) by (rewrite <- conj_add; replace (kopp a +k a) with k0 by ring; apply conj_0).
    transitivity ((conj (kopp a) +k conj a) -k conj a); [ring | rewrite H; ring].
  Qed.
  Lemma conj_sub a b : conj (a -k b) = conj a -k conj b.
  Proof. replace (a -k b) with (a +k kopp b) by ring. rewrite conj_add, conj_opp. ring. Qed.
  Lemma conj_S n f : conj (S n f) = S n (fun i => conj (f i)).
  Proof. induction n; simpl; [apply conj_0 | rewrite conj_add, IHn; reflexivity]. Qed.
  Lemma conj_SI s f : conj (SI s f) = SI s (fun idx => conj (f idx)).
  Proof. unfold sum_idx. apply conj_S. Qed.

  (* ---------------------------------------------------------------- sums over index spaces: linearity, exchange *)
  Lemma SI_scale_l s c f : SI s (fun i => c *k f i) = c *k SI s f.
  Proof. unfold sum_idx. apply (bigsum_scale_l K k0 k1 kadd kmul ksub kopp Kth). Qed.
  Lemma SI_scale_r s c f : SI s (fun i => f i *k c) = SI s f *k c.
  Proof. unfold sum_idx. apply (bigsum_scale_r K k0 k1 kadd kmul ksub kopp Kth). Qed.
  Lemma SI_add s f g : SI s (fun i => f i +k g i) = SI s f +k SI s g.
  Proof. unfold sum_idx. apply (bigsum_add K k0 k1 kadd kmul ksub kopp Kth). Qed.
  Lemma SI_zero s f : (forall idx, inb s idx -> f idx = k0) -> SI s f = k0.
  Proof. intros H. unfold sum_idx. apply (bigsum_zero K k0 k1 kadd kmul ksub kopp Kth). intros k Hk. apply H. now apply unravel_inb. Qed.
  Lemma SI_sub s f g : SI s (fun i => f i -k g i) = SI s f -k SI s g.
  Proof.
    transitivity (SI s (fun i => f i +k kopp k1 *k g i)).
    - apply sum_idx_ext; intros; ring.
    - rewrite SI_add, SI_scale_l. ring.
  Qed.
  Lemma SI_exchange s t (f : list nat -> list nat -> K) :
    SI s (fun i => SI t (fun j => f i j)) = SI t (fun j => SI s (fun i => f i j)).
  Proof. unfold sum_idx. apply (bigsum_exchange K k0 k1 kadd kmul ksub kopp Kth). Qed.
  Lemma S_SI_exchange n s (f : nat -> list nat -> K) :
    S n (fun i => SI s (fun j => f i j)) = SI s (fun j => S n (fun i => f i j)).
  Proof. unfold sum_idx. apply (bigsum_exchange K k0 k1 kadd kmul ksub kopp Kth). Qed.
  Notation S_ext := (bigsum_ext K k0 kadd).
  Notation SI_ext := (sum_idx_ext K k0 kadd).

  (* ---------------------------------------------------------------- unitary columns *)
  Definition kdelta (a b : nat) : K := if Nat.eq_dec a b then k1 else k0.
  Definition unitary_cols (m k : nat) (U : nat -> nat -> K) : Prop :=
    forall a b, a < k -> b < k -> S m (fun i => conj (U i a) *k U i b) = kdelta a b.
  Definition cj (U : nat -> nat -> K) : nat -> nat -> K := fun i j => conj (U i j).

  (* U[:, :r], or any injective selection of columns (truncated SVD; HOOI keeps the leading rank_k left singular vectors) *)
  Lemma unitary_cols_select m k k' U (sel : nat -> nat) :
    unitary_cols m k U -> (forall a, a < k' -> sel a < k) ->
    (forall a b, a < k' -> b < k' -> sel a = sel b -> a = b) -> unitary_cols m k' (fun i a => U i (sel a)).
  Proof.
    intros H Hs Hi a b Ha Hb. rewrite H by (apply Hs; assumption).
    unfold kdelta. destruct (Nat.eq_dec (sel a) (sel b)) as [E|E], (Nat.eq_dec a b) as [E'|E']; try reflexivity.
    - exfalso. apply E'. now apply Hi.
    - exfalso. apply E. now rewrite E'.
  Qed.
  Lemma unitary_cols_truncate m k r U : unitary_cols m k U -> r <= k -> unitary_cols m r U.
  Proof. intros H Hr a b Ha Hb. apply H; lia. Qed.
  (* the identity matrix (the modes partial_tucker does not decompose) *)
  Lemma S_delta_l k (f : nat -> K) a : a < k -> S k (fun l => kdelta a l *k f l) = f a.
  Proof.
    intros Ha. rewrite (bigsum_single K k0 k1 kadd kmul ksub kopp Kth k a); [| exact Ha |].
    - unfold kdelta. destruct (Nat.eq_dec a a); [ring | congruence].
    - intros i _ Hi. unfold kdelta. destruct (Nat.eq_dec a i); [congruence | ring].
  Qed.
  Lemma unitary_cols_identity d : unitary_cols d d kdelta.
  Proof.
    intros a b Ha Hb.
    rewrite (S_ext d _ (fun i => kdelta a i *k kdelta i b)).
    - now rewrite S_delta_l.
    - intros i _. f_equal. unfold kdelta. destruct (Nat.eq_dec i a), (Nat.eq_dec a i); try congruence; [apply conj_1 | apply conj_0].
  Qed.



  (* the Gram matrix M M^H (what symeig_svd hands to eigh after d995974) is Hermitian, for every M *)
  Lemma gram_hermitian n (M : nat -> nat -> K) a b :
    S n (fun j => M a j *k conj (M b j)) = conj (S n (fun j => M b j *k conj (M a j))).
  Proof. rewrite conj_S. apply S_ext; intros j _. rewrite conj_mul, conj_inv. ring. Qed.

  (* ---------------------------------------------------------------- TT-SVD / TR-SVD cores from a U with unitary columns (real or complex data) *)
  (* TT-SVD: core[a, i, b] = U[a * I + i, b] (reshape of U[:, :r]); the core is left-unitary: sum_{a,i} conj(core[a,i,b]) core[a,i,b'] = delta b b' *)
  Definition kcore_of (I : nat) (U : nat -> nat -> K) : nat -> nat -> nat -> K := fun a i b => U (a * I + i) b.
  Lemma tt_core_left_unitary rk I k r U : unitary_cols (rk * I) k U -> r <= k -> forall b b', b < r -> b' < r ->
    S rk (fun a => S I (fun i => conj (kcore_of I U a i b) *k kcore_of I U a i b')) = kdelta b b'.
  Proof.
    intros H Hr b b' Hb Hb'. unfold kcore_of.
    rewrite <- (bigsum_mul K k0 k1 kadd kmul ksub kopp Kth rk I (fun p => conj (U p b) *k U p b')). apply H; lia.
  Qed.
  (* TR-SVD, first core: factor[a, i, b] = U[i, a * r1 + b]; its mode unfolding (I x r0 r1) has unitary columns *)
  Definition ktr_first_core (r1 : nat) (U : nat -> nat -> K) : nat -> nat -> nat -> K := fun a i b => U i (a * r1 + b).
  Lemma tr_first_core_unitary I r0 r1 U : unitary_cols I (r0 * r1) U ->
    forall a b a' b', a < r0 -> b < r1 -> a' < r0 -> b' < r1 ->
    S I (fun i => conj (ktr_first_core r1 U a i b) *k ktr_first_core r1 U a' i b') = kdelta a a' *k kdelta b b'.
  Proof.
    intros H a b a' b' Ha Hb Ha' Hb'. unfold ktr_first_core. rewrite H by nia.
    unfold kdelta. destruct (Nat.eq_dec (a * r1 + b) (a' * r1 + b')) as [E|E].
    - assert (a = a') by nia. subst a'. assert (b = b') by lia. subst b'.
      destruct (Nat.eq_dec a a); [|congruence]. destruct (Nat.eq_dec b b); [ring | congruence].
    - destruct (Nat.eq_dec a a') as [->|]; [|ring]. destruct (Nat.eq_dec b b') as [->|]; [congruence | ring].
  Qed.

  (* ---------------------------------------------------------------- Tucker tensors of every order *)
  Definition tens := list nat -> K.
  Fixpoint kfprod (fs : list (nat -> nat -> K)) (idx jdx : list nat) : K :=
    match fs, idx, jdx with
    | f :: fs', i :: idx', j :: jdx' => f i j *k kfprod fs' idx' jdx'
    | _, _, _ => k1
    end.
  (* tucker_to_tensor: entry idx of  G x_0 U_0 x_1 U_1 ... *)
  Definition trec (ranks : list nat) (fs : list (nat -> nat -> K)) (G : tens) : tens :=
    fun idx => SI ranks (fun jdx => G jdx *k kfprod fs idx jdx).
  (* multi_mode_dot(X, factors, transpose=True): entry jdx of  X x_0 U_0^H x_1 U_1^H ... *)
  Definition tproj (shape : list nat) (fs : list (nat -> nat -> K)) (X : tens) : tens :=
    fun jdx => SI shape (fun idx => X idx *k kfprod (map cj fs) idx jdx).
  Definition tinner (s : list nat) (A B : tens) : K := SI s (fun idx => conj (A idx) *k B idx).
  Definition tsub (A B : tens) : tens := fun idx => A idx -k B idx.
  Definition tadd (A B : tens) : tens := fun idx => A idx +k B idx.

  Inductive unitary_all : list nat -> list nat -> list (nat -> nat -> K) -> Prop :=
  | ua_nil : unitary_all [] [] []
  | ua_cons d s r rk U fs : unitary_cols d r U -> unitary_all s rk fs -> unitary_all (d :: s) (r :: rk) (U :: fs).

  Lemma conj_fprod fs : forall idx jdx, conj (kfprod fs idx jdx) = kfprod (map cj fs) idx jdx.
  Proof.
    induction fs as [|f fs IH]; intros [|i idx] [|j jdx]; simpl; try apply conj_1.
    rewrite conj_mul, IH. reflexivity.
  Qed.

  (* tproj is the adjoint of trec: <trec H, X> = <H, tproj X>  -- for arbitrary factors *)
  Lemma rec_proj_adjoint shape ranks fs H X :
    tinner shape (trec ranks fs H) X = tinner ranks H (tproj shape fs X).
  Proof.
    unfold tinner, trec, tproj.
    rewrite (SI_ext shape _ (fun idx => SI ranks (fun jdx => conj (H jdx) *k (X idx *k kfprod (map cj fs) idx jdx)))).
    2:{ intros idx _. rewrite conj_SI, <- SI_scale_r. apply SI_ext; intros jdx _. rewrite conj_mul, conj_fprod. ring. }
    rewrite SI_exchange. apply SI_ext; intros jdx _. now rewrite SI_scale_l.
  Qed.

  (* tproj after trec is the identity on cores, for factors with unitary columns -- every order *)
  Lemma tproj_trec shape ranks fs : unitary_all shape ranks fs ->
    forall G jdx, inb ranks jdx -> tproj shape fs (trec ranks fs G) jdx = G jdx.
  Proof.
    induction 1 as [|d s r rk U fs HU Hall IH]; intros G jdx Hin.
    - destruct jdx; [|destruct Hin]. unfold tproj, trec. rewrite !(sum_idx_nil K k0 k1 kadd kmul ksub kopp Kth). simpl. ring.
    - destruct jdx as [|j jdx]; [destruct Hin|]. destruct Hin as [Hj Hin].
      unfold tproj. rewrite (sum_idx_cons K k0 k1 kadd kmul ksub kopp Kth).
      (* the tinner reconstruction, with the first mode split off *)
      set (Gs := fun j' => fun jd' => G (j' :: jd')).
      rewrite (S_ext d _ (fun i => S r (fun j' => (conj (U i j) *k U i j') *k
                 SI s (fun idx' => trec rk fs (Gs j') idx' *k kfprod (map cj fs) idx' jdx)))).
      2:{ intros i _.
          rewrite (SI_ext s _ (fun idx' => S r (fun j' => (conj (U i j) *k U i j') *k
                     (trec rk fs (Gs j') idx' *k kfprod (map cj fs) idx' jdx)))).
          2:{ intros idx' _. unfold trec at 1. rewrite (sum_idx_cons K k0 k1 kadd kmul ksub kopp Kth).
              simpl map. simpl kfprod. unfold cj at 1.
              rewrite <- (bigsum_scale_r K k0 k1 kadd kmul ksub kopp Kth).
              apply S_ext; intros j' _.
              rewrite (SI_ext rk _ (fun jd' => U i j' *k (Gs j' jd' *k kfprod fs idx' jd'))) by (intros; unfold Gs; ring).
              rewrite SI_scale_l. unfold trec. ring. }
          rewrite <- S_SI_exchange. apply S_ext; intros j' _. now rewrite SI_scale_l. }
      rewrite (bigsum_exchange K k0 k1 kadd kmul ksub kopp Kth).
      rewrite (S_ext r _ (fun j' => kdelta j j' *k G (j' :: jdx))).
      2:{ intros j' Hj'. rewrite (bigsum_scale_r K k0 k1 kadd kmul ksub kopp Kth). rewrite HU by assumption.
          f_equal. change (tproj s fs (trec rk fs (Gs j')) jdx = Gs j' jdx). now apply IH. }
      now apply S_delta_l.
  Qed.

  (* ---------------------------------------------------------------- linearity *)
  Lemma tproj_sub shape fs X Y jdx : tproj shape fs (tsub X Y) jdx = tproj shape fs X jdx -k tproj shape fs Y jdx.
  Proof. unfold tproj, tsub. rewrite <- SI_sub. apply SI_ext; intros; ring. Qed.
  Lemma inner_ext s A B A' B' : (forall idx, inb s idx -> A idx = A' idx) -> (forall idx, inb s idx -> B idx = B' idx) ->
    tinner s A B = tinner s A' B'.
  Proof. intros HA HB. unfold tinner. apply SI_ext; intros idx Hi. now rewrite HA, HB. Qed.
  Lemma inner_zero_r s A B : (forall idx, inb s idx -> B idx = k0) -> tinner s A B = k0.
  Proof. intros HB. unfold tinner. apply SI_zero. intros idx Hi. rewrite HB by exact Hi. ring. Qed.
  Lemma inner_add_l s A B C : tinner s (tadd A B) C = tinner s A C +k tinner s B C.
  Proof. unfold tinner, tadd. rewrite <- SI_add. apply SI_ext; intros. rewrite conj_add. ring. Qed.
  Lemma inner_add_r s A B C : tinner s A (tadd B C) = tinner s A B +k tinner s A C.
  Proof. unfold tinner, tadd. rewrite <- SI_add. apply SI_ext; intros. ring. Qed.
  Lemma inner_conj_sym s A B : tinner s B A = conj (tinner s A B).
  Proof. unfold tinner. rewrite conj_SI. apply SI_ext; intros. rewrite conj_mul, conj_inv. ring. Qed.

  (* ---------------------------------------------------------------- consequences for factors with unitary columns *)
  (* trec is an isometry: the factors do not affect the reconstructed tensor's norm *)
  Lemma trec_isometry shape ranks fs G G' : unitary_all shape ranks fs ->
    tinner shape (trec ranks fs G) (trec ranks fs G') = tinner ranks G G'.
  Proof.
    intros Hall. rewrite rec_proj_adjoint. apply inner_ext; intros jdx Hj; [reflexivity | now apply tproj_trec].
  Qed.
  (* core = tproj X  =>  the residual X - trec core is orthogonal to everything the factors can represent (normal equations) *)
  Lemma residual_orthogonal shape ranks fs X H : unitary_all shape ranks fs ->
    tinner shape (trec ranks fs H) (tsub X (trec ranks fs (tproj shape fs X))) = k0.
  Proof.
    intros Hall. rewrite rec_proj_adjoint. apply inner_zero_r. intros jdx Hj.
    rewrite tproj_sub, tproj_trec by assumption. ring.
  Qed.
  (* <X,X> = <core,core> + <residual,residual>: partial_tucker's  rec_error^2 * |X|^2 = |X|^2 - |core|^2 *)
  Lemma tucker_pythagoras shape ranks fs X : unitary_all shape ranks fs ->
    let core := tproj shape fs X in let resid := tsub X (trec ranks fs core) in
    tinner shape X X = tinner ranks core core +k tinner shape resid resid.
  Proof.
    intros Hall core resid.
    assert (HX : forall idx, X idx = tadd (trec ranks fs core) resid idx) by (intros; unfold tadd, resid, tsub; ring).
    rewrite (inner_ext shape X X _ _ (fun idx _ => HX idx) (fun idx _ => HX idx)).
    rewrite inner_add_l, !inner_add_r.
    assert (H0 : tinner shape (trec ranks fs core) resid = k0) by (now apply residual_orthogonal).
    rewrite (inner_conj_sym shape (trec ranks fs core) resid), H0, conj_0, trec_isometry by assumption. ring.
  Qed.
  (* the reconstruction of the projection is an idempotent map (an orthogonal projector): projecting it again changes nothing *)
  Lemma projector_idempotent shape ranks fs X : unitary_all shape ranks fs ->
    forall idx, trec ranks fs (tproj shape fs (trec ranks fs (tproj shape fs X))) idx = trec ranks fs (tproj shape fs X) idx.
  Proof.
    intros Hall idx. unfold trec at 1 3. apply SI_ext; intros jdx Hj. f_equal. now apply tproj_trec.
  Qed.
End Conj.

(* ---------------------------------------------------------------- the same statements with the conjugation laws bundled *)
Definition is_conj {K : Type} (kadd kmul : K -> K -> K) (conj : K -> K) : Prop :=
  (forall a b, conj (kadd a b) = kadd (conj a) (conj b)) /\ (forall a b, conj (kmul a b) = kmul (conj a) (conj b)) /\
  (forall a, conj (conj a) = a).

Section Bundled.
  Variable K : Type.
  Variables (k0 k1 : K) (kadd kmul ksub : K -> K -> K) (kopp : K -> K).
  Hypothesis Kth : ring_theory k0 k1 kadd kmul ksub kopp (@eq K).
  Variable conj : K -> K.
  Hypothesis Hc : is_conj kadd kmul conj.
  Notation trec := (trec K k0 k1 kadd kmul).
  Notation tproj := (tproj K k0 k1 kadd kmul conj).
  Notation tinner := (tinner K k0 kadd kmul conj).
  Notation unitary_all := (unitary_all K k0 k1 kadd kmul conj).
  Lemma gram_hermitian_b n (M : nat -> nat -> K) a b :
    bigsum K k0 kadd n (fun j => kmul (M a j) (conj (M b j))) = conj (bigsum K k0 kadd n (fun j => kmul (M b j) (conj (M a j)))).
  Proof. destruct Hc as (H1 & H2 & H3). now apply (gram_hermitian K k0 k1 kadd kmul ksub kopp Kth conj H1 H2 H3). Qed.
  Lemma unitary_identity_b d : unitary_cols K k0 k1 kadd kmul conj d d (kdelta K k0 k1).
  Proof. destruct Hc as (H1 & H2 & H3). now apply (unitary_cols_identity K k0 k1 kadd kmul ksub kopp Kth conj H1 H2 H3). Qed.
  Lemma adjoint_b shape ranks fs H X : tinner shape (trec ranks fs H) X = tinner ranks H (tproj shape fs X).
  Proof. destruct Hc as (H1 & H2 & H3). now apply (rec_proj_adjoint K k0 k1 kadd kmul ksub kopp Kth conj H1 H2 H3). Qed.
  Lemma isometry_b shape ranks fs G G' : unitary_all shape ranks fs ->
    tinner shape (trec ranks fs G) (trec ranks fs G') = tinner ranks G G'.
  Proof. destruct Hc as (H1 & H2 & H3). now apply (trec_isometry K k0 k1 kadd kmul ksub kopp Kth conj H1 H2 H3). Qed.
  Lemma residual_orthogonal_b shape ranks fs X H : unitary_all shape ranks fs ->
    tinner shape (trec ranks fs H) (tsub K ksub X (trec ranks fs (tproj shape fs X))) = k0.
  Proof. destruct Hc as (H1 & H2 & H3). now apply (residual_orthogonal K k0 k1 kadd kmul ksub kopp Kth conj H1 H2 H3). Qed.
  Lemma pythagoras_b shape ranks fs X : unitary_all shape ranks fs ->
    tinner shape X X = kadd (tinner ranks (tproj shape fs X) (tproj shape fs X))
                           (tinner shape (tsub K ksub X (trec ranks fs (tproj shape fs X))) (tsub K ksub X (trec ranks fs (tproj shape fs X)))).
  Proof. destruct Hc as (H1 & H2 & H3). intros Hall. now apply (tucker_pythagoras K k0 k1 kadd kmul ksub kopp Kth conj H1 H2 H3). Qed.
End Bundled.
