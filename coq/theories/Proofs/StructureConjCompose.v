(* C08 -- two successive projections compose: (X x_k A_k^H) x_k B_k^H = X x_k (A_k B_k)^H, for every order (induction over the list of modes).
   tucker(fixed_factors=...) projects onto the updated modes inside partial_tucker (A_k = U_k there, the identity on the fixed modes) and
   then onto the fixed factors (B_k = F_k on the fixed modes, the identity elsewhere): together that is the projection onto all factors. *)
From Coq Require Import List Arith Lia Ring.
From TLV Require Import Base.Shape Base.BigSum Proofs.StructureConj.
Import ListNotations.

Section Compose.
  Variable K : Type.
  Variables (k0 k1 : K) (kadd kmul ksub : K -> K -> K) (kopp : K -> K).
  Hypothesis Kth : ring_theory k0 k1 kadd kmul ksub kopp (@eq K).
  Add Ring Kr2 : Kth.
  Variable conj : K -> K.
  Hypothesis conj_add : forall a b, conj (kadd a b) = kadd (conj a) (conj b).
  Hypothesis conj_mul : forall a b, conj (kmul a b) = kmul (conj a) (conj b).
  Hypothesis conj_inv : forall a, conj (conj a) = a.
  Infix "+k" := kadd (at level 50, left associativity).
  Infix "*k" := kmul (at level 40, left associativity).
  Notation S := (bigsum K k0 kadd).
  Notation SI := (sum_idx K k0 kadd).
  Notation mat := (nat -> nat -> K).
  Notation kfprod := (kfprod K k1 kmul).
  Notation tproj := (tproj K k0 k1 kadd kmul conj).
  Notation cj := (cj K conj).

  Definition kmmul (d : nat) (A B : mat) : mat := fun i l => S d (fun j => A i j *k B j l).
  (* mode-wise product of two lists of factors; mid: the sizes of the contracted (middle) index of every mode *)
  Fixpoint compose (mid : list nat) (As Bs : list mat) : list mat :=
    match mid, As, Bs with
    | d :: mid', a :: As', b :: Bs' => kmmul d a b :: compose mid' As' Bs'
    | _, _, _ => []
    end.

  Lemma kfprod_compose : forall mid As Bs idx ldx, length As = length mid -> length Bs = length mid ->
    length idx = length mid -> length ldx = length mid ->
    SI mid (fun jdx => kfprod As idx jdx *k kfprod Bs jdx ldx) = kfprod (compose mid As Bs) idx ldx.
  Proof.
    induction mid as [|d mid IH]; intros [|a As] [|b Bs] [|i idx] [|l ldx] H1 H2 H3 H4; try discriminate.
    - rewrite (sum_idx_nil K k0 k1 kadd kmul ksub kopp Kth). simpl. ring.
    - rewrite (sum_idx_cons K k0 k1 kadd kmul ksub kopp Kth). simpl.
      rewrite (bigsum_ext K k0 kadd d _ (fun j => (a i j *k b j l) *k kfprod (compose mid As Bs) idx ldx)).
      + unfold kmmul. now rewrite (bigsum_scale_r K k0 k1 kadd kmul ksub kopp Kth).
      + intros j _. rewrite <- (IH As Bs idx ldx) by (simpl in *; lia).
        rewrite <- (SI_scale_l K k0 k1 kadd kmul ksub kopp Kth). apply (sum_idx_ext K k0 kadd). intros jd _. ring.
  Qed.
  Lemma kfprod_cj_compose : forall mid As Bs idx ldx,
    kfprod (map cj (compose mid As Bs)) idx ldx = kfprod (compose mid (map cj As) (map cj Bs)) idx ldx.
  Proof.
    induction mid as [|d mid IH]; intros [|a As] [|b Bs] idx ldx; simpl; try reflexivity.
    destruct idx as [|i idx], ldx as [|l ldx]; try reflexivity. rewrite IH. f_equal.
    unfold StructureConj.cj, kmmul.
    rewrite (conj_S K k0 k1 kadd kmul ksub kopp Kth conj conj_add). apply (bigsum_ext K k0 kadd). intros j _. apply conj_mul.
  Qed.
  Theorem tproj_compose s1 mid As Bs X ldx : length As = length mid -> length Bs = length mid -> length s1 = length mid -> length ldx = length mid ->
    tproj mid Bs (tproj s1 As X) ldx = tproj s1 (compose mid As Bs) X ldx.
  Proof.
    intros H1 H2 H3 H4. unfold StructureConj.tproj.
    rewrite (sum_idx_ext K k0 kadd mid _ (fun jdx => SI s1 (fun idx => X idx *k (kfprod (map cj As) idx jdx *k kfprod (map cj Bs) jdx ldx)))).
    2:{ intros jdx _. rewrite <- (SI_scale_r K k0 k1 kadd kmul ksub kopp Kth). apply (sum_idx_ext K k0 kadd). intros idx _. ring. }
    rewrite (SI_exchange K k0 k1 kadd kmul ksub kopp Kth). apply (sum_idx_ext K k0 kadd). intros idx Hidx.
    rewrite (SI_scale_l K k0 k1 kadd kmul ksub kopp Kth). f_equal.
    rewrite kfprod_cj_compose. apply kfprod_compose; rewrite ?map_length; try assumption.
    rewrite (inb_length _ _ Hidx). exact H3.
  Qed.
  (* composing with the identity gives the factor back (entries within the dimensions) *)
  Lemma kmmul_id_r d (A : mat) i l : l < d -> kmmul d A (kdelta K k0 k1) i l = A i l.
  Proof.
    intros Hl. unfold kmmul. rewrite (bigsum_single K k0 k1 kadd kmul ksub kopp Kth d l); [| exact Hl |].
    - unfold kdelta. destruct (Nat.eq_dec l l); [ring | congruence].
    - intros j _ Hj. unfold kdelta. destruct (Nat.eq_dec j l); [congruence | ring].
  Qed.
  Lemma kmmul_id_l d (B : mat) i l : i < d -> kmmul d (kdelta K k0 k1) B i l = B i l.
  Proof.
    intros Hi. unfold kmmul. rewrite (bigsum_single K k0 k1 kadd kmul ksub kopp Kth d i); [| exact Hi |].
    - unfold kdelta. destruct (Nat.eq_dec i i); [ring | congruence].
    - intros j _ Hj. unfold kdelta. destruct (Nat.eq_dec i j); [congruence | ring].
  Qed.
End Compose.
