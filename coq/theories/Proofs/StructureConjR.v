(* C08 -- the two instances of the ring with conjugation of Proofs/StructureConj.v that TensorLy's data live in:
   R with conj = id (real Tucker: U^T U = I) and C = R x R with the usual conjugation (complex Tucker: U^H U = I),
   with concrete non-trivial factors having unitary columns (non-vacuity of the hypotheses). *)
From Coq Require Import List Arith Lia Reals RealField Lra.
From TLV Require Import Base.Shape Base.BigSum Proofs.StructureConj.
Import ListNotations.
Open Scope R_scope.

Lemma R_is_conj : is_conj Rplus Rmult (fun x : R => x).
Proof. repeat split. Qed.

Definition Cx := (R * R)%type.
Definition cx0 : Cx := (0, 0).
Definition cx1 : Cx := (1, 0).
Definition cxi : Cx := (0, 1).
Definition cxadd (a b : Cx) : Cx := (fst a + fst b, snd a + snd b).
Definition cxsub (a b : Cx) : Cx := (fst a - fst b, snd a - snd b).
Definition cxopp (a : Cx) : Cx := (- fst a, - snd a).
Definition cxmul (a b : Cx) : Cx := (fst a * fst b - snd a * snd b, fst a * snd b + snd a * fst b).
Definition cxconj (a : Cx) : Cx := (fst a, - snd a).

Lemma Cx_ring : ring_theory cx0 cx1 cxadd cxmul cxsub cxopp (@eq Cx).
Proof.
  constructor; intros; repeat match goal with x : Cx |- _ => destruct x end;
    unfold cx0, cx1, cxadd, cxmul, cxsub, cxopp; simpl; f_equal; ring.
Qed.
Lemma Cx_is_conj : is_conj cxadd cxmul cxconj.
Proof.
  repeat split; intros; repeat match goal with x : Cx |- _ => destruct x end; unfold cxadd, cxmul, cxconj; simpl; f_equal; ring.
Qed.
(* the conjugation is not the identity, and i * conj(i) = 1 while i * i = -1 *)
Lemma cxi_facts : cxconj cxi <> cxi /\ cxmul (cxconj cxi) cxi = cx1 /\ cxmul cxi cxi = cxopp cx1.
Proof.
  unfold cxconj, cxi, cxmul, cx1, cxopp; simpl. repeat split.
  - intros E. injection E. lra.
  - f_equal; ring.
  - f_equal; ring.
Qed.

(* a 2 x 1 complex factor with a unitary column that is NOT orthonormal for the bilinear (unconjugated) product:
   U = (3/5, 4i/5):  conj(U)^T U = 9/25 + 16/25 = 1  but  U^T U = 9/25 - 16/25 *)
Definition Uex : nat -> nat -> Cx := fun i _ => match i with O => (3 / 5, 0) | _ => (0, 4 / 5) end.
Lemma Uex_cols : unitary_cols Cx cx0 cx1 cxadd cxmul cxconj 2 1 Uex.
Proof.
  intros a b Ha Hb. assert (a = 0%nat) by lia. assert (b = 0%nat) by lia. subst.
  unfold kdelta, Uex, cxconj, cxmul, cxadd, cx0, cx1; simpl. f_equal; field.
Qed.
(* the SVD contract of C08_hooi_result_canonical is satisfiable (shape [2], ranks [1], every SVD answering Uex) *)
Lemma Uex_contract : forall i, (i < length [2%nat])%nat -> unitary_cols Cx cx0 cx1 cxadd cxmul cxconj (nth i [2%nat] 0%nat) (nth i [1%nat] 0%nat) Uex.
Proof. intros i Hi. simpl in Hi. assert (i = 0%nat) by lia. subst. exact Uex_cols. Qed.
Lemma Uex_unitary : unitary_all Cx cx0 cx1 cxadd cxmul cxconj [2%nat] [1%nat] [Uex].
Proof.
  constructor; [|constructor]. intros a b Ha Hb. assert (a = 0%nat) by lia. assert (b = 0%nat) by lia. subst.
  unfold kdelta, Uex, cxconj, cxmul, cxadd, cx0, cx1; simpl. f_equal; field.
Qed.
Lemma Uex_not_bilinear_orthonormal :
  bigsum Cx cx0 cxadd 2 (fun i => cxmul (Uex i 0%nat) (Uex i 0%nat)) <> cx1.
Proof. unfold Uex, cxmul, cxadd, cx0, cx1; simpl. intros E. injection E. lra. Qed.
(* a real 2 x 1 factor with an orthonormal column *)
Definition Urex : nat -> nat -> R := fun i _ => match i with O => 3 / 5 | _ => 4 / 5 end.
Lemma Urex_unitary : unitary_all R 0 1 Rplus Rmult (fun x => x) [2%nat] [1%nat] [Urex].
Proof.
  constructor; [|constructor]. intros a b Ha Hb. assert (a = 0%nat) by lia. assert (b = 0%nat) by lia. subst.
  unfold kdelta, Urex; simpl. field.
Qed.

(* ---------- regression witness (symeig_svd on complex input before d995974): the matrix the code handed to eigh was M M^T (plain
   transpose), not the Gram matrix M M^H.  Witness: the 1 x 2 matrix (1, i) is non-zero, its M M^T vanishes while M M^H = 2; for
   matrices with real entries the two coincide. *)
Definition gramT (n : nat) (M : nat -> nat -> Cx) (a b : nat) : Cx := bigsum Cx cx0 cxadd n (fun j => cxmul (M a j) (M b j)).
Definition gramH (n : nat) (M : nat -> nat -> Cx) (a b : nat) : Cx := bigsum Cx cx0 cxadd n (fun j => cxmul (M a j) (cxconj (M b j))).
Lemma symeig_gram_refuted : exists M : nat -> nat -> Cx, gramT 2 M 0 0 = cx0 /\ gramH 2 M 0 0 = (2, 0).
Proof.
  exists (fun _ j => match j with O => cx1 | _ => cxi end).
  unfold gramT, gramH, cxmul, cxadd, cxconj, cx0, cx1, cxi; simpl. split; f_equal; ring.
Qed.
Lemma symeig_gram_real : forall n (M : nat -> nat -> Cx), (forall a j, snd (M a j) = 0) -> forall a b, gramT n M a b = gramH n M a b.
Proof.
  intros n M H a b. unfold gramT, gramH. apply bigsum_ext. intros j _.
  unfold cxmul, cxconj. simpl. rewrite (H b j). f_equal; ring.
Qed.
