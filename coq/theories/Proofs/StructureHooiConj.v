(* C08 -- HOOI over a ring with conjugation: the skeleton of Model/StructureHooi.v instantiated with concrete tensors
   (Proofs/StructureConj.v).  The LAPACK calls are Section variables with their contract (the U they return has unitary columns);
   the mask imputation is an arbitrary function.  Result: on every path that starts from the SVD initialisation or executes a sweep,
   for every cap and every decision sequence, the returned factors have unitary columns and the returned core is the projection
   X x_k U_k^H of the (current) tensor onto the RETURNED factors -- hence the residual is orthogonal to everything the factors can
   represent and <X,X> = <core,core> + <residual,residual>. *)
From Coq Require Import List Arith Bool Lia Ring.
From TLV Require Import Base.Shape Base.PyList Base.BigSum Model.Structure Model.StructureHooi Proofs.StructureHooiProofs Proofs.StructureConj.
Import ListNotations.
Local Open Scope nat_scope.

Section HooiConj.
  Variable K : Type.
  Variables (k0 k1 : K) (kadd kmul ksub : K -> K -> K) (kopp : K -> K).
  Hypothesis Kth : ring_theory k0 k1 kadd kmul ksub kopp (@eq K).
  Variable conj : K -> K.
  Hypothesis Hc : is_conj kadd kmul conj.
  Variables (shape ranks : list nat).
  Hypothesis Hlen : length ranks = length shape.
  Notation mat := (nat -> nat -> K).
  Notation ucols := (unitary_cols K k0 k1 kadd kmul conj).
  Notation uall := (unitary_all K k0 k1 kadd kmul conj).
  Notation tproj := (tproj K k0 k1 kadd kmul conj).
  Definition hstate : Type := (tens K * tens K * list mat)%type.
  (* svd_interface: in the initialisation (U of the mode-i unfolding of the tensor) and in the sweep (U of the unfolding of the tensor
     projected onto the other current factors); contract: unitary columns, I_i x ranks_i *)
  Variable svd0 : nat -> tens K -> mat.
  Variable svdU : nat -> tens K -> list mat -> mat.
  Hypothesis Hsvd0 : forall i X, i < length shape -> ucols (nth i shape 0) (nth i ranks 0) (svd0 i X).
  Hypothesis HsvdU : forall i X fs, i < length shape -> ucols (nth i shape 0) (nth i ranks 0) (svdU i X fs).
  Variable imp : tens K -> tens K -> list mat -> tens K.
  Definition zmat : mat := fun _ _ => k0.
  Definition h_svd_init (s : hstate) : hstate := let '(X, G, fs) := s in (X, G, map (fun i => svd0 i X) (seq 0 (length shape))).
  Definition h_update (i : nat) (s : hstate) : hstate := let '(X, G, fs) := s in (X, G, set_nth i (svdU i X fs) fs).
  Definition h_project (s : hstate) : hstate := let '(X, G, fs) := s in (X, tproj shape fs X, fs).
  Definition h_impute (s : hstate) : hstate := let '(X, G, fs) := s in (imp X G fs, G, fs).
  Definition h_recon (s : hstate) : hstate := s.
  Definition hooi_K (ik : init_kind) (mask tol_set : bool) (n : nat) (decisions : list bool) (X G0 : tens K) (fs0 : list mat) : hstate :=
    hooi_run hstate h_svd_init h_impute h_project h_recon h_update ik (length shape) mask tol_set n decisions (X, G0, fs0).

  Lemma uall_of_nth : forall sh rk fs, length rk = length sh -> length fs = length sh ->
    (forall i, i < length sh -> ucols (nth i sh 0) (nth i rk 0) (nth i fs zmat)) -> uall sh rk fs.
  Proof.
    induction sh as [|d sh IH]; intros [|r rk] [|f fs] H1 H2 H; try discriminate; [constructor|].
    constructor.
    - apply (H 0). simpl; lia.
    - apply IH; [simpl in H1; lia | simpl in H2; lia |]. intros i Hi. apply (H (S i)). simpl; lia.
  Qed.

  Definition CoreProjK (s : hstate) : Prop := let '(X, G, fs) := s in forall jdx, G jdx = tproj shape fs X jdx.
  Definition FromSvdK (i : nat) (s : hstate) : Prop :=
    let '(X, G, fs) := s in i < length shape -> length fs = length shape -> ucols (nth i shape 0) (nth i ranks 0) (nth i fs zmat).
  Definition LenK (s : hstate) : Prop := let '(X, G, fs) := s in length fs = length shape.

  Lemma hooi_K_core ik mask tol_set n decisions X G0 fs0 : ik = InitSvd \/ 0 < n ->
    CoreProjK (hooi_K ik mask tol_set n decisions X G0 fs0).
  Proof.
    intros H. unfold hooi_K. apply (hooi_run_core_projected hstate h_svd_init h_impute h_project h_recon h_update CoreProjK).
    - intros [[X' G'] fs']. simpl. reflexivity.
    - intros s Hs. exact Hs.
    - exact H.
  Qed.
  Lemma hooi_K_len ik mask tol_set n decisions X G0 fs0 : ik = InitSvd \/ length fs0 = length shape ->
    LenK (hooi_K ik mask tol_set n decisions X G0 fs0).
  Proof.
    intros H. unfold hooi_K. apply (hooi_run_invariant hstate h_svd_init h_impute h_project h_recon h_update LenK).
    - intros [[X' G'] fs']. simpl. now rewrite map_length, seq_length.
    - intros [[X' G'] fs']. simpl. auto.
    - intros [[X' G'] fs']. simpl. auto.
    - intros s Hs. exact Hs.
    - intros i [[X' G'] fs']. simpl. now rewrite set_nth_length.
    - destruct H as [H|H]; [left; exact H | right; exact H].
  Qed.
  Lemma hooi_K_factors ik mask tol_set n decisions X G0 fs0 : ik = InitSvd \/ 0 < n ->
    forall i, i < length shape -> FromSvdK i (hooi_K ik mask tol_set n decisions X G0 fs0).
  Proof.
    intros H i Hi. unfold hooi_K.
    apply (hooi_run_factors_from_svd hstate h_svd_init h_impute h_project h_recon h_update FromSvdK); try assumption.
    - intros j [[X' G'] fs']. simpl. intros Hj Hl. rewrite set_nth_length in Hl. rewrite nth_set_nth_same by lia. now apply HsvdU.
    - intros j j' [[X' G'] fs']. simpl. intros Hk Hj Hl. rewrite set_nth_length in Hl.
      destruct (Nat.eq_dec j' j) as [->|Hn].
      + rewrite nth_set_nth_same by lia. now apply HsvdU.
      + rewrite nth_set_nth_other by exact Hn. now apply Hk.
    - intros j [[X' G'] fs']. simpl. auto.
    - intros j s Hs. exact Hs.
    - intros j [[X' G'] fs'] Hj. simpl. intros _ _.
      rewrite (nth_indep _ zmat (svd0 0 X')) by (now rewrite map_length, seq_length).
      rewrite (map_nth (fun i => svd0 i X')). rewrite seq_nth by exact Hj. now apply Hsvd0.
  Qed.
  Lemma hooi_K_tensor_kept ik tol_set n decisions X G0 fs0 :
    fst (fst (hooi_K ik false tol_set n decisions X G0 fs0)) = X.
  Proof.
    unfold hooi_K, hooi_run.
    rewrite (hooi_loop_no_mask hstate h_impute (fun s => s) h_project h_recon h_recon h_update).
    apply (hooi_loop_invariant hstate (fun s => s) h_project h_recon h_update (fun s => fst (fst s) = X)).
    - auto.
    - intros [[X' G'] fs']. simpl. auto.
    - auto.
    - intros i [[X' G'] fs']. simpl. auto.
    - destruct ik; simpl; reflexivity.
  Qed.

  (* the canonical form of the result *)
  Theorem hooi_K_canonical ik mask tol_set n decisions X G0 fs0 :
    ik = InitSvd \/ (0 < n /\ length fs0 = length shape) ->
    let '(X', G', fs') := hooi_K ik mask tol_set n decisions X G0 fs0 in
    uall shape ranks fs' /\ (forall jdx, G' jdx = tproj shape fs' X' jdx) /\ (mask = false -> X' = X).
  Proof.
    intros H.
    assert (Ha : ik = InitSvd \/ 0 < n) by tauto. assert (Hb : ik = InitSvd \/ length fs0 = length shape) by tauto.
    pose proof (hooi_K_core ik mask tol_set n decisions X G0 fs0 Ha) as Hcore.
    pose proof (hooi_K_len ik mask tol_set n decisions X G0 fs0 Hb) as Hl.
    pose proof (hooi_K_factors ik mask tol_set n decisions X G0 fs0 Ha) as Hf.
    pose proof (hooi_K_tensor_kept ik tol_set n decisions X G0 fs0) as Hx.
    destruct (hooi_K ik mask tol_set n decisions X G0 fs0) as [[X' G'] fs'] eqn:E. simpl in Hcore, Hl.
    split; [|split].
    - apply uall_of_nth; [exact Hlen | exact Hl |]. intros i Hi. exact (Hf i Hi Hi Hl).
    - exact Hcore.
    - intros ->. rewrite E in Hx. exact Hx.
  Qed.
  (* ... hence the returned core is the optimal one for the returned factors (normal equations) and the error formula of the code holds *)
  Theorem hooi_K_residual_orthogonal ik mask tol_set n decisions X G0 fs0 H :
    ik = InitSvd \/ (0 < n /\ length fs0 = length shape) ->
    let '(X', G', fs') := hooi_K ik mask tol_set n decisions X G0 fs0 in
    tinner K k0 kadd kmul conj shape (trec K k0 k1 kadd kmul ranks fs' H) (tsub K ksub X' (trec K k0 k1 kadd kmul ranks fs' G')) = k0 /\
    tinner K k0 kadd kmul conj shape X' X' =
      kadd (tinner K k0 kadd kmul conj ranks G' G')
           (tinner K k0 kadd kmul conj shape (tsub K ksub X' (trec K k0 k1 kadd kmul ranks fs' G')) (tsub K ksub X' (trec K k0 k1 kadd kmul ranks fs' G'))).
  Proof.
    intros Hyp. pose proof (hooi_K_canonical ik mask tol_set n decisions X G0 fs0 Hyp) as Hcan.
    destruct (hooi_K ik mask tol_set n decisions X G0 fs0) as [[X' G'] fs']. destruct Hcan as (Hu & Hg & _).
    assert (Hrec : forall idx, trec K k0 k1 kadd kmul ranks fs' G' idx = trec K k0 k1 kadd kmul ranks fs' (tproj shape fs' X') idx).
    { intros idx. unfold trec. apply (sum_idx_ext K k0 kadd). intros jdx _. now rewrite Hg. }
    split.
    - transitivity (tinner K k0 kadd kmul conj shape (trec K k0 k1 kadd kmul ranks fs' H)
                      (tsub K ksub X' (trec K k0 k1 kadd kmul ranks fs' (tproj shape fs' X')))).
      + unfold tinner. apply (sum_idx_ext K k0 kadd). intros idx _. unfold tsub. now rewrite Hrec.
      + exact (residual_orthogonal_b K k0 k1 kadd kmul ksub kopp Kth conj Hc shape ranks fs' X' H Hu).
    - rewrite (pythagoras_b K k0 k1 kadd kmul ksub kopp Kth conj Hc shape ranks fs' X' Hu). f_equal.
      + unfold tinner. apply (sum_idx_ext K k0 kadd). intros jdx _. now rewrite !Hg.
      + unfold tinner. apply (sum_idx_ext K k0 kadd). intros idx _. unfold tsub. now rewrite Hrec.
  Qed.
End HooiConj.
