(* C08 -- proofs about the HOOI skeleton (Model/StructureHooi.v): on every path that executes at least one sweep, or starts from
   the SVD initialisation, the last assignment of the core is the full projection and it follows the last factor update; every
   listed position holds an SVD output.  Inductions over the iteration cap (fuel) for every decision sequence, and over the
   number of listed modes for the sweep. *)
From Coq Require Import List Arith Bool Lia.
From TLV Require Import Model.Structure Model.StructureHooi.
Import ListNotations.
Local Open Scope nat_scope.

Section HooiProofs.
  Variable St : Type.
  Variables (svd_init impute project recon : St -> St) (update : nat -> St -> St).
  Notation loop := (hooi_loop St impute project recon update).
  Notation run := (hooi_run St svd_init impute project recon update).
  Notation sweep := (hooi_sweep St update).

  (* ---- the core *)
  Variable CoreProj : St -> Prop.                      (* "the core is the projection of the (current) tensor onto the current factors" *)
  Hypothesis Hproject : forall s, CoreProj (project s).
  Hypothesis Hrecon : forall s, CoreProj s -> CoreProj (recon s).     (* computing a reconstruction assigns neither core nor factors *)

  Lemma when_recon_proj b s : CoreProj s -> CoreProj (when St b recon s).
  Proof. destruct b; simpl; auto. Qed.
  Lemma hooi_loop_projected : forall fuel k mask tol_set it decisions s,
    0 < fuel \/ CoreProj s -> CoreProj (loop k mask tol_set it fuel decisions s).
  Proof.
    induction fuel as [|fuel IH]; intros k mask tol_set it decisions s H; cbn [hooi_loop].
    - destruct H as [H|H]; [lia | exact H].
    - destruct ((2 <=? it) && tol_set && hd false decisions).
      + apply when_recon_proj, Hproject.
      + apply IH. right. apply when_recon_proj, Hproject.
  Qed.
  Theorem hooi_run_core_projected ik k mask tol_set n decisions s0 :
    ik = InitSvd \/ 0 < n -> CoreProj (run ik k mask tol_set n decisions s0).
  Proof.
    intros H. unfold hooi_run. apply hooi_loop_projected. destruct H as [->|H]; [right; simpl; apply Hproject | left; exact H].
  Qed.

  (* ---- the factors *)
  Variable FromSvd : nat -> St -> Prop.                (* "the factor at position i is the U output of an svd_interface call" *)
  Hypothesis Hupdate : forall i s, FromSvd i (update i s).
  Hypothesis Hupdate_keeps : forall i j s, FromSvd j s -> FromSvd j (update i s).
  Hypothesis Hproject_keeps : forall j s, FromSvd j s -> FromSvd j (project s).
  Hypothesis Hrecon_keeps : forall j s, FromSvd j s -> FromSvd j (recon s).

  Lemma sweep_S k s : sweep (S k) s = update k (sweep k s).
  Proof. unfold hooi_sweep. rewrite seq_S, fold_left_app. reflexivity. Qed.
  Lemma sweep_keeps k j s : FromSvd j s -> FromSvd j (sweep k s).
  Proof. induction k; intros H; [exact H | rewrite sweep_S; apply Hupdate_keeps; auto]. Qed.
  Lemma sweep_all k : forall s i, i < k -> FromSvd i (sweep k s).
  Proof.
    induction k; intros s i Hi; [lia|]. rewrite sweep_S. destruct (Nat.eq_dec i k) as [->|Hn].
    - apply Hupdate.
    - apply Hupdate_keeps, IHk. lia.
  Qed.
  Lemma when_keeps b f j s : (forall s, FromSvd j s -> FromSvd j (f s)) -> FromSvd j s -> FromSvd j (when St b f s).
  Proof. destruct b; simpl; auto. Qed.
  Lemma hooi_loop_factors : forall fuel k mask tol_set it decisions s i, i < k ->
    0 < fuel \/ FromSvd i s -> FromSvd i (loop k mask tol_set it fuel decisions s).
  Proof.
    induction fuel as [|fuel IH]; intros k mask tol_set it decisions s i Hi H; cbn [hooi_loop].
    - destruct H as [H|H]; [lia | exact H].
    - assert (H1 : FromSvd i (when St mask recon (project (sweep k (when St mask impute s))))).
      { apply when_keeps; [apply Hrecon_keeps|]. apply Hproject_keeps. now apply sweep_all. }
      destruct ((2 <=? it) && tol_set && hd false decisions); [exact H1|].
      apply IH; [exact Hi | right; exact H1].
  Qed.
  Theorem hooi_run_factors_from_svd ik k mask tol_set n decisions s0 :
    (forall i s, i < k -> FromSvd i (svd_init s)) ->
    ik = InitSvd \/ 0 < n -> forall i, i < k -> FromSvd i (run ik k mask tol_set n decisions s0).
  Proof.
    intros Hinit H i Hi. unfold hooi_run. apply hooi_loop_factors; [exact Hi|].
    destruct H as [->|H]; [right; simpl; apply Hproject_keeps, Hinit; exact Hi | left; exact H].
  Qed.

  (* without a sweep, a random / user initialisation is returned as it is *)
  Lemma hooi_run_no_sweep ik k mask tol_set decisions s0 : ik <> InitSvd -> run ik k mask tol_set 0 decisions s0 = s0.
  Proof. intros H. unfold hooi_run; simpl. destruct ik; [reflexivity | exfalso; apply H; reflexivity | reflexivity]. Qed.
  (* the number of executed sweeps when the convergence test never fires / tol is falsy: exactly the cap *)
  Lemma iter_shift (n : nat) (f : St -> St) x : Nat.iter n f (f x) = f (Nat.iter n f x).
  Proof. induction n; simpl; [reflexivity | now rewrite IHn]. Qed.
  Lemma hooi_loop_tol_unset : forall fuel k mask it decisions s,
    loop k mask false it fuel decisions s = Nat.iter fuel (fun s => when St mask recon (project (sweep k (when St mask impute s)))) s.
  Proof.
    induction fuel as [|fuel IH]; intros; [reflexivity|]. cbn [hooi_loop]. rewrite andb_false_r. cbn [andb].
    rewrite IH. exact (iter_shift fuel (fun s0 => when St mask recon (project (sweep k (when St mask impute s0)))) s).
  Qed.

  (* ---- tucker(fixed_factors=...): project onto the updated modes, then onto the fixed ones *)
  Variables (absorb_fixed project_fixed : St -> St).
  Variable FullProj : St -> Prop.
  Hypothesis Hproject_fixed : forall s, CoreProj s -> FullProj (project_fixed s).
  Theorem tucker_fixed_core_projected n_modes n_fixed mask tol_set n decisions s0 : n_fixed < n_modes -> 0 < n ->
    FullProj (tucker_fixed_run St svd_init impute project recon update absorb_fixed project_fixed n_modes n_fixed mask tol_set n decisions s0).
  Proof.
    intros Hf Hn. unfold tucker_fixed_run. destruct (Nat.leb_spec n_modes n_fixed); [lia|].
    apply Hproject_fixed, hooi_run_core_projected. right; exact Hn.
  Qed.
  Lemma tucker_all_fixed n_modes n_fixed mask tol_set n decisions s0 : n_modes <= n_fixed ->
    tucker_fixed_run St svd_init impute project recon update absorb_fixed project_fixed n_modes n_fixed mask tol_set n decisions s0 = s0.
  Proof. intros H. unfold tucker_fixed_run. destruct (Nat.leb_spec n_modes n_fixed); [reflexivity | lia]. Qed.
End HooiProofs.


(* ---- an invariant kept by every operation is kept by the run; with mask = False the imputation / reconstruction are never called *)
Section HooiInvariant.
  Variable St : Type.
  Variables (svd_init impute project recon : St -> St) (update : nat -> St -> St).
  Variable Inv : St -> Prop.
  Hypothesis Hi_init : forall s, Inv (svd_init s).
  Hypothesis Hi_impute : forall s, Inv s -> Inv (impute s).
  Hypothesis Hi_project : forall s, Inv s -> Inv (project s).
  Hypothesis Hi_recon : forall s, Inv s -> Inv (recon s).
  Hypothesis Hi_update : forall i s, Inv s -> Inv (update i s).
  Lemma sweep_invariant k s : Inv s -> Inv (hooi_sweep St update k s).
  Proof.
    intros H. unfold hooi_sweep. generalize (seq 0 k). intros l. revert s H.
    induction l as [|i l IH]; intros s H; simpl; [exact H | apply IH, Hi_update, H].
  Qed.
  Lemma when_invariant b f s : (forall s, Inv s -> Inv (f s)) -> Inv s -> Inv (when St b f s).
  Proof. destruct b; simpl; auto. Qed.
  Lemma hooi_loop_invariant : forall fuel k mask tol_set it decisions s, Inv s ->
    Inv (hooi_loop St impute project recon update k mask tol_set it fuel decisions s).
  Proof.
    induction fuel as [|fuel IH]; intros k mask tol_set it decisions s H; cbn [hooi_loop]; [exact H|].
    assert (H1 : Inv (when St mask recon (project (hooi_sweep St update k (when St mask impute s))))).
    { apply when_invariant; [exact Hi_recon|]. apply Hi_project, sweep_invariant, when_invariant; [exact Hi_impute | exact H]. }
    destruct ((2 <=? it) && tol_set && hd false decisions); [exact H1 | apply IH, H1].
  Qed.
  Theorem hooi_run_invariant ik k mask tol_set n decisions s0 : ik = InitSvd \/ Inv s0 ->
    Inv (hooi_run St svd_init impute project recon update ik k mask tol_set n decisions s0).
  Proof.
    intros H. unfold hooi_run. apply hooi_loop_invariant. destruct H as [->|H]; simpl.
    - apply Hi_project, Hi_init.
    - destruct ik; [exact H | apply Hi_project, Hi_init | exact H].
  Qed.
End HooiInvariant.
Lemma hooi_loop_no_mask St impute impute' project recon recon' update : forall fuel k tol_set it decisions s,
  hooi_loop St impute project recon update k false tol_set it fuel decisions s =
  hooi_loop St impute' project recon' update k false tol_set it fuel decisions s.
Proof.
  induction fuel as [|fuel IH]; intros; cbn [hooi_loop]; [reflexivity|]. unfold when.
  destruct ((2 <=? it) && tol_set && hd false decisions); [reflexivity | apply IH].
Qed.

(* ------------------------------------------------------------------ the instance on event traces *)
Lemma ends_projected_project t : ends_projected (tr_project t) = true.
Proof. unfold ends_projected, tr_project. rewrite filter_app, rev_app_distr. reflexivity. Qed.
Lemma ends_projected_recon t : ends_projected t = true -> ends_projected (tr_recon t) = true.
Proof. unfold ends_projected, tr_recon. rewrite filter_app. simpl. now rewrite app_nil_r. Qed.
Theorem hooi_trace_ends_projected ik k mask tol_set n decisions : ik = InitSvd \/ 0 < n ->
  ends_projected (hooi_trace ik k mask tol_set n decisions) = true.
Proof.
  intros H. unfold hooi_trace.
  apply (hooi_run_core_projected (list hev) (tr_svd_init k) tr_recon tr_project tr_recon tr_update (fun t => ends_projected t = true)
           ends_projected_project ends_projected_recon); exact H.
Qed.
Lemma has_svd_app t u i : has_svd (t ++ u) i = has_svd t i || has_svd u i.
Proof. unfold has_svd. apply existsb_app. Qed.
Theorem hooi_trace_factors_from_svd ik k mask tol_set n decisions : ik = InitSvd \/ 0 < n ->
  factors_from_svd k (hooi_trace ik k mask tol_set n decisions) = true.
Proof.
  intros H. unfold factors_from_svd. apply forallb_forall. intros i Hi. apply in_seq in Hi.
  unfold hooi_trace.
  apply (hooi_run_factors_from_svd (list hev) (tr_svd_init k) tr_recon tr_project tr_recon tr_update (fun i t => has_svd t i = true)); cbv beta.
  - intros j s. unfold tr_update. rewrite has_svd_app. simpl. rewrite Nat.eqb_refl. now rewrite !orb_true_r.
  - intros j j' s Hs. unfold tr_update. rewrite has_svd_app, Hs. reflexivity.
  - intros j s Hs. unfold tr_project. rewrite has_svd_app, Hs. reflexivity.
  - intros j s Hs. unfold tr_recon. rewrite has_svd_app, Hs. reflexivity.
  - intros j s Hj. unfold tr_svd_init. rewrite has_svd_app. apply orb_true_iff. right.
    unfold has_svd. apply existsb_exists. exists (HS j). split; [apply in_map, in_seq; lia | apply Nat.eqb_refl].
  - exact H.
  - lia.
Qed.
(* a random / user initialisation with n_iter_max = 0: nothing is computed, the core is NOT a projection (it is what was drawn / given) *)
Theorem hooi_trace_no_sweep ik k mask tol_set decisions : ik <> InitSvd ->
  hooi_trace ik k mask tol_set 0 decisions = [] /\ ends_projected (hooi_trace ik k mask tol_set 0 decisions) = false.
Proof.
  intros H. unfold hooi_trace. rewrite hooi_run_no_sweep by exact H. split; reflexivity.
Qed.

(* non-vacuity: a state space on which a factor update really destroys "the core is the projection" *)
Definition ghost_hooi (ik : init_kind) (k : nat) (mask tol_set : bool) (n : nat) (decisions : list bool) : bool :=
  hooi_run bool (fun _ => false) (fun s => s) (fun _ => true) (fun s => s) (fun _ _ => false) ik k mask tol_set n decisions false.
Lemma ghost_hooi_projected ik k mask tol_set n decisions : ik = InitSvd \/ 0 < n -> ghost_hooi ik k mask tol_set n decisions = true.
Proof.
  intros H. unfold ghost_hooi.
  apply (hooi_run_core_projected bool (fun _ => false) (fun s => s) (fun _ => true) (fun s => s) (fun _ _ => false) (fun b => b = true)); auto.
Qed.
Lemma ghost_hooi_no_sweep ik k mask tol_set decisions : ik <> InitSvd -> ghost_hooi ik k mask tol_set 0 decisions = false.
Proof. intros H. unfold ghost_hooi. now rewrite hooi_run_no_sweep. Qed.
Example hooi_trace_ex : map code (hooi_trace InitSvd 2 false true 5 [false; false; true]) =
  [100; 101; 2;  10; 100; 11; 101; 2;  10; 100; 11; 101; 2;  10; 100; 11; 101; 2].
Proof. vm_compute. reflexivity. Qed.
Example tucker_fixed_trace_ex : map code (tucker_fixed_trace 3 1 false false 1 []) = [3; 10; 100; 11; 101; 2; 2].
Proof. vm_compute. reflexivity. Qed.

(* ------------------------------------------------------------------ the loop as data: every program satisfying prog_ok keeps the contract *)
Section ProgProofs.
  Variable St : Type.
  Variables (svd_init impute project recon : St -> St) (update : nat -> St -> St).
  Variable CoreProj : St -> Prop.
  Hypothesis Hproject : forall s, CoreProj (project s).
  Hypothesis Hrecon : forall s, CoreProj s -> CoreProj (recon s).
  Lemma run_body_ok k mask tol_set it d : forall l clean s, scan clean l = true -> (clean = true -> CoreProj s) ->
    CoreProj (fst (run_body St impute project recon update k mask tol_set it d l s)).
  Proof.
    induction l as [|st l IH]; intros clean s Hs Hc; simpl in *.
    - apply Hc, Hs.
    - destruct st as [| | | |c g]; simpl in Hs.
      + apply (IH false); [exact Hs | discriminate].
      + apply (IH false); [exact Hs | discriminate].
      + apply (IH true); [exact Hs | intros _; apply Hproject].
      + apply (IH clean); [exact Hs | intros E; destruct mask; simpl; auto].
      + apply andb_true_iff in Hs. destruct Hs as [H1 H2].
        destruct ((c <=? it) && (tol_set || negb g) && d); simpl.
        * apply Hc, H1.
        * apply (IH clean); assumption.
  Qed.
  Lemma prog_loop_ok body k mask tol_set : scan false body = true -> forall fuel it decisions s,
    0 < fuel \/ CoreProj s -> CoreProj (prog_loop St impute project recon update body k mask tol_set it fuel decisions s).
  Proof.
    intros Hb. induction fuel as [|fuel IH]; intros it decisions s H; cbn [prog_loop].
    - destruct H as [H|H]; [lia | exact H].
    - pose proof (run_body_ok k mask tol_set it (hd false decisions) body false s Hb) as Hr.
      destruct (snd (run_body St impute project recon update k mask tol_set it (hd false decisions) body s)).
      + apply Hr. discriminate.
      + apply IH. right. apply Hr. discriminate.
  Qed.
  Theorem prog_run_core_projected p ik k mask tol_set n decisions s0 : prog_ok p = true -> ik = InitSvd \/ 0 < n ->
    CoreProj (prog_run St svd_init impute project recon update p ik k mask tol_set n decisions s0).
  Proof.
    intros Hp H. unfold prog_ok in Hp. apply andb_true_iff in Hp. destruct Hp as [Hi Hb].
    unfold prog_run. apply prog_loop_ok; [exact Hb|].
    destruct H as [->|H]; [right; rewrite Hi; apply Hproject | left; exact H].
  Qed.
  (* the hand-written skeleton is the program hooi_prog *)
  Lemma hooi_loop_is_prog k mask tol_set : forall fuel it decisions s,
    hooi_loop St impute project recon update k mask tol_set it fuel decisions s =
    prog_loop St impute project recon update (hp_body hooi_prog) k mask tol_set it fuel decisions s.
  Proof.
    induction fuel as [|fuel IH]; intros; cbn [hooi_loop prog_loop]; [reflexivity|].
    cbn [hp_body hooi_prog run_body negb]. rewrite orb_false_r.
    destruct ((2 <=? it) && tol_set && hd false decisions); cbn [fst snd]; [reflexivity | apply IH].
  Qed.
  Lemma hooi_run_is_prog ik k mask tol_set n decisions s0 :
    hooi_run St svd_init impute project recon update ik k mask tol_set n decisions s0 =
    prog_run St svd_init impute project recon update hooi_prog ik k mask tol_set n decisions s0.
  Proof. unfold hooi_run, prog_run. rewrite hooi_loop_is_prog. destruct ik; reflexivity. Qed.
End ProgProofs.
(* sharpness: a program failing prog_ok has an un-projected run on the ghost state space (true = "the core is the projection") *)
Definition ghost_prog (p : hprog) (ik : init_kind) (n : nat) (decisions : list bool) : bool :=
  prog_run bool (fun _ => false) (fun _ => false) (fun _ => true) (fun s => s) (fun _ _ => false) p ik 1 true true n decisions false.
Example prog_ok_examples : prog_ok hooi_prog = true /\
  prog_ok (mkHprog true [SImpute; SProject; SSweep; SRecon; SBreakTest 2 true]) = false /\                 (* core computed before the sweep *)
  ghost_prog (mkHprog true [SImpute; SProject; SSweep; SRecon; SBreakTest 2 true]) InitSvd 1 [] = false /\
  prog_ok (mkHprog true [SImpute; SSweep; SBreakTest 2 true; SProject; SRecon]) = false /\                 (* break before the projection *)
  ghost_prog (mkHprog true [SImpute; SSweep; SBreakTest 2 true; SProject; SRecon]) InitSvd 3 [false; false; true] = false /\
  prog_ok (mkHprog false [SImpute; SSweep; SProject; SRecon; SBreakTest 2 true]) = false /\                (* SVD initialisation without the projection *)
  ghost_prog (mkHprog false [SImpute; SSweep; SProject; SRecon; SBreakTest 2 true]) InitSvd 0 [] = false.
Proof. vm_compute. repeat split. Qed.
