(* C08 -- cp_normalize on a whole CP tensor, over R (cp_tensor.py:cp_normalize):
     weights <- given weights (ones if None)
     for i, factor in enumerate(factors):
         if i == 0: factor <- factor * weights ; weights <- ones
         scales <- column norms of factor ; weights <- weights * scales
         normalised factor <- factor / where(scales == 0, 1, scales)
   Theorems: every column of every returned factor has norm 1 or is zero with weight 0; the weights are non-negative;
   every rank-one term of the represented tensor is unchanged (the scale is carried by the weights).
   A factor is a function nat -> nat -> R (row, column) together with its number of rows. *)
From Coq Require Import Reals Lra List Arith Lia.
From TLV Require Import Base.RSum Proofs.StructureProofsR.
Import ListNotations.
Open Scope R_scope.

Definition factor := (nat * (nat -> nat -> R))%type.
Definition rows (f : factor) : nat := fst f.
Definition ent (f : factor) : nat -> nat -> R := snd f.

(* product over the factors of the entries selected by the multi-index idx, component r *)
Fixpoint term (fs : list factor) (idx : list nat) (r : nat) : R :=
  match fs, idx with
  | f :: fs', i :: idx' => ent f i r * term fs' idx' r
  | _, _ => 1
  end.
Definition cp_entry_term (w : nat -> R) (fs : list factor) (idx : list nat) (r : nat) : R := w r * term fs idx r.
Fixpoint in_bounds (fs : list factor) (idx : list nat) : Prop :=
  match fs, idx with
  | f :: fs', i :: idx' => (i < rows f)%nat /\ in_bounds fs' idx'
  | [], [] => True
  | _, _ => False
  end.

Definition absorb (w : nat -> R) (fs : list factor) : list factor :=
  match fs with f :: t => (rows f, fun i r => ent f i r * w r) :: t | [] => [] end.
Definition norm_one (f : factor) : factor := (rows f, normalise_factor (rows f) (ent f)).
Fixpoint scales (fs : list factor) (r : nat) : R :=
  match fs with f :: t => scale_of (rows f) (ent f) r * scales t r | [] => 1 end.
Definition cp_normalize (w : nat -> R) (fs : list factor) : (nat -> R) * list factor :=
  let fs' := absorb w fs in (scales fs', map norm_one fs').

Lemma term_normalised fs : forall idx r, in_bounds fs idx ->
  scales fs r * term (map norm_one fs) idx r = term fs idx r.
Proof.
  induction fs as [|f fs IH]; intros idx r Hb.
  - destruct idx; simpl; [ring | contradiction].
  - destruct idx as [|i idx]; [contradiction|]. destruct Hb as [Hi Hb]. cbn [map term scales].
    unfold norm_one at 1. cbn [ent snd].
    rewrite <- (IH idx r Hb). rewrite <- (normalise_factor_represents (rows f) (ent f) r i Hi). ring.
Qed.

(* the scale is carried by the weights: every rank-one term of every entry is unchanged *)
Theorem cp_normalize_represents w fs idx r : fs <> [] -> in_bounds fs idx ->
  let '(w', fs') := cp_normalize w fs in cp_entry_term w' fs' idx r = cp_entry_term w fs idx r.
Proof.
  intros Hne Hb. unfold cp_normalize, cp_entry_term.
  destruct fs as [|f fs]; [congruence|]. destruct idx as [|i idx]; [contradiction|].
  assert (Hb' : in_bounds (absorb w (f :: fs)) (i :: idx)) by exact Hb.
  rewrite (term_normalised _ _ r Hb'). cbn [absorb term ent snd]. ring.
Qed.

Lemma scales_nonneg fs r : 0 <= scales fs r.
Proof. induction fs as [|f fs IH]; simpl; [lra|]. apply Rmult_le_pos; [apply scale_nonneg | exact IH]. Qed.
Theorem cp_normalize_weights_nonneg w fs r : 0 <= fst (cp_normalize w fs) r.
Proof. apply scales_nonneg. Qed.

Lemma scales_zero fs r f : In f fs -> colnorm2 (rows f) (ent f) r = 0 -> scales fs r = 0.
Proof.
  induction fs as [|g fs IH]; intros Hin Hz; [contradiction|]. simpl. destruct Hin as [->|Hin].
  - apply (proj2 (scale_zero _ _ _)) in Hz. rewrite Hz. ring.
  - rewrite (IH Hin Hz). ring.
Qed.

(* every returned column has unit norm, or it is a zero column and the weight of its component is 0 *)
Theorem cp_normalize_unit_columns w fs r f' : In f' (snd (cp_normalize w fs)) ->
  colnorm2 (rows f') (ent f') r = 1 \/
  ((forall i, (i < rows f')%nat -> ent f' i r = 0) /\ fst (cp_normalize w fs) r = 0).
Proof.
  unfold cp_normalize. cbn [fst snd]. intros Hin. apply in_map_iff in Hin. destruct Hin as (f & <- & Hin).
  unfold norm_one. cbn [rows ent fst snd].
  destruct (Req_EM_T (colnorm2 (rows f) (ent f) r) 0) as [Hz|Hnz].
  - right. split; [apply (normalise_factor_zero _ _ _ Hz) | now apply (scales_zero _ r f)].
  - left. now apply normalise_factor_unit.
Qed.

(* the number of factors and their numbers of rows are unchanged *)
Theorem cp_normalize_shapes w fs : map rows (snd (cp_normalize w fs)) = map rows fs.
Proof.
  unfold cp_normalize. cbn [snd]. rewrite map_map. destruct fs as [|f fs]; [reflexivity|]. cbn [absorb map norm_one rows fst]. f_equal.
Qed.

(* idempotence up to the representation: normalising a normalised CP tensor keeps every column norm (1 or 0) *)
Lemma colnorm2_one_scale I f r : colnorm2 I f r = 1 -> scale_of I f r = 1.
Proof. intros H. unfold scale_of. rewrite H. apply sqrt_1. Qed.

(* non-vacuity: a 2 x 1 factor (3, 4)^T and a 1 x 1 factor (2) with weight 1/2 *)
Example cp_normalize_ex :
  let f0 : factor := (2%nat, fun i _ => if Nat.eqb i 0 then 3 else 4) in
  let f1 : factor := (1%nat, fun _ _ => 2) in
  in_bounds [f0; f1] [1%nat; 0%nat] /\ cp_entry_term (fun _ => / 2) [f0; f1] [1%nat; 0%nat] 0%nat = 4.
Proof. simpl. split; [lia|]. unfold cp_entry_term. simpl. lra. Qed.

(* ------------------------------------------------------------------ tucker_normalize (tucker_tensor.py): the scale goes to the core *)
(*   for i, factor: scales <- column norms ; core <- core * scales (along mode i) ; factor <- factor / where(scales == 0, 1, scales) *)
Fixpoint tterm (fs : list factor) (idx jdx : list nat) : R :=
  match fs, idx, jdx with
  | f :: fs', i :: idx', j :: jdx' => ent f i j * tterm fs' idx' jdx'
  | _, _, _ => 1
  end.
Fixpoint tscales (fs : list factor) (jdx : list nat) : R :=
  match fs, jdx with
  | f :: fs', j :: jdx' => scale_of (rows f) (ent f) j * tscales fs' jdx'
  | _, _ => 1
  end.
Definition tucker_normalize (core : list nat -> R) (fs : list factor) : (list nat -> R) * list factor :=
  (fun jdx => core jdx * tscales fs jdx, map norm_one fs).
(* every term core[j] * prod_k U_k[i_k, j_k] of every entry of the represented tensor is unchanged *)
Lemma tterm_normalised fs : forall idx jdx, in_bounds fs idx -> length jdx = length fs ->
  tscales fs jdx * tterm (map norm_one fs) idx jdx = tterm fs idx jdx.
Proof.
  induction fs as [|f fs IH]; intros idx jdx Hb Hl.
  - destruct idx; simpl; [ring | contradiction].
  - destruct idx as [|i idx]; [contradiction|]. destruct jdx as [|j jdx]; [discriminate|]. destruct Hb as [Hi Hb].
    cbn [map tterm tscales]. unfold norm_one at 1. cbn [ent snd].
    rewrite <- (IH idx jdx Hb) by (simpl in Hl; lia). rewrite <- (normalise_factor_represents (rows f) (ent f) j i Hi). ring.
Qed.
Theorem tucker_normalize_represents core fs idx jdx : in_bounds fs idx -> length jdx = length fs ->
  let '(core', fs') := tucker_normalize core fs in core' jdx * tterm fs' idx jdx = core jdx * tterm fs idx jdx.
Proof. intros Hb Hl. unfold tucker_normalize. rewrite <- (tterm_normalised fs idx jdx Hb Hl). ring. Qed.
Theorem tucker_normalize_unit_columns core fs j f' : In f' (snd (tucker_normalize core fs)) ->
  colnorm2 (rows f') (ent f') j = 1 \/ (forall i, (i < rows f')%nat -> ent f' i j = 0).
Proof.
  unfold tucker_normalize. cbn [snd]. intros Hin. apply in_map_iff in Hin. destruct Hin as (f & <- & Hin).
  unfold norm_one. cbn [rows ent fst snd].
  destruct (Req_EM_T (colnorm2 (rows f) (ent f) j) 0) as [Hz|Hnz].
  - right. apply (normalise_factor_zero _ _ _ Hz).
  - left. now apply normalise_factor_unit.
Qed.

(* ------------------------------------------------------------------ initialize_cp with a user CP tensor (weights w, possibly non-unit) *)
(* the weights are pulled into one factor (the last one; the last UPDATED one in non_negative_parafac_hals with a fixed last mode) and
   replaced by ones: the returned CP tensor has weights all ones and represents the same tensor *)
Fixpoint absorb_at (k : nat) (w : nat -> R) (fs : list factor) : list factor :=
  match fs, k with
  | [], _ => []
  | f :: t, O => (rows f, fun i r => ent f i r * w r) :: t
  | f :: t, S k' => f :: absorb_at k' w t
  end.
Definition ones_w : nat -> R := fun _ => 1.
Lemma term_absorb_at fs : forall k w idx r, (k < length fs)%nat -> in_bounds fs idx ->
  term (absorb_at k w fs) idx r = w r * term fs idx r.
Proof.
  induction fs as [|f fs IH]; intros k w idx r Hk Hb; [simpl in Hk; lia|].
  destruct idx as [|i idx]; [contradiction|]. destruct Hb as [_ Hb]. destruct k as [|k].
  - cbn [absorb_at term ent snd]. ring.
  - cbn [absorb_at term]. rewrite IH by (simpl in Hk; try lia; assumption). ring.
Qed.
Theorem init_user_weights_absorbed k w fs idx r : (k < length fs)%nat -> in_bounds fs idx ->
  cp_entry_term ones_w (absorb_at k w fs) idx r = cp_entry_term w fs idx r.
Proof. intros Hk Hb. unfold cp_entry_term, ones_w. rewrite term_absorb_at by assumption. ring. Qed.
Theorem absorb_at_shapes k w fs : map rows (absorb_at k w fs) = map rows fs.
Proof. revert k. induction fs as [|f fs IH]; intros k; [destruct k; reflexivity|]. destruct k; cbn [absorb_at map rows fst]; [reflexivity|]. now rewrite IH. Qed.
