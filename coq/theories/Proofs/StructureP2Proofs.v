(* C08 -- PARAFAC2 end to end over the outer loop (Model/StructureHooi.v p2o_run): on every path -- every cap, every sequence of line-search and
   convergence decisions, with or without normalisation / non-negativity -- the returned projections are the output of _compute_projections (or the
   initial ones when they already were orthonormal), hence one orthonormal projection per slice, hence the evolving factors P_i B share the cross
   product B^T B.  Generic part: abstract state; concrete part over R with the SVD pair (U, Vh) as Section variables with their contract. *)
From Coq Require Import List Arith Bool Lia Reals.
From TLV Require Import Base.RSum Model.Structure Model.StructureHooi Proofs.StructureProofsR.
Import ListNotations.
Local Open Scope nat_scope.

Section P2Generic.
  Variable St : Type.
  Variables (svd_init clip compute_proj absorb updates jump normalise : St -> St).
  Variable discard : St -> St -> St.
  Variable ProjOrth : St -> Prop.
  Hypothesis Hcp : forall s, ProjOrth (compute_proj s).
  Hypothesis Hupd : forall s, ProjOrth s -> ProjOrth (updates s).          (* the CP updates, the normalisation, the clipping and the absorption of the *)
  Hypothesis Hnorm : forall s, ProjOrth s -> ProjOrth (normalise s).       (* weights assign the factors only *)
  Hypothesis Hclip : forall s, ProjOrth s -> ProjOrth (clip s).
  Hypothesis Hdiscard : forall t s, ProjOrth s -> ProjOrth (discard t s).
  Notation sweep := (p2_sweep St compute_proj absorb updates jump normalise discard).
  Lemma p2_sweep_orth nf li acc s : ProjOrth (sweep nf li acc s).
  Proof.
    unfold p2_sweep. assert (H1 : ProjOrth (updates (compute_proj (absorb s)))) by apply Hupd, Hcp.
    assert (H2 : ProjOrth (if li then (if acc then compute_proj (jump (updates (compute_proj (absorb s))))
                                       else discard (compute_proj (jump (updates (compute_proj (absorb s))))) (updates (compute_proj (absorb s))))
                           else updates (compute_proj (absorb s)))).
    { destruct li; [|exact H1]. destruct acc; [apply Hcp | apply Hdiscard, H1]. }
    destruct nf; [apply Hnorm|]; exact H2.
  Qed.
  Lemma p2o_loop_orth : forall fuel nf tol_set ls it decisions s, 0 < fuel \/ ProjOrth s ->
    ProjOrth (p2o_loop St compute_proj absorb updates jump normalise discard nf tol_set ls it fuel decisions s).
  Proof.
    induction fuel as [|fuel IH]; intros nf tol_set ls it decisions s H; cbn [p2o_loop].
    - destruct H as [H|H]; [lia | exact H].
    - destruct (tol_set && (1 <=? it) && snd (hd (false, false) decisions)); [apply p2_sweep_orth|].
      apply IH. right. apply p2_sweep_orth.
  Qed.
  Theorem p2o_run_orth ik nn nf tol_set ls n decisions s0 : ik = InitSvd \/ 0 < n \/ ProjOrth s0 ->
    ProjOrth (p2o_run St svd_init clip compute_proj absorb updates jump normalise discard ik nn nf tol_set ls n decisions s0).
  Proof.
    intros H. unfold p2o_run. apply p2o_loop_orth. destruct H as [->|[H|H]]; [right | left; exact H | right].
    - unfold p2o_init. assert (H2 : ProjOrth (if nn then compute_proj (clip (compute_proj (svd_init s0))) else compute_proj (svd_init s0))) by (destruct nn; apply Hcp).
      destruct nf; [apply Hnorm|]; exact H2.
    - unfold p2o_init.
      assert (H1 : ProjOrth (match ik with InitSvd => compute_proj (svd_init s0) | _ => s0 end)) by (destruct ik; [exact H | apply Hcp | exact H]).
      assert (H2 : ProjOrth (if nn then match ik with InitSvd => compute_proj (clip (match ik with InitSvd => compute_proj (svd_init s0) | _ => s0 end))
                                                 | InitRandom => clip (match ik with InitSvd => compute_proj (svd_init s0) | _ => s0 end)
                                                 | InitUser => match ik with InitSvd => compute_proj (svd_init s0) | _ => s0 end end
                             else match ik with InitSvd => compute_proj (svd_init s0) | _ => s0 end)).
      { destruct nn; [|exact H1]. destruct ik; [apply Hclip; exact H1 | apply Hcp | exact H1]. }
      destruct nf; [apply Hnorm|]; exact H2.
  Qed.
End P2Generic.

(* the call counter instance (compared with the implementation's calls of _compute_projections on every run): whenever a sweep runs or the SVD
   initialisation is used, the current projections are the output of some _compute_projections call *)
Theorem p2o_trace_from_call ik nn nf tol_set ls n decisions : ik = InitSvd \/ 0 < n ->
  1 <= snd (p2o_trace ik nn nf tol_set ls n decisions).
Proof.
  intros H. unfold p2o_trace.
  apply (p2o_run_orth (nat * nat) (fun s => s) (fun s => s) (fun s => (S (fst s), S (fst s))) (fun s => s) (fun s => s) (fun s => s) (fun s => s)
           (fun t s1 => (fst t, snd s1)) (fun s => 1 <= snd s)); cbn [fst snd]; try (intros; lia). tauto.
Qed.
Example p2o_trace_ex : p2o_trace InitSvd false true true true 9 (repeat (false, false) 6 ++ [(false, false); (false, false); (true, false)]) = (12, 12) /\
  p2o_trace InitRandom false false true true 7 (repeat (false, false) 7) = (8, 7) /\ p2o_trace InitRandom false false false false 0 [] = (0, 0).
Proof. vm_compute. repeat split. Qed.

(* ---------------------------------------------------------------- the concrete instance over R *)
Section P2Real.
  Local Open Scope R_scope.
  Variable F : Type.                                        (* the CP factors (A, B, C) with the weights *)
  Variable getB : F -> nat -> nat -> R.                     (* B (r x r) *)
  Variables (r : nat) (Js : list nat).                      (* the rank; the number of rows J_i of every slice *)
  Notation mat := (nat -> nat -> R).
  (* _compute_projections: for slice i, U (r x r), Vh (r x J_i) of the SVD of B diag(A_i) C^T X_i^T; contract: orthonormal rows *)
  Variables (svdU svdVh : nat -> F -> mat).
  Hypothesis HU : forall i f, (i < length Js)%nat -> orthonormal_rows r r (svdU i f).
  Hypothesis HVh : forall i f, (i < length Js)%nat -> orthonormal_rows r (nth i Js 0%nat) (svdVh i f).
  Variables (f_svd_init f_clip f_absorb f_updates f_jump f_normalise : F -> F).
  Variable f_updates_p : F -> list mat -> F.                (* parafac on the projected tensor: depends on the projections *)
  Definition p2state : Type := (F * list mat)%type.
  Definition zmatR : mat := fun _ _ => 0.
  Definition c_compute (s : p2state) : p2state :=
    (fst s, map (fun i => mtranspose (mmul r (svdU i (fst s)) (svdVh i (fst s)))) (seq 0 (length Js))).
  Definition lift_f (g : F -> F) (s : p2state) : p2state := (g (fst s), snd s).
  Definition c_updates (s : p2state) : p2state := (f_updates_p (fst s) (snd s), snd s).
  Definition parafac2_R ik nn nf tol_set ls n decisions (f0 : F) (P0 : list mat) : p2state :=
    p2o_run p2state (lift_f f_svd_init) (lift_f f_clip) c_compute (lift_f f_absorb) c_updates (lift_f f_jump) (lift_f f_normalise) (fun _ s1 => s1)
            ik nn nf tol_set ls n decisions (f0, P0).
  Definition ProjOrthR (s : p2state) : Prop :=
    length (snd s) = length Js /\ forall i, (i < length Js)%nat -> orthonormal_cols (nth i Js 0%nat) r (nth i (snd s) zmatR).
  Lemma c_compute_orth s : ProjOrthR (c_compute s).
  Proof.
    unfold ProjOrthR, c_compute. cbn [snd]. split; [now rewrite map_length, seq_length|]. intros i Hi.
    rewrite (nth_indep _ zmatR ((fun i => mtranspose (mmul r (svdU i (fst s)) (svdVh i (fst s)))) 0%nat)) by (now rewrite map_length, seq_length).
    rewrite (map_nth (fun i => mtranspose (mmul r (svdU i (fst s)) (svdVh i (fst s))))), seq_nth by exact Hi. simpl.
    apply projection_orthonormal; [now apply HU | now apply HVh].
  Qed.
  (* THE theorem about parafac2: one orthonormal projection per slice, and the evolving factors B_i = P_i B share the cross product B^T B *)
  Theorem parafac2_R_canonical ik nn nf tol_set ls n decisions f0 P0 :
    ik = InitSvd \/ (0 < n)%nat \/ ProjOrthR (f0, P0) ->
    let res := parafac2_R ik nn nf tol_set ls n decisions f0 P0 in
    let B := getB (fst res) in
    length (snd res) = length Js /\
    (forall i, (i < length Js)%nat -> orthonormal_cols (nth i Js 0%nat) r (nth i (snd res) zmatR)) /\
    (forall i a b, (i < length Js)%nat ->
       rsum (nth i Js 0%nat) (fun j => mmul r (nth i (snd res) zmatR) B j a * mmul r (nth i (snd res) zmatR) B j b) = rsum r (fun l => B l a * B l b)).
  Proof.
    intros H res B.
    assert (Ho : ProjOrthR res).
    { unfold res, parafac2_R. apply (p2o_run_orth p2state (lift_f f_svd_init) (lift_f f_clip) c_compute (lift_f f_absorb) c_updates (lift_f f_jump) (lift_f f_normalise) (fun _ s1 => s1) ProjOrthR).
      - exact c_compute_orth.
      - intros s Hs. exact Hs.
      - intros s Hs. exact Hs.
      - intros s Hs. exact Hs.
      - intros t s Hs. exact Hs.
      - exact H. }
    destruct Ho as [Hl Hc]. split; [exact Hl|]. split; [exact Hc|].
    intros i a b Hi. apply parafac2_cross_product. now apply Hc.
  Qed.
End P2Real.
