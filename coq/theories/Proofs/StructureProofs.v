(* C08 -- lemmas about the structural model (Model/Structure.v): nat logic, induction over the list of modes. *)
From Coq Require Import List Arith ZArith QArith Bool Lia.
From TLV Require Import Base.Shape Base.Tensor Model.Structure.
Import ListNotations.
Local Open Scope nat_scope.

(* ------------------------------------------------------------------ generic list facts *)
Lemma last_app_single {A} (l : list A) (x d : A) : last (l ++ [x]) d = x.
Proof. induction l as [|a l IH]; simpl; [reflexivity|]. destruct (l ++ [x]) eqn:E; [destruct l; discriminate|]. exact IH. Qed.
Lemma last_cons_ne {A} (a : A) l d : l <> [] -> last (a :: l) d = last l d.
Proof. destruct l; [congruence|reflexivity]. Qed.
Lemma last_default {A} (l : list A) d d' : l <> [] -> last l d = last l d'.
Proof. induction l as [|a l IH]; [congruence|]. intros _. destruct l; [reflexivity|]. apply IH. discriminate. Qed.
Lemma hd_repeat_app {A} (x y d : A) n : hd d (repeat x n ++ [y]) = if n =? 0 then y else x.
Proof. destruct n; reflexivity. Qed.

Lemma rot_length {A} m (l : list A) : length (rot m l) = length l.
Proof. unfold rot. rewrite app_length, skipn_length, firstn_length. lia. Qed.
Lemma rot_rot {A} m (l : list A) : m <= length l -> rot (length l - m) (rot m l) = l.
Proof.
  intros H. unfold rot.
  assert (E : length (skipn m l) = length l - m) by apply skipn_length.
  rewrite skipn_app, firstn_app, E, Nat.sub_diag. simpl.
  rewrite <- E at 1. rewrite skipn_all. rewrite <- E. rewrite firstn_all. rewrite app_nil_r. simpl.
  apply firstn_skipn.
Qed.
Lemma map_rot {A B} (f : A -> B) m l : map f (rot m l) = rot m (map f l).
Proof. unfold rot. now rewrite map_app, skipn_map, firstn_map. Qed.

(* ------------------------------------------------------------------ chains of order-3 cores *)
(* consecutive cores share a rank: third dimension of one = first dimension of the next *)
Definition link (a b : list nat) : Prop := nth 2 a 0 = nth 0 b 0.
Fixpoint chain_from (a : list nat) (l : list (list nat)) : Prop :=
  match l with [] => True | b :: t => link a b /\ chain_from b t end.
Definition chain (l : list (list nat)) : Prop := match l with [] => True | a :: t => chain_from a t end.
(* ring: additionally the last core links back to the first *)
Definition cyc_chain (l : list (list nat)) : Prop := chain (l ++ [hd [] l]).

Lemma chain_from_app l1 : forall a x l2, chain_from a (l1 ++ x :: l2) <-> chain_from a (l1 ++ [x]) /\ chain_from x l2.
Proof.
  induction l1 as [|b l1 IH]; intros a x l2; simpl.
  - tauto.
  - specialize (IH b x l2). tauto.
Qed.
Lemma chain_from_snoc l : forall a c, chain_from a l -> link (last l a) c -> chain_from a (l ++ [c]).
Proof.
  induction l as [|b l IH]; intros a c Hc Hl; simpl in *.
  - auto.
  - destruct Hc as [H1 H2]. split; [exact H1|]. apply IH; [exact H2|]. destruct l as [|b' l']; [exact Hl|]. rewrite (last_default (b' :: l') b a) by discriminate. exact Hl.
Qed.
Lemma chain_from_last_link l : forall a c, chain_from a (l ++ [c]) -> link (last l a) c.
Proof.
  induction l as [|b l IH]; intros a c H; simpl in *.
  - tauto.
  - destruct H as [_ H]. apply IH in H. destruct l as [|b' l']; [exact H|]. rewrite (last_default (b' :: l') a b) by discriminate. exact H.
Qed.
Lemma cyc_chain_boundary l : l <> [] -> cyc_chain l -> nth 2 (last l []) 0 = nth 0 (hd [] l) 0.
Proof.
  destruct l as [|a l]; [congruence|]. intros _ H. unfold cyc_chain in H. simpl in H.
  apply chain_from_last_link in H. unfold link in H. destruct l as [|b l]; [exact H|].
  rewrite last_cons_ne by discriminate. rewrite (last_default (b :: l) [] a) by discriminate. exact H.
Qed.
(* rotating a ring keeps it a ring *)
Lemma cyc_chain_rot l1 l2 : cyc_chain (l1 ++ l2) -> cyc_chain (l2 ++ l1).
Proof.
  unfold cyc_chain. destruct l1 as [|a l1]; [now rewrite app_nil_r|]. destruct l2 as [|b l2]; [now rewrite app_nil_r|].
  simpl. intros H.
  replace ((l1 ++ b :: l2) ++ [a]) with (l1 ++ b :: (l2 ++ [a])) in H by (now rewrite <- app_assoc).
  apply chain_from_app in H. destruct H as [H1 H2].
  replace ((l2 ++ a :: l1) ++ [b]) with (l2 ++ a :: (l1 ++ [b])) by (now rewrite <- app_assoc).
  apply chain_from_app. split; assumption.
Qed.

(* ------------------------------------------------------------------ truncated_svd shapes *)
Lemma svd_shapes_truncated m n k : k <= Nat.min m n -> svd_shapes m n k = (k, k, k).
Proof.
  intros H. unfold svd_shapes. rewrite (Nat.min_l k (Nat.max m n)) by lia.
  destruct (Nat.min m n <? k) eqn:E; [apply Nat.ltb_lt in E; lia | reflexivity].
Qed.
(* whatever the other dimension p of the unfolding is, U[:, :r] of an s x p matrix has min r s columns *)
Lemma svd_shapes_cols s p r : fst (fst (svd_shapes s p r)) = Nat.min r s.
Proof.
  unfold svd_shapes. destruct (Nat.min s p <? Nat.min r (Nat.max s p)) eqn:E; simpl.
  - lia.
  - apply Nat.ltb_ge in E. lia.
Qed.

(* ------------------------------------------------------------------ tensor_train *)
Definition tt_cur (rk s : nat) (rest ranks : list nat) : nat := Nat.min (Nat.min (rk * s) (prod rest)) (hd 0 ranks).
Lemma tt_cores_cons rk s rest ranks : rest <> [] ->
  tt_cores rk (s :: rest) ranks = [rk; s; tt_cur rk s rest ranks] :: tt_cores (tt_cur rk s rest ranks) rest (tl ranks).
Proof. destruct rest; [congruence | reflexivity]. Qed.
Lemma tt_ranks_cons rk s rest ranks : rest <> [] ->
  tt_ranks rk (s :: rest) ranks = tt_cur rk s rest ranks :: tt_ranks (tt_cur rk s rest ranks) rest (tl ranks).
Proof. destruct rest; [congruence | reflexivity]. Qed.

Lemma tt_cores_length shape : forall rk ranks, length (tt_cores rk shape ranks) = length shape.
Proof.
  induction shape as [|s rest IH]; intros; [reflexivity|]. destruct (list_eq_dec Nat.eq_dec rest []) as [->|Hn]; [reflexivity|].
  rewrite tt_cores_cons by exact Hn. simpl. now rewrite IH.
Qed.
Lemma tt_ranks_length shape : forall rk ranks, length (tt_ranks rk shape ranks) = length shape.
Proof.
  induction shape as [|s rest IH]; intros; [reflexivity|]. destruct (list_eq_dec Nat.eq_dec rest []) as [->|Hn]; [reflexivity|].
  rewrite tt_ranks_cons by exact Hn. simpl. now rewrite IH.
Qed.
Lemma tt_cores_modes shape : forall rk ranks, core_modes (tt_cores rk shape ranks) = shape.
Proof.
  unfold core_modes. induction shape as [|s rest IH]; intros; [reflexivity|].
  destruct (list_eq_dec Nat.eq_dec rest []) as [->|Hn]; [reflexivity|].
  rewrite tt_cores_cons by exact Hn. cbn [map nth]. now rewrite IH.
Qed.
Lemma tt_cores_nth shape : forall rk ranks k, k < length shape ->
  nth k (tt_cores rk shape ranks) [] =
  [nth k (rk :: tt_ranks rk shape ranks) 0; nth k shape 0; nth (S k) (rk :: tt_ranks rk shape ranks) 0].
Proof.
  induction shape as [|s rest IH]; intros rk ranks k Hk; [simpl in Hk; lia|].
  destruct (list_eq_dec Nat.eq_dec rest []) as [->|Hn].
  - simpl in Hk. assert (k = 0) by lia. subst. reflexivity.
  - rewrite tt_cores_cons, tt_ranks_cons by exact Hn. destruct k as [|k]; [reflexivity|].
    cbn [nth]. rewrite IH by (simpl in Hk; lia). reflexivity.
Qed.
Lemma tt_ranks_ne shape rk ranks : shape <> [] -> tt_ranks rk shape ranks <> [].
Proof. intros Hn E. apply (f_equal (@length nat)) in E. rewrite tt_ranks_length in E. destruct shape; [congruence | discriminate]. Qed.
Lemma tt_ranks_last shape : forall rk ranks, shape <> [] -> last (tt_ranks rk shape ranks) 0 = 1.
Proof.
  induction shape as [|s rest IH]; intros rk ranks Hn; [congruence|].
  destruct (list_eq_dec Nat.eq_dec rest []) as [->|Hr]; [reflexivity|].
  rewrite tt_ranks_cons by exact Hr. rewrite last_cons_ne by (now apply tt_ranks_ne). now apply IH.
Qed.
(* every achieved rank is bounded by the requested one *)
Lemma tt_ranks_le shape : forall rk ranks k, S k < length shape ->
  nth k (tt_ranks rk shape ranks) 0 <= nth k ranks 0.
Proof.
  induction shape as [|s rest IH]; intros rk ranks k Hk; [simpl in Hk; lia|].
  destruct (list_eq_dec Nat.eq_dec rest []) as [->|Hr]; [simpl in Hk; lia|].
  rewrite tt_ranks_cons by exact Hr. destruct k as [|k].
  - cbn [nth]. unfold tt_cur. destruct ranks; simpl; lia.
  - cbn [nth]. etransitivity; [apply IH; simpl in Hk; lia|]. destruct ranks; [destruct k|]; simpl; lia.
Qed.
Lemma prod_pos l : Forall (fun s => 1 <= s) l -> 1 <= prod l.
Proof. induction 1; simpl; [lia | nia]. Qed.
Lemma tt_ranks_pos shape : forall rk ranks, 1 <= rk -> Forall (fun s => 1 <= s) shape -> Forall (fun r => 1 <= r) ranks ->
  length shape <= S (length ranks) -> Forall (fun r => 1 <= r) (tt_ranks rk shape ranks).
Proof.
  induction shape as [|s rest IH]; intros rk ranks Hrk Hs Hr Hl; [constructor|].
  destruct (list_eq_dec Nat.eq_dec rest []) as [->|Hn]; [repeat constructor|].
  rewrite tt_ranks_cons by exact Hn. inversion Hs as [|? ? Hs1 Hs2]; subst.
  destruct ranks as [|r ranks]; [destruct rest; [congruence | simpl in Hl; lia]|]. inversion Hr as [|? ? Hr1 Hr2]; subst.
  pose proof (prod_pos _ Hs2) as Hp. assert (1 <= rk * s) by nia.
  assert (Hc : 1 <= tt_cur rk s rest (r :: ranks)) by (unfold tt_cur; simpl; lia).
  constructor; [exact Hc|]. apply IH; try assumption. simpl in *. lia.
Qed.

(* what the validator returns always has the TT boundary form *)
Lemma frac_ranks_length rd c dims : length (frac_ranks rd c dims) = length dims.
Proof. unfold frac_ranks. apply map_length. Qed.
Lemma frac_ranks_pos rd c dims : Forall (fun r => 1 <= r) (frac_ranks rd c dims).
Proof. unfold frac_ranks. induction dims; simpl; constructor; [lia | assumption]. Qed.
Lemma avg_dims_length shape : length (avg_dims shape) = length shape - 1.
Proof. unfold avg_dims. rewrite map_length, combine_length. destruct shape; cbn [tl length]; lia. Qed.

Definition tt_boundary (n : nat) (r : list nat) : Prop := length r = S n /\ hd 0 r = 1 /\ last r 0 = 1.
Lemma tt_boundary_mid n mid : length mid = n - 1 -> 1 <= n -> tt_boundary n (1 :: mid ++ [1]).
Proof. intros H Hn. unfold tt_boundary. split; [simpl; rewrite app_length; simpl; lia|]. split; [reflexivity|]. rewrite last_cons_ne by (destruct mid; discriminate). apply last_app_single. Qed.

Lemma validate_tt_rank_boundary shape spec constant rd ao c r : shape <> [] ->
  validate_tt_rank shape spec constant rd ao c = Ok r -> tt_boundary (length shape) r.
Proof.
  intros Hn H. unfold validate_tt_rank in H.
  assert (Hl : 1 <= length shape) by (destruct shape; [congruence | simpl; lia]).
  match type of H with rbind ?X _ = _ => destruct X as [rank|] eqn:E end; [|discriminate].
  assert (Hb : tt_boundary (length shape) rank).
  { destruct spec as [r0 | l | q].
    - inversion E; subst. apply tt_boundary_mid; [apply repeat_length | exact Hl].
    - destruct (negb (S (length shape) =? length l)) eqn:E1; [discriminate|].
      destruct (negb (hd 0 l =? 1)) eqn:E2; [discriminate|].
      destruct (negb (last l 0 =? 1)) eqn:E3; [discriminate|]. inversion E; subst.
      apply negb_false_iff in E1, E2, E3. apply Nat.eqb_eq in E1, E2, E3. unfold tt_boundary. auto.
    - destruct constant.
      + destruct (length shape <=? 2); [discriminate|]. inversion E; subst. apply tt_boundary_mid; [apply repeat_length | exact Hl].
      + destruct (length shape <=? 1); [discriminate|]. inversion E; subst.
        apply tt_boundary_mid; [now rewrite frac_ranks_length, avg_dims_length | exact Hl]. }
  simpl in H. destruct ao; inversion H; subst; [exact Hb|].
  unfold tt_clip, tt_boundary. split; [simpl; now rewrite tt_ranks_length|]. split; [reflexivity|].
  rewrite last_cons_ne by (now apply tt_ranks_ne). now apply tt_ranks_last.
Qed.

Lemma nth_last {A} (l : list A) d : forall n, length l = S n -> nth n l d = last l d.
Proof.
  induction l as [|a l IH]; intros n H; [discriminate|]. destruct l as [|b l].
  - simpl in H. assert (n = 0) by lia. subst. reflexivity.
  - destruct n; [simpl in H; lia|]. rewrite last_cons_ne by discriminate. cbn [nth]. apply IH. simpl in *. lia.
Qed.
Lemma tt_cores_ne shape rk ranks : shape <> [] -> tt_cores rk shape ranks <> [].
Proof. intros Hn E. apply (f_equal (@length _)) in E. rewrite tt_cores_length in E. destruct shape; [congruence | discriminate]. Qed.
Lemma core_ranks_tt shape : forall rk ranks, shape <> [] ->
  core_ranks (tt_cores rk shape ranks) = rk :: tt_ranks rk shape ranks.
Proof.
  induction shape as [|s rest IH]; intros rk ranks Hn; [congruence|].
  destruct (list_eq_dec Nat.eq_dec rest []) as [->|Hr]; [reflexivity|].
  rewrite tt_cores_cons, tt_ranks_cons by exact Hr.
  specialize (IH (tt_cur rk s rest ranks) (tl ranks) Hr). unfold core_ranks in *.
  rewrite last_cons_ne by (now apply tt_cores_ne). cbn [map nth app]. f_equal. exact IH.
Qed.

(* main structure theorem of tensor_train *)
Lemma tensor_train_structure shape spec c cores :
  tensor_train shape spec c = Ok cores ->
  exists requested, validate_tt_rank shape spec false RRound true c = Ok requested /\
  let rs := core_ranks cores in
  length cores = length shape /\ core_modes cores = shape /\
  length rs = S (length shape) /\ hd 0 rs = 1 /\ last rs 0 = 1 /\
  (forall k, k < length shape -> nth k cores [] = [nth k rs 0; nth k shape 0; nth (S k) rs 0]) /\
  (forall k, k <= length shape -> nth k rs 0 <= nth k requested 0).
Proof.
  unfold tensor_train. intros H.
  destruct (validate_tt_rank shape spec false RRound true c) as [rank|] eqn:E; [|discriminate]. simpl in H.
  destruct (length shape <=? 1) eqn:El; [discriminate|]. apply Nat.leb_gt in El. inversion H; subst cores; clear H.
  exists rank. split; [reflexivity|].
  assert (Hne : shape <> []) by (destruct shape; [simpl in El; lia | discriminate]).
  destruct (validate_tt_rank_boundary _ _ _ _ _ _ _ Hne E) as (Hlen & Hhd & Hlast).
  cbv zeta. rewrite core_ranks_tt by exact Hne.
  split; [apply tt_cores_length|]. split; [apply tt_cores_modes|].
  split; [simpl; now rewrite tt_ranks_length|]. split; [exact Hhd|].
  split; [rewrite last_cons_ne by (now apply tt_ranks_ne); now apply tt_ranks_last|].
  split; [intros k Hk; now apply tt_cores_nth|].
  intros k Hk. destruct k as [|k].
  - cbn [nth]. destruct rank; simpl; lia.
  - cbn [nth]. destruct (Nat.eq_dec (S k) (length shape)) as [Ee|Ene].
    + rewrite (nth_last (tt_ranks (hd 0 rank) shape (tl rank)) 0 k) by (rewrite tt_ranks_length; lia).
      rewrite tt_ranks_last by exact Hne.
      rewrite (nth_last rank 0 (S k)) by lia. lia.
    + etransitivity; [apply tt_ranks_le; lia|]. destruct rank; [destruct k|]; simpl; lia.
Qed.

(* ------------------------------------------------------------------ tensor_ring *)
Definition tr_cur (r0 rk s : nat) (rest ranks : list nat) : nat := Nat.min (Nat.min (rk * s) (prod rest * r0)) (hd 0 ranks).
Lemma tr_mid_cons r0 rk s rest ranks : rest <> [] ->
  tr_mid r0 rk (s :: rest) ranks = [rk; s; tr_cur r0 rk s rest ranks] :: tr_mid r0 (tr_cur r0 rk s rest ranks) rest (tl ranks).
Proof. destruct rest; [congruence | reflexivity]. Qed.
Lemma tr_mid_spec shape : forall r0 rk ranks prev, shape <> [] -> nth 2 prev 0 = rk ->
  let m := tr_mid r0 rk shape ranks in
  length m = length shape /\ core_modes m = shape /\ m <> [] /\ nth 2 (last m prev) 0 = r0 /\ chain_from prev m.
Proof.
  induction shape as [|s rest IH]; intros r0 rk ranks prev Hn Hp; [congruence|].
  destruct (list_eq_dec Nat.eq_dec rest []) as [->|Hr].
  - simpl. unfold link. simpl. repeat split; auto; discriminate.
  - cbv zeta. rewrite tr_mid_cons by exact Hr.
    set (cur := tr_cur r0 rk s rest ranks).
    destruct (IH r0 cur (tl ranks) [rk; s; cur] Hr eq_refl) as (H1 & H2 & H3 & H4 & H5).
    set (m := tr_mid r0 cur rest (tl ranks)) in *. clearbody m.
    split; [simpl; now rewrite H1|]. split; [unfold core_modes in *; cbn [map nth]; now rewrite H2|].
    split; [discriminate|]. split.
    { rewrite last_cons_ne by exact H3. rewrite (last_default m prev [rk; s; cur]) by exact H3. exact H4. }
    simpl. split; [unfold link; simpl; exact Hp | exact H5].
Qed.

Lemma tr_cores_structure shape rank cores : tr_cores shape rank = Ok cores ->
  length cores = length shape /\ core_modes cores = shape /\ cyc_chain cores /\
  nth 0 (hd [] cores) 0 = hd 0 rank /\ nth 2 (hd [] cores) 0 = nth 1 rank 0.
Proof.
  unfold tr_cores. destruct shape as [|s0 rest]; [discriminate|]. destruct rank as [|r0 [|r1 rks]]; try discriminate.
  destruct rest as [|s1 rest']; [discriminate|].
  destruct (Nat.min s0 (prod (s1 :: rest')) <? r0 * r1); [discriminate|].
  destruct (tr_mid_spec (s1 :: rest') r0 r1 rks [r0; s0; r1] ltac:(discriminate) eq_refl) as (H1 & H2 & H3 & H4 & H5).
  set (m := tr_mid r0 r1 (s1 :: rest') rks) in *. clearbody m.
  intros H; injection H as <-.
  split; [simpl; now rewrite H1|]. split; [unfold core_modes in *; cbn [map nth]; now rewrite H2|].
  split; [|split; reflexivity].
  unfold cyc_chain. simpl. apply chain_from_snoc; [exact H5|]. unfold link. rewrite H4. reflexivity.
Qed.

Lemma tensor_ring_structure shape spec mode cores : tensor_ring shape spec mode = Ok cores ->
  length cores = length shape /\ core_modes cores = shape /\ cyc_chain cores /\
  nth 2 (last cores []) 0 = nth 0 (hd [] cores) 0.
Proof.
  unfold tensor_ring. destruct (validate_tr_rank shape spec RRound) as [rank|]; [|discriminate]. simpl.
  destruct (length shape <=? mode) eqn:El; [discriminate|]. apply Nat.leb_gt in El.
  destruct (tr_cores (rot mode shape) (if mode =? 0 then rank else rot_ring mode rank)) as [cs|] eqn:E; [|discriminate]. simpl.
  intros H; inversion H; subst cores; clear H.
  destruct (tr_cores_structure _ _ _ E) as (H1 & H2 & H3 & _). rewrite rot_length in H1.
  assert (Hcyc : cyc_chain (rot (length shape - mode) cs)).
  { unfold rot. apply cyc_chain_rot. now rewrite firstn_skipn. }
  assert (Hlen : length (rot (length shape - mode) cs) = length shape) by (now rewrite rot_length).
  split; [exact Hlen|]. split.
  { unfold core_modes in *. rewrite map_rot, H2. apply rot_rot. lia. }
  split; [exact Hcyc|]. apply cyc_chain_boundary; [|exact Hcyc].
  intro E0. rewrite E0 in Hlen. simpl in Hlen. lia.
Qed.

(* the validated TR rank list always closes the ring *)
Lemma last_repeat {A} (x d : A) n : last (repeat x (S n)) d = x.
Proof. induction n as [|n IH]; [reflexivity|]. change (repeat x (S (S n))) with (x :: repeat x (S n)). rewrite last_cons_ne by discriminate. exact IH. Qed.
Lemma validate_tr_rank_boundary shape spec rd r : validate_tr_rank shape spec rd = Ok r ->
  length r = S (length shape) /\ hd 0 r = last r 0.
Proof.
  unfold validate_tr_rank. destruct spec as [r0 | l | q].
  - intros H. assert (Hr : r = repeat r0 (S (length shape))) by congruence. rewrite Hr. split; [apply repeat_length|]. now rewrite last_repeat.
  - destruct (negb (S (length shape) =? length l)) eqn:E1; [discriminate|].
    destruct (negb (hd 0 l =? last l 0)) eqn:E2; [discriminate|]. intros H; injection H as <-.
    apply negb_false_iff in E1, E2. apply Nat.eqb_eq in E1, E2. auto.
  - destruct (sum_list shape =? 0); [discriminate|]. intros H.
    match type of H with Ok (repeat ?v _) = _ => assert (Hr : r = repeat v (S (length shape))) by congruence end.
    rewrite Hr. split; [apply repeat_length|]. now rewrite last_repeat.
Qed.

(* ------------------------------------------------------------------ tucker *)
Lemma tucker_structure shape spec c ri n out : tucker shape spec c ri n = Ok out ->
  exists requested core factors, validate_tucker_rank shape spec RRound c = Ok requested /\ out = core :: factors /\
  length core = length shape /\ length factors = length shape /\
  (forall k, k < length shape -> nth k factors [] = [nth k shape 0; nth k core 0]) /\
  (ri && (n =? 0) = false -> forall k, k < length shape -> nth k core 0 = Nat.min (nth k requested 0) (nth k shape 0)) /\
  (ri && (n =? 0) = true -> core = requested).
Proof.
  unfold tucker. destruct (validate_tucker_rank shape spec RRound c) as [rank|]; [|discriminate]. simpl.
  destruct (negb (length rank =? length shape)) eqn:El; [discriminate|]. apply negb_false_iff, Nat.eqb_eq in El.
  intros H; inversion H; subst out; clear H.
  set (cols := if ri && (n =? 0) then rank else map (fun p => Nat.min (snd p) (fst p)) (combine shape rank)).
  assert (Hc : length cols = length shape).
  { unfold cols. destruct (ri && (n =? 0)); [exact El|]. rewrite map_length, combine_length. lia. }
  exists rank, cols, (map (fun p => [fst p; snd p]) (combine shape cols)).
  split; [reflexivity|]. split; [reflexivity|]. split; [exact Hc|].
  split; [rewrite map_length, combine_length; lia|].
  split.
  { intros k Hk. rewrite nth_indep with (d' := (fun p => [fst p; snd p]) (0, 0)) by (rewrite map_length, combine_length; lia).
    rewrite (map_nth (fun p => [fst p; snd p])). rewrite combine_nth by lia. reflexivity. }
  split.
  { intros Hf k Hk. unfold cols. rewrite Hf.
    rewrite nth_indep with (d' := (fun p => Nat.min (snd p) (fst p)) (0, 0)) by (rewrite map_length, combine_length; lia).
    rewrite (map_nth (fun p => Nat.min (snd p) (fst p))). rewrite combine_nth by lia. reflexivity. }
  intros Ht. unfold cols. now rewrite Ht.
Qed.

(* ------------------------------------------------------------------ CP family *)
Lemma parafac_structure shape spec out : parafac shape spec = Ok out ->
  exists r, validate_cp_rank shape spec RRound = Ok r /\ out = [r] :: map (fun s => [s; r]) shape.
Proof. unfold parafac. destruct (validate_cp_rank shape spec RRound) as [r|]; [|discriminate]. simpl. intros H; inversion H. eauto. Qed.

(* ------------------------------------------------------------------ loop skeleton: the normalisation contract *)
Definition no_callback_stop (decisions : list (bool * bool)) : Prop := Forall (fun d => fst d = false) decisions.
Lemma no_callback_stop_hd ds : no_callback_stop ds -> fst (hd (false, false) ds) = false.
Proof. destruct 1; [reflexivity | assumption]. Qed.
Lemma no_callback_stop_tl ds : no_callback_stop ds -> no_callback_stop (tl ds).
Proof. destruct 1; [constructor | assumption]. Qed.

Section SkeletonProofs.
  Variable St : Type.
  Variables (sweep normalise : St -> St).
  Variables (Normalised UnitWeights : St -> Prop).
  Hypothesis normalise_spec : forall s, Normalised (normalise s).
  Hypothesis sweep_keeps_weights : forall s, UnitWeights s -> UnitWeights (sweep s).

  (* --- the code as it is (after 3de556b): normalised on every path, for every decision sequence and every cap *)
  Lemma cp_loop_normalised tol_set fuel : forall it decisions s,
    Normalised s -> Normalised (cp_loop St sweep normalise true tol_set it fuel decisions s).
  Proof.
    induction fuel as [|fuel IH]; intros it decisions s H; [exact H|]. cbn [cp_loop]. unfold norm_if.
    destruct (fst (hd (false, false) decisions)); [apply normalise_spec|].
    destruct (tol_set && (1 <=? it) && snd (hd (false, false) decisions)); [apply normalise_spec|].
    apply IH. apply normalise_spec.
  Qed.
  Lemma cp_run_normalised tol_set ik all_fixed n decisions s0 :
    Normalised (cp_run St sweep normalise true tol_set ik all_fixed n decisions s0).
  Proof.
    unfold cp_run, norm_if. destruct all_fixed; [apply normalise_spec|].
    apply cp_loop_normalised. apply normalise_spec.
  Qed.
  (* --- normalize_factors = False: the weights stay all ones on every path *)
  Lemma cp_loop_unit_weights tol_set fuel : forall it decisions s,
    UnitWeights s -> UnitWeights (cp_loop St sweep normalise false tol_set it fuel decisions s).
  Proof.
    induction fuel as [|fuel IH]; intros it decisions s H; [exact H|]. cbn [cp_loop]. unfold norm_if.
    destruct (fst (hd (false, false) decisions)); [now apply sweep_keeps_weights|].
    destruct (tol_set && (1 <=? it) && snd (hd (false, false) decisions)); [now apply sweep_keeps_weights|].
    apply IH. now apply sweep_keeps_weights.
  Qed.
  Lemma cp_run_unit_weights tol_set ik all_fixed n decisions s0 :
    UnitWeights s0 -> UnitWeights (cp_run St sweep normalise false tol_set ik all_fixed n decisions s0).
  Proof. intros H. unfold cp_run, norm_if. destruct all_fixed; [exact H|]. now apply cp_loop_unit_weights. Qed.
  (* the number of sweeps is what the decisions say: with the cap 0 the result is the (normalised) initialisation *)
  Lemma cp_run_cap0 nf tol_set ik all_fixed decisions s0 :
    cp_run St sweep normalise nf tol_set ik all_fixed 0 decisions s0 = norm_if St normalise nf s0.
  Proof. unfold cp_run. now destruct all_fixed. Qed.

  (* --- the control flow before 3de556b: normalised unless (user init and no sweep) or a callback stop *)
  Lemma cp_loop_old_normalised tol_set fuel : forall it decisions s,
    no_callback_stop decisions -> 0 < fuel \/ Normalised s ->
    Normalised (cp_loop_old St sweep normalise true tol_set it fuel decisions s).
  Proof.
    induction fuel as [|fuel IH]; intros it decisions s Hcb H.
    - simpl. destruct H as [H|H]; [lia | exact H].
    - cbn [cp_loop_old]. rewrite (no_callback_stop_hd _ Hcb).
      destruct (tol_set && (1 <=? it) && snd (hd (false, false) decisions)); [apply normalise_spec|].
      apply IH; [now apply no_callback_stop_tl|]. right. apply normalise_spec.
  Qed.
  Lemma cp_run_old_normalised tol_set ik all_fixed n decisions s0 :
    no_callback_stop decisions -> ik <> InitUser \/ (0 < n /\ all_fixed = false) ->
    Normalised (cp_run_old St sweep normalise true tol_set ik all_fixed n decisions s0).
  Proof.
    intros Hcb H. unfold cp_run_old.
    assert (Hi : ik <> InitUser -> Normalised (init_state_old St normalise true ik s0)).
    { intros Hik. unfold init_state_old, norm_if. destruct ik; try apply normalise_spec. congruence. }
    destruct all_fixed.
    - destruct H as [H|[_ H]]; [now apply Hi | discriminate].
    - apply cp_loop_old_normalised; [exact Hcb|]. destruct H as [H|[H _]]; [right; now apply Hi | left; exact H].
  Qed.
  (* the repair changed nothing on the paths on which the code was already right *)
  Lemma cp_loop_same nf tol_set fuel : forall it decisions s, no_callback_stop decisions ->
    cp_loop St sweep normalise nf tol_set it fuel decisions s = cp_loop_old St sweep normalise nf tol_set it fuel decisions s.
  Proof.
    induction fuel as [|fuel IH]; intros it decisions s Hcb; [reflexivity|]. cbn [cp_loop cp_loop_old].
    rewrite (no_callback_stop_hd _ Hcb).
    destruct (tol_set && (1 <=? it) && snd (hd (false, false) decisions)); [reflexivity|].
    apply IH. now apply no_callback_stop_tl.
  Qed.
  Lemma cp_run_same nf tol_set ik all_fixed n decisions s0 : no_callback_stop decisions -> ik <> InitUser ->
    cp_run St sweep normalise nf tol_set ik all_fixed n decisions s0 = cp_run_old St sweep normalise nf tol_set ik all_fixed n decisions s0.
  Proof.
    intros Hcb Hik. unfold cp_run, cp_run_old.
    assert (E : init_state_old St normalise nf ik s0 = norm_if St normalise nf s0) by (destruct ik; [reflexivity | reflexivity | congruence]).
    rewrite E. destruct all_fixed; [reflexivity|]. now apply cp_loop_same.
  Qed.
End SkeletonProofs.

(* ghost instance: the state is the single bit "factors are normalised"; a sweep destroys it, cp_normalize restores it *)
Definition ghost_run (nf tol_set : bool) (ik : init_kind) (all_fixed : bool) (n : nat) (decisions : list (bool * bool)) : bool :=
  cp_run bool (fun _ => false) (fun _ => true) nf tol_set ik all_fixed n decisions false.
Definition ghost_run_old (nf tol_set : bool) (ik : init_kind) (all_fixed : bool) (n : nat) (decisions : list (bool * bool)) : bool :=
  cp_run_old bool (fun _ => false) (fun _ => true) nf tol_set ik all_fixed n decisions false.
Definition ghost_run_pinned (nf tol_set : bool) (n : nat) (decisions : list bool) : bool :=
  cp_loop_pinned bool (fun _ => false) (fun _ => true) nf tol_set 0 n decisions true.
Lemma ghost_normalised : forall tol_set ik all_fixed n decisions, ghost_run true tol_set ik all_fixed n decisions = true.
Proof. intros. apply (cp_run_normalised bool (fun _ => false) (fun _ => true) (fun b => b = true)). reflexivity. Qed.
(* the three ways in which the control flow before 3de556b returned un-normalised factors although normalize_factors = True *)
Lemma ghost_old_user_cap0 : forall tol_set decisions, ghost_run_old true tol_set InitUser false 0 decisions = false.
Proof. reflexivity. Qed.
Lemma ghost_old_user_all_fixed : forall tol_set n decisions, ghost_run_old true tol_set InitUser true n decisions = false.
Proof. reflexivity. Qed.
Lemma ghost_old_callback_stop : forall tol_set ik n decisions, ghost_run_old true tol_set ik false (S n) ((true, false) :: decisions) = false.
Proof. reflexivity. Qed.
(* ... and the one before fe25b5c *)
Lemma ghost_pinned_break : ghost_run_pinned true true 2 [false; true] = false.
Proof. reflexivity. Qed.

(* ------------------------------------------------------------------ the skeleton on event traces *)
Lemma ends_normalised_snoc t : ends_normalised (t ++ [EvN]) = true.
Proof. unfold ends_normalised. now rewrite rev_app_distr. Qed.
Lemma any_normalise_app a b : any_normalise (a ++ b) = any_normalise a || any_normalise b.
Proof. unfold any_normalise. apply existsb_app. Qed.
Lemma any_normalise_sweep modes t : any_normalise (trace_sweep false modes t) = any_normalise t.
Proof.
  unfold trace_sweep. rewrite any_normalise_app. replace (any_normalise (flat_map _ modes)) with false; [apply orb_false_r|].
  induction modes as [|m l IH]; [reflexivity|]. simpl. exact IH.
Qed.
(* normalize_factors = True: the returned state is the output of a cp_normalize *)
Lemma trace_run_ends_normalised d tol_set ik n_modes fixed n decisions :
  ends_normalised (trace_run d true tol_set ik n_modes fixed n decisions) = true.
Proof.
  unfold trace_run.
  apply (cp_run_normalised (list ev) _ (fun s => s ++ [EvN]) (fun t => ends_normalised t = true)).
  intros s. apply ends_normalised_snoc.
Qed.
(* normalize_factors = False: cp_normalize is never applied *)
Lemma trace_run_never_normalises d tol_set ik n_modes fixed n decisions :
  any_normalise (trace_run d false tol_set ik n_modes fixed n decisions) = false.
Proof.
  unfold trace_run. simpl andb.
  apply (cp_run_unit_weights (list ev) (trace_sweep false (modes_list d n_modes fixed)) (fun s => s ++ [EvN]) (fun t => any_normalise t = false)).
  - intros s Hs. now rewrite any_normalise_sweep.
  - reflexivity.
Qed.

(* ------------------------------------------------------------------ the two named stopping paths are both reachable and differ *)
Section Exits.
  Variable St : Type.
  Variables (sweep normalise : St -> St).
  Definition step (nf : bool) (s : St) : St := norm_if St normalise nf (sweep s).
  Fixpoint steps (n : nat) (nf : bool) (s : St) : St := match n with O => s | S k => steps k nf (step nf s) end.
  (* cap exit: no test ever fires => exactly n sweeps, each followed by the requested normalisation *)
  Lemma cp_loop_cap_exit nf tol_set n : forall it decisions s,
    Forall (fun d => fst d = false /\ snd d = false) decisions ->
    cp_loop St sweep normalise nf tol_set it n decisions s = steps n nf s.
  Proof.
    induction n as [|n IH]; intros it decisions s H; [reflexivity|].
    cbn [cp_loop steps].
    assert (Hd : hd (false, false) decisions = (false, false) \/ exists a b, hd (false, false) decisions = (a, b) /\ a = false /\ b = false).
    { destruct H as [|[a b] l [Ha Hb] _]; [now left | right; simpl in *; eauto]. }
    assert (E : fst (hd (false, false) decisions) = false /\ snd (hd (false, false) decisions) = false).
    { destruct Hd as [->|(a & b & -> & -> & ->)]; split; reflexivity. }
    destruct E as [E1 E2]. rewrite E1, E2, andb_false_r. apply IH. destruct H; [constructor | assumption].
  Qed.
  (* tol = 0 (falsy): the convergence test is never evaluated, whatever the decisions say *)
  Lemma cp_loop_tol_unset nf n : forall it decisions s, no_callback_stop decisions ->
    cp_loop St sweep normalise nf false it n decisions s = steps n nf s.
  Proof.
    induction n as [|n IH]; intros it decisions s H; [reflexivity|].
    cbn [cp_loop steps]. rewrite (no_callback_stop_hd _ H). cbn [andb]. apply IH. now apply no_callback_stop_tl.
  Qed.
  (* convergence exit: the test fires as soon as it is evaluated (iteration 1) => exactly two sweeps, whatever the cap >= 2 *)
  Lemma cp_loop_convergence_exit nf n d0 decisions s : fst d0 = false ->
    fst (hd (false, false) decisions) = false -> snd (hd (false, false) decisions) = true ->
    cp_loop St sweep normalise nf true 0 (S (S n)) (d0 :: decisions) s = step nf (step nf s).
  Proof. intros H0 H1 H2. cbn [cp_loop hd tl]. rewrite H0. cbn [andb Nat.leb]. rewrite H1, H2. reflexivity. Qed.
End Exits.
