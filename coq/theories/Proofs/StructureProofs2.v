(* C08 -- more structure lemmas: tensor_train_matrix, tensor_ring_als, parafac2, CMTF, the Tucker / CP validators. *)
From Coq Require Import List Arith ZArith QArith Bool Lia.
From TLV Require Import Base.Shape Base.Tensor Model.Structure Proofs.StructureProofs.
Import ListNotations.
Local Open Scope nat_scope.

Lemma combine_nth_lt {A B} (la : list A) : forall (lb : list B) k da db,
  k < length la -> k < length lb -> nth k (combine la lb) (da, db) = (nth k la da, nth k lb db).
Proof.
  induction la as [|a la IH]; intros lb k da db Ha Hb; [simpl in Ha; lia|].
  destruct lb as [|b lb]; [simpl in Hb; lia|]. destruct k; [reflexivity|]. simpl. apply IH; simpl in *; lia.
Qed.
Lemma nth_map_combine {A B C} (f : A * B -> C) (la : list A) (lb : list B) k da db dc :
  k < length la -> k < length lb -> nth k (map f (combine la lb)) dc = f (nth k la da, nth k lb db).
Proof.
  intros Ha Hb. rewrite nth_indep with (d' := f (da, db)) by (rewrite map_length, combine_length; lia).
  rewrite (map_nth f). now rewrite combine_nth_lt by lia.
Qed.
Lemma nth_skipn {A} (l : list A) n k d : nth k (skipn n l) d = nth (n + k) l d.
Proof. revert l. induction n; intros l; [reflexivity|]. destruct l; [destruct k; reflexivity|]. simpl. apply IHn. Qed.
Lemma nth_firstn {A} (l : list A) n k d : k < n -> nth k (firstn n l) d = nth k l d.
Proof. revert l k. induction n; intros l k H; [lia|]. destruct l; [destruct k; reflexivity|]. destruct k; [reflexivity|]. simpl. apply IHn. lia. Qed.

(* ------------------------------------------------------------------ tensor_train_matrix *)
(* n cores of order 4: core k = (r_k, in_k, out_k, r_k+1), r_0 = r_n = 1 *)
Lemma tensor_train_matrix_structure tshape spec c out : tensor_train_matrix tshape spec c = Ok out ->
  let n := length tshape / 2 in
  length tshape = 2 * n /\ 1 <= n /\ length out = n /\
  exists rs, length rs = S n /\ hd 0 rs = 1 /\ last rs 0 = 1 /\
  forall k, k < n -> nth k out [] = [nth k rs 0; nth k tshape 0; nth (n + k) tshape 0; nth (S k) rs 0].
Proof.
  unfold tensor_train_matrix. cbv zeta. remember (length tshape / 2) as n eqn:Hdefn.
  destruct (negb (n * 2 =? length tshape)) eqn:E; [discriminate|]. apply negb_false_iff, Nat.eqb_eq in E.
  assert (Hf : length (firstn n tshape) = n) by (rewrite firstn_length; lia).
  assert (Hs : length (skipn n tshape) = n) by (rewrite skipn_length; lia).
  destruct (n =? 1) eqn:E1.
  - apply Nat.eqb_eq in E1. intros H; injection H as <-.
    split; [lia|]. split; [lia|]. split; [simpl; lia|]. exists [1; 1]. rewrite E1. repeat split; try reflexivity.
    intros k Hk. assert (k = 0) by lia. subst k. cbn [nth].
    destruct tshape as [|a [|b t]]; simpl in E; try lia. reflexivity.
  - set (sh := map (fun p => fst p * snd p) (combine (firstn n tshape) (skipn n tshape))).
    destruct (tensor_train sh spec c) as [cores|] eqn:Et; [|discriminate]. simpl. intros H; injection H as <-.
    destruct (tensor_train_structure _ _ _ _ Et) as (req & _ & Hst). cbv zeta in Hst.
    destruct Hst as (Hlen & Hmodes & Hrl & Hhd & Hlast & Hnth & _).
    assert (Hsh : length sh = n) by (unfold sh; rewrite map_length, combine_length; lia).
    rewrite Hsh in *.
    assert (Hn : 1 <= n).
    { destruct n; [|lia]. destruct cores; [|discriminate]. unfold tensor_train in Et.
      destruct (validate_tt_rank sh spec false RRound true c); [|discriminate]. simpl in Et.
      destruct sh; [discriminate | discriminate]. }
    split; [lia|]. split; [exact Hn|]. split; [rewrite map_length, combine_length, combine_length; lia|].
    exists (core_ranks cores). split; [exact Hrl|]. split; [exact Hhd|]. split; [exact Hlast|].
    intros k Hk.
    rewrite (nth_map_combine _ cores (combine (firstn n tshape) (skipn n tshape)) k [] (0, 0)) by (rewrite ?combine_length; lia).
    rewrite combine_nth_lt by lia. rewrite (Hnth k Hk). cbn [nth fst snd].
    rewrite nth_firstn by exact Hk. rewrite nth_skipn. reflexivity.
Qed.

(* ------------------------------------------------------------------ tensor_ring_als *)
Lemma tensor_ring_als_structure shape spec out : tensor_ring_als shape spec = Ok out ->
  exists rank, validate_tr_rank shape spec RRound = Ok rank /\
  length rank = S (length shape) /\ hd 0 rank = last rank 0 /\ length out = length shape /\
  forall k, k < length shape -> nth k out [] = [nth k rank 0; nth k shape 0; nth (S k) rank 0].
Proof.
  unfold tensor_ring_als. destruct (validate_tr_rank shape spec RRound) as [rank|] eqn:E; [|discriminate]. simpl.
  intros H; injection H as <-. exists rank. destruct (validate_tr_rank_boundary _ _ _ _ E) as [H1 H2].
  split; [reflexivity|]. split; [exact H1|]. split; [exact H2|]. split; [now rewrite map_length, seq_length|].
  intros k Hk. rewrite nth_indep with (d' := (fun i => [nth i rank 0; nth i shape 0; nth (S i) rank 0]) 0) by (now rewrite map_length, seq_length).
  rewrite (map_nth (fun i => [nth i rank 0; nth i shape 0; nth (S i) rank 0])). now rewrite seq_nth.
Qed.

(* ------------------------------------------------------------------ parafac2: one projection per slice *)
Lemma parafac2_structure slices r out : parafac2 slices r = Ok out ->
  exists projections, out = [r] :: [length slices; r] :: [r; r] :: [snd (hd (0, 0) slices); r] :: projections /\
  length projections = length slices /\
  (forall i, i < length slices -> nth i projections [] = [fst (nth i slices (0, 0)); r]) /\
  r <= snd (hd (0, 0) slices).
Proof.
  unfold parafac2. destruct (snd (hd (0, 0) slices) <? r) eqn:E; [discriminate|]. apply Nat.ltb_ge in E.
  destruct (negb (forallb _ slices)); [discriminate|]. intros H; injection H as <-.
  exists (map (fun p => [fst p; r]) slices). split; [reflexivity|]. split; [apply map_length|]. split; [|exact E].
  intros i Hi. rewrite nth_indep with (d' := (fun p => [fst p; r]) (0, 0)) by (now rewrite map_length).
  now rewrite (map_nth (fun p : nat * nat => [fst p; r])).
Qed.

(* ------------------------------------------------------------------ CMTF: tensor part and matrix part share the rank and the first mode *)
Lemma cmtf_structure shape3 m spec out : cmtf shape3 m spec = Ok out ->
  exists r, validate_cp_rank shape3 spec RRound = Ok r /\
  out = ([r] :: map (fun s => [s; r]) shape3) ++ [[r]; [hd 0 shape3; r]; [m; r]].
Proof.
  unfold cmtf. destruct (validate_cp_rank shape3 spec RRound) as [r|]; [|discriminate]. simpl.
  intros H; injection H as <-. exists r. split; reflexivity.
Qed.

(* ------------------------------------------------------------------ validators *)
Lemma validate_tucker_rank_length shape spec rd c r : validate_tucker_rank shape spec rd c = Ok r ->
  match spec with RList l => r = l | _ => length r = length shape end.
Proof.
  unfold validate_tucker_rank. destruct spec; intros H; injection H as <-;
    [apply repeat_length | reflexivity | now rewrite frac_ranks_length, map_length].
Qed.
Lemma validate_tucker_rank_frac_pos shape q rd c r : validate_tucker_rank shape (RFrac q) rd c = Ok r ->
  Forall (fun x => 1 <= x) r.
Proof. unfold validate_tucker_rank. intros H; injection H as <-. apply frac_ranks_pos. Qed.
Lemma validate_cp_rank_int shape r rd : validate_cp_rank shape (RInt r) rd = Ok r.
Proof. reflexivity. Qed.

(* tensor_train: when no clipping is needed the achieved ranks ARE the requested ones *)
Lemma tt_ranks_exact shape : forall rk ranks, 2 <= length shape ->
  (forall k, S k < length shape -> nth k ranks 0 <= Nat.min (nth k (rk :: ranks) 0 * nth k shape 0) (prod (skipn (S k) shape))) ->
  forall k, S k < length shape -> nth k (tt_ranks rk shape ranks) 0 = nth k ranks 0.
Proof.
  induction shape as [|s rest IH]; intros rk ranks Hl Hle k Hk; [simpl in Hl; lia|].
  destruct (list_eq_dec Nat.eq_dec rest []) as [->|Hr]; [simpl in Hk; lia|].
  rewrite tt_ranks_cons by exact Hr.
  assert (H0 : tt_cur rk s rest ranks = hd 0 ranks).
  { unfold tt_cur. specialize (Hle 0). cbn [nth skipn] in Hle.
    assert (Hh : hd 0 ranks = nth 0 ranks 0) by (destruct ranks; reflexivity). rewrite Hh.
    assert (1 < length (s :: rest)) by (destruct rest; [congruence | simpl; lia]). specialize (Hle H). lia. }
  destruct k as [|k]; [cbn [nth]; rewrite H0; destruct ranks; reflexivity|].
  cbn [nth]. rewrite H0.
  assert (Hl2 : 2 <= length rest) by (simpl in Hk; lia).
  rewrite (IH (hd 0 ranks) (tl ranks) Hl2).
  - destruct ranks; [destruct k|]; reflexivity.
  - intros j Hj. specialize (Hle (S j)). cbn [nth skipn] in Hle.
    assert (E1 : nth j (tl ranks) 0 = nth (S j) ranks 0) by (destruct ranks; [destruct j|]; reflexivity).
    assert (E2 : nth j (hd 0 ranks :: tl ranks) 0 = nth j ranks 0) by (destruct ranks; [destruct j as [|[|]]|]; reflexivity).
    rewrite E1, E2. apply Hle. simpl. lia.
  - simpl in Hk. lia.
Qed.

(* ------------------------------------------------------------------ tensor_ring: the first computed core has exactly the requested ranks *)
Lemma nth_removelast {A} (l : list A) d : forall k, S k < length l -> nth k (removelast l) d = nth k l d.
Proof.
  induction l as [|a l IH]; intros k Hk; [simpl in Hk; lia|]. destruct l as [|b l]; [simpl in Hk; lia|].
  change (removelast (a :: b :: l)) with (a :: removelast (b :: l)). destruct k; [reflexivity|]. cbn [nth]. apply IH. simpl in *. lia.
Qed.
Lemma removelast_length {A} (l : list A) : length (removelast l) = length l - 1.
Proof.
  induction l as [|a l IH]; [reflexivity|]. destruct l as [|b l]; [reflexivity|].
  change (removelast (a :: b :: l)) with (a :: removelast (b :: l)). cbn [length] in *. lia.
Qed.
Lemma nth_rot_back {A} (l : list A) m d : m < length l -> nth m (rot (length l - m) l) d = hd d l.
Proof.
  intros H. unfold rot. rewrite app_nth2; rewrite skipn_length; [|lia].
  replace (m - (length l - (length l - m))) with 0 by lia.
  destruct l as [|a l]; [simpl in H; lia|]. destruct (length (a :: l) - m) eqn:E; [cbn [length] in *; lia | reflexivity].
Qed.
Lemma hd_nth0 {A} (l : list A) d : hd d l = nth 0 l d.
Proof. destruct l; reflexivity. Qed.

Lemma tensor_ring_first_core shape spec mode cores rank :
  tensor_ring shape spec mode = Ok cores -> validate_tr_rank shape spec RRound = Ok rank ->
  nth mode cores [] = [nth mode rank 0; nth mode shape 0; nth (S mode) rank 0].
Proof.
  unfold tensor_ring. intros H Hr. rewrite Hr in H. simpl in H.
  destruct (validate_tr_rank_boundary _ _ _ _ Hr) as [Hlen Hb].
  destruct (length shape <=? mode) eqn:El; [discriminate|]. apply Nat.leb_gt in El.
  destruct (tr_cores (rot mode shape) (if mode =? 0 then rank else rot_ring mode rank)) as [cs|] eqn:E; [|discriminate].
  simpl in H. injection H as <-.
  destruct (tr_cores_structure _ _ _ E) as (H1 & H2 & _ & H4 & H5). rewrite rot_length in H1.
  rewrite <- H1 at 1. rewrite nth_rot_back by lia.
  (* shape of the head core *)
  assert (Hm : nth 1 (hd [] cs) 0 = nth mode shape 0).
  { assert (Hcm : nth 0 (core_modes cs) 0 = nth 0 (rot mode shape) 0) by (now rewrite H2).
    unfold core_modes in Hcm. destruct cs as [|c0 cs']; [simpl in H1; lia|]. cbn [map nth hd] in *. rewrite Hcm.
    unfold rot. rewrite app_nth1 by (rewrite skipn_length; lia). rewrite nth_skipn. f_equal. lia. }
  (* the head core is a triple *)
  assert (H3 : exists a b c, hd [] cs = [a; b; c]).
  { unfold tr_cores in E. destruct (rot mode shape) as [|s0 rest]; [discriminate|].
    destruct (if mode =? 0 then rank else rot_ring mode rank) as [|r0 [|r1 rks]]; [discriminate | discriminate |].
    destruct rest as [|s1 rest']; [discriminate|].
    destruct (Nat.min s0 (prod (s1 :: rest')) <? r0 * r1); [discriminate|]. injection E as <-. simpl. eauto. }
  destruct H3 as (a & b & c & Hc). rewrite Hc in *. cbn [nth] in H4, H5, Hm. subst a b c.
  assert (Hrk : hd 0 (if mode =? 0 then rank else rot_ring mode rank) = nth mode rank 0 /\
                nth 1 (if mode =? 0 then rank else rot_ring mode rank) 0 = nth (S mode) rank 0).
  { destruct (mode =? 0) eqn:E0.
    - apply Nat.eqb_eq in E0. subst mode. split; [apply hd_nth0 | reflexivity].
    - unfold rot_ring. assert (Hrl : length (removelast rank) = length shape) by (rewrite removelast_length; lia).
      split.
      + rewrite hd_nth0. rewrite app_nth1 by (rewrite skipn_length; lia). rewrite nth_skipn. rewrite Nat.add_0_r. apply nth_removelast. lia.
      + destruct (Nat.eq_dec (S mode) (length shape)) as [Ee|Ene].
        * rewrite app_nth2; rewrite skipn_length; [|lia]. replace (1 - (length (removelast rank) - mode)) with 0 by lia.
          rewrite nth_firstn by lia. rewrite (nth_last rank 0 (S mode)) by lia. rewrite <- Hb. symmetry. apply hd_nth0.
        * rewrite app_nth1 by (rewrite skipn_length; lia). rewrite nth_skipn. rewrite Nat.add_1_r. apply nth_removelast. lia. }
  destruct Hrk as [Hk0 Hk1]. now rewrite Hk0, Hk1.
Qed.

(* ------------------------------------------------------------------ tensor_train: no clipping needed => the TT ranks are exactly the validated request *)
Lemma tensor_train_exact_ranks shape spec c cores requested :
  tensor_train shape spec c = Ok cores -> validate_tt_rank shape spec false RRound true c = Ok requested ->
  (forall k, S k < length shape ->
     nth (S k) requested 0 <= Nat.min (nth k requested 0 * nth k shape 0) (prod (skipn (S k) shape))) ->
  core_ranks cores = requested.
Proof.
  unfold tensor_train. intros H Hv Hle. rewrite Hv in H. simpl in H.
  destruct (length shape <=? 1) eqn:El; [discriminate|]. apply Nat.leb_gt in El. injection H as <-.
  assert (Hne : shape <> []) by (destruct shape; [simpl in El; lia | discriminate]).
  destruct (validate_tt_rank_boundary _ _ _ _ _ _ _ Hne Hv) as (Hlen & Hhd & Hlast).
  rewrite core_ranks_tt by exact Hne.
  destruct requested as [|r0 rk]; [simpl in Hlen; lia|]. cbn [hd tl]. f_equal.
  apply nth_ext with (d := 0) (d' := 0); [rewrite tt_ranks_length; simpl in Hlen; lia|].
  intros k Hk. rewrite tt_ranks_length in Hk.
  destruct (Nat.eq_dec (S k) (length shape)) as [Ee|Ene].
  - rewrite (nth_last (tt_ranks r0 shape rk) 0 k) by (rewrite tt_ranks_length; lia).
    rewrite tt_ranks_last by exact Hne.
    assert (Hl : last (r0 :: rk) 0 = last rk 0) by (apply last_cons_ne; destruct rk; [simpl in Hlen; lia | discriminate]).
    rewrite (nth_last rk 0 k) by (simpl in Hlen; lia). rewrite <- Hl. now rewrite Hlast.
  - apply tt_ranks_exact; [lia | | lia]. intros j Hj. specialize (Hle j Hj). cbn [nth] in Hle. exact Hle.
Qed.

(* ------------------------------------------------------------------ normalisation contract of non_negative_tucker(_hals) and parafac2 *)
Section Skeleton2Proofs.
  Variable St : Type.
  Variables (sweep normalise : St -> St).
  Variable Normalised : St -> Prop.
  Hypothesis normalise_spec : forall s, Normalised (normalise s).

  (* Tucker drivers before 1c1a684: normalised when at least one sweep ran and the run did not stop by convergence *)
  Definition no_convergence_exit (tol_set : bool) (decisions : list bool) : Prop := tol_set = false \/ Forall (fun d => d = false) decisions.
  Lemma no_conv_hd tol_set it ds : no_convergence_exit tol_set ds -> tol_set && (2 <=? it) && hd false ds = false.
  Proof. intros [->|H]; [reflexivity|]. destruct H as [|d l Hd _]; simpl; [now rewrite andb_false_r | subst d; now rewrite andb_false_r]. Qed.
  Lemma no_conv_tl tol_set ds : no_convergence_exit tol_set ds -> no_convergence_exit tol_set (tl ds).
  Proof. intros [H|H]; [now left | right]. destruct H; [constructor | assumption]. Qed.
  Lemma nt_loop_old_normalised tol_set fuel : forall it decisions s, no_convergence_exit tol_set decisions ->
    0 < fuel \/ Normalised s -> Normalised (nt_loop_old St sweep normalise true tol_set it fuel decisions s).
  Proof.
    induction fuel as [|fuel IH]; intros it decisions s Hc H.
    - destruct H as [H|H]; [lia | exact H].
    - cbn [nt_loop_old]. rewrite (no_conv_hd _ it _ Hc). apply IH; [now apply no_conv_tl|]. right. apply normalise_spec.
  Qed.
  Lemma nt_run_old_normalised tol_set n decisions s0 : no_convergence_exit tol_set decisions -> 0 < n ->
    Normalised (nt_run_old St sweep normalise true tol_set n decisions s0).
  Proof. intros Hc Hn. unfold nt_run_old. apply nt_loop_old_normalised; [exact Hc | now left]. Qed.
  (* caps 1 and 2 can never take the convergence exit (the test needs iteration > 1) *)
  Lemma nt_run_old_normalised_small_cap tol_set n decisions s0 : 0 < n -> n <= 2 ->
    Normalised (nt_run_old St sweep normalise true tol_set n decisions s0).
  Proof.
    intros H1 H2. unfold nt_run_old. destruct n as [|[|[|n]]]; try lia; cbn [nt_loop_old Nat.leb]; rewrite ?andb_false_r; cbn [andb]; apply normalise_spec.
  Qed.

  (* parafac2 before 1c1a684: normalised as soon as one sweep ran, on both exits *)
  Lemma p2_loop_normalised tol_set fuel : forall it decisions s,
    0 < fuel \/ Normalised s -> Normalised (p2_loop St sweep normalise true tol_set it fuel decisions s).
  Proof.
    induction fuel as [|fuel IH]; intros it decisions s H.
    - destruct H as [H|H]; [lia | exact H].
    - cbn [p2_loop]. unfold norm_if. destruct (tol_set && (1 <=? it) && hd false decisions); [apply normalise_spec|].
      apply IH. right. apply normalise_spec.
  Qed.
  Lemma p2_run_old_normalised tol_set n decisions s0 : 0 < n ->
    Normalised (p2_run_old St sweep normalise true tol_set n decisions s0).
  Proof. intros Hn. unfold p2_run_old. apply p2_loop_normalised. now left. Qed.

  (* the code as it is: every exit, every cap *)
  Lemma nt_loop_normalised tol_set fuel : forall it decisions s,
    Normalised s -> Normalised (nt_loop St sweep normalise true tol_set it fuel decisions s).
  Proof.
    induction fuel as [|fuel IH]; intros it decisions s H; [exact H|]. cbn [nt_loop]. unfold norm_if.
    destruct (tol_set && (2 <=? it) && hd false decisions); [apply normalise_spec|]. apply IH. apply normalise_spec.
  Qed.
  Lemma nt_run_normalised tol_set n decisions s0 : Normalised (nt_run St sweep normalise true tol_set n decisions s0).
  Proof. unfold nt_run. apply nt_loop_normalised. apply normalise_spec. Qed.
  Lemma p2_run_normalised tol_set n decisions s0 : Normalised (p2_run St sweep normalise true tol_set n decisions s0).
  Proof. unfold p2_run. apply p2_loop_normalised. right. apply normalise_spec. Qed.
  (* with normalize_factors = False the repair is the identity change *)
  Lemma nt_loop_same_nf_false tol_set fuel : forall it decisions s,
    nt_loop St sweep normalise false tol_set it fuel decisions s = nt_loop_old St sweep normalise false tol_set it fuel decisions s.
  Proof.
    induction fuel as [|fuel IH]; intros; [reflexivity|]. cbn [nt_loop_old nt_loop norm_if].
    destruct (tol_set && (2 <=? it) && hd false decisions); [reflexivity | apply IH].
  Qed.
End Skeleton2Proofs.

Definition ghost_nt_old (tol_set : bool) (n : nat) (decisions : list bool) : bool :=
  nt_run_old bool (fun _ => false) (fun _ => true) true tol_set n decisions false.
Definition ghost_p2_old (tol_set : bool) (n : nat) (decisions : list bool) : bool :=
  p2_run_old bool (fun _ => false) (fun _ => true) true tol_set n decisions false.
Lemma ghost_nt_old_cap0 : forall tol_set decisions, ghost_nt_old tol_set 0 decisions = false.
Proof. reflexivity. Qed.
Lemma ghost_nt_old_convergence : forall n, ghost_nt_old true (S (S (S n))) [false; false; true] = false.
Proof. reflexivity. Qed.
Lemma ghost_p2_old_cap0 : forall tol_set decisions, ghost_p2_old tol_set 0 decisions = false.
Proof. reflexivity. Qed.

(* the instance compared with the implementation: the returned state is the output of a (cp_ / tucker_)normalize *)
Lemma trace_run2_ends_normalised d tol_set n decisions : ends_normalised (trace_run2 d true tol_set n decisions) = true.
Proof.
  unfold trace_run2. destruct d.
  - apply (nt_run_normalised (list ev) _ (fun s => s ++ [EvN]) (fun t => ends_normalised t = true)). intros s. apply ends_normalised_snoc.
  - apply (nt_run_normalised (list ev) _ (fun s => s ++ [EvN]) (fun t => ends_normalised t = true)). intros s. apply ends_normalised_snoc.
  - apply (p2_run_normalised (list ev) _ (fun s => s ++ [EvN]) (fun t => ends_normalised t = true)). intros s. apply ends_normalised_snoc.
Qed.

(* after 03a63dd: validate_tt_rank(allow_overparametrization=False) predicts exactly the ranks TT-SVD achieves *)
Lemma validate_tt_rank_clip shape spec constant rd c :
  validate_tt_rank shape spec constant rd false c = rbind (validate_tt_rank shape spec constant rd true c) (fun r => Ok (tt_clip shape r)).
Proof. unfold validate_tt_rank. match goal with |- rbind ?X _ = _ => destruct X end; reflexivity. Qed.
Lemma tensor_train_ranks_predicted shape spec c cores r :
  tensor_train shape spec c = Ok cores -> validate_tt_rank shape spec false RRound false c = Ok r -> core_ranks cores = r.
Proof.
  intros H Hv. rewrite validate_tt_rank_clip in Hv. unfold tensor_train in H.
  destruct (validate_tt_rank shape spec false RRound true c) as [rank|] eqn:E; [|discriminate].
  simpl in H, Hv. injection Hv as <-.
  destruct (length shape <=? 1) eqn:El; [discriminate|]. apply Nat.leb_gt in El. injection H as <-.
  assert (Hne : shape <> []) by (destruct shape; [simpl in El; lia | discriminate]).
  destruct (validate_tt_rank_boundary _ _ _ _ _ _ _ Hne E) as (_ & Hhd & _).
  rewrite core_ranks_tt by exact Hne. unfold tt_clip. now rewrite Hhd.
Qed.
