(* C08 -- tensor_ring, any start mode: EVERY core's ranks are bounded by the validated request (cyclically indexed);
   correctness of the rounding model used by the rank validators. *)
From Coq Require Import List Arith ZArith QArith Qround Bool Lia Lqa.
From TLV Require Import Base.Shape Base.Tensor Model.Structure Proofs.StructureProofs Proofs.StructureProofs2.
Import ListNotations.
Local Open Scope nat_scope.

Definition lefts (cs : list (list nat)) : list nat := map (fun c => nth 0 c 0) cs.
Definition rights (cs : list (list nat)) : list nat := map (fun c => nth 2 c 0) cs.

(* ---------- Forall2 under rotation *)
Lemma Forall2_firstn {A B} (R : A -> B -> Prop) k : forall a b, Forall2 R a b -> Forall2 R (firstn k a) (firstn k b).
Proof. induction k; intros a b H; [constructor|]. destruct H; simpl; constructor; auto. Qed.
Lemma Forall2_skipn {A B} (R : A -> B -> Prop) k : forall a b, Forall2 R a b -> Forall2 R (skipn k a) (skipn k b).
Proof. induction k; intros a b H; [exact H|]. destruct H; simpl; [constructor | auto]. Qed.
Lemma Forall2_rot {A B} (R : A -> B -> Prop) k a b : Forall2 R a b -> Forall2 R (rot k a) (rot k b).
Proof. intros H. unfold rot. apply Forall2_app; [now apply Forall2_skipn | now apply Forall2_firstn]. Qed.
Lemma rot_0 {A} (l : list A) : rot 0 l = l.
Proof. unfold rot. simpl. apply app_nil_r. Qed.

(* ---------- a closed chain: the right ranks are the left ranks rotated by one *)
Lemma chain_from_rights l : forall a, chain_from a l -> map (fun c => nth 2 c 0) (removelast (a :: l)) = lefts l.
Proof.
  induction l as [|b l IH]; intros a H; [reflexivity|]. destruct H as [H1 H2].
  change (removelast (a :: b :: l)) with (a :: removelast (b :: l)). cbn [map lefts]. unfold link in H1. rewrite H1. f_equal. now apply IH.
Qed.
Lemma removelast_app_single {A} (l : list A) x : removelast (l ++ [x]) = l.
Proof. rewrite removelast_app by discriminate. simpl. apply app_nil_r. Qed.
Lemma cyc_chain_rights l : cyc_chain l -> rights l = rot 1 (lefts l).
Proof.
  destruct l as [|a l]; [reflexivity|]. unfold cyc_chain, chain. cbn [hd app]. intros H.
  pose proof (chain_from_rights _ _ H) as E.
  change (a :: l ++ [a]) with ((a :: l) ++ [a]) in E. rewrite removelast_app_single in E.
  unfold rights. rewrite E. unfold lefts, rot. rewrite map_app. simpl. reflexivity.
Qed.

(* ---------- the clipping recursion never exceeds the request *)
Lemma tr_mid_lefts shape : forall r0 rk ranks, shape <> [] -> length shape <= S (length ranks) ->
  exists curs, lefts (tr_mid r0 rk shape ranks) = rk :: curs /\ Forall2 le curs (firstn (length shape - 1) ranks).
Proof.
  induction shape as [|s rest IH]; intros r0 rk ranks Hn Hl; [congruence|].
  destruct (list_eq_dec Nat.eq_dec rest []) as [->|Hr]; [exists []; split; [reflexivity | constructor]|].
  rewrite tr_mid_cons by exact Hr.
  destruct ranks as [|r ranks]; [destruct rest; [congruence | simpl in Hl; lia]|].
  destruct (IH r0 (tr_cur r0 rk s rest (r :: ranks)) ranks Hr ltac:(simpl in Hl |- *; lia)) as (curs & E & H2).
  exists (tr_cur r0 rk s rest (r :: ranks) :: curs). split.
  - cbn [tl]. set (X := tr_mid r0 (tr_cur r0 rk s rest (r :: ranks)) rest ranks) in *.
    assert (Ecs : lefts ([rk; s; tr_cur r0 rk s rest (r :: ranks)] :: X) = rk :: lefts X) by reflexivity. now rewrite Ecs, E.
  - assert (Hlen : length (s :: rest) - 1 = S (length rest - 1)) by (destruct rest; [congruence | simpl; lia]).
    rewrite Hlen. cbn [firstn]. constructor; [unfold tr_cur; simpl; lia | exact H2].
Qed.

Lemma tr_cores_eq s0 s1 rest r0 r1 rks : tr_cores (s0 :: s1 :: rest) (r0 :: r1 :: rks) =
  if Nat.min s0 (prod (s1 :: rest)) <? r0 * r1 then Err else Ok ([r0; s0; r1] :: tr_mid r0 r1 (s1 :: rest) rks).
Proof. reflexivity. Qed.
(* in the rotated frame: rank' = L ++ [hd L] *)
Lemma tr_cores_lefts shape L cs : length L = length shape -> tr_cores shape (L ++ [hd 0 L]) = Ok cs -> Forall2 le (lefts cs) L.
Proof.
  intros Hl H. destruct shape as [|s0 rest]; [discriminate|].
  destruct L as [|r0 Lt]; [discriminate|]. cbn [hd app] in H.
  destruct Lt as [|r1 Lt']; [destruct rest; [discriminate | simpl in Hl; lia]|]. cbn [app] in H.
  destruct rest as [|s1 rest']; [discriminate|]. rewrite tr_cores_eq in H.
  destruct (Nat.min s0 (prod (s1 :: rest')) <? r0 * r1); [discriminate|].
  assert (Hcs : cs = [r0; s0; r1] :: tr_mid r0 r1 (s1 :: rest') (Lt' ++ [r0])) by congruence. subst cs. clear H.
  destruct (tr_mid_lefts (s1 :: rest') r0 r1 (Lt' ++ [r0]) ltac:(discriminate)) as (curs & E & H2).
  { rewrite app_length. simpl in *. lia. }
  set (X := tr_mid r0 r1 (s1 :: rest') (Lt' ++ [r0])) in *.
  assert (Ecs : lefts ([r0; s0; r1] :: X) = r0 :: lefts X) by reflexivity. rewrite Ecs, E. constructor; [lia|]. constructor; [lia|].
  assert (Hf : firstn (length (s1 :: rest') - 1) (Lt' ++ [r0]) = Lt').
  { assert (length (s1 :: rest') - 1 = length Lt') by (simpl in *; lia). rewrite H. rewrite firstn_app, Nat.sub_diag, firstn_all. simpl. apply app_nil_r. }
  now rewrite Hf in H2.
Qed.

(* the rotated rank list handed to the recursion is  rot m L ++ [hd (rot m L)]  with L = the n cyclic ranks *)
Lemma removelast_snoc {A} (l : list A) d : l <> [] -> removelast l ++ [last l d] = l.
Proof. intros H. symmetry. now apply app_removelast_last. Qed.
Lemma rank_as_cycle rank : rank <> [] -> hd 0 rank = last rank 0 -> 2 <= length rank ->
  rank = removelast rank ++ [hd 0 (removelast rank)].
Proof.
  intros Hne Hb Hl. rewrite <- (removelast_snoc rank 0 Hne) at 1. f_equal. f_equal.
  destruct rank as [|a [|b t]]; simpl in Hl; try lia. change (removelast (a :: b :: t)) with (a :: removelast (b :: t)). simpl in *. congruence.
Qed.
Lemma rot_ring_as_cycle m rank : m < length rank - 1 -> rot_ring m rank = rot m (removelast rank) ++ [hd 0 (rot m (removelast rank))].
Proof.
  intros Hm. unfold rot_ring, rot. rewrite <- app_assoc. f_equal.
  assert (Hrl : length (removelast rank) = length rank - 1) by apply removelast_length.
  assert (Hhd : hd 0 (skipn m (removelast rank) ++ firstn m (removelast rank)) = nth m rank 0).
  { rewrite hd_nth0. rewrite app_nth1 by (rewrite skipn_length; lia). rewrite nth_skipn, Nat.add_0_r. apply nth_removelast. lia. }
  rewrite Hhd. clear Hhd.
  revert m Hm Hrl. induction rank as [|a rank IH]; intros m Hm Hrl; [simpl in Hm; lia|].
  destruct rank as [|b rank]; [simpl in Hm; lia|]. change (removelast (a :: b :: rank)) with (a :: removelast (b :: rank)).
  destruct m as [|m]; [reflexivity|]. cbn [firstn nth app]. f_equal. apply IH; [simpl in *; lia | apply removelast_length].
Qed.

(* ---------- main theorem: every core of tensor_ring, for every start mode *)
Lemma tensor_ring_ranks_le shape spec mode cores rank :
  tensor_ring shape spec mode = Ok cores -> validate_tr_rank shape spec RRound = Ok rank ->
  Forall2 le (lefts cores) (removelast rank) /\ Forall2 le (rights cores) (tl rank).
Proof.
  intros H Hr. pose proof H as Hfull. unfold tensor_ring in H. rewrite Hr in H. simpl in H.
  destruct (validate_tr_rank_boundary _ _ _ _ Hr) as [Hlen Hb].
  destruct (length shape <=? mode) eqn:El; [discriminate|]. apply Nat.leb_gt in El.
  destruct (tr_cores (rot mode shape) (if mode =? 0 then rank else rot_ring mode rank)) as [cs|] eqn:E; [|discriminate].
  simpl in H. injection H as <-.
  set (L := removelast rank). assert (HL : length L = length shape) by (unfold L; rewrite removelast_length; lia).
  assert (Hne : rank <> []) by (destruct rank; [simpl in Hlen; lia | discriminate]).
  assert (Ecyc : (if mode =? 0 then rank else rot_ring mode rank) = rot mode L ++ [hd 0 (rot mode L)]).
  { destruct (mode =? 0) eqn:E0.
    - apply Nat.eqb_eq in E0. subst mode. rewrite rot_0. apply rank_as_cycle; [exact Hne | exact Hb | lia].
    - apply rot_ring_as_cycle. lia. }
  rewrite Ecyc in E.
  assert (Hl : Forall2 le (lefts cs) (rot mode L)) by (apply (tr_cores_lefts (rot mode shape)); [now rewrite !rot_length | exact E]).
  assert (Hlefts : Forall2 le (lefts (rot (length shape - mode) cs)) L).
  { unfold lefts in *. rewrite map_rot. replace L with (rot (length L - mode) (rot mode L)) by (apply rot_rot; lia).
    rewrite HL. now apply Forall2_rot. }
  split; [exact Hlefts|].
  destruct (tensor_ring_structure _ _ _ _ Hfull) as (_ & _ & Hc & _).
  rewrite (cyc_chain_rights _ Hc).
  replace (tl rank) with (rot 1 L).
  - now apply Forall2_rot.
  - rewrite (rank_as_cycle rank Hne Hb ltac:(lia)) at 1. fold L. destruct L as [|a L']; [simpl in HL; lia|]. reflexivity.
Qed.

(* ------------------------------------------------------------------ correctness of the rounding model of the rank validators *)
Local Open Scope Q_scope.
(* np.round on an exact rational: the result is within 1/2 of x, and on a tie it is even -- this characterises round-half-to-even *)
Lemma round_half_even_spec x : let z := round_half_even x in
  (inject_Z z - (1 # 2) <= x /\ x <= inject_Z z + (1 # 2)) /\
  ((x == inject_Z z - (1 # 2) \/ x == inject_Z z + (1 # 2)) -> Z.even z = true).
Proof.
  cbv zeta. unfold round_half_even. set (f := Qfloor x).
  assert (H1 : inject_Z f <= x) by apply Qfloor_le.
  assert (Hi : inject_Z (f + 1) == inject_Z f + 1) by (rewrite inject_Z_plus; reflexivity).
  assert (H2 : x < inject_Z f + 1) by (pose proof (Qlt_floor x) as Hq; fold f in Hq; lra).
  assert (Hr : Qred (x - inject_Z f) == x - inject_Z f) by apply Qred_correct.
  destruct (Qcompare (Qred (x - inject_Z f)) (1 # 2)) eqn:E.
  - apply Qeq_alt in E. rewrite Hr in E.
    destruct (Z.even f) eqn:Ev.
    + split; [split; lra | intros _; exact Ev].
    + split; [split; lra|]. intros _. rewrite Z.add_1_r, Z.even_succ, <- Z.negb_even, Ev. reflexivity.
  - apply Qlt_alt in E. rewrite Hr in E. split; [split; lra|]. intros [H|H]; lra.
  - apply Qgt_alt in E. rewrite Hr in E.
    split; [split; lra|]. intros [H|H]; lra.
Qed.
Lemma qround_floor_spec x : inject_Z (qround RFloor x) <= x /\ x < inject_Z (qround RFloor x) + 1.
Proof.
  simpl. split; [apply Qfloor_le|].
  assert (Hi : inject_Z (Qfloor x + 1) == inject_Z (Qfloor x) + 1) by (rewrite inject_Z_plus; reflexivity).
  pose proof (Qlt_floor x). lra.
Qed.
Lemma qround_ceil_spec x : inject_Z (qround RCeil x) - 1 < x /\ x <= inject_Z (qround RCeil x).
Proof.
  simpl. split; [|apply Qle_ceiling].
  assert (H : inject_Z (Qceiling x - 1) < x) by apply Qceiling_lt.
  assert (Hi : inject_Z (Qceiling x - 1) == inject_Z (Qceiling x) - 1).
  { unfold Z.sub. rewrite inject_Z_plus. unfold Qminus. reflexivity. }
  lra.
Qed.

(* rounding_fun(np.sqrt(x)) decided with integer square roots: for x = a / b >= 0 the model's floor n satisfies
   n^2 <= x < (n+1)^2, the ceiling m satisfies (m-1)^2 < x <= m^2 (x > 0), the rounded value r satisfies |sqrt x - r| <= 1/2 *)
Local Open Scope Z_scope.
Lemma isqrt_floor a b : 0 <= a -> 0 < b -> let n := Z.sqrt (a * b) / b in 0 <= n /\ n * n * b <= a /\ a < (n + 1) * (n + 1) * b.
Proof.
  intros Ha Hb. cbv zeta. set (s := Z.sqrt (a * b)).
  assert (Hab : 0 <= a * b) by nia.
  destruct (Z.sqrt_spec (a * b) Hab) as [S1 S2]. fold s in S1, S2.
  assert (Hs : 0 <= s) by apply Z.sqrt_nonneg.
  set (n := s / b). assert (Hn : n * b <= s /\ s < (n + 1) * b).
  { unfold n. pose proof (Z.div_mod s b ltac:(lia)). pose proof (Z.mod_pos_bound s b Hb). nia. }
  assert (Hn0 : 0 <= n) by (unfold n; apply Z.div_pos; lia).
  split; [exact Hn0|]. split.
  - assert ((n * b) * (n * b) <= a * b) by nia. nia.
  - assert (a * b < ((n + 1) * b) * ((n + 1) * b)) by nia. nia.
Qed.
Lemma sqrt_round_floor_spec x : (0 <= Qnum x) -> let n := sqrt_round RFloor x in
  0 <= n /\ n * n * Zpos (Qden x) <= Qnum x /\ Qnum x < (n + 1) * (n + 1) * Zpos (Qden x).
Proof. intros H. unfold sqrt_round. apply isqrt_floor; [exact H | reflexivity]. Qed.
Lemma sqrt_round_ceil_spec x : (0 < Qnum x) -> let m := sqrt_round RCeil x in
  (m - 1) * (m - 1) * Zpos (Qden x) < Qnum x /\ Qnum x <= m * m * Zpos (Qden x).
Proof.
  intros H. unfold sqrt_round. cbv zeta.
  destruct (isqrt_floor (Qnum x) (Zpos (Qden x)) ltac:(lia) ltac:(reflexivity)) as (H0 & H1 & H2).
  set (n := Z.sqrt (Qnum x * Zpos (Qden x)) / Zpos (Qden x)) in *.
  destruct (n * n * Zpos (Qden x) =? Qnum x) eqn:E.
  - apply Z.eqb_eq in E. split; [|lia]. assert (Hb : 0 < Zpos (Qden x)) by reflexivity.
    assert (Hn1 : 1 <= n) by (destruct (Z.eq_dec n 0) as [->|]; [simpl in E; lia | lia]).
    rewrite <- E. apply Z.mul_lt_mono_pos_r; [exact Hb|]. nia.
  - apply Z.eqb_neq in E. replace (n + 1 - 1) with n by lia. split; lia.
Qed.
(* |sqrt x - r| <= 1/2  <=>  (2r-1)^2 <= 4x <= (2r+1)^2  (the left inequality only matters for r >= 1); ties go to even *)
Lemma sq_mono u v b : 0 <= u -> u <= v -> 0 <= b -> u * u * b <= v * v * b.
Proof. intros. apply Z.mul_le_mono_nonneg_r; [assumption|]. apply Z.mul_le_mono_nonneg; lia. Qed.
Lemma sqrt_round_round_spec x : (0 <= Qnum x) -> let r := sqrt_round RRound x in
  0 <= r /\ 4 * Qnum x <= (2 * r + 1) * (2 * r + 1) * Zpos (Qden x) /\
  (1 <= r -> (2 * r - 1) * (2 * r - 1) * Zpos (Qden x) <= 4 * Qnum x) /\
  ((4 * Qnum x = (2 * r + 1) * (2 * r + 1) * Zpos (Qden x) \/ (1 <= r /\ 4 * Qnum x = (2 * r - 1) * (2 * r - 1) * Zpos (Qden x))) -> Z.even r = true).
Proof.
  intros H. unfold sqrt_round. cbv zeta.
  destruct (isqrt_floor (Qnum x) (Zpos (Qden x)) H ltac:(reflexivity)) as (H0 & H1 & H2).
  set (n := Z.sqrt (Qnum x * Zpos (Qden x)) / Zpos (Qden x)) in *. set (a := Qnum x) in *. set (b := Zpos (Qden x)) in *.
  assert (Hb : 0 < b) by reflexivity. clearbody n a b.
  (* the facts about n, all linear in the products below *)
  assert (F1 : (2 * n) * (2 * n) * b = 4 * (n * n * b)) by ring.
  assert (F2 : (2 * (n + 1)) * (2 * (n + 1)) * b = 4 * ((n + 1) * (n + 1) * b)) by ring.
  assert (M1 : (2 * n + 1) * (2 * n + 1) * b <= (2 * (n + 1)) * (2 * (n + 1)) * b) by (apply sq_mono; lia).
  assert (M2 : (2 * (n + 1)) * (2 * (n + 1)) * b <= (2 * (n + 1) + 1) * (2 * (n + 1) + 1) * b) by (apply sq_mono; lia).
  assert (M3 : (2 * n) * (2 * n) * b <= (2 * n + 1) * (2 * n + 1) * b) by (apply sq_mono; lia).
  assert (M4 : 1 <= n -> (2 * n - 1) * (2 * n - 1) * b <= (2 * n) * (2 * n) * b) by (intros; apply sq_mono; lia).
  assert (R1 : 2 * (n + 1) - 1 = 2 * n + 1) by lia.
  destruct ((2 * n + 1) * (2 * n + 1) * b ?= 4 * a) eqn:E.
  - apply Z.compare_eq in E. destruct (Z.even n) eqn:Ev.
    + split; [lia|]. split; [lia|]. split; [intros Hr; specialize (M4 Hr); lia|]. intros _. exact Ev.
    + split; [lia|]. split; [lia|]. split; [intros _; rewrite R1; lia|].
      intros _. rewrite Z.add_1_r, Z.even_succ, <- Z.negb_even, Ev. reflexivity.
  - rewrite Z.compare_lt_iff in E. split; [lia|]. split; [lia|]. split; [intros _; rewrite R1; lia|].
    intros [Hc|[_ Hc]]; [lia | rewrite R1 in Hc; lia].
  - rewrite Z.compare_gt_iff in E. split; [lia|]. split; [lia|]. split; [intros Hr; specialize (M4 Hr); lia|].
    intros [Hc|[Hr Hc]]; [lia|]. specialize (M4 Hr).
    (* tie at n - 1/2 would need (2n-1)^2 b = 4a >= 4 n^2 b: impossible for n >= 1 *)
    assert ((2 * n - 1) * (2 * n - 1) * b < (2 * n) * (2 * n) * b); [|lia].
    apply Z.mul_lt_mono_pos_r; [exact Hb|]. nia.
Qed.

(* ------------------------------------------------------------------ tucker with fixed factors *)
Local Open Scope nat_scope.
Lemma nth_repeat_lt {A} (x d : A) n k : k < n -> nth k (repeat x n) d = x.
Proof. revert k. induction n; intros k H; [lia|]. destruct k; [reflexivity|]. simpl. apply IHn. lia. Qed.
Lemma filter_len_le {A} (f : A -> bool) l : length (filter f l) <= length l.
Proof. induction l as [|a l IH]; simpl; [lia|]. destruct (f a); simpl; lia. Qed.
Lemma filter_all {A} (f : A -> bool) l : (forall x, In x l -> f x = true) -> filter f l = l.
Proof. induction l as [|a l IH]; intros H; [reflexivity|]. simpl. rewrite (H a (or_introl eq_refl)). f_equal. apply IH. intros x Hx. apply H. now right. Qed.
Lemma pos_nonfixed_le fixed m : pos_nonfixed fixed m <= m.
Proof. unfold pos_nonfixed. etransitivity; [apply filter_len_le|]. now rewrite seq_length. Qed.
(* with one common rank the positional indexing of the code is harmless *)
Lemma tucker_fixed_constant_rank shape r fixed :
  tucker_fixed_old shape (repeat r (length shape)) fixed = tucker_fixed shape (repeat r (length shape)) fixed.
Proof.
  unfold tucker_fixed_old, tucker_fixed. rewrite repeat_length, Nat.eqb_refl. cbn [negb].
  assert (E : tucker_fixed_cols false shape (repeat r (length shape)) fixed = tucker_fixed_cols true shape (repeat r (length shape)) fixed).
  { unfold tucker_fixed_cols. apply map_ext_in. intros m Hm. apply in_seq in Hm. destruct (memb m fixed); [reflexivity|].
    rewrite !nth_repeat_lt; [reflexivity | lia | pose proof (pos_nonfixed_le fixed m); lia]. }
  now rewrite E.
Qed.
(* ... and so are fixed modes that come last (the configuration of the unit test) *)
Lemma pos_nonfixed_prefix fixed m : (forall i, i < m -> memb i fixed = false) -> pos_nonfixed fixed m = m.
Proof.
  intros H. unfold pos_nonfixed. rewrite filter_all; [apply seq_length|].
  intros i Hi. apply in_seq in Hi. rewrite H by lia. reflexivity.
Qed.
Lemma tucker_fixed_trailing shape rank fixed k :
  (forall i, i < length shape -> (memb i fixed = true <-> k <= i)) ->
  tucker_fixed_old shape rank fixed = tucker_fixed shape rank fixed.
Proof.
  intros Hf. unfold tucker_fixed_old, tucker_fixed. destruct (negb (length rank =? length shape)); [reflexivity|].
  assert (E : tucker_fixed_cols false shape rank fixed = tucker_fixed_cols true shape rank fixed).
  { unfold tucker_fixed_cols. apply map_ext_in. intros m Hm. apply in_seq in Hm. destruct (memb m fixed) eqn:Em; [reflexivity|].
    rewrite pos_nonfixed_prefix; [reflexivity|]. intros i Hi. destruct (memb i fixed) eqn:Ei; [|reflexivity].
    apply (Hf i ltac:(lia)) in Ei. assert (Hm' : k <= m) by lia. apply (Hf m ltac:(lia)) in Hm'. congruence. }
  now rewrite E.
Qed.
(* the hypothesis is satisfiable together with a non-trivial rank list: the last mode of [4;5;6] fixed *)
Lemma tucker_fixed_trailing_ex :
  (forall i, i < length [4; 5; 6] -> (memb i [2] = true <-> 2 <= i)) /\
  tucker_fixed_old [4; 5; 6] [2; 3; 4] [2] = Ok [[2; 3; 4]; [4; 2]; [5; 3]; [6; 4]].
Proof.
  split; [|reflexivity]. intros i Hi. simpl in Hi.
  destruct i as [|[|[|i]]]; simpl; split; intros H; try discriminate; try lia; reflexivity.
Qed.
(* otherwise the returned shapes are not the requested ones *)
Lemma tucker_fixed_misaligned :
  tucker_fixed_old [4; 5; 6] [2; 3; 4] [0] = Ok [[2; 2; 3]; [4; 2]; [5; 2]; [6; 3]] /\
  tucker_fixed [4; 5; 6] [2; 3; 4] [0] = Ok [[2; 3; 4]; [4; 2]; [5; 3]; [6; 4]].
Proof. split; reflexivity. Qed.
(* the intended flow: factor m is I_m x rank_m for a fixed mode and I_m x min(rank_m, I_m) for an updated one *)
Lemma tucker_fixed_structure shape rank fixed out : tucker_fixed shape rank fixed = Ok out ->
  exists core factors, out = core :: factors /\ length core = length shape /\ length factors = length shape /\
  forall m, m < length shape -> nth m factors [] = [nth m shape 0; nth m core 0] /\
    nth m core 0 = if memb m fixed then nth m rank 0 else Nat.min (nth m rank 0) (nth m shape 0).
Proof.
  unfold tucker_fixed. destruct (negb (length rank =? length shape)); [discriminate|]. intros H; injection H as <-.
  set (cols := tucker_fixed_cols true shape rank fixed).
  assert (Hc : length cols = length shape) by (unfold cols, tucker_fixed_cols; now rewrite map_length, seq_length).
  exists cols, (map (fun p => [fst p; snd p]) (combine shape cols)). split; [reflexivity|]. split; [exact Hc|].
  split; [rewrite map_length, combine_length; lia|]. intros m Hm. split.
  - rewrite (nth_map_combine (fun p => [fst p; snd p]) shape cols m 0 0) by lia. reflexivity.
  - unfold cols, tucker_fixed_cols. rewrite nth_indep with (d' := (fun m => if memb m fixed then nth m rank 0 else Nat.min (nth m rank 0) (nth m shape 0)) 0) by (now rewrite map_length, seq_length).
    rewrite (map_nth (fun m => if memb m fixed then nth m rank 0 else Nat.min (nth m rank 0) (nth m shape 0))). now rewrite seq_nth.
Qed.
