(* C08 -- the generic loop skeleton (a description read off the source): the normalisation contract holds for EVERY description
   satisfying desc_ok, the hypothesis is sharp, and the three hand-written skeletons are instances. *)
From Coq Require Import List Arith Bool Lia.
From TLV Require Import Model.Structure Proofs.StructureProofs Proofs.StructureProofs2.
Import ListNotations.

Section GenProofs.
  Variable St : Type.
  Variables (sweep normalise : St -> St).
  Variable Normalised : St -> Prop.
  Hypothesis normalise_spec : forall s, Normalised (normalise s).
  (* a normalised state stays normalised under a further normalisation (needed for descriptions that normalise twice) *)
  Lemma nif_keeps b s : Normalised s -> Normalised (nif St normalise b true s).
  Proof. intros H. unfold nif, norm_if. destruct b; [apply normalise_spec | exact H]. Qed.
  Lemma gen_loop_normalised d tol_set fuel : pre_test_norm d || (cb_norm d && conv_norm d && end_norm d) = true ->
    forall it decisions s, Normalised s -> Normalised (gen_loop St sweep normalise d true tol_set it fuel decisions s).
  Proof.
    intros Hd. induction fuel as [|fuel IH]; intros it decisions s Hs; [exact Hs|]. cbn [gen_loop].
    destruct (pre_test_norm d) eqn:Ep.
    - assert (H1 : Normalised (nif St normalise true true (sweep s))) by (unfold nif, norm_if; apply normalise_spec).
      destruct (fst (hd (false, false) decisions)); [now apply nif_keeps|].
      destruct (tol_set && (conv_first d <=? it) && snd (hd (false, false) decisions)); [now apply nif_keeps|].
      apply IH. now apply nif_keeps.
    - simpl in Hd. apply andb_prop in Hd. destruct Hd as [Hd He]. apply andb_prop in Hd. destruct Hd as [Hc Hv].
      rewrite Hc, Hv, He. unfold nif at 2 3 4. unfold norm_if.
      destruct (fst (hd (false, false) decisions)); [apply normalise_spec|].
      destruct (tol_set && (conv_first d <=? it) && snd (hd (false, false) decisions)); [apply normalise_spec|].
      apply IH. apply normalise_spec.
  Qed.
  Theorem gen_run_normalised d tol_set n decisions s0 : desc_ok d = true ->
    Normalised (gen_run St sweep normalise d true tol_set n decisions s0).
  Proof.
    unfold desc_ok. intros H. apply andb_prop in H. destruct H as [Hi Hd]. unfold gen_run. apply gen_loop_normalised; [exact Hd|].
    rewrite Hi. unfold nif, norm_if. apply normalise_spec.
  Qed.
End GenProofs.

Lemma cp_loop_is_gen St sweep normalise nf tol_set fuel : forall it decisions s,
  cp_loop St sweep normalise nf tol_set it fuel decisions s = gen_loop St sweep normalise cp_desc nf tol_set it fuel decisions s.
Proof. induction fuel as [|fuel IH]; intros; [reflexivity|]. cbn [cp_loop gen_loop cp_desc pre_test_norm cb_norm conv_norm end_norm conv_first nif]. now rewrite IH. Qed.
Definition lift (ds : list bool) : list (bool * bool) := map (fun b => (false, b)) ds.
Lemma hd_lift ds : hd (false, false) (lift ds) = (false, hd false ds).
Proof. destruct ds; reflexivity. Qed.
Lemma tl_lift ds : tl (lift ds) = lift (tl ds).
Proof. destruct ds; reflexivity. Qed.
Lemma nt_loop_is_gen St sweep normalise nf tol_set fuel : forall it decisions s,
  nt_loop St sweep normalise nf tol_set it fuel decisions s = gen_loop St sweep normalise nt_desc nf tol_set it fuel (lift decisions) s.
Proof.
  induction fuel as [|fuel IH]; intros; [reflexivity|]. cbn [nt_loop gen_loop nt_desc pre_test_norm cb_norm conv_norm end_norm conv_first nif].
  rewrite hd_lift, tl_lift. cbn [fst snd]. now rewrite IH.
Qed.
Lemma p2_loop_is_gen St sweep normalise nf tol_set fuel : forall it decisions s,
  p2_loop St sweep normalise nf tol_set it fuel decisions s = gen_loop St sweep normalise p2_desc nf tol_set it fuel (lift decisions) s.
Proof.
  induction fuel as [|fuel IH]; intros; [reflexivity|]. cbn [p2_loop gen_loop p2_desc pre_test_norm cb_norm conv_norm end_norm conv_first nif].
  rewrite hd_lift, tl_lift. cbn [fst snd]. now rewrite IH.
Qed.
(* the hypothesis is sharp: a description that fails it has an un-normalised run (ghost state: a sweep destroys normalisation) *)
Definition ghost_gen (d : desc) (n : nat) (decisions : list (bool * bool)) : bool :=
  gen_run bool (fun _ => false) (fun _ => true) d true true n decisions false.
Lemma desc_ok_sharp d : desc_ok d = false ->
  ghost_gen d 0 [] = false \/ ghost_gen d 1 [(true, false)] = false \/
  ghost_gen d (S (S (conv_first d))) (repeat (false, false) (conv_first d) ++ [(false, true)]) = false \/ ghost_gen d 1 [] = false.
Proof.
  destruct d as [i c v p e f]. unfold desc_ok. cbn [init_norm pre_test_norm cb_norm conv_norm end_norm].
  destruct i; [|intros _; left; reflexivity]. destruct p; [discriminate|]. cbn [andb orb].
  destruct c; [|intros _; right; left; reflexivity]. destruct e; [|intros _; right; right; right; unfold ghost_gen, gen_run; cbn; rewrite ?andb_false_r; reflexivity].
  destruct v; [discriminate|]. intros _. right; right; left.
  unfold ghost_gen, gen_run. cbn [init_norm nif norm_if conv_first].
  assert (G : forall k it, it + k = f -> gen_loop bool (fun _ => false) (fun _ => true) (mkDesc true true false false true f) true true it (S (S k))
                 (repeat (false, false) k ++ [(false, true)]) true = false).
  { induction k as [|k IH]; intros it Hit.
    - cbn [gen_loop repeat app hd fst snd pre_test_norm cb_norm conv_norm end_norm conv_first nif]. replace (f <=? it) with true by (symmetry; apply Nat.leb_le; lia). reflexivity.
    - cbn [gen_loop repeat app hd tl fst snd pre_test_norm cb_norm conv_norm end_norm conv_first nif norm_if]. rewrite andb_false_r.
      apply IH. lia. }
  apply (G f 0). lia.
Qed.

(* ------------------------------------------------------------------ normalize_factors = False on a state (weights, factors) *)
(* a sweep that only writes the factors (its type says so: it returns new factors, the weights are passed through) cannot change the
   weights, whatever it computes and whichever path the loop takes: the returned weights are those of the initialisation *)
Section PairState.
  Variables W F : Type.
  Variable upd : W -> F -> F.                     (* one sweep: new factors from the current weights and factors *)
  Variable normalise : W * F -> W * F.
  Definition sweep_pair (s : W * F) : W * F := (fst s, upd (fst s) (snd s)).
  Lemma cp_run_keeps_weights tol_set ik all_fixed n decisions w0 f0 :
    fst (cp_run (W * F) sweep_pair normalise false tol_set ik all_fixed n decisions (w0, f0)) = w0.
  Proof.
    apply (cp_run_unit_weights (W * F) sweep_pair normalise (fun s => fst s = w0)); [|reflexivity].
    intros s Hs. exact Hs.
  Qed.
End PairState.
