(* C08 -- the shape model of partial_tucker (Model/Structure.v partial_tucker, Model/StructureHooi.v partial_tucker_spec): every listed
   mode gets an I_m x min(rank_j, I_m) factor, the core keeps the size of the unlisted modes and (for distinct listed modes) has the
   factor's number of columns on the listed ones; rank=None preserves every size.  Induction over the list of listed modes. *)
From Coq Require Import List Arith Bool Lia.
From TLV Require Import Base.Shape Base.PyList Base.Tensor Model.Structure Model.StructureHooi.
Import ListNotations.
Local Open Scope nat_scope.

Definition pt_core (shape : list nat) (l : list (nat * nat)) : list nat := fold_left (fun sh p => set_nth (fst p) (snd p) sh) l shape.
Lemma pt_core_cons shape p l : pt_core shape (p :: l) = pt_core (set_nth (fst p) (snd p) shape) l.
Proof. reflexivity. Qed.
Lemma pt_core_length : forall l shape, length (pt_core shape l) = length shape.
Proof. induction l as [|p l IH]; intros; [reflexivity|]. rewrite pt_core_cons, IH. apply set_nth_length. Qed.
Lemma pt_core_other : forall l shape m, ~ In m (map fst l) -> nth m (pt_core shape l) 0 = nth m shape 0.
Proof.
  induction l as [|p l IH]; intros shape m H; [reflexivity|]. rewrite pt_core_cons. simpl in H.
  rewrite IH by tauto. apply nth_set_nth_other. intros E. apply H. left. symmetry. exact E.
Qed.
Lemma pt_core_listed : forall l shape m c, NoDup (map fst l) -> In (m, c) l -> m < length shape -> nth m (pt_core shape l) 0 = c.
Proof.
  induction l as [|p l IH]; intros shape m c Hn Hi Hm; [destruct Hi|]. rewrite pt_core_cons. simpl in Hn.
  inversion Hn as [|x xs Hx Hn']; subst. destruct Hi as [->|Hi].
  - simpl in *. rewrite pt_core_other by exact Hx. now apply nth_set_nth_same.
  - apply IH; [exact Hn' | exact Hi | now rewrite set_nth_length].
Qed.

Lemma nth_map_in {A B} (f : A -> B) l j d d' : j < length l -> nth j (map f l) d = f (nth j l d').
Proof. intros H. rewrite (nth_indep _ d (f d')) by (now rewrite map_length). apply map_nth. Qed.
Lemma map_fst_combine : forall (a b : list nat), length b = length a -> map fst (combine a b) = a.
Proof. induction a as [|x a IH]; intros [|y b] L; simpl in *; try lia; [reflexivity|]. f_equal. apply IH. lia. Qed.
Theorem partial_tucker_structure : forall shape rank modes out, partial_tucker shape rank modes = Ok out ->
  exists core factors, out = core :: factors /\ length core = length shape /\ length factors = length modes /\ length rank = length modes /\
  (forall j, j < length modes -> nth j modes 0 < length shape /\
     nth j factors [] = [nth (nth j modes 0) shape 0; Nat.min (nth j rank 0) (nth (nth j modes 0) shape 0)]) /\
  (forall m, m < length shape -> ~ In m modes -> nth m core 0 = nth m shape 0) /\
  (NoDup modes -> forall j, j < length modes -> nth (nth j modes 0) core 0 = Nat.min (nth j rank 0) (nth (nth j modes 0) shape 0)).
Proof.
  intros shape rank modes out H. unfold partial_tucker in H.
  destruct (length rank =? length modes) eqn:El; [|discriminate]. apply Nat.eqb_eq in El. simpl in H.
  destruct (forallb (fun m => m <? length shape) modes) eqn:Ef; [|discriminate]. simpl in H. inversion H; subst out; clear H.
  set (cols := map (fun p => Nat.min (snd p) (nth (fst p) shape 0)) (combine modes rank)).
  assert (Lc : length cols = length modes) by (unfold cols; rewrite map_length, combine_length; lia).
  assert (Hfst : map fst (combine modes cols) = modes).
  { now apply map_fst_combine. }
  assert (Hcol : forall j, j < length modes -> nth j cols 0 = Nat.min (nth j rank 0) (nth (nth j modes 0) shape 0)).
  { intros j Hj. unfold cols. rewrite (nth_map_in _ _ j 0 (0, 0)) by (rewrite combine_length; lia). rewrite combine_nth by lia. reflexivity. }
  rewrite forallb_forall in Ef.
  eexists; eexists. split; [reflexivity|]. fold (pt_core shape (combine modes cols)).
  split; [apply pt_core_length|]. split; [rewrite map_length, combine_length; lia|]. split; [exact El|]. split; [|split].
  - intros j Hj. split; [apply Nat.ltb_lt, Ef, nth_In; exact Hj|].
    rewrite (nth_map_in _ _ j [] (0, 0)) by (rewrite combine_length; lia). rewrite combine_nth by lia. simpl. now rewrite Hcol.
  - intros m Hm Hn. apply pt_core_other. now rewrite Hfst.
  - intros Hnd j Hj. rewrite <- Hcol by exact Hj. apply pt_core_listed.
    + now rewrite Hfst.
    + rewrite <- (combine_nth modes cols j 0 0) by lia. apply nth_In. rewrite combine_length. lia.
    + apply Nat.ltb_lt, Ef, nth_In; exact Hj.
Qed.
(* rank=None keeps every size: the core has the shape of the tensor and factor j is square *)
Theorem partial_tucker_none : forall shape modes out, NoDup modes -> partial_tucker_spec shape None modes = Ok out ->
  exists core factors, out = core :: factors /\ core = shape /\ forall j, j < length modes -> nth j factors [] = [nth (nth j modes 0) shape 0; nth (nth j modes 0) shape 0].
Proof.
  intros shape modes out Hnd H. unfold partial_tucker_spec in H.
  destruct (partial_tucker_structure _ _ _ _ H) as (core & factors & -> & Lc & Lf & Lr & Hf & Ho & Hl).
  exists core, factors. split; [reflexivity|]. split.
  - apply nth_ext with (d := 0) (d' := 0); [exact Lc|]. intros m Hm. rewrite Lc in Hm.
    destruct (in_dec Nat.eq_dec m modes) as [Hi|Hi]; [|now apply Ho].
    destruct (In_nth _ _ 0 Hi) as (j & Hj & <-). rewrite (Hl Hnd j Hj).
    rewrite (nth_map_in _ _ j 0 0) by exact Hj. apply Nat.min_id.
  - intros j Hj. destruct (Hf j Hj) as [_ ->]. f_equal. f_equal.
    rewrite (nth_map_in _ _ j 0 0) by exact Hj. apply Nat.min_id.
Qed.
Example partial_tucker_spec_ex : partial_tucker_spec [3; 4; 2] (Some (RInt 3)) [2; 0] = Ok [[3; 4; 2]; [2; 2]; [3; 3]] /\
  partial_tucker_spec [3; 4; 2] None [1] = Ok [[3; 4; 2]; [4; 4]] /\ partial_tucker_spec [3; 4; 2] (Some (RList [5; 1])) [1; 2] = Ok [[3; 4; 1]; [4; 4]; [2; 1]].
Proof. vm_compute. repeat split. Qed.

(* ---------- partial_tucker(init='random', n_iter_max=0) (after 7b9d0bb): the drawn core has the tensor's shape with rank_j at position modes_j *)
Theorem partial_tucker_random0_structure : forall shape rank modes out, partial_tucker_random0 shape rank modes = Ok out ->
  exists core factors, out = core :: factors /\ length core = length shape /\ length factors = length modes /\
  (forall j, j < length modes -> nth j factors [] = [nth (nth j modes 0) shape 0; nth j rank 0]) /\
  (forall m, m < length shape -> ~ In m modes -> nth m core 0 = nth m shape 0) /\
  (NoDup modes -> forall j, j < length modes -> nth (nth j modes 0) core 0 = nth j rank 0).
Proof.
  intros shape rank modes out H. unfold partial_tucker_random0 in H.
  destruct (length rank =? length modes) eqn:El; [|discriminate]. apply Nat.eqb_eq in El. simpl in H.
  destruct (forallb (fun m => m <? length shape) modes) eqn:Ef; [|discriminate]. simpl in H. inversion H; subst out; clear H.
  rewrite forallb_forall in Ef.
  assert (Hfst : map fst (combine modes rank) = modes) by (now apply map_fst_combine).
  eexists; eexists. split; [reflexivity|]. fold (pt_core shape (combine modes rank)).
  split; [apply pt_core_length|]. unfold pt_random0_factors. split; [rewrite map_length, combine_length; lia|]. split; [|split].
  - intros j Hj. rewrite (nth_map_in _ _ j [] (0, 0)) by (rewrite combine_length; lia). rewrite combine_nth by lia. reflexivity.
  - intros m Hm Hn. apply pt_core_other. now rewrite Hfst.
  - intros Hnd j Hj. apply pt_core_listed.
    + now rewrite Hfst.
    + rewrite <- (combine_nth modes rank j 0 0) by lia. apply nth_In. rewrite combine_length. lia.
    + apply Nat.ltb_lt, Ef, nth_In; exact Hj.
Qed.
(* regression witness: before 7b9d0bb the core had one axis per LISTED mode *)
Lemma partial_tucker_random0_old_witness :
  partial_tucker_random0_old [3; 4; 2] [4] [1] = Ok [[4]; [4; 4]] /\ partial_tucker_random0 [3; 4; 2] [4] [1] = Ok [[3; 4; 2]; [4; 4]] /\
  partial_tucker_random0_old [3; 4] [2; 3] [1; 0] = Ok [[2; 3]; [4; 2]; [3; 3]] /\ partial_tucker_random0 [3; 4] [2; 3] [1; 0] = Ok [[3; 2]; [4; 2]; [3; 3]].
Proof. vm_compute. repeat split. Qed.
