(* C08 -- soundness of the rational checkers of Model/StructureQ.v: what a `true` answer means. *)
From Coq Require Import List Arith ZArith QArith Qabs Bool Lia.
From TLV Require Import Base.Shape Model.StructureQ.
Import ListNotations.

Lemma within_sound x tol : within x tol = true -> Qabs x <= tol.
Proof. unfold within. apply Qle_bool_imp_le. Qed.
Lemma orth_ok_sound k M tol : orth_ok k M tol = true ->
  forall a b, (a < k)%nat -> (b < k)%nat -> Qabs (gram_entry k M a b - qdelta a b) <= tol.
Proof.
  unfold orth_ok. intros H a b Ha Hb. rewrite forallb_forall in H.
  specialize (H a ltac:(apply in_seq; lia)). rewrite forallb_forall in H. specialize (H b ltac:(apply in_seq; lia)).
  apply within_sound in H. now rewrite Qred_correct in H.
Qed.
Lemma projection_ok_sound shape ranks X core fs tol : projection_ok shape ranks X core fs tol = true ->
  length core = prod ranks /\
  forall j, (j < prod ranks)%nat -> Qabs (project_entry shape ranks X fs j - nth j core 0) <= tol.
Proof.
  unfold projection_ok. cbv zeta. intros H. apply andb_prop in H. destruct H as [H1 H2]. apply andb_prop in H1. destruct H1 as [H1 _].
  split; [now apply Nat.eqb_eq|].
  intros j Hj. rewrite forallb_forall in H2. specialize (H2 j ltac:(apply in_seq; lia)).
  apply within_sound in H2. rewrite Qred_correct in H2. exact H2.
Qed.
Lemma tucker_ok_sound shape ranks X core fs t1 t2 : tucker_ok shape ranks X core fs t1 t2 = true ->
  (forall p, In p (combine ranks fs) -> forall a b, (a < fst p)%nat -> (b < fst p)%nat -> Qabs (gram_entry (fst p) (snd p) a b - qdelta a b) <= t1) /\
  (forall j, (j < prod ranks)%nat -> Qabs (project_entry shape ranks X fs j - nth j core 0) <= t2).
Proof.
  unfold tucker_ok. intros H. apply andb_prop in H. destruct H as [H1 H2]. split.
  - intros p Hp. rewrite forallb_forall in H1. now apply orth_ok_sound, H1.
  - now apply projection_ok_sound in H2.
Qed.
(* non-vacuity: the identity is orthonormal, a scaled one is not *)
Example orth_ok_ex : orth_ok 2%nat [1; 0; 0; 1; 0; 0] 0 = true /\ orth_ok 2%nat [2; 0; 0; 1] (1 # 2) = false.
Proof. split; vm_compute; reflexivity. Qed.
Example projection_ex : project_entry [2; 2]%nat [1; 2]%nat [1; 2; 3; 4] [[1; 0]; [1; 0; 0; 1]] 1%nat == 2.
Proof. vm_compute. reflexivity. Qed.

(* ------------------------------------------------------------------ Gaussian rationals *)
Lemma cwithin_sound x tol : cwithin x tol = true -> Qabs (fst x) <= tol /\ Qabs (snd x) <= tol.
Proof. unfold cwithin. intros H. apply andb_prop in H. destruct H as [H1 H2]. split; now apply within_sound. Qed.
(* real and imaginary part of (M^H M - I)[a, b] are within tol *)
Lemma corth_ok_sound k M tol : corth_ok k M tol = true ->
  forall a b, (a < k)%nat -> (b < k)%nat ->
  Qabs (fst (csub (cgram_entry k M a b) (cdelta a b))) <= tol /\ Qabs (snd (csub (cgram_entry k M a b) (cdelta a b))) <= tol.
Proof.
  unfold corth_ok. intros H a b Ha Hb. rewrite forallb_forall in H.
  specialize (H a ltac:(apply in_seq; lia)). rewrite forallb_forall in H. specialize (H b ltac:(apply in_seq; lia)).
  now apply cwithin_sound.
Qed.
Lemma cprojection_ok_sound shape ranks X core fs tol : cprojection_ok shape ranks X core fs tol = true ->
  length core = prod ranks /\
  forall j, (j < prod ranks)%nat ->
    Qabs (fst (csub (cproject_entry shape ranks X fs j) (nth j core c0))) <= tol /\
    Qabs (snd (csub (cproject_entry shape ranks X fs j) (nth j core c0))) <= tol.
Proof.
  unfold cprojection_ok. cbv zeta. intros H. apply andb_prop in H. destruct H as [H1 H2]. apply andb_prop in H1. destruct H1 as [H1 _].
  split; [now apply Nat.eqb_eq|]. intros j Hj. rewrite forallb_forall in H2. specialize (H2 j ltac:(apply in_seq; lia)).
  now apply cwithin_sound.
Qed.
(* the arithmetic is the arithmetic of Q[i]: (a + b i)(c + d i) and conjugation *)
Lemma cmul_spec a b : fst (cmul a b) == fst a * fst b - snd a * snd b /\ snd (cmul a b) == fst a * snd b + snd a * fst b.
Proof. unfold cmul. cbn [fst snd]. split; apply Qred_correct. Qed.
Lemma cconj_spec a : fst (cconj a) = fst a /\ snd (cconj a) == - snd a.
Proof. unfold cconj. cbn [fst snd]. split; [reflexivity | apply Qred_correct]. Qed.
(* non-vacuity: the 2 x 1 column (1, i)/sqrt2 is not expressible, take (3/5, 4/5 i): unit norm only with the CONJUGATE *)
Example corth_ok_ex : corth_ok 1%nat [(3 # 5, 0); (0, 4 # 5)] 0 = true.
Proof. vm_compute. reflexivity. Qed.
Example cproject_conj_ex : (* X = (i), U = (i): the projection X * conj(U) = 1, not X * U = -1 *)
  cproject_entry [1]%nat [1]%nat [(0, 1)] [[(0, 1)]] 0%nat = (1, 0).
Proof. vm_compute. reflexivity. Qed.
