(* C08 -- canonical-form lemmas over R: orthonormality is inherited by sub-selections of columns, by
   products with orthonormal rows (PARAFAC2 projections), by the reshape of U into a TT core; one
   factor normalisation step yields unit columns with the scale carried by the weight.
   Matrices are functions nat -> nat -> R with explicit dimensions; rsum is the finite sum of Base/RSum.v. *)
From Coq Require Import Reals Lra Psatz List Arith Lia.
From TLV Require Import Base.RSum.
Open Scope R_scope.

Definition delta (a b : nat) : R := if Nat.eq_dec a b then 1 else 0.

(* M is m x k; its columns are orthonormal:  M^T M = I_k *)
Definition orthonormal_cols (m k : nat) (M : nat -> nat -> R) : Prop :=
  forall a b, (a < k)%nat -> (b < k)%nat -> rsum m (fun i => M i a * M i b) = delta a b.
(* M is k x n; its rows are orthonormal:  M M^T = I_k *)
Definition orthonormal_rows (k n : nat) (M : nat -> nat -> R) : Prop :=
  forall a b, (a < k)%nat -> (b < k)%nat -> rsum n (fun j => M a j * M b j) = delta a b.
Definition mtranspose (M : nat -> nat -> R) : nat -> nat -> R := fun i j => M j i.
Definition mmul (k : nat) (A B : nat -> nat -> R) : nat -> nat -> R := fun i j => rsum k (fun l => A i l * B l j).

Lemma orthonormal_rows_transpose k n M : orthonormal_rows k n M <-> orthonormal_cols n k (mtranspose M).
Proof. unfold orthonormal_rows, orthonormal_cols, mtranspose. tauto. Qed.

(* ---------- sub-selection of columns: U[:, :r], or any injective choice of columns *)
Lemma orthonormal_cols_select m k k' (M : nat -> nat -> R) (sel : nat -> nat) :
  orthonormal_cols m k M ->
  (forall a, (a < k')%nat -> (sel a < k)%nat) ->
  (forall a b, (a < k')%nat -> (b < k')%nat -> sel a = sel b -> a = b) ->
  orthonormal_cols m k' (fun i a => M i (sel a)).
Proof.
  intros H Hs Hi a b Ha Hb. rewrite H by (apply Hs; assumption).
  unfold delta. destruct (Nat.eq_dec (sel a) (sel b)) as [E|E], (Nat.eq_dec a b) as [E'|E']; try reflexivity.
  - exfalso. apply E'. now apply Hi.
  - exfalso. apply E. now rewrite E'.
Qed.
Lemma orthonormal_cols_truncate m k r (M : nat -> nat -> R) :
  orthonormal_cols m k M -> (r <= k)%nat -> orthonormal_cols m r M.
Proof. intros H Hr a b Ha Hb. apply H; lia. Qed.

(* ---------- an m x k matrix with orthonormal columns is an isometry of R^k into R^m *)
Lemma rsum_delta_l k (f : nat -> R) a : (a < k)%nat -> rsum k (fun l => delta a l * f l) = f a.
Proof.
  intros Ha. rewrite (rsum_single k a); [| exact Ha |].
  2:{ intros i _ Hi. unfold delta. destruct (Nat.eq_dec a i); [congruence | ring]. }
  unfold delta. destruct (Nat.eq_dec a a); [ring | congruence].
Qed.
Lemma isometry m k (P : nat -> nat -> R) (x y : nat -> R) : orthonormal_cols m k P ->
  rsum m (fun j => rsum k (fun l => P j l * x l) * rsum k (fun l => P j l * y l)) = rsum k (fun l => x l * y l).
Proof.
  intros H.
  rewrite (rsum_ext m _ (fun j => rsum k (fun l => rsum k (fun l' => (x l * y l') * (P j l * P j l'))))).
  2:{ intros j _. rewrite Rmult_comm. rewrite <- rsum_scale. apply rsum_ext; intros l _.
      rewrite Rmult_comm. rewrite <- rsum_scale. apply rsum_ext; intros l' _. ring. }
  rewrite rsum_exchange.
  apply rsum_ext; intros l Hl.
  rewrite rsum_exchange.
  rewrite (rsum_ext k _ (fun l' => delta l l' * (x l * y l'))).
  2:{ intros l' Hl'. rewrite rsum_scale. rewrite H by assumption. ring. }
  rewrite rsum_delta_l by exact Hl. reflexivity.
Qed.

(* ---------- PARAFAC2: projection = (U Vh)^T with U (R x k) and Vh (k x J) having orthonormal rows *)
Lemma product_orthonormal_rows r k n (U Vh : nat -> nat -> R) :
  orthonormal_rows r k U -> orthonormal_rows k n Vh -> orthonormal_rows r n (mmul k U Vh).
Proof.
  intros HU HV a b Ha Hb. unfold mmul.
  rewrite (rsum_ext n _ (fun j => rsum k (fun l => mtranspose Vh j l * U a l) * rsum k (fun l => mtranspose Vh j l * U b l))).
  2:{ intros j _. f_equal; apply rsum_ext; intros; unfold mtranspose; ring. }
  rewrite (isometry n k (mtranspose Vh) (U a) (U b)) by (now apply orthonormal_rows_transpose).
  now apply HU.
Qed.
Lemma projection_orthonormal r k n (U Vh : nat -> nat -> R) :
  orthonormal_rows r k U -> orthonormal_rows k n Vh -> orthonormal_cols n r (mtranspose (mmul k U Vh)).
Proof. intros HU HV. apply orthonormal_rows_transpose. now apply product_orthonormal_rows. Qed.
(* hence every evolving factor B_i = P_i B has the same cross product B^T B *)
Lemma parafac2_cross_product n r (P B : nat -> nat -> R) a b : orthonormal_cols n r P ->
  rsum n (fun j => mmul r P B j a * mmul r P B j b) = rsum r (fun l => B l a * B l b).
Proof. intros H. unfold mmul. now rewrite (isometry n r P (fun l => B l a) (fun l => B l b)). Qed.

(* ---------- TT-SVD: core[a, i, b] = U[a * I + i, b]; U^T U = I  =>  the core is left-orthogonal *)
Lemma rsum_app n m f : rsum (n + m) f = rsum n f + rsum m (fun j => f (n + j)%nat).
Proof.
  induction m; simpl.
  - rewrite Nat.add_0_r. ring.
  - rewrite Nat.add_succ_r. simpl. rewrite IHm. ring.
Qed.
Lemma rsum_mul n m f : rsum (n * m) f = rsum n (fun i => rsum m (fun j => f (i * m + j)%nat)).
Proof.
  induction n; simpl; [reflexivity|].
  replace (m + n * m)%nat with (n * m + m)%nat by lia. rewrite rsum_app, IHn. reflexivity.
Qed.
Definition core_of (I : nat) (U : nat -> nat -> R) : nat -> nat -> nat -> R := fun a i b => U (a * I + i)%nat b.
Lemma tt_core_left_orthogonal rk I r (U : nat -> nat -> R) : orthonormal_cols (rk * I) r U ->
  forall b b', (b < r)%nat -> (b' < r)%nat ->
  rsum rk (fun a => rsum I (fun i => core_of I U a i b * core_of I U a i b')) = delta b b'.
Proof. intros H b b' Hb Hb'. unfold core_of. rewrite <- (rsum_mul rk I (fun p => U p b * U p b')). now apply H. Qed.

(* ---------- one factor of cp_normalize: scale = column norm (1 if the column is zero) *)
Definition colnorm2 (I : nat) (f : nat -> nat -> R) (r : nat) : R := rsum I (fun i => (f i r)^2).
Definition scale_of (I : nat) (f : nat -> nat -> R) (r : nat) : R := sqrt (colnorm2 I f r).
Definition nz (x : R) : R := if Req_EM_T x 0 then 1 else x.
Definition normalise_factor (I : nat) (f : nat -> nat -> R) : nat -> nat -> R := fun i r => f i r / nz (scale_of I f r).

Lemma colnorm2_nonneg I f r : 0 <= colnorm2 I f r.
Proof. apply rsum_nonneg. intros. apply pow2_ge_0. Qed.
Lemma scale_zero I f r : scale_of I f r = 0 <-> colnorm2 I f r = 0.
Proof.
  unfold scale_of. split; intros H.
  - apply sqrt_eq_0; [apply colnorm2_nonneg | exact H].
  - rewrite H. apply sqrt_0.
Qed.
Lemma normalise_factor_unit I f r : colnorm2 I f r <> 0 -> colnorm2 I (normalise_factor I f) r = 1.
Proof.
  intros Hn. assert (Hs : scale_of I f r <> 0) by (intro E; apply Hn; now apply scale_zero).
  unfold colnorm2 at 1, normalise_factor, nz. destruct (Req_EM_T (scale_of I f r) 0) as [E|_]; [contradiction|].
  rewrite (rsum_ext I _ (fun i => / (scale_of I f r * scale_of I f r) * (f i r)^2)) by (intros; field; exact Hs).
  rewrite rsum_scale. fold (colnorm2 I f r). unfold scale_of. rewrite sqrt_sqrt by apply colnorm2_nonneg. field. exact Hn.
Qed.
Lemma normalise_factor_zero I f r : colnorm2 I f r = 0 ->
  scale_of I f r = 0 /\ forall i, (i < I)%nat -> normalise_factor I f i r = 0.
Proof.
  intros H. split; [now apply scale_zero|]. intros i Hi. unfold normalise_factor.
  rewrite (rsum_sq_zero I (fun i => f i r) H i Hi). unfold Rdiv. ring.
Qed.
(* the scale is carried by the weight: factor = normalised factor * scale, column by column *)
Lemma normalise_factor_represents I f r i : (i < I)%nat -> normalise_factor I f i r * scale_of I f r = f i r.
Proof.
  intros Hi. destruct (Req_EM_T (colnorm2 I f r) 0) as [E|E].
  - destruct (normalise_factor_zero I f r E) as [H1 H2]. rewrite H2 by exact Hi.
    rewrite (rsum_sq_zero I (fun i => f i r) E i Hi). ring.
  - assert (Hs : scale_of I f r <> 0) by (intro E'; apply E; now apply scale_zero).
    unfold normalise_factor, nz. destruct (Req_EM_T (scale_of I f r) 0); [contradiction|]. field. exact Hs.
Qed.
Lemma scale_nonneg I f r : 0 <= scale_of I f r.
Proof. apply sqrt_pos. Qed.

(* ---------- TT-SVD / TR-SVD step: truncate U to r columns, reshape; the core is left-orthogonal *)
Lemma tt_svd_core_left_orthogonal rk I k r (U : nat -> nat -> R) : orthonormal_cols (rk * I) k U -> (r <= k)%nat ->
  forall b b', (b < r)%nat -> (b' < r)%nat ->
  rsum rk (fun a => rsum I (fun i => core_of I U a i b * core_of I U a i b')) = delta b b'.
Proof. intros H Hr. apply tt_core_left_orthogonal. now apply orthonormal_cols_truncate with (k := k). Qed.

(* ---------- TR-SVD, first core: factor[a, i, b] = U[i, a * r1 + b] with U (I x r0 r1) having orthonormal columns *)
Definition tr_first_core (r1 : nat) (U : nat -> nat -> R) : nat -> nat -> nat -> R := fun a i b => U i (a * r1 + b)%nat.
Lemma pair_index_inj r1 a b a' b' : (b < r1)%nat -> (b' < r1)%nat -> (a * r1 + b = a' * r1 + b')%nat -> a = a' /\ b = b'.
Proof. intros Hb Hb' E. assert (a = a') by nia. subst. split; [reflexivity | lia]. Qed.
Lemma tr_first_core_orthonormal I r0 r1 (U : nat -> nat -> R) : orthonormal_cols I (r0 * r1) U ->
  forall a b a' b', (a < r0)%nat -> (b < r1)%nat -> (a' < r0)%nat -> (b' < r1)%nat ->
  rsum I (fun i => tr_first_core r1 U a i b * tr_first_core r1 U a' i b') = delta a a' * delta b b'.
Proof.
  intros H a b a' b' Ha Hb Ha' Hb'. unfold tr_first_core. rewrite H by nia.
  unfold delta. destruct (Nat.eq_dec (a * r1 + b) (a' * r1 + b')) as [E|E].
  - destruct (pair_index_inj r1 a b a' b' Hb Hb' E) as [-> ->].
    destruct (Nat.eq_dec a' a'); [|congruence]. destruct (Nat.eq_dec b' b'); [ring | congruence].
  - destruct (Nat.eq_dec a a') as [->|]; [|ring]. destruct (Nat.eq_dec b b') as [->|]; [congruence | ring].
Qed.
