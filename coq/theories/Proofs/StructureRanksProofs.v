(* C08 -- proofs about Model/StructureRanks.v: validate_tucker_rank with fixed_modes (the pop / re-insert book-keeping, for every
   duplicate-free list of valid modes in any order), and the parameter counts behind the fractional ranks. *)
From Coq Require Import List Arith ZArith QArith Qround Qabs Bool Lia Lqa Permutation Sorted.
From TLV Require Import Base.Shape Base.PyList Base.Tensor Model.Structure Model.StructureRanks Proofs.StructureProofs Proofs.StructureProofs3.
Import ListNotations.
Local Open Scope nat_scope.

(* ------------------------------------------------------------------ sorted(..., reverse=True) *)
Definition sdesc (l : list nat) : Prop := StronglySorted (fun a b => b < a) l.

Lemma insert_desc_perm x l : Permutation (x :: l) (insert_desc x l).
Proof.
  induction l as [|y t IH]; simpl; [apply Permutation_refl|].
  destruct (y <=? x); [apply Permutation_refl|].
  eapply Permutation_trans; [apply perm_swap|]. now apply perm_skip.
Qed.
Lemma sort_desc_perm l : Permutation l (sort_desc l).
Proof.
  induction l as [|x l IH]; simpl; [constructor|].
  eapply Permutation_trans; [apply perm_skip, IH|]. apply insert_desc_perm.
Qed.
Lemma insert_desc_sdesc x l : ~ In x l -> sdesc l -> sdesc (insert_desc x l).
Proof.
  induction l as [|y t IH]; intros Hn Hs; simpl.
  - constructor; constructor.
  - inversion Hs as [|? ? Hs' Hall]; subst.
    destruct (y <=? x) eqn:E.
    + apply Nat.leb_le in E. assert (y < x) by (assert (x <> y) by (intros ->; apply Hn; now left); lia).
      constructor; [exact Hs|]. constructor; [assumption|].
      eapply Forall_impl; [|exact Hall]. simpl. intros; lia.
    + apply Nat.leb_gt in E. constructor.
      * apply IH; [intros Hi; apply Hn; now right | assumption].
      * apply Forall_forall. intros z Hz.
        apply (Permutation_in _ (Permutation_sym (insert_desc_perm x t))) in Hz. destruct Hz as [<-|Hz]; [exact E|].
        rewrite Forall_forall in Hall. now apply Hall.
Qed.
Lemma sort_desc_sdesc l : NoDup l -> sdesc (sort_desc l).
Proof.
  induction 1 as [|x l Hn Hd IH]; simpl; [constructor|].
  apply insert_desc_sdesc; [|exact IH].
  intros Hi. apply Hn. now apply (Permutation_in _ (Permutation_sym (sort_desc_perm l))).
Qed.
Lemma sort_desc_In l m : In m (sort_desc l) <-> In m l.
Proof. split; intros H; [apply (Permutation_in _ (Permutation_sym (sort_desc_perm l))) | apply (Permutation_in _ (sort_desc_perm l))]; exact H. Qed.

(* ------------------------------------------------------------------ list surgery at a split point *)
Lemma remove_nth_app {A} (a : list A) : forall x b, remove_nth (length a) (a ++ x :: b) = a ++ b.
Proof. induction a as [|y a IH]; intros; simpl; [reflexivity | now rewrite IH]. Qed.
Lemma insert_at_app {A} (a : list A) : forall x b, insert_at (length a) x (a ++ b) = a ++ x :: b.
Proof. induction a as [|y a IH]; intros; simpl; [destruct b; reflexivity | now rewrite IH]. Qed.
Lemma nth_app_mid {A} (a : list A) x b d : nth (length a) (a ++ x :: b) d = x.
Proof. rewrite app_nth2 by lia. now rewrite Nat.sub_diag. Qed.
Lemma split_at {A} (l : list A) m : m < length l -> exists a x b, l = a ++ x :: b /\ length a = m.
Proof.
  intros H. exists (firstn m l). destruct (skipn m l) as [|x b] eqn:E.
  - exfalso. assert (length (skipn m l) = 0) by now rewrite E. rewrite skipn_length in *. lia.
  - exists x, b. split; [now rewrite <- E, firstn_skipn | rewrite firstn_length; lia].
Qed.
Lemma split_len {A} (l : list A) k : k <= length l -> exists a b, l = a ++ b /\ length a = k.
Proof. intros H. exists (firstn k l), (skipn k l). split; [now rewrite firstn_skipn | rewrite firstn_length; lia]. Qed.
Lemma reinsert_app P Q l : reinsert (P ++ Q) l = reinsert Q (reinsert P l).
Proof. unfold reinsert. apply fold_left_app. Qed.

(* ------------------------------------------------------------------ pop in descending order, re-insert in ascending order *)
(* a: the part of the list the modes point into; b: an arbitrary suffix; acc: pairs already popped.  The popped pairs P and the remaining
   prefix a' do not depend on b / acc; re-inserting P into ANY list L of the length of a' gives a list M of the length of a which has
   the popped sizes at the popped modes and from which popping gives back exactly (P, L). *)
Lemma pop_reinsert : forall d a, sdesc d -> (forall m, In m d -> m < length a) ->
  exists P a', (forall b acc, pop_modes d (a ++ b) acc = Ok (P ++ acc, a' ++ b)) /\ length a' + length d = length a /\ length P = length d /\
    forall L, length L = length a' -> exists M, (forall b, reinsert P (L ++ b) = M ++ b) /\ length M = length a /\
      (forall b acc, pop_modes d (M ++ b) acc = Ok (P ++ acc, L ++ b)) /\ (forall m, In m d -> nth m M 0 = nth m a 0).
Proof.
  induction d as [|m d IH]; intros a Hs Hlt.
  - exists [], a. repeat split; try (simpl; lia).
    intros L HL. exists L. repeat split; auto. intros m [].
  - inversion Hs as [|? ? Hs' Hall]; subst. rewrite Forall_forall in Hall.
    destruct (split_at a m (Hlt m (or_introl eq_refl))) as (a1 & s & a2 & -> & Hm).
    destruct (IH a1 Hs') as (P & a1' & Hpop & Hlen & HlP & Hre).
    { intros m' Hm'. rewrite Hm. now apply Hall. }
    exists (P ++ [(m, s)]), (a1' ++ a2). split; [|split; [|split]].
    + intros b acc. simpl. rewrite !app_length. simpl.
      replace (m <? length a1 + S (length a2) + length b) with true by (symmetry; apply Nat.ltb_lt; lia).
      rewrite <- Hm, <- !app_assoc. simpl. rewrite remove_nth_app, nth_app_mid. rewrite Hpop. rewrite <- ?app_assoc; reflexivity.
    + rewrite !app_length. simpl. lia.
    + rewrite app_length. simpl. lia.
    + intros L HL. rewrite app_length in HL.
      destruct (split_len L (length a1')) as (L1 & L2 & -> & HL1); [lia|].
      destruct (Hre L1 HL1) as (M1 & HM1 & HlM1 & HpopM & HnthM).
      exists (M1 ++ s :: L2). split; [|split; [|split]].
      * intros b. rewrite reinsert_app.
        replace ((L1 ++ L2) ++ b) with (L1 ++ (L2 ++ b)) by apply app_assoc. rewrite HM1.
        change (reinsert [(m, s)] (M1 ++ L2 ++ b)) with (insert_at m s (M1 ++ L2 ++ b)).
        rewrite <- Hm, <- HlM1, insert_at_app. rewrite <- app_assoc. reflexivity.
      * rewrite !app_length in *. simpl. lia.
      * intros b acc. simpl. rewrite !app_length. simpl.
        replace (m <? length M1 + S (length L2) + length b) with true by (symmetry; apply Nat.ltb_lt; lia).
        rewrite <- !app_assoc. simpl. assert (Em : m = length M1) by lia.
        replace (remove_nth m (M1 ++ s :: L2 ++ b)) with (M1 ++ L2 ++ b) by (rewrite Em; symmetry; apply remove_nth_app).
        replace (nth m (M1 ++ s :: L2 ++ b) 0) with s by (rewrite Em; symmetry; apply nth_app_mid).
        rewrite HpopM. rewrite <- ?app_assoc; reflexivity.
      * intros m' [<-|Hm'].
        -- assert (Em : m = length M1) by lia.
           transitivity s; [rewrite Em; apply nth_app_mid | rewrite <- Hm; symmetry; apply nth_app_mid].
        -- assert (m' < m) by now apply Hall.
           rewrite !app_nth1 by lia. now apply HnthM.
Qed.

(* ------------------------------------------------------------------ validate_tucker_rank(fixed_modes = ...) *)
(* fraction / 'same': for every duplicate-free list of valid modes, in ANY order: the call is accepted, the result has one rank per mode,
   a fixed mode keeps the size of the tensor (as documented: rank[i] = tensor_shape[i]), and removing the fixed positions from the
   result leaves exactly the ranks computed from the sizes of the free modes, in order, each >= 1 *)
Theorem validate_tucker_rank_fm_frac shape q rd fm c : NoDup fm -> (forall m, In m fm -> m < length shape) ->
  exists r P free,
    validate_tucker_rank_fm shape (RFrac q) rd (Some fm) c = (if brentq_bracket_ok (tucker_residual_fm shape P free q) q then Ok r else Err) /\
    length r = length shape /\ (forall m, In m fm -> nth m r 0 = nth m shape 0) /\
    pop_modes (sort_desc fm) shape [] = Ok (P, free) /\ length free + length fm = length shape /\
    pop_modes (sort_desc fm) r [] = Ok (P, frac_ranks rd c (map n2q free)) /\
    Forall (fun x => 1 <= x) (frac_ranks rd c (map n2q free)).
Proof.
  intros Hnd Hlt.
  destruct (pop_reinsert (sort_desc fm) shape (sort_desc_sdesc fm Hnd)) as (P & free & Hpop & Hlen & HlP & Hre).
  { intros m Hm. apply Hlt. now apply sort_desc_In. }
  assert (Hlf : length (sort_desc fm) = length fm) by (symmetry; apply Permutation_length, sort_desc_perm).
  destruct (Hre (frac_ranks rd c (map n2q free))) as (M & HM & HlM & HpopM & HnthM).
  { now rewrite frac_ranks_length, map_length. }
  exists M, P, free. specialize (Hpop [] []). rewrite !app_nil_r in Hpop.
  split; [|split; [|split; [|split; [|split; [|split]]]]].
  - unfold validate_tucker_rank_fm. rewrite Hpop. cbn [rbind fst snd spec_frac]. specialize (HM []). rewrite !app_nil_r in HM. now rewrite HM.
  - exact HlM.
  - intros m Hm. apply HnthM. now apply sort_desc_In.
  - exact Hpop.
  - lia.
  - specialize (HpopM [] []). now rewrite !app_nil_r in HpopM.
  - apply frac_ranks_pos.
Qed.

(* an int rank: fixed modes keep their size, the others get the int *)
Theorem validate_tucker_rank_fm_int shape r0 rd fm c r : validate_tucker_rank_fm shape (RInt r0) rd (Some fm) c = Ok r ->
  length r = length shape /\ forall i, i < length shape -> nth i r 0 = if Structure.memb i fm then nth i shape 0 else r0.
Proof.
  simpl. intros H. injection H as <-. split.
  - now rewrite map_length, combine_length, seq_length, Nat.min_id.
  - intros i Hi.
    rewrite (nth_map' _ _ _ (0, 0)) by (rewrite combine_length, seq_length; lia).
    rewrite combine_nth by now rewrite seq_length. simpl. now rewrite seq_nth.
Qed.
(* without fixed modes the extended model is the model of Model/Structure.v *)
Lemma validate_tucker_rank_fm_none shape spec rd c : validate_tucker_rank_fm shape spec rd None c = validate_tucker_rank shape spec rd c.
Proof. destruct spec; reflexivity. Qed.

(* ------------------------------------------------------------------ parameter counts *)
Lemma n2q_mul a b : (n2q (a * b) == n2q a * n2q b)%Q.
Proof. unfold n2q. rewrite Nat2Z.inj_mul, inject_Z_mult. reflexivity. Qed.
Lemma n2q_add a b : (n2q (a + b) == n2q a + n2q b)%Q.
Proof. unfold n2q. rewrite Nat2Z.inj_add, inject_Z_plus. reflexivity. Qed.
(* Tucker: at the rational ranks c * I_k the parameter count (core + factors) minus the requested q * prod(shape) IS the function whose
   root the code asks brentq for -- for every c (no root hypothesis): a root reproduces the requested fraction exactly, and an approximate
   root misses it by the residual *)
Lemma tucker_core_count shape c : (qprod (scaled c (map n2q shape)) == qpow c (length shape) * n2q (prod shape))%Q.
Proof.
  induction shape as [|s sh IH].
  - unfold qprod, n2q. simpl. ring.
  - change (qprod (scaled c (map n2q (s :: sh)))) with ((c * n2q s) * qprod (scaled c (map n2q sh)))%Q.
    change (qpow c (length (s :: sh))) with (Qred (c * qpow c (length sh))).
    rewrite IH, Qred_correct. change (prod (s :: sh)) with (s * prod sh). rewrite n2q_mul. ring.
Qed.
Lemma tucker_factor_count shape c :
  (qsum0 (map (fun p => n2q (fst p) * snd p)%Q (combine shape (scaled c (map n2q shape)))) == n2q (sumsq_list shape) * c)%Q.
Proof.
  induction shape as [|s sh IH].
  - unfold qsum0, n2q. simpl. ring.
  - change (qsum0 _) with (n2q s * (c * n2q s) + qsum0 (map (fun p => n2q (fst p) * snd p)%Q (combine sh (scaled c (map n2q sh)))))%Q.
    rewrite IH. change (sumsq_list (s :: sh)) with (s * s + sumsq_list sh). rewrite n2q_add, n2q_mul. ring.
Qed.
Theorem tucker_fraction_identity shape q c :
  (tucker_params shape (scaled c (map n2q shape)) - q * n2q (prod shape) == tucker_residual shape q c)%Q.
Proof.
  unfold tucker_params, tucker_residual. cbv zeta. rewrite Qred_correct, tucker_core_count, tucker_factor_count. ring.
Qed.

(* CP: the rank chosen for a fraction q >= 0 reproduces q * prod(shape) parameters to within one rank-one term (sum(shape) parameters);
   'round' to within half a term *)
Lemma Ok_inj {A} (a b : A) : Ok a = Ok b -> a = b.
Proof. congruence. Qed.
Lemma qround_nat_inject rd x : (0 <= x)%Q -> n2q (qround_nat rd x) = inject_Z (qround rd x).
Proof.
  intros Hx. unfold n2q, qround_nat. rewrite Z2Nat.id; [reflexivity|].
  destruct rd; cbn [qround].
  - pose proof (round_half_even_spec x) as [[H1 H2] _]. cbv zeta in *. set (z := round_half_even x) in *.
    assert (H : (inject_Z (-1) < inject_Z z)%Q) by (change (inject_Z (-1)) with (-1 # 1)%Q; lra).
    rewrite <- Zlt_Qlt in H. lia.
  - change 0%Z with (Qfloor 0). now apply Qfloor_resp_le.
  - change 0%Z with (Qceiling 0). now apply Qceiling_resp_le.
Qed.
Theorem validate_cp_rank_fraction shape q rd r : (0 <= q)%Q -> validate_cp_rank shape (RFrac q) rd = Ok r ->
  let target := (q * n2q (prod shape))%Q in let term := n2q (sum_list shape) in
  (0 < term)%Q /\
  match rd with
  | RFloor => (cp_params shape (n2q r) <= target)%Q /\ (target < cp_params shape (n2q r) + term)%Q
  | RCeil => (cp_params shape (n2q r) - term < target)%Q /\ (target <= cp_params shape (n2q r))%Q
  | RRound => (cp_params shape (n2q r) - term * (1 # 2) <= target)%Q /\ (target <= cp_params shape (n2q r) + term * (1 # 2))%Q
  end.
Proof.
  intros Hq. unfold validate_cp_rank. destruct (sum_list shape =? 0) eqn:E; [discriminate|]. apply Nat.eqb_neq in E.
  intros H. apply Ok_inj in H. subst r. cbv zeta.
  assert (Hs : (0 < n2q (sum_list shape))%Q) by (unfold n2q; change 0%Q with (inject_Z 0); rewrite <- Zlt_Qlt; lia).
  assert (Hp : (0 <= n2q (prod shape))%Q) by (unfold n2q; change 0%Q with (inject_Z 0); rewrite <- Zle_Qle; lia).
  split; [exact Hs|].
  set (S := n2q (sum_list shape)) in *. set (P := n2q (prod shape)) in *.
  set (x := Qred (P * q / S)).
  assert (Hx : (x * S == q * P)%Q) by (unfold x; rewrite Qred_correct; field; lra).
  assert (Hx0 : (0 <= x)%Q).
  { unfold x. rewrite Qred_correct. unfold Qdiv. apply Qmult_le_0_compat; [apply Qmult_le_0_compat; assumption|]. apply Qlt_le_weak, Qinv_lt_0_compat, Hs. }
  unfold cp_params. fold S. rewrite (qround_nat_inject rd x Hx0). clearbody x S P.
  destruct rd; cbn [qround].
  - pose proof (round_half_even_spec x) as [[H1 H2] _]. cbv zeta in *. rewrite <- Hx.
    pose proof (Qmult_le_compat_r _ _ S H1 (Qlt_le_weak _ _ Hs)) as A1.
    pose proof (Qmult_le_compat_r _ _ S H2 (Qlt_le_weak _ _ Hs)) as A2.
    generalize dependent (inject_Z (round_half_even x)). intros z; intros. split; lra.
  - pose proof (qround_floor_spec x) as [H1 H2]. cbn [qround] in H1, H2. rewrite <- Hx.
    pose proof (Qmult_le_compat_r _ _ S H1 (Qlt_le_weak _ _ Hs)) as A1.
    pose proof (Qmult_lt_compat_r _ _ S Hs H2) as A2.
    generalize dependent (inject_Z (Qfloor x)). intros z; intros. split; lra.
  - pose proof (qround_ceil_spec x) as [H1 H2]. cbn [qround] in H1, H2. rewrite <- Hx.
    pose proof (Qmult_lt_compat_r _ _ S Hs H1) as A1.
    pose proof (Qmult_le_compat_r _ _ S H2 (Qlt_le_weak _ _ Hs)) as A2.
    generalize dependent (inject_Z (Qceiling x)). intros z; intros. split; lra.
Qed.

(* TR: a ring of constant rank r has r^2 * sum(shape) parameters; the rank chosen for a fraction q >= 0 is rounding_fun(sqrt(x)) for
   x = q prod(shape) / sum(shape), i.e. (floor) r^2 sum <= q prod < (r+1)^2 sum, (ceil) (r-1)^2 sum < q prod <= r^2 sum,
   (round) (2r-1)^2 sum <= 4 q prod <= (2r+1)^2 sum *)
Lemma tt_params_const shape r : (tt_params shape (repeat r (S (length shape))) == r * r * n2q (sum_list shape))%Q.
Proof.
  induction shape as [|s sh IH].
  - simpl. unfold n2q. simpl. ring.
  - change (repeat r (S (length (s :: sh)))) with (r :: r :: repeat r (length sh)).
    change (tt_params (s :: sh) (r :: r :: repeat r (length sh))) with (r * n2q s * r + tt_params sh (repeat r (S (length sh))))%Q.
    rewrite IH. change (sum_list (s :: sh)) with (s + sum_list sh). rewrite n2q_add. ring.
Qed.
Lemma zsq_le_q (a : Z) x : (a * Zpos (Qden x) <= Qnum x)%Z <-> (inject_Z a <= x)%Q.
Proof. unfold Qle. simpl. rewrite Z.mul_1_r. reflexivity. Qed.
Lemma zsq_lt_q (a : Z) x : (Qnum x < a * Zpos (Qden x))%Z <-> (x < inject_Z a)%Q.
Proof. unfold Qlt. simpl. rewrite Z.mul_1_r. reflexivity. Qed.
Lemma zsq_ge_q (a : Z) x : (Qnum x <= a * Zpos (Qden x))%Z <-> (x <= inject_Z a)%Q.
Proof. unfold Qle. simpl. rewrite Z.mul_1_r. reflexivity. Qed.
Lemma zsq_gt_q (a : Z) x : (a * Zpos (Qden x) < Qnum x)%Z <-> (inject_Z a < x)%Q.
Proof. unfold Qlt. simpl. rewrite Z.mul_1_r. reflexivity. Qed.

Lemma q4_ge (a : Z) x : (a * Zpos (Qden x) <= 4 * Qnum x)%Z -> (inject_Z a <= 4 * x)%Q.
Proof. intros H. unfold Qle. change (Qnum (inject_Z a)) with a. change (Qnum (4 * x)) with (4 * Qnum x)%Z.
  change (QDen (4 * x)) with (Zpos (1 * Qden x)). change (QDen (inject_Z a)) with 1%Z. rewrite Pos.mul_1_l. lia. Qed.
Lemma q4_le (a : Z) x : (4 * Qnum x <= a * Zpos (Qden x))%Z -> (4 * x <= inject_Z a)%Q.
Proof. intros H. unfold Qle. change (Qnum (inject_Z a)) with a. change (Qnum (4 * x)) with (4 * Qnum x)%Z.
  change (QDen (4 * x)) with (Zpos (1 * Qden x)). change (QDen (inject_Z a)) with 1%Z. rewrite Pos.mul_1_l. lia. Qed.

Theorem validate_tr_rank_fraction shape q rd rk : (0 <= q)%Q -> validate_tr_rank shape (RFrac q) rd = Ok rk ->
  exists r : nat, rk = repeat r (S (length shape)) /\
  let target := (q * n2q (prod shape))%Q in let params (z : Q) := tt_params shape (repeat z (S (length shape))) in
  match rd with
  | RFloor => (params (n2q r) <= target)%Q /\ (target < params (n2q r + 1))%Q
  | RCeil => (0 < target)%Q -> (params (n2q r - 1) < target)%Q /\ (target <= params (n2q r))%Q
  | RRound => (1 <= r -> (params (2 * n2q r - 1) <= 4 * target)%Q) /\ (4 * target <= params (2 * n2q r + 1))%Q
  end.
Proof.
  intros Hq. unfold validate_tr_rank. destruct (sum_list shape =? 0) eqn:E; [discriminate|]. apply Nat.eqb_neq in E.
  intros H. apply Ok_inj in H. subst rk. eexists. split; [reflexivity|]. cbv beta zeta.
  assert (Hs : (0 < n2q (sum_list shape))%Q) by (unfold n2q; change 0%Q with (inject_Z 0); rewrite <- Zlt_Qlt; lia).
  assert (Hp : (0 <= n2q (prod shape))%Q) by (unfold n2q; change 0%Q with (inject_Z 0); rewrite <- Zle_Qle; lia).
  set (S := n2q (sum_list shape)) in *. set (P := n2q (prod shape)) in *.
  set (x := Qred (P * q / S)).
  assert (Hx : (x * S == q * P)%Q) by (unfold x; rewrite Qred_correct; field; lra).
  assert (Hx0 : (0 <= x)%Q).
  { unfold x. rewrite Qred_correct. unfold Qdiv. apply Qmult_le_0_compat; [apply Qmult_le_0_compat; assumption|]. apply Qlt_le_weak, Qinv_lt_0_compat, Hs. }
  assert (Hn0 : (0 <= Qnum x)%Z) by (unfold Qle in Hx0; simpl in Hx0; lia).
  destruct rd; rewrite !tt_params_const; fold S; rewrite <- Hx.
  - pose proof (sqrt_round_round_spec x Hn0) as (H0 & H1 & H2 & _). cbv zeta in *.
    set (r := sqrt_round RRound x) in *. unfold n2q at 1 2 3 4. rewrite Z2Nat.id by exact H0.
    split.
    + intros Hr. assert (Hr' : (1 <= r)%Z).
      { destruct (Z.to_nat r) eqn:Er; [lia|]. lia. }
      specialize (H2 Hr').
      assert (H2q : (inject_Z ((2 * r - 1) * (2 * r - 1)) <= 4 * x)%Q) by (apply q4_ge; exact H2).
      unfold Z.sub in H2q. rewrite inject_Z_mult, inject_Z_plus, inject_Z_mult in H2q. change (inject_Z 2) with 2%Q in H2q. change (inject_Z (- (1))) with (- (1))%Q in H2q.
      pose proof (Qmult_le_compat_r _ _ S H2q (Qlt_le_weak _ _ Hs)) as A.
      clearbody x S P. generalize dependent (inject_Z r). intros z; intros. lra.
    + assert (H1q : (4 * x <= inject_Z ((2 * r + 1) * (2 * r + 1)))%Q) by (apply q4_le; exact H1).
      rewrite inject_Z_mult, inject_Z_plus, inject_Z_mult in H1q. change (inject_Z 2) with 2%Q in H1q. change (inject_Z 1) with 1%Q in H1q.
      pose proof (Qmult_le_compat_r _ _ S H1q (Qlt_le_weak _ _ Hs)) as A.
      clearbody x S P. generalize dependent (inject_Z r). intros z; intros. lra.
  - pose proof (sqrt_round_floor_spec x Hn0) as (H0 & H1 & H2). cbv zeta in *.
    set (r := sqrt_round RFloor x) in *. unfold n2q at 1 2 3 4. rewrite Z2Nat.id by exact H0.
    apply zsq_le_q in H1. apply zsq_lt_q in H2. rewrite inject_Z_mult in H1. rewrite inject_Z_mult, inject_Z_plus in H2. change (inject_Z 1) with 1%Q in H2.
    pose proof (Qmult_le_compat_r _ _ S H1 (Qlt_le_weak _ _ Hs)) as A1.
    pose proof (Qmult_lt_compat_r _ _ S Hs H2) as A2.
    clearbody x S P. generalize dependent (inject_Z r). intros z; intros. split; lra.
  - intros Hpos.
    assert (Hxp : (0 < Qnum x)%Z).
    { assert (0 < x * S)%Q by lra. destruct (Z.eq_dec (Qnum x) 0) as [Ez|Ez]; [|lia].
      exfalso. assert (x == 0)%Q by (unfold Qeq; simpl; lia). rewrite H0 in H. lra. }
    pose proof (sqrt_round_ceil_spec x Hxp) as (H1 & H2). cbv zeta in *.
    set (r := sqrt_round RCeil x) in *.
    assert (H0 : (0 <= r)%Z).
    { destruct (Z_lt_le_dec r 0) as [Hneg|]; [|assumption]. exfalso. unfold r, sqrt_round in Hneg.
      assert (0 <= Z.sqrt (Qnum x * Z.pos (Qden x)) / Z.pos (Qden x))%Z by (apply Z.div_pos; [apply Z.sqrt_nonneg | lia]).
      destruct (_ =? _)%Z in Hneg; lia. }
    unfold n2q at 1 2 3 4. rewrite Z2Nat.id by exact H0.
    apply zsq_gt_q in H1. apply zsq_ge_q in H2. unfold Z.sub in H1. rewrite inject_Z_mult, inject_Z_plus in H1. rewrite inject_Z_mult in H2. change (inject_Z (- (1))) with (- (1))%Q in H1.
    pose proof (Qmult_lt_compat_r _ _ S Hs H1) as A1.
    pose proof (Qmult_le_compat_r _ _ S H2 (Qlt_le_weak _ _ Hs)) as A2.
    clearbody x S P. generalize dependent (inject_Z r). intros z; intros. split; lra.
Qed.

(* ------------------------------------------------------------------ brentq's bracket: with at least one free mode and q >= 0 the signs differ *)
Lemma qpow_ge_1 b n : (1 <= b)%Q -> (1 <= qpow b n)%Q.
Proof.
  intros Hb. induction n as [|n IH]; [apply Qle_refl|].
  cbn [qpow]. rewrite Qred_correct. nra.
Qed.
Lemma qpow_ge_base b n : (1 <= b)%Q -> (b <= qpow b (S n))%Q.
Proof. intros Hb. cbn [qpow]. rewrite Qred_correct. pose proof (qpow_ge_1 b n Hb). nra. Qed.
Lemma qpow_0 n : (qpow 0 (S n) == 0)%Q.
Proof. cbn [qpow]. rewrite Qred_correct. ring. Qed.
Lemma n2q_nonneg k : (0 <= n2q k)%Q.
Proof. unfold n2q. change 0%Q with (inject_Z 0). rewrite <- Zle_Qle. lia. Qed.
Theorem brentq_bracket_free shape fixed free q : length fixed < length shape -> (0 <= q)%Q ->
  brentq_bracket_ok (tucker_residual_fm shape fixed free q) q = true.
Proof.
  intros Hn Hq. unfold brentq_bracket_ok. cbv zeta.
  set (b := if Qle_bool q 1 then 1%Q else q).
  assert (Hb1 : (1 <= b)%Q).
  { unfold b. destruct (Qle_bool q 1) eqn:E; [apply Qle_refl|].
    destruct (Qlt_le_dec 1 q) as [H|H]; [now apply Qlt_le_weak|]. apply Qle_bool_iff in H. congruence. }
  assert (Hbq : (q <= b)%Q).
  { unfold b. destruct (Qle_bool q 1) eqn:E; [now apply Qle_bool_iff | apply Qle_refl]. }
  apply Qle_bool_iff. rewrite Qred_correct. unfold tucker_residual_fm. cbv zeta. rewrite !Qred_correct.
  destruct (length shape - length fixed) as [|n'] eqn:En; [lia|].
  rewrite qpow_0. pose proof (qpow_ge_base b n' Hb1) as Hp.
  pose proof (n2q_nonneg (prod shape)) as HP. pose proof (n2q_nonneg (sumsq_list free)) as Ha. pose proof (n2q_nonneg (sumsq_list (map snd fixed))) as Hf.
  set (P := n2q (prod shape)) in *. set (A := n2q (sumsq_list free)) in *. set (F := n2q (sumsq_list (map snd fixed))) in *.
  set (pw := qpow b (S n')) in *. clearbody P A F pw b.
  assert (H0 : (P * 0 + A * 0 + F * 0 - q * P == - (q * P))%Q) by ring. rewrite H0.
  assert (H1 : (0 <= q * P)%Q) by nra.
  assert (H2 : (0 <= P * pw + A * b + F * b - q * P)%Q) by nra.
  nra.
Qed.
(* ... hence with at least one free mode and q >= 0 the call is ACCEPTED (for every duplicate-free list of valid modes, in any order) *)
Theorem validate_tucker_rank_fm_accepted shape q rd fm c : NoDup fm -> (forall m, In m fm -> m < length shape) ->
  length fm < length shape -> (0 <= q)%Q ->
  exists r, validate_tucker_rank_fm shape (RFrac q) rd (Some fm) c = Ok r /\ length r = length shape /\
            (forall m, In m fm -> nth m r 0 = nth m shape 0).
Proof.
  intros Hnd Hlt Hfree Hq.
  destruct (pop_reinsert (sort_desc fm) shape (sort_desc_sdesc fm Hnd)) as (P & free & Hpop & Hlen & HlP & Hre).
  { intros m Hm. apply Hlt. now apply sort_desc_In. }
  assert (Hlf : length (sort_desc fm) = length fm) by (symmetry; apply Permutation_length, sort_desc_perm).
  destruct (Hre (frac_ranks rd c (map n2q free))) as (M & HM & HlM & _ & HnthM).
  { now rewrite frac_ranks_length, map_length. }
  exists M. specialize (Hpop [] []). rewrite !app_nil_r in Hpop. split; [|split].
  - unfold validate_tucker_rank_fm. rewrite Hpop. cbn [rbind fst snd spec_frac].
    rewrite brentq_bracket_free by (try lia; exact Hq). specialize (HM []). rewrite !app_nil_r in HM. now rewrite HM.
  - exact HlM.
  - intros m Hm. apply HnthM. now apply sort_desc_In.
Qed.

(* ------------------------------------------------------------------ TT: the quadratic solved for a fractional rank IS the parameter count *)
(* sum_i A_i * S_i * B_i over three lists, recursively and by index *)
Fixpoint zip3sum (A : list Q) (S : list nat) (B : list Q) : Q :=
  match A, S, B with
  | a :: A', s :: S', b :: B' => (a * n2q s * b + zip3sum A' S' B')%Q
  | _, _, _ => 0%Q
  end.
Lemma qsum_qsum0 l : (qsum l == qsum0 l)%Q.
Proof.
  induction l as [|x l IH]; [reflexivity|].
  change (qsum (x :: l)) with (Qred (x + qsum l)). change (qsum0 (x :: l)) with (x + qsum0 l)%Q. rewrite Qred_correct, IH. reflexivity.
Qed.
Lemma qsum0_map_ext {X} (f g : X -> Q) l : (forall x, In x l -> (f x == g x)%Q) -> (qsum0 (map f l) == qsum0 (map g l))%Q.
Proof.
  induction l as [|x l IH]; intros H; simpl; [reflexivity|].
  rewrite (H x (or_introl eq_refl)), IH; [reflexivity|]. intros y Hy. apply H. now right.
Qed.
Lemma zip3sum_index : forall m A S B, length A = m -> length S = m -> length B = m ->
  (qsum0 (map (fun i => nth i A 0 * n2q (nth i S 0%nat) * nth i B 0)%Q (seq 0 m)) == zip3sum A S B)%Q.
Proof.
  induction m as [|m IH]; intros [|a A] [|s S] [|b B] HA HS HB; try discriminate; simpl; [reflexivity|].
  rewrite <- seq_shift, map_map. simpl in HA, HS, HB.
  rewrite <- (IH A S B) by lia. reflexivity.
Qed.
(* the middle coefficient of tt_quadratic: sum_{i = 1}^{n-2} av_{i-1} * shape_i * av_i *)
Lemma tt_mid_coeff : forall (s0 : nat) (sh : list nat) (a0 : Q) (av : list Q), length sh = S (length av) ->
  (qsum (map (fun i => Qred (nth (i - 1)%nat (a0 :: av) 0%Q * n2q (nth i (s0 :: sh) 0%nat) * nth i (a0 :: av) 0%Q)%Q) (seq 1 (length av)))
   == zip3sum (removelast (a0 :: av)) (removelast sh) av)%Q.
Proof.
  intros s0 sh a0 av Hl. rewrite qsum_qsum0, <- seq_shift, map_map.
  rewrite <- (zip3sum_index (length av)).
  - apply qsum0_map_ext. intros i Hi. apply in_seq in Hi. rewrite Qred_correct.
    replace (S i - 1) with i by lia. change (nth (S i) (s0 :: sh) 0%nat) with (nth i sh 0%nat). change (nth (S i) (a0 :: av) 0%Q) with (nth i av 0%Q).
    assert (E1 : nth i (a0 :: av) 0%Q = nth i (removelast (a0 :: av)) 0%Q).
    { rewrite <- (firstn_skipn (length av) (a0 :: av)) at 1.
      assert (Hf : removelast (a0 :: av) = firstn (length av) (a0 :: av)).
      { rewrite removelast_firstn_len. simpl length. f_equal. }
      rewrite Hf. rewrite app_nth1; [reflexivity|]. rewrite firstn_length. simpl length. lia. }
    assert (E2 : nth i sh 0%nat = nth i (removelast sh) 0%nat).
    { assert (Hf : removelast sh = firstn (length av) sh) by (rewrite removelast_firstn_len; f_equal; lia).
      rewrite Hf. rewrite <- (firstn_skipn (length av) sh) at 1. rewrite app_nth1; [reflexivity|]. rewrite firstn_length. lia. }
    rewrite E1, E2. reflexivity.
  - rewrite removelast_firstn_len, firstn_length. simpl length. lia.
  - rewrite removelast_firstn_len, firstn_length. lia.
  - reflexivity.
Qed.
(* parameter count of the TT with ranks (r0, c av_0, ..., c av_m-1, 1), unrolled along the cores *)
Lemma tt_params_scaled c : forall (A : list Q) (sh : list nat), A <> [] -> length sh = length A ->
  (tt_params sh (scaled c A ++ [1%Q]) == c * c * zip3sum (removelast A) (removelast sh) (tl A) + c * (last A 0 * n2q (last sh 0%nat)))%Q.
Proof.
  induction A as [|a A IH]; intros sh Hne Hl; [contradiction|].
  destruct sh as [|s sh]; [discriminate|]. destruct A as [|a' A].
  - destruct sh; [|discriminate]. simpl. ring.
  - destruct sh as [|s' sh]; [discriminate|].
    change (scaled c (a :: a' :: A) ++ [1%Q]) with ((c * a) :: (c * a') :: (scaled c A ++ [1%Q]))%Q.
    change (tt_params (s :: s' :: sh) ((c * a) :: (c * a') :: (scaled c A ++ [1%Q]))%Q)
      with ((c * a) * n2q s * (c * a') + tt_params (s' :: sh) (scaled c (a' :: A) ++ [1%Q]))%Q.
    rewrite IH by (try discriminate; simpl in *; lia).
    change (removelast (a :: a' :: A)) with (a :: removelast (a' :: A)).
    change (removelast (s :: s' :: sh)) with (s :: removelast (s' :: sh)).
    change (tl (a :: a' :: A)) with (a' :: A).
    change (last (a :: a' :: A) 0%Q) with (last (a' :: A) 0%Q). change (last (s :: s' :: sh) 0%nat) with (last (s' :: sh) 0%nat).
    cbn [zip3sum]. destruct A; simpl tl; ring.
Qed.
(* TT of order >= 3, proportional ranks (constant_rank = False): at the rational ranks (1, c a_1, ..., c a_N-1, 1), a_k the averaged neighbouring
   sizes, the parameter count minus the requested q * prod(shape) IS the quadratic a c^2 + b c + c0 whose root the code takes, for every c *)
Theorem tt_fraction_identity shape q c : 3 <= length shape ->
  (tt_params shape (1%Q :: scaled c (avg_dims shape) ++ [1%Q]) - q * n2q (prod shape) == tt_residual (tt_quadratic shape q) c)%Q.
Proof.
  intros Hn. pose proof (avg_dims_length shape) as Hav.
  unfold tt_quadratic. cbv zeta. remember (avg_dims shape) as av eqn:Eav. clear Eav.
  destruct shape as [|s0 sh]; [simpl in Hn; lia|]. simpl length in *.
  destruct av as [|a0 av']; [simpl in Hav; lia|]. destruct av' as [|a1 av'']; [simpl in Hav; lia|].
  set (av' := a1 :: av'') in *.
  assert (Hsh : length sh = S (length av')) by (unfold av' in *; simpl in *; lia).
  assert (Hne : sh <> []) by (destruct sh; [simpl in Hsh; lia | discriminate]).
  unfold tt_residual. rewrite !Qred_correct.
  replace (S (length sh) - 2) with (length av') by lia.
  rewrite (tt_mid_coeff s0 sh a0 av' Hsh).
  change (scaled c (a0 :: av') ++ [1%Q]) with ((c * a0)%Q :: (scaled c av' ++ [1%Q])).
  assert (Hsplit : (tt_params (s0 :: sh) (1%Q :: (c * a0)%Q :: (scaled c av' ++ [1%Q])) ==
                    1 * n2q s0 * (c * a0) + tt_params sh (scaled c (a0 :: av') ++ [1%Q]))%Q) by reflexivity.
  rewrite Hsplit. rewrite (tt_params_scaled c (a0 :: av') sh) by (try discriminate; simpl; simpl in Hsh; lia).
  change (tl (a0 :: av')) with av'. change (hd 0%nat (s0 :: sh)) with s0. change (hd 0%Q (a0 :: av')) with a0.
  rewrite (last_cons_ne s0 sh 0%nat Hne).
  ring.
Qed.

(* TT with constant_rank = True: ranks (1, r, ..., r, 1) *)
Lemma tt_params_const_mid r : forall sh, sh <> [] ->
  (tt_params sh (repeat r (length sh) ++ [1%Q]) == r * r * n2q (sum_list (removelast sh)) + r * n2q (last sh 0%nat))%Q.
Proof.
  induction sh as [|s sh IH]; intros Hne; [contradiction|]. destruct sh as [|s' sh].
  - simpl. unfold n2q at 2. simpl. ring.
  - change (repeat r (length (s :: s' :: sh)) ++ [1%Q]) with (r :: (repeat r (length (s' :: sh)) ++ [1%Q])).
    change (repeat r (length (s' :: sh)) ++ [1%Q]) with (r :: (repeat r (length sh) ++ [1%Q])) at 1.
    change (tt_params (s :: s' :: sh) (r :: r :: (repeat r (length sh) ++ [1%Q])))
      with (r * n2q s * r + tt_params (s' :: sh) (r :: (repeat r (length sh) ++ [1%Q])))%Q.
    change (r :: (repeat r (length sh) ++ [1%Q])) with (repeat r (length (s' :: sh)) ++ [1%Q]).
    rewrite IH by discriminate.
    change (removelast (s :: s' :: sh)) with (s :: removelast (s' :: sh)). change (last (s :: s' :: sh) 0%nat) with (last (s' :: sh) 0%nat).
    change (sum_list (s :: removelast (s' :: sh))) with (s + sum_list (removelast (s' :: sh))). rewrite n2q_add. ring.
Qed.
Theorem tt_fraction_identity_const shape q r : 2 <= length shape ->
  (tt_params shape (1%Q :: repeat r (length shape - 1) ++ [1%Q]) - q * n2q (prod shape) == tt_residual (tt_quadratic_const shape q) r)%Q.
Proof.
  intros Hn. destruct shape as [|s0 sh]; [simpl in Hn; lia|]. destruct sh as [|s1 sh]; [simpl in Hn; lia|].
  replace (length (s0 :: s1 :: sh) - 1) with (length (s1 :: sh)) by (simpl; lia).
  assert (Hsplit : (tt_params (s0 :: s1 :: sh) (1%Q :: repeat r (length (s1 :: sh)) ++ [1%Q]) ==
                    1 * n2q s0 * r + tt_params (s1 :: sh) (repeat r (length (s1 :: sh)) ++ [1%Q]))%Q) by reflexivity.
  rewrite Hsplit, tt_params_const_mid by discriminate.
  unfold tt_quadratic_const, tt_residual. rewrite !Qred_correct.
  change (tl (s0 :: s1 :: sh)) with (s1 :: sh). change (hd 0%nat (s0 :: s1 :: sh)) with s0.
  change (last (s0 :: s1 :: sh) 0%nat) with (last (s1 :: sh) 0%nat). rewrite n2q_add. ring.
Qed.

(* ------------------------------------------------------------------ within bounds: a fraction q <= 1 never asks for more than the size *)
(* brentq returns a point of its bracket [0, max(q, 1)]: for q <= 1 that is 0 <= c <= 1, and then every rank max(rounding_fun(c I_k), 1) is at
   most I_k, whatever the rounding mode *)
Lemma qround_nat_le rd x (s : nat) : (0 <= x)%Q -> (x <= n2q s)%Q -> qround_nat rd x <= s.
Proof.
  intros H0 Hs. unfold qround_nat. apply Nat2Z.inj_le. rewrite Z2Nat.id.
  - unfold n2q in Hs. destruct rd; cbn [qround].
    + pose proof (round_half_even_spec x) as [[H1 _] _]. cbv zeta in H1. set (z := round_half_even x) in *.
      assert (H : (inject_Z z < inject_Z (Z.of_nat s + 1))%Q) by (rewrite inject_Z_plus; change (inject_Z 1) with 1%Q; lra).
      rewrite <- Zlt_Qlt in H. lia.
    + pose proof (qround_floor_spec x) as [H1 _]. cbn [qround] in H1.
      assert (H : (inject_Z (Qfloor x) <= inject_Z (Z.of_nat s))%Q) by lra. rewrite <- Zle_Qle in H. exact H.
    + pose proof (qround_ceil_spec x) as [H1 _]. cbn [qround] in H1.
      assert (H : (inject_Z (Qceiling x) < inject_Z (Z.of_nat s + 1))%Q) by (rewrite inject_Z_plus; change (inject_Z 1) with 1%Q; lra).
      rewrite <- Zlt_Qlt in H. lia.
  - destruct rd; cbn [qround].
    + pose proof (round_half_even_spec x) as [[_ H2] _]. cbv zeta in H2. set (z := round_half_even x) in *.
      assert (H : (inject_Z (-1) < inject_Z z)%Q) by (change (inject_Z (-1)) with (-1 # 1)%Q; lra).
      rewrite <- Zlt_Qlt in H. lia.
    + change 0%Z with (Qfloor 0). now apply Qfloor_resp_le.
    + change 0%Z with (Qceiling 0). now apply Qceiling_resp_le.
Qed.
Theorem frac_ranks_le rd c : (0 <= c)%Q -> (c <= 1)%Q -> forall shape k, Forall (fun s => 1 <= s) shape -> k < length shape ->
  nth k (frac_ranks rd c (map n2q shape)) 0 <= nth k shape 0.
Proof.
  intros H0 H1 shape k Hpos Hk. unfold frac_ranks. rewrite map_map.
  rewrite (nth_map' _ _ _ 0) by exact Hk. set (s := nth k shape 0).
  assert (Hs : 1 <= s) by (rewrite Forall_forall in Hpos; apply Hpos, nth_In, Hk).
  pose proof (n2q_nonneg s) as Hn.
  assert (Hx0 : (0 <= Qred (n2q s * c))%Q) by (rewrite Qred_correct; nra).
  assert (Hxs : (Qred (n2q s * c) <= n2q s)%Q) by (rewrite Qred_correct; nra).
  pose proof (qround_nat_le rd _ s Hx0 Hxs). lia.
Qed.
Theorem validate_tucker_rank_frac_le shape q rd c r : validate_tucker_rank shape (RFrac q) rd c = Ok r ->
  (0 <= c)%Q -> (c <= 1)%Q -> Forall (fun s => 1 <= s) shape -> length r = length shape /\ forall k, k < length shape -> 1 <= nth k r 0 <= nth k shape 0.
Proof.
  intros H H0 H1 Hpos. simpl in H. apply Ok_inj in H. subst r. split; [now rewrite frac_ranks_length, map_length|].
  intros k Hk. split; [|now apply frac_ranks_le].
  pose proof (frac_ranks_pos rd c (map n2q shape)) as Hp. rewrite Forall_forall in Hp. apply Hp, nth_In.
  now rewrite frac_ranks_length, map_length.
Qed.
