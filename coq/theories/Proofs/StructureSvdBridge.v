(* C08 -- bridge to C05 (read-only import of C05's model of svd_interface / truncated_svd and of its theorem
   interface_truncated_e2e_gen): the SVD contract that the HOOI theorems of Proofs/StructureHooiConj.v take as a hypothesis ("the U that
   svd_interface returns has orthonormal columns, I_i x min(rank_i, I_i)") is DISCHARGED for method = 'truncated_svd' from LAPACK's
   contract alone (tl.svd(matrix, full_matrices=f) returns orthonormal factors of the documented shapes reproducing the matrix):
   every call goes through C05's svd_interface model (n_eigenvecs clamping, full_matrices choice, slicing, svd_flip). *)
From Coq Require Import List Arith Bool Lia Reals RealField.
From TLV Require Import Base.PyList Base.Ops Base.Tensor Base.RSum Base.BigSum Model.Svd Proofs.SvdProofsAux Proofs.SvdProofs Proofs.SvdInterfaceProofs
  Proofs.SvdWitness Proofs.SvdSymeigFull Proofs.SvdInterfaceAll Proofs.SvdSymeigBest Model.Structure Model.StructureHooi Proofs.StructureConj Proofs.StructureConjR Proofs.StructureHooiConj Proofs.StructureTTConj.
Import ListNotations.
Local Open Scope nat_scope.

Lemma bigsum_rsum n f : bigsum R 0%R Rplus n f = rsum n f.
Proof. induction n; simpl; [reflexivity | now rewrite IHn]. Qed.
Lemma orthonormal_unitary m c U : orthonormal_cols m c U -> unitary_cols R 0%R 1%R Rplus Rmult (fun x => x) m c U.
Proof.
  intros H a b Ha Hb. rewrite bigsum_rsum, (H a b Ha Hb). unfold kdelta.
  destruct (Nat.eq_dec a b) as [->|Hn]; [now rewrite Nat.eqb_refl|]. apply Nat.eqb_neq in Hn. now rewrite Hn.
Qed.

(* one call svd_interface(matrix, n_eigenvecs=r, method='truncated_svd', flip_sign=flip) on a d1 x d2 matrix; orc X f is LAPACK's answer
   tl.svd(X, full_matrices=f) *)
Definition lapack_funs (orc : list (list R) -> bool -> triple R) (d1 d2 : nat) (n : option nat) : fname -> nat -> list (list R) -> triple R :=
  fun _ _ X => truncated_svd (orc X) d1 d2 n.
Definition svd_interface_U (orc : list (list R) -> bool -> triple R) (flip ub : bool) (d1 d2 r : nat) (M : list (list R)) : nat -> nat -> R :=
  match svd_interface Rops (lapack_funs orc d1 d2 (Some r)) MTruncated d2 M (Some r) flip ub None None 0 sqrt 0%R with
  | Ok (U, _, _) => mget Rops U
  | Err => fun _ _ => 0%R
  end.

Lemma svd_interface_U_unitary orc flip ub d1 d2 r M : 1 <= d1 ->
  (forall f, svd_contract d1 d2 (mget Rops M) f (orc M f)) ->
  unitary_cols R 0%R 1%R Rplus Rmult (fun x => x) d1 (Nat.min r d1) (svd_interface_U orc flip ub d1 d2 r M).
Proof.
  intros Hd HC. unfold svd_interface_U.
  destruct (svd_interface Rops (lapack_funs orc d1 d2 (Some r)) MTruncated d2 M (Some r) flip ub None None 0 sqrt 0%R) as [[[U Sg] V]|] eqn:E.
  - pose proof (interface_truncated_e2e_gen orc (lapack_funs orc d1 d2 (Some r)) d1 d2 M (Some r) flip ub 0 sqrt 0%R U Sg V HC
                  (fun c X => eq_refl) Hd E) as H.
    cbv zeta in H. destruct H as (_ & _ & _ & HU & _).
    apply orthonormal_unitary. eapply orthonormal_cols_sub; [|exact HU].
    rewrite n_kept_spec. lia.
  - exfalso. rewrite (interface_unfold _ MTruncated FTruncated) in E by reflexivity. discriminate.
Qed.

Section Bridge.
  Variables (shape ranks : list nat).
  Hypothesis Hlen : length ranks = length shape.
  Hypothesis Hpos : forall i, i < length shape -> 1 <= nth i shape 0.
  Variable orc : list (list R) -> bool -> triple R.                          (* LAPACK *)
  Variables (flip ub : bool).
  (* the matrices the code hands to svd_interface (the mode-i unfolding of the tensor in initialize_tucker, of the tensor projected on
     the other factors in the sweep) with their number of columns: ARBITRARY here -- the orthonormality of U does not depend on them *)
  Variable unf0 : nat -> tens R -> list (list R).
  Variable cols0 : nat -> tens R -> nat.
  Variable unfU : nat -> tens R -> list (nat -> nat -> R) -> list (list R).
  Variable colsU : nat -> tens R -> list (nat -> nat -> R) -> nat.
  (* LAPACK's contract on exactly these matrices *)
  Hypothesis Hl0 : forall i X f, i < length shape -> svd_contract (nth i shape 0) (cols0 i X) (mget Rops (unf0 i X)) f (orc (unf0 i X) f).
  Hypothesis HlU : forall i X fs f, i < length shape ->
    svd_contract (nth i shape 0) (colsU i X fs) (mget Rops (unfU i X fs)) f (orc (unfU i X fs) f).
  Variable imp : tens R -> tens R -> list (nat -> nat -> R) -> tens R.

  Definition lsvd0 (i : nat) (X : tens R) : nat -> nat -> R :=
    svd_interface_U orc flip ub (nth i shape 0) (cols0 i X) (nth i ranks 0) (unf0 i X).
  Definition lsvdU (i : nat) (X : tens R) (fs : list (nat -> nat -> R)) : nat -> nat -> R :=
    svd_interface_U orc flip ub (nth i shape 0) (colsU i X fs) (nth i ranks 0) (unfU i X fs).
  (* the number of columns every factor ends up with: min(rank_i, I_i), as in the shape model Structure.tucker *)
  Definition clipped : list nat := map (fun p => Nat.min (snd p) (fst p)) (combine shape ranks).
  Lemma clipped_length : length clipped = length shape.
  Proof. unfold clipped. rewrite map_length, combine_length, Hlen. apply Nat.min_id. Qed.
  Lemma clipped_nth i : i < length shape -> nth i clipped 0 = Nat.min (nth i ranks 0) (nth i shape 0).
  Proof.
    intros Hi. unfold clipped.
    assert (Hc : i < length (combine shape ranks)) by (rewrite combine_length, Hlen, Nat.min_id; exact Hi).
    rewrite (nth_map' _ _ _ (0, 0)) by exact Hc.
    rewrite combine_nth by (symmetry; exact Hlen). reflexivity.
  Qed.

  (* HOOI with method = 'truncated_svd' under LAPACK's contract only: the returned factors are orthonormal with min(rank_i, I_i) columns and
     the returned core is the projection of the (imputed) data onto the RETURNED factors *)
  Theorem hooi_lapack_canonical ik mask tol_set n decisions X G0 fs0 :
    ik = InitSvd \/ (0 < n /\ length fs0 = length shape) ->
    let '(X', G', fs') := hooi_K R 0%R 1%R Rplus Rmult (fun x => x) shape lsvd0 lsvdU imp ik mask tol_set n decisions X G0 fs0 in
    unitary_all R 0%R 1%R Rplus Rmult (fun x => x) shape clipped fs' /\
    (forall jdx, G' jdx = tproj R 0%R 1%R Rplus Rmult (fun x => x) shape fs' X' jdx) /\ (mask = false -> X' = X).
  Proof.
    apply (hooi_K_canonical R 0%R 1%R Rplus Rmult (fun x => x) shape clipped clipped_length lsvd0 lsvdU).
    - intros i X0 Hi. rewrite clipped_nth by exact Hi. apply svd_interface_U_unitary; [now apply Hpos | intros f; now apply Hl0].
    - intros i X0 fs Hi. rewrite clipped_nth by exact Hi. apply svd_interface_U_unitary; [now apply Hpos | intros f; now apply HlU].
  Qed.
End Bridge.

(* non-vacuity: LAPACK's contract is satisfiable on the matrices of a run (C05's witness: the 2 x 1 matrix (2, 0)^T) *)
Lemma bridge_hyps_ex : forall i (X : tens R) f, i < length [2] ->
  svd_contract (nth i [2] 0) 1 (mget Rops Mtall) f (orc_tall Mtall f).
Proof. intros i X f Hi. simpl in Hi. assert (i = 0) by lia. subst. simpl. apply contract_tall. Qed.

(* ------------------------------------------------------------------ method = 'symeig_svd' (eigh of the Gram matrix) *)
(* C05's theorem interface_symeig_e2e: eigh is LAPACK's symmetric eigensolver (any function whose answer on the Gram matrix the code builds
   meets eigh_contract2: W orthogonal, G W = W diag(lam)), epsd the machine-epsilon clip; the kept eigenvalues must exceed the clip (full
   numerical rank: symeig_svd on rank-deficient input is a documented limitation registered under C05) *)
Definition symeig_funs (eigh : list (list R) -> list R * list (list R)) (epsd : R) (d1 d2 : nat) (n : option nat)
  : fname -> nat -> list (list R) -> triple R := fun _ _ X => symeig_svd Rops eigh sqrt epsd X d1 d2 n.
Definition svd_interface_symeig_U eigh epsd (flip ub : bool) (d1 d2 r : nat) (M : list (list R)) : nat -> nat -> R :=
  match svd_interface Rops (symeig_funs eigh epsd d1 d2 (Some r)) MSymeig d2 M (Some r) flip ub None None 0 sqrt 0%R with
  | Ok (U, _, _) => mget Rops U
  | Err => fun _ _ => 0%R
  end.
(* the hypotheses of C05's theorem for one call *)
Definition symeig_call_ok (eigh : list (list R) -> list R * list (list R)) (epsd : R) (d1 d2 r : nat) (M : list (list R)) : Prop :=
  let d := if d2 <? d1 then d1 else d2 in
  let Gm := if d2 <? d1 then mmul Rops d1 M (transp Rops d2 M) else mmul Rops d2 (transp Rops d2 M) M in
  rect d1 d2 M /\ 1 <= d1 /\
  (forall G0, length (fst (eigh G0)) = d /\ rect d d (snd (eigh G0))) /\
  eigh_contract2 d Gm (fst (eigh Gm)) (snd (eigh Gm)) /\
  n_kept d1 d2 (Some r) <= Nat.min d1 d2 /\
  (forall t, t < n_kept d1 d2 (Some r) -> (0 <= epsd < nth (d - 1 - t) (fst (eigh Gm)) 0)%R).
Lemma svd_interface_symeig_U_unitary eigh epsd flip ub d1 d2 r M : symeig_call_ok eigh epsd d1 d2 r M ->
  unitary_cols R 0%R 1%R Rplus Rmult (fun x => x) d1 (Nat.min r d1) (svd_interface_symeig_U eigh epsd flip ub d1 d2 r M).
Proof.
  unfold symeig_call_ok. cbv zeta. intros (HM & Hd & HSH & HC & Hk & Heps). unfold svd_interface_symeig_U.
  destruct (svd_interface Rops (symeig_funs eigh epsd d1 d2 (Some r)) MSymeig d2 M (Some r) flip ub None None 0 sqrt 0%R) as [[[U Sg] V]|] eqn:E.
  - pose proof (interface_symeig_e2e eigh (symeig_funs eigh epsd d1 d2 (Some r)) epsd M d1 d2 (Some r) _ _ flip ub 0 sqrt 0%R U Sg V
                  HM Hd HSH (surjective_pairing _) HC Hk Heps (fun cl X => eq_refl) E) as H.
    cbv zeta in H. destruct H as (_ & _ & HU & _).
    apply orthonormal_unitary. eapply orthonormal_cols_sub; [|exact HU].
    rewrite n_kept_spec in *. lia.
  - exfalso. rewrite (interface_unfold _ MSymeig FSymeig) in E by reflexivity. discriminate.
Qed.

Section BridgeSymeig.
  Variables (shape ranks : list nat).
  Hypothesis Hlen : length ranks = length shape.
  Variable eigh : list (list R) -> list R * list (list R).
  Variable epsd : R.
  Variables (flip ub : bool).
  Variable unf0 : nat -> tens R -> list (list R).
  Variable cols0 : nat -> tens R -> nat.
  Variable unfU : nat -> tens R -> list (nat -> nat -> R) -> list (list R).
  Variable colsU : nat -> tens R -> list (nat -> nat -> R) -> nat.
  Hypothesis Hs0 : forall i X, i < length shape -> symeig_call_ok eigh epsd (nth i shape 0) (cols0 i X) (nth i ranks 0) (unf0 i X).
  Hypothesis HsU : forall i X fs, i < length shape -> symeig_call_ok eigh epsd (nth i shape 0) (colsU i X fs) (nth i ranks 0) (unfU i X fs).
  Variable imp : tens R -> tens R -> list (nat -> nat -> R) -> tens R.
  Definition ssvd0 (i : nat) (X : tens R) : nat -> nat -> R :=
    svd_interface_symeig_U eigh epsd flip ub (nth i shape 0) (cols0 i X) (nth i ranks 0) (unf0 i X).
  Definition ssvdU (i : nat) (X : tens R) (fs : list (nat -> nat -> R)) : nat -> nat -> R :=
    svd_interface_symeig_U eigh epsd flip ub (nth i shape 0) (colsU i X fs) (nth i ranks 0) (unfU i X fs).
  (* HOOI whose SVD calls all go through method = 'symeig_svd' (the initialisation of tucker / partial_tucker with svd='symeig_svd'; the sweep of
     the present code always uses the default method): orthonormal factors with min(rank_i, I_i) columns, core = projection *)
  Theorem hooi_symeig_canonical ik mask tol_set n decisions X G0 fs0 :
    ik = InitSvd \/ (0 < n /\ length fs0 = length shape) ->
    let '(X', G', fs') := hooi_K R 0%R 1%R Rplus Rmult (fun x => x) shape ssvd0 ssvdU imp ik mask tol_set n decisions X G0 fs0 in
    unitary_all R 0%R 1%R Rplus Rmult (fun x => x) shape (clipped shape ranks) fs' /\
    (forall jdx, G' jdx = tproj R 0%R 1%R Rplus Rmult (fun x => x) shape fs' X' jdx) /\ (mask = false -> X' = X).
  Proof.
    apply (hooi_K_canonical R 0%R 1%R Rplus Rmult (fun x => x) shape (clipped shape ranks) (clipped_length shape ranks Hlen) ssvd0 ssvdU).
    - intros i X0 Hi. rewrite (clipped_nth shape ranks Hlen) by exact Hi. apply svd_interface_symeig_U_unitary. now apply Hs0.
    - intros i X0 fs Hi. rewrite (clipped_nth shape ranks Hlen) by exact Hi. apply svd_interface_symeig_U_unitary. now apply HsU.
  Qed.
End BridgeSymeig.
(* non-vacuity (C05's witness: M = [[2]], Gram [[4]], eigenpair (4, e1), clip 1) *)
Lemma symeig_call_ok_ex : symeig_call_ok (fun _ => ([4%R], [[1%R]])) 1%R 1 1 1 [[2%R]].
Proof.
  pose proof (symeig_interface_hyps_satisfiable (fun _ X => ([], [], [])) (fun _ X => ([], [], [])) (fun _ X => ([], [], []))) as H.
  cbv zeta in H. destruct H as (H1 & H2 & H3 & H4 & H5 & _ & H7 & H8 & _).
  unfold symeig_call_ok. cbv zeta. change (1 <? 1) with false. cbv iota.
  split; [exact H1|]. split; [exact H2|]. split; [exact H3|]. split; [exact H5|]. split; [exact H7 | exact H8].
Qed.

(* ------------------------------------------------------------------ TT-SVD / TR-SVD under LAPACK's contract (`_partial`: see below) *)
(* The loop theorems of Proofs/StructureTTConj.v quantify their SVD contract over EVERY matrix; LAPACK's contract on every matrix is the
   existence of a singular value decomposition -- a classical result that is in no installed library, hence a NAMED HYPOTHESIS here and the
   theorems are `_partial` (brief, hard rule 4).  tab: the unfolding as a list of rows. *)
Definition tab (n m : nat) (M : nat -> nat -> R) : list (list R) := map (fun i => map (fun j => M i j) (seq 0 m)) (seq 0 n).
Section BridgeTT.
  Variable orc : list (list R) -> bool -> triple R.
  Variables (flip ub : bool).
  Hypothesis lapack_svd_exists : forall d1 d2 (Ml : list (list R)) f, svd_contract d1 d2 (mget Rops Ml) f (orc Ml f).
  Variable svdSV : nat -> nat -> (nat -> nat -> R) -> nat -> nat -> nat -> R.
  Definition tsvdU (n_row n_col : nat) (M : nat -> nat -> R) (r : nat) : nat -> nat -> R :=
    fun i j => svd_interface_U orc flip ub n_row n_col r (tab n_row n_col M) i j.
  Lemma tsvdU_contract n_row n_col M r : r <= Nat.min n_row n_col ->
    unitary_cols R 0%R 1%R Rplus Rmult (fun x => x) n_row r (tsvdU n_row n_col M r).
  Proof.
    intros Hr. destruct n_row as [|n'].
    - intros a b Ha. lia.
    - replace r with (Nat.min r (S n')) at 1 by lia.
      apply (svd_interface_U_unitary orc flip ub (S n') n_col r (tab (S n') n_col M)); [lia | intros f; apply lapack_svd_exists].
  Qed.
  Theorem tensor_train_lapack_partial shape spec c X cores :
    tensor_train_K R tsvdU svdSV shape spec c X = Ok cores ->
    tensor_train shape spec c = Ok (map (cshape R) cores) /\
    (forall k, S k < length cores -> left_unitary R 0%R 1%R Rplus Rmult (fun x => x) (nth k cores (mkCore R 0 0 0 (fun _ _ _ => 0%R)))).
  Proof.
    intros H.
    destruct (tensor_train_K_canonical R 0%R 1%R Rplus Rmult Rminus Ropp RTheory (fun x => x) tsvdU svdSV tsvdU_contract shape spec c X cores H) as (H1 & _ & H3).
    split; assumption.
  Qed.
  Theorem tensor_ring_lapack_partial shape rank X cores :
    tr_cores_K R tsvdU svdSV shape rank X = Ok cores ->
    tr_cores shape rank = Ok (map (cshape R) cores) /\
    first_core_unitary R 0%R 1%R Rplus Rmult (fun x => x) (hd (mkCore R 0 0 0 (fun _ _ _ => 0%R)) cores) /\
    (forall k, 1 <= k -> S k < length cores -> left_unitary R 0%R 1%R Rplus Rmult (fun x => x) (nth k cores (mkCore R 0 0 0 (fun _ _ _ => 0%R)))).
  Proof.
    intros H.
    destruct (tr_cores_K_canonical R 0%R 1%R Rplus Rmult Rminus Ropp RTheory (fun x => x) tsvdU svdSV tsvdU_contract shape rank X cores H) as (H1 & _ & _ & _ & H5 & H6).
    repeat split; assumption.
  Qed.
End BridgeTT.
