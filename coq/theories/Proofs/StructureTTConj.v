(* C08 -- the loops of tensor_train (TT-SVD) and tensor_ring (TR-SVD) on concrete data over a ring with conjugation.
   The SVD call is a Section variable with its contract (U has unitary columns); everything else is the code's arithmetic:
     unfolding <- reshape(unfolding, (rank[k] * I_k, -1)) ; current_rank = min(n_row, n_column, rank[k+1]) ;
     U, S, V = svd(unfolding, current_rank) ; factors[k] = reshape(U, (rank[k], I_k, current_rank)) ; unfolding <- S * V ;
     last factor = reshape(unfolding, (prev_rank, I_last, 1))           (TR: first core from U reshaped and transposed; last core closes the ring)
   ONE theorem per decomposition about this loop model: the core shapes are those of the shape model of Model/Structure.v (hence boundary
   ranks 1 / equal first and last rank, rank chain, ranks = validated ranks after clipping), and all but the last core are left-unitary
   (TR: the first core's mode unfolding has unitary columns, the middle cores are left-unitary). *)
From Coq Require Import List Arith Bool Lia Ring QArith.
From TLV Require Import Base.Shape Base.Tensor Base.BigSum Model.Structure Model.StructureHooi Proofs.StructureProofs Proofs.StructureProofs2 Proofs.StructureConj.
Import ListNotations.
Local Open Scope nat_scope.

Section TTConj.
  Variable K : Type.
  Variables (k0 k1 : K) (kadd kmul ksub : K -> K -> K) (kopp : K -> K).
  Hypothesis Kth : ring_theory k0 k1 kadd kmul ksub kopp (@eq K).
  Variable conj : K -> K.
  Notation mat := (nat -> nat -> K).
  Notation ucols := (unitary_cols K k0 k1 kadd kmul conj).
  Notation S := (bigsum K k0 kadd).
  Infix "*k" := kmul (at level 40, left associativity).

  (* svd_interface(M (n_row x n_col), n_eigenvecs = r): (U, S * V); contract: the first r columns of U are orthonormal (U^H U = I_r) *)
  Variable svdU : nat -> nat -> mat -> nat -> mat.
  Variable svdSV : nat -> nat -> mat -> nat -> mat.
  Hypothesis Hsvd : forall n_row n_col M r, r <= Nat.min n_row n_col -> ucols n_row r (svdU n_row n_col M r).

  (* a core: its shape (r0, I, r1) and its entries *)
  Record kcore := mkCore { c_r0 : nat; c_I : nat; c_r1 : nat; c_e : nat -> nat -> nat -> K }.
  Definition cshape (c : kcore) : list nat := [c_r0 c; c_I c; c_r1 c].
  (* reshape of a row-major (rows x cols) matrix to n_col' columns: entry (p, q) is the flat entry p * n_col' + q *)
  Definition reshape_mat (cols cols' : nat) (M : mat) : mat := fun p q => M ((p * cols' + q) / cols) ((p * cols' + q) mod cols).
  Definition left_unitary (c : kcore) : Prop := forall b b', b < c_r1 c -> b' < c_r1 c ->
    S (c_r0 c) (fun a => S (c_I c) (fun i => conj (c_e c a i b) *k c_e c a i b')) = kdelta K k0 k1 b b'.

  (* ---------------------------------------------------------------- tensor_train: the loop over the modes *)
  (* rk: rank carried from the left; cols: number of columns of the current unfolding M (rk rows... as stored); ranks: requested rank[k+1 ..] *)
  Fixpoint tt_loop (rk cols : nat) (shape ranks : list nat) (M : mat) : list kcore :=
    match shape with
    | [] => []
    | s :: rest =>
        match rest with
        | [] => [mkCore rk s 1 (fun a i _ => M a i)]
        | _ :: _ =>
            let n_row := rk * s in let n_col := prod rest in
            let cur := Nat.min (Nat.min n_row n_col) (hd 0 ranks) in
            let M' := reshape_mat cols n_col M in
            mkCore rk s cur (kcore_of K s (svdU n_row n_col M' cur)) :: tt_loop cur n_col rest (tl ranks) (svdSV n_row n_col M' cur)
        end
    end.
  Definition tensor_train_K (shape : list nat) (spec : rspec) (c : Q) (X : mat) : res (list kcore) :=
    rbind (validate_tt_rank shape spec false RRound true c) (fun rank =>
    if length shape <=? 1 then Err else Ok (tt_loop (hd 0 rank) (prod shape) shape (tl rank) X)).

  Lemma tt_loop_cons rk cols s rest ranks M : rest <> [] ->
    tt_loop rk cols (s :: rest) ranks M =
    mkCore rk s (tt_cur rk s rest ranks) (kcore_of K s (svdU (rk * s) (prod rest) (reshape_mat cols (prod rest) M) (tt_cur rk s rest ranks)))
      :: tt_loop (tt_cur rk s rest ranks) (prod rest) rest (tl ranks) (svdSV (rk * s) (prod rest) (reshape_mat cols (prod rest) M) (tt_cur rk s rest ranks)).
  Proof. destruct rest; [congruence | reflexivity]. Qed.
  Lemma tt_loop_shapes : forall shape rk cols ranks M, map cshape (tt_loop rk cols shape ranks M) = tt_cores rk shape ranks.
  Proof.
    induction shape as [|s rest IH]; intros; [reflexivity|]. destruct rest as [|s' rest']; [reflexivity|].
    rewrite tt_loop_cons, tt_cores_cons by discriminate. cbn [map]. rewrite IH. reflexivity.
  Qed.
  Lemma tt_loop_left_unitary : forall shape rk cols ranks M k, Datatypes.S k < length shape ->
    left_unitary (nth k (tt_loop rk cols shape ranks M) (mkCore 0 0 0 (fun _ _ _ => k0))).
  Proof.
    induction shape as [|s rest IH]; intros rk cols ranks M k Hk; [simpl in Hk; lia|].
    destruct rest as [|s' rest']; [simpl in Hk; lia|].
    rewrite tt_loop_cons by discriminate. destruct k as [|k].
    - cbn [nth]. intros b b' Hb Hb'. cbn [c_r0 c_I c_r1 c_e] in *.
      apply (tt_core_left_unitary K k0 k1 kadd kmul ksub kopp Kth conj rk s _ _ _ (Hsvd _ _ _ _ (Nat.le_min_l _ _)) (le_n _)); assumption.
    - cbn [nth]. apply IH. cbn [length] in *. lia.
  Qed.

  (* THE theorem about tensor_train: shapes of the shape model (boundary ranks 1, one core per mode, ranks bounded by and -- without
     over-parametrisation -- equal to the validated ranks) and every core but the last left-unitary *)
  Theorem tensor_train_K_canonical shape spec c X cores : tensor_train_K shape spec c X = Ok cores ->
    tensor_train shape spec c = Ok (map cshape cores) /\
    (let rs := core_ranks (map cshape cores) in
     length cores = length shape /\ core_modes (map cshape cores) = shape /\ hd 0 rs = 1 /\ last rs 0 = 1 /\
     (forall r, validate_tt_rank shape spec false RRound false c = Ok r -> rs = r)) /\
    (forall k, Datatypes.S k < length cores -> left_unitary (nth k cores (mkCore 0 0 0 (fun _ _ _ => k0)))).
  Proof.
    intros H. unfold tensor_train_K in H.
    destruct (validate_tt_rank shape spec false RRound true c) as [rank|] eqn:Ev; [|discriminate]. simpl in H.
    destruct (length shape <=? 1) eqn:El; [discriminate|]. inversion H; subst cores; clear H.
    assert (Hshape : tensor_train shape spec c = Ok (map cshape (tt_loop (hd 0 rank) (prod shape) shape (tl rank) X))).
    { unfold tensor_train. rewrite Ev. simpl. rewrite El. now rewrite tt_loop_shapes. }
    split; [exact Hshape|]. split.
    - destruct (tensor_train_structure _ _ _ _ Hshape) as (req & _ & Hl & Hm & _ & Hh & Hla & _).
      rewrite map_length in Hl. repeat split; try assumption.
      intros r Hr. exact (tensor_train_ranks_predicted _ _ _ _ _ Hshape Hr).
    - intros k Hk. apply tt_loop_left_unitary.
      rewrite <- (map_length cshape), tt_loop_shapes, tt_cores_length in Hk. exact Hk.
  Qed.

  (* ---------------------------------------------------------------- tensor_ring: first core from U (I_0 x r0 r1), then the TT-like loop, last core closes the ring *)
  Fixpoint tr_loop (r0 rk cols : nat) (shape ranks : list nat) (M : mat) : list kcore :=
    match shape with
    | [] => []
    | s :: rest =>
        match rest with
        | [] => [mkCore rk s r0 (fun a i b => M a (i * r0 + b))]
        | _ :: _ =>
            let n_row := rk * s in let n_col := prod rest * r0 in
            let cur := Nat.min (Nat.min n_row n_col) (hd 0 ranks) in
            let M' := reshape_mat cols n_col M in
            mkCore rk s cur (kcore_of K s (svdU n_row n_col M' cur)) :: tr_loop r0 cur n_col rest (tl ranks) (svdSV n_row n_col M' cur)
        end
    end.
  (* the unfolding after the first step: (S V) reshaped (r0, r1, -1) and transposed (1, 2, 0), as a matrix with r1 rows *)
  Definition tr_rotate_unfolding (r0 r1 ncol : nat) (W : mat) : mat :=
    fun b q => W ((q mod r0) * r1 + b) (q / r0).
  Definition tr_tail (r0 r1 s0 : nat) (rest rks : list nat) (X : mat) : list kcore :=
    tr_loop r0 r1 (prod rest * r0) rest rks (tr_rotate_unfolding r0 r1 (prod rest) (svdSV s0 (prod rest) X (r0 * r1))).
  Definition tr_cores_K (shape rank : list nat) (X : mat) : res (list kcore) :=
    match shape, rank with
    | s0 :: rest, r0 :: r1 :: rks =>
        match rest with
        | [] => Err
        | _ :: _ => if Nat.min s0 (prod rest) <? r0 * r1 then Err
                    else Ok (mkCore r0 s0 r1 (ktr_first_core K r1 (svdU s0 (prod rest) X (r0 * r1))) :: tr_tail r0 r1 s0 rest rks X)
        end
    | _, _ => Err
    end.
  (* X: the data already transposed to start at `mode` (a permutation of the entries) *)
  Definition tensor_ring_K (shape : list nat) (spec : rspec) (mode : nat) (X : mat) : res (list kcore) :=
    rbind (validate_tr_rank shape spec RRound) (fun rank =>
    let n := length shape in
    if n <=? mode then Err else
    rbind (tr_cores_K (rot mode shape) (if mode =? 0 then rank else rot_ring mode rank) X) (fun cores => Ok (rot (n - mode) cores))).

  Lemma tr_loop_cons r0 rk cols s rest ranks M : rest <> [] ->
    tr_loop r0 rk cols (s :: rest) ranks M =
    mkCore rk s (tr_cur r0 rk s rest ranks) (kcore_of K s (svdU (rk * s) (prod rest * r0) (reshape_mat cols (prod rest * r0) M) (tr_cur r0 rk s rest ranks)))
      :: tr_loop r0 (tr_cur r0 rk s rest ranks) (prod rest * r0) rest (tl ranks) (svdSV (rk * s) (prod rest * r0) (reshape_mat cols (prod rest * r0) M) (tr_cur r0 rk s rest ranks)).
  Proof. destruct rest; [congruence | reflexivity]. Qed.
  Lemma tr_loop_length : forall shape r0 rk cols ranks M, length (tr_loop r0 rk cols shape ranks M) = length shape.
  Proof.
    induction shape as [|s rest IH]; intros; [reflexivity|]. destruct rest as [|s' rest']; [reflexivity|].
    rewrite tr_loop_cons by discriminate. cbn [length]. now rewrite IH.
  Qed.
  Lemma last_cons_ne {A} (x : A) l d : l <> [] -> last (x :: l) d = last l d.
  Proof. destruct l; [congruence | reflexivity]. Qed.
  Lemma tr_loop_last : forall shape r0 rk cols ranks M, shape <> [] ->
    c_r1 (last (tr_loop r0 rk cols shape ranks M) (mkCore 0 0 0 (fun _ _ _ => k0))) = r0.
  Proof.
    induction shape as [|s rest IH]; intros r0 rk cols ranks M Hn; [congruence|]. destruct rest as [|s' rest']; [reflexivity|].
    rewrite tr_loop_cons by discriminate.
    rewrite last_cons_ne by (intro E; apply (f_equal (@length kcore)) in E; rewrite tr_loop_length in E; discriminate).
    apply IH. discriminate.
  Qed.
  Lemma tr_loop_shapes : forall shape r0 rk cols ranks M, map cshape (tr_loop r0 rk cols shape ranks M) = tr_mid r0 rk shape ranks.
  Proof.
    induction shape as [|s rest IH]; intros; [reflexivity|]. destruct rest as [|s' rest']; [reflexivity|].
    rewrite tr_loop_cons, tr_mid_cons by discriminate. cbn [map]. rewrite IH. reflexivity.
  Qed.
  Lemma tr_loop_left_unitary : forall shape r0 rk cols ranks M k, Datatypes.S k < length shape ->
    left_unitary (nth k (tr_loop r0 rk cols shape ranks M) (mkCore 0 0 0 (fun _ _ _ => k0))).
  Proof.
    induction shape as [|s rest IH]; intros r0 rk cols ranks M k Hk; [simpl in Hk; lia|].
    destruct rest as [|s' rest']; [simpl in Hk; lia|].
    rewrite tr_loop_cons by discriminate. destruct k as [|k].
    - cbn [nth]. intros b b' Hb Hb'. cbn [c_r0 c_I c_r1 c_e] in *.
      apply (tt_core_left_unitary K k0 k1 kadd kmul ksub kopp Kth conj rk s _ _ _ (Hsvd _ _ _ _ (Nat.le_min_l _ _)) (le_n _)); assumption.
    - cbn [nth]. apply IH. cbn [length] in *. lia.
  Qed.
  Lemma tr_cores_K_shapes shape rank X cores : tr_cores_K shape rank X = Ok cores -> tr_cores shape rank = Ok (map cshape cores).
  Proof.
    unfold tr_cores_K, tr_cores. destruct shape as [|s0 rest]; [discriminate|]. destruct rank as [|r0 [|r1 rks]]; try discriminate.
    destruct rest as [|s1 rest]; [discriminate|]. destruct (Nat.min s0 (prod (s1 :: rest)) <? r0 * r1); [discriminate|].
    intros H. apply (f_equal (fun r => match r with Ok l => Ok (map cshape l) | Err => Err end)) in H. cbv beta iota in H.
    rewrite <- H. cbn [map]. unfold tr_tail. rewrite tr_loop_shapes. reflexivity.
  Qed.
  Definition first_core_unitary (c : kcore) : Prop := forall a b a' b', a < c_r0 c -> b < c_r1 c -> a' < c_r0 c -> b' < c_r1 c ->
    S (c_I c) (fun i => conj (c_e c a i b) *k c_e c a' i b') = kmul (kdelta K k0 k1 a a') (kdelta K k0 k1 b b').

  (* THE theorem about tensor_ring (cores in computation order, i.e. before the final rotation back by `mode`): shapes of the shape model (closed
     rank chain with equal first and last rank, the first core has exactly the requested ranks), the first core's mode unfolding has unitary
     columns, the middle cores are left-unitary *)
  Theorem tr_cores_K_canonical shape rank X cores : tr_cores_K shape rank X = Ok cores ->
    tr_cores shape rank = Ok (map cshape cores) /\ length cores = length shape /\
    cshape (hd (mkCore 0 0 0 (fun _ _ _ => k0)) cores) = [hd 0 rank; hd 0 shape; nth 1 rank 0] /\
    c_r1 (last cores (mkCore 0 0 0 (fun _ _ _ => k0))) = c_r0 (hd (mkCore 0 0 0 (fun _ _ _ => k0)) cores) /\
    first_core_unitary (hd (mkCore 0 0 0 (fun _ _ _ => k0)) cores) /\
    (forall k, 1 <= k -> Datatypes.S k < length cores -> left_unitary (nth k cores (mkCore 0 0 0 (fun _ _ _ => k0)))).
  Proof.
    intros H. pose proof (tr_cores_K_shapes _ _ _ _ H) as Hs. split; [exact Hs|].
    unfold tr_cores_K in H. destruct shape as [|s0 rest]; [discriminate|]. destruct rank as [|r0 [|r1 rks]]; try discriminate.
    destruct rest as [|s1 rest]; [discriminate|]. destruct (Nat.min s0 (prod (s1 :: rest)) <? r0 * r1) eqn:Em; [discriminate|].
    apply Nat.ltb_ge in Em.
    assert (Hc : cores = mkCore r0 s0 r1 (ktr_first_core K r1 (svdU s0 (prod (s1 :: rest)) X (r0 * r1))) :: tr_tail r0 r1 s0 (s1 :: rest) rks X) by congruence.
    subst cores. clear H.
    assert (Ltl : length (tr_tail r0 r1 s0 (s1 :: rest) rks X) = length (s1 :: rest)) by apply tr_loop_length.
    split; [cbn [length]; now rewrite Ltl|]. split; [reflexivity|]. split.
    - cbn [hd c_r0]. rewrite last_cons_ne by (intro E; rewrite E in Ltl; discriminate). unfold tr_tail.
      apply tr_loop_last. discriminate.
    - split.
      + cbn [hd]. intros a b a' b' Ha Hb Ha' Hb'. cbn [c_r0 c_I c_r1 c_e] in *.
        apply (tr_first_core_unitary K k0 k1 kadd kmul ksub kopp Kth conj s0 r0 r1 _ (Hsvd _ _ _ _ Em)); assumption.
      + intros k Hk1 Hk. destruct k as [|k]; [lia|]. cbn [nth]. unfold tr_tail. apply tr_loop_left_unitary.
        cbn [length] in Hk. rewrite Ltl in Hk. cbn [length] in *. lia.
  Qed.

  (* ---------------------------------------------------------------- tensor_train_matrix: tensor_train of the tensor with input / output modes merged pairwise *)
  Definition tensor_train_matrix_K (tshape : list nat) (spec : rspec) (c : Q) (X : mat) : res (list kcore) :=
    let n := length tshape / 2 in
    if negb (n * 2 =? length tshape) then Err
    else if n =? 1 then Err                     (* a single core: the matrix itself, no SVD *)
    else tensor_train_K (map (fun p => fst p * snd p) (combine (firstn n tshape) (skipn n tshape))) spec c X.
  Definition split_core (t : list nat * (nat * nat)) : list nat := let '(cr, io) := t in [nth 0 cr 0; fst io; snd io; nth 2 cr 0].
  (* THE theorem about tensor_train_matrix: core k is the TT core of the merged mode I_k * O_k split back to (r_k, I_k, O_k, r_k+1) -- the shapes of the
     shape model (boundary ranks 1) -- and all but the last core are left-unitary over the merged mode *)
  Theorem tensor_train_matrix_K_canonical tshape spec c X cores : tensor_train_matrix_K tshape spec c X = Ok cores ->
    let n := length tshape / 2 in
    tensor_train_matrix tshape spec c = Ok (map split_core (combine (map cshape cores) (combine (firstn n tshape) (skipn n tshape)))) /\
    (forall k, Datatypes.S k < length cores -> left_unitary (nth k cores (mkCore 0 0 0 (fun _ _ _ => k0)))).
  Proof.
    intros H. unfold tensor_train_matrix_K, tensor_train_matrix in *. cbv zeta in *. set (n := length tshape / 2) in *.
    destruct (negb (n * 2 =? length tshape)); [discriminate|]. destruct (n =? 1); [discriminate|].
    destruct (tensor_train_K_canonical _ _ _ _ _ H) as (Hs & _ & Hu). split; [|exact Hu].
    rewrite Hs. reflexivity.
  Qed.
End TTConj.

(* the SVD contract is satisfiable over every ring with conjugation (an "SVD" answering the identity matrix) *)
Lemma svd_contract_satisfiable (K : Type) (k0 k1 : K) (kadd kmul ksub : K -> K -> K) (kopp : K -> K)
  (Kth : ring_theory k0 k1 kadd kmul ksub kopp (@eq K)) (conj : K -> K) (Hc : is_conj kadd kmul conj) :
  forall n_row n_col (M : nat -> nat -> K) r, r <= Nat.min n_row n_col -> unitary_cols K k0 k1 kadd kmul conj n_row r (kdelta K k0 k1).
Proof.
  intros n_row n_col M r H. apply (unitary_cols_truncate K k0 k1 kadd kmul conj n_row n_row r).
  - now apply (unitary_identity_b K k0 k1 kadd kmul ksub kopp Kth conj Hc).
  - lia.
Qed.
