(* C08 -- the loop of tensor_ring_als at the level of shapes: on cores that form a CLOSED chain (rank[0] = rank[n], what
   validate_tr_rank guarantees) every least-squares sub-problem of every sweep is well formed and the update gives core dim
   the shape (rank[dim], shape[dim], rank[dim+1]) again, so the result of any number of sweeps on any stopping path has the
   validated structure.  The closing of the ring is what makes the sub-chain contraction and the reshape of the design
   matrix go through: on an open chain the model (like NumPy) fails. *)
From Coq Require Import List Arith Bool Lia.
From TLV Require Import Base.Shape Base.PyList Base.Tensor Model.Structure Model.StructureTrAls Proofs.StructureProofs.
Import ListNotations.
Local Open Scope nat_scope.

Lemma tra_mod_wrap n a : 0 < n -> a < 2 * n -> a mod n = if a <? n then a else a - n.
Proof.
  intros Hn Ha. destruct (a <? n) eqn:E.
  - apply Nat.ltb_lt in E. apply Nat.mod_small; lia.
  - apply Nat.ltb_ge in E. replace a with ((a - n) + 1 * n) at 1 by lia. rewrite Nat.mod_add by lia. apply Nat.mod_small; lia.
Qed.

Lemma tra_rank_succ_mod rank n : 0 < n -> nth n rank 0 = nth 0 rank 0 ->
  forall a, nth (S (a mod n)) rank 0 = nth ((S a) mod n) rank 0.
Proof.
  intros Hn Hc a. pose proof (Nat.mod_upper_bound a n ltac:(lia)) as Hm. pose proof (Nat.div_mod a n ltac:(lia)) as Hd.
  assert (E : S a = S (a mod n) + (a / n) * n) by lia. rewrite E at 1. rewrite Nat.mod_add by lia.
  clear E Hd. generalize dependent (a mod n). intros m Hm.
  destruct (Nat.eq_dec (S m) n) as [e|ne].
  - rewrite e, Nat.mod_same by lia. exact Hc.
  - rewrite Nat.mod_small by lia. reflexivity.
Qed.

Lemma tra_last_nth (m : list nat) : last m 0 = nth (length m - 1) m 0.
Proof.
  induction m as [|y m IH]; [reflexivity|]. destruct m as [|z m]; [reflexivity|].
  change (last (y :: z :: m) 0) with (last (z :: m) 0). rewrite IH. cbn [length].
  replace (S (S (length m)) - 1) with (S (S (length m) - 1)) by lia. reflexivity.
Qed.
Lemma tra_hd_last_nth (l : list nat) n : length l = S n -> hd 0 l = last l 0 -> nth n l 0 = nth 0 l 0.
Proof.
  intros Hl Hh. rewrite tra_last_nth, Hl in Hh. replace (S n - 1) with n in Hh by lia.
  destruct l as [|x l]; [discriminate|]. symmetry. exact Hh.
Qed.

Lemma tra_nth_cores shape rank i : i < length shape -> nth i (trals_cores shape rank) [] = trals_core shape rank i.
Proof.
  intros Hi. unfold trals_cores. rewrite nth_indep with (d' := trals_core shape rank 0) by (now rewrite map_length, seq_length).
  rewrite map_nth. now rewrite seq_nth.
Qed.

Lemma tra_tensordot1_snoc (l : list nat) x b0 b' : l <> [] ->
  trals_tensordot1 (l ++ [x]) (b0 :: b') = if x =? b0 then Ok (l ++ b') else Err.
Proof.
  intros Hl. destruct l as [|a l]; [congruence|]. unfold trals_tensordot1. change ((a :: l) ++ [x]) with (a :: (l ++ [x])) at 1.
  cbv iota. rewrite last_last, removelast_last. reflexivity.
Qed.

Section Chain.
  Variables (shape rank : list nat).
  Let n := length shape.
  Hypothesis Hn : 2 <= n.
  Hypothesis Hclosed : nth n rank 0 = nth 0 rank 0.

  Definition tra_chain (d k : nat) : list nat :=
    (nth ((d + 1) mod n) rank 0 :: map (fun p => nth ((d + p) mod n) shape 0) (seq 1 k)) ++ [nth (S ((d + k) mod n)) rank 0].

  Lemma tra_tensordot_chain d k : 1 <= k ->
    trals_tensordot1 (tra_chain d k) (nth ((d + S k) mod n) (trals_cores shape rank) []) = Ok (tra_chain d (S k)).
  Proof.
    intros Hk. rewrite tra_nth_cores by (apply Nat.mod_upper_bound; unfold n in *; lia).
    unfold tra_chain, trals_core. rewrite tra_tensordot1_snoc by discriminate.
    rewrite (tra_rank_succ_mod rank n ltac:(lia) Hclosed (d + k)).
    replace (S (d + k)) with (d + S k) by lia. rewrite Nat.eqb_refl.
    rewrite seq_S, map_app. cbn [map app]. f_equal. f_equal. rewrite <- app_assoc. cbn [app].
    replace (1 + k) with (S k) by lia. reflexivity.
  Qed.

  Lemma tra_subchain_chain d : forall len k, 1 <= k ->
    trals_subchain (trals_cores shape rank) n d (seq (S k) len) (tra_chain d k) = Ok (tra_chain d (k + len)).
  Proof.
    induction len as [|len IH]; intros k Hk.
    - simpl. now rewrite Nat.add_0_r.
    - change (seq (S k) (S len)) with (S k :: seq (S (S k)) len). cbn [trals_subchain].
      rewrite (tra_tensordot_chain d k Hk). cbn [rbind]. rewrite IH by lia. f_equal. f_equal. lia.
  Qed.

  Lemma tra_chain_1 d : nth ((d + 1) mod n) (trals_cores shape rank) [] = tra_chain d 1.
  Proof.
    rewrite tra_nth_cores by (apply Nat.mod_upper_bound; unfold n in *; lia). reflexivity.
  Qed.

  Lemma tra_sub d : trals_subchain (trals_cores shape rank) n d (seq 2 (n - 2)) (nth ((d + 1) mod n) (trals_cores shape rank) []) = Ok (tra_chain d (n - 1)).
  Proof.
    rewrite tra_chain_1. rewrite (tra_subchain_chain d (n - 2) 1) by lia. f_equal. f_equal. lia.
  Qed.

  Lemma tra_chain_length d k : length (tra_chain d k) = S (S k).
  Proof. unfold tra_chain. rewrite app_length. simpl. rewrite map_length, seq_length. lia. Qed.

  (* entries of the contracted sub-chain *)
  Lemma tra_chain_nth d k p : 1 <= p <= k -> nth p (tra_chain d k) 0 = nth ((d + p) mod n) shape 0.
  Proof.
    intros Hp. unfold tra_chain. rewrite app_nth1 by (simpl; rewrite map_length, seq_length; lia).
    destruct p as [|q]; [lia|]. cbn [nth].
    rewrite nth_indep with (d' := (fun p => nth ((d + p) mod n) shape 0) 0) by (rewrite map_length, seq_length; lia).
    rewrite (map_nth (fun p => nth ((d + p) mod n) shape 0)). rewrite seq_nth by lia. reflexivity.
  Qed.
  Lemma tra_chain_nth_0 d k : nth 0 (tra_chain d k) 0 = nth ((d + 1) mod n) rank 0.
  Proof. reflexivity. Qed.
  Lemma tra_chain_nth_last d k : nth (S k) (tra_chain d k) 0 = nth (S ((d + k) mod n)) rank 0.
  Proof.
    unfold tra_chain. rewrite app_nth2 by (simpl; rewrite map_length, seq_length; lia).
    simpl length. rewrite map_length, seq_length. replace (S k - S k) with 0 by lia. reflexivity.
  Qed.
End Chain.

Lemma tra_map_nth_firstn (l : list nat) : forall d, d <= length l -> map (fun i => nth i l 0) (seq 0 d) = firstn d l.
Proof.
  induction l as [|x l IH]; intros d Hd.
  - simpl in Hd. assert (d = 0) by lia. subst. reflexivity.
  - destruct d as [|d]; [reflexivity|]. simpl in Hd. cbn [seq map firstn nth]. f_equal.
    rewrite <- seq_shift, map_map. cbn [nth]. apply IH. lia.
Qed.
Lemma tra_map_nth_skipn : forall a (l : list nat), map (fun i => nth (a + i) l 0) (seq 0 (length l - a)) = skipn a l.
Proof.
  induction a as [|a IH]; intros l.
  - rewrite Nat.sub_0_r. cbn [Nat.add skipn]. rewrite tra_map_nth_firstn by lia. apply firstn_all.
  - destruct l as [|x l]; [reflexivity|]. cbn [length skipn Nat.sub]. rewrite <- (IH l). apply map_ext. intros i. reflexivity.
Qed.
Lemma tra_remove_nth_split (l : list nat) : forall d, remove_nth d l = firstn d l ++ skipn (S d) l.
Proof.
  induction l as [|x l IH]; intros d.
  - destruct d; reflexivity.
  - destruct d as [|d]; [reflexivity|]. cbn [remove_nth firstn skipn app]. f_equal. rewrite IH. destruct l; reflexivity.
Qed.
Lemma tra_set_nth_id {A} (v dflt : A) : forall l d, d < length l -> nth d l dflt = v -> set_nth d v l = l.
Proof.
  induction l as [|x l IH]; intros d Hd Hv; [simpl in Hd; lia|].
  destruct d as [|d]; simpl in *; [now subst|]. f_equal. apply IH; [lia|exact Hv].
Qed.

Section Update.
  Variables (shape rank : list nat).
  Local Notation n := (length shape).
  Hypothesis Hn : 2 <= n.
  Hypothesis Hlen : length rank = S n.
  Hypothesis Hclosed : nth n rank 0 = nth 0 rank 0.
  Hypothesis Hpos : Forall (fun r => 0 < r) rank.

  Lemma tra_permuted d : d < n ->
    trals_permute_axes (trals_idx n d) (tra_chain shape rank d (n - 1)) = remove_nth d shape ++ [nth d rank 0; nth (S d) rank 0].
  Proof.
    intros Hd. set (ch := tra_chain shape rank d (n - 1)).
    assert (HA : forall i, i < d -> nth (i + n - d) ch 0 = nth i shape 0).
    { intros i Hi. unfold ch. rewrite (tra_chain_nth shape rank Hn Hclosed) by lia. replace (d + (i + n - d)) with (i + 1 * n) by lia.
      rewrite Nat.mod_add by lia. rewrite Nat.mod_small by lia. reflexivity. }
    assert (HB : forall i, i < n - d - 1 -> nth (i + 1) ch 0 = nth (S d + i) shape 0).
    { intros i Hi. unfold ch. rewrite (tra_chain_nth shape rank Hn Hclosed) by lia. replace (d + (i + 1)) with (S d + i) by lia.
      rewrite Nat.mod_small by lia. reflexivity. }
    assert (HC1 : nth n ch 0 = nth d rank 0).
    { unfold ch. replace n with (S (n - 1)) at 1 by lia. rewrite (tra_chain_nth_last shape rank Hn Hclosed).
      rewrite (tra_rank_succ_mod rank n ltac:(lia) Hclosed). replace (S (d + (n - 1))) with (d + 1 * n) by lia.
      rewrite Nat.mod_add by lia. rewrite Nat.mod_small by lia. reflexivity. }
    assert (HC2 : nth 0 ch 0 = nth (S d) rank 0).
    { unfold ch. rewrite tra_chain_nth_0. rewrite Nat.add_1_r. rewrite <- (tra_rank_succ_mod rank n ltac:(lia) Hclosed).
      rewrite Nat.mod_small by lia. reflexivity. }
    unfold trals_permute_axes, trals_idx. rewrite !map_app, !map_map. rewrite tra_remove_nth_split, <- app_assoc.
    f_equal; [|f_equal].
    - rewrite <- (tra_map_nth_firstn shape d) by lia. apply map_ext_in. intros i Hi. apply in_seq in Hi. apply HA. lia.
    - rewrite <- (tra_map_nth_skipn (S d) shape). replace (n - S d) with (n - d - 1) by lia.
      apply map_ext_in. intros i Hi. apply in_seq in Hi. apply HB. lia.
    - cbn [map]. rewrite HC1, HC2. reflexivity.
  Qed.

  Lemma tra_rank_pos i : i <= n -> 0 < nth i rank 0.
  Proof. intros Hi. rewrite Forall_forall in Hpos. apply Hpos. apply nth_In. lia. Qed.

  (* one update on cores of the validated shapes: well formed, design matrix (prod of the other sizes) x (r_d r_d+1), cores keep their shapes *)
  Lemma tra_update_ok d : d < n ->
    tr_als_update shape rank (trals_cores shape rank) d =
    Ok ([prod (remove_nth d shape); nth d rank 0 * nth (S d) rank 0], [prod (remove_nth d shape); nth d shape 0], trals_cores shape rank).
  Proof.
    intros Hd. unfold tr_als_update. cbv zeta. rewrite (tra_sub shape rank Hn Hclosed d). cbn [rbind].
    rewrite (tra_chain_length shape rank Hn Hclosed). replace (S (S (n - 1))) with (S n) by lia. rewrite Nat.eqb_refl. cbn [negb].
    rewrite tra_permuted by assumption. unfold trals_reshape_m1. rewrite prod_app.
    pose proof (tra_rank_pos d ltac:(lia)) as P1. pose proof (tra_rank_pos (S d) ltac:(lia)) as P2.
    assert (Hc : nth d rank 0 * nth (S d) rank 0 <> 0) by (apply Nat.neq_mul_0; lia).
    replace (prod [nth d rank 0; nth (S d) rank 0]) with (nth d rank 0 * nth (S d) rank 0) by (unfold prod; cbn [fold_right]; ring).
    destruct (nth d rank 0 * nth (S d) rank 0 =? 0) eqn:E0; [apply Nat.eqb_eq in E0; contradiction|].
    rewrite Nat.mod_mul by exact Hc. rewrite Nat.eqb_refl. cbn [rbind hd]. rewrite Nat.div_mul by exact Hc.
    rewrite Nat.eqb_refl. cbn [negb]. f_equal. f_equal.
    apply (tra_set_nth_id _ []); [unfold trals_cores; now rewrite map_length, seq_length|].
    now rewrite tra_nth_cores.
  Qed.

  Lemma tra_sweep_ok : forall dims, Forall (fun d => d < n) dims ->
    tr_als_sweep shape rank dims (trals_cores shape rank) = Ok (trals_cores shape rank).
  Proof.
    induction dims as [|d ds IH]; intros Hf; [reflexivity|]. inversion Hf as [|? ? Hd Hds]; subst.
    cbn [tr_als_sweep]. rewrite tra_update_ok by exact Hd. cbn [rbind snd]. apply IH. exact Hds.
  Qed.

  Lemma tra_sweep_log_ok : forall dims, Forall (fun d => d < n) dims ->
    tr_als_sweep_log shape rank dims (trals_cores shape rank) =
    Ok (map (fun d => ([prod (remove_nth d shape); nth d rank 0 * nth (S d) rank 0], [prod (remove_nth d shape); nth d shape 0])) dims).
  Proof.
    induction dims as [|d ds IH]; intros Hf; [reflexivity|]. inversion Hf as [|? ? Hd Hds]; subst.
    cbn [tr_als_sweep_log]. rewrite tra_update_ok by exact Hd. cbn [rbind snd fst]. rewrite IH by exact Hds. reflexivity.
  Qed.

  Lemma tra_dims_ok : Forall (fun d => d < n) (seq 0 n).
  Proof. apply Forall_forall. intros d Hd. apply in_seq in Hd. lia. Qed.

  (* any number of sweeps, any stopping path *)
  Lemma tra_loop_ok tol_pos : forall fuel it decisions,
    tr_als_loop shape rank tol_pos it fuel decisions (trals_cores shape rank) = Ok (trals_cores shape rank).
  Proof.
    induction fuel as [|fuel IH]; intros it decisions; [reflexivity|].
    cbn [tr_als_loop]. rewrite tra_sweep_ok by exact tra_dims_ok. cbn [rbind].
    destruct (fst (hd (false, false) decisions)); [reflexivity|].
    destruct (tol_pos && (1 <=? it) && snd (hd (false, false) decisions)); [reflexivity|]. apply IH.
  Qed.
End Update.

(* tensor_ring_als: for every order >= 2, rank specification, iteration cap and stopping path (callback stop, convergence,
   cap) every least-squares sub-problem is well formed and the returned cores have the validated shapes; the closing of
   the ring (first rank = last rank) is used: it is what validate_tr_rank establishes *)
Theorem tr_als_run_structure shape spec tol_pos n_iter_max decisions rank :
  2 <= length shape -> validate_tr_rank shape spec RRound = Ok rank -> Forall (fun r => 0 < r) rank ->
  tr_als_run shape spec tol_pos n_iter_max decisions = Ok (trals_cores shape rank) /\
  tensor_ring_als shape spec = Ok (trals_cores shape rank) /\
  hd 0 rank = last rank 0 /\
  forall k, k < length shape -> nth k (trals_cores shape rank) [] = [nth k rank 0; nth k shape 0; nth (S k) rank 0].
Proof.
  intros Hn Hv Hpos. destruct (validate_tr_rank_boundary _ _ _ _ Hv) as [Hlen Hb].
  pose proof (tra_hd_last_nth rank (length shape) Hlen Hb) as Hc.
  split; [|split; [|split]].
  - unfold tr_als_run. rewrite Hv. cbn [rbind]. apply tra_loop_ok; assumption.
  - unfold tensor_ring_als. rewrite Hv. reflexivity.
  - exact Hb.
  - intros k Hk. now rewrite tra_nth_cores.
Qed.

(* the sub-problems of one sweep: core d is the solution of a (prod of the other sizes) x (r_d r_d+1) system with I_d right-hand sides *)
Theorem tr_als_sweep_systems shape spec rank :
  2 <= length shape -> validate_tr_rank shape spec RRound = Ok rank -> Forall (fun r => 0 < r) rank ->
  tr_als_sweep_log shape rank (seq 0 (length shape)) (trals_cores shape rank) =
  Ok (map (fun d => ([prod (remove_nth d shape); nth d rank 0 * nth (S d) rank 0], [prod (remove_nth d shape); nth d shape 0])) (seq 0 (length shape))).
Proof.
  intros Hn Hv Hpos. destruct (validate_tr_rank_boundary _ _ _ _ Hv) as [Hlen Hb].
  pose proof (tra_hd_last_nth rank (length shape) Hlen Hb) as Hc.
  apply tra_sweep_log_ok; try assumption. apply Forall_forall. intros d Hd. apply in_seq in Hd. lia.
Qed.

(* on an OPEN chain (first rank <> last rank) the first update already fails: the closing is needed *)
Example tr_als_open_chain_fails : tr_als_update [2; 3; 4] [2; 3; 5; 3] (trals_cores [2; 3; 4] [2; 3; 5; 3]) 0 = Err.
Proof. vm_compute. reflexivity. Qed.
Example tr_als_run_ex : tr_als_run [2; 3; 4] (RList [2; 3; 5; 2]) true 3 [(false, false); (false, true)] = Ok [[2; 2; 3]; [3; 3; 5]; [5; 4; 2]].
Proof. vm_compute. reflexivity. Qed.
