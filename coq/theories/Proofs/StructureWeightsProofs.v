(* C08 -- a CP driver whose weight assignments form a program satisfying wprog_ok keeps the weights at ones when normalize_factors is False:
   for EVERY execution (any sequence of the program's statements, any jump values), over any commutative ring. *)
From Coq Require Import List Arith Bool Lia Ring ZArith.
From TLV Require Import Model.StructureWeights.
Import ListNotations.

Section WProofs.
  Variable K : Type.
  Variables (k0 k1 : K) (kadd kmul ksub : K -> K -> K) (kopp : K -> K).
  Hypothesis Kth : ring_theory k0 k1 kadd kmul ksub kopp (@eq K).
  Add Ring Kw : Kth.
  Variable normalise : (nat -> K) -> (nat -> K).
  Definition all_ones (st : wstate K) : Prop := forall v w, st v = Some w -> forall r, w r = k1.
  Lemma wupd_ones st v w : all_ones st -> (forall r, w r = k1) -> all_ones (wupd K st v w).
  Proof.
    intros H Hw x w' E. unfold wupd in E. destruct (x =? v); [inversion E; subst; exact Hw | exact (H x w' E)].
  Qed.
  Lemma wstep_ones s j st st' : wstmt_ok s = true -> all_ones st -> wstep K k1 kadd kmul ksub normalise false s j st = Some st' -> all_ones st'.
  Proof.
    intros Hok H E. destruct s as [v [a|a b|]|g]; simpl in *.
    - destruct (st a) as [w|] eqn:Ea; [|discriminate]. inversion E; subst. apply wupd_ones; [exact H | exact (H a w Ea)].
    - destruct (st a) as [wa|] eqn:Ea; [|discriminate]. destruct (st b) as [wb|] eqn:Eb; [|discriminate]. inversion E; subst.
      apply wupd_ones; [exact H|]. intros r. rewrite (H a wa Ea r), (H b wb Eb r). ring.
    - inversion E; subst. apply wupd_ones; [exact H | reflexivity].
    - subst g. simpl in E. inversion E; subst. exact H.
  Qed.
  Theorem wprog_unit_weights prog : wprog_ok prog = true -> forall trace st st',
    (forall s j, In (s, j) trace -> In s prog) -> all_ones st ->
    wexec K k1 kadd kmul ksub normalise false trace st = Some st' -> all_ones st'.
  Proof.
    intros Hp. unfold wprog_ok in Hp. rewrite forallb_forall in Hp.
    induction trace as [|[s j] t IH]; intros st st' Hin H E; simpl in E.
    - inversion E; subst. exact H.
    - destruct (wstep K k1 kadd kmul ksub normalise false s j st) as [st1|] eqn:E1; [|discriminate].
      apply (IH st1 st'); [intros s' j' Hi; apply (Hin s' j'); right; exact Hi | | exact E].
      apply (wstep_ones s j st st1); [apply Hp, (Hin s j); left; reflexivity | exact H | exact E1].
  Qed.
End WProofs.
(* the hypothesis is needed: an unguarded normalisation changes the weights (Z, normalise = "times 2"), and the extrapolation alone keeps them *)
Example wprog_sharp : wprog_ok [WNormalize false] = false /\
  (match wexec Z 1%Z Z.add Z.mul Z.sub (fun w r => (2 * w r)%Z) false [(WNormalize false, 0%Z)] (fun v => if v =? 0 then Some (fun _ => 1%Z) else None) with
   | Some st => match st 0 with Some w => w 0 | None => 0%Z end | None => 0%Z end = 2%Z) /\
  wprog_ok [WAssign 1 (WVar 0); WAssign 2 (WAffine 1 0); WAssign 0 (WVar 2); WNormalize true] = true.
Proof. vm_compute. repeat split. Qed.

(* initialize_cp: on a path accepted by ipath_ones the returned weights are all ones when normalize_factors is False, whatever weights the
   caller's initialisation carried and whatever cp_normalize does *)
Theorem ipath_unit_weights (K : Type) (k1 : K) (normalise : (nat -> K) -> nat -> K) : forall p known w users,
  ipath_ones known p = true -> (known = true -> exists w0, w = Some w0 /\ forall r, w0 r = k1) ->
  exists w', iexec K k1 normalise false p users w = Some w' /\ forall r, w' r = k1.
Proof.
  induction p as [|s p IH]; intros known w users Hp Hk; simpl in *.
  - apply Hk, Hp.
  - destruct s as [| |g|].
    + apply (IH true); [exact Hp|]. intros _. eexists; split; [reflexivity | reflexivity].
    + apply (IH false); [exact Hp | discriminate].
    + apply (IH (known && g)); [exact Hp|]. intros Hkg. apply andb_prop in Hkg. destruct Hkg as [-> ->]. simpl. now apply Hk.
    + apply (IH known); assumption.
Qed.
Theorem ipaths_unit_weights (K : Type) (k1 : K) (normalise : (nat -> K) -> nat -> K) ps : ipaths_ok ps = true ->
  forall p users, In p ps -> exists w', iexec K k1 normalise false p users None = Some w' /\ forall r, w' r = k1.
Proof.
  intros H p users Hin. unfold ipaths_ok in H. rewrite forallb_forall in H.
  apply (ipath_unit_weights K k1 normalise p false); [now apply H | discriminate].
Qed.
(* sharpness: a path returning the caller's tensor as it came, and a path with an unguarded normalisation, are rejected and do change the weights *)
Example ipaths_sharp : ipaths_ok [[IUser]] = false /\ ipaths_ok [[IFresh; INormalize false]] = false /\
  ipaths_ok [[IFresh; IFactors; INormalize true]; [IUser; IFresh; INormalize true]] = true /\
  (match iexec Z 1%Z (fun w r => (2 * w r)%Z) false [IFresh; INormalize false] [] None with Some w => w 0 | None => 0%Z end = 2%Z) /\
  (match iexec Z 1%Z (fun w r => (2 * w r)%Z) false [IUser] [fun _ => 5%Z] None with Some w => w 0 | None => 0%Z end = 5%Z).
Proof. vm_compute. repeat split. Qed.
