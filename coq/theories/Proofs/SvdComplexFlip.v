(* C05 for COMPLEX scalars, C = R x R: the LIST-LEVEL model of the conjugate-aware svd_flip (Model/SvdConj.v svd_flip_conj, the function the
   complex correspondence executes at the Gaussian rationals) instantiated at complex multiplication / conjugation over R, tied to the
   function-level phase theorems of Proofs/SvdComplexModel.v: if every phase the model computes (np.sign of a deciding entry) has unit
   modulus - i.e. no deciding entry is zero - the flipped factors are entrywise U * conj(g), g * V (with the padding by ones), hence
   Hermitian orthonormality of both factors and the product U diag(s) V over any common prefix are kept.  Both decisions. *)
From Coq Require Import List Arith Lia Bool Reals Lra Psatz.
From TLV Require Import Base.Ops Base.Tensor Base.RSum Model.Svd Model.SvdConj Proofs.SvdProofsAux Proofs.SvdProofs
  Proofs.SvdComplexR Proofs.SvdComplexModel.
Import ListNotations.
Local Open Scope R_scope.

(* ---------- entries of the list-level scalings, any scalar type ---------- *)
Section Lists.
Context {K : Type} (k0 k1 : K) (kmul : K -> K -> K).
Lemma nth_cmul_vec : forall (r sg : list K) t, (t < length r)%nat -> (t < length sg)%nat ->
  nth t (cmul_vec kmul r sg) k0 = kmul (nth t r k0) (nth t sg k0).
Proof.
  induction r as [|x r IH]; intros [|y sg] t Hr Hs; cbn [length] in *; try lia.
  destruct t; cbn [cmul_vec combine map nth fst snd]; [reflexivity|]. apply IH; lia.
Qed.
Lemma cscale_cols_entry (sg : list K) (U : list (list K)) i t :
  (t < length (nth i U []))%nat -> (t < length sg)%nat ->
  nth t (nth i (cscale_cols kmul sg U) []) k0 = kmul (nth t (nth i U []) k0) (nth t sg k0).
Proof.
  intros Ht Hs. unfold cscale_cols.
  rewrite (nth_map_d (fun r => cmul_vec kmul r sg) U i [] []) by reflexivity. now apply nth_cmul_vec.
Qed.
Lemma cscale_rows_entry : forall (sg : list K) (V : list (list K)) t j, (t < length sg)%nat -> (t < length V)%nat ->
  nth j (nth t (cscale_rows kmul sg V) []) k0 = kmul (nth j (nth t V []) k0) (nth t sg k0) \/ (length (nth t V []) <= j)%nat.
Proof.
  induction sg as [|g sg IH]; intros [|row V] t j Hs Hv; cbn [length] in *; try lia.
  destruct t; cbn [cscale_rows combine map nth fst snd].
  - destruct (le_lt_dec (length row) j) as [H|H]; [now right|left].
    rewrite (nth_indep (map (fun x => kmul x g) row) k0 (kmul k0 g)) by (now rewrite map_length).
    now rewrite (map_nth (fun x => kmul x g)).
  - apply (IH V t j); lia.
Qed.
Lemma cfit_length : forall n (l : list K), length (cfit k1 n l) = n.
Proof. induction n as [|n IH]; intros l; [reflexivity|]. destruct l; cbn [cfit length]; now rewrite IH. Qed.
Lemma cfit_nth : forall n (l : list K) t d, (t < n)%nat -> nth t (cfit k1 n l) d = if (t <? length l)%nat then nth t l d else k1.
Proof.
  induction n as [|n IH]; intros l t d Ht; [lia|].
  destruct l as [|x l]; cbn [cfit length].
  - destruct t; cbn [nth]; [reflexivity|]. rewrite IH by lia. cbn [length]. reflexivity.
  - destruct t; cbn [nth]; [reflexivity|]. rewrite IH by lia. reflexivity.
Qed.
End Lists.

(* ---------- complex scalars over R ---------- *)
Definition c0R : CR := (0, 0).
Definition c1R : CR := (1, 0).
Definition cmulR (a b : CR) : CR := (fst a * fst b - snd a * snd b, fst a * snd b + snd a * fst b).
Definition conjR (a : CR) : CR := (fst a, - snd a).
Definition flipR (ph : CR -> CR) (lt : CR -> CR -> bool) := svd_flip_conj c0R c1R cmulR conjR ph lt.
(* the phase applied at index t: the t-th computed sign, 1 beyond them (padding) *)
Definition phase_at (sg : list CR) (t : nat) : CR := if (t <? length sg)%nat then nth t sg c0R else c1R.

Lemma rect_row_len {A} r c (M : list (list A)) i : rect r c M -> (i < r)%nat -> length (nth i M []) = c.
Proof. intros [L Fa] Hi. rewrite Forall_forall in Fa. apply Fa. apply nth_In. lia. Qed.

Section Flip.
Variables (ph : CR -> CR) (lt : CR -> CR -> bool) (d1 c r d2 : nat) (U V : list (list CR)).
Hypothesis RU : rect d1 c U.
Hypothesis RV : rect r d2 V.
Hypothesis D1 : (1 <= d1)%nat.

Lemma ncols_U : ncols U = c.
Proof. unfold ncols. destruct U as [|row U']; [destruct RU as [L _]; cbn in L; lia|]. cbn [hd]. apply (rect_row_len d1 c (row :: U') 0 RU). lia. Qed.

(* U-based decision *)
Theorem complex_flip_u_entries :
  let sg := csigns_u c0R ph lt U in
  let g := phase_at sg in
  let gr := fun t => fst (g t) in let gi := fun t => snd (g t) in
  let '(U2, V2) := flipR ph lt U V true in
  (forall i t, (i < d1)%nat -> (t < c)%nat ->
     cre U2 i t = Ur' (cre U) (cim U) gr gi i t /\ cim U2 i t = Ui' (cre U) (cim U) gr gi i t) /\
  (forall t j, (t < r)%nat -> (j < d2)%nat ->
     cre V2 t j = Vr' (cre V) (cim V) gr gi t j /\ cim V2 t j = Vi' (cre V) (cim V) gr gi t j).
Proof.
  cbv zeta. unfold flipR, svd_flip_conj.
  set (sg := csigns_u c0R ph lt U).
  assert (LS : length sg = c) by (unfold sg, csigns_u; rewrite map_length, seq_length; apply ncols_U).
  split.
  - intros i t Hi Ht. unfold cre, cim. change (0, 0) with c0R.
    rewrite (cscale_cols_entry c0R cmulR (map conjR sg) U i t)
      by (rewrite ?map_length, ?(rect_row_len d1 c U i RU Hi); lia).
    rewrite (nth_indep (map conjR sg) c0R (conjR c0R)) by (rewrite map_length; lia). rewrite (map_nth conjR).
    unfold Ur', Ui', phase_at, cre, cim, cmulR, conjR, c0R. rewrite LS. cbn [fst snd].
    destruct (Nat.ltb_spec t c) as [_|]; [|lia]. split; ring.
  - intros t j Ht Hj. unfold cre, cim. change (0, 0) with c0R.
    destruct (cscale_rows_entry c0R cmulR (cfit c1R (length V) sg) V t j) as [E|E].
    + rewrite cfit_length. destruct RV; lia.
    + destruct RV; lia.
    + rewrite E.
      rewrite cfit_nth by (destruct RV; lia).
      unfold Vr', Vi', phase_at, cre, cim, cmulR, c0R, c1R.
      destruct (t <? length sg)%nat; cbn [fst snd]; split; ring.
    + rewrite (rect_row_len r d2 V t RV Ht) in E. lia.
Qed.

(* V-based decision: V * conj(g), U * g (padding by ones) - the same statement with the conjugate phases *)
Theorem complex_flip_v_entries :
  let sg := csigns_v c0R ph lt V in
  let g := phase_at sg in
  let gr := fun t => fst (g t) in let gi := fun t => - snd (g t) in
  let '(U2, V2) := flipR ph lt U V false in
  (forall i t, (i < d1)%nat -> (t < c)%nat ->
     cre U2 i t = Ur' (cre U) (cim U) gr gi i t /\ cim U2 i t = Ui' (cre U) (cim U) gr gi i t) /\
  (forall t j, (t < r)%nat -> (j < d2)%nat ->
     cre V2 t j = Vr' (cre V) (cim V) gr gi t j /\ cim V2 t j = Vi' (cre V) (cim V) gr gi t j).
Proof.
  cbv zeta. unfold flipR, svd_flip_conj.
  set (sg := csigns_v c0R ph lt V).
  assert (LS : length sg = r) by (unfold sg, csigns_v; rewrite map_length; now destruct RV).
  split.
  - intros i t Hi Ht. unfold cre, cim. change (0, 0) with c0R.
    rewrite (cscale_cols_entry c0R cmulR (cfit c1R (ncols U) sg) U i t)
      by (rewrite ?cfit_length, ?ncols_U, ?(rect_row_len d1 c U i RU Hi); lia).
    rewrite cfit_nth by (rewrite ncols_U; lia).
    unfold Ur', Ui', phase_at, cre, cim, cmulR, c0R, c1R.
    destruct (t <? length sg)%nat; cbn [fst snd]; split; ring.
  - intros t j Ht Hj. unfold cre, cim. change (0, 0) with c0R.
    destruct (cscale_rows_entry c0R cmulR (map conjR sg) V t j) as [E|E].
    + rewrite map_length. lia.
    + destruct RV; lia.
    + rewrite E. rewrite (nth_indep (map conjR sg) c0R (conjR c0R)) by (rewrite map_length; lia). rewrite (map_nth conjR).
      unfold Vr', Vi', phase_at, cre, cim, cmulR, conjR, c0R. rewrite LS. cbn [fst snd].
      destruct (Nat.ltb_spec t r) as [_|]; [|lia]. split; ring.
    + rewrite (rect_row_len r d2 V t RV Ht) in E. lia.
Qed.

Definition unit_mod (z : CR) : Prop := (fst z)^2 + (snd z)^2 = 1.
Lemma phase_at_unit sg : (forall t, (t < length sg)%nat -> unit_mod (nth t sg c0R)) -> forall t, unit_mod (phase_at sg t).
Proof.
  intros H t. unfold phase_at. destruct (Nat.ltb_spec t (length sg)); [now apply H|]. unfold unit_mod, c1R. cbn [fst snd]. ring.
Qed.

(* both decisions: Hermitian orthonormality of both factors and the product over any common prefix are kept *)
Theorem complex_flip_model (ub : bool) :
  let sg := if ub then csigns_u c0R ph lt U else csigns_v c0R ph lt V in
  (forall t, (t < length sg)%nat -> unit_mod (nth t sg c0R)) ->
  let '(U2, V2) := flipR ph lt U V ub in
  (herm_cols d1 c (cre U) (cim U) -> herm_cols d1 c (cre U2) (cim U2)) /\
  (herm_rows r d2 (cre V) (cim V) -> herm_rows r d2 (cre V2) (cim V2)) /\
  (forall p (s : nat -> R) i j, (p <= Nat.min c r)%nat -> (i < d1)%nat -> (j < d2)%nat ->
     cprod_re p (cre U2) (cim U2) (cre V2) (cim V2) s i j = cprod_re p (cre U) (cim U) (cre V) (cim V) s i j /\
     cprod_im p (cre U2) (cim U2) (cre V2) (cim V2) s i j = cprod_im p (cre U) (cim U) (cre V) (cim V) s i j).
Proof.
  cbv zeta. intros HU.
  pose proof (phase_at_unit _ HU) as PU.
  destruct ub.
  - pose proof complex_flip_u_entries as E. cbv zeta in E. destruct (flipR ph lt U V true) as [U2 V2]. destruct E as [EU EV].
    set (g := phase_at (csigns_u c0R ph lt U)) in *.
    assert (UN : forall p t, (t < p)%nat -> (fst (g t))^2 + (snd (g t))^2 = 1) by (intros p t _; apply PU).
    split; [|split].
    + intros O. apply (herm_cols_ext d1 c _ _ _ _ EU). apply (phase_herm_cols d1 c _ _ _ _ (UN c) O).
    + intros O. apply (herm_rows_ext r d2 _ _ _ _ EV). apply (phase_herm_rows d2 r _ _ _ _ (UN r) O).
    + intros p s i j Hp Hi Hj.
      destruct (phase_product p (cre U) (cim U) (cre V) (cim V) (fun t => fst (g t)) (fun t => snd (g t)) (UN p) s i j) as [P1 P2].
      rewrite <- P1, <- P2. apply cprod_ext. intros t Ht.
      destruct (EU i t Hi ltac:(lia)) as [-> ->]. destruct (EV t j ltac:(lia) Hj) as [-> ->]. repeat split; reflexivity.
  - pose proof complex_flip_v_entries as E. cbv zeta in E. destruct (flipR ph lt U V false) as [U2 V2]. destruct E as [EU EV].
    set (g := phase_at (csigns_v c0R ph lt V)) in *.
    assert (UN : forall p t, (t < p)%nat -> (fst (g t))^2 + (- snd (g t))^2 = 1).
    { intros p t _. pose proof (PU t) as H. unfold unit_mod in H. fold g in H. rewrite <- H. ring. }
    split; [|split].
    + intros O. apply (herm_cols_ext d1 c _ _ _ _ EU). apply (phase_herm_cols d1 c _ _ _ _ (UN c) O).
    + intros O. apply (herm_rows_ext r d2 _ _ _ _ EV). apply (phase_herm_rows d2 r _ _ _ _ (UN r) O).
    + intros p s i j Hp Hi Hj.
      destruct (phase_product p (cre U) (cim U) (cre V) (cim V) (fun t => fst (g t)) (fun t => - snd (g t)) (UN p) s i j) as [P1 P2].
      rewrite <- P1, <- P2. apply cprod_ext. intros t Ht.
      destruct (EU i t Hi ltac:(lia)) as [-> ->]. destruct (EV t j ltac:(lia) Hj) as [-> ->]. repeat split; reflexivity.
Qed.
End Flip.

(* non-vacuity: U = [[i]], phase function = identity on the unit circle: the computed phase i has unit modulus *)
Lemma complex_flip_hyp_witness :
  let sg := csigns_u c0R (fun z : CR => z) (fun _ _ => false) [[(0, 1)]] in
  forall t, (t < length sg)%nat -> unit_mod (nth t sg c0R).
Proof.
  cbv zeta. unfold csigns_u, ncols. cbn [hd length seq map]. intros t Ht. cbn [length] in Ht.
  assert (t = 0%nat) by lia. subst. unfold unit_mod, cdeciding, ccol. cbn. ring.
Qed.

(* ---------- END TO END over C: svd_interface(method = truncated_svd) on a complex matrix, any flip setting.  svd_interface_flip is the
   model's interface without mask / non_negative with the sign-resolution function as an argument (for the real flip it IS svd_interface:
   interface_flip_real); here it runs with the conjugate-aware flip at complex scalars over R. ---------- *)
Theorem complex_interface_truncated_e2e (ph : CR -> CR) (lt : CR -> CR -> bool) (oracle : bool -> triple CR)
    (funs : fname -> nat -> list (list CR) -> triple CR) d1 d2 (Ml : list (list CR)) r (flip ub : bool) U S V :
  (forall f, csvd_contract d1 d2 (cre Ml) (cim Ml) f (oracle f)) ->
  funs FTruncated 0%nat Ml = truncated_svd oracle d1 d2 (Some r) -> (1 <= r <= Nat.min d1 d2)%nat ->
  (flip = true ->
   let t0 := truncated_svd oracle d1 d2 (Some r) in
   let sg := if ub then csigns_u c0R ph lt (fst (fst t0)) else csigns_v c0R ph lt (snd t0) in
   forall t, (t < length sg)%nat -> unit_mod (nth t sg c0R)) ->
  svd_interface_flip (flipR ph lt) funs MTruncated Ml flip ub = Ok (U, S, V) ->
  let So := snd (fst (oracle false)) in
  let Er := fun i j => cre Ml i j - cprod_re r (cre U) (cim U) (cre V) (cim V) (sre S) i j in
  let Ei := fun i j => cim Ml i j - cprod_im r (cre U) (cim U) (cre V) (cim V) (sre S) i j in
  S = firstn r So /\
  (forall t, (t < r)%nat -> snd (nth t S (0, 0)) = 0 /\ 0 <= sre S t) /\
  (forall i j, (i <= j)%nat -> (j < r)%nat -> sre S j <= sre S i) /\
  herm_cols d1 r (cre U) (cim U) /\ herm_rows r d2 (cre V) (cim V) /\
  cfrob2 d1 d2 Er Ei = rsum (Nat.min d1 d2 - r) (fun t => (sre So (r + t)%nat)^2) /\
  (forall Br Bi, crank_le d1 d2 r Br Bi ->
     cfrob2 d1 d2 Er Ei <= cfrob2 d1 d2 (fun i j => cre Ml i j - Br i j) (fun i j => cim Ml i j - Bi i j)).
Proof.
  intros HC HF Hr HP E. cbv zeta.
  unfold svd_interface_flip in E. cbn [dispatch] in E. rewrite HF in E.
  pose proof (complex_truncated_best oracle d1 d2 (cre Ml) (cim Ml) r HC ltac:(lia)) as T. cbv zeta in T.
  destruct (truncated_svd oracle d1 d2 (Some r)) as [[U0 S0] V0].
  destruct T as ((RU & LS & RV) & ES & SR & SM & OU & OV & EF & BEST).
  destruct flip.
  - pose proof (complex_flip_model ph lt d1 r r d2 U0 V0 RU RV ltac:(lia) ub) as FM. cbv zeta in FM.
    specialize (HP eq_refl). cbv zeta in HP. cbn [fst snd] in HP. specialize (FM HP).
    destruct (flipR ph lt U0 V0 ub) as [U2 V2]. inversion E; subst U S V. clear E.
    destruct FM as (FU & FV & FP).
    assert (EQ : cfrob2 d1 d2 (fun i j => cre Ml i j - cprod_re r (cre U2) (cim U2) (cre V2) (cim V2) (sre S0) i j)
                            (fun i j => cim Ml i j - cprod_im r (cre U2) (cim U2) (cre V2) (cim V2) (sre S0) i j)
                 = cfrob2 d1 d2 (fun i j => cre Ml i j - cprod_re r (cre U0) (cim U0) (cre V0) (cim V0) (sre S0) i j)
                            (fun i j => cim Ml i j - cprod_im r (cre U0) (cim U0) (cre V0) (cim V0) (sre S0) i j)).
    { unfold cfrob2. apply rsum_ext; intros i Hi. apply rsum_ext; intros j Hj.
      destruct (FP r (sre S0) i j ltac:(lia) Hi Hj) as [-> ->]. reflexivity. }
    split; [exact ES | split; [exact SR | split; [exact SM | split; [now apply FU | split; [now apply FV|]]]]].
    rewrite EQ. split; [exact EF | exact BEST].
  - inversion E; subst U S V. clear E.
    split; [exact ES | split; [exact SR | split; [exact SM | split; [exact OU | split; [exact OV | split; [exact EF | exact BEST]]]]]].
Qed.

(* ---------- the unit-phase hypothesis DERIVED: if ph is np.sign on complex numbers (unit modulus for every non-zero argument) and lt compares
   magnitudes (the comparison behind argmax(abs(.))), then for Hermitian-orthonormal deciding vectors every computed phase has unit modulus:
   a vector of norm 1 has a non-zero entry, the deciding entry has the largest magnitude, hence is non-zero ---------- *)
Definition norm2 (z : CR) : R := (fst z)^2 + (snd z)^2.
Definition sign_like (ph : CR -> CR) : Prop := forall z, 0 < norm2 z -> unit_mod (ph z).
Definition abs_lt (lt : CR -> CR -> bool) : Prop := forall a b, if lt a b then norm2 a < norm2 b else norm2 b <= norm2 a.

Lemma cpick_max lt : abs_lt lt -> forall l best,
  norm2 best <= norm2 (cpick lt l best) /\ forall x, In x l -> norm2 x <= norm2 (cpick lt l best).
Proof.
  intros HL. induction l as [|x l IH]; intros best; cbn [cpick].
  - split; [lra | intros x []].
  - pose proof (HL best x) as C. destruct (lt best x).
    + destruct (IH x) as [I1 I2]. split; [lra|]. intros y [<-|Hy]; [exact I1 | now apply I2].
    + destruct (IH best) as [I1 I2]. split; [exact I1|]. intros y [<-|Hy]; [lra | now apply I2].
Qed.
Lemma cdeciding_max lt : abs_lt lt -> forall l x, In x l -> norm2 x <= norm2 (cdeciding c0R lt l).
Proof.
  intros HL [|y l] x Hx; [destruct Hx|]. cbn [cdeciding]. destruct (cpick_max lt HL l y) as [I1 I2].
  destruct Hx as [<-|Hx]; [exact I1 | now apply I2].
Qed.
Lemma rsum_pos_witness : forall m f, (forall i, (i < m)%nat -> 0 <= f i) -> 0 < rsum m f -> exists i, (i < m)%nat /\ 0 < f i.
Proof.
  induction m as [|m IH]; intros f H0 HS; cbn [rsum] in HS; [lra|].
  destruct (Rlt_dec 0 (f m)) as [P|N]; [exists m; split; [lia | exact P]|].
  assert (f m = 0) by (pose proof (H0 m ltac:(lia)); lra).
  destruct (IH f (fun i Hi => H0 i ltac:(lia)) ltac:(lra)) as (i & Hi & Pi). exists i. split; [lia | exact Pi].
Qed.

Section Unit.
Variables (ph : CR -> CR) (lt : CR -> CR -> bool).
Hypothesis PH : sign_like ph.
Hypothesis LT : abs_lt lt.

Theorem signs_u_unit d1 c (U : list (list CR)) : rect d1 c U -> (1 <= d1)%nat -> herm_cols d1 c (cre U) (cim U) ->
  let sg := csigns_u c0R ph lt U in forall t, (t < length sg)%nat -> unit_mod (nth t sg c0R).
Proof.
  intros RU D1 O sg t Ht. unfold sg, csigns_u in *. rewrite map_length, seq_length in Ht.
  rewrite (ncols_U d1 c U RU D1) in *.
  rewrite (nth_indep _ c0R (ph (cdeciding c0R lt (ccol c0R 0 U)))) by (now rewrite map_length, seq_length).
  rewrite (map_nth (fun j => ph (cdeciding c0R lt (ccol c0R j U)))), seq_nth by exact Ht. cbn [Nat.add].
  apply PH.
  destruct (O t t Ht Ht) as [H1 _]. rewrite Nat.eqb_refl in H1.
  destruct (rsum_pos_witness d1 (fun i => cre U i t * cre U i t + cim U i t * cim U i t)) as (i & Hi & Pi).
  - intros i _. nra.
  - rewrite H1. lra.
  - eapply Rlt_le_trans; [|apply (cdeciding_max lt LT (ccol c0R t U) (nth t (nth i U []) c0R))].
    + unfold norm2, cre, cim, c0R in *. nra.
    + unfold ccol. change (nth t (nth i U []) c0R) with ((fun r0 : list CR => nth t r0 c0R) (nth i U [])).
      apply in_map. apply nth_In. destruct RU; lia.
Qed.

Theorem signs_v_unit r d2 (V : list (list CR)) : rect r d2 V -> herm_rows r d2 (cre V) (cim V) ->
  let sg := csigns_v c0R ph lt V in forall t, (t < length sg)%nat -> unit_mod (nth t sg c0R).
Proof.
  intros RV O sg t Ht. unfold sg, csigns_v in *. rewrite map_length in Ht.
  assert (Hr : (t < r)%nat) by (destruct RV; lia).
  rewrite (nth_indep _ c0R (ph (cdeciding c0R lt []))) by (now rewrite map_length).
  rewrite (map_nth (fun row => ph (cdeciding c0R lt row))).
  apply PH.
  destruct (O t t Hr Hr) as [H1 _]. rewrite Nat.eqb_refl in H1.
  destruct (rsum_pos_witness d2 (fun j => cre V t j * cre V t j + cim V t j * cim V t j)) as (j & Hj & Pj).
  - intros j _. nra.
  - rewrite H1. lra.
  - eapply Rlt_le_trans; [|apply (cdeciding_max lt LT (nth t V []) (nth j (nth t V []) c0R))].
    + unfold norm2, cre, cim, c0R in *. nra.
    + apply nth_In. rewrite (rect_row_len r d2 V t RV Hr). exact Hj.
Qed.
End Unit.

(* the end-to-end theorem with the phase hypothesis discharged: ph = np.sign (sign_like), lt = the magnitude comparison (abs_lt) *)
Theorem complex_interface_truncated_e2e_sign (ph : CR -> CR) (lt : CR -> CR -> bool) (oracle : bool -> triple CR)
    (funs : fname -> nat -> list (list CR) -> triple CR) d1 d2 (Ml : list (list CR)) r (flip ub : bool) U S V :
  sign_like ph -> abs_lt lt ->
  (forall f, csvd_contract d1 d2 (cre Ml) (cim Ml) f (oracle f)) ->
  funs FTruncated 0%nat Ml = truncated_svd oracle d1 d2 (Some r) -> (1 <= r <= Nat.min d1 d2)%nat ->
  svd_interface_flip (flipR ph lt) funs MTruncated Ml flip ub = Ok (U, S, V) ->
  let So := snd (fst (oracle false)) in
  let Er := fun i j => cre Ml i j - cprod_re r (cre U) (cim U) (cre V) (cim V) (sre S) i j in
  let Ei := fun i j => cim Ml i j - cprod_im r (cre U) (cim U) (cre V) (cim V) (sre S) i j in
  S = firstn r So /\
  (forall t, (t < r)%nat -> snd (nth t S (0, 0)) = 0 /\ 0 <= sre S t) /\
  (forall i j, (i <= j)%nat -> (j < r)%nat -> sre S j <= sre S i) /\
  herm_cols d1 r (cre U) (cim U) /\ herm_rows r d2 (cre V) (cim V) /\
  cfrob2 d1 d2 Er Ei = rsum (Nat.min d1 d2 - r) (fun t => (sre So (r + t)%nat)^2) /\
  (forall Br Bi, crank_le d1 d2 r Br Bi ->
     cfrob2 d1 d2 Er Ei <= cfrob2 d1 d2 (fun i j => cre Ml i j - Br i j) (fun i j => cim Ml i j - Bi i j)).
Proof.
  intros PH LT HC HF Hr E.
  apply (complex_interface_truncated_e2e ph lt oracle funs d1 d2 Ml r flip ub U S V HC HF Hr); [|exact E].
  intros _. cbv zeta.
  pose proof (complex_truncated_best oracle d1 d2 (cre Ml) (cim Ml) r HC ltac:(lia)) as T. cbv zeta in T.
  destruct (truncated_svd oracle d1 d2 (Some r)) as [[U0 S0] V0]. cbn [fst snd].
  destruct T as ((RU & LS & RV) & _ & _ & _ & OU & OV & _).
  destruct ub.
  - apply (signs_u_unit ph lt PH LT d1 r U0 RU ltac:(lia) OU).
  - apply (signs_v_unit ph lt PH LT r d2 V0 RV OV).
Qed.

(* non-vacuity of sign_like / abs_lt: np.sign z = z / |z| and the comparison of squared magnitudes *)
Lemma sign_like_abs_lt_witness :
  sign_like (fun z => (fst z / sqrt (norm2 z), snd z / sqrt (norm2 z))) /\
  abs_lt (fun a b => if Rlt_dec (norm2 a) (norm2 b) then true else false).
Proof.
  split.
  - intros z Hz. unfold unit_mod. cbn [fst snd].
    assert (S2 : sqrt (norm2 z) * sqrt (norm2 z) = norm2 z) by (apply sqrt_sqrt; lra).
    assert (SP : 0 < sqrt (norm2 z)) by (now apply sqrt_lt_R0).
    unfold norm2 in *. field_simplify_eq; [|lra]. nra.
  - intros a b. destruct (Rlt_dec (norm2 a) (norm2 b)); lra.
Qed.

(* ---------- the sign convention over C, list level: after the flip every deciding vector has an entry that is REAL POSITIVE and of largest
   magnitude in the vector.  sign_exact: z * conj(np.sign z) = |z| (the defining property of np.sign on complex numbers) ---------- *)
Definition sign_exact (ph : CR -> CR) : Prop := forall z, 0 < norm2 z -> cmulR z (conjR (ph z)) = (sqrt (norm2 z), 0).

Lemma cpick_in (lt : CR -> CR -> bool) : forall l best, cpick lt l best = best \/ In (cpick lt l best) l.
Proof.
  induction l as [|x l IH]; intros best; cbn [cpick]; [now left|].
  destruct (lt best x).
  - destruct (IH x) as [E|I]; [right; left; now rewrite E | right; right; exact I].
  - destruct (IH best) as [E|I]; [now left | right; right; exact I].
Qed.
Lemma cdeciding_in (lt : CR -> CR -> bool) : forall l, l <> [] -> In (cdeciding c0R lt l) l.
Proof. intros [|x l] H; [congruence|]. cbn [cdeciding]. destruct (cpick_in lt l x) as [E|I]; [left; now rewrite E | right; exact I]. Qed.
Lemma norm2_mul_unit z g : unit_mod g -> norm2 (cmulR z (conjR g)) = norm2 z.
Proof. unfold unit_mod, norm2, cmulR, conjR. cbn [fst snd]. intros H. nra. Qed.

Section SignConvention.
Variables (ph : CR -> CR) (lt : CR -> CR -> bool).
Hypothesis PH : sign_like ph.
Hypothesis PE : sign_exact ph.
Hypothesis LT : abs_lt lt.

(* a vector with a non-zero entry: its deciding entry z is one of its entries, non-zero, of largest magnitude; multiplying the vector by
   conj(ph z) makes that entry |z| and keeps all magnitudes *)
Lemma deciding_vector (l : list CR) :
  (exists x, In x l /\ 0 < norm2 x) ->
  let z := cdeciding c0R lt l in
  In z l /\ 0 < norm2 z /\ (forall y, In y l -> norm2 y <= norm2 z) /\
  cmulR z (conjR (ph z)) = (sqrt (norm2 z), 0) /\
  (forall y, In y l -> norm2 (cmulR y (conjR (ph z))) <= (sqrt (norm2 z))^2).
Proof.
  intros (x & Hx & Px) z.
  assert (NE : l <> []) by (intros ->; destruct Hx).
  assert (MX : forall y, In y l -> norm2 y <= norm2 z) by (intros y Hy; now apply cdeciding_max).
  assert (PZ : 0 < norm2 z) by (pose proof (MX x Hx); lra).
  split; [now apply cdeciding_in | split; [exact PZ | split; [exact MX | split; [now apply PE|]]]].
  intros y Hy. rewrite norm2_mul_unit by (now apply PH).
  replace ((sqrt (norm2 z))^2) with (sqrt (norm2 z) * sqrt (norm2 z)) by ring. rewrite sqrt_sqrt by lra. now apply MX.
Qed.

Theorem complex_flip_u_sign d1 c r d2 (U V : list (list CR)) :
  rect d1 c U -> rect r d2 V -> (1 <= d1)%nat -> herm_cols d1 c (cre U) (cim U) ->
  let '(U2, _) := flipR ph lt U V true in
  forall t, (t < c)%nat -> exists i, (i < d1)%nat /\ cim U2 i t = 0 /\ 0 < cre U2 i t /\
    forall i', (i' < d1)%nat -> (cre U2 i' t)^2 + (cim U2 i' t)^2 <= (cre U2 i t)^2.
Proof.
  intros RU RV D1 O.
  pose proof (complex_flip_u_entries ph lt d1 c r d2 U V RU RV D1) as E. cbv zeta in E.
  destruct (flipR ph lt U V true) as [U2 V2]. destruct E as [EU _]. intros t Ht.
  set (col := ccol c0R t U).
  assert (ENT : forall i, (i < d1)%nat -> In (nth t (nth i U []) c0R) col).
  { intros i Hi. unfold col, ccol. change (nth t (nth i U []) c0R) with ((fun r0 : list CR => nth t r0 c0R) (nth i U [])).
    apply in_map. apply nth_In. destruct RU; lia. }
  assert (G : phase_at (csigns_u c0R ph lt U) t = ph (cdeciding c0R lt col)).
  { unfold phase_at, csigns_u. rewrite map_length, seq_length, (ncols_U d1 c U RU D1).
    destruct (Nat.ltb_spec t c) as [_|]; [|lia].
    rewrite (nth_indep _ c0R (ph (cdeciding c0R lt (ccol c0R 0 U)))) by (now rewrite map_length, seq_length).
    now rewrite (map_nth (fun j => ph (cdeciding c0R lt (ccol c0R j U)))), seq_nth by exact Ht. }
  destruct (deciding_vector col) as (IN & PZ & MX & EX & MG).
  { destruct (O t t Ht Ht) as [H1 _]. rewrite Nat.eqb_refl in H1.
    destruct (rsum_pos_witness d1 (fun i => cre U i t * cre U i t + cim U i t * cim U i t)) as (i & Hi & Pi).
    - intros i _. nra.
    - rewrite H1. lra.
    - exists (nth t (nth i U []) c0R). split; [now apply ENT|]. unfold norm2, cre, cim, c0R in *. nra. }
  set (z := cdeciding c0R lt col) in *.
  assert (PAIR : forall i, (i < d1)%nat -> (cre U2 i t, cim U2 i t) = cmulR (nth t (nth i U []) c0R) (conjR (ph z))).
  { intros i Hi. destruct (EU i t Hi Ht) as [-> ->]. unfold Ur', Ui'. rewrite G. unfold cmulR, conjR, cre, cim, c0R. cbn [fst snd]. f_equal; ring. }
  (* the index of the deciding entry *)
  unfold col, ccol in IN. apply in_map_iff in IN. destruct IN as (row & Erow & Irow).
  destruct (In_nth U row [] Irow) as (i & Hi & Ei). assert (Hi' : (i < d1)%nat) by (destruct RU; lia).
  exists i. split; [exact Hi'|].
  pose proof (PAIR i Hi') as Pi. rewrite Ei, Erow, EX in Pi. injection Pi as P1 P2.
  split; [exact P2 | split; [rewrite P1; now apply sqrt_lt_R0|]].
  intros i' Hi2. pose proof (PAIR i' Hi2) as P'. pose proof (MG _ (ENT i' Hi2)) as B.
  rewrite <- P' in B. unfold norm2 in B at 1. cbn [fst snd] in B. rewrite P1. exact B.
Qed.

Theorem complex_flip_v_sign d1 c r d2 (U V : list (list CR)) :
  rect d1 c U -> rect r d2 V -> (1 <= d1)%nat -> (1 <= d2)%nat -> herm_rows r d2 (cre V) (cim V) ->
  let '(_, V2) := flipR ph lt U V false in
  forall t, (t < r)%nat -> exists j, (j < d2)%nat /\ cim V2 t j = 0 /\ 0 < cre V2 t j /\
    forall j', (j' < d2)%nat -> (cre V2 t j')^2 + (cim V2 t j')^2 <= (cre V2 t j)^2.
Proof.
  intros RU RV D1 D2 O.
  pose proof (complex_flip_v_entries ph lt d1 c r d2 U V RU RV D1) as E. cbv zeta in E.
  destruct (flipR ph lt U V false) as [U2 V2]. destruct E as [_ EV]. intros t Ht.
  set (row := nth t V []).
  assert (LR : length row = d2) by (apply (rect_row_len r d2 V t RV Ht)).
  assert (ENT : forall j, (j < d2)%nat -> In (nth j row c0R) row) by (intros j Hj; apply nth_In; lia).
  assert (G : phase_at (csigns_v c0R ph lt V) t = ph (cdeciding c0R lt row)).
  { unfold phase_at, csigns_v. rewrite map_length. destruct RV as [LV _]. rewrite LV.
    destruct (Nat.ltb_spec t r) as [_|]; [|lia].
    rewrite (nth_indep _ c0R (ph (cdeciding c0R lt []))) by (rewrite map_length; lia).
    now rewrite (map_nth (fun rw => ph (cdeciding c0R lt rw))). }
  destruct (deciding_vector row) as (IN & PZ & MX & EX & MG).
  { destruct (O t t Ht Ht) as [H1 _]. rewrite Nat.eqb_refl in H1.
    destruct (rsum_pos_witness d2 (fun j => cre V t j * cre V t j + cim V t j * cim V t j)) as (j & Hj & Pj).
    - intros j _. nra.
    - rewrite H1. lra.
    - exists (nth j row c0R). split; [now apply ENT|]. unfold norm2, cre, cim, c0R, row in *. nra. }
  set (z := cdeciding c0R lt row) in *.
  assert (PAIR : forall j, (j < d2)%nat -> (cre V2 t j, cim V2 t j) = cmulR (nth j row c0R) (conjR (ph z))).
  { intros j Hj. destruct (EV t j Ht Hj) as [-> ->]. unfold Vr', Vi'. rewrite G. unfold cmulR, conjR, cre, cim, c0R, row. cbn [fst snd]. f_equal; ring. }
  destruct (In_nth row z c0R IN) as (j & Hj & Ej). assert (Hj' : (j < d2)%nat) by lia.
  exists j. split; [exact Hj'|].
  pose proof (PAIR j Hj') as Pj. rewrite Ej, EX in Pj. injection Pj as P1 P2.
  split; [exact P2 | split; [rewrite P1; now apply sqrt_lt_R0|]].
  intros j' Hj2. pose proof (PAIR j' Hj2) as P'. pose proof (MG _ (ENT j' Hj2)) as B.
  rewrite <- P' in B. unfold norm2 in B at 1. cbn [fst snd] in B. rewrite P1. exact B.
Qed.
End SignConvention.

Lemma sign_exact_witness : sign_exact (fun z => (fst z / sqrt (norm2 z), snd z / sqrt (norm2 z))).
Proof.
  intros z Hz. unfold cmulR, conjR. cbn [fst snd].
  assert (S2 : sqrt (norm2 z) * sqrt (norm2 z) = norm2 z) by (apply sqrt_sqrt; lra).
  assert (SP : 0 < sqrt (norm2 z)) by (now apply sqrt_lt_R0).
  f_equal.
  - unfold norm2 in *. field_simplify_eq; [|lra]. nra.
  - field. lra.
Qed.

(* ---------- END TO END over C for EVERY n_eigenvecs (None, 0, > min(shape), > max(shape)), d1 >= 1 ---------- *)
Lemma csvd_contract_shape d1 d2 Mr Mi f t : csvd_contract d1 d2 Mr Mi f t -> shape_contract d1 d2 f t.
Proof. destruct t as [[U S] V]. intros H. exact (proj1 H). Qed.

Theorem complex_interface_truncated_e2e_gen (ph : CR -> CR) (lt : CR -> CR -> bool) (oracle : bool -> triple CR)
    (funs : fname -> nat -> list (list CR) -> triple CR) d1 d2 (Ml : list (list CR)) n (flip ub : bool) U S V :
  sign_like ph -> abs_lt lt ->
  (forall f, csvd_contract d1 d2 (cre Ml) (cim Ml) f (oracle f)) ->
  funs FTruncated 0%nat Ml = truncated_svd oracle d1 d2 n -> (1 <= d1)%nat ->
  svd_interface_flip (flipR ph lt) funs MTruncated Ml flip ub = Ok (U, S, V) ->
  let k := n_kept d1 d2 n in
  let mn := Nat.min d1 d2 in
  let So := snd (fst (oracle (full_flag d1 d2 n))) in
  let p := Nat.min k mn in
  let Er := fun i j => cre Ml i j - cprod_re p (cre U) (cim U) (cre V) (cim V) (sre S) i j in
  let Ei := fun i j => cim Ml i j - cprod_im p (cre U) (cim U) (cre V) (cim V) (sre S) i j in
  S = firstn k So /\ length S = p /\
  herm_cols d1 (Nat.min k d1) (cre U) (cim U) /\ herm_rows (Nat.min k d2) d2 (cre V) (cim V) /\
  cfrob2 d1 d2 Er Ei = rsum (mn - p) (fun t => (sre So (p + t)%nat)^2) /\
  (forall Br Bi, crank_le d1 d2 k Br Bi ->
     cfrob2 d1 d2 Er Ei <= cfrob2 d1 d2 (fun i j => cre Ml i j - Br i j) (fun i j => cim Ml i j - Bi i j)).
Proof.
  intros PH LT HC HF D1 E. cbv zeta.
  unfold svd_interface_flip in E. cbn [dispatch] in E. rewrite HF in E.
  pose proof (complex_truncated_best_gen oracle d1 d2 (cre Ml) (cim Ml) n HC) as T. cbv zeta in T.
  pose proof (truncated_shapes CR oracle d1 d2 n (fun f => csvd_contract_shape _ _ _ _ _ _ (HC f))) as SH. cbv zeta in SH.
  set (k := n_kept d1 d2 n) in *. set (mn := Nat.min d1 d2) in *.
  assert (CU : Nat.min k (if full_flag d1 d2 n then d1 else mn) = Nat.min k d1).
  { unfold full_flag. fold k mn. destruct (Nat.ltb_spec mn k); unfold mn in *; lia. }
  assert (RVn : Nat.min k (if full_flag d1 d2 n then d2 else mn) = Nat.min k d2).
  { unfold full_flag. fold k mn. destruct (Nat.ltb_spec mn k); unfold mn in *; lia. }
  rewrite CU, RVn in T.
  destruct (truncated_svd oracle d1 d2 n) as [[U0 S0] V0].
  destruct SH as (RU & _ & RV).
  destruct T as (ES & LS & OU & OV & EF & BEST).
  destruct flip.
  - pose proof (complex_flip_model ph lt d1 (Nat.min k d1) (Nat.min k d2) d2 U0 V0 RU RV D1 ub) as FM. cbv zeta in FM.
    assert (HP : forall t, (t < length (if ub then csigns_u c0R ph lt U0 else csigns_v c0R ph lt V0))%nat ->
                 unit_mod (nth t (if ub then csigns_u c0R ph lt U0 else csigns_v c0R ph lt V0) c0R)).
    { destruct ub; [apply (signs_u_unit ph lt PH LT d1 (Nat.min k d1) U0 RU D1 OU) | apply (signs_v_unit ph lt PH LT (Nat.min k d2) d2 V0 RV OV)]. }
    specialize (FM HP).
    destruct (flipR ph lt U0 V0 ub) as [U2 V2]. inversion E; subst U S V. clear E.
    destruct FM as (FU & FV & FP).
    assert (EQ : cfrob2 d1 d2 (fun i j => cre Ml i j - cprod_re (Nat.min k mn) (cre U2) (cim U2) (cre V2) (cim V2) (sre S0) i j)
                            (fun i j => cim Ml i j - cprod_im (Nat.min k mn) (cre U2) (cim U2) (cre V2) (cim V2) (sre S0) i j)
                 = cfrob2 d1 d2 (fun i j => cre Ml i j - cprod_re (Nat.min k mn) (cre U0) (cim U0) (cre V0) (cim V0) (sre S0) i j)
                            (fun i j => cim Ml i j - cprod_im (Nat.min k mn) (cre U0) (cim U0) (cre V0) (cim V0) (sre S0) i j)).
    { unfold cfrob2. apply rsum_ext; intros i Hi. apply rsum_ext; intros j Hj.
      destruct (FP (Nat.min k mn) (sre S0) i j ltac:(unfold mn; lia) Hi Hj) as [-> ->]. reflexivity. }
    split; [exact ES | split; [exact LS | split; [now apply FU | split; [now apply FV|]]]].
    rewrite EQ. split; [exact EF | exact BEST].
  - inversion E; subst U S V. clear E.
    split; [exact ES | split; [exact LS | split; [exact OU | split; [exact OV | split; [exact EF | exact BEST]]]]].
Qed.
