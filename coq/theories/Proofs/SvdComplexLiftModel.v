(* C05, round 8: the model's LIST-BASED matrix product at the complex scalars C = R x R (fops CopsR of Proofs/SvdComplexMask.v) computes the
   complex sums (cmg_mmul: real and imaginary parts of every entry of mmul CopsR), and with it the lifting step U' = Q @ U of
   randomized_svd_conj AS COMPUTED BY THE MODEL over C (PARTIAL exactly as over R: `M = Q B`, i.e. the range finder's Q covers the range of M
   with B = Q^H M, is a hypothesis): (mmul Q U, S, V) has Hermitian-orthonormal columns, reproduces M, every truncation has error = the
   discarded squared singular values and is a best approximation of its rank, and S are the singular values of every SVD of M. *)
From Coq Require Import List Arith Lia Bool Reals Lra.
From TLV Require Import Base.Ops Base.Tensor Base.RSum Model.Svd Model.SvdConj Proofs.SvdProofsAux Proofs.SvdProofs Proofs.SvdRandProofs
     Proofs.SvdComplexR Proofs.SvdComplexModel Proofs.SvdComplexFlip Proofs.SvdComplexRand Proofs.SvdComplexMask.
Import ListNotations.
Local Open Scope R_scope.

Lemma fold_dot_c : forall (a b : list CR) acc, length a = length b ->
  fold_left (fun ac p => fadd CopsR ac (fmul CopsR (fst p) (snd p))) (combine a b) acc
  = (fst acc + rsum (length a) (fun t => fst (nth t a c0R) * fst (nth t b c0R) - snd (nth t a c0R) * snd (nth t b c0R)),
     snd acc + rsum (length a) (fun t => fst (nth t a c0R) * snd (nth t b c0R) + snd (nth t a c0R) * fst (nth t b c0R))).
Proof.
  induction a as [|x a IH]; intros [|y b] acc H; cbn [length] in H; try discriminate.
  - cbn. destruct acc as [ar ai]. cbn. f_equal; ring.
  - cbn [combine fold_left length]. rewrite IH by lia. rewrite !rsum_shift. cbn [nth fst snd fadd fmul CopsR cmulR]. f_equal; ring.
Qed.

Lemma dot_c a b : length a = length b ->
  dot CopsR a b
  = (rsum (length a) (fun t => fst (nth t a c0R) * fst (nth t b c0R) - snd (nth t a c0R) * snd (nth t b c0R)),
     rsum (length a) (fun t => fst (nth t a c0R) * snd (nth t b c0R) + snd (nth t a c0R) * fst (nth t b c0R))).
Proof. intros H. unfold dot. rewrite fold_dot_c by exact H. cbn [f0 CopsR c0R fst snd]. f_equal; ring. Qed.

Lemma cnth_col x (Y : list (list CR)) : forall t, nth t (col CopsR x Y) c0R = mget CopsR Y t x.
Proof.
  unfold col, mget. cbn [f0 CopsR]. induction Y as [|r Y IH]; intros [|t]; cbn [map nth].
  - destruct x; reflexivity.
  - destruct x; reflexivity.
  - reflexivity.
  - apply IH.
Qed.

(* entries of the model's list product over C: (X @ Y)[i, j] = sum_t X[i, t] * Y[t, j] in complex arithmetic *)
Lemma cmg_mmul n (X Y : list (list CR)) i j m : (i < length X)%nat -> (j < n)%nat ->
  length (nth i X []) = m -> length Y = m ->
  cre (mmul CopsR n X Y) i j = cprod_re m (cre X) (cim X) (cre Y) (cim Y) (fun _ => 1) i j /\
  cim (mmul CopsR n X Y) i j = cprod_im m (cre X) (cim X) (cre Y) (cim Y) (fun _ => 1) i j.
Proof.
  intros Hi Hj Hr HY. rewrite cre_mget, cim_mget. unfold mmul. unfold mget at 1 2.
  set (G := fun r : list CR => map (fun c : list CR => dot CopsR r c) (cols_of CopsR n Y)).
  rewrite (nth_indep (map G X) [] (G [])) by (rewrite map_length; exact Hi).
  rewrite map_nth. unfold G, cols_of. rewrite map_map.
  rewrite (nth_map_seq (fun x => dot CopsR (nth i X []) (col CopsR x Y)) n j (f0 CopsR) Hj).
  rewrite dot_c by (unfold col; rewrite map_length; lia). rewrite Hr. cbn [fst snd].
  unfold cprod_re, cprod_im. split; apply rsum_ext; intros t _; rewrite cnth_col; unfold cre, cim, mget; cbn [f0 CopsR]; change c0R with (0, 0); ring.
Qed.

(* the lifting step of the model over C: U' = Q @ U as computed by mmul CopsR *)
Theorem complex_randomized_lift_model_partial d1 d2 c p k (Qm U V : list (list CR)) (Sg : list CR) (Mr Mi Br Bi : nat -> nat -> R) :
  length Qm = d1 -> (forall i, (i < d1)%nat -> length (nth i Qm []) = c) -> length U = c ->
  herm_cols d1 c (cre Qm) (cim Qm) ->
  (forall i j, (i < d1)%nat -> (j < d2)%nat -> Mr i j = cprod_re c (cre Qm) (cim Qm) Br Bi (fun _ => 1) i j) ->
  (forall i j, (i < d1)%nat -> (j < d2)%nat -> Mi i j = cprod_im c (cre Qm) (cim Qm) Br Bi (fun _ => 1) i j) ->
  herm_cols c p (cre U) (cim U) -> herm_rows p d2 (cre V) (cim V) ->
  (forall a j, (a < c)%nat -> (j < d2)%nat -> Br a j = cprod_re p (cre U) (cim U) (cre V) (cim V) (sre Sg) a j) ->
  (forall a j, (a < c)%nat -> (j < d2)%nat -> Bi a j = cprod_im p (cre U) (cim U) (cre V) (cim V) (sre Sg) a j) ->
  (forall t, (t < p)%nat -> 0 <= sre Sg t) -> (forall i j, (i <= j)%nat -> (j < p)%nat -> sre Sg j <= sre Sg i) ->
  (k <= p)%nat ->
  let U' := mmul CopsR p Qm U in
  herm_cols d1 p (cre U') (cim U') /\
  (forall i j, (i < d1)%nat -> (j < d2)%nat ->
     Mr i j = cprod_re p (cre U') (cim U') (cre V) (cim V) (sre Sg) i j /\ Mi i j = cprod_im p (cre U') (cim U') (cre V) (cim V) (sre Sg) i j) /\
  cfrob2 d1 d2 (fun i j => Mr i j - cprod_re k (cre U') (cim U') (cre V) (cim V) (sre Sg) i j)
               (fun i j => Mi i j - cprod_im k (cre U') (cim U') (cre V) (cim V) (sre Sg) i j)
  = rsum (p - k) (fun t => (sre Sg (k + t)%nat)^2) /\
  (forall Xr Xi Yr Yi Cr Ci : nat -> nat -> R,
     (forall i j, (i < d1)%nat -> (j < d2)%nat -> Cr i j = cprod_re k Xr Xi Yr Yi (fun _ => 1) i j) ->
     (forall i j, (i < d1)%nat -> (j < d2)%nat -> Ci i j = cprod_im k Xr Xi Yr Yi (fun _ => 1) i j) ->
     rsum (p - k) (fun t => (sre Sg (k + t)%nat)^2) <= cfrob2 d1 d2 (fun i j => Mr i j - Cr i j) (fun i j => Mi i j - Ci i j)).
Proof.
  intros LQ RQ LU OQ HMr HMi OU OV HBr HBi S0 SM Hk U'.
  assert (E : forall i t, (i < d1)%nat -> (t < p)%nat ->
            cre U' i t = QUr c (cre Qm) (cim Qm) (cre U) (cim U) i t /\ cim U' i t = QUi c (cre Qm) (cim Qm) (cre U) (cim U) i t).
  { intros i t Hi Ht. unfold U', QUr, QUi. apply cmg_mmul; [lia | exact Ht | now apply RQ | exact LU]. }
  destruct (complex_randomized_lift d1 d2 c p Mr Mi (cre Qm) (cim Qm) Br Bi (cre U) (cim U) (cre V) (cim V) (sre Sg) OQ HMr HMi OU OV HBr HBi)
    as [O1 R1].
  destruct (complex_randomized_lift_best d1 d2 c p Mr Mi (cre Qm) (cim Qm) Br Bi (cre U) (cim U) (cre V) (cim V) (sre Sg) OQ HMr HMi OU OV HBr HBi
              S0 SM k Hk) as (T1 & T2 & _).
  assert (PE : forall q i j, (q <= p)%nat -> (i < d1)%nat ->
            cprod_re q (cre U') (cim U') (cre V) (cim V) (sre Sg) i j
            = cprod_re q (QUr c (cre Qm) (cim Qm) (cre U) (cim U)) (QUi c (cre Qm) (cim Qm) (cre U) (cim U)) (cre V) (cim V) (sre Sg) i j /\
            cprod_im q (cre U') (cim U') (cre V) (cim V) (sre Sg) i j
            = cprod_im q (QUr c (cre Qm) (cim Qm) (cre U) (cim U)) (QUi c (cre Qm) (cim Qm) (cre U) (cim U)) (cre V) (cim V) (sre Sg) i j).
  { intros q i j Hq Hi. apply cprod_ext. intros t Ht. destruct (E i t Hi ltac:(lia)) as [-> ->]. repeat split; reflexivity. }
  split; [|split; [|split]].
  - eapply herm_cols_ext; [|exact O1]. intros i t Hi Ht. now apply E.
  - intros i j Hi Hj. destruct (PE p i j ltac:(lia) Hi) as [-> ->]. now apply R1.
  - rewrite <- T1. unfold cfrob2. apply rsum_ext; intros i Hi. apply rsum_ext; intros j Hj.
    destruct (PE k i j Hk Hi) as [-> ->]. reflexivity.
  - exact T2.
Qed.

(* non-vacuity of the product lemma: [[i]] @ [[i]] = [[-1]] *)
Lemma cmg_mmul_example : cre (mmul CopsR 1 [[(0, 1)]] [[(0, 1)]]) 0 0 = -1 /\ cim (mmul CopsR 1 [[(0, 1)]] [[(0, 1)]]) 0 0 = 0.
Proof. unfold cre, cim. cbn. split; ring. Qed.

(* non-vacuity of complex_randomized_lift_model_partial: the 1 x 1 request M = [[2i]] with Q = [[i]], B = Q^H M = [[2]], U = V = [[1]], S = [2] *)
Lemma complex_lift_model_hyps_witness :
  let Qm := [[(0, 1)]] in let U := [[(1, 0)]] in let V := [[(1, 0)]] in let Sg := [(2, 0)] in
  let Mr := fun _ _ : nat => 0 in let Mi := fun _ _ : nat => 2 in let Br := fun _ _ : nat => 2 in let Bi := fun _ _ : nat => 0 in
  length Qm = 1%nat /\ (forall i, (i < 1)%nat -> length (nth i Qm []) = 1%nat) /\ length U = 1%nat /\
  herm_cols 1 1 (cre Qm) (cim Qm) /\
  (forall i j, (i < 1)%nat -> (j < 1)%nat -> Mr i j = cprod_re 1 (cre Qm) (cim Qm) Br Bi (fun _ => 1) i j) /\
  (forall i j, (i < 1)%nat -> (j < 1)%nat -> Mi i j = cprod_im 1 (cre Qm) (cim Qm) Br Bi (fun _ => 1) i j) /\
  herm_cols 1 1 (cre U) (cim U) /\ herm_rows 1 1 (cre V) (cim V) /\
  (forall a j, (a < 1)%nat -> (j < 1)%nat -> Br a j = cprod_re 1 (cre U) (cim U) (cre V) (cim V) (sre Sg) a j) /\
  (forall a j, (a < 1)%nat -> (j < 1)%nat -> Bi a j = cprod_im 1 (cre U) (cim U) (cre V) (cim V) (sre Sg) a j) /\
  (forall t, (t < 1)%nat -> 0 <= sre Sg t) /\ (forall i j, (i <= j)%nat -> (j < 1)%nat -> sre Sg j <= sre Sg i) /\ (1 <= 1)%nat.
Proof.
  cbv zeta. split; [reflexivity|]. split; [intros i Hi; assert (i = 0%nat) by lia; subst; reflexivity|]. split; [reflexivity|].
  assert (HC : forall (X : list (list CR)), (fst (nth 0 (nth 0 X []) (0, 0)))^2 + (snd (nth 0 (nth 0 X []) (0, 0)))^2 = 1 -> herm_cols 1 1 (cre X) (cim X)).
  { intros X H a b Ha Hb. assert (a = 0%nat) by lia. assert (b = 0%nat) by lia. subst. unfold cre, cim. cbn [rsum Nat.eqb]. split; [lra | ring]. }
  assert (HR : forall (X : list (list CR)), (fst (nth 0 (nth 0 X []) (0, 0)))^2 + (snd (nth 0 (nth 0 X []) (0, 0)))^2 = 1 -> herm_rows 1 1 (cre X) (cim X)).
  { intros X H a b Ha Hb. assert (a = 0%nat) by lia. assert (b = 0%nat) by lia. subst. unfold cre, cim. cbn [rsum Nat.eqb]. split; [lra | ring]. }
  split; [apply HC; cbn; ring|].
  split; [intros i j Hi Hj; assert (i = 0%nat) by lia; assert (j = 0%nat) by lia; subst; unfold cprod_re, cre, cim; cbn; ring|].
  split; [intros i j Hi Hj; assert (i = 0%nat) by lia; assert (j = 0%nat) by lia; subst; unfold cprod_im, cre, cim; cbn; ring|].
  split; [apply HC; cbn; ring|]. split; [apply HR; cbn; ring|].
  split; [intros a j Ha Hj; assert (a = 0%nat) by lia; assert (j = 0%nat) by lia; subst; unfold cprod_re, cre, cim, sre; cbn; ring|].
  split; [intros a j Ha Hj; assert (a = 0%nat) by lia; assert (j = 0%nat) by lia; subst; unfold cprod_im, cre, cim, sre; cbn; ring|].
  split; [intros t Ht; assert (t = 0%nat) by lia; subst; unfold sre; cbn; lra|].
  split; [intros i j Hij Hj; assert (j = 0%nat) by lia; assert (i = 0%nat) by lia; subst; lra | lia].
Qed.
