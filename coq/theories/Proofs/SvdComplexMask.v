(* C05, round 8: the mask-imputation loop of svd_interface over ANY scalar structure (Section Generic: the loop invariant needs one
   algebraic fact only, x * 1 + r * (1 - 1) = x), and svd_interface with a mask on a COMPLEX matrix end to end
   (Model/SvdConj.v svd_interface_cmask at the complex scalars C = R x R with the conjugate-aware flip): the returned triple is the
   sign-resolved best rank-r approximation of the LAST imputed matrix, which agrees with the input on every observed entry. *)
From Coq Require Import List Arith Lia Bool Reals Lra.
From TLV Require Import Base.Ops Base.Tensor Base.RSum Model.Svd Model.SvdConj Proofs.SvdProofsAux Proofs.SvdProofs Proofs.SvdInterfaceProofs
     Proofs.SvdSymeigFull Proofs.SvdMaskProofs Proofs.SvdComplexR Proofs.SvdComplexModel Proofs.SvdComplexFlip.
Import ListNotations.
Local Open Scope nat_scope.

Section Generic.
Context {F : Type} (Op : fops F).

Lemma rect_mzip_g (f : F -> F -> F) r c (X Y : list (list F)) : rect r c X -> rect r c Y -> rect r c (mzip f X Y).
Proof.
  intros [LX FX] [LY FY]. unfold mzip. split.
  - rewrite map_length, combine_length. lia.
  - apply Forall_map, Forall_forall. intros [a b] Hin. cbn [fst snd].
    rewrite map_length, combine_length.
    pose proof (in_combine_l _ _ _ _ Hin) as Ha. pose proof (in_combine_r _ _ _ _ Hin) as Hb.
    rewrite Forall_forall in FX, FY. rewrite (FX a Ha), (FY b Hb). lia.
Qed.

Lemma mg_mzip_g (f : F -> F -> F) r c (X Y : list (list F)) i j : rect r c X -> rect r c Y -> i < r -> j < c ->
  mget Op (mzip f X Y) i j = f (mget Op X i j) (mget Op Y i j).
Proof.
  intros HX HY Hi Hj. pose proof (rect_row r c X i HX Hi) as RX. pose proof (rect_row r c Y i HY Hi) as RY.
  destruct HX as [LX _]. destruct HY as [LY _].
  unfold mzip, mget.
  set (g := fun p : list F * list F => map (fun q : F * F => f (fst q) (snd q)) (combine (fst p) (snd p))).
  rewrite (nth_indep (map g (combine X Y)) [] (g ([], []))) by (rewrite map_length, combine_length; lia).
  rewrite map_nth, nth_combine_lt by lia. unfold g. cbn [fst snd].
  set (h := fun q : F * F => f (fst q) (snd q)).
  rewrite (nth_indep (map h _) (f0 Op) (h (f0 Op, f0 Op))) by (rewrite map_length, combine_length; lia).
  rewrite map_nth, nth_combine_lt by lia. reflexivity.
Qed.

Lemma rect_mmul_g n (X Y : list (list F)) : rect (length X) n (mmul Op n X Y).
Proof.
  unfold mmul. split; [apply map_length|]. apply Forall_map, Forall_forall. intros r _.
  unfold cols_of. now rewrite !map_length, seq_length.
Qed.

Definition lowrank_g d2 (U : list (list F)) Sg V : list (list F) :=
  mmul Op d2 (mmul Op (length V) U (st_matrix Op (ncols U) (length V) Sg)) V.

Lemma impute_spec_g d1 d2 M mask U Sg V : rect d1 d2 M -> rect d1 d2 mask -> length U = d1 ->
  rect d1 d2 (impute Op d2 M mask U Sg V) /\
  forall i j, i < d1 -> j < d2 ->
    mget Op (impute Op d2 M mask U Sg V) i j
    = fadd Op (fmul Op (mget Op M i j) (mget Op mask i j))
              (fmul Op (mget Op (lowrank_g d2 U Sg V) i j) (fsub Op (f1 Op) (mget Op mask i j))).
Proof.
  intros HM Hm LU. unfold impute. fold (lowrank_g d2 U Sg V).
  assert (RL : rect d1 d2 (lowrank_g d2 U Sg V)).
  { unfold lowrank_g. pose proof (rect_mmul_g d2 (mmul Op (length V) U (st_matrix Op (ncols U) (length V) Sg)) V) as H.
    assert (length (mmul Op (length V) U (st_matrix Op (ncols U) (length V) Sg)) = d1) as L
      by (unfold mmul; rewrite map_length; exact LU).
    rewrite L in H. exact H. }
  split.
  - apply rect_mzip_g; apply rect_mzip_g; assumption.
  - intros i j Hi Hj.
    rewrite (mg_mzip_g _ d1 d2) by (try apply rect_mzip_g; assumption).
    rewrite !(mg_mzip_g _ d1 d2) by assumption. reflexivity.
Qed.

(* the only algebra the invariant needs: an observed entry (mask = 1) is kept *)
Hypothesis keep : forall x r, fadd Op (fmul Op x (f1 Op)) (fmul Op r (fsub Op (f1 Op) (f1 Op))) = x.

Corollary impute_observed_g d1 d2 M mask U Sg V i j : rect d1 d2 M -> rect d1 d2 mask -> length U = d1 ->
  i < d1 -> j < d2 -> mget Op mask i j = f1 Op -> mget Op (impute Op d2 M mask U Sg V) i j = mget Op M i j.
Proof. intros HM Hm LU Hi Hj E. rewrite (proj2 (impute_spec_g d1 d2 M mask U Sg V HM Hm LU) i j Hi Hj), E. apply keep. Qed.

(* the loop: invariant over any number of iterations, any scalar structure *)
Lemma mask_loop_spec_g d1 d2 (svd_fun : nat -> list (list F) -> triple F) mask :
  rect d1 d2 mask ->
  (forall c X, rect d1 d2 X -> length (fst (fst (svd_fun c X))) = d1) ->
  forall iters call M t, rect d1 d2 M -> length (fst (fst t)) = d1 ->
  let '(M', t') := mask_loop Op svd_fun d2 mask iters call M t in
  rect d1 d2 M' /\
  (forall i j, i < d1 -> j < d2 -> mget Op mask i j = f1 Op -> mget Op M' i j = mget Op M i j) /\
  (0 < iters -> t' = svd_fun (call + iters - 1) M').
Proof.
  intros Hm HF. induction iters as [|it IH]; intros call M t HM Ht.
  - cbn [mask_loop]. split; [exact HM | split; [reflexivity | lia]].
  - cbn [mask_loop]. destruct t as [[U Sg] V]. cbn [fst] in Ht.
    destruct (impute_spec_g d1 d2 M mask U Sg V HM Hm Ht) as [R1 _].
    specialize (IH (S call) (impute Op d2 M mask U Sg V) (svd_fun call (impute Op d2 M mask U Sg V)) R1 (HF _ _ R1)).
    destruct (mask_loop Op svd_fun d2 mask it (S call) (impute Op d2 M mask U Sg V) (svd_fun call (impute Op d2 M mask U Sg V)))
      as [M' t'] eqn:EL.
    destruct IH as (I1 & I2 & I3). split; [exact I1 | split].
    + intros i j Hi Hj E. rewrite (I2 i j Hi Hj E). now apply (impute_observed_g d1 d2).
    + intros _. destruct it as [|it'].
      * cbn [mask_loop] in EL. inversion EL; subst. f_equal. lia.
      * rewrite I3 by lia. f_equal. lia.
Qed.
End Generic.

(* ---------- the complex scalars C = R x R as an fops (division: a conj(b) / |b|^2; the order compares real parts, as NumPy does) ---------- *)
Local Open Scope R_scope.
Definition cdivR (a b : CR) : CR :=
  let n := (fst b)^2 + (snd b)^2 in ((fst a * fst b + snd a * snd b) / n, (snd a * fst b - fst a * snd b) / n).
Definition CopsR : fops CR :=
  mkF c0R c1R (fun a b => (fst a + fst b, snd a + snd b)) (fun a b => (fst a - fst b, snd a - snd b)) cmulR cdivR
      (fun a => (- fst a, - snd a)) (fun a b => Rleb (fst a) (fst b)).

Lemma keep_CopsR : forall x r : CR,
  fadd CopsR (fmul CopsR x (f1 CopsR)) (fmul CopsR r (fsub CopsR (f1 CopsR) (f1 CopsR))) = x.
Proof. intros [xr xi] [rr ri]. cbn. f_equal; ring. Qed.

Lemma cre_mget (X : list (list CR)) i j : cre X i j = fst (mget CopsR X i j).
Proof. reflexivity. Qed.
Lemma cim_mget (X : list (list CR)) i j : cim X i j = snd (mget CopsR X i j).
Proof. reflexivity. Qed.

(* svd_interface with a mask on a complex matrix (method truncated_svd, any flip setting): the returned triple is the sign-resolved
   truncated SVD of the last imputed matrix Mlast - leading singular values of LAPACK's answer on Mlast (real, non-negative,
   non-increasing), Hermitian-orthonormal U columns / V rows, error = discarded squared singular values, best approximation of
   rank <= r - and Mlast agrees with the input on every observed entry (mask = 1 + 0i).  orc c X = LAPACK's answer on the c-th call. *)
Theorem complex_interface_masked_e2e (ph : CR -> CR) (lt : CR -> CR -> bool) (orc : nat -> list (list CR) -> bool -> triple CR)
    (funs : fname -> nat -> list (list CR) -> triple CR) d1 d2 (Ml mask : list (list CR)) r (flip ub : bool) iters U S V :
  sign_like ph -> abs_lt lt ->
  rect d1 d2 Ml -> rect d1 d2 mask ->
  (forall c X, rect d1 d2 X -> forall f, csvd_contract d1 d2 (cre X) (cim X) f (orc c X f)) ->
  (forall c X, funs FTruncated c X = truncated_svd (orc c X) d1 d2 (Some r)) ->
  (1 <= r <= Nat.min d1 d2)%nat -> (1 <= iters)%nat ->
  svd_interface_cmask CopsR (flipR ph lt) funs MTruncated d2 Ml (Some r) flip ub (Some mask) iters = Ok (U, S, V) ->
  exists Mlast c,
    rect d1 d2 Mlast /\
    (forall i j, (i < d1)%nat -> (j < d2)%nat -> cre mask i j = 1 -> cim mask i j = 0 ->
       cre Mlast i j = cre Ml i j /\ cim Mlast i j = cim Ml i j) /\
    let So := snd (fst (orc c Mlast false)) in
    let Er := fun i j => cre Mlast i j - cprod_re r (cre U) (cim U) (cre V) (cim V) (sre S) i j in
    let Ei := fun i j => cim Mlast i j - cprod_im r (cre U) (cim U) (cre V) (cim V) (sre S) i j in
    S = firstn r So /\
    (forall t, (t < r)%nat -> snd (nth t S (0, 0)) = 0 /\ 0 <= sre S t) /\
    (forall i j, (i <= j)%nat -> (j < r)%nat -> sre S j <= sre S i) /\
    herm_cols d1 r (cre U) (cim U) /\ herm_rows r d2 (cre V) (cim V) /\
    cfrob2 d1 d2 Er Ei = rsum (Nat.min d1 d2 - r) (fun t => (sre So (r + t)%nat)^2) /\
    (forall Br Bi, crank_le d1 d2 r Br Bi ->
       cfrob2 d1 d2 Er Ei <= cfrob2 d1 d2 (fun i j => cre Mlast i j - Br i j) (fun i j => cim Mlast i j - Bi i j)).
Proof.
  intros PH LT HM Hm HC HFu Hr Hit E.
  set (sf := funs FTruncated).
  assert (HF : forall c X, rect d1 d2 X -> length (fst (fst (sf c X))) = d1).
  { intros c X HX. unfold sf. rewrite HFu.
    pose proof (truncated_shapes_documented CR (orc c X) d1 d2 r (fun f => csvd_contract_shape _ _ _ _ _ _ (HC c X HX f)) ltac:(lia)) as SH.
    destruct (truncated_svd (orc c X) d1 d2 (Some r)) as [[U0 S0] V0]. destruct SH as ((L & _) & _). exact L. }
  pose proof (mask_loop_spec_g CopsR keep_CopsR d1 d2 sf mask Hm HF iters 1%nat Ml (sf 0%nat Ml) HM (HF _ _ HM)) as SP.
  assert (E' : (let '(M1, t1) := mask_loop CopsR sf d2 mask iters 1 Ml (sf 0%nat Ml) in
                let '(U1, S1, V1) := t1 in
                let '(U2, V2) := if flip then flipR ph lt U1 V1 ub else (U1, V1) in Ok (U2, S1, V2)) = Ok (U, S, V)).
  { unfold svd_interface_cmask in E. cbn [dispatch] in E. fold sf in E.
    destruct (mask_loop CopsR sf d2 mask iters 1 Ml (sf 0%nat Ml)) as [M1 t1]. exact E. }
  clear E. rename E' into E.
  destruct (mask_loop CopsR sf d2 mask iters 1 Ml (sf 0%nat Ml)) as [M1 t1] eqn:EL.
  destruct SP as (R1 & O1 & T1). specialize (T1 ltac:(lia)).
  exists M1, (1 + iters - 1)%nat. split; [exact R1 | split].
  { intros i j Hi Hj Er Ei. rewrite !cre_mget, !cim_mget.
    assert (Em : mget CopsR mask i j = f1 CopsR).
    { rewrite (surjective_pairing (mget CopsR mask i j)). rewrite <- cre_mget, <- cim_mget, Er, Ei. reflexivity. }
    rewrite (O1 i j Hi Hj Em). split; reflexivity. }
  set (c := (1 + iters - 1)%nat) in *.
  apply (complex_interface_truncated_e2e_sign ph lt (orc c M1) (fun _ _ X => truncated_svd (orc c X) d1 d2 (Some r)) d1 d2 M1 r flip ub U S V
           PH LT (HC _ _ R1) eq_refl Hr).
  unfold svd_interface_flip. cbn [dispatch]. rewrite <- E. subst t1. unfold sf. rewrite HFu.
  destruct (truncated_svd (orc c M1) d1 d2 (Some r)) as [[U0 S0] V0].
  destruct flip; [destruct (flipR ph lt U0 V0 ub)|]; reflexivity.
Qed.

(* ---------- non-vacuity: for 1 x 1 complex matrices the hypotheses hold with the exact SVD [[z]] = [[z / |z|]] diag(|z|) [[1]] (U = [[1]] for z = 0) as
   LAPACK's answer on EVERY matrix handed to it, np.sign as ph and the magnitude comparison as lt ---------- *)
Definition orc11 (X : list (list CR)) (f : bool) : triple CR :=
  let z := nth 0%nat (nth 0%nat X []) c0R in
  let rho := sqrt (norm2 z) in
  ([[if Req_EM_T rho 0 then c1R else (fst z / rho, snd z / rho)]], [(rho, 0)], [[c1R]]).

Lemma orc11_contract : forall X, rect 1 1 X -> forall f, csvd_contract 1 1 (cre X) (cim X) f (orc11 X f).
Proof.
  intros X _ f. unfold orc11.
  set (z := nth 0%nat (nth 0%nat X []) c0R). set (rho := sqrt (norm2 z)).
  assert (N0 : 0 <= norm2 z) by (unfold norm2; nra).
  assert (R2 : rho * rho = norm2 z) by (unfold rho; now apply sqrt_sqrt).
  assert (RP : 0 <= rho) by (unfold rho; apply sqrt_pos).
  assert (ZR : cre X 0 0 = fst z) by reflexivity. assert (ZI : cim X 0 0 = snd z) by reflexivity.
  set (u := if Req_EM_T rho 0 then c1R else (fst z / rho, snd z / rho)).
  assert (UN : fst u * fst u + snd u * snd u = 1).
  { unfold u. destruct (Req_EM_T rho 0) as [E|NE]; cbn [fst snd c1R]; [ring|].
    unfold norm2 in R2. field_simplify_eq; [|exact NE]. nra. }
  assert (PR : fst z = rho * fst u /\ snd z = rho * snd u).
  { unfold u. destruct (Req_EM_T rho 0) as [E|NE]; cbn [fst snd c1R].
    - rewrite E in R2. unfold norm2 in R2. rewrite E. split; nra.
    - split; field; exact NE. }
  unfold csvd_contract, shape_contract, rect. cbn [Nat.min length].
  assert (I1 : (if f then 1%nat else 1%nat) = 1%nat) by (destruct f; reflexivity). rewrite !I1.
  repeat split; try (repeat constructor; fail).
  - assert (a = 0%nat) by lia. assert (b = 0%nat) by lia. subst a b. unfold cre, cim. cbn [rsum nth fst snd Nat.eqb]. fold u. lra.
  - assert (a = 0%nat) by lia. assert (b = 0%nat) by lia. subst a b. unfold cre, cim. cbn [rsum nth fst snd]. ring.
  - assert (a = 0%nat) by lia. assert (b = 0%nat) by lia. subst a b. unfold cre, cim. cbn. ring.
  - assert (a = 0%nat) by lia. assert (b = 0%nat) by lia. subst a b. unfold cre, cim. cbn. ring.
  - assert (t = 0%nat) by lia. subst t. reflexivity.
  - assert (t = 0%nat) by lia. subst t. unfold sre. cbn [nth fst]. exact RP.
  - intros i j Hij Hj. assert (j = 0%nat) by lia. assert (i = 0%nat) by lia. subst. lra.
  - intros i j Hi Hj. assert (j = 0%nat) by lia. assert (i = 0%nat) by lia. subst i j. rewrite ZR.
    unfold cprod_re, cre, cim, sre. cbn [rsum nth fst snd c1R]. fold u. destruct PR as [P1 _]. rewrite P1. ring.
  - intros i j Hi Hj. assert (j = 0%nat) by lia. assert (i = 0%nat) by lia. subst i j. rewrite ZI.
    unfold cprod_im, cre, cim, sre. cbn [rsum nth fst snd c1R]. fold u. destruct PR as [_ P2]. rewrite P2. ring.
Qed.

Lemma complex_masked_hyps_satisfiable :
  let ph := fun z : CR => (fst z / sqrt (norm2 z), snd z / sqrt (norm2 z)) in
  let lt := fun a b : CR => if Rlt_dec (norm2 a) (norm2 b) then true else false in
  let funs := fun (_ : fname) (_ : nat) X => truncated_svd (orc11 X) 1 1 (Some 1%nat) in
  let Ml := [[(0, 2)]] in let mask := [[c1R]] in
  sign_like ph /\ abs_lt lt /\ rect 1 1 Ml /\ rect 1 1 mask /\
  (forall (c : nat) X, rect 1 1 X -> forall f, csvd_contract 1 1 (cre X) (cim X) f (orc11 X f)) /\
  (forall c X, funs FTruncated c X = truncated_svd (orc11 X) 1 1 (Some 1%nat)) /\ (1 <= 1 <= Nat.min 1 1)%nat /\ (1 <= 2)%nat /\
  exists U S V, svd_interface_cmask CopsR (flipR ph lt) funs MTruncated 1 Ml (Some 1%nat) true true (Some mask) 2 = Ok (U, S, V).
Proof.
  cbv zeta. destruct sign_like_abs_lt_witness as [W1 W2].
  split; [exact W1 | split; [exact W2|]].
  split; [split; [reflexivity | repeat constructor]|]. split; [split; [reflexivity | repeat constructor]|].
  split; [intros _ X HX f; now apply orc11_contract|]. split; [reflexivity|]. split; [lia|]. split; [lia|].
  unfold svd_interface_cmask. cbn [dispatch].
  match goal with |- context [mask_loop ?a ?b ?c ?d ?e ?f ?g ?h] => destruct (mask_loop a b c d e f g h) as [M1 [[U1 S1] V1]] end.
  destruct (flipR _ _ U1 V1 true) as [U2 V2]. now exists U2, S1, V2.
Qed.
