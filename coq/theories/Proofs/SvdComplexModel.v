(* C05 for COMPLEX scalars, tie to the model: truncated_svd of Model/Svd.v is polymorphic in the element type, so it runs unchanged
   on complex scalars C = R x R (the complex correspondence executes the very same function at the Gaussian rationals).  Under the
   complex SVD contract for LAPACK's answer (Hermitian-orthonormal factors, real non-negative non-increasing S, U diag(S) V = M)
   the returned triple has the documented shapes, S = the leading values, Hermitian-orthonormal factors, squared error = the
   discarded squared singular values, and no complex matrix of rank <= n_eigenvecs is closer (Eckart-Young over C).
   Second part: sign (phase) resolution at function level over C: multiplying the columns of U by conj(g_t) and the rows of V by g_t,
   |g_t| = 1, keeps Hermitian orthonormality of both factors and the product. *)
From Coq Require Import List Arith Lia Bool Reals Lra Psatz.
From TLV Require Import Base.Ops Base.Tensor Base.RSum Model.Svd Proofs.SvdProofsAux Proofs.SvdProofs Proofs.SvdComplexR.
Import ListNotations.
Local Open Scope R_scope.

Definition CR := (R * R)%type.
Definition cre (M : list (list CR)) (i j : nat) : R := fst (nth j (nth i M []) (0, 0)).
Definition cim (M : list (list CR)) (i j : nat) : R := snd (nth j (nth i M []) (0, 0)).
Definition sre (Sg : list CR) (t : nat) : R := fst (nth t Sg (0, 0)).

Definition csvd_contract (d1 d2 : nat) (Mr Mi : nat -> nat -> R) (full : bool) (t : triple CR) : Prop :=
  let '(U, Sg, V) := t in
  let mn := Nat.min d1 d2 in
  shape_contract d1 d2 full t /\
  herm_cols d1 (if full then d1 else mn) (cre U) (cim U) /\
  herm_rows (if full then d2 else mn) d2 (cre V) (cim V) /\
  (forall t, (t < mn)%nat -> snd (nth t Sg (0, 0)) = 0 /\ 0 <= sre Sg t) /\
  (forall i j, (i <= j)%nat -> (j < mn)%nat -> sre Sg j <= sre Sg i) /\
  (forall i j, (i < d1)%nat -> (j < d2)%nat -> Mr i j = cprod_re mn (cre U) (cim U) (cre V) (cim V) (sre Sg) i j) /\
  (forall i j, (i < d1)%nat -> (j < d2)%nat -> Mi i j = cprod_im mn (cre U) (cim U) (cre V) (cim V) (sre Sg) i j).

(* complex matrices of rank <= k: B = X Y with inner dimension k *)
Definition crank_le (d1 d2 k : nat) (Br Bi : nat -> nat -> R) : Prop :=
  exists Xr Xi Yr Yi : nat -> nat -> R,
    (forall i j, (i < d1)%nat -> (j < d2)%nat -> Br i j = cprod_re k Xr Xi Yr Yi (fun _ => 1) i j) /\
    (forall i j, (i < d1)%nat -> (j < d2)%nat -> Bi i j = cprod_im k Xr Xi Yr Yi (fun _ => 1) i j).

Lemma cre_map_firstn k (U : list (list CR)) i t : (t < k)%nat -> cre (map (firstn k) U) i t = cre U i t.
Proof.
  intros H. unfold cre. rewrite (nth_map_d (firstn k) U i [] []) by apply firstn_nil. now rewrite nth_firstn_lt.
Qed.
Lemma cim_map_firstn k (U : list (list CR)) i t : (t < k)%nat -> cim (map (firstn k) U) i t = cim U i t.
Proof.
  intros H. unfold cim. rewrite (nth_map_d (firstn k) U i [] []) by apply firstn_nil. now rewrite nth_firstn_lt.
Qed.
Lemma cre_firstn k (V : list (list CR)) t j : (t < k)%nat -> cre (firstn k V) t j = cre V t j.
Proof. intros H. unfold cre. now rewrite nth_firstn_lt. Qed.
Lemma cim_firstn k (V : list (list CR)) t j : (t < k)%nat -> cim (firstn k V) t j = cim V t j.
Proof. intros H. unfold cim. now rewrite nth_firstn_lt. Qed.
Lemma sre_firstn k (Sg : list CR) t : (t < k)%nat -> sre (firstn k Sg) t = sre Sg t.
Proof. intros H. unfold sre. now rewrite nth_firstn_lt. Qed.

Lemma herm_cols_sub m c c' Ur Ui : (c' <= c)%nat -> herm_cols m c Ur Ui -> herm_cols m c' Ur Ui.
Proof. intros H O a b Ha Hb. apply O; lia. Qed.
Lemma herm_rows_sub r r' n Vr Vi : (r' <= r)%nat -> herm_rows r n Vr Vi -> herm_rows r' n Vr Vi.
Proof. intros H O a b Ha Hb. apply O; lia. Qed.
Lemma herm_cols_ext m c Ur Ui Ur' Ui' :
  (forall i t, (i < m)%nat -> (t < c)%nat -> Ur' i t = Ur i t /\ Ui' i t = Ui i t) -> herm_cols m c Ur Ui -> herm_cols m c Ur' Ui'.
Proof.
  intros E O a b Ha Hb. destruct (O a b Ha Hb) as [H1 H2]. split.
  - rewrite <- H1. apply rsum_ext; intros i Hi. destruct (E i a Hi Ha) as [-> ->]. destruct (E i b Hi Hb) as [-> ->]. reflexivity.
  - rewrite <- H2. apply rsum_ext; intros i Hi. destruct (E i a Hi Ha) as [-> ->]. destruct (E i b Hi Hb) as [-> ->]. reflexivity.
Qed.
Lemma herm_rows_ext r n Vr Vi Vr' Vi' :
  (forall t j, (t < r)%nat -> (j < n)%nat -> Vr' t j = Vr t j /\ Vi' t j = Vi t j) -> herm_rows r n Vr Vi -> herm_rows r n Vr' Vi'.
Proof.
  intros E O a b Ha Hb. destruct (O a b Ha Hb) as [H1 H2]. split.
  - rewrite <- H1. apply rsum_ext; intros j Hj. destruct (E a j Ha Hj) as [-> ->]. destruct (E b j Hb Hj) as [-> ->]. reflexivity.
  - rewrite <- H2. apply rsum_ext; intros j Hj. destruct (E a j Ha Hj) as [-> ->]. destruct (E b j Hb Hj) as [-> ->]. reflexivity.
Qed.
Lemma cprod_ext k Ur Ui Vr Vi s Ur' Ui' Vr' Vi' s' i j :
  (forall t, (t < k)%nat -> Ur' i t = Ur i t /\ Ui' i t = Ui i t /\ Vr' t j = Vr t j /\ Vi' t j = Vi t j /\ s' t = s t) ->
  cprod_re k Ur' Ui' Vr' Vi' s' i j = cprod_re k Ur Ui Vr Vi s i j /\ cprod_im k Ur' Ui' Vr' Vi' s' i j = cprod_im k Ur Ui Vr Vi s i j.
Proof.
  intros E. split; apply rsum_ext; intros t Ht; destruct (E t Ht) as (-> & -> & -> & -> & ->); reflexivity.
Qed.

(* truncated_svd on complex scalars, documented range 0 <= r <= min(shape) *)
Theorem complex_truncated_best (oracle : bool -> triple CR) d1 d2 (Mr Mi : nat -> nat -> R) r :
  (forall f, csvd_contract d1 d2 Mr Mi f (oracle f)) -> (r <= Nat.min d1 d2)%nat ->
  let So := snd (fst (oracle false)) in
  let '(U, Sg, V) := truncated_svd oracle d1 d2 (Some r) in
  let Er := fun i j => Mr i j - cprod_re r (cre U) (cim U) (cre V) (cim V) (sre Sg) i j in
  let Ei := fun i j => Mi i j - cprod_im r (cre U) (cim U) (cre V) (cim V) (sre Sg) i j in
  shape3 (U, Sg, V) d1 r r r d2 /\ Sg = firstn r So /\
  (forall t, (t < r)%nat -> snd (nth t Sg (0, 0)) = 0 /\ 0 <= sre Sg t) /\
  (forall i j, (i <= j)%nat -> (j < r)%nat -> sre Sg j <= sre Sg i) /\
  herm_cols d1 r (cre U) (cim U) /\ herm_rows r d2 (cre V) (cim V) /\
  cfrob2 d1 d2 Er Ei = rsum (Nat.min d1 d2 - r) (fun t => (sre So (r + t)%nat)^2) /\
  (forall Br Bi, crank_le d1 d2 r Br Bi -> cfrob2 d1 d2 Er Ei <= cfrob2 d1 d2 (fun i j => Mr i j - Br i j) (fun i j => Mi i j - Bi i j)).
Proof.
  intros HC Hr So. rewrite truncated_unfold.
  assert (K : n_kept d1 d2 (Some r) = r) by (rewrite n_kept_spec; lia).
  assert (FF : full_flag d1 d2 (Some r) = false) by (unfold full_flag; rewrite K; apply Nat.ltb_ge; exact Hr).
  rewrite K, FF. specialize (HC false). subst So. destruct (oracle false) as [[U0 S0] V0]. cbn [fst snd slice3].
  destruct HC as ((RU & LS & RV) & OU & OV & SR & SMn & HMr & HMi).
  set (mn := Nat.min d1 d2) in *.
  set (U := map (firstn r) U0). set (V := firstn r V0). set (Sg := firstn r S0).
  assert (EP : forall k i j, (k <= r)%nat ->
            cprod_re k (cre U) (cim U) (cre V) (cim V) (sre Sg) i j = cprod_re k (cre U0) (cim U0) (cre V0) (cim V0) (sre S0) i j /\
            cprod_im k (cre U) (cim U) (cre V) (cim V) (sre Sg) i j = cprod_im k (cre U0) (cim U0) (cre V0) (cim V0) (sre S0) i j).
  { intros k i j Hk. apply cprod_ext. intros t Ht. unfold U, V, Sg.
    rewrite cre_map_firstn, cim_map_firstn, cre_firstn, cim_firstn, sre_firstn by lia. repeat split; reflexivity. }
  assert (EF : cfrob2 d1 d2 (fun i j => Mr i j - cprod_re r (cre U) (cim U) (cre V) (cim V) (sre Sg) i j)
                            (fun i j => Mi i j - cprod_im r (cre U) (cim U) (cre V) (cim V) (sre Sg) i j)
               = rsum (mn - r) (fun t => (sre S0 (r + t)%nat)^2)).
  { rewrite <- (complex_trunc_error d1 d2 mn Mr Mi (cre U0) (cim U0) (cre V0) (cim V0) (sre S0) OU OV HMr HMi r Hr).
    unfold cfrob2. apply rsum_ext; intros i _. apply rsum_ext; intros j _.
    destruct (EP r i j (le_n r)) as [-> ->]. reflexivity. }
  split; [|split; [reflexivity|split; [|split; [|split; [|split; [|split; [exact EF|]]]]]]].
  - split; [|split].
    + unfold U. replace r with (Nat.min r mn) at 1 by lia. now apply rect_map_firstn.
    + unfold Sg. rewrite firstn_length. lia.
    + unfold V. replace r with (Nat.min r mn) at 1 by lia. now apply rect_firstn.
  - intros t Ht. unfold Sg. rewrite sre_firstn, nth_firstn_lt by exact Ht. apply SR. lia.
  - intros i j Hij Hj. unfold Sg. rewrite !sre_firstn by lia. apply SMn; lia.
  - apply (herm_cols_ext d1 r (cre U0) (cim U0)).
    + intros i t _ Ht. unfold U. now rewrite cre_map_firstn, cim_map_firstn.
    + now apply (herm_cols_sub d1 mn r).
  - apply (herm_rows_ext r d2 (cre V0) (cim V0)).
    + intros t j Ht _. unfold V. now rewrite cre_firstn, cim_firstn.
    + now apply (herm_rows_sub mn r d2).
  - intros Br Bi (Xr & Xi & Yr & Yi & HBr & HBi). rewrite EF.
    apply (complex_eckart_young d1 d2 mn Mr Mi (cre U0) (cim U0) (cre V0) (cim V0) (sre S0) OU OV HMr HMi
             (fun t Ht => proj2 (SR t Ht)) SMn r Br Bi Xr Xi Yr Yi HBr HBi).
Qed.

(* the returned S consists of the leading singular values of EVERY complex singular value decomposition of M *)
Theorem complex_truncated_S_true (oracle : bool -> triple CR) d1 d2 (Mr Mi : nat -> nat -> R) r Ux Sx Vx :
  (forall f, csvd_contract d1 d2 Mr Mi f (oracle f)) -> (r <= Nat.min d1 d2)%nat ->
  csvd_contract d1 d2 Mr Mi false (Ux, Sx, Vx) ->
  forall t, (t < r)%nat -> sre (snd (fst (truncated_svd oracle d1 d2 (Some r)))) t = sre Sx t.
Proof.
  intros HC Hr HX t Ht. rewrite truncated_S_prefix.
  assert (K : n_kept d1 d2 (Some r) = r) by (rewrite n_kept_spec; lia).
  assert (FF : full_flag d1 d2 (Some r) = false) by (unfold full_flag; rewrite K; apply Nat.ltb_ge; exact Hr).
  rewrite K, FF. specialize (HC false). destruct (oracle false) as [[U0 S0] V0]. cbn [fst snd].
  rewrite sre_firstn by exact Ht.
  destruct HC as (_ & OU & OV & SR & SMn & HMr & HMi). destruct HX as (_ & OU' & OV' & SR' & SMn' & HMr' & HMi').
  apply (complex_singular_values_unique d1 d2 (Nat.min d1 d2) Mr Mi (cre U0) (cim U0) (cre V0) (cim V0) (sre S0) OU OV HMr HMi
           (fun t Ht => proj2 (SR t Ht)) SMn (cre Ux) (cim Ux) (cre Vx) (cim Vx) (sre Sx) OU' OV' (fun t Ht => proj2 (SR' t Ht)) SMn' HMr' HMi').
  lia.
Qed.

(* ---------- phase resolution over C (svd_flip as of ca31a67), function level: U' = U * conj(g), V' = g * V, |g_t| = 1 ---------- *)
Section Phase.
Variables (m n p : nat) (Ur Ui Vr Vi : nat -> nat -> R) (gr gi : nat -> R).
Hypothesis unit_phase : forall t, (t < p)%nat -> (gr t)^2 + (gi t)^2 = 1.
Definition Ur' i t := Ur i t * gr t + Ui i t * gi t.       (* (Ur + i Ui)(gr - i gi) *)
Definition Ui' i t := Ui i t * gr t - Ur i t * gi t.
Definition Vr' t j := Vr t j * gr t - Vi t j * gi t.       (* (Vr + i Vi)(gr + i gi) *)
Definition Vi' t j := Vr t j * gi t + Vi t j * gr t.

Theorem phase_product (s : nat -> R) i j :
  cprod_re p Ur' Ui' Vr' Vi' s i j = cprod_re p Ur Ui Vr Vi s i j /\ cprod_im p Ur' Ui' Vr' Vi' s i j = cprod_im p Ur Ui Vr Vi s i j.
Proof.
  split; apply rsum_ext; intros t Ht; unfold Ur', Ui', Vr', Vi'; pose proof (unit_phase t Ht) as H.
  - replace (s t * (Ur i t * Vr t j - Ui i t * Vi t j)) with (s t * (Ur i t * Vr t j - Ui i t * Vi t j) * ((gr t)^2 + (gi t)^2)) by (rewrite H; ring). ring.
  - replace (s t * (Ur i t * Vi t j + Ui i t * Vr t j)) with (s t * (Ur i t * Vi t j + Ui i t * Vr t j) * ((gr t)^2 + (gi t)^2)) by (rewrite H; ring). ring.
Qed.

Theorem phase_herm_cols : herm_cols m p Ur Ui -> herm_cols m p Ur' Ui'.
Proof.
  intros O a b Ha Hb. destruct (O a b Ha Hb) as [H1 H2].
  assert (E1 : rsum m (fun i => Ur' i a * Ur' i b + Ui' i a * Ui' i b)
          = (gr a * gr b + gi a * gi b) * rsum m (fun i => Ur i a * Ur i b + Ui i a * Ui i b)
            + (gr a * gi b - gi a * gr b) * rsum m (fun i => Ur i a * Ui i b - Ui i a * Ur i b)).
  { rewrite <- !rsum_scale, <- rsum_add. apply rsum_ext; intros i _. unfold Ur', Ui'. ring. }
  assert (E2 : rsum m (fun i => Ur' i a * Ui' i b - Ui' i a * Ur' i b)
          = (gr a * gr b + gi a * gi b) * rsum m (fun i => Ur i a * Ui i b - Ui i a * Ur i b)
            - (gr a * gi b - gi a * gr b) * rsum m (fun i => Ur i a * Ur i b + Ui i a * Ui i b)).
  { rewrite <- !rsum_scale, <- rsum_sub. apply rsum_ext; intros i _. unfold Ur', Ui'. ring. }
  rewrite E1, E2, H1, H2. destruct (Nat.eqb_spec a b) as [->|N].
  - pose proof (unit_phase b Hb). split; nra.
  - split; ring.
Qed.

Theorem phase_herm_rows : herm_rows p n Vr Vi -> herm_rows p n Vr' Vi'.
Proof.
  intros O a b Ha Hb. destruct (O a b Ha Hb) as [H1 H2].
  assert (E1 : rsum n (fun j => Vr' a j * Vr' b j + Vi' a j * Vi' b j)
          = (gr a * gr b + gi a * gi b) * rsum n (fun j => Vr a j * Vr b j + Vi a j * Vi b j)
            + (gr a * gi b - gi a * gr b) * rsum n (fun j => Vi a j * Vr b j - Vr a j * Vi b j)).
  { rewrite <- !rsum_scale, <- rsum_add. apply rsum_ext; intros j _. unfold Vr', Vi'. ring. }
  assert (E2 : rsum n (fun j => Vi' a j * Vr' b j - Vr' a j * Vi' b j)
          = (gr a * gr b + gi a * gi b) * rsum n (fun j => Vi a j * Vr b j - Vr a j * Vi b j)
            - (gr a * gi b - gi a * gr b) * rsum n (fun j => Vr a j * Vr b j + Vi a j * Vi b j)).
  { rewrite <- !rsum_scale, <- rsum_sub. apply rsum_ext; intros j _. unfold Vr', Vi'. ring. }
  rewrite E1, E2, H1, H2. destruct (Nat.eqb_spec a b) as [->|N].
  - pose proof (unit_phase b Hb). split; nra.
  - split; ring.
Qed.
End Phase.

(* non-vacuity: the complex SVD contract holds (both values of full_matrices) for the 1 x 1 matrix [[2i]] = [[i]] diag(2) [[1]] *)
Lemma complex_contract_witness : forall f,
  csvd_contract 1 1 (fun _ _ => 0) (fun _ _ => 2) f ([[(0, 1)]], [(2, 0)], [[(1, 0)]]).
Proof.
  intros f. unfold csvd_contract, shape_contract, rect. cbn [Nat.min length].
  assert (I1 : (if f then 1%nat else 1%nat) = 1%nat) by (destruct f; reflexivity). rewrite !I1.
  repeat split; try (repeat constructor; fail).
  - assert (a = 0%nat) by lia. assert (b = 0%nat) by lia. subst. unfold cre, cim. cbn. ring.
  - assert (a = 0%nat) by lia. assert (b = 0%nat) by lia. subst. unfold cre, cim. cbn. ring.
  - assert (a = 0%nat) by lia. assert (b = 0%nat) by lia. subst. unfold cre, cim. cbn. ring.
  - assert (a = 0%nat) by lia. assert (b = 0%nat) by lia. subst. unfold cre, cim. cbn. ring.
  - assert (t = 0%nat) by lia. subst. reflexivity.
  - assert (t = 0%nat) by lia. subst. unfold sre. cbn. lra.
  - intros i j Hij Hj. assert (j = 0%nat) by lia. assert (i = 0%nat) by lia. subst. lra.
  - intros i j Hi Hj. assert (j = 0%nat) by lia. assert (i = 0%nat) by lia. subst. unfold cprod_re, cre, cim, sre. cbn. ring.
  - intros i j Hi Hj. assert (j = 0%nat) by lia. assert (i = 0%nat) by lia. subst. unfold cprod_im, cre, cim, sre. cbn. ring.
Qed.

(* ---------- truncated_svd on complex scalars for EVERY n_eigenvecs (None, 0, > min(shape), > max(shape)) ---------- *)
Lemma cfrob2_nonneg m n Xr Xi : 0 <= cfrob2 m n Xr Xi.
Proof. unfold cfrob2. apply rsum_nonneg; intros i _. apply rsum_nonneg; intros j _. apply Rplus_le_le_0_compat; apply pow2_ge_0. Qed.

Theorem complex_truncated_best_gen (oracle : bool -> triple CR) d1 d2 (Mr Mi : nat -> nat -> R) n :
  (forall f, csvd_contract d1 d2 Mr Mi f (oracle f)) ->
  let k := n_kept d1 d2 n in
  let f := full_flag d1 d2 n in
  let mn := Nat.min d1 d2 in
  let So := snd (fst (oracle f)) in
  let p := Nat.min k mn in
  let '(U, Sg, V) := truncated_svd oracle d1 d2 n in
  let Er := fun i j => Mr i j - cprod_re p (cre U) (cim U) (cre V) (cim V) (sre Sg) i j in
  let Ei := fun i j => Mi i j - cprod_im p (cre U) (cim U) (cre V) (cim V) (sre Sg) i j in
  Sg = firstn k So /\ length Sg = p /\
  herm_cols d1 (Nat.min k (if f then d1 else mn)) (cre U) (cim U) /\
  herm_rows (Nat.min k (if f then d2 else mn)) d2 (cre V) (cim V) /\
  cfrob2 d1 d2 Er Ei = rsum (mn - p) (fun t => (sre So (p + t)%nat)^2) /\
  (forall Br Bi, crank_le d1 d2 k Br Bi -> cfrob2 d1 d2 Er Ei <= cfrob2 d1 d2 (fun i j => Mr i j - Br i j) (fun i j => Mi i j - Bi i j)).
Proof.
  intros HC k f mn So p. rewrite truncated_unfold. fold k f.
  specialize (HC f). subst So. destruct (oracle f) as [[U0 S0] V0]. cbn [fst snd slice3].
  destruct HC as ((RU & LS & RV) & OU & OV & SR & SMn & HMr & HMi). fold mn in LS, SR, SMn, HMr, HMi, OU, OV, RU, RV.
  set (cU := if f then d1 else mn) in *. set (rV := if f then d2 else mn) in *.
  assert (HcU : (mn <= cU)%nat) by (unfold cU, mn; destruct f; lia).
  assert (HrV : (mn <= rV)%nat) by (unfold rV, mn; destruct f; lia).
  set (U := map (firstn k) U0). set (V := firstn k V0). set (Sg := firstn k S0).
  assert (Hp : (p <= mn)%nat) by (unfold p; lia). assert (Hpk : (p <= k)%nat) by (unfold p; lia).
  assert (EP : forall i j,
            cprod_re p (cre U) (cim U) (cre V) (cim V) (sre Sg) i j = cprod_re p (cre U0) (cim U0) (cre V0) (cim V0) (sre S0) i j /\
            cprod_im p (cre U) (cim U) (cre V) (cim V) (sre Sg) i j = cprod_im p (cre U0) (cim U0) (cre V0) (cim V0) (sre S0) i j).
  { intros i j. apply cprod_ext. intros t Ht. unfold U, V, Sg.
    rewrite cre_map_firstn, cim_map_firstn, cre_firstn, cim_firstn, sre_firstn by lia. repeat split; reflexivity. }
  assert (OUm : herm_cols d1 mn (cre U0) (cim U0)) by (now apply (herm_cols_sub d1 cU mn)).
  assert (OVm : herm_rows mn d2 (cre V0) (cim V0)) by (now apply (herm_rows_sub rV mn d2)).
  assert (EF : cfrob2 d1 d2 (fun i j => Mr i j - cprod_re p (cre U) (cim U) (cre V) (cim V) (sre Sg) i j)
                            (fun i j => Mi i j - cprod_im p (cre U) (cim U) (cre V) (cim V) (sre Sg) i j)
               = rsum (mn - p) (fun t => (sre S0 (p + t)%nat)^2)).
  { rewrite <- (complex_trunc_error d1 d2 mn Mr Mi (cre U0) (cim U0) (cre V0) (cim V0) (sre S0) OUm OVm HMr HMi p Hp).
    unfold cfrob2. apply rsum_ext; intros i _. apply rsum_ext; intros j _. destruct (EP i j) as [-> ->]. reflexivity. }
  split; [reflexivity | split; [unfold Sg; rewrite firstn_length, LS; reflexivity|]].
  split; [|split; [|split; [exact EF|]]].
  - apply (herm_cols_ext d1 (Nat.min k cU) (cre U0) (cim U0)).
    + intros i t _ Ht. unfold U. rewrite cre_map_firstn, cim_map_firstn by lia. now split.
    + apply (herm_cols_sub d1 cU); [lia | exact OU].
  - apply (herm_rows_ext (Nat.min k rV) d2 (cre V0) (cim V0)).
    + intros t j Ht _. unfold V. rewrite cre_firstn, cim_firstn by lia. now split.
    + apply (herm_rows_sub rV); [lia | exact OV].
  - intros Br Bi (Xr & Xi & Yr & Yi & HBr & HBi). rewrite EF.
    destruct (le_lt_dec mn k) as [Hge|Hlt].
    + replace (mn - p)%nat with 0%nat by (unfold p; lia). cbn [rsum]. apply cfrob2_nonneg.
    + assert (p = k) by (unfold p; lia). rewrite H.
      apply (complex_eckart_young d1 d2 mn Mr Mi (cre U0) (cim U0) (cre V0) (cim V0) (sre S0) OUm OVm HMr HMi
               (fun t Ht => proj2 (SR t Ht)) SMn k Br Bi Xr Xi Yr Yi HBr HBi).
Qed.
