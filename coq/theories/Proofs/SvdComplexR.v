(* C05 for COMPLEX scalars, C = R x R: a complex matrix is a pair of real matrices (real part, imaginary part), functions
   nat -> nat -> R.  The statements "error of the truncation = the discarded squared singular values", "best approximation of
   that rank" (Eckart-Young-Mirsky) and "the singular values are determined by the matrix" are transported from the real theorems
   through the real embedding  emb(A + iB) = [[A, -B], [B, A]]  (interleaved: row 2i + a, column 2j + b), which is multiplicative,
   turns a Hermitian-orthonormal family u_t into the real orthonormal family (Re u_t ; Im u_t), (-Im u_t ; Re u_t), doubles every
   singular value and doubles the squared Frobenius norm.  No premise beyond the real theorems (which are proved from scratch). *)
From Coq Require Import List Arith Lia Bool Reals Lra Psatz.
From TLV Require Import Base.Ops Base.RSum Proofs.SvdProofsAux Proofs.SvdEckartYoung Proofs.SvdUnique.
Import ListNotations.
Local Open Scope R_scope.

(* ---------- index bookkeeping ---------- *)
Lemma rsum_double n f : rsum (2 * n) f = rsum n (fun t => f (2 * t)%nat + f (S (2 * t))).
Proof.
  induction n as [|n IH]; [reflexivity|].
  replace (2 * S n)%nat with (S (S (2 * n))) by lia. cbn [rsum]. rewrite IH. ring.
Qed.
Lemma odd_e i : Nat.odd (2 * i) = false.
Proof. rewrite Nat.odd_mul. reflexivity. Qed.
Lemma odd_o i : Nat.odd (S (2 * i)) = true.
Proof. rewrite Nat.odd_succ, Nat.even_mul. reflexivity. Qed.
Lemma d2_e i : Nat.div2 (2 * i) = i.
Proof. apply Nat.div2_double. Qed.
Lemma d2_o i : Nat.div2 (S (2 * i)) = i.
Proof. apply Nat.div2_succ_double. Qed.
Lemma parity_cases I : exists i, I = (2 * i)%nat \/ I = S (2 * i).
Proof.
  exists (Nat.div2 I). destruct (Nat.odd I) eqn:E.
  - right. rewrite (Nat.div2_odd I) at 1. rewrite E. cbn [Nat.b2n]. lia.
  - left. rewrite (Nat.div2_odd I) at 1. rewrite E. cbn [Nat.b2n]. lia.
Qed.
Lemma eqb_ee a b : Nat.eqb (2 * a) (2 * b) = Nat.eqb a b.
Proof. destruct (Nat.eqb_spec a b) as [->|N]; [apply Nat.eqb_refl|]. apply Nat.eqb_neq. lia. Qed.
Lemma eqb_oo a b : Nat.eqb (S (2 * a)) (S (2 * b)) = Nat.eqb a b.
Proof. destruct (Nat.eqb_spec a b) as [->|N]; [apply Nat.eqb_refl|]. apply Nat.eqb_neq. lia. Qed.
Lemma eqb_eo a b : Nat.eqb (2 * a) (S (2 * b)) = false.
Proof. apply Nat.eqb_neq. lia. Qed.
Lemma eqb_oe a b : Nat.eqb (S (2 * a)) (2 * b) = false.
Proof. apply Nat.eqb_neq. lia. Qed.
Lemma div2_mono a b : (a <= b)%nat -> (Nat.div2 a <= Nat.div2 b)%nat.
Proof. intros H. rewrite !Nat.div2_div. apply Nat.div_le_mono; lia. Qed.
Lemma div2_lt a p : (a < 2 * p)%nat -> (Nat.div2 a < p)%nat.
Proof. intros H. rewrite Nat.div2_div. apply Nat.div_lt_upper_bound; lia. Qed.

(* ---------- the real embedding of a complex matrix ---------- *)
Definition emb (Xr Xi : nat -> nat -> R) (I J : nat) : R :=
  let i := Nat.div2 I in let j := Nat.div2 J in
  if Nat.odd I then (if Nat.odd J then Xr i j else Xi i j)
  else (if Nat.odd J then - Xi i j else Xr i j).
Lemma emb_ee Xr Xi i j : emb Xr Xi (2 * i) (2 * j) = Xr i j.
Proof. unfold emb. now rewrite !odd_e, !d2_e. Qed.
Lemma emb_eo Xr Xi i j : emb Xr Xi (2 * i) (S (2 * j)) = - Xi i j.
Proof. unfold emb. now rewrite odd_e, odd_o, d2_e, d2_o. Qed.
Lemma emb_oe Xr Xi i j : emb Xr Xi (S (2 * i)) (2 * j) = Xi i j.
Proof. unfold emb. now rewrite odd_e, odd_o, d2_e, d2_o. Qed.
Lemma emb_oo Xr Xi i j : emb Xr Xi (S (2 * i)) (S (2 * j)) = Xr i j.
Proof. unfold emb. now rewrite !odd_o, !d2_o. Qed.
Ltac emb_simpl := rewrite ?emb_ee, ?emb_eo, ?emb_oe, ?emb_oo, ?d2_e, ?d2_o.

(* complex product with real weights: M = sum_t U[., t] s_t V[t, .] in real and imaginary parts *)
Definition cprod_re (p : nat) (Ur Ui Vr Vi : nat -> nat -> R) (s : nat -> R) (i j : nat) : R :=
  rsum p (fun t => s t * (Ur i t * Vr t j - Ui i t * Vi t j)).
Definition cprod_im (p : nat) (Ur Ui Vr Vi : nat -> nat -> R) (s : nat -> R) (i j : nat) : R :=
  rsum p (fun t => s t * (Ur i t * Vi t j + Ui i t * Vr t j)).

(* the embedding is multiplicative *)
Lemma emb_prod m n p (Mr Mi Ur Ui Vr Vi : nat -> nat -> R) (s : nat -> R) :
  (forall i j, (i < m)%nat -> (j < n)%nat -> Mr i j = cprod_re p Ur Ui Vr Vi s i j) ->
  (forall i j, (i < m)%nat -> (j < n)%nat -> Mi i j = cprod_im p Ur Ui Vr Vi s i j) ->
  forall I J, (I < 2 * m)%nat -> (J < 2 * n)%nat ->
  emb Mr Mi I J = rsum (2 * p) (fun T => emb Ur Ui I T * s (Nat.div2 T) * emb Vr Vi T J).
Proof.
  intros HR HI I J HI_ HJ_.
  destruct (parity_cases I) as [i [-> | ->]]; destruct (parity_cases J) as [j [-> | ->]];
    rewrite rsum_double; emb_simpl.
  - rewrite HR by lia. apply rsum_ext; intros t _. emb_simpl. ring.
  - rewrite HI by lia. unfold cprod_im. rewrite <- (Rmult_1_l (rsum p _)), Ropp_mult_distr_l, <- rsum_scale.
    apply rsum_ext; intros t _. emb_simpl. ring.
  - rewrite HI by lia. apply rsum_ext; intros t _. emb_simpl. ring.
  - rewrite HR by lia. apply rsum_ext; intros t _. emb_simpl. ring.
Qed.

(* Hermitian orthonormality: sum_i conj(U[i,a]) U[i,b] = [a = b]  /  sum_j V[a,j] conj(V[b,j]) = [a = b] *)
Definition herm_cols (m c : nat) (Ur Ui : nat -> nat -> R) : Prop :=
  forall a b, (a < c)%nat -> (b < c)%nat ->
    rsum m (fun i => Ur i a * Ur i b + Ui i a * Ui i b) = (if Nat.eqb a b then 1 else 0) /\
    rsum m (fun i => Ur i a * Ui i b - Ui i a * Ur i b) = 0.
Definition herm_rows (r n : nat) (Vr Vi : nat -> nat -> R) : Prop :=
  forall a b, (a < r)%nat -> (b < r)%nat ->
    rsum n (fun j => Vr a j * Vr b j + Vi a j * Vi b j) = (if Nat.eqb a b then 1 else 0) /\
    rsum n (fun j => Vi a j * Vr b j - Vr a j * Vi b j) = 0.

Lemma emb_orthonormal_cols m c Ur Ui : herm_cols m c Ur Ui -> orthonormal_cols (2 * m) (2 * c) (emb Ur Ui).
Proof.
  intros H A B HA HB.
  destruct (parity_cases A) as [a [-> | ->]]; destruct (parity_cases B) as [b [-> | ->]];
    rewrite rsum_double; destruct (H a b ltac:(lia) ltac:(lia)) as [H1 H2].
  - rewrite eqb_ee, <- H1. apply rsum_ext; intros i _. emb_simpl. ring.
  - rewrite eqb_eo. replace 0 with (-1 * 0) by ring. rewrite <- H2, <- rsum_scale. apply rsum_ext; intros i _. emb_simpl. ring.
  - rewrite eqb_oe, <- H2. apply rsum_ext; intros i _. emb_simpl. ring.
  - rewrite eqb_oo, <- H1. apply rsum_ext; intros i _. emb_simpl. ring.
Qed.
Lemma emb_orthonormal_rows r n Vr Vi : herm_rows r n Vr Vi -> orthonormal_rows (2 * r) (2 * n) (emb Vr Vi).
Proof.
  intros H A B HA HB.
  destruct (parity_cases A) as [a [-> | ->]]; destruct (parity_cases B) as [b [-> | ->]];
    rewrite rsum_double; destruct (H a b ltac:(lia) ltac:(lia)) as [H1 H2].
  - rewrite eqb_ee, <- H1. apply rsum_ext; intros j _. emb_simpl. ring.
  - rewrite eqb_eo. replace 0 with (-1 * 0) by ring. rewrite <- H2, <- rsum_scale. apply rsum_ext; intros j _. emb_simpl. ring.
  - rewrite eqb_oe, <- H2. apply rsum_ext; intros j _. emb_simpl. ring.
  - rewrite eqb_oo, <- H1. apply rsum_ext; intros j _. emb_simpl. ring.
Qed.

(* squared Frobenius norm of a complex matrix, and of its embedding *)
Definition cfrob2 (m n : nat) (Xr Xi : nat -> nat -> R) : R := rsum m (fun i => rsum n (fun j => (Xr i j)^2 + (Xi i j)^2)).
Lemma emb_frob m n (f : nat -> nat -> R) (Xr Xi : nat -> nat -> R) :
  (forall I J, (I < 2 * m)%nat -> (J < 2 * n)%nat -> f I J = emb Xr Xi I J) ->
  rsum (2 * m) (fun I => rsum (2 * n) (fun J => (f I J)^2)) = 2 * cfrob2 m n Xr Xi.
Proof.
  intros H. unfold cfrob2. rewrite rsum_double, <- rsum_scale. apply rsum_ext; intros i Hi.
  rewrite !rsum_double, <- rsum_scale, <- rsum_add. apply rsum_ext; intros j Hj.
  rewrite !H by lia. emb_simpl. ring.
Qed.
Lemma tail_double p k (s : nat -> R) : (k <= p)%nat ->
  rsum (2 * p - 2 * k) (fun T => (s (Nat.div2 (2 * k + T)))^2) = 2 * rsum (p - k) (fun t => (s (k + t)%nat)^2).
Proof.
  intros Hk. replace (2 * p - 2 * k)%nat with (2 * (p - k))%nat by lia. rewrite rsum_double, <- rsum_scale.
  apply rsum_ext; intros t _.
  replace (2 * k + 2 * t)%nat with (2 * (k + t))%nat by lia.
  replace (2 * k + S (2 * t))%nat with (S (2 * (k + t))) by lia. rewrite d2_e, d2_o. ring.
Qed.

Section ComplexSVD.
Variables (m n p : nat) (Mr Mi Ur Ui Vr Vi : nat -> nat -> R) (s : nat -> R).
Hypothesis OU : herm_cols m p Ur Ui.
Hypothesis OV : herm_rows p n Vr Vi.
Hypothesis HMr : forall i j, (i < m)%nat -> (j < n)%nat -> Mr i j = cprod_re p Ur Ui Vr Vi s i j.
Hypothesis HMi : forall i j, (i < m)%nat -> (j < n)%nat -> Mi i j = cprod_im p Ur Ui Vr Vi s i j.

(* error identity: || M - sum_{t<k} u_t s_t v_t^H ||_F^2 = sum_{t>=k} s_t^2 *)
Theorem complex_trunc_error k : (k <= p)%nat ->
  cfrob2 m n (fun i j => Mr i j - cprod_re k Ur Ui Vr Vi s i j) (fun i j => Mi i j - cprod_im k Ur Ui Vr Vi s i j)
  = rsum (p - k) (fun t => (s (k + t)%nat)^2).
Proof.
  intros Hk.
  pose proof (trunc_error (2 * m) (2 * n) (2 * p) (2 * k) (emb Mr Mi) (emb Ur Ui) (emb Vr Vi) (fun T => s (Nat.div2 T))
                ltac:(lia) (emb_orthonormal_cols m p Ur Ui OU) (emb_orthonormal_rows p n Vr Vi OV)
                (emb_prod m n p Mr Mi Ur Ui Vr Vi s HMr HMi)) as E.
  cbv beta in E. rewrite tail_double in E by exact Hk.
  rewrite (emb_frob m n _ (fun i j => Mr i j - cprod_re k Ur Ui Vr Vi s i j) (fun i j => Mi i j - cprod_im k Ur Ui Vr Vi s i j)) in E.
  - lra.
  - intros I J HI HJ.
    rewrite <- (emb_prod m n k (cprod_re k Ur Ui Vr Vi s) (cprod_im k Ur Ui Vr Vi s) Ur Ui Vr Vi s
                  ltac:(intros; reflexivity) ltac:(intros; reflexivity) I J HI HJ).
    destruct (parity_cases I) as [i [-> | ->]]; destruct (parity_cases J) as [j [-> | ->]]; emb_simpl; ring.
Qed.

Hypothesis S0 : forall t, (t < p)%nat -> 0 <= s t.
Hypothesis SM : forall i j, (i <= j)%nat -> (j < p)%nat -> s j <= s i.

Lemma s_double_nonneg : forall T, (T < 2 * p)%nat -> 0 <= s (Nat.div2 T).
Proof. intros T HT. apply S0. now apply div2_lt. Qed.
Lemma s_double_mono : forall I J, (I <= J)%nat -> (J < 2 * p)%nat -> s (Nat.div2 J) <= s (Nat.div2 I).
Proof. intros I J HIJ HJ. apply SM; [now apply div2_mono | now apply div2_lt]. Qed.

(* Eckart-Young-Mirsky for complex matrices: B = X Y (complex, inner dimension k) is no closer to M than the truncation *)
Theorem complex_eckart_young k (Br Bi Xr Xi Yr Yi : nat -> nat -> R) :
  (forall i j, (i < m)%nat -> (j < n)%nat -> Br i j = cprod_re k Xr Xi Yr Yi (fun _ => 1) i j) ->
  (forall i j, (i < m)%nat -> (j < n)%nat -> Bi i j = cprod_im k Xr Xi Yr Yi (fun _ => 1) i j) ->
  rsum (p - k) (fun t => (s (k + t)%nat)^2) <= cfrob2 m n (fun i j => Mr i j - Br i j) (fun i j => Mi i j - Bi i j).
Proof.
  intros HBr HBi.
  destruct (le_lt_dec k p) as [Hk|Hk].
  2:{ replace (p - k)%nat with 0%nat by lia. cbn [rsum]. unfold cfrob2.
      apply rsum_nonneg; intros i _. apply rsum_nonneg; intros j _. apply Rplus_le_le_0_compat; apply pow2_ge_0. }
  pose proof (eckart_young_fn (2 * m) (2 * n) (2 * p) (2 * k) (emb Mr Mi) (emb Ur Ui) (emb Vr Vi) (emb Br Bi) (fun T => s (Nat.div2 T))
                (emb_orthonormal_cols m p Ur Ui OU) (emb_orthonormal_rows p n Vr Vi OV) s_double_nonneg s_double_mono
                (emb_prod m n p Mr Mi Ur Ui Vr Vi s HMr HMi)) as E.
  cbv beta in E. rewrite tail_double in E by exact Hk.
  rewrite (emb_frob m n _ (fun i j => Mr i j - Br i j) (fun i j => Mi i j - Bi i j)) in E.
  - assert (X : 2 * rsum (p - k) (fun t => s (k + t)%nat ^ 2) <= 2 * cfrob2 m n (fun i j => Mr i j - Br i j) (fun i j => Mi i j - Bi i j)).
    { apply E. exists (emb Xr Xi), (emb Yr Yi). intros I J HI HJ.
      rewrite (emb_prod m n k Br Bi Xr Xi Yr Yi (fun _ => 1) HBr HBi I J HI HJ). apply rsum_ext; intros; ring. }
    lra.
  - intros I J HI HJ.
    destruct (parity_cases I) as [i [-> | ->]]; destruct (parity_cases J) as [j [-> | ->]]; emb_simpl; ring.
Qed.

(* the singular values of a complex matrix are determined by the matrix *)
Theorem complex_singular_values_unique (Ur' Ui' Vr' Vi' : nat -> nat -> R) (s' : nat -> R) :
  herm_cols m p Ur' Ui' -> herm_rows p n Vr' Vi' ->
  (forall t, (t < p)%nat -> 0 <= s' t) -> (forall i j, (i <= j)%nat -> (j < p)%nat -> s' j <= s' i) ->
  (forall i j, (i < m)%nat -> (j < n)%nat -> Mr i j = cprod_re p Ur' Ui' Vr' Vi' s' i j) ->
  (forall i j, (i < m)%nat -> (j < n)%nat -> Mi i j = cprod_im p Ur' Ui' Vr' Vi' s' i j) ->
  forall t, (t < p)%nat -> s t = s' t.
Proof.
  intros OU' OV' S0' SM' HMr' HMi' t Ht.
  pose proof (singular_values_unique_fn (2 * m) (2 * n) (2 * p) (emb Mr Mi) (emb Ur Ui) (emb Vr Vi) (emb Ur' Ui') (emb Vr' Vi')
                (fun T => s (Nat.div2 T)) (fun T => s' (Nat.div2 T))
                (emb_orthonormal_cols m p Ur Ui OU) (emb_orthonormal_rows p n Vr Vi OV) s_double_nonneg s_double_mono
                (emb_prod m n p Mr Mi Ur Ui Vr Vi s HMr HMi)
                (emb_orthonormal_cols m p Ur' Ui' OU') (emb_orthonormal_rows p n Vr' Vi' OV')) as E.
  specialize (E ltac:(intros T HT; apply S0'; now apply div2_lt)
                ltac:(intros I J HIJ HJ; apply SM'; [now apply div2_mono | now apply div2_lt])
                (emb_prod m n p Mr Mi Ur' Ui' Vr' Vi' s' HMr' HMi') (2 * t)%nat ltac:(lia)).
  cbv beta in E. now rewrite d2_e in E.
Qed.
End ComplexSVD.
