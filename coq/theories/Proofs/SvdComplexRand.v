(* C05 for COMPLEX scalars: the lifting step of randomized_svd over C = R x R, function level.  If Q has Hermitian-orthonormal columns,
   M = Q B (B = Q^H M when Q covers the range of M: the probabilistic hypothesis, as over R) and the small matrix B has the complex SVD
   U diag(s) V, then (Q U, s, V) is a complex SVD of M: Hermitian-orthonormal Q U, M = (Q U) diag(s) V; hence (Proofs/SvdComplexR.v) the
   error identity, Eckart-Young and "s = the singular values of EVERY complex SVD of M".  Transported from the real lifting lemma
   (Proofs/SvdRandProofs.v randomized_lift_partial) through the real embedding. *)
From Coq Require Import List Arith Lia Bool Reals Lra Psatz.
From TLV Require Import Base.Ops Base.RSum Proofs.SvdProofsAux Proofs.SvdRandProofs Proofs.SvdComplexR.
Import ListNotations.
Local Open Scope R_scope.

Lemma emb_herm_cols_conv m c Ur Ui : orthonormal_cols (2 * m) (2 * c) (emb Ur Ui) -> herm_cols m c Ur Ui.
Proof.
  intros O a b Ha Hb. split.
  - pose proof (O (2 * a)%nat (2 * b)%nat ltac:(lia) ltac:(lia)) as H. rewrite rsum_double, eqb_ee in H. rewrite <- H.
    apply rsum_ext; intros i _. emb_simpl. ring.
  - pose proof (O (S (2 * a)) (2 * b)%nat ltac:(lia) ltac:(lia)) as H. rewrite rsum_double, eqb_oe in H. rewrite <- H.
    apply rsum_ext; intros i _. emb_simpl. ring.
Qed.
Lemma emb_inj m n Ar Ai Br Bi :
  (forall I J, (I < 2 * m)%nat -> (J < 2 * n)%nat -> emb Ar Ai I J = emb Br Bi I J) ->
  forall i j, (i < m)%nat -> (j < n)%nat -> Ar i j = Br i j /\ Ai i j = Bi i j.
Proof.
  intros H i j Hi Hj. split.
  - pose proof (H (2 * i)%nat (2 * j)%nat ltac:(lia) ltac:(lia)) as E. now rewrite !emb_ee in E.
  - pose proof (H (S (2 * i)) (2 * j)%nat ltac:(lia) ltac:(lia)) as E. now rewrite !emb_oe in E.
Qed.

Section Lift.
Variables (m n c p : nat) (Mr Mi Qr Qi Br Bi Ur Ui Vr Vi : nat -> nat -> R) (s : nat -> R).
Hypothesis OQ : herm_cols m c Qr Qi.
Hypothesis HMr : forall i j, (i < m)%nat -> (j < n)%nat -> Mr i j = cprod_re c Qr Qi Br Bi (fun _ => 1) i j.
Hypothesis HMi : forall i j, (i < m)%nat -> (j < n)%nat -> Mi i j = cprod_im c Qr Qi Br Bi (fun _ => 1) i j.
Hypothesis OU : herm_cols c p Ur Ui.
Hypothesis OV : herm_rows p n Vr Vi.
Hypothesis HBr : forall a j, (a < c)%nat -> (j < n)%nat -> Br a j = cprod_re p Ur Ui Vr Vi s a j.
Hypothesis HBi : forall a j, (a < c)%nat -> (j < n)%nat -> Bi a j = cprod_im p Ur Ui Vr Vi s a j.

Definition QUr (i t : nat) : R := cprod_re c Qr Qi Ur Ui (fun _ => 1) i t.
Definition QUi (i t : nat) : R := cprod_im c Qr Qi Ur Ui (fun _ => 1) i t.

Theorem complex_randomized_lift :
  herm_cols m p QUr QUi /\
  (forall i j, (i < m)%nat -> (j < n)%nat ->
     Mr i j = cprod_re p QUr QUi Vr Vi s i j /\ Mi i j = cprod_im p QUr QUi Vr Vi s i j).
Proof.
  destruct (randomized_lift_partial (2 * m) (2 * n) (2 * c) (2 * p) 0 (emb Mr Mi) (emb Qr Qi) (emb Br Bi) (emb Ur Ui) (emb Vr Vi)
              (fun T => s (Nat.div2 T))) as (O1 & R1 & _).
  - now apply emb_orthonormal_cols.
  - intros I J HI HJ. rewrite (emb_prod m n c Mr Mi Qr Qi Br Bi (fun _ => 1) HMr HMi I J HI HJ). apply rsum_ext; intros; ring.
  - now apply emb_orthonormal_cols.
  - now apply emb_orthonormal_rows.
  - intros A J HA HJ. apply (emb_prod c n p Br Bi Ur Ui Vr Vi s HBr HBi A J HA HJ).
  - lia.
  - assert (EQ : forall I T, (I < 2 * m)%nat -> (T < 2 * p)%nat -> fmul_mat (2 * c) (emb Qr Qi) (emb Ur Ui) I T = emb QUr QUi I T).
    { intros I T HI HT. unfold fmul_mat.
      rewrite (emb_prod m p c QUr QUi Qr Qi Ur Ui (fun _ => 1) ltac:(intros; reflexivity) ltac:(intros; reflexivity) I T HI HT).
      apply rsum_ext; intros; ring. }
    split.
    + apply emb_herm_cols_conv. eapply orthonormal_cols_ext; [|exact O1]. intros I T HI HT. symmetry. now apply EQ.
    + apply (emb_inj m n). intros I J HI HJ. rewrite (R1 I J HI HJ).
      rewrite (emb_prod m n p (cprod_re p QUr QUi Vr Vi s) (cprod_im p QUr QUi Vr Vi s) QUr QUi Vr Vi s
                 ltac:(intros; reflexivity) ltac:(intros; reflexivity) I J HI HJ).
      apply rsum_ext; intros T HT. now rewrite EQ.
Qed.

(* consequences for sorted non-negative s: error of every truncation, best approximation, true singular values *)
Hypothesis S0 : forall t, (t < p)%nat -> 0 <= s t.
Hypothesis SM : forall i j, (i <= j)%nat -> (j < p)%nat -> s j <= s i.
Theorem complex_randomized_lift_best k : (k <= p)%nat ->
  cfrob2 m n (fun i j => Mr i j - cprod_re k QUr QUi Vr Vi s i j) (fun i j => Mi i j - cprod_im k QUr QUi Vr Vi s i j)
  = rsum (p - k) (fun t => (s (k + t)%nat)^2) /\
  (forall Xr Xi Yr Yi Cr Ci : nat -> nat -> R,
     (forall i j, (i < m)%nat -> (j < n)%nat -> Cr i j = cprod_re k Xr Xi Yr Yi (fun _ => 1) i j) ->
     (forall i j, (i < m)%nat -> (j < n)%nat -> Ci i j = cprod_im k Xr Xi Yr Yi (fun _ => 1) i j) ->
     rsum (p - k) (fun t => (s (k + t)%nat)^2) <= cfrob2 m n (fun i j => Mr i j - Cr i j) (fun i j => Mi i j - Ci i j)) /\
  (forall (Ur' Ui' Vr' Vi' : nat -> nat -> R) (s' : nat -> R),
     herm_cols m p Ur' Ui' -> herm_rows p n Vr' Vi' ->
     (forall t, (t < p)%nat -> 0 <= s' t) -> (forall i j, (i <= j)%nat -> (j < p)%nat -> s' j <= s' i) ->
     (forall i j, (i < m)%nat -> (j < n)%nat -> Mr i j = cprod_re p Ur' Ui' Vr' Vi' s' i j) ->
     (forall i j, (i < m)%nat -> (j < n)%nat -> Mi i j = cprod_im p Ur' Ui' Vr' Vi' s' i j) ->
     forall t, (t < p)%nat -> s t = s' t).
Proof.
  intros Hk. destruct complex_randomized_lift as [O R_].
  assert (R1 : forall i j, (i < m)%nat -> (j < n)%nat -> Mr i j = cprod_re p QUr QUi Vr Vi s i j) by (intros i j Hi Hj; now destruct (R_ i j Hi Hj)).
  assert (R2 : forall i j, (i < m)%nat -> (j < n)%nat -> Mi i j = cprod_im p QUr QUi Vr Vi s i j) by (intros i j Hi Hj; now destruct (R_ i j Hi Hj)).
  split; [|split].
  - exact (complex_trunc_error m n p Mr Mi QUr QUi Vr Vi s O OV R1 R2 k Hk).
  - intros Xr Xi Yr Yi Cr Ci H1 H2.
    exact (complex_eckart_young m n p Mr Mi QUr QUi Vr Vi s O OV R1 R2 S0 SM k Cr Ci Xr Xi Yr Yi H1 H2).
  - intros Ur' Ui' Vr' Vi' s' O' OV' S0' SM' R1' R2'.
    exact (complex_singular_values_unique m n p Mr Mi QUr QUi Vr Vi s O OV R1 R2 S0 SM Ur' Ui' Vr' Vi' s' O' OV' S0' SM' R1' R2').
Qed.
End Lift.
