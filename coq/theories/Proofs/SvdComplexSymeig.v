(* C05, round 8: output shapes of the conjugate-aware symeig_svd (Model/SvdConj.v symeig_svd_conj, the code as of commit d995974) for
   EVERY scalar type, conjugation, square-root function and eigh answer of the right shape - in particular for complex input:
   U : d1 x min(d1, k), S : min(d1, d2, k), V : min(d2, k) x d2 for every shape and every n_eigenvecs (k = the clamped request). *)
From Coq Require Import List Arith Lia Bool.
From TLV Require Import Base.Ops Base.Tensor Model.Svd Model.SvdConj Proofs.SvdProofsAux Proofs.SvdProofs Proofs.SvdSymeigShapes.
Import ListNotations.
Local Open Scope nat_scope.

Section G.
Context {F : Type} (Op : fops F) (cj : F -> F).

Lemma rect_transp_g c (V : list (list F)) : rect c (length V) (transp Op c V).
Proof.
  unfold transp, cols_of. split; [now rewrite map_length, seq_length|]. apply Forall_map, Forall_forall.
  intros j _. unfold col. apply map_length.
Qed.
Lemma rect_div_cols_g r c (X : list (list F)) (s : list F) : rect r c X -> length s = c -> rect r c (div_cols Op X s).
Proof.
  intros [L Fa] Hs. unfold div_cols. split; [now rewrite map_length|]. apply Forall_map. eapply Forall_impl; [|exact Fa].
  intros a Ha. cbv beta in Ha. rewrite map_length, combine_length. lia.
Qed.
Lemma rect_cjmat r c (X : list (list F)) : rect r c X -> rect r c (cjmat cj X).
Proof.
  intros [L Fa]. unfold cjmat. split; [now rewrite map_length|]. apply Forall_map. eapply Forall_impl; [|exact Fa].
  intros a Ha. cbv beta in Ha. now rewrite map_length.
Qed.
Lemma rect_mmul_len n (X Y : list (list F)) : rect (length X) n (mmul Op n X Y).
Proof.
  unfold mmul. split; [apply map_length|]. apply Forall_map, Forall_forall. intros r _.
  unfold cols_of. now rewrite !map_length, seq_length.
Qed.

Theorem symeig_conj_shapes (eigh : list (list F) -> list F * list (list F)) (sq : F -> F) eps (M : list (list F)) d1 d2 n :
  rect d1 d2 M ->
  (forall G, let d := if d2 <? d1 then d1 else d2 in length (fst (eigh G)) = d /\ rect d d (snd (eigh G))) ->
  let k := n_kept d1 d2 n in
  shape3 (symeig_svd_conj Op cj eigh sq eps M d1 d2 n) d1 (Nat.min d1 k) (Nat.min (Nat.min d1 d2) k) (Nat.min d2 k) d2.
Proof.
  intros HM HE k. unfold symeig_svd_conj. unfold n_kept in k. destruct (svd_checks d1 d2 n) as [[k' mn] mx] eqn:SC. cbn [fst] in k.
  subst k. destruct (Nat.ltb_spec d2 d1) as [Ht|Hw].
  - (* tall *)
    specialize (HE (mmul Op d1 M (cjmat cj (transp Op d2 M)))). cbv zeta in HE.
    destruct (eigh (mmul Op d1 M (cjmat cj (transp Op d2 M)))) as [lam W]. cbn [fst snd] in HE. destruct HE as [Ll RW].
    unfold shape3. split; [|split].
    + pose proof (rect_map_firstn d1 d1 (Nat.min d1 k') _ (rect_map_rev d1 d1 W RW)) as H.
      replace (Nat.min (Nat.min d1 k') d1) with (Nat.min d1 k') in H by lia. exact H.
    + rewrite firstn_length, rev_length, map_length, Ll. lia.
    + set (V0 := mmul Op d1 (cjmat cj (transp Op d2 M)) (div_cols Op W (map (fun x => sq (clip_lo Op eps x)) lam))).
      assert (LV0 : length V0 = d2) by (unfold V0, mmul, cjmat, transp, cols_of; now rewrite !map_length, seq_length).
      assert (RT : rect d1 d2 (cjmat cj (transp Op d1 V0))) by (apply rect_cjmat; rewrite <- LV0; apply rect_transp_g).
      pose proof (rect_firstn d1 d2 (Nat.min d2 k') _ (rect_rev d1 d2 _ RT)) as H.
      replace (Nat.min (Nat.min d2 k') d1) with (Nat.min d2 k') in H by lia. exact H.
  - (* wide / square *)
    specialize (HE (mmul Op d2 (cjmat cj (transp Op d2 M)) M)). cbv zeta in HE.
    destruct (eigh (mmul Op d2 (cjmat cj (transp Op d2 M)) M)) as [lam W]. cbn [fst snd] in HE. destruct HE as [Ll RW].
    unfold shape3. split; [|split].
    + assert (R0 : rect d1 d2 (div_cols Op (mmul Op d2 M W) (map (fun x => sq (clip_lo Op eps x)) lam))).
      { apply rect_div_cols_g; [|now rewrite map_length]. destruct HM as [LM _]. rewrite <- LM. apply rect_mmul_len. }
      pose proof (rect_map_firstn d1 d2 (Nat.min d1 k') _ (rect_map_rev d1 d2 _ R0)) as H.
      replace (Nat.min (Nat.min d1 k') d2) with (Nat.min d1 k') in H by lia. exact H.
    + rewrite firstn_length, rev_length, map_length, Ll. lia.
    + destruct RW as [LW FW].
      assert (RT : rect d2 d2 (cjmat cj (transp Op d2 W))) by (apply rect_cjmat; rewrite <- LW at 2; apply rect_transp_g).
      pose proof (rect_firstn d2 d2 (Nat.min d2 k') _ (rect_rev d2 d2 _ RT)) as H.
      replace (Nat.min (Nat.min d2 k') d2) with (Nat.min d2 k') in H by lia. exact H.
Qed.
End G.

(* non-vacuity at the Gaussian-integer-like scalars Z x Z: a 2 x 1 request whose eigh answer has the required shape *)
Lemma symeig_conj_shapes_witness :
  let eigh := fun _ : list (list (nat * nat)) => ([(0, 0); (0, 0)], [[(1, 0); (0, 0)]; [(0, 0); (1, 0)]]) in
  rect 2 1 [[(1, 0)]; [(0, 1)]] /\
  (forall G, let d := if 1 <? 2 then 2 else 1 in length (fst (eigh G)) = d /\ rect d d (snd (eigh G))).
Proof. split; [split; [reflexivity | repeat constructor]|]. intros G. cbn. split; [reflexivity|]. split; [reflexivity | repeat constructor]. Qed.
