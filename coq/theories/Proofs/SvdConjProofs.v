(* C05, svd_flip with conjugation (commit ca31a67):
   (1) for real scalars (cj = identity, phase = np.sign, |a| < |b| through fabs) the complex-aware model IS the real model
       Model/Svd.v svd_flip, for every ordered-field record Op - so all real theorems of Props/C05.v are about the new code;
   (2) over ANY commutative ring with a conjugation (complex numbers, Gaussian rationals, ...): multiplying the deciding factor
       by conj(g_t) and the other by g_t leaves every term U[i,t] s_t V[t,j] - hence the product - unchanged whenever
       conj(g_t) g_t = 1, and the deciding entry becomes its magnitude (x conj(phase x) = |x|, the defining property of
       np.sign on complex numbers).  Function level (matrices as nat -> nat -> K, sums = Base/BigSum.v bigsum). *)
From Coq Require Import List Arith Lia Bool Ring.
From TLV Require Import Base.Ops Base.Tensor Base.BigSum Model.Svd Model.SvdConj.
Import ListNotations.

Theorem flip_conj_real {F} (Op : fops F) (U V : list (list F)) (ub : bool) :
  svd_flip_conj (f0 Op) (f1 Op) (fmul Op) (fun x => x) (fsign Op) (fun a b => fltb Op (fabs Op a) (fabs Op b)) U V ub
  = svd_flip Op U V ub.
Proof.
  unfold svd_flip_conj, svd_flip. rewrite !map_id. destruct ub; reflexivity.
Qed.

Section RingConj.
  Variable K : Type.
  Variables (rO rI : K) (radd rmul rsub : K -> K -> K) (ropp : K -> K).
  Hypothesis Rth : ring_theory rO rI radd rmul rsub ropp (@eq K).
  Add Ring Kr : Rth.
  Variable cj : K -> K.
  Infix "*k" := rmul (at level 40, left associativity).
  Notation sum := (bigsum K rO radd).

  (* u-based decision: U' = U * conj(g), V' = V * g *)
  Theorem conj_flip_product_u (U V : nat -> nat -> K) (g s : nat -> K) (p : nat) :
    (forall t, t < p -> cj (g t) *k g t = rI) ->
    forall i j, sum p (fun t => (U i t *k cj (g t)) *k s t *k (V t j *k g t)) = sum p (fun t => U i t *k s t *k V t j).
  Proof.
    intros H i j. apply bigsum_ext. intros t Ht.
    replace ((U i t *k cj (g t)) *k s t *k (V t j *k g t)) with (U i t *k s t *k V t j *k (cj (g t) *k g t)) by ring.
    rewrite (H t Ht). ring.
  Qed.
  (* v-based decision: V' = V * conj(g), U' = U * g *)
  Theorem conj_flip_product_v (U V : nat -> nat -> K) (g s : nat -> K) (p : nat) :
    (forall t, t < p -> cj (g t) *k g t = rI) ->
    forall i j, sum p (fun t => (U i t *k g t) *k s t *k (V t j *k cj (g t))) = sum p (fun t => U i t *k s t *k V t j).
  Proof.
    intros H i j. apply bigsum_ext. intros t Ht.
    replace ((U i t *k g t) *k s t *k (V t j *k cj (g t))) with (U i t *k s t *k V t j *k (cj (g t) *k g t)) by ring.
    rewrite (H t Ht). ring.
  Qed.
  (* the deciding entry after the flip is its own magnitude: phase is np.sign, mag is abs, tied by x * conj(sign x) = |x| *)
  Theorem conj_flip_deciding (phase mag : K -> K) (U : nat -> nat -> K) (imax t : nat) :
    (forall x, x *k cj (phase x) = mag x) ->
    U imax t *k cj (phase (U imax t)) = mag (U imax t).
  Proof. intros H. apply H. Qed.
  (* without the conjugate (the code before ca31a67) the product changes by the factor g_t^2: the repaired defect *)
  Theorem noconj_flip_term (u v sg g : K) : (u *k g) *k sg *k (v *k g) = u *k sg *k v *k (g *k g).
  Proof. ring. Qed.
End RingConj.
