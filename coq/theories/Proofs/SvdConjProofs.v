(* C05, svd_flip with conjugation (commit ca31a67):
   (1) for real scalars (cj = identity, phase = np.sign, |a| < |b| through fabs) the complex-aware model IS the real model
       Model/Svd.v svd_flip, for every ordered-field record Op - so all real theorems of Props/C05.v are about the new code;
   (2) over ANY commutative ring with a conjugation (complex numbers, Gaussian rationals, ...): multiplying the deciding factor
       by conj(g_t) and the other by g_t leaves every term U[i,t] s_t V[t,j] - hence the product - unchanged whenever
       conj(g_t) g_t = 1, and the deciding entry becomes its magnitude (x conj(phase x) = |x|, the defining property of
       np.sign on complex numbers).  Function level (matrices as nat -> nat -> K, sums = Base/BigSum.v bigsum). *)
From Coq Require Import List Arith Lia Bool Ring.
From TLV Require Import Base.Ops Base.Tensor Base.BigSum Model.Svd Model.SvdConj.
Import ListNotations.

Theorem flip_conj_real {F} (Op : fops F) (U V : list (list F)) (ub : bool) :
  svd_flip_conj (f0 Op) (f1 Op) (fmul Op) (fun x => x) (fsign Op) (fun a b => fltb Op (fabs Op a) (fabs Op b)) U V ub
  = svd_flip Op U V ub.
Proof.
  unfold svd_flip_conj, svd_flip. rewrite !map_id. destruct ub; reflexivity.
Qed.

Section RingConj.
  Variable K : Type.
  Variables (rO rI : K) (radd rmul rsub : K -> K -> K) (ropp : K -> K).
  Hypothesis Rth : ring_theory rO rI radd rmul rsub ropp (@eq K).
  Add Ring Kr : Rth.
  Variable cj : K -> K.
  Infix "*k" := rmul (at level 40, left associativity).
  Notation sum := (bigsum K rO radd).

  (* u-based decision: U' = U * conj(g), V' = V * g *)
  Theorem conj_flip_product_u (U V : nat -> nat -> K) (g s : nat -> K) (p : nat) :
    (forall t, t < p -> cj (g t) *k g t = rI) ->
    forall i j, sum p (fun t => (U i t *k cj (g t)) *k s t *k (V t j *k g t)) = sum p (fun t => U i t *k s t *k V t j).
  Proof.
    intros H i j. apply bigsum_ext. intros t Ht.
    replace ((U i t *k cj (g t)) *k s t *k (V t j *k g t)) with (U i t *k s t *k V t j *k (cj (g t) *k g t)) by ring.
    rewrite (H t Ht). ring.
  Qed.
  (* v-based decision: V' = V * conj(g), U' = U * g *)
  Theorem conj_flip_product_v (U V : nat -> nat -> K) (g s : nat -> K) (p : nat) :
    (forall t, t < p -> cj (g t) *k g t = rI) ->
    forall i j, sum p (fun t => (U i t *k g t) *k s t *k (V t j *k cj (g t))) = sum p (fun t => U i t *k s t *k V t j).
  Proof.
    intros H i j. apply bigsum_ext. intros t Ht.
    replace ((U i t *k g t) *k s t *k (V t j *k cj (g t))) with (U i t *k s t *k V t j *k (cj (g t) *k g t)) by ring.
    rewrite (H t Ht). ring.
  Qed.
  (* the deciding entry after the flip is its own magnitude: phase is np.sign, mag is abs, tied by x * conj(sign x) = |x| *)
  Theorem conj_flip_deciding (phase mag : K -> K) (U : nat -> nat -> K) (imax t : nat) :
    (forall x, x *k cj (phase x) = mag x) ->
    U imax t *k cj (phase (U imax t)) = mag (U imax t).
  Proof. intros H. apply H. Qed.
  (* without the conjugate (the code before ca31a67) the product changes by the factor g_t^2: the repaired defect *)
  Theorem noconj_flip_term (u v sg g : K) : (u *k g) *k sg *k (v *k g) = u *k sg *k v *k (g *k g).
  Proof. ring. Qed.
End RingConj.

(* the conjugate-aware symeig_svd (d995974) IS the real model when the conjugation is the identity *)
Lemma cjmat_id {F} (M : list (list F)) : cjmat (fun x => x) M = M.
Proof. unfold cjmat. rewrite (map_ext _ (fun r => r)) by (intros; apply map_id). apply map_id. Qed.

Theorem symeig_conj_real {F} (Op : fops F) eigh sq eps (M : list (list F)) d1 d2 n :
  symeig_svd_conj Op (fun x => x) eigh sq eps M d1 d2 n = symeig_svd Op eigh sq eps M d1 d2 n.
Proof.
  unfold symeig_svd_conj, symeig_svd. destruct (svd_checks d1 d2 n) as [[k mn] mx]. rewrite !cjmat_id.
  destruct (d2 <? d1).
  - destruct (eigh (mmul Op d1 M (transp Op d2 M))) as [lam W]. now rewrite cjmat_id.
  - destruct (eigh (mmul Op d2 (transp Op d2 M) M)) as [lam W]. now rewrite cjmat_id.
Qed.

(* the flip-parametric interface with the real flip IS svd_interface without mask / non_negative *)
Theorem interface_flip_real {F} (Op : fops F) funs meth d2 (M : list (list F)) n flip ub iters sq eps :
  svd_interface_flip (svd_flip Op) funs meth M flip ub = svd_interface Op funs meth d2 M n flip ub None None iters sq eps.
Proof.
  unfold svd_interface_flip, svd_interface. destruct (dispatch meth) as [f|]; [|reflexivity].
  destruct (funs f 0 M) as [[U S] V]. destruct flip; [destruct (svd_flip Op U V ub)|]; reflexivity.
Qed.

(* the mask-aware flip-parametric interface with the real flip IS svd_interface without non_negative *)
Theorem interface_cmask_real {F} (Op : fops F) funs meth d2 (M : list (list F)) n flip ub mask iters sq eps :
  svd_interface_cmask Op (svd_flip Op) funs meth d2 M n flip ub mask iters = svd_interface Op funs meth d2 M n flip ub None mask iters sq eps.
Proof.
  unfold svd_interface_cmask, svd_interface. destruct (dispatch meth) as [f|]; [|reflexivity].
  destruct mask as [msk|]; [destruct n as [r|]|].
  - destruct (mask_loop Op (funs f) d2 msk iters 1 M (funs f 0 M)) as [M1 [[U S] V]].
    destruct flip; [destruct (svd_flip Op U V ub)|]; reflexivity.
  - destruct (funs f 0 M) as [[U S] V]. destruct flip; [destruct (svd_flip Op U V ub)|]; reflexivity.
  - destruct (funs f 0 M) as [[U S] V]. destruct flip; [destruct (svd_flip Op U V ub)|]; reflexivity.
Qed.

(* the conjugate-aware randomized_svd IS the real model when the conjugation is the identity *)
Theorem randomized_conj_real {F} (Op : fops F) svd qr G (M : list (list F)) d1 d2 n n_over n_iter :
  randomized_svd_conj Op (fun x => x) svd qr G M d1 d2 n n_over n_iter = randomized_svd Op svd qr G M d1 d2 n n_over n_iter.
Proof.
  unfold randomized_svd_conj, randomized_svd, range_finder_conj, range_finder.
  destruct (svd_checks d1 d2 n) as [[k mn] mx]. rewrite !cjmat_id. reflexivity.
Qed.
