(* C05: the decision logic of Model/Svd.v (clamping, full_matrices switch, slice bounds, branch conditions, n_dims) as
   named functions, with lemmas (by computation) that the model functions factor through them.  The harness translates
   the corresponding expressions of tensorly/tenalg/svd.py from the Python ast on every run and proves them equal to
   these functions (generated goals under build/cases/C05). *)
From Coq Require Import List Arith Bool.
From TLV Require Import Base.Ops Base.Tensor Model.Svd.
Import ListNotations.

Definition dec_full (k mn : nat) : bool := mn <? k.                                   (* truncated_svd: full_matrices *)
Definition dec_trunc_bounds (k : nat) : nat * nat * nat := (k, k, k).                 (* U[:, :b1], S[:b2], V[:b3, :] *)
Definition dec_symeig_tall (d1 d2 : nat) : bool := d2 <? d1.                          (* symeig_svd: dim_1 > dim_2 *)
Definition dec_symeig_bounds (d1 d2 k : nat) : nat * nat * nat := (Nat.min d1 k, Nat.min (Nat.min d1 d2) k, Nat.min d2 k).
Definition dec_rand_ndims (k n_over mx : nat) : nat := Nat.min (k + n_over) mx.
Definition dec_rand_transposed (d1 d2 k mn n_dims : nat) : bool :=
  let t := Nat.min mn n_dims in ((d2 <? d1) && (t <? k)) || ((d1 <? d2) && (k <? t)).

Lemma truncated_svd_factored {A} (oracle : bool -> triple A) d1 d2 n :
  truncated_svd oracle d1 d2 n =
  let '(k, mn, _) := svd_checks d1 d2 n in
  let '(b1, b2, b3) := dec_trunc_bounds k in
  let '(U, Sg, V) := oracle (dec_full k mn) in (map (firstn b1) U, firstn b2 Sg, firstn b3 V).
Proof. unfold truncated_svd, slice3, dec_full, dec_trunc_bounds. destruct (svd_checks d1 d2 n) as [[k mn] mx]. reflexivity. Qed.

Lemma symeig_svd_factored {F} (Op : fops F) eigh sq eps (M : list (list F)) d1 d2 n :
  symeig_svd Op eigh sq eps M d1 d2 n =
  let '(k, _, _) := svd_checks d1 d2 n in
  let Mt := transp Op d2 M in
  let '(U, Sg, V) :=
    if dec_symeig_tall d1 d2 then
      let '(lam, W) := eigh (mmul Op d1 M Mt) in
      let Sg := map (fun x => sq (clip_lo Op eps x)) lam in
      (W, Sg, mmul Op d1 Mt (div_cols Op W Sg))
    else
      let '(lam, W) := eigh (mmul Op d2 Mt M) in
      let Sg := map (fun x => sq (clip_lo Op eps x)) lam in
      (div_cols Op (mmul Op d2 M W) Sg, Sg, W) in
  let c := if dec_symeig_tall d1 d2 then d1 else d2 in
  let '(b1, b2, b3) := dec_symeig_bounds d1 d2 k in
  (map (firstn b1) (map (@rev F) U), firstn b2 (rev Sg), firstn b3 (rev (transp Op c V))).
Proof. unfold symeig_svd, dec_symeig_tall, dec_symeig_bounds. destruct (svd_checks d1 d2 n) as [[k mn] mx]. reflexivity. Qed.

Lemma randomized_svd_factored {F} (Op : fops F) svd qr G (M : list (list F)) d1 d2 n n_over n_iter :
  randomized_svd Op svd qr G M d1 d2 n n_over n_iter =
  let '(k, mn, mx) := svd_checks d1 d2 n in
  let n_dims := dec_rand_ndims k n_over mx in
  if dec_rand_transposed d1 d2 k mn n_dims then
    let Mt := transp Op d2 M in
    let Q := range_finder Op qr Mt d1 G n_iter in
    let c := ncols Q in
    let Mred := transp Op d1 (mmul Op d1 (transp Op c Q) Mt) in
    let '(U, Sg, V) := truncated_svd (svd Mred) d1 c (Some k) in
    (U, Sg, mmul Op d2 V (transp Op c Q))
  else
    let Q := range_finder Op qr M d2 G n_iter in
    let c := ncols Q in
    let Mred := mmul Op d2 (transp Op c Q) M in
    let '(U, Sg, V) := truncated_svd (svd Mred) c d2 (Some k) in
    (mmul Op (ncols U) Q U, Sg, V).
Proof. unfold randomized_svd, dec_rand_ndims, dec_rand_transposed. destruct (svd_checks d1 d2 n) as [[k mn] mx]. reflexivity. Qed.

(* ---------- round 5: the post-processing pipeline of svd_interface as a TRACE of steps ----------
   svd_interface = dispatch, then an interpreter (run_step) folded over interface_trace: which steps run, and in which order, as
   a function of the options.  On every run the harness re-derives the trace from the statement order and the guards of the
   current Python source (`if mask is not None and n_eigenvecs is not None`, `if flip_sign`, `if non_negative is not False and
   non_negative is not None`) and proves it equal to interface_trace / nn_truthy. *)
Inductive istep := StepCall | StepMaskLoop | StepFlip | StepNN.
Definition interface_trace (mask_given n_given flip nn_on : bool) : list istep :=
  [StepCall] ++ (if mask_given && n_given then [StepMaskLoop] else []) ++ (if flip then [StepFlip] else [])
             ++ (if nn_on then [StepNN] else []).
(* the Python values of the non_negative argument: None / False / True / a string *)
Inductive nnarg := NNnone | NNfalse | NNtrue | NNstr.
Definition nn_is_none (a : nnarg) : bool := match a with NNnone => true | _ => false end.
Definition nn_is_false (a : nnarg) : bool := match a with NNfalse => true | _ => false end.
Definition nn_truthy (a : nnarg) : bool := match a with NNtrue | NNstr => true | _ => false end.   (* = the model's nn is Some _ *)

Section Trace.
Context {F : Type} (Op : fops F).
Definition run_step (svd_fun : nat -> list (list F) -> triple F) (d2 : nat) (mask : list (list F)) (iters : nat) (ub : bool)
    (ty : nntype) (sq : F -> F) (eps : F) (st : list (list F) * triple F) (s : istep) : list (list F) * triple F :=
  let '(M, (U, Sg, V)) := st in
  match s with
  | StepCall => (M, svd_fun 0 M)
  | StepMaskLoop => mask_loop Op svd_fun d2 mask iters 1 M (U, Sg, V)
  | StepFlip => let '(U', V') := svd_flip Op U V ub in (M, (U', Sg, V'))
  | StepNN => let '(U', V') := make_svd_non_negative Op sq eps M U Sg V ty in (M, (U', Sg, V'))
  end.
Definition is_some {A} (o : option A) : bool := match o with Some _ => true | None => false end.

Lemma svd_interface_traced funs meth d2 (M : list (list F)) n flip ub nn mask iters sq eps :
  svd_interface Op funs meth d2 M n flip ub nn mask iters sq eps =
  match dispatch meth with
  | None => Err
  | Some f =>
    Ok (snd (fold_left (run_step (funs f) d2 (match mask with Some m => m | None => [] end) iters ub
                                 (match nn with Some ty => ty | None => NNDSVD end) sq eps)
                       (interface_trace (is_some mask) (is_some n) flip (is_some nn)) (M, ([], [], []))))
  end.
Proof.
  unfold svd_interface. destruct (dispatch meth) as [f|]; [|reflexivity].
  destruct mask as [msk|]; destruct n as [r|]; destruct flip; destruct nn as [ty|];
    repeat (cbn [is_some interface_trace andb app fold_left run_step snd];
      match goal with
      | |- context [funs ?a ?b ?c] => destruct (funs a b c) as [[? ?] ?]
      | |- context [mask_loop ?a ?b ?c ?d ?e ?f0 ?g ?h] => destruct (mask_loop a b c d e f0 g h) as [? [[? ?] ?]]
      | |- context [svd_flip ?a ?b ?c ?d] => destruct (svd_flip a b c d) as [? ?]
      | |- context [make_svd_non_negative ?a ?b ?c ?d ?e ?f0 ?g ?h] => destruct (make_svd_non_negative a b c d e f0 g h) as [? ?]
      end); cbn [is_some interface_trace andb app fold_left run_step snd]; reflexivity.
Qed.
End Trace.
