(* C05, round 7: more of the decision logic / loop skeletons of tensorly/tenalg/svd.py as named functions through which the model
   functions factor (lemmas by computation / a short induction), so that the harness can re-derive them from the Python ast on every
   run and PROVE them equal (generated goals):
   - make_svd_non_negative: the loop range `range(1, min(shape(U)[1], shape(V)[0]))`, the per-column choice
     `if m_p == 0 and m_n == 0: continue` / `if m_p > m_n: positive parts else: negative parts`, the final chain
     nndsvd -> soft_thresholding, nndsvda -> where(. < eps, |mean|, .), and `nntype is True -> "nndsvda"`;
   - svd_flip: the padding of the sign vector with ones (how many, and the slice bound), both decisions;
   - the mask-imputation loop: the shape of St = eye(shape(U)[1], shape(V)[0]) and the number of diagonal entries written
     (range(shape(S)[0])), the number of iterations;
   - randomized_range_finder: the sequence of tl.qr calls (one on A @ G, then per power iteration one on A_H @ Q and one on A @ Q,
     A_H = conj(transpose(A))) as a generated Gallina function equal to range_finder_conj. *)
From Coq Require Import List Arith Bool Lia.
From TLV Require Import Base.Ops Base.Tensor Model.Svd Model.SvdConj.
Import ListNotations.

(* ---------- make_svd_non_negative ---------- *)
Inductive nnbranch := NSkip | NPos | NNeg.
Definition dec_nn_choice (zp zn gt : bool) : nnbranch := if zp && zn then NSkip else if gt then NPos else NNeg.
Definition dec_nn_range (cu rv : nat) : nat * nat := (1, Nat.min cu rv).
Inductive nnfinal := FinSoft | FinFill.
Definition dec_nn_final (ty : nntype) : nnfinal := match ty with NNDSVD => FinSoft | NNDSVDA => FinFill end.
Definition dec_nn_true : nntype := NNDSVDA.

Section NN.
Context {F : Type} (Op : fops F).
Definition nn_lead (sq : F -> F) (s : F) (x y : list F) : list F * list F :=
  (map (fun a => fmul Op (sq s) (fabs Op a)) x, map (fun a => fmul Op (sq s) (fabs Op a)) y).
Definition nn_body (sq : F -> F) (s : F) (x y : list F) : list F * list F :=
  let xp := pos_part Op x in let yp := pos_part Op y in let xn := neg_part Op x in let yn := neg_part Op y in
  let xpn := nrm Op sq xp in let ypn := nrm Op sq yp in let xnn := nrm Op sq xn in let ynn := nrm Op sq yn in
  let mp := fmul Op xpn ypn in let mn_ := fmul Op xnn ynn in
  match dec_nn_choice (feqb Op mp (f0 Op)) (feqb Op mn_ (f0 Op)) (fltb Op mn_ mp) with
  | NSkip => (map (fun _ => f0 Op) x, map (fun _ => f0 Op) y)
  | NPos => let lbd := sq (fmul Op s mp) in
            (map (fun a => fmul Op lbd (fdiv Op a xpn)) xp, map (fun a => fmul Op lbd (fdiv Op a ypn)) yp)
  | NNeg => let lbd := sq (fmul Op s mn_) in
            (map (fun a => fmul Op lbd (fdiv Op a xnn)) xn, map (fun a => fmul Op lbd (fdiv Op a ynn)) yn)
  end.
Lemma nn_pair_factored sq j s x y :
  nn_pair Op sq j s x y = match j with 0 => nn_lead sq s x y | _ => nn_body sq s x y end.
Proof.
  destruct j; [reflexivity|]. unfold nn_pair, nn_body, dec_nn_choice.
  destruct (feqb Op _ _ && feqb Op _ _); [reflexivity|]. destruct (fltb Op _ _); reflexivity.
Qed.
(* column 0 is the leading triplet, columns lo .. hi - 1 (lo = 1, hi = min(#cols U, #rows V)) are the loop *)
Lemma nn_pairs_factored (g : nat -> list F * list F) cu rv :
  1 <= Nat.min cu rv ->
  let '(lo, hi) := dec_nn_range cu rv in
  map g (seq 0 (Nat.min cu rv)) = g 0 :: map g (seq lo (hi - lo)).
Proof.
  intros H. cbn [dec_nn_range]. destruct (Nat.min cu rv) as [|q]; [lia|]. replace (S q - 1) with q by lia. reflexivity.
Qed.
Lemma make_nn_factored sq eps (M U : list (list F)) Sg V ty :
  make_svd_non_negative Op sq eps M U Sg V ty =
  let c := ncols U in let r := length V in let q := snd (dec_nn_range c r) in
  let pairs := map (fun j => nn_pair Op sq j (nth j Sg (f0 Op)) (col Op j U) (nth j V [])) (seq 0 q) in
  let Wt := map fst pairs ++ repeat (repeat (f0 Op) (length U)) (c - q) in
  let H := map snd pairs ++ map (fun row => map (fun _ => f0 Op) row) (skipn q V) in
  let W := cols_of Op (length U) Wt in
  match dec_nn_final ty with
  | FinSoft => (soft_thr Op eps W, soft_thr Op eps H)
  | FinFill => let avg := fabs Op (fmean Op M) in (fill_avg Op eps avg W, fill_avg Op eps avg H)
  end.
Proof. unfold make_svd_non_negative, dec_nn_range, dec_nn_final. cbn [snd]. destruct ty; reflexivity. Qed.

(* ---------- svd_flip: padding of the sign vector ---------- *)
Definition dec_flip_pad (have need : nat) : nat * nat := (need - have, need).     (* ones appended, slice bound *)
Lemma fit_factored : forall n (l : list F),
  fit Op n l = let '(pad, b) := dec_flip_pad (length l) n in firstn b (l ++ repeat (f1 Op) pad).
Proof.
  cbn [dec_flip_pad]. induction n as [|n IH]; intros l; [reflexivity|].
  destruct l as [|x l]; cbn [fit length app firstn].
  - rewrite (IH []). cbn [length app]. rewrite !Nat.sub_0_r. cbn [repeat firstn]. reflexivity.
  - rewrite (IH l). reflexivity.
Qed.

(* ---------- mask imputation: St = eye(shape(U)[1], shape(V)[0]) with S on the first shape(S)[0] diagonal entries ---------- *)
Definition dec_mask_st (iters cu rv ls : nat) : nat * nat * nat * nat := (iters, cu, rv, ls).
Definition st_matrix_l (r c l : nat) (Sg : list F) : list (list F) :=
  map (fun a => map (fun b => if Nat.eqb a b then (if a <? l then nth a Sg (f0 Op) else f1 Op) else f0 Op) (seq 0 c)) (seq 0 r).
Lemma impute_factored d2 (M mask U : list (list F)) Sg V iters :
  impute Op d2 M mask U Sg V =
  let '(_, r, c, l) := dec_mask_st iters (ncols U) (length V) (length Sg) in
  let St := st_matrix_l r c l Sg in
  let R := mmul Op d2 (mmul Op (length V) U St) V in
  mzip (fadd Op) (mzip (fmul Op) M mask) (mzip (fun x m => fmul Op x (fsub Op (f1 Op) m)) R mask).
Proof. reflexivity. Qed.
Lemma mask_loop_count svd_fun d2 mask call M t :
  mask_loop Op svd_fun d2 mask (fst (fst (fst (dec_mask_st 0 0 0 0)))) call M t = (M, t).
Proof. reflexivity. Qed.
End NN.
