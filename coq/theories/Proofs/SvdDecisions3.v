(* C05, round 8: the ROLES inside svd_flip as a named decision function through which the conjugate-aware model
   (Model/SvdConj.v svd_flip_conj) factors, so that the harness re-derives them from the Python ast on every run and proves
   them equal (generated goals):
   - which factor decides (u_based_decision -> U, else V) and the argmax axis (axis 0 = one winner per COLUMN of U;
     axis 1 = one winner per ROW of V), including the way the winners are picked out of the deciding factor
     (`X[i, j] for (i, j) in zip(argmax, range(shape(X)[1]))` for axis 0, `zip(range(shape(X)[0]), argmax)` for axis 1);
   - which factor is multiplied by conj(signs) (the deciding one) and which by the plain, padded and cut signs (the other),
     and the orientation of the two products: U is scaled column-wise (`U * vec`), V row-wise (`V * vec[:, None]`).
   flip_by_roles is the flip for ARBITRARY roles: a role assignment other than dec_flip_roles gives a different function
   (Example roles_matter), so the tie is not vacuous. *)
From Coq Require Import List Arith Bool ZArith.
From TLV Require Import Base.Ops Base.Tensor Model.Svd Model.SvdConj.
Import ListNotations.

Inductive flfactor := FacU | FacV.
Definition flfactor_eqb (a b : flfactor) : bool :=
  match a, b with FacU, FacU | FacV, FacV => true | _, _ => false end.
Inductive florient := ByCols | ByRows.      (* `X * vec` scales columns, `X * vec[:, None]` scales rows *)

(* (deciding factor, argmax axis, factor multiplied by conj(signs), factor multiplied by the padded signs,
    orientation of the product on U, orientation of the product on V) *)
Definition dec_flip_roles (u_based : bool) : flfactor * nat * flfactor * flfactor * florient * florient :=
  if u_based then (FacU, 0, FacU, FacV, ByCols, ByRows) else (FacV, 1, FacV, FacU, ByCols, ByRows).

Section Roles.
Context {K : Type} (k0 k1 : K) (kmul : K -> K -> K) (cj : K -> K) (phase : K -> K) (absltb : K -> K -> bool).

Definition scale_by (o : florient) (vec : list K) (X : list (list K)) : list (list K) :=
  match o with ByCols => cscale_cols kmul vec X | ByRows => cscale_rows kmul vec X end.
(* number of entries the sign vector of a factor needs: one per column when the factor is scaled by columns, one per row otherwise *)
Definition need (o : florient) (X : list (list K)) : nat := match o with ByCols => ncols X | ByRows => length X end.

Definition flip_by_roles (r : flfactor * nat * flfactor * flfactor * florient * florient) (U V : list (list K))
  : list (list K) * list (list K) :=
  let '(dec, axis, cjf, plain, oU, oV) := r in
  let X := match dec with FacU => U | FacV => V end in
  let sg := match axis with 0 => csigns_u k0 phase absltb X | _ => csigns_v k0 phase absltb X end in
  let vec (f : flfactor) (o : florient) (Y : list (list K)) : list K :=
    if flfactor_eqb cjf f then map cj sg
    else if flfactor_eqb plain f then cfit k1 (need o Y) sg
    else cfit k1 (need o Y) [] in
  (scale_by oU (vec FacU oU U) U, scale_by oV (vec FacV oV V) V).

Lemma svd_flip_conj_roles (U V : list (list K)) (ub : bool) :
  svd_flip_conj k0 k1 kmul cj phase absltb U V ub = flip_by_roles (dec_flip_roles ub) U V.
Proof. destruct ub; reflexivity. Qed.
End Roles.

(* the roles matter: exchanging the factor that receives the conjugate changes the result (Gaussian-integer-like pairs over Z,
   phase = identity on the unit i) *)
Example roles_matter :
  let kmul := fun a b : Z * Z => ((fst a * fst b - snd a * snd b)%Z, (fst a * snd b + snd a * fst b)%Z) in
  let cj := fun a : Z * Z => (fst a, (- snd a)%Z) in
  let U := [[(0, 1)%Z]] in let V := [[(1, 0)%Z]] in
  flip_by_roles (0, 0)%Z (1, 0)%Z kmul cj (fun z => z) (fun _ _ => false) (FacU, 0, FacU, FacV, ByCols, ByRows) U V
  <> flip_by_roles (0, 0)%Z (1, 0)%Z kmul cj (fun z => z) (fun _ _ => false) (FacU, 0, FacV, FacU, ByCols, ByRows) U V.
Proof. vm_compute. intros H. discriminate H. Qed.
