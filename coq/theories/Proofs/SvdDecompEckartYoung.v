(* C09: the named hypothesis eckart_young_stmt of Proofs/SvdDecompPartial.v is a THEOREM.
   Adapter from the function-level Eckart-Young-Mirsky inequality proved in Proofs/SvdEckartYoung.v (eckart_young_fn: C05's
   development, imported read-only) to the tensor-level statement used by the C09 lower bounds, and the former `_partial`
   theorems restated without the hypothesis. *)
From Coq Require Import List Arith Lia Bool Reals Lra RealField.
From TLV Require Import Base.Shape Base.PyList Base.Tensor Base.BigSum Base.Ops Base.RSum Model.Base Model.SvdDecomp
     Proofs.SvdDecompProofs Proofs.SvdDecompProofsR Proofs.SvdDecompPyth Proofs.SvdDecompTails Proofs.SvdDecompErrorR
     Proofs.SvdDecompTuckerErr Proofs.SvdDecompHosvdBound Proofs.SvdDecompRing Proofs.SvdDecompPartial
     Proofs.SvdDecompRingPartial Proofs.SvdDecompRankCond.
From TLV Require Proofs.SvdProofsAux Proofs.SvdEckartYoung.
Import ListNotations.
Local Open Scope R_scope.

Lemma sumR_rsum n f : sumR n f = rsum n f.
Proof. induction n; [reflexivity|]. rewrite (fsumn_S Rops). cbn [fadd Rops rsum]. now rewrite IHn. Qed.

Lemma tail2_rsum r Sv : (r <= length Sv)%nat ->
  tail2 Rops r Sv = rsum (length Sv - r) (fun t => (nth (r + t) Sv 0) ^ 2).
Proof.
  intros Hr. unfold tail2. rewrite sumR_rsum.
  replace (length Sv) with (r + (length Sv - r))%nat at 1 by lia.
  rewrite SvdProofsAux.rsum_app.
  rewrite (rsum_zero r) by (intros l Hl; destruct (Nat.leb_spec r l); [lia | reflexivity]).
  rewrite Rplus_0_l. apply rsum_ext. intros t Ht.
  destruct (Nat.leb_spec r (r + t)); [|lia]. unfold sq. cbn [fmul f0 Rops]. ring.
Qed.

Theorem eckart_young_holds : eckart_young_stmt.
Proof.
  intros M m n r [[U Sv] V] [Hc Hs] P Q. cbn [snd3] in *.
  unfold svd_full_contract in Hc. cbv zeta in Hc. destruct Hc as (HrK & HU & HV & OU & OV & Hprod).
  set (K := length Sv) in *.
  rewrite (tail2_rsum r Sv HrK). fold K.
  pose proof (SvdEckartYoung.eckart_young_fn m n K r
                (fun i j => gR M [i; j]) (fun i t => gR U [i; t]) (fun t j => gR V [t; j])
                (fun i j => rsum r (fun b => P i b * Q b j)) (fun t => nth t Sv 0)) as EY.
  eapply Rle_trans; [apply EY|].
  - intros a b Ha Hb. etransitivity; [symmetry; apply sumR_rsum | now apply OU].
  - intros a b Ha Hb. etransitivity; [symmetry; apply sumR_rsum | now apply OV].
  - intros t Ht. apply (Hs t t); [lia | exact Ht].
  - intros i j Hij Hj. apply (Hs i j); [exact Hij | exact Hj].
  - intros i j Hi Hj. rewrite <- (Hprod i j Hi Hj). rewrite sumR_rsum. apply rsum_ext. intros t Ht. ring.
  - exists P, Q. intros. reflexivity.
  - apply Req_le. symmetry. etransitivity; [apply sumR_rsum|]. apply rsum_ext. intros i Hi.
    etransitivity; [apply sumR_rsum|]. apply rsum_ext. intros c Hc.
    unfold sq. cbn [fmul fsub Rops]. rewrite (sumR_rsum r (fun b => P i b * Q b c)). ring.
Qed.

(* Eckart-Young for one matrix and one SVD answer of it meeting the sorted contract *)
Corollary ey_for_of_contract M m n r a : svd_sorted_contract M m n r a -> ey_for M m n r a.
Proof. apply eckart_young_holds. Qed.
