(* C09, the TT-SVD error identity (every commutative ring, every order, every rank request): when every
   SVD answer of the run has orthonormal left singular vectors and multiplies back to its query
   (NO assumption on the discarded singular values), the squared error of the sequential-SVD loop is
   the sum over the steps of the squared discarded parts of the working unfoldings
        |W - chain(cores)|^2 = sum_k |M_k - U_k diag(S_k) V_k|^2
   (left-orthogonality argument: SvdDecompPyth.pythagoras_mat at every step, induction over the modes). *)
From Coq Require Import List Arith Lia Bool Ring.
From TLV Require Import Base.Shape Base.PyList Base.Tensor Base.BigSum Base.Ops Model.Base Model.SvdDecomp
     Proofs.SvdDecompProofs Proofs.SvdDecompPyth.
Import ListNotations.

Section ErrId.
Context {F : Type} (Op : fops F).
Hypothesis Rth : ring_theory (f0 Op) (f1 Op) (fadd Op) (fmul Op) (fsub Op) (fopp Op) (@eq F).
Add Ring Fr6 : Rth.
Notation fz := (f0 Op).
Notation fone := (f1 Op).
Infix "+f" := (fadd Op) (at level 50, left associativity).
Infix "-f" := (fsub Op) (at level 50, left associativity).
Infix "*f" := (fmul Op) (at level 40, left associativity).
Notation fsum := (fsumn Op).
Notation gg := (g Op).
Notation sidx := (sum_idx F fz (fadd Op)).
Notation sqf := (sq Op).

Lemma fsumn_mul' n m f : fsum (n * m) f = fsum n (fun i => fsum m (fun j => f (i * m + j))).
Proof. unfold fsumn. apply (bigsum_mul F _ _ _ _ _ _ Rth). Qed.

(* a sum over (multi-index, trailing index) is a sum over the flat column index *)
Lemma sum_idx_cols rest r0 (G : nat -> F) :
  sidx rest (fun idx' => fsum r0 (fun c => G (ravel rest idx' * r0 + c))) = fsum (prod rest * r0) G.
Proof.
  rewrite fsumn_mul'. unfold sum_idx, fsumn. apply bigsum_ext. intros k Hk.
  rewrite ravel_unravel by exact Hk. reflexivity.
Qed.

(* ------------------------------------------------------------------ the contract of one SVD answer, without
   any condition on the discarded singular values *)
Definition step_orth (M : tensor F) (m n r : nat) (a : @svdans F) : Prop :=
  let '(U, Sv, V) := a in
  exists K, r <= K /\ shape U = [m; K] /\ shape V = [K; n] /\
    (forall j l, j < K -> l < K ->
       fsum m (fun i => gg U [i; j] *f gg U [i; l]) = if Nat.eqb j l then fone else fz) /\
    (forall i c, i < m -> c < n ->
       fsum K (fun l => gg U [i; l] *f (nth l Sv fz *f gg V [l; c])) = gg M [i; c]) /\
    r <= length Sv /\
    Forall (sq1 Op) (flip_signs Op (cols_firstn Op r U)).

(* what svd_interface returns under that contract: shapes, orthonormal columns, and U'^T M = diag(S') V' *)
Lemma svd_interface_orth M m n r a : step_orth M m n r a ->
  let '(U', S', V') := svd_interface Op a r in
  shape U' = [m; r] /\ shape V' = [r; n] /\ length S' = r /\
  orthonormal_fun Op (fun i b => gg U' [i; b]) m r /\
  (forall b col, b < r -> col < n ->
     fsum m (fun i => gg U' [i; b] *f gg M [i; col]) = nth b S' fz *f gg V' [b; col]).
Proof.
  destruct a as [[U Sv] V]. unfold step_orth, svd_interface, truncated_svd, svd_flip.
  intros (K & HrK & HU & HV & Horth & Hprod & HlenS & Hsq).
  assert (EU : cols_firstn Op r U = tabulate [m; r] (fun idx => gg U idx)).
  { unfold cols_firstn, nrows, ncols. rewrite HU. simpl nth. now rewrite Nat.min_l by exact HrK. }
  assert (EV : rows_firstn Op r V = tabulate [r; n] (fun idx => gg V idx)).
  { unfold rows_firstn, nrows, ncols. rewrite HV. simpl nth. now rewrite Nat.min_l by exact HrK. }
  rewrite EU in *. rewrite EV.
  set (sg := flip_signs Op (tabulate [m; r] (fun idx => gg U idx))) in *.
  assert (Lsg : length sg = r). { unfold sg. rewrite flip_signs_length. reflexivity. }
  assert (Hsg : forall b, b < r -> nth b sg fone *f nth b sg fone = fone).
  { intros b Hb. rewrite Forall_forall in Hsq. apply (Hsq (nth b sg fone)). apply nth_In. lia. }
  assert (HU' : forall i b, i < m -> b < r ->
            gg (scale_cols Op (tabulate [m; r] (fun idx => gg U idx)) sg) [i; b] = gg U [i; b] *f nth b sg fone).
  { intros i b Hi Hb. unfold scale_cols. cbn [shape tabulate]. rewrite (g_tab2 Op) by assumption. cbv beta.
    rewrite (g_tab2 Op) by assumption. reflexivity. }
  assert (HV' : forall b c, b < r -> c < n ->
            gg (scale_rows Op (tabulate [r; n] (fun idx => gg V idx)) sg) [b; c] = gg V [b; c] *f nth b sg fone).
  { intros b c Hb Hc. unfold scale_rows. cbn [shape tabulate]. rewrite (g_tab2 Op) by assumption. cbv beta.
    rewrite (g_tab2 Op) by assumption. reflexivity. }
  split; [reflexivity|]. split; [reflexivity|]. split; [rewrite firstn_length; lia|]. split.
  - intros b b' Hb Hb'.
    rewrite (fsumn_ext Op m _ (fun i => (nth b sg fone *f nth b' sg fone) *f (gg U [i; b] *f gg U [i; b']))).
    + rewrite (fsumn_scale_l Op Rth). rewrite Horth by lia.
      destruct (Nat.eqb_spec b b') as [->|Hne]; [rewrite Hsg by assumption|]; ring.
    + intros i Hi. rewrite !HU' by assumption. ring.
  - intros b col Hb Hcol.
    rewrite (fsumn_ext Op m _ (fun i => fsum K (fun l =>
        nth b sg fone *f (nth l Sv fz *f gg V [l; col]) *f (gg U [i; b] *f gg U [i; l])))).
    + rewrite (fsumn_exchange Op Rth).
      rewrite (fsumn_ext Op K _ (fun l => (if Nat.eqb b l then fone else fz) *f
                 (nth b sg fone *f (nth l Sv fz *f gg V [l; col])))).
      * rewrite (fsumn_delta Op Rth) by lia. rewrite HV' by assumption.
        rewrite nth_firstn' by exact Hb. ring.
      * intros l Hl. rewrite (fsumn_scale_l Op Rth). rewrite Horth by lia. destruct (Nat.eqb b l); ring.
    + intros i Hi. rewrite HU' by assumption. rewrite <- (Hprod i col Hi Hcol).
      rewrite <- (fsumn_scale_l Op Rth). apply fsumn_ext. intros l _. ring.
Qed.

(* ------------------------------------------------------------------ the error of the loop *)
Variable svd : nat -> tensor F -> @svdans F.

(* squared distance between the working array W (shape (rk, sizes..., r0)) and the contraction of the cores *)
Definition err2 (sizes : list nat) (rk r0 : nat) (W : list F) (cores : list (tensor F)) : F :=
  fsum rk (fun a => sidx sizes (fun idx => fsum r0 (fun c =>
    sqf (nth ((a * prod sizes + ravel sizes idx) * r0 + c) W fz -f chain Op cores a idx c)))).

(* squared Frobenius norm of what one truncation discards: M - U' diag(S') V' *)
Definition disc (M U' : tensor F) (S' : list F) (V' : tensor F) (m n r : nat) : F :=
  fsum m (fun i => fsum n (fun col =>
    sqf (gg M [i; col] -f fsum r (fun b => gg U' [i; b] *f (nth b S' fz *f gg V' [b; col]))))).

Fixpoint loop_discard (k : nat) (sizes ranks : list nat) (rk r0 : nat) (W : list F) : F :=
  match sizes with
  | [] => fz
  | n :: rest =>
    match rest with
    | [] => fz
    | _ :: _ =>
      let n_row := rk * n in
      let n_col := prod rest * r0 in
      let r := Nat.min n_row (Nat.min n_col (hd 1 ranks)) in
      let M := mk [n_row; n_col] W in
      let '(U', S', V') := svd_interface Op (svd k M) r in
      disc M U' S' V' n_row n_col r +f loop_discard (S k) rest (tl ranks) r r0 (data (sv_mul Op S' V'))
    end
  end.

Definition loop_orth := loop_pred Op svd step_orth.

Lemma loop_discard_cons k n n2 rest2 ranks rk r0 W :
  loop_discard k (n :: n2 :: rest2) ranks rk r0 W =
  (let n_row := rk * n in
   let n_col := prod (n2 :: rest2) * r0 in
   let r := Nat.min n_row (Nat.min n_col (hd 1 ranks)) in
   let M := mk [n_row; n_col] W in
   let '(U', S', V') := svd_interface Op (svd k M) r in
   disc M U' S' V' n_row n_col r +f loop_discard (S k) (n2 :: rest2) (tl ranks) r r0 (data (sv_mul Op S' V'))).
Proof. reflexivity. Qed.

Theorem chain_loop_error_identity : forall sizes k ranks rk r0 W cores,
  loop_orth k sizes ranks rk r0 W ->
  chain_loop Op svd k sizes ranks rk r0 W = Ok cores ->
  err2 sizes rk r0 W cores = loop_discard k sizes ranks rk r0 W.
Proof.
  induction sizes as [|n rest IH]; intros k ranks rk r0 W cores Hok Hrun.
  - simpl in Hrun. discriminate.
  - destruct rest as [|n2 rest2].
    + (* last factor: no error *)
      assert (Hex := chain_loop_exact Op Rth svd [n] k ranks rk r0 W cores I Hrun).
      cbn [loop_discard]. unfold err2. apply (fsumn_zero Op Rth). intros a Ha.
      unfold sum_idx. apply (bigsum_zero F _ _ _ _ _ _ Rth). intros j Hj.
      apply (fsumn_zero Op Rth). intros c Hc.
      rewrite (Hex a (unravel [n] j) c Ha (unravel_inb _ _ Hj) Hc). unfold sq. ring.
    + rewrite loop_discard_cons. set (rest := n2 :: rest2) in *.
      cbn [chain_loop] in Hrun. unfold loop_orth in Hok. cbn [loop_pred] in Hok.
      fold rest in Hrun, Hok. cbv zeta in Hrun, Hok |- *.
      set (n_row := rk * n) in *. set (n_col := prod rest * r0) in *.
      set (r := Nat.min n_row (Nat.min n_col (hd 1 ranks))) in *.
      set (M := mk [n_row; n_col] W) in *.
      destruct Hok as [Hstep Hrest].
      pose proof (svd_interface_orth _ _ _ _ _ Hstep) as Hso.
      destruct (svd_interface Op (svd k M) r) as [[U' S'] V'] eqn:Esvd.
      destruct Hso as (HU' & HV' & HS' & Horth & HWp).
      destruct (fact_shapes_ok n_row n_col r (U', S', V')); [|discriminate].
      destruct (chain_loop Op svd (S k) rest (tl ranks) r r0 (data (sv_mul Op S' V'))) as [cs|] eqn:Ecs;
        [|discriminate].
      simpl in Hrun. injection Hrun as <-.
      rewrite <- (IH (S k) (tl ranks) r r0 _ cs Hrest Ecs).
      (* the reconstruction of the remainder as a function of the flat column index *)
      set (T := fun b col => chain Op cs b (unravel rest (col / r0)) (col mod r0)).
      assert (HT : forall b idx' c, inb rest idx' -> c < r0 ->
                chain Op cs b idx' c = T b (ravel rest idx' * r0 + c)).
      { intros b idx' c Hidx' Hc. unfold T.
        rewrite Nat.div_add_l by lia. rewrite Nat.div_small by exact Hc. rewrite Nat.add_0_r.
        rewrite Nat.add_comm, Nat.mod_add by lia. rewrite Nat.mod_small by exact Hc.
        rewrite unravel_ravel by exact Hidx'. reflexivity. }
      (* left-hand side as a double sum over (row, col) *)
      assert (HL : err2 (n :: rest) rk r0 W (reshape [rk; n; r] U' :: cs) =
                   fsum n_row (fun row => fsum n_col (fun col =>
                     sqf (gg M [row; col] -f fsum r (fun b => gg U' [row; b] *f T b col))))).
      { unfold err2. unfold n_row. rewrite fsumn_mul'. apply fsumn_ext. intros a Ha.
        rewrite (sum_idx_cons F _ _ _ _ _ _ Rth). apply fsumn_ext. intros i Hi.
        unfold n_col at 1. rewrite <- (sum_idx_cols rest r0 (fun col =>
           sqf (gg M [a * n + i; col] -f fsum r (fun b => gg U' [a * n + i; b] *f T b col)))).
        apply sum_idx_ext. intros idx' Hidx'. apply fsumn_ext. intros c Hc. f_equal. f_equal.
        - unfold M, g, get. cbn [shape data ravel prod fold_right]. f_equal.
          unfold n_col. fold rest. change (fold_right Nat.mul 1 rest) with (prod rest). ring.
        - rewrite (chain_cons Op). cbn [shape reshape nth]. apply fsumn_ext. intros b Hb. f_equal.
          + unfold g, get, reshape. cbn [shape data]. rewrite HU'. cbn [ravel prod fold_right]. f_equal. ring.
          + apply HT; assumption. }
      (* the error of the remainder as a double sum over (b, col) *)
      assert (HR : err2 rest r r0 (data (sv_mul Op S' V')) cs =
                   fsum r (fun b => fsum n_col (fun col =>
                     sqf (nth b S' fz *f gg V' [b; col] -f T b col)))).
      { unfold err2. apply fsumn_ext. intros b Hb.
        unfold n_col at 1. rewrite <- (sum_idx_cols rest r0 (fun col => sqf (nth b S' fz *f gg V' [b; col] -f T b col))).
        apply sum_idx_ext. intros idx' Hidx'. apply fsumn_ext. intros c Hc. f_equal. f_equal.
        - assert (Hcol : ravel rest idx' * r0 + c < n_col).
          { unfold n_col. pose proof (ravel_lt _ _ Hidx'). nia. }
          transitivity (gg (sv_mul Op S' V') [b; ravel rest idx' * r0 + c]).
          + unfold g, get. unfold sv_mul at 2. cbn [shape tabulate]. rewrite HV'.
            cbn [ravel prod fold_right]. f_equal. unfold n_col. ring.
          + unfold sv_mul. rewrite HV'. rewrite (g_tab2 Op) by assumption. reflexivity.
        - apply HT; assumption. }
      rewrite HL, HR.
      rewrite (pythagoras_mat Op Rth n_row n_col r (fun i b => gg U' [i; b]) (fun i col => gg M [i; col]) T Horth).
      cbv zeta. f_equal.
      * unfold disc. apply fsumn_ext. intros i Hi. apply fsumn_ext. intros col Hcol. f_equal. f_equal.
        apply fsumn_ext. intros b Hb. f_equal. apply HWp; assumption.
      * apply fsumn_ext. intros b Hb. apply fsumn_ext. intros col Hcol. f_equal. f_equal.
        apply HWp; assumption.
Qed.

(* tensor_train: the squared reconstruction error is the sum of the squared discarded parts *)
Definition tt_err2 (X : tensor F) (cores : list (tensor F)) : F :=
  sidx (shape X) (fun idx => sqf (gg X idx -f tt_entry Op cores idx)).

Definition tt_orth (X : tensor F) (rank : rank_spec) : Prop :=
  match validate_tt_rank (ndim X) rank with
  | Ok rk => loop_orth 0 (shape X) (tl rk) 1 1 (data X)
  | Err => True
  end.

Definition tt_discard (X : tensor F) (rank : rank_spec) : F :=
  match validate_tt_rank (ndim X) rank with
  | Ok rk => loop_discard 0 (shape X) (tl rk) 1 1 (data X)
  | Err => fz
  end.

Theorem tensor_train_error_identity X rank cores :
  tt_orth X rank -> tensor_train Op svd X rank = Ok cores -> tt_err2 X cores = tt_discard X rank.
Proof.
  unfold tt_orth, tensor_train, tt_discard, tt_err2.
  destruct (validate_tt_rank (ndim X) rank) as [rk|]; [|discriminate]. cbn [rbind]. intros Hok Hrun.
  destruct (ndim X <=? 1); [discriminate|].
  rewrite <- (chain_loop_error_identity _ _ _ _ _ _ _ Hok Hrun). unfold err2.
  transitivity (sidx (shape X) (fun idx => fsum 1 (fun c =>
     sqf (nth ((0 * prod (shape X) + ravel (shape X) idx) * 1 + c) (data X) fz -f chain Op cores 0 idx c)))).
  - apply sum_idx_ext. intros idx Hidx. unfold fsumn. cbn [bigsum]. unfold tt_entry, g, get.
    replace ((0 * prod (shape X) + ravel (shape X) idx) * 1 + 0) with (ravel (shape X) idx) by lia. ring.
  - unfold fsumn at 2. cbn [bigsum]. ring.
Qed.

End ErrId.
