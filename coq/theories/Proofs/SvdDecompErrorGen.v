(* C09: the TT-SVD error identity under the WEAKEST per-call contract its proof uses (every commutative ring): the KEPT columns
   of U are orthonormal and U_kept^T M = diag(S_kept) V_kept -- nothing about the discarded triplets, U and V may have different
   numbers of triplets, the answer need not multiply back to the query.  This covers answers that are already truncated
   (randomized_svd returns only n_eigenvecs triplets) and symeig_svd answers (U has dim_1 columns, V has dim_2 rows), for which
   step_orth (U diag(S) V = M over a common K) cannot hold.  step_orth implies step_proj, so the older identity is an instance. *)
From Coq Require Import List Arith Lia Bool Ring.
From TLV Require Import Base.Shape Base.PyList Base.Tensor Base.BigSum Base.Ops Model.Base Model.SvdDecomp
     Proofs.SvdDecompProofs Proofs.SvdDecompPyth Proofs.SvdDecompError.
Import ListNotations.

Section ErrGen.
Context {F : Type} (Op : fops F).
Hypothesis Rth : ring_theory (f0 Op) (f1 Op) (fadd Op) (fmul Op) (fsub Op) (fopp Op) (@eq F).
Add Ring Fr6g : Rth.
Notation fz := (f0 Op).
Notation fone := (f1 Op).
Infix "+f" := (fadd Op) (at level 50, left associativity).
Infix "-f" := (fsub Op) (at level 50, left associativity).
Infix "*f" := (fmul Op) (at level 40, left associativity).
Notation fsum := (fsumn Op).
Notation gg := (g Op).
Notation sidx := (sum_idx F fz (fadd Op)).
Notation sqf := (sq Op).

Definition step_proj (M : tensor F) (m n r : nat) (a : @svdans F) : Prop :=
  let '(U, Sv, V) := a in
  exists KU KV, r <= KU /\ r <= KV /\ shape U = [m; KU] /\ shape V = [KV; n] /\
    (forall j l, j < r -> l < r ->
       fsum m (fun i => gg U [i; j] *f gg U [i; l]) = if Nat.eqb j l then fone else fz) /\
    (forall b c, b < r -> c < n ->
       fsum m (fun i => gg U [i; b] *f gg M [i; c]) = nth b Sv fz *f gg V [b; c]) /\
    r <= length Sv /\
    Forall (sq1 Op) (flip_signs Op (cols_firstn Op r U)).

Lemma step_orth_proj M m n r a : step_orth Op M m n r a -> step_proj M m n r a.
Proof.
  destruct a as [[U Sv] V]. unfold step_orth, step_proj.
  intros (K & HrK & HU & HV & Horth & Hprod & HlenS & Hsq).
  exists K, K. repeat split; try assumption.
  - intros j l Hj Hl. apply Horth; lia.
  - intros b c Hb Hc.
    rewrite (fsumn_ext Op m _ (fun i => fsum K (fun l => (nth l Sv fz *f gg V [l; c]) *f (gg U [i; b] *f gg U [i; l])))).
    + rewrite (fsumn_exchange Op Rth).
      rewrite (fsumn_ext Op K _ (fun l => (if Nat.eqb b l then fone else fz) *f (nth l Sv fz *f gg V [l; c]))).
      * rewrite (fsumn_delta Op Rth) by lia. reflexivity.
      * intros l Hl. rewrite (fsumn_scale_l Op Rth). rewrite Horth by lia. destruct (Nat.eqb b l); ring.
    + intros i Hi. rewrite <- (Hprod i c Hi Hc).
      rewrite <- (fsumn_scale_l Op Rth). apply fsumn_ext. intros l _. ring.
Qed.

Lemma svd_interface_proj M m n r a : step_proj M m n r a ->
  let '(U', S', V') := svd_interface Op a r in
  shape U' = [m; r] /\ shape V' = [r; n] /\ length S' = r /\
  orthonormal_fun Op (fun i b => gg U' [i; b]) m r /\
  (forall b col, b < r -> col < n ->
     fsum m (fun i => gg U' [i; b] *f gg M [i; col]) = nth b S' fz *f gg V' [b; col]).
Proof.
  destruct a as [[U Sv] V]. unfold step_proj, svd_interface, truncated_svd, svd_flip.
  intros (KU & KV & HrKU & HrKV & HU & HV & Horth & Hproj & HlenS & Hsq).
  assert (EU : cols_firstn Op r U = tabulate [m; r] (fun idx => gg U idx)).
  { unfold cols_firstn, nrows, ncols. rewrite HU. simpl nth. now rewrite Nat.min_l by exact HrKU. }
  assert (EV : rows_firstn Op r V = tabulate [r; n] (fun idx => gg V idx)).
  { unfold rows_firstn, nrows, ncols. rewrite HV. simpl nth. now rewrite Nat.min_l by exact HrKV. }
  rewrite EU in *. rewrite EV.
  set (sg := flip_signs Op (tabulate [m; r] (fun idx => gg U idx))) in *.
  assert (Lsg : length sg = r). { unfold sg. rewrite flip_signs_length. reflexivity. }
  assert (Hsg : forall b, b < r -> nth b sg fone *f nth b sg fone = fone).
  { intros b Hb. rewrite Forall_forall in Hsq. apply (Hsq (nth b sg fone)). apply nth_In. lia. }
  assert (HU' : forall i b, i < m -> b < r ->
            gg (scale_cols Op (tabulate [m; r] (fun idx => gg U idx)) sg) [i; b] = gg U [i; b] *f nth b sg fone).
  { intros i b Hi Hb. unfold scale_cols. cbn [shape tabulate]. rewrite (g_tab2 Op) by assumption. cbv beta.
    rewrite (g_tab2 Op) by assumption. reflexivity. }
  assert (HV' : forall b c, b < r -> c < n ->
            gg (scale_rows Op (tabulate [r; n] (fun idx => gg V idx)) sg) [b; c] = gg V [b; c] *f nth b sg fone).
  { intros b c Hb Hc. unfold scale_rows. cbn [shape tabulate]. rewrite (g_tab2 Op) by assumption. cbv beta.
    rewrite (g_tab2 Op) by assumption. reflexivity. }
  split; [reflexivity|]. split; [reflexivity|]. split; [rewrite firstn_length; lia|]. split.
  - intros b b' Hb Hb'.
    rewrite (fsumn_ext Op m _ (fun i => (nth b sg fone *f nth b' sg fone) *f (gg U [i; b] *f gg U [i; b']))).
    + rewrite (fsumn_scale_l Op Rth). rewrite Horth by lia.
      destruct (Nat.eqb_spec b b') as [->|Hne]; [rewrite Hsg by assumption|]; ring.
    + intros i Hi. rewrite !HU' by assumption. ring.
  - intros b col Hb Hcol.
    rewrite (fsumn_ext Op m _ (fun i => nth b sg fone *f (gg U [i; b] *f gg M [i; col]))).
    + rewrite (fsumn_scale_l Op Rth). rewrite (Hproj b col Hb Hcol). rewrite HV' by assumption.
      rewrite nth_firstn' by exact Hb. ring.
    + intros i Hi. rewrite HU' by assumption. ring.
Qed.

Variable svd : nat -> tensor F -> @svdans F.

Definition loop_proj := loop_pred Op svd step_proj.

Local Notation err2 := (SvdDecompError.err2 Op).
Local Notation disc := (SvdDecompError.disc Op).
Local Notation loop_discard := (SvdDecompError.loop_discard Op svd).
Local Notation tt_err2 := (SvdDecompError.tt_err2 Op).
Local Notation tt_discard := (SvdDecompError.tt_discard Op svd).
Local Notation fsumn_mul' := (SvdDecompError.fsumn_mul' Op Rth).
Local Notation sum_idx_cols := (SvdDecompError.sum_idx_cols Op Rth).
Local Notation loop_discard_cons := (SvdDecompError.loop_discard_cons Op svd).

Lemma loop_orth_proj : forall sizes k ranks rk r0 W, loop_orth Op svd k sizes ranks rk r0 W -> loop_proj k sizes ranks rk r0 W.
Proof. apply loop_pred_impl. exact step_orth_proj. Qed.

Theorem chain_loop_error_identity_gen : forall sizes k ranks rk r0 W cores,
  loop_proj k sizes ranks rk r0 W ->
  chain_loop Op svd k sizes ranks rk r0 W = Ok cores ->
  err2 sizes rk r0 W cores = loop_discard k sizes ranks rk r0 W.
Proof.
  induction sizes as [|n rest IH]; intros k ranks rk r0 W cores Hok Hrun.
  - simpl in Hrun. discriminate.
  - destruct rest as [|n2 rest2].
    + (* last factor: no error *)
      assert (Hex := chain_loop_exact Op Rth svd [n] k ranks rk r0 W cores I Hrun).
      cbn [loop_discard]. unfold err2. apply (fsumn_zero Op Rth). intros a Ha.
      unfold sum_idx. apply (bigsum_zero F _ _ _ _ _ _ Rth). intros j Hj.
      apply (fsumn_zero Op Rth). intros c Hc.
      rewrite (Hex a (unravel [n] j) c Ha (unravel_inb _ _ Hj) Hc). unfold sq. ring.
    + rewrite loop_discard_cons. set (rest := n2 :: rest2) in *.
      cbn [chain_loop] in Hrun. unfold loop_proj in Hok. cbn [loop_pred] in Hok.
      fold rest in Hrun, Hok. cbv zeta in Hrun, Hok |- *.
      set (n_row := rk * n) in *. set (n_col := prod rest * r0) in *.
      set (r := Nat.min n_row (Nat.min n_col (hd 1 ranks))) in *.
      set (M := mk [n_row; n_col] W) in *.
      destruct Hok as [Hstep Hrest].
      pose proof (svd_interface_proj _ _ _ _ _ Hstep) as Hso.
      destruct (svd_interface Op (svd k M) r) as [[U' S'] V'] eqn:Esvd.
      destruct Hso as (HU' & HV' & HS' & Horth & HWp).
      destruct (fact_shapes_ok n_row n_col r (U', S', V')); [|discriminate].
      destruct (chain_loop Op svd (S k) rest (tl ranks) r r0 (data (sv_mul Op S' V'))) as [cs|] eqn:Ecs;
        [|discriminate].
      simpl in Hrun. injection Hrun as <-.
      rewrite <- (IH (S k) (tl ranks) r r0 _ cs Hrest Ecs).
      (* the reconstruction of the remainder as a function of the flat column index *)
      set (T := fun b col => chain Op cs b (unravel rest (col / r0)) (col mod r0)).
      assert (HT : forall b idx' c, inb rest idx' -> c < r0 ->
                chain Op cs b idx' c = T b (ravel rest idx' * r0 + c)).
      { intros b idx' c Hidx' Hc. unfold T.
        rewrite Nat.div_add_l by lia. rewrite Nat.div_small by exact Hc. rewrite Nat.add_0_r.
        rewrite Nat.add_comm, Nat.mod_add by lia. rewrite Nat.mod_small by exact Hc.
        rewrite unravel_ravel by exact Hidx'. reflexivity. }
      (* left-hand side as a double sum over (row, col) *)
      assert (HL : err2 (n :: rest) rk r0 W (reshape [rk; n; r] U' :: cs) =
                   fsum n_row (fun row => fsum n_col (fun col =>
                     sqf (gg M [row; col] -f fsum r (fun b => gg U' [row; b] *f T b col))))).
      { unfold err2. unfold n_row. rewrite fsumn_mul'. apply fsumn_ext. intros a Ha.
        rewrite (sum_idx_cons F _ _ _ _ _ _ Rth). apply fsumn_ext. intros i Hi.
        unfold n_col at 1. rewrite <- (sum_idx_cols rest r0 (fun col =>
           sqf (gg M [a * n + i; col] -f fsum r (fun b => gg U' [a * n + i; b] *f T b col)))).
        apply sum_idx_ext. intros idx' Hidx'. apply fsumn_ext. intros c Hc. f_equal. f_equal.
        - unfold M, g, get. cbn [shape data ravel prod fold_right]. f_equal.
          unfold n_col. fold rest. change (fold_right Nat.mul 1 rest) with (prod rest). ring.
        - rewrite (chain_cons Op). cbn [shape reshape nth]. apply fsumn_ext. intros b Hb. f_equal.
          + unfold g, get, reshape. cbn [shape data]. rewrite HU'. cbn [ravel prod fold_right]. f_equal. ring.
          + apply HT; assumption. }
      (* the error of the remainder as a double sum over (b, col) *)
      assert (HR : err2 rest r r0 (data (sv_mul Op S' V')) cs =
                   fsum r (fun b => fsum n_col (fun col =>
                     sqf (nth b S' fz *f gg V' [b; col] -f T b col)))).
      { unfold err2. apply fsumn_ext. intros b Hb.
        unfold n_col at 1. rewrite <- (sum_idx_cols rest r0 (fun col => sqf (nth b S' fz *f gg V' [b; col] -f T b col))).
        apply sum_idx_ext. intros idx' Hidx'. apply fsumn_ext. intros c Hc. f_equal. f_equal.
        - assert (Hcol : ravel rest idx' * r0 + c < n_col).
          { unfold n_col. pose proof (ravel_lt _ _ Hidx'). nia. }
          transitivity (gg (sv_mul Op S' V') [b; ravel rest idx' * r0 + c]).
          + unfold g, get. unfold sv_mul at 2. cbn [shape tabulate]. rewrite HV'.
            cbn [ravel prod fold_right]. f_equal. unfold n_col. ring.
          + unfold sv_mul. rewrite HV'. rewrite (g_tab2 Op) by assumption. reflexivity.
        - apply HT; assumption. }
      rewrite HL, HR.
      rewrite (pythagoras_mat Op Rth n_row n_col r (fun i b => gg U' [i; b]) (fun i col => gg M [i; col]) T Horth).
      cbv zeta. f_equal.
      * unfold disc. apply fsumn_ext. intros i Hi. apply fsumn_ext. intros col Hcol. f_equal. f_equal.
        apply fsumn_ext. intros b Hb. f_equal. apply HWp; assumption.
      * apply fsumn_ext. intros b Hb. apply fsumn_ext. intros col Hcol. f_equal. f_equal.
        apply HWp; assumption.
Qed.

Definition tt_proj (X : tensor F) (rank : rank_spec) : Prop :=
  match validate_tt_rank (ndim X) rank with
  | Ok rk => loop_proj 0 (shape X) (tl rk) 1 1 (data X)
  | Err => True
  end.

Lemma tt_orth_proj X rank : tt_orth Op svd X rank -> tt_proj X rank.
Proof. unfold tt_orth, tt_proj. destruct (validate_tt_rank (ndim X) rank); [apply loop_orth_proj | trivial]. Qed.

Theorem tensor_train_error_identity_gen X rank cores :
  tt_proj X rank -> tensor_train Op svd X rank = Ok cores -> tt_err2 X cores = tt_discard X rank.
Proof.
  unfold tt_proj, tensor_train, tt_discard, tt_err2.
  destruct (validate_tt_rank (ndim X) rank) as [rk|]; [|discriminate]. cbn [rbind]. intros Hok Hrun.
  destruct (ndim X <=? 1); [discriminate|].
  rewrite <- (chain_loop_error_identity_gen _ _ _ _ _ _ _ Hok Hrun). unfold err2.
  transitivity (sidx (shape X) (fun idx => fsum 1 (fun c =>
     sqf (nth ((0 * prod (shape X) + ravel (shape X) idx) * 1 + c) (data X) fz -f chain Op cores 0 idx c)))).
  - apply sum_idx_ext. intros idx Hidx. unfold fsumn. cbn [bigsum]. unfold tt_entry, g, get.
    replace ((0 * prod (shape X) + ravel (shape X) idx) * 1 + 0) with (ravel (shape X) idx) by lia. ring.
  - unfold fsumn at 2. cbn [bigsum]. ring.
Qed.

End ErrGen.
