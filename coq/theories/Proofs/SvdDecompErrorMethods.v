(* C09: the TT-SVD error identity for runs whose SVD answers come from randomized_svd (Model/SvdDecompRand.v), over R.
   A randomized_svd answer is ALREADY truncated to n_eigenvecs triplets, so "U diag(S) V = M" (step_orth) fails whenever the
   call truncates; the weaker contract step_proj of Proofs/SvdDecompErrorGen.v (kept columns of U orthonormal, U_kept^T M =
   diag(S_kept) V_kept) holds:
     direct branch      U = Q U_in : Q^T Q = I, kept columns of U_in orthonormal, U_in^T (Q^T M) = diag(S) V_in on the kept rows
                        -- NO range-capture hypothesis: the reduced matrix Q^T M is what the model computes;
     transposed branch  V = V_in Q^T : kept columns of U_in orthonormal, U_in^T (M Q) = diag(S) V_in on the kept rows and
                        (M Q) Q^T = M (the range finder captured the row space). *)
From Coq Require Import List Arith Lia Bool Reals Lra RealField.
From TLV Require Import Base.Shape Base.PyList Base.Tensor Base.BigSum Base.Ops Model.Base Model.SvdDecomp Model.SvdDecompSymeig
     Model.SvdDecompRand Proofs.SvdDecompProofs Proofs.SvdDecompProofsR Proofs.SvdDecompPyth Proofs.SvdDecompError
     Proofs.SvdDecompErrorGen Proofs.SvdDecompSymeig Proofs.SvdDecompTTUpper Proofs.SvdDecompRand Proofs.SvdDecompPartial Proofs.SvdDecompMethodsTucker Proofs.SvdDecompRing Proofs.SvdDecompRingErr Proofs.SvdDecompRingErrGen Proofs.SvdDecompSymeigRing.
Import ListNotations.
Local Open Scope R_scope.

(* kept columns orthonormal => their svd_flip signs are +-1 *)
Lemma kept_cols_sq1 (U : tensor R) (m K r : nat) : shape U = [m; K] -> (r <= K)%nat ->
  (forall j l, (j < r)%nat -> (l < r)%nat -> sumR m (fun i => gR U [i; j] * gR U [i; l]) = if Nat.eqb j l then 1 else 0) ->
  Forall (sq1 Rops) (flip_signs Rops (cols_firstn Rops r U)).
Proof.
  intros HU HrK Horth.
  assert (EU : cols_firstn Rops r U = tabulate [m; r] (fun idx => gR U idx)).
  { unfold cols_firstn, nrows, ncols. rewrite HU. cbn [nth]. now rewrite Nat.min_l by exact HrK. }
  rewrite EU. apply flip_signs_sq1. intros j Hj.
  destruct (sumR_nonzero_exists m (fun i => gR U [i; j] * gR U [i; j])) as (i & Hi & Hne).
  - rewrite Horth by lia. rewrite Nat.eqb_refl. lra.
  - exists i. split; [exact Hi|]. intros E. apply Hne. rewrite E. lra.
Qed.

Lemma rand_step_proj_direct (M Q red U' V' : tensor R) (S' : list R) (m n k r KU KV : nat) :
  shape Q = [m; k] -> shape U' = [k; KU] -> shape V' = [KV; n] -> (r <= KU)%nat -> (r <= KV)%nat -> (r <= length S')%nat ->
  orthonormal_fun Rops (fun i a => gR Q [i; a]) m k ->
  (forall j l, (j < r)%nat -> (l < r)%nat -> sumR k (fun a => gR U' [a; j] * gR U' [a; l]) = if Nat.eqb j l then 1 else 0) ->
  (forall a c, (a < k)%nat -> (c < n)%nat -> gR red [a; c] = sumR m (fun i => gR Q [i; a] * gR M [i; c])) ->
  (forall b c, (b < r)%nat -> (c < n)%nat -> sumR k (fun a => gR U' [a; b] * gR red [a; c]) = nth b S' 0 * gR V' [b; c]) ->
  step_proj Rops M m n r (matmul Rops Q U', S', V').
Proof.
  intros HQ HU HV HrU HrV HrS OQ OU Hred Hin. unfold step_proj.
  assert (HQU : shape (matmul Rops Q U') = [m; KU]) by (now apply (shape_matmul _ _ m k KU)).
  assert (Horth : forall j l, (j < r)%nat -> (l < r)%nat ->
            sumR m (fun i => gR (matmul Rops Q U') [i; j] * gR (matmul Rops Q U') [i; l]) = if Nat.eqb j l then 1 else 0).
  { intros j l Hj Hl.
    transitivity (sumR m (fun i => sumR k (fun a => gR Q [i; a] * gR U' [a; j]) * sumR k (fun a => gR Q [i; a] * gR U' [a; l]))).
    { apply sumR_ext. intros i Hi. rewrite !(g_matmul _ _ m k KU) by (first [assumption | lia]). reflexivity. }
    rewrite (frame_inner m k (fun i a => gR Q [i; a]) (fun a => gR U' [a; j]) (fun a => gR U' [a; l]) OQ).
    now apply OU. }
  exists KU, KV. split; [exact HrU|]. split; [exact HrV|]. split; [exact HQU|]. split; [exact HV|].
  split; [exact Horth|]. split; [|split; [exact HrS | exact (kept_cols_sq1 _ m KU r HQU HrU Horth)]].
  intros b c Hb Hc. cbn [fmul f0 Rops]. rewrite <- (Hin b c Hb Hc).
  transitivity (sumR m (fun i => sumR k (fun a => gR U' [a; b] * (gR Q [i; a] * gR M [i; c])))).
  { apply sumR_ext. intros i Hi. rewrite (g_matmul _ _ m k KU) by (first [assumption | lia]).
    rewrite <- sumR_scal_r. apply sumR_ext. intros a Ha. ring. }
  rewrite sumR_exch. apply sumR_ext. intros a Ha. rewrite sumR_scal_l. rewrite (Hred a c Ha Hc). reflexivity.
Qed.

Lemma rand_step_proj_transposed (M Q red U' V' : tensor R) (S' : list R) (m n k r KU KV : nat) :
  shape Q = [n; k] -> shape U' = [m; KU] -> shape V' = [KV; k] -> (r <= KU)%nat -> (r <= KV)%nat -> (r <= length S')%nat ->
  (forall j l, (j < r)%nat -> (l < r)%nat -> sumR m (fun i => gR U' [i; j] * gR U' [i; l]) = if Nat.eqb j l then 1 else 0) ->
  (forall b a, (b < r)%nat -> (a < k)%nat -> sumR m (fun i => gR U' [i; b] * gR red [i; a]) = nth b S' 0 * gR V' [b; a]) ->
  (forall i c, (i < m)%nat -> (c < n)%nat -> sumR k (fun a => gR red [i; a] * gR Q [c; a]) = gR M [i; c]) ->
  step_proj Rops M m n r (U', S', matmul Rops V' (mtrans Rops Q)).
Proof.
  intros HQ HU HV HrU HrV HrS OU Hin Hcap. unfold step_proj.
  assert (HQt : shape (mtrans Rops Q) = [k; n]) by (now apply shape_mtrans).
  assert (HVQ : shape (matmul Rops V' (mtrans Rops Q)) = [KV; n]) by (now apply (shape_matmul _ _ KV k n)).
  exists KU, KV. split; [exact HrU|]. split; [exact HrV|]. split; [exact HU|]. split; [exact HVQ|].
  split; [exact OU|]. split; [|split; [exact HrS | exact (kept_cols_sq1 _ m KU r HU HrU OU)]].
  intros b c Hb Hc. cbn [fmul f0 Rops].
  rewrite (g_matmul _ _ KV k n) by (first [assumption | lia]).
  transitivity (sumR m (fun i => sumR k (fun a => gR U' [i; b] * gR red [i; a] * gR Q [c; a]))).
  { apply sumR_ext. intros i Hi. rewrite <- (Hcap i c Hi Hc). rewrite <- sumR_scal_l. apply sumR_ext. intros a Ha. ring. }
  rewrite sumR_exch. rewrite <- sumR_scal_l. apply sumR_ext. intros a Ha.
  rewrite sumR_scal_r. rewrite (Hin b a Hb Ha). rewrite (g_mtrans _ n k) by assumption. ring.
Qed.

(* what is assumed about one randomized_svd call of the model for the error identity *)
Definition rand_call_proj_ok (M : tensor R) (m n r : nat) (a : @svdans R) : Prop :=
  exists qr inner Omega ne n_over n_iter,
    a = randomized_svd Rops qr inner M Omega ne n_over n_iter /\ shape M = [m; n] /\
    let ne' := rand_n_eigenvecs m n ne in
    if rand_transposed m n ne' (rand_n_dims m n ne n_over) then
      let Q := range_finder Rops qr (mtrans Rops M) Omega n_iter in
      let red := mtrans Rops (matmul Rops (mtrans Rops Q) (mtrans Rops M)) in
      let '(U', S', V') := truncated_svd Rops (inner red) ne' in
      exists k KU KV, shape Q = [n; k] /\ shape U' = [m; KU] /\ shape V' = [KV; k] /\
        (r <= KU)%nat /\ (r <= KV)%nat /\ (r <= length S')%nat /\
        (forall j l, (j < r)%nat -> (l < r)%nat -> sumR m (fun i => gR U' [i; j] * gR U' [i; l]) = if Nat.eqb j l then 1 else 0) /\
        (forall b a', (b < r)%nat -> (a' < k)%nat -> sumR m (fun i => gR U' [i; b] * gR red [i; a']) = nth b S' 0 * gR V' [b; a']) /\
        (forall i c, (i < m)%nat -> (c < n)%nat -> sumR k (fun a' => gR red [i; a'] * gR Q [c; a']) = gR M [i; c])
    else
      let Q := range_finder Rops qr M Omega n_iter in
      let red := matmul Rops (mtrans Rops Q) M in
      let '(U', S', V') := truncated_svd Rops (inner red) ne' in
      exists k KU KV, shape Q = [m; k] /\ shape U' = [k; KU] /\ shape V' = [KV; n] /\
        (r <= KU)%nat /\ (r <= KV)%nat /\ (r <= length S')%nat /\
        orthonormal_fun Rops (fun i a' => gR Q [i; a']) m k /\
        (forall j l, (j < r)%nat -> (l < r)%nat -> sumR k (fun a' => gR U' [a'; j] * gR U' [a'; l]) = if Nat.eqb j l then 1 else 0) /\
        (forall b c, (b < r)%nat -> (c < n)%nat -> sumR k (fun a' => gR U' [a'; b] * gR red [a'; c]) = nth b S' 0 * gR V' [b; c]).

Theorem rand_call_proj_ok_step_proj M m n r a : rand_call_proj_ok M m n r a -> step_proj Rops M m n r a.
Proof.
  intros (qr & inner & Omega & ne & n_over & n_iter & -> & HM & H). cbv zeta in H.
  unfold randomized_svd, nrows, ncols. rewrite HM. cbn [nth]. cbv zeta.
  destruct (rand_transposed m n (rand_n_eigenvecs m n ne) (rand_n_dims m n ne n_over)).
  - destruct (truncated_svd Rops _ _) as [[U' S'] V'].
    destruct H as (k & KU & KV & HQ & HU & HV & HrU & HrV & HrS & OU & Hin & Hcap).
    exact (rand_step_proj_transposed M _ _ U' V' S' m n k r KU KV HQ HU HV HrU HrV HrS OU Hin Hcap).
  - destruct (truncated_svd Rops _ _) as [[U' S'] V'].
    destruct H as (k & KU & KV & HQ & HU & HV & HrU & HrV & HrS & OQ & OU & Hin).
    refine (rand_step_proj_direct M _ _ U' V' S' m n k r KU KV HQ HU HV HrU HrV HrS OQ OU _ Hin).
    intros a' c Ha Hc.
    rewrite (g_matmul _ _ k m n) by (first [assumption | now apply shape_mtrans]).
    apply sumR_ext. intros i Hi. rewrite (g_mtrans _ m k) by assumption. reflexivity.
Qed.

(* TT-SVD whose every SVD answer is a randomized_svd answer meeting rand_call_proj_ok: squared error = sum over the steps of the
   squared Frobenius norm of what the step leaves out (M_k - U_k diag(S_k) V_k), every order / rank request *)
Theorem tensor_train_randomized_error_identity (svd : nat -> tensor R -> @svdans R) (X : tensor R) (rank : rank_spec)
  (cores : list (tensor R)) :
  match validate_tt_rank (ndim X) rank with
  | Ok rk => loop_pred Rops svd rand_call_proj_ok 0 (shape X) (tl rk) 1 1 (data X)
  | Err => True
  end ->
  tensor_train Rops svd X rank = Ok cores -> tt_err2 Rops X cores = tt_discard Rops svd X rank.
Proof.
  intros H. apply (tensor_train_error_identity_gen Rops Rops_ring svd). unfold tt_proj, loop_proj.
  destruct (validate_tt_rank (ndim X) rank) as [rk|]; [|exact I].
  exact (loop_pred_impl Rops svd _ _ rand_call_proj_ok_step_proj _ _ _ _ _ _ H).
Qed.

(* tensor_ring (every start mode) whose every SVD answer is a randomized_svd answer meeting rand_call_proj_ok: squared error = what the
   first call leaves out of the first unfolding + what the loop's calls leave out of their working unfoldings *)
Theorem tensor_ring_randomized_error_identity (svd : nat -> tensor R -> @svdans R) (X : tensor R) (rank : rank_spec) (mode : nat)
  (cores : list (tensor R)) :
  tr_pred Rops svd rand_call_proj_ok X rank mode ->
  tensor_ring Rops svd X rank mode = Ok cores -> tr_err2 Rops X cores = tr_discard Rops svd X rank mode.
Proof.
  intros H. apply (tensor_ring_error_identity_gen Rops Rops_ring svd).
  revert H. unfold tr_pred, tr_proj. cbv zeta. destruct (validate_tr_rank (ndim X) rank) as [rk0|]; [|trivial].
  exact (tr_core_pred_impl Rops svd _ _ rand_call_proj_ok_step_proj _ _).
Qed.

(* ------------------------------------------------------------------ symeig_svd, branch dim_1 > dim_2 *)
(* U = eigh's W (m x m, columns flipped), S = the n largest clipped square roots, V = the first n rows of (M^T (W / s))^T flipped:
   U has m columns and V only n < m rows, so step_orth cannot even be stated; step_proj holds as soon as the columns of W are
   orthonormal and the clipped square roots are non-zero -- the eigen-equation is not needed, nor anything on the discarded part *)
Theorem symeig_tall_step_proj (M W : tensor R) (s : list R) (m n r : nat) :
  shape M = [m; n] -> shape W = [m; m] -> length s = m -> (n < m)%nat -> (r <= n)%nat ->
  (forall l, (l < m)%nat -> nth l s 0 <> 0) ->
  (forall j l, (j < m)%nat -> (l < m)%nat -> sumR m (fun i => gR W [i; j] * gR W [i; l]) = if Nat.eqb j l then 1 else 0) ->
  step_proj Rops M m n r (symeig_ans Rops M W s).
Proof.
  intros HM HW Hs Hnm Hrn Hnz Ocol.
  unfold symeig_ans, symeig_raw. unfold nrows at 1 2 3, ncols at 1 2 3. rewrite HM. cbn [nth].
  assert (E : (n <? m) = true) by (apply Nat.ltb_lt; exact Hnm). rewrite E.
  set (DW := div_cols Rops W s). set (V0 := matmul Rops (mtrans Rops M) DW).
  assert (HDW : shape DW = [m; m]) by (unfold DW, div_cols; cbn [shape tabulate]; exact HW).
  assert (HMt : shape (mtrans Rops M) = [n; m]) by (now apply shape_mtrans).
  assert (HV0 : shape V0 = [n; m]) by (unfold V0; now apply (shape_matmul _ _ n m m)).
  assert (HV0t : shape (mtrans Rops V0) = [m; n]) by (now apply shape_mtrans).
  assert (HFV : shape (flip_rows Rops (mtrans Rops V0)) = [m; n]) by (unfold flip_rows; cbn [shape tabulate]; exact HV0t).
  assert (HFW : shape (flip_cols Rops W) = [m; m]) by (unfold flip_cols; cbn [shape tabulate]; exact HW).
  assert (HUs : shape (cols_firstn Rops m (flip_cols Rops W)) = [m; m]).
  { unfold cols_firstn, nrows, ncols. rewrite HFW. cbn [nth shape tabulate]. now rewrite Nat.min_id. }
  assert (HVs : shape (rows_firstn Rops n (flip_rows Rops (mtrans Rops V0))) = [n; n]).
  { unfold rows_firstn, nrows, ncols. rewrite HFV. cbn [nth shape tabulate]. now rewrite Nat.min_l by lia. }
  assert (gU : forall i b, (i < m)%nat -> (b < m)%nat ->
            gR (cols_firstn Rops m (flip_cols Rops W)) [i; b] = gR W [i; (m - 1 - b)%nat]).
  { intros i b Hi Hb. rewrite (g_cols_firstn _ m m m) by (first [exact HFW | exact Hi | rewrite Nat.min_id; exact Hb]).
    now rewrite (g_flip_cols _ m m) by assumption. }
  assert (Horth : forall j l, (j < r)%nat -> (l < r)%nat ->
            sumR m (fun i => gR (cols_firstn Rops m (flip_cols Rops W)) [i; j] * gR (cols_firstn Rops m (flip_cols Rops W)) [i; l])
            = if Nat.eqb j l then 1 else 0).
  { intros j l Hj Hl.
    transitivity (sumR m (fun i => gR W [i; (m - 1 - j)%nat] * gR W [i; (m - 1 - l)%nat])).
    { apply sumR_ext. intros i Hi. rewrite !gU by (first [assumption | lia]). reflexivity. }
    rewrite Ocol by lia. destruct (Nat.eqb_spec j l) as [->|Hne]; [now rewrite Nat.eqb_refl|].
    destruct (Nat.eqb_spec (m - 1 - j) (m - 1 - l)); [lia | reflexivity]. }
  unfold step_proj. exists m, n. split; [lia|]. split; [exact Hrn|]. split; [exact HUs|]. split; [exact HVs|].
  split; [exact Horth|]. split; [|split].
  - intros b c Hb Hc. cbn [fmul f0 Rops].
    assert (Hbm : (b < m)%nat) by lia. assert (Hb' : (m - 1 - b < m)%nat) by lia.
    rewrite nth_firstn' by lia. rewrite rev_nth by (rewrite Hs; exact Hbm). rewrite Hs.
    replace (m - S b)%nat with (m - 1 - b)%nat by lia.
    rewrite (g_rows_firstn _ n m n) by (first [exact HFV | exact Hc | lia]).
    rewrite (g_flip_rows _ m n) by (first [exact HV0t | exact Hbm | exact Hc]).
    rewrite (g_mtrans _ n m) by (first [exact HV0 | exact Hb' | exact Hc]).
    unfold V0. rewrite (g_matmul _ _ n m m) by assumption.
    pose proof (Hnz _ Hb') as Hne.
    rewrite <- sumR_scal_l. apply sumR_ext. intros j Hj.
    rewrite gU by assumption.
    rewrite (g_mtrans _ m n) by assumption. unfold DW. rewrite (g_div_cols _ _ m m) by assumption.
    rewrite (nth_indep s 1 0) by (rewrite Hs; exact Hb'). field. exact Hne.
  - rewrite firstn_length, rev_length, Hs. lia.
  - exact (kept_cols_sq1 _ m m r HUs ltac:(lia) Horth).
Qed.

(* ------------------------------------------------------------------ non-vacuity of step_proj beyond step_orth *)
(* M = diag(2, 1) and the ALREADY truncated answer ([e0], [2], [e0^T]) with r = 1: step_proj holds, step_orth does not
   (the answer does not multiply back to M) *)
Definition projU : tensor R := mk [2; 1]%nat [1; 0].
Definition projV : tensor R := mk [1; 2]%nat [1; 0].

Example step_proj_truncated_answer :
  step_proj Rops ey_M 2 2 1 (projU, [2], projV) /\ ~ step_orth Rops ey_M 2 2 1 (projU, [2], projV).
Proof.
  split.
  - unfold step_proj. exists 1%nat, 1%nat. split; [lia|]. split; [lia|]. split; [reflexivity|]. split; [reflexivity|].
    assert (Horth : forall j l, (j < 1)%nat -> (l < 1)%nat ->
              sumR 2 (fun i => gR projU [i; j] * gR projU [i; l]) = if Nat.eqb j l then 1 else 0).
    { intros j l Hj Hl. assert (j = 0%nat) by lia. assert (l = 0%nat) by lia. subst. unfold fsumn, g, get; cbn; lra. }
    split; [exact Horth|]. split; [|split; [cbn; lia | exact (kept_cols_sq1 projU 2 1 1 eq_refl (le_n 1) Horth)]].
    intros b c Hb Hc. assert (b = 0%nat) by lia. subst.
    assert (Ec : c = 0%nat \/ c = 1%nat) by lia. destruct Ec as [-> | ->]; unfold fsumn, g, get; cbn; lra.
  - unfold step_orth. intros (K & _ & HU & _ & _ & Hprod & _).
    assert (K = 1%nat) by (unfold projU in HU; cbn [shape] in HU; congruence). subst K.
    specialize (Hprod 1%nat 1%nat ltac:(lia) ltac:(lia)). unfold fsumn, g, get in Hprod. cbn in Hprod. lra.
Qed.

(* the hypotheses of symeig_tall_step_proj on the 2 x 1 matrix (3, 4)^T with eigh's W = exW (a genuine rotation) and clipped square roots
   (1, 1): hence step_proj for the model's symeig answer -- an answer with 2 columns in U and 1 row in V *)
Example symeig_tall_step_proj_satisfiable : step_proj Rops tallM 2 1 1 (symeig_ans Rops tallM exW [1; 1]).
Proof.
  apply symeig_tall_step_proj; try reflexivity; try lia.
  - intros l Hl. destruct l as [|[|l]]; [| |lia]; cbn; lra.
  - intros j l Hj Hl. destruct j as [|[|j]]; [| |lia]; (destruct l as [|[|l]]; [| |lia]);
      unfold fsumn, g, get, exW; cbn; lra.
Qed.
