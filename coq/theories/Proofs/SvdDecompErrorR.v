(* C09, TT-SVD error over the reals.  Under the full SVD contract of LAPACK's reduced SVD (orthonormal
   columns of U, orthonormal rows of Vh, U diag(S) Vh = query, K = length S triplets):
     - the squared TT-SVD error is the sum over the steps of the discarded squared singular values of
       the working unfoldings (tt_error_sigma_R, a full theorem);
     - it is at least every single one of these discarded tails, in particular the discarded tail of
       the first unfolding of X itself (full);
     - it is at most the sum of any per-step bounds on these tails; with the bounds instantiated by the
       discarded tails of the sequential unfoldings of X this is the classical sqrt(sum of tails) bound,
       whose premise (tail of the k-th working unfolding <= tail of the k-th unfolding of X) is
       Eckart-Young + the projection argument and stays a named hypothesis (_partial). *)
From Coq Require Import List Arith Lia Bool Reals Lra RealField.
From TLV Require Import Base.Shape Base.PyList Base.Tensor Base.BigSum Base.Ops Model.Base Model.SvdDecomp
     Proofs.SvdDecompProofs Proofs.SvdDecompProofsR Proofs.SvdDecompPyth Proofs.SvdDecompError Proofs.SvdDecompTails.
Import ListNotations.
Local Open Scope R_scope.

Lemma sumR_nonneg n f : (forall i, (i < n)%nat -> 0 <= f i) -> 0 <= sumR n f.
Proof.
  induction n; intros H; [unfold fsumn; simpl; lra|].
  rewrite (fsumn_S Rops). cbn [fadd Rops]. specialize (H n (Nat.lt_succ_diag_r n)) as Hn.
  assert (0 <= sumR n f) by (apply IHn; intros; apply H; lia). lra.
Qed.

Lemma sq_nonneg x : 0 <= sq Rops x.
Proof. unfold sq. cbn [fmul Rops]. nra. Qed.

Lemma tail2_nonneg r Sv : 0 <= tail2 Rops r Sv.
Proof.
  unfold tail2. apply sumR_nonneg. intros l _. destruct (r <=? l)%nat; [apply sq_nonneg | cbn; lra].
Qed.

(* the full contract over R: no separate condition on the sign multipliers *)
Definition svd_full_contract (M : tensor R) (m n r : nat) (a : @svdans R) : Prop :=
  let '(U, Sv, V) := a in
  let K := length Sv in
  (r <= K)%nat /\ shape U = [m; K] /\ shape V = [K; n] /\
  (forall j l, (j < K)%nat -> (l < K)%nat ->
     sumR m (fun i => gR U [i; j] * gR U [i; l]) = if Nat.eqb j l then 1 else 0) /\
  (forall j l, (j < K)%nat -> (l < K)%nat ->
     sumR n (fun c => gR V [j; c] * gR V [l; c]) = if Nat.eqb j l then 1 else 0) /\
  (forall i c, (i < m)%nat -> (c < n)%nat ->
     sumR K (fun l => gR U [i; l] * (nth l Sv 0 * gR V [l; c])) = gR M [i; c]).

Lemma svd_full_contract_step_full M m n r a : svd_full_contract M m n r a -> step_full Rops M m n r a.
Proof.
  destruct a as [[U Sv] V]. unfold svd_full_contract, step_full. cbv zeta.
  intros (HrK & HU & HV & HorthU & HorthV & Hprod). repeat split; try assumption.
  assert (EU : cols_firstn Rops r U = tabulate [m; r] (fun idx => gR U idx)).
  { unfold cols_firstn, nrows, ncols. rewrite HU. cbn [nth]. now rewrite Nat.min_l by exact HrK. }
  rewrite EU. apply flip_signs_sq1. intros j Hj.
  destruct (sumR_nonzero_exists m (fun i => gR U [i; j] * gR U [i; j])) as (i & Hi & Hne).
  - rewrite HorthU by lia. rewrite Nat.eqb_refl. lra.
  - exists i. split; [exact Hi|]. intros E. apply Hne. rewrite E. lra.
Qed.

Section Run.
Variable svd : nat -> tensor R -> @svdans R.

(* the discarded squared singular values, step by step *)
Fixpoint loop_tail_list (k : nat) (sizes ranks : list nat) (rk r0 : nat) (W : list R) : list R :=
  match sizes with
  | [] => []
  | n :: rest =>
    match rest with
    | [] => []
    | _ :: _ =>
      let n_row := (rk * n)%nat in
      let n_col := (prod rest * r0)%nat in
      let r := Nat.min n_row (Nat.min n_col (hd 1%nat ranks)) in
      let M := mk [n_row; n_col] W in
      let '(_, Sv, _) := svd k M in
      let '(U', S', V') := svd_interface Rops (svd k M) r in
      tail2 Rops r Sv :: loop_tail_list (S k) rest (tl ranks) r r0 (data (sv_mul Rops S' V'))
    end
  end.

Definition Rsum (l : list R) : R := fold_right Rplus 0 l.

Lemma loop_tail_list_cons k n n2 rest2 ranks rk r0 W :
  loop_tail_list k (n :: n2 :: rest2) ranks rk r0 W =
  (let n_row := (rk * n)%nat in
   let n_col := (prod (n2 :: rest2) * r0)%nat in
   let r := Nat.min n_row (Nat.min n_col (hd 1%nat ranks)) in
   let M := mk [n_row; n_col] W in
   let '(_, Sv, _) := svd k M in
   let '(U', S', V') := svd_interface Rops (svd k M) r in
   tail2 Rops r Sv :: loop_tail_list (S k) (n2 :: rest2) (tl ranks) r r0 (data (sv_mul Rops S' V'))).
Proof. reflexivity. Qed.

Lemma loop_tails_list : forall sizes k ranks rk r0 W,
  loop_tails Rops svd k sizes ranks rk r0 W = Rsum (loop_tail_list k sizes ranks rk r0 W).
Proof.
  induction sizes as [|n rest IH]; intros k ranks rk r0 W; [reflexivity|].
  destruct rest as [|n2 rest2]; [reflexivity|].
  rewrite loop_tails_cons, loop_tail_list_cons. cbv zeta.
  destruct (svd k _) as [[U Sv] V]. destruct (svd_interface Rops (U, Sv, V) _) as [[U' S'] V'].
  cbn [Rsum fold_right]. rewrite IH. reflexivity.
Qed.

Lemma loop_tail_list_nonneg : forall sizes k ranks rk r0 W,
  Forall (fun t => 0 <= t) (loop_tail_list k sizes ranks rk r0 W).
Proof.
  induction sizes as [|n rest IH]; intros k ranks rk r0 W; [constructor|].
  destruct rest as [|n2 rest2]; [constructor|].
  rewrite loop_tail_list_cons. cbv zeta.
  destruct (svd k _) as [[U Sv] V]. destruct (svd_interface Rops (U, Sv, V) _) as [[U' S'] V'].
  constructor; [apply tail2_nonneg | apply IH].
Qed.

Lemma Rsum_ge_each l : Forall (fun t => 0 <= t) l -> forall t, In t l -> t <= Rsum l.
Proof.
  induction 1 as [|x l Hx Hl IH]; intros t Ht; [destruct Ht|].
  assert (0 <= Rsum l).
  { clear IH Ht. induction Hl; cbn [Rsum fold_right]; [lra|]. fold (Rsum l). lra. }
  cbn [Rsum fold_right]. fold (Rsum l). destruct Ht as [<-|Ht]; [lra|]. specialize (IH t Ht). lra.
Qed.

Lemma Rsum_le l : forall bs, Forall2 Rle l bs -> Rsum l <= Rsum bs.
Proof. induction 1; cbn [Rsum fold_right]; [lra|]. fold (Rsum l). fold (Rsum l'). lra. Qed.

Definition loop_full_R := loop_pred Rops svd svd_full_contract.

Lemma loop_full_R_full sizes k ranks rk r0 W :
  loop_full_R k sizes ranks rk r0 W -> loop_full Rops svd k sizes ranks rk r0 W.
Proof. apply (loop_pred_impl Rops svd _ _ svd_full_contract_step_full). Qed.

(* the error identity in singular values *)
Theorem chain_loop_error_sigma_R sizes k ranks rk r0 W cores :
  loop_full_R k sizes ranks rk r0 W -> chain_loop Rops svd k sizes ranks rk r0 W = Ok cores ->
  err2 Rops sizes rk r0 W cores = Rsum (loop_tail_list k sizes ranks rk r0 W).
Proof.
  intros H Hrun. rewrite <- loop_tails_list.
  exact (chain_loop_error_sigma Rops Rops_ring svd _ _ _ _ _ _ _ (loop_full_R_full _ _ _ _ _ _ H) Hrun).
Qed.

(* lower bound: the error is at least every single discarded tail of a working unfolding *)
Theorem chain_loop_error_lower_R sizes k ranks rk r0 W cores :
  loop_full_R k sizes ranks rk r0 W -> chain_loop Rops svd k sizes ranks rk r0 W = Ok cores ->
  forall t, In t (loop_tail_list k sizes ranks rk r0 W) -> t <= err2 Rops sizes rk r0 W cores.
Proof.
  intros H Hrun t Ht. rewrite (chain_loop_error_sigma_R _ _ _ _ _ _ _ H Hrun).
  apply Rsum_ge_each; [apply loop_tail_list_nonneg | exact Ht].
Qed.

(* upper bound given per-step bounds on the discarded tails of the working unfoldings *)
Theorem chain_loop_error_upper_partial_R sizes k ranks rk r0 W cores (bs : list R) :
  loop_full_R k sizes ranks rk r0 W -> chain_loop Rops svd k sizes ranks rk r0 W = Ok cores ->
  Forall2 Rle (loop_tail_list k sizes ranks rk r0 W) bs ->
  err2 Rops sizes rk r0 W cores <= Rsum bs.
Proof.
  intros H Hrun Hb. rewrite (chain_loop_error_sigma_R _ _ _ _ _ _ _ H Hrun). now apply Rsum_le.
Qed.

(* ------------------------------------------------------------------ tensor_train *)
Definition tt_full_R (X : tensor R) (rank : rank_spec) : Prop :=
  match validate_tt_rank (ndim X) rank with
  | Ok rk => loop_full_R 0 (shape X) (tl rk) 1 1 (data X)
  | Err => True
  end.
Definition tt_tail_list (X : tensor R) (rank : rank_spec) : list R :=
  match validate_tt_rank (ndim X) rank with
  | Ok rk => loop_tail_list 0 (shape X) (tl rk) 1 1 (data X)
  | Err => []
  end.

Lemma tt_err2_err2 X cores : tt_err2 Rops X cores = err2 Rops (shape X) 1 1 (data X) cores.
Proof.
  unfold tt_err2, err2. unfold fsumn. cbn [bigsum fadd Rops f0].
  rewrite Rplus_0_l. apply sum_idx_ext. intros idx Hidx. rewrite Rplus_0_l. unfold tt_entry, g, get.
  replace ((0 * prod (shape X) + ravel (shape X) idx) * 1 + 0)%nat with (ravel (shape X) idx) by lia.
  reflexivity.
Qed.

Theorem tt_error_sigma_R X rank cores :
  tt_full_R X rank -> tensor_train Rops svd X rank = Ok cores ->
  tt_err2 Rops X cores = Rsum (tt_tail_list X rank).
Proof.
  unfold tt_full_R, tensor_train, tt_tail_list.
  destruct (validate_tt_rank (ndim X) rank) as [rk|]; [|discriminate]. cbn [rbind]. intros H Hrun.
  destruct (ndim X <=? 1); [discriminate|].
  rewrite tt_err2_err2. exact (chain_loop_error_sigma_R _ _ _ _ _ _ _ H Hrun).
Qed.

Theorem tt_error_lower_R X rank cores :
  tt_full_R X rank -> tensor_train Rops svd X rank = Ok cores ->
  forall t, In t (tt_tail_list X rank) -> t <= tt_err2 Rops X cores.
Proof.
  intros H Hrun t Ht. rewrite (tt_error_sigma_R X rank cores H Hrun).
  apply Rsum_ge_each; [|exact Ht]. unfold tt_tail_list.
  destruct (validate_tt_rank (ndim X) rank); [apply loop_tail_list_nonneg | constructor].
Qed.

Theorem tt_error_upper_partial_R X rank cores (bs : list R) :
  tt_full_R X rank -> tensor_train Rops svd X rank = Ok cores ->
  Forall2 Rle (tt_tail_list X rank) bs ->
  tt_err2 Rops X cores <= Rsum bs.
Proof.
  intros H Hrun Hb. rewrite (tt_error_sigma_R X rank cores H Hrun). now apply Rsum_le.
Qed.

End Run.
