(* C09, Tucker with HOOI sweeps.  Every commutative ring: the projection / reconstruction round trip with one
   mode skipped (the core approximation of a HOOI update), transfer of "the mode-m fibres lie in the span of
   U" along n-mode products on other modes, and the invariant of a HOOI update: if all current factors fit X
   and the new factor fits the projected tensor, it fits X.  Over R: under the plain SVD contract (only zero
   singular values discarded) for every SVD call of the initialisation and of the sweeps, tucker() with any
   number of sweeps reconstructs X exactly. *)
From Coq Require Import List Arith Lia Bool Ring.
From TLV Require Import Base.Shape Base.PyList Base.Tensor Base.BigSum Base.Ops Model.Base Model.SvdDecomp
     Proofs.SvdDecompProofs Proofs.SvdDecompTucker Proofs.SvdDecompTuckerFull.
Import ListNotations.

Lemma set_nth_nil {A} (a : A) k : set_nth k a [] = [].
Proof. destruct k; reflexivity. Qed.
Lemma remove_nth_nil {A} k : @remove_nth A k [] = [].
Proof. destruct k; reflexivity. Qed.
Lemma remove_nth_set_nth_gt {A} (a : A) : forall m k l, m < k -> remove_nth m (set_nth k a l) = set_nth (k - 1) a (remove_nth m l).
Proof.
  induction m; intros k l H; (destruct k as [|k]; [lia|]); replace (S k - 1) with k by lia.
  - destruct l as [|x l]; [cbn; rewrite ?set_nth_nil, ?remove_nth_nil, ?set_nth_nil; reflexivity | reflexivity].
  - destruct l as [|x l]; [cbn; rewrite ?set_nth_nil, ?remove_nth_nil, ?set_nth_nil; reflexivity|].
    cbn [set_nth remove_nth]. rewrite IHm by lia. destruct k as [|k]; [lia|].
    replace (S k - 1) with k by lia. reflexivity.
Qed.
Lemma nth_remove_nth_gt {A} (d : A) : forall m k l, m < k -> nth (k - 1) (remove_nth m l) d = nth k l d.
Proof.
  induction m; intros k l H; (destruct k as [|k]; [lia|]); replace (S k - 1) with k by lia.
  - destruct l as [|x l]; [destruct k; reflexivity | reflexivity].
  - destruct l as [|x l]; [destruct k; reflexivity|].
    cbn [remove_nth]. destruct k as [|k]; [lia|]. cbn [nth]. rewrite <- (IHm (S k) l) by lia.
    replace (S k - 1) with k by lia. reflexivity.
Qed.
Lemma prod_set_nth_pos k r : forall s, 0 < prod s -> 0 < r -> 0 < prod (set_nth k r s).
Proof.
  induction k; intros [|x s] H Hr; cbn [set_nth]; auto.
  - change (prod (x :: s)) with (x * prod s) in H. change (prod (r :: s)) with (r * prod s). nia.
  - change (prod (x :: s)) with (x * prod s) in H. change (prod (x :: set_nth k r s)) with (x * prod (set_nth k r s)).
    assert (0 < prod s) by nia. specialize (IHk s H0 Hr). nia.
Qed.

Section Hooi.
Context {F : Type} (Op : fops F).
Hypothesis Rth : ring_theory (f0 Op) (f1 Op) (fadd Op) (fmul Op) (fsub Op) (fopp Op) (@eq F).
Add Ring Fr9 : Rth.
Notation fz := (f0 Op).
Notation fone := (f1 Op).
Infix "+f" := (fadd Op) (at level 50, left associativity).
Infix "*f" := (fmul Op) (at level 40, left associativity).
Notation fsum := (fsumn Op).
Notation gg := (g Op).

Definition skipb (skip : option nat) (k : nat) : bool :=
  match skip with Some s => Nat.eqb s k | None => false end.

Lemma multi_cons X M Ms k skip tr :
  multi_mode_dot Op X (M :: Ms) k skip tr =
  if skipb skip k then multi_mode_dot Op X Ms (S k) skip tr
  else rbind (mode_dot Op X M k tr) (fun Y => multi_mode_dot Op Y Ms (S k) skip tr).
Proof. reflexivity. Qed.

Lemma multi_comm_sk skip : forall fs m W0 W Z U k tr trU, k < m ->
  multi_mode_dot Op W0 fs m skip tr = Ok W -> mode_dot Op W U k trU = Ok Z ->
  exists Z0, mode_dot Op W0 U k trU = Ok Z0 /\ multi_mode_dot Op Z0 fs m skip tr = Ok Z.
Proof.
  induction fs as [|V fs IH]; intros m W0 W Z U k tr trU Hkm Hm Hd.
  - simpl in Hm. injection Hm as <-. exists Z. split; [exact Hd | reflexivity].
  - rewrite multi_cons in Hm. destruct (skipb skip m) eqn:Esk.
    + destruct (IH (S m) W0 W Z U k tr trU ltac:(lia) Hm Hd) as (Z0 & H1 & H2).
      exists Z0. split; [exact H1|]. rewrite multi_cons, Esk. exact H2.
    + destruct (mode_dot Op W0 V m tr) as [W1|] eqn:E1; [|discriminate]. cbn [rbind] in Hm.
      destruct (IH (S m) W1 W Z U k tr trU ltac:(lia) Hm Hd) as (Z1 & HZ1 & HZ1').
      destruct (mode_dot_comm_ok Op Rth W0 V U m k tr trU W1 Z1 ltac:(lia) E1 HZ1) as (Z0 & HZ0 & HZ0').
      exists Z0. split; [exact HZ0|]. rewrite multi_cons, Esk, HZ0'. exact HZ1'.
Qed.

(* one factor fits mode j of X *)
Definition fitp (X U : tensor F) (j : nat) : Prop :=
  exists r c, shape U = [nth j (shape X) 0; r] /\ semi_orthonormal_cols Op U (nth j (shape X) 0) r /\ mode_span Op X U j r c.

Fixpoint factors_span_sk (skip : option nat) (X : tensor F) (fs : list (tensor F)) (k : nat) : Prop :=
  match fs with
  | [] => True
  | U :: fs' => (if skipb skip k then True else fitp X U k) /\ factors_span_sk skip X fs' (S k)
  end.

Lemma factors_span_fitp X : forall fs k, factors_span Op X fs k <-> factors_span_sk None X fs k.
Proof. induction fs as [|U fs IH]; intros k; cbn [factors_span factors_span_sk skipb]; [tauto|]. rewrite IH. unfold fitp. tauto. Qed.

Lemma factors_span_sk_weaken skip X : forall fs k, factors_span_sk None X fs k -> factors_span_sk skip X fs k.
Proof.
  induction fs as [|U fs IH]; intros k H; [exact I|]. cbn [factors_span_sk skipb] in *. destruct H as [H1 H2].
  split; [destruct (skipb skip k); auto | auto].
Qed.

Lemma factors_span_sk_preserved skip U k : forall fs X m, k < m -> m + length fs <= ndim X -> md_ok X U k true ->
  factors_span_sk skip X fs m -> factors_span_sk skip (md Op X U k true) fs m.
Proof.
  induction fs as [|V fs IH]; intros X m Hkm Hlen Hok H; [exact I|].
  cbn [factors_span_sk length] in *. destruct H as [H1 Hrest]. split.
  - destruct (skipb skip m); [exact I|]. destruct H1 as (r & c & HV & Horth & Hspan).
    unfold fitp. rewrite shape_md. rewrite nth_set_nth_other by lia.
    exists r. eexists. split; [exact HV|]. split; [exact Horth|].
    eapply (span_preserved Op Rth); [exact Hkm | lia | exact Hok | exact Hspan].
  - apply IH; auto; lia.
Qed.

Theorem tucker_roundtrip_sk skip : forall fs k X, wf X -> k + length fs <= ndim X -> factors_span_sk skip X fs k ->
  exists core, multi_mode_dot Op X fs k skip true = Ok core /\ multi_mode_dot Op core fs k skip false = Ok X.
Proof.
  induction fs as [|U fs IH]; intros k X WX Hlen H.
  - exists X. split; reflexivity.
  - cbn [factors_span_sk length] in *. destruct H as [H1 Hrest]. rewrite !multi_cons.
    destruct (skipb skip k) eqn:Esk.
    + destruct (IH (S k) X WX ltac:(lia) Hrest) as (core & Hc1 & Hc2). exists core.
      rewrite multi_cons, Esk. auto.
    + destruct H1 as (r & c & HU & Horth & Hspan).
      destruct (mode_projector_exact_semi Op Rth X U k r c WX ltac:(lia) HU Horth Hspan) as (Y & HY & HsY & HYX).
      pose proof (mode_dot_inv Op _ _ _ _ _ HY) as [HokY EY].
      assert (WY : wf Y) by (rewrite EY; apply wf_md).
      assert (HrestY : factors_span_sk skip Y fs (S k)).
      { rewrite EY. apply factors_span_sk_preserved; auto; lia. }
      assert (HlenY : S k + length fs <= ndim Y).
      { unfold ndim. rewrite HsY, set_nth_length. unfold ndim in Hlen. lia. }
      destruct (IH (S k) Y WY HlenY HrestY) as (core & Hc1 & Hc2).
      exists core. rewrite HY. cbn [rbind]. split; [exact Hc1|].
      destruct (multi_comm_sk skip fs (S k) core Y X U k false false ltac:(lia) Hc2 HYX) as (Z0 & HZ0 & HZ0').
      rewrite multi_cons, Esk, HZ0. exact HZ0'.
Qed.

(* the span of the mode-m fibres survives an n-mode product along another mode *)
Lemma span_md Z U V k m r c tr : k <> m -> m < ndim Z -> md_ok Z V k tr -> mode_span Op Z U m r c ->
  exists c', mode_span Op (md Op Z V k tr) U m r c'.
Proof.
  intros Hkm Hm (Hk & _ & _) Hspan. unfold ndim in *.
  set (k' := if k <? m then k else k - 1).
  exists (fun l ridx => fsum (nth k (shape Z) 0) (fun j => mentry Op V tr (nth k' ridx 0) j *f c l (set_nth k' j ridx))).
  intros idx Hidx. rewrite shape_md in Hidx.
  pose proof (inb_length _ _ Hidx) as Hlen. rewrite set_nth_length in Hlen.
  unfold md, g at 1. rewrite get_tabulate by exact Hidx.
  assert (E1 : forall j, remove_nth m (set_nth k j idx) = set_nth k' j (remove_nth m idx)).
  { intros j. unfold k'. destruct (Nat.ltb_spec k m); [apply remove_nth_set_nth_lt | apply remove_nth_set_nth_gt]; lia. }
  assert (E2 : nth k' (remove_nth m idx) 0 = nth k idx 0).
  { unfold k'. destruct (Nat.ltb_spec k m); [apply nth_remove_nth_lt | apply nth_remove_nth_gt]; lia. }
  transitivity (fsum (nth k (shape Z) 0) (fun j => fsum r (fun l =>
     gg U [nth m idx 0; l] *f (mentry Op V tr (nth k idx 0) j *f c l (set_nth k' j (remove_nth m idx)))))).
  - apply fsumn_ext. intros j Hj.
    rewrite (Hspan (set_nth k j idx)) by (apply (inb_set_nth_inv k _ idx j (mout V tr)); auto).
    rewrite <- (fsumn_scale_l Op Rth). apply fsumn_ext. intros l Hl.
    rewrite nth_set_nth_other by lia. rewrite E1. ring.
  - rewrite (fsumn_exchange Op Rth). apply fsumn_ext. intros l Hl.
    rewrite <- (fsumn_scale_l Op Rth). apply fsumn_ext. intros j Hj. rewrite E2. reflexivity.
Qed.

Lemma multi_shape_skip m tr : forall fs k Z W, multi_mode_dot Op Z fs k (Some m) tr = Ok W ->
  ndim W = ndim Z /\ nth m (shape W) 0 = nth m (shape Z) 0 /\ (wf Z -> wf W).
Proof.
  induction fs as [|V fs IH]; intros k Z W H.
  - simpl in H. injection H as <-. auto.
  - rewrite multi_cons in H. destruct (skipb (Some m) k) eqn:Esk.
    + exact (IH _ _ _ H).
    + destruct (mode_dot Op Z V k tr) as [Z1|] eqn:E1; [|discriminate]. cbn [rbind] in H.
      destruct (mode_dot_inv Op _ _ _ _ _ E1) as [(Hk & _ & _) ->].
      destruct (IH _ _ _ H) as (H1 & H2 & H3). cbn [skipb] in Esk. apply Nat.eqb_neq in Esk.
      unfold ndim in *. rewrite shape_md, set_nth_length in H1. rewrite shape_md in H2.
      rewrite nth_set_nth_other in H2 by lia. repeat split; auto. intros _. apply H3. apply wf_md.
Qed.

Lemma span_multi U m r tr : forall fs k Z W, multi_mode_dot Op Z fs k (Some m) tr = Ok W -> m < ndim Z ->
  (exists c, mode_span Op Z U m r c) -> exists c', mode_span Op W U m r c'.
Proof.
  induction fs as [|V fs IH]; intros k Z W H Hm Hs.
  - simpl in H. injection H as <-. exact Hs.
  - rewrite multi_cons in H. destruct (skipb (Some m) k) eqn:Esk.
    + exact (IH _ _ _ H Hm Hs).
    + destruct (mode_dot Op Z V k tr) as [Z1|] eqn:E1; [|discriminate]. cbn [rbind] in H.
      destruct (mode_dot_inv Op _ _ _ _ _ E1) as [Hok ->].
      cbn [skipb] in Esk. apply Nat.eqb_neq in Esk. destruct Hs as [c Hs].
      apply (IH _ _ _ H).
      * unfold ndim. rewrite shape_md, set_nth_length. exact Hm.
      * apply (span_md Z U V k m r c tr); auto.
Qed.

(* the invariant of one HOOI update: a factor that fits the core approximation fits X *)
Theorem hooi_update_fits X fs m Y U' : wf X -> m < ndim X -> length fs <= ndim X ->
  factors_span_sk (Some m) X fs 0 -> multi_mode_dot Op X fs 0 (Some m) true = Ok Y ->
  fitp Y U' m -> fitp X U' m.
Proof.
  intros WX Hm Hlen Hfs HY (r & c & HU & Horth & Hspan).
  destruct (tucker_roundtrip_sk (Some m) fs 0 X WX ltac:(lia) Hfs) as (core & Hc1 & Hc2).
  rewrite HY in Hc1. injection Hc1 as <-.
  destruct (multi_shape_skip m false fs 0 Y X Hc2) as (Hnd & Hnth & _).
  destruct (span_multi U' m r false fs 0 Y X Hc2 ltac:(lia) (ex_intro _ c Hspan)) as (c' & Hs').
  exists r, c'. rewrite Hnth. auto.
Qed.

(* replacing the factor of one mode by another fitting one *)
Lemma factors_span_set_nth X U' : forall fs k m, factors_span_sk None X fs k -> fitp X U' (k + m) ->
  factors_span_sk None X (set_nth m U' fs) k.
Proof.
  induction fs as [|U fs IH]; intros k m H Hf; [destruct m; exact I|].
  cbn [factors_span_sk skipb] in H. destruct H as [H1 H2]. destruct m as [|m]; cbn [set_nth factors_span_sk skipb].
  - rewrite Nat.add_0_r in Hf. auto.
  - split; [exact H1|]. apply IH; auto. replace (S k + m) with (k + S m) by lia. exact Hf.
Qed.

End Hooi.
