(* C09: the Tucker root-sum-square bound WITH HOOI sweeps.  For factors with orthonormal columns the squared error is
   |X|^2 - |core|^2 (telescoping the mode-by-mode identity); the core is the working tensor of the HOOI update of mode m
   multiplied by U_m^T, and the update replaces U_m by the leading left singular vectors of the working unfolding, which by
   Eckart-Young (C09_eckart_young; no Ky Fan inequality is needed) does not decrease |core|^2.  Hence every HOOI update does not
   increase the error, and the HOSVD bound (sum over the modes of the discarded squared singular values of the mode unfoldings
   of X) survives any number of sweeps. *)
From Coq Require Import List Arith Lia Bool Reals Lra RealField.
From TLV Require Import Base.Shape Base.PyList Base.Tensor Base.BigSum Base.Ops Model.Base Model.SvdDecomp
     Proofs.BaseProofs Proofs.SvdDecompProofs Proofs.SvdDecompProofsR Proofs.SvdDecompTucker Proofs.SvdDecompTuckerFull
     Proofs.SvdDecompTuckerR Proofs.SvdDecompPyth Proofs.SvdDecompError Proofs.SvdDecompTails Proofs.SvdDecompErrorR
     Proofs.SvdDecompTuckerErr Proofs.SvdDecompTuckerBound Proofs.SvdDecompHooi Proofs.SvdDecompHooiR
     Proofs.SvdDecompHosvdBound Proofs.SvdDecompPartial Proofs.SvdDecompRankCond Proofs.SvdDecompEckartYoung Proofs.SvdDecompTuckerRank.
Import ListNotations.
Local Open Scope R_scope.

Notation sidxR := (sum_idx R 0 Rplus).
Notation sqR := (sq Rops).
Notation mdR := (md Rops).

(* ------------------------------------------------------------------ |Z|^2 = |Z - P_k Z|^2 + |Z x_k U^T|^2 *)
Definition zeros (s : list nat) : tensor R := tabulate s (fun _ => 0).

Lemma terr2_zero_r (Z B : tensor R) : (forall idx, inb (shape Z) idx -> gR B idx = 0) -> terr2 Rops Z B = nrm2 Z.
Proof.
  intros HB. unfold terr2, nrm2. apply sum_idx_ext. intros idx Hidx. rewrite (HB idx Hidx). unfold sq. cbn [fsub fmul Rops]. ring.
Qed.

Lemma nth_map_zero {A} (l : list A) n : nth n (map (fun _ => 0) l) 0 = 0.
Proof. revert n. induction l; intros [|n]; cbn; auto. Qed.

Lemma g_zeros s idx : gR (zeros s) idx = 0.
Proof. unfold g, get, zeros, tabulate. cbn [data]. apply nth_map_zero. Qed.

Lemma norm_split_mode Z U k r : (k < ndim Z)%nat -> shape U = [nth k (shape Z) 0%nat; r] ->
  orthonormal_cols Rops U (nth k (shape Z) 0%nat) r ->
  nrm2 Z = terr2 Rops Z (proj k U Z) + nrm2 (mdR Z U k true).
Proof.
  intros Hk HU Horth.
  pose proof (pythagoras_mode Rops Rops_ring Z U (zeros (set_nth k r (shape Z))) k r Hk HU Horth eq_refl) as HP.
  cbn [fadd Rops] in HP. unfold proj.
  rewrite <- (terr2_zero_r Z (mdR (zeros (set_nth k r (shape Z))) U k false)).
  - rewrite HP. f_equal. apply terr2_zero_r. intros idx _. apply g_zeros.
  - intros idx Hidx. unfold md, g. rewrite get_tabulate.
    + apply (fsumn_zero Rops Rops_ring). intros j Hj. cbn [f0 fmul Rops].
      change (get 0 (zeros (set_nth k r (shape Z))) (set_nth k j idx)) with (gR (zeros (set_nth k r (shape Z))) (set_nth k j idx)).
      rewrite g_zeros. ring.
    + cbn [shape zeros tabulate]. unfold mout, nrows. rewrite HU. cbn [nth]. rewrite set_nth_set_nth.
      unfold ndim in Hk. rewrite set_nth_id by exact Hk. exact Hidx.
Qed.

(* ------------------------------------------------------------------ telescoping: error = |Z|^2 - |core|^2 *)
Lemma md_ok_of_shape (Z U : tensor R) (k r : nat) (tr : bool) : (k < ndim Z)%nat ->
  shape U = (if tr then [nth k (shape Z) 0%nat; r] else [r; nth k (shape Z) 0%nat]) -> md_ok Z U k tr.
Proof.
  intros Hk HU. unfold md_ok, min_, nrows, ncols, ndim. rewrite HU. destruct tr; cbn; auto.
Qed.

Lemma discard_sum_norm : forall (fs : list (tensor R)) k (Z : tensor R), (k + length fs <= ndim Z)%nat -> factors_orth Rops (shape Z) fs k ->
  exists core, multi_mode_dot Rops Z fs k None true = Ok core /\
               Rsum (tucker_discard_list Rops Z fs k) = nrm2 Z - nrm2 core.
Proof.
  induction fs as [|U fs IH]; intros k Z Hlen Hf.
  - exists Z. split; [reflexivity|]. cbn [tucker_discard_list Rsum fold_right]. lra.
  - cbn [factors_orth length] in *. destruct Hf as [(r & HU & Horth) Hf'].
    assert (Hk : (k < ndim Z)%nat) by lia.
    assert (Hok : md_ok Z U k true) by (apply (md_ok_of_shape Z U k r true Hk); exact HU).
    set (Z' := mdR Z U k true).
    assert (HsZ' : shape Z' = set_nth k r (shape Z)).
    { unfold Z'. rewrite shape_md. unfold mout, ncols. rewrite HU. reflexivity. }
    destruct (IH (S k) Z') as (core & Hcore & Hsum).
    + unfold ndim. rewrite HsZ', set_nth_length. unfold ndim in Hlen. lia.
    + apply (factors_orth_ext Rops (shape Z)); [|exact Hf']. intros j Hj. rewrite HsZ'.
      symmetry. apply nth_set_nth_other. lia.
    + exists core. split.
      * rewrite multi_cons. cbn [skipb]. rewrite (mode_dot_ok Rops Z U k true Hok). cbn [rbind]. exact Hcore.
      * cbn [tucker_discard_list]. fold Z'. change (Rsum (?a :: ?l)) with (a + Rsum l).
        rewrite Hsum. pose proof (norm_split_mode Z U k r Hk HU Horth) as HN. unfold proj in HN. fold Z' in HN. lra.
Qed.

(* ------------------------------------------------------------------ the core through the working tensor of mode m *)
Lemma multi_skip_below : forall (fs : list (tensor R)) k (Z : tensor R) m tr, (m < k)%nat ->
  multi_mode_dot Rops Z fs k (Some m) tr = multi_mode_dot Rops Z fs k None tr.
Proof.
  induction fs as [|U fs IH]; intros k Z m tr Hm; [reflexivity|].
  rewrite !(multi_cons Rops). cbn [skipb]. replace (Nat.eqb m k) with false by (symmetry; apply Nat.eqb_neq; lia).
  destruct (mode_dot Rops Z U k tr); [|reflexivity]. cbn [rbind]. apply IH. lia.
Qed.

Lemma multi_skip_set_nth U' : forall (fs : list (tensor R)) j k (Z : tensor R) tr,
  multi_mode_dot Rops Z (set_nth j U' fs) k (Some (k + j)%nat) tr = multi_mode_dot Rops Z fs k (Some (k + j)%nat) tr.
Proof.
  induction fs as [|U fs IH]; intros j k Z tr.
  - destruct j; reflexivity.
  - destruct j as [|j].
    + cbn [set_nth]. rewrite !(multi_cons Rops). cbn [skipb]. rewrite Nat.add_0_r, Nat.eqb_refl. reflexivity.
    + cbn [set_nth]. rewrite !(multi_cons Rops). cbn [skipb].
      replace (Nat.eqb (k + S j) k) with false by (symmetry; apply Nat.eqb_neq; lia).
      destruct (mode_dot Rops Z U k tr); [|reflexivity]. cbn [rbind].
      replace (k + S j)%nat with (S k + j)%nat by lia. apply IH.
Qed.

Lemma core_split : forall (fs : list (tensor R)) k (Z core : tensor R) m, (k <= m)%nat -> (m < k + length fs)%nat ->
  multi_mode_dot Rops Z fs k None true = Ok core ->
  exists Y, multi_mode_dot Rops Z fs k (Some m) true = Ok Y /\
            mode_dot Rops Y (nth (m - k) fs (mk [] [])) m true = Ok core.
Proof.
  induction fs as [|U fs IH]; intros k Z core m Hkm Hm H; [cbn [length] in Hm; lia|].
  rewrite (multi_cons Rops) in H. cbn [skipb] in H.
  destruct (mode_dot Rops Z U k true) as [Z1|] eqn:E1; [|discriminate]. cbn [rbind] in H.
  rewrite (multi_cons Rops). cbn [skipb].
  destruct (Nat.eq_dec m k) as [->|Hne].
  - rewrite Nat.eqb_refl, Nat.sub_diag. cbn [nth].
    destruct (multi_comm_rev fs (S k) Z Z1 core U k true true ltac:(lia) E1 H) as (Y & HY & HY').
    exists Y. split; [|exact HY']. rewrite multi_skip_below by lia. exact HY.
  - replace (Nat.eqb m k) with false by (symmetry; apply Nat.eqb_neq; exact Hne).
    rewrite E1. cbn [rbind].
    destruct (IH (S k) Z1 core m ltac:(lia) ltac:(cbn [length] in Hm; lia) H) as (Y & HY & HY').
    exists Y. split; [exact HY|]. replace (m - k)%nat with (S (m - S k)) by lia. exact HY'.
Qed.

(* ------------------------------------------------------------------ Eckart-Young at tensor level: anything of the form Y x_k U with U of r
   columns is at least the discarded tail of the mode-k unfolding away from X (the inner step of C09_tucker_error_lower) *)
Lemma mode_lower (X Xk : tensor R) (k r : nat) (a : @svdans R) (U Y Xh : tensor R) :
  wf X -> (0 < prod (shape X))%nat -> (k < ndim X)%nat ->
  mode_dot Rops Y U k false = Ok Xh -> shape U = [nth k (shape X) 0%nat; r] -> shape Xh = shape X ->
  unfold 0 X k = Ok Xk ->
  svd_sorted_contract Xk (nth k (shape X) 0%nat) (prod (remove_nth k (shape X))) r a ->
  tail2 Rops r (snd3 a) <= terr2 Rops X Xh.
Proof.
  intros WX Hpos Hk HY HU HsXh Hunf Hc.
  destruct (mode_dot_inv Rops _ _ _ _ _ HY) as [(HkY & _ & Hmin) EXh].
  set (s := shape X) in *. set (nk := nth k s 0%nat) in *. set (rs := remove_nth k s) in *. set (nc := prod rs) in *.
  unfold ndim in Hk. fold s in Hk.
  assert (HsY : set_nth k nk (shape Y) = s).
  { rewrite <- HsXh, EXh, shape_md. unfold mout, nrows. rewrite HU. reflexivity. }
  assert (HnkY : nth k (shape Y) 0%nat = r) by (unfold min_, ncols in Hmin; rewrite HU in Hmin; cbn [nth] in Hmin; auto).
  assert (HrsY : remove_nth k (shape Y) = rs).
  { unfold rs. rewrite <- HsY. now rewrite remove_nth_set_nth_same. }
  (* the unfolding, column by column (as in hosvd_resid_is_tail) *)
  assert (HM : forall i c, (i < nk)%nat -> (c < nc)%nat -> gR Xk [i; c] = gR X (insert_at k i (unravel rs c))).
  { intros i c Hi Hc'. set (ridx := unravel rs c).
    assert (Hr : inb rs ridx) by (apply unravel_inb; exact Hc').
    assert (Hlen : length ridx = (length s - 1)%nat).
    { rewrite (inb_length _ _ Hr). unfold rs. apply remove_nth_length. exact Hk. }
    assert (Hidx : inb s (insert_at k i ridx)).
    { unfold s. rewrite <- (insert_remove k (shape X) 0%nat) by exact Hk. fold s rs nk. apply inb_insert; assumption. }
    destruct (unfold_layout 0 X k Xk _ WX Hk Hpos Hunf Hidx) as [_ Hlay].
    rewrite nth_insert_same in Hlay by lia. rewrite remove_insert in Hlay by lia.
    fold s rs in Hlay. unfold ridx in Hlay at 1. rewrite ravel_unravel in Hlay by exact Hc'.
    exact Hlay. }
  pose proof (eckart_young_holds Xk nk nc r a Hc (fun i b => gR U [i; b])
                (fun b c => gR Y (insert_at k b (unravel rs c)))) as Hey.
  eapply Rle_trans; [exact Hey|]. apply Req_le.
  unfold terr2. fold s. rewrite (sum_idx_split Rops Rops_ring k s) by exact Hk. fold rs nk.
  unfold sum_idx. fold nc. rewrite (fsumn_exchange Rops Rops_ring nk nc).
  apply (fsumn_ext Rops). intros c Hc'. apply (fsumn_ext Rops). intros i Hi.
  set (ridx := unravel rs c).
  assert (Hr : inb rs ridx) by (apply unravel_inb; exact Hc').
  f_equal. rewrite (HM i c Hi Hc'). fold ridx. cbn [fsub Rops]. f_equal.
  rewrite EXh. rewrite (md_fibre Rops).
  - rewrite HnkY. apply (fsumn_ext Rops). intros b Hb. reflexivity.
  - exact HkY.
  - rewrite HrsY. exact Hr.
  - unfold mout, nrows. rewrite HU. cbn [nth]. exact Hi.
Qed.
(* ------------------------------------------------------------------ one HOOI update does not decrease |core|^2 *)
Lemma update_core_norm (Y Ym : tensor R) (m r : nat) (Uold : tensor R) (a : @svdans R) :
  wf Y -> (0 < prod (shape Y))%nat -> (m < ndim Y)%nat -> unfold 0 Y m = Ok Ym ->
  shape Uold = [nth m (shape Y) 0%nat; r] -> orthonormal_cols Rops Uold (nth m (shape Y) 0%nat) r ->
  svd_sorted_contract Ym (nth m (shape Y) 0%nat) (prod (remove_nth m (shape Y))) r a ->
  shape (fst3 (svd_interface Rops a r)) = [nth m (shape Y) 0%nat; r] /\
  orthonormal_cols Rops (fst3 (svd_interface Rops a r)) (nth m (shape Y) 0%nat) r /\
  nrm2 (mdR Y Uold m true) <= nrm2 (mdR Y (fst3 (svd_interface Rops a r)) m true).
Proof.
  intros WY Hpos Hm Hunf HUo Oo Hc. destruct a as [[U Sv] V].
  destruct (hosvd_resid_is_tail Y Ym m r U Sv V WY Hm Hpos Hunf (proj1 Hc)) as (H1 & H2 & H3).
  set (Unew := fst3 (svd_interface Rops (U, Sv, V) r)) in *.
  split; [exact H1|]. split; [exact H2|].
  pose proof (norm_split_mode Y Uold m r Hm HUo Oo) as No.
  pose proof (norm_split_mode Y Unew m r Hm H1 H2) as Nn.
  assert (HL : tail2 Rops r Sv <= terr2 Rops Y (proj m Uold Y)).
  { apply (mode_lower Y Ym m r (U, Sv, V) Uold (mdR Y Uold m true) (proj m Uold Y) WY Hpos Hm); try assumption.
    - unfold proj. apply mode_dot_ok. unfold md_ok, min_, ncols, ndim. rewrite shape_md, set_nth_length, HUo.
      unfold mout, ncols. rewrite HUo. cbn [nth length]. unfold ndim in Hm. rewrite nth_set_nth_same by exact Hm. auto.
    - apply (shape_proj m Uold Y r Hm HUo). }
  rewrite H3 in Nn. lra.
Qed.

(* ------------------------------------------------------------------ factor lists with prescribed column counts *)
Fixpoint factors_ranked (s ranks : list nat) (fs : list (tensor R)) (k : nat) : Prop :=
  match fs, ranks with
  | [], [] => True
  | U :: fs', r :: ranks' =>
      shape U = [nth k s 0%nat; r] /\ orthonormal_cols Rops U (nth k s 0%nat) r /\ factors_ranked s ranks' fs' (S k)
  | _, _ => False
  end.

Lemma factors_ranked_orth s : forall ranks fs k, factors_ranked s ranks fs k -> factors_orth Rops s fs k.
Proof.
  induction ranks as [|r ranks IH]; intros [|U fs] k H; cbn [factors_ranked factors_orth] in *; try tauto.
  destruct H as (H1 & H2 & H3). split; [exists r; auto | now apply IH].
Qed.

Lemma factors_ranked_nth s : forall ranks fs k j, factors_ranked s ranks fs k -> (j < length fs)%nat ->
  shape (nth j fs (mk [] [])) = [nth (k + j) s 0%nat; nth j ranks 0%nat] /\
  orthonormal_cols Rops (nth j fs (mk [] [])) (nth (k + j) s 0%nat) (nth j ranks 0%nat).
Proof.
  induction ranks as [|r ranks IH]; intros [|U fs] k j H Hj; cbn [factors_ranked length] in *; try tauto; try lia.
  destruct H as (H1 & H2 & H3). destruct j as [|j].
  - rewrite Nat.add_0_r. cbn [nth]. auto.
  - cbn [nth]. replace (k + S j)%nat with (S k + j)%nat by lia. apply IH; [exact H3 | lia].
Qed.

Lemma factors_ranked_set_nth s U' : forall ranks fs k j, factors_ranked s ranks fs k -> (j < length fs)%nat ->
  shape U' = [nth (k + j) s 0%nat; nth j ranks 0%nat] -> orthonormal_cols Rops U' (nth (k + j) s 0%nat) (nth j ranks 0%nat) ->
  factors_ranked s ranks (set_nth j U' fs) k.
Proof.
  induction ranks as [|r ranks IH]; intros [|U fs] k j H Hj HU HO; cbn [factors_ranked length] in *; try tauto; try lia.
  destruct H as (H1 & H2 & H3). destruct j as [|j].
  - rewrite Nat.add_0_r in HU, HO. cbn [nth set_nth factors_ranked] in *. auto.
  - cbn [set_nth factors_ranked nth] in *. split; [exact H1|]. split; [exact H2|].
    apply IH; try assumption; try lia; replace (S k + j)%nat with (k + S j)%nat by lia; assumption.
Qed.

Lemma factors_ranked_length s : forall ranks fs k, factors_ranked s ranks fs k -> length fs = length ranks.
Proof.
  induction ranks as [|r ranks IH]; intros [|U fs] k H; cbn [factors_ranked length] in *; try tauto.
  destruct H as (_ & _ & H). f_equal. now apply (IH fs (S k)).
Qed.

Definition Err (X : tensor R) (fs : list (tensor R)) : R := Rsum (tucker_discard_list Rops X fs 0).

(* ------------------------------------------------------------------ one HOOI update does not increase the error *)
Lemma hooi_update_error (X Y Ym : tensor R) (ranks : list nat) (fs : list (tensor R)) (m : nat) (a : @svdans R) :
  wf X -> factors_ranked (shape X) ranks fs 0 -> length fs = ndim X -> (m < ndim X)%nat ->
  multi_mode_dot Rops X fs 0 (Some m) true = Ok Y -> unfold 0 Y m = Ok Ym -> (0 < prod (shape Y))%nat ->
  svd_sorted_contract Ym (nth m (shape Y) 0%nat) (prod (remove_nth m (shape Y))) (nth m ranks 0%nat) a ->
  let U' := fst3 (svd_interface Rops a (nth m ranks 0%nat)) in
  factors_ranked (shape X) ranks (set_nth m U' fs) 0 /\ Err X (set_nth m U' fs) <= Err X fs.
Proof.
  intros WX Hfr Hlen Hm EY EYm HposY Hc U'.
  set (r := nth m ranks 0%nat) in *.
  destruct (multi_shape_skip Rops m true fs 0 X Y EY) as (HndY & HnthY & HwfY).
  destruct (factors_ranked_nth (shape X) ranks fs 0 m Hfr ltac:(lia)) as [HUm OUm]. cbn [Nat.add] in HUm, OUm. fold r in HUm, OUm.
  set (Um := nth m fs (mk [] [])) in *.
  destruct (update_core_norm Y Ym m r Um a (HwfY WX) HposY ltac:(lia) EYm
              ltac:(rewrite HnthY; exact HUm) ltac:(rewrite HnthY; exact OUm) Hc) as (HU' & OU' & Hnorm).
  fold U' in HU', OU', Hnorm. rewrite HnthY in HU', OU'.
  assert (Hfr' : factors_ranked (shape X) ranks (set_nth m U' fs) 0).
  { apply factors_ranked_set_nth; try assumption; try lia. }
  split; [exact Hfr'|].
  (* old error *)
  destruct (discard_sum_norm fs 0 X ltac:(lia) (factors_ranked_orth _ _ _ _ Hfr)) as (core & Hcore & Hsum).
  destruct (core_split fs 0 X core m ltac:(lia) ltac:(lia) Hcore) as (Y0 & HY0 & Hc0).
  rewrite EY in HY0. injection HY0 as <-. rewrite Nat.sub_0_r in Hc0. fold Um in Hc0.
  destruct (mode_dot_inv Rops _ _ _ _ _ Hc0) as [_ Ecore].
  (* new error *)
  assert (Hlen' : length (set_nth m U' fs) = ndim X) by (rewrite set_nth_length; exact Hlen).
  destruct (discard_sum_norm (set_nth m U' fs) 0 X ltac:(lia) (factors_ranked_orth _ _ _ _ Hfr')) as (core' & Hcore' & Hsum').
  destruct (core_split (set_nth m U' fs) 0 X core' m ltac:(lia) ltac:(lia) Hcore') as (Y1 & HY1 & Hc1).
  pose proof (multi_skip_set_nth U' fs m 0 X true) as Hinv. cbn [Nat.add] in Hinv. rewrite Hinv, EY in HY1. injection HY1 as <-.
  rewrite Nat.sub_0_r in Hc1. rewrite nth_set_nth_same in Hc1 by lia.
  destruct (mode_dot_inv Rops _ _ _ _ _ Hc1) as [_ Ecore'].
  unfold Err. rewrite Hsum, Hsum', Ecore, Ecore'. lra.
Qed.

(* ------------------------------------------------------------------ sweeps *)
Section Run.
Variable svd : nat -> tensor R -> @svdans R.

Lemma skipn_hd_nth (l : list nat) m r rem : skipn m l = r :: rem -> nth m l 0%nat = r /\ skipn (S m) l = rem /\ (m < length l)%nat.
Proof.
  revert l. induction m; intros [|x l] H; cbn [skipn] in H; try discriminate.
  - injection H as -> ->. cbn. repeat split. lia.
  - destruct (IHm l H) as (H1 & H2 & H3). cbn [nth skipn length]. repeat split; auto. lia.
Qed.

Lemma hooi_modes_error (X : tensor R) (ranks_all : list nat) : wf X -> length ranks_all = ndim X ->
  forall rem m c fs fs', skipn m ranks_all = rem ->
  factors_ranked (shape X) ranks_all fs 0 -> length fs = ndim X ->
  hooi_modes_sorted svd X rem m c fs -> hooi_modes Rops svd X rem m c fs = Ok fs' ->
  factors_ranked (shape X) ranks_all fs' 0 /\ length fs' = ndim X /\ Err X fs' <= Err X fs.
Proof.
  intros WX Hl. induction rem as [|r rem IH]; intros m c fs fs' Hsk Hfr Hlen Hs Hrun.
  - cbn [hooi_modes] in Hrun. injection Hrun as <-. repeat split; auto. lra.
  - destruct (skipn_hd_nth ranks_all m r rem Hsk) as (Hr & Hsk' & Hm).
    cbn [hooi_modes] in Hrun. cbn [hooi_modes_sorted] in Hs.
    destruct (multi_mode_dot Rops X fs 0 (Some m) true) as [Y|] eqn:EY; [|discriminate]. cbn [rbind] in Hrun.
    change (f0 Rops) with 0 in Hrun.
    destruct (unfold 0 Y m) as [Ym|] eqn:EYm; [|discriminate]. cbn [rbind] in Hrun.
    destruct Hs as (HposY & Hc & Hrest).
    rewrite <- Hr in Hc, Hrest, Hrun.
    destruct (hooi_update_error X Y Ym ranks_all fs m (svd c Ym) WX Hfr Hlen ltac:(lia) EY EYm HposY Hc) as [Hfr' Herr].
    destruct (IH (S m) (S c) _ fs' Hsk' Hfr' ltac:(rewrite set_nth_length; exact Hlen) Hrest Hrun) as (H1 & H2 & H3).
    repeat split; auto. lra.
Qed.

Lemma hooi_iter_error (X : tensor R) (ranks : list nat) : wf X -> length ranks = ndim X ->
  forall n_iter c fs fs', factors_ranked (shape X) ranks fs 0 -> length fs = ndim X ->
  hooi_iter_sorted svd X ranks n_iter c fs -> hooi_iter Rops svd X ranks n_iter c fs = Ok fs' ->
  factors_ranked (shape X) ranks fs' 0 /\ length fs' = ndim X /\ Err X fs' <= Err X fs.
Proof.
  intros WX Hl. induction n_iter as [|it IH]; intros c fs fs' Hfr Hlen Hs Hrun.
  - cbn [hooi_iter] in Hrun. injection Hrun as <-. repeat split; auto. lra.
  - cbn [hooi_iter] in Hrun. cbn [hooi_iter_sorted] in Hs. destruct Hs as [Hs1 Hs2].
    destruct (hooi_modes Rops svd X ranks 0 c fs) as [fs1|] eqn:E1; [|discriminate]. cbn [rbind] in Hrun.
    destruct (hooi_modes_error X ranks WX Hl ranks 0%nat c fs fs1 eq_refl Hfr Hlen Hs1 E1) as (H1 & H2 & H3).
    destruct (IH _ fs1 fs' H1 H2 Hs2 Hrun) as (H4 & H5 & H6). repeat split; auto. lra.
Qed.
End Run.

(* ------------------------------------------------------------------ the theorem *)
Section Top.
Variable svd : nat -> tensor R -> @svdans R.

Lemma hosvd_factors_ranked X : wf X -> (0 < prod (shape X))%nat -> forall ranks m c fs,
  (m + length ranks <= ndim X)%nat -> hosvd_full_contract svd X ranks m c ->
  hosvd_factors Rops svd X ranks m c = Ok fs -> factors_ranked (shape X) ranks fs m.
Proof.
  intros WX Hpos. induction ranks as [|r ranks IH]; intros m c fs Hlen Hc H.
  - simpl in H. injection H as <-. exact I.
  - cbn [hosvd_factors] in H. cbn [hosvd_full_contract] in Hc. cbn [length] in Hlen.
    change (f0 Rops) with 0 in H.
    destruct (unfold 0 X m) as [Xm|] eqn:EX; [|discriminate]. cbn [rbind] in H.
    destruct (hosvd_factors Rops svd X ranks (S m) (S c)) as [fs'|] eqn:E; [|discriminate]. cbn [rbind] in H.
    injection H as <-. destruct Hc as [Hc1 Hc2].
    destruct (svd c Xm) as [[U Sv] V] eqn:Es.
    destruct (hosvd_resid_is_tail X Xm m r U Sv V WX ltac:(lia) Hpos EX Hc1) as (H1 & H2 & _).
    cbn [factors_ranked]. split; [exact H1|]. split; [exact H2|]. apply (IH (S m) (S c)); auto. lia.
Qed.

(* tucker(init="svd", tol=0) with ANY number of HOOI sweeps: the squared error is at most the sum over the modes of the
   discarded squared singular values of the mode unfoldings of X -- the root-sum-square bound of the property, squared.
   Premises: the full SVD contract for the initialisation answers (rank <= number of triplets), LAPACK's sorted contract for the
   answers of the sweeps (hooi_iter_sorted; working tensors non-empty). *)
Theorem tucker_hooi_error_bound X rank n_iter core fs : wf X -> (0 < prod (shape X))%nat ->
  hosvd_full_contract svd X (validate_tucker_rank (ndim X) rank) 0 0 ->
  match hosvd_factors Rops svd X (validate_tucker_rank (ndim X) rank) 0 0 with
  | Ok fs0 => hooi_iter_sorted svd X (validate_tucker_rank (ndim X) rank) n_iter (ndim X) fs0
  | Err => True
  end ->
  tucker Rops svd X rank n_iter = Ok (core, fs) ->
  exists Xh, tucker_to_tensor Rops core fs = Ok Xh /\ shape Xh = shape X /\
             terr2 Rops X Xh <= Rsum (hosvd_tail_list svd X (validate_tucker_rank (ndim X) rank) 0 0).
Proof.
  intros WX Hpos Hc0 Hc1 Hrun. set (ranks := validate_tucker_rank (ndim X) rank) in *.
  assert (Hfs : (length fs <= ndim X)%nat /\ factors_orth Rops (shape X) fs 0 /\ Err X fs <= Rsum (hosvd_tail_list svd X ranks 0 0)).
  { pose proof Hrun as Hrun'. unfold tucker in Hrun'. fold ranks in Hrun'.
    destruct (Nat.eqb (length ranks) (ndim X)) eqn:El; [|discriminate].
    cbn [negb] in Hrun'. apply Nat.eqb_eq in El.
    destruct (ndim X <=? 1)%nat; [discriminate|].
    destruct (hosvd_factors Rops svd X ranks 0 0) as [fs0|] eqn:E0; [|discriminate]. cbn [rbind] in Hrun'.
    destruct (hooi_iter Rops svd X ranks n_iter (ndim X) fs0) as [fs1|] eqn:E1; [|discriminate]. cbn [rbind] in Hrun'.
    destruct (multi_mode_dot Rops X fs1 0 None true) as [core1|]; [|discriminate]. cbn [rbind] in Hrun'.
    injection Hrun' as <- <-.
    pose proof (hosvd_factors_ranked X WX Hpos ranks 0%nat 0%nat fs0 ltac:(lia) Hc0 E0) as Hr0.
    assert (L0 : length fs0 = ndim X) by (rewrite (factors_ranked_length _ _ _ _ Hr0); exact El).
    destruct (hosvd_factors_props svd X WX Hpos ranks 0%nat 0%nat fs0 ltac:(lia) Hc0 E0) as [Ho0 Hres0].
    assert (B0 : Err X fs0 <= Rsum (hosvd_tail_list svd X ranks 0 0)).
    { unfold Err. rewrite <- Hres0. apply Rsum_le. apply tucker_discards_le_resid; [lia | exact Ho0]. }
    destruct (hooi_iter_error svd X ranks WX El n_iter (ndim X) fs0 fs1 Hr0 L0 Hc1 E1) as (H1 & H2 & H3).
    split; [lia|]. split; [exact (factors_ranked_orth _ _ _ _ H1) | lra]. }
  destruct Hfs as (Hl & Hf & Hb).
  destruct (tucker_error_identity Rops Rops_ring svd X rank n_iter core fs Hrun Hl Hf) as (Xh & H1 & H2 & H3).
  exists Xh. split; [exact H1|]. split; [exact H2|].
  change (fsumlist Rops (tucker_discard_list Rops X fs 0)) with (Err X fs) in H3. rewrite H3. exact Hb.
Qed.
End Top.

(* non-vacuity of the initialisation hypotheses (a genuinely truncating instance: X = diag(2, 1), ranks (1, 1)); the sweep
   hypothesis is about working tensors the model cannot compute in closed form over R *)
Example hooi_bound_hypotheses_satisfiable :
  let svd := fun (_ : nat) (_ : tensor R) => ey_a in
  wf ey_M /\ (0 < prod (shape ey_M))%nat /\
  hosvd_full_contract svd ey_M (validate_tucker_rank (ndim ey_M) (inr [1; 1]%nat)) 0 0.
Proof.
  cbv zeta. split; [reflexivity|]. split; [cbn; lia|].
  cbn [validate_tucker_rank hosvd_full_contract].
  assert (E0 : unfold 0 ey_M 0 = Ok ey_M) by (vm_compute; reflexivity).
  assert (E1 : unfold 0 ey_M 1 = Ok ey_M) by (vm_compute; reflexivity).
  rewrite E0, E1.
  split; [exact (proj1 ey_instance_contract)|]. split; [exact (proj1 ey_instance_contract) | exact I].
Qed.
