(* C09, Tucker over the reals, any number of HOOI sweeps: if every SVD call of initialize_tucker and of the
   sweeps meets the plain SVD contract (orthonormal U, U diag(S) Vh = query) and discards only zero singular
   values, then tucker(X, rank, n_iter_max, init="svd", tol=0) reconstructs X exactly. *)
From Coq Require Import List Arith Lia Bool Reals Lra RealField.
From TLV Require Import Base.Shape Base.PyList Base.Tensor Base.BigSum Base.Ops Model.Base Model.SvdDecomp
     Proofs.BaseProofs Proofs.SvdDecompProofs Proofs.SvdDecompProofsR Proofs.SvdDecompTucker Proofs.SvdDecompTuckerFull
     Proofs.SvdDecompTuckerR Proofs.SvdDecompHooi.
Import ListNotations.
Local Open Scope R_scope.

Section Run.
Variable svd : nat -> tensor R -> @svdans R.

(* the contract of the SVD calls of one sweep (modes m, m+1, ...; call indices c, c+1, ...) *)
Fixpoint hooi_modes_contract (X : tensor R) (ranks : list nat) (m c : nat) (fs : list (tensor R)) : Prop :=
  match ranks with
  | [] => True
  | r :: ranks' =>
    match multi_mode_dot Rops X fs 0 (Some m) true with
    | Ok Y =>
      match unfold 0 Y m with
      | Ok Ym =>
        (0 < prod (shape Y))%nat /\
        svd_contract Ym (nth m (shape Y) 0%nat) (prod (remove_nth m (shape Y))) r (svd c Ym) /\
        hooi_modes_contract X ranks' (S m) (S c) (set_nth m (fst3 (svd_interface Rops (svd c Ym) r)) fs)
      | Err => True
      end
    | Err => True
    end
  end.

Fixpoint hooi_iter_contract (X : tensor R) (ranks : list nat) (n_iter c : nat) (fs : list (tensor R)) : Prop :=
  match n_iter with
  | O => True
  | S it =>
    hooi_modes_contract X ranks 0 c fs /\
    match hooi_modes Rops svd X ranks 0 c fs with
    | Ok fs' => hooi_iter_contract X ranks it (c + length ranks) fs'
    | Err => True
    end
  end.

Lemma hooi_modes_fit X : wf X -> forall ranks m c fs fs',
  factors_span_sk Rops None X fs 0 -> length fs = ndim X -> (m + length ranks <= ndim X)%nat ->
  hooi_modes_contract X ranks m c fs -> hooi_modes Rops svd X ranks m c fs = Ok fs' ->
  factors_span_sk Rops None X fs' 0 /\ length fs' = ndim X.
Proof.
  intros WX. induction ranks as [|r ranks IH]; intros m c fs fs' Hfs Hlen Hm Hc Hrun.
  - simpl in Hrun. injection Hrun as <-. auto.
  - cbn [hooi_modes] in Hrun. cbn [hooi_modes_contract] in Hc. cbn [length] in Hm.
    destruct (multi_mode_dot Rops X fs 0 (Some m) true) as [Y|] eqn:EY; [|discriminate]. cbn [rbind] in Hrun.
    change (f0 Rops) with 0 in Hrun.
    destruct (unfold 0 Y m) as [Ym|] eqn:EYm; [|discriminate]. cbn [rbind] in Hrun.
    destruct Hc as (Hpos & Hsvd & Hrest).
    destruct (multi_shape_skip Rops m true fs 0 X Y EY) as (HndY & HnthY & HwfY).
    set (U' := fst3 (svd_interface Rops (svd c Ym) r)) in *.
    assert (HfitY : fitp Rops Y U' m).
    { destruct (hosvd_factor_fits Y Ym m r (svd c Ym) (HwfY WX) ltac:(lia) Hpos EYm Hsvd) as (cf & H1 & H2 & H3).
      exists r, cf. split; [exact H1|]. split; [apply orthonormal_semi; exact H2 | exact H3]. }
    assert (HfitX : fitp Rops X U' m).
    { apply (hooi_update_fits Rops Rops_ring X fs m Y U'); auto; try lia.
      apply factors_span_sk_weaken. exact Hfs. }
    apply (IH (S m) (S c) (set_nth m U' fs) fs'); auto.
    + apply factors_span_set_nth; auto.
    + now rewrite set_nth_length.
    + lia.
Qed.

Lemma hooi_iter_fit X ranks : wf X -> (length ranks <= ndim X)%nat -> forall n_iter c fs fs',
  factors_span_sk Rops None X fs 0 -> length fs = ndim X ->
  hooi_iter_contract X ranks n_iter c fs -> hooi_iter Rops svd X ranks n_iter c fs = Ok fs' ->
  factors_span_sk Rops None X fs' 0 /\ length fs' = ndim X.
Proof.
  intros WX Hr. induction n_iter as [|it IH]; intros c fs fs' Hfs Hlen Hc Hrun.
  - simpl in Hrun. injection Hrun as <-. auto.
  - cbn [hooi_iter] in Hrun. cbn [hooi_iter_contract] in Hc. destruct Hc as [Hc1 Hc2].
    destruct (hooi_modes Rops svd X ranks 0 c fs) as [fs1|] eqn:E1; [|discriminate]. cbn [rbind] in Hrun.
    destruct (hooi_modes_fit X WX ranks 0%nat c fs fs1 Hfs Hlen ltac:(lia) Hc1 E1) as [H1 H2].
    exact (IH _ _ _ H1 H2 Hc2 Hrun).
Qed.

Theorem tucker_exact_R X rank n_iter core fs : wf X -> (0 < prod (shape X))%nat ->
  hosvd_contract svd X (validate_tucker_rank (ndim X) rank) 0 0 ->
  match hosvd_factors Rops svd X (validate_tucker_rank (ndim X) rank) 0 0 with
  | Ok fs0 => hooi_iter_contract X (validate_tucker_rank (ndim X) rank) n_iter (ndim X) fs0
  | Err => True
  end ->
  tucker Rops svd X rank n_iter = Ok (core, fs) ->
  tucker_to_tensor Rops core fs = Ok X.
Proof.
  intros WX Hpos Hc0 Hc1 Hrun.
  assert (Hfs : (length fs <= ndim X)%nat /\ factors_span Rops X fs 0).
  { unfold tucker in Hrun. set (ranks := validate_tucker_rank (ndim X) rank) in *.
    destruct (Nat.eqb (length ranks) (ndim X)) eqn:El; [|discriminate].
    cbn [negb] in Hrun. apply Nat.eqb_eq in El.
    destruct (ndim X <=? 1); [discriminate|].
    destruct (hosvd_factors Rops svd X ranks 0 0) as [fs0|] eqn:E0; [|discriminate]. cbn [rbind] in Hrun.
    destruct (hooi_iter Rops svd X ranks n_iter (ndim X) fs0) as [fs1|] eqn:E1; [|discriminate]. cbn [rbind] in Hrun.
    destruct (multi_mode_dot Rops X fs1 0 None true) as [core1|]; [|discriminate]. cbn [rbind] in Hrun.
    injection Hrun as <- <-.
    assert (H0 : factors_span Rops X fs0 0).
    { apply (hosvd_factors_span svd X WX Hpos ranks 0%nat 0%nat fs0); auto. lia. }
    assert (L0 : length fs0 = ndim X) by (rewrite (hosvd_factors_length svd _ _ _ _ _ E0); exact El).
    destruct (hooi_iter_fit X ranks WX ltac:(lia) n_iter (ndim X) fs0 fs1
                (proj1 (factors_span_fitp Rops X fs0 0) H0) L0 Hc1 E1) as [H1 H2].
    split; [lia|]. apply (factors_span_fitp Rops X fs1 0). exact H1. }
  destruct Hfs as [Hl Hs].
  exact (tucker_exact_of_factors Rops Rops_ring svd X rank n_iter core fs WX Hrun Hl Hs).
Qed.

End Run.
