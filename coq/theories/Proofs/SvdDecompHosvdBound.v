(* C09, the HOSVD error bound over the reals (tucker with n_iter_max = 0, every order, every rank request not
   larger than the number of singular triplets): under the full SVD contract for the mode unfoldings,
        |X - HOSVD reconstruction|^2 <= sum over the modes of the discarded squared singular values of the
                                         mode-k unfolding of X
   (the square of the root-sum-square bound of the property).  What the projector on the kept left singular
   vectors of the mode-k unfolding discards from X is exactly the discarded tail (hosvd_resid_is_tail). *)
From Coq Require Import List Arith Lia Bool Reals Lra RealField.
From TLV Require Import Base.Shape Base.PyList Base.Tensor Base.BigSum Base.Ops Model.Base Model.SvdDecomp
     Proofs.BaseProofs Proofs.SvdDecompProofs Proofs.SvdDecompProofsR Proofs.SvdDecompTucker Proofs.SvdDecompTuckerFull
     Proofs.SvdDecompPyth Proofs.SvdDecompError Proofs.SvdDecompTails Proofs.SvdDecompErrorR Proofs.SvdDecompTuckerErr
     Proofs.SvdDecompTuckerR Proofs.SvdDecompTuckerBound.
Import ListNotations.
Local Open Scope R_scope.

Lemma remove_insert' {A} (a : A) : forall k l, (k <= length l)%nat -> remove_nth k (insert_at k a l) = l.
Proof. intros. now apply remove_insert. Qed.

Lemma hosvd_resid_is_tail (X Xk : tensor R) (k r : nat) (U : tensor R) (Sv : list R) (V : tensor R) :
  wf X -> (k < ndim X)%nat -> (0 < prod (shape X))%nat -> unfold 0 X k = Ok Xk ->
  svd_full_contract Xk (nth k (shape X) 0%nat) (prod (remove_nth k (shape X))) r (U, Sv, V) ->
  shape (fst3 (svd_interface Rops (U, Sv, V) r)) = [nth k (shape X) 0%nat; r] /\
  orthonormal_cols Rops (fst3 (svd_interface Rops (U, Sv, V) r)) (nth k (shape X) 0%nat) r /\
  terr2 Rops X (proj k (fst3 (svd_interface Rops (U, Sv, V) r)) X) = tail2 Rops r Sv.
Proof.
  intros WX Hk Hpos Hunf Hc. set (s := shape X) in *. set (nk := nth k s 0%nat) in *.
  set (rs := remove_nth k s) in *. set (nc := prod rs) in *.
  pose proof (svd_full_contract_step_full _ _ _ _ _ Hc) as Hfull.
  pose proof (disc_tail Rops Rops_ring _ _ _ _ _ _ _ Hfull) as Hdisc.
  pose proof (svd_interface_orth Rops Rops_ring _ _ _ _ _ (step_full_orth Rops _ _ _ _ _ Hfull)) as Hso.
  destruct (svd_interface Rops (U, Sv, V) r) as [[U' S'] V']. unfold fst3.
  destruct Hso as (HU' & HV' & HS' & Horth & HWp).
  split; [exact HU'|]. split; [exact Horth|].
  rewrite <- Hdisc. unfold disc.
  assert (HoutT : mout U' true = r) by (unfold mout, ncols; rewrite HU'; reflexivity).
  assert (HoutF : mout U' false = nk) by (unfold mout, nrows; rewrite HU'; reflexivity).
  unfold ndim in Hk. fold s in Hk.
  (* the unfolding, column by column *)
  assert (HM : forall i c, (i < nk)%nat -> (c < nc)%nat -> gR Xk [i; c] = gR X (insert_at k i (unravel rs c))).
  { intros i c Hi Hc'. set (ridx := unravel rs c).
    assert (Hr : inb rs ridx) by (apply unravel_inb; exact Hc').
    assert (Hlen : length ridx = (length s - 1)%nat).
    { rewrite (inb_length _ _ Hr). unfold rs. apply remove_nth_length. exact Hk. }
    assert (Hidx : inb s (insert_at k i ridx)).
    { unfold s. rewrite <- (insert_remove k (shape X) 0%nat) by exact Hk. fold s rs nk. apply inb_insert; assumption. }
    destruct (unfold_layout 0 X k Xk _ WX Hk Hpos Hunf Hidx) as [_ Hlay].
    rewrite nth_insert_same in Hlay by lia. rewrite remove_insert in Hlay by lia.
    fold s rs in Hlay. unfold ridx in Hlay at 1. rewrite ravel_unravel in Hlay by exact Hc'.
    exact Hlay. }
  unfold terr2. fold s. rewrite (sum_idx_split Rops Rops_ring k s) by exact Hk. fold rs nk.
  unfold sum_idx. fold nc. rewrite (fsumn_exchange Rops Rops_ring nk nc).
  apply (fsumn_ext Rops). intros c Hc'. apply (fsumn_ext Rops). intros i Hi.
  set (ridx := unravel rs c).
  assert (Hr : inb rs ridx) by (apply unravel_inb; exact Hc').
  f_equal. rewrite (HM i c Hi Hc'). fold ridx. f_equal.
  unfold proj. rewrite (md_fibre Rops).
  - rewrite shape_md, HoutT. rewrite nth_set_nth_same by exact Hk.
    apply (fsumn_ext Rops). intros b Hb. unfold mentry. f_equal.
    rewrite <- HWp by assumption.
    rewrite (md_fibre Rops) by (unfold ndim; fold s; auto; rewrite HoutT; exact Hb). fold s nk.
    apply (fsumn_ext Rops). intros j Hj. unfold mentry. f_equal. unfold ridx. symmetry. apply HM; assumption.
  - unfold ndim. rewrite shape_md, set_nth_length. exact Hk.
  - rewrite shape_md, remove_nth_set_nth_same. exact Hr.
  - rewrite HoutF. exact Hi.
Qed.

Section Run.
Variable svd : nat -> tensor R -> @svdans R.

Definition snd3 (a : @svdans R) : list R := let '(_, Sv, _) := a in Sv.

Fixpoint hosvd_full_contract (X : tensor R) (ranks : list nat) (m c : nat) : Prop :=
  match ranks with
  | [] => True
  | r :: ranks' =>
    match unfold 0 X m with
    | Ok Xm => svd_full_contract Xm (nth m (shape X) 0%nat) (prod (remove_nth m (shape X))) r (svd c Xm)
    | Err => True
    end /\ hosvd_full_contract X ranks' (S m) (S c)
  end.

(* the discarded squared singular values of the mode unfoldings of X, mode by mode *)
Fixpoint hosvd_tail_list (X : tensor R) (ranks : list nat) (m c : nat) : list R :=
  match ranks with
  | [] => []
  | r :: ranks' =>
    match unfold 0 X m with
    | Ok Xm => tail2 Rops r (snd3 (svd c Xm))
    | Err => 0
    end :: hosvd_tail_list X ranks' (S m) (S c)
  end.

Lemma hosvd_factors_props X : wf X -> (0 < prod (shape X))%nat -> forall ranks m c fs,
  (m + length ranks <= ndim X)%nat -> hosvd_full_contract X ranks m c ->
  hosvd_factors Rops svd X ranks m c = Ok fs ->
  factors_orth Rops (shape X) fs m /\ resid_list X fs m = hosvd_tail_list X ranks m c.
Proof.
  intros WX Hpos. induction ranks as [|r ranks IH]; intros m c fs Hlen Hc H.
  - simpl in H. injection H as <-. split; [exact I | reflexivity].
  - cbn [hosvd_factors] in H. cbn [hosvd_full_contract hosvd_tail_list] in *. cbn [length] in Hlen.
    change (f0 Rops) with 0 in H.
    destruct (unfold 0 X m) as [Xm|] eqn:EX; [|discriminate]. cbn [rbind] in H.
    destruct (hosvd_factors Rops svd X ranks (S m) (S c)) as [fs'|] eqn:E; [|discriminate]. cbn [rbind] in H.
    injection H as <-. destruct Hc as [Hc1 Hc2].
    destruct (IH (S m) (S c) fs' ltac:(lia) Hc2 E) as [IH1 IH2].
    destruct (svd c Xm) as [[U Sv] V] eqn:Es.
    destruct (hosvd_resid_is_tail X Xm m r U Sv V WX ltac:(lia) Hpos EX Hc1) as (H1 & H2 & H3).
    cbn [factors_orth resid_list snd3]. split.
    + split; [exists r; auto | exact IH1].
    + rewrite H3, IH2. reflexivity.
Qed.

Lemma hosvd_factors_length' X : forall ranks m c fs,
  hosvd_factors Rops svd X ranks m c = Ok fs -> length fs = length ranks.
Proof. exact (hosvd_factors_length svd X). Qed.

Lemma terr2_nonneg A B : 0 <= terr2 Rops A B.
Proof. unfold terr2, sum_idx. apply sumR_nonneg. intros. apply sq_nonneg. Qed.

Lemma tucker_discard_list_nonneg : forall fs Z k, Forall (fun t => 0 <= t) (tucker_discard_list Rops Z fs k).
Proof. induction fs as [|U fs IH]; intros Z k; cbn [tucker_discard_list]; constructor; [apply terr2_nonneg | apply IH]. Qed.

(* HOSVD (tucker with n_iter_max = 0): squared error <= sum over modes of the discarded squared singular values of
   the mode unfoldings of X, and >= the discarded tail of the mode-0 unfolding *)
Theorem hosvd_error_bounds_R X rank core fs : wf X -> (0 < prod (shape X))%nat ->
  hosvd_full_contract X (validate_tucker_rank (ndim X) rank) 0 0 ->
  tucker Rops svd X rank 0 = Ok (core, fs) ->
  exists Xh, tucker_to_tensor Rops core fs = Ok Xh /\ shape Xh = shape X /\
             terr2 Rops X Xh <= Rsum (hosvd_tail_list X (validate_tucker_rank (ndim X) rank) 0 0) /\
             (forall t, hd_error (hosvd_tail_list X (validate_tucker_rank (ndim X) rank) 0 0) = Some t ->
                        t <= terr2 Rops X Xh).
Proof.
  intros WX Hpos Hc Hrun.
  assert (Hfs : (length fs <= ndim X)%nat /\ factors_orth Rops (shape X) fs 0 /\
                resid_list X fs 0 = hosvd_tail_list X (validate_tucker_rank (ndim X) rank) 0 0).
  { unfold tucker in Hrun. set (ranks := validate_tucker_rank (ndim X) rank) in *.
    destruct (Nat.eqb (length ranks) (ndim X)) eqn:El; [|discriminate].
    cbn [negb] in Hrun. apply Nat.eqb_eq in El.
    destruct (ndim X <=? 1); [discriminate|].
    destruct (hosvd_factors Rops svd X ranks 0 0) as [fs0|] eqn:E0; [|discriminate]. cbn [rbind hooi_iter] in Hrun.
    destruct (multi_mode_dot Rops X fs0 0 None true) as [core1|]; [|discriminate]. cbn [rbind] in Hrun.
    injection Hrun as <- <-.
    destruct (hosvd_factors_props X WX Hpos ranks 0%nat 0%nat fs0 ltac:(lia) Hc E0) as [H1 H2].
    split; [rewrite (hosvd_factors_length' _ _ _ _ _ E0); lia | auto]. }
  destruct Hfs as (Hl & Hf & Hr).
  destruct (tucker_error_identity Rops Rops_ring svd X rank 0 core fs Hrun Hl Hf) as (Xh & H1 & H2 & H3).
  exists Xh. split; [exact H1|]. split; [exact H2|].
  change (fsumlist Rops (tucker_discard_list Rops X fs 0)) with (Rsum (tucker_discard_list Rops X fs 0)) in H3.
  split.
  - rewrite H3, <- Hr. apply Rsum_le. apply tucker_discards_le_resid; [lia | exact Hf].
  - intros t Ht. rewrite <- Hr in Ht. rewrite H3.
    destruct fs as [|U0 fs']; [discriminate|]. cbn [resid_list hd_error] in Ht. injection Ht as <-.
    apply Rsum_ge_each; [apply tucker_discard_list_nonneg|]. cbn [tucker_discard_list]. left. reflexivity.
Qed.

End Run.
