(* C09: Tucker exactness when the initialisation uses svd="randomized_svd" or svd="symeig_svd" (the HOOI sweeps of the code always
   use truncated_svd): the answers of these methods meet the U-side contract svd_contract_u of Proofs/SvdDecompTuckerGen.v --
   the derived U has orthonormal columns spanning the columns of the query --
     randomized_svd (both branches): Q^T Q = I (QR contract), range captured, inner SVD with orthonormal U reproducing the reduced
                                     matrix, discarded weights zero;  U = Q U_inner is orthonormal because a frame preserves
                                     inner products;
     symeig_svd, branch dim_1 > dim_2: U = eigh's orthogonal W (flipped), discarded eigenvectors null vectors of M^T.
   symeig_svd on a mode unfolding with dim_1 <= dim_2 (U = (M V) / S, null-space columns exactly zero, i.e. not orthonormal) is
   covered by Proofs/SvdDecompSymeigWide.v through the weakened contract svd_contract_su of Proofs/SvdDecompTuckerSemi.v. *)
From Coq Require Import List Arith Lia Bool Reals Lra RealField.
From TLV Require Import Base.Shape Base.PyList Base.Tensor Base.BigSum Base.Ops Model.Base Model.SvdDecomp Model.SvdDecompSymeig
     Model.SvdDecompRand Proofs.SvdDecompProofs Proofs.SvdDecompProofsR Proofs.SvdDecompPyth Proofs.SvdDecompTucker
     Proofs.SvdDecompTuckerFull Proofs.SvdDecompTuckerR Proofs.SvdDecompHooi Proofs.SvdDecompTuckerGen
     Proofs.SvdDecompSymeig Proofs.SvdDecompTTUpper Proofs.SvdDecompRand.
Import ListNotations.
Local Open Scope R_scope.

(* ------------------------------------------------------------------ randomized_svd, direct branch: (Q U', S', V') *)
Lemma rand_contract_u_direct (M Q red U' V' : tensor R) (S' : list R) (m n k r KU KV : nat) :
  shape Q = [m; k] -> shape U' = [k; KU] -> shape V' = [KV; n] -> (KU <= KV)%nat ->
  orthonormal_fun Rops (fun i a => gR Q [i; a]) m k ->
  (forall j l, (j < KU)%nat -> (l < KU)%nat -> sumR k (fun a => gR U' [a; j] * gR U' [a; l]) = if Nat.eqb j l then 1 else 0) ->
  (forall a c, (a < k)%nat -> (c < n)%nat -> sumR KU (fun l => gR U' [a; l] * (nth l S' 0 * gR V' [l; c])) = gR red [a; c]) ->
  (forall i c, (i < m)%nat -> (c < n)%nat -> sumR k (fun a => gR Q [i; a] * gR red [a; c]) = gR M [i; c]) ->
  (forall l c, (Nat.min r KU <= l)%nat -> (l < KU)%nat -> (c < n)%nat -> nth l S' 0 * gR V' [l; c] = 0) ->
  svd_contract_u M m n r (matmul Rops Q U', S', V').
Proof.
  intros HQ HU HV HK OQ OU Hin Hcap Hz. unfold svd_contract_u.
  exists KU, KU, (fun l c => nth l S' 0 * gR V' [l; c]).
  split; [now apply (shape_matmul _ _ m k KU)|]. split; [lia|]. split; [|split].
  - intros j l Hj Hl.
    transitivity (sumR m (fun i => sumR k (fun a => gR Q [i; a] * gR U' [a; j]) * sumR k (fun a => gR Q [i; a] * gR U' [a; l]))).
    { apply sumR_ext. intros i Hi. now rewrite !(g_matmul _ _ m k KU) by assumption. }
    rewrite (frame_inner m k (fun i a => gR Q [i; a]) (fun a => gR U' [a; j]) (fun a => gR U' [a; l]) OQ).
    now apply OU.
  - intros i c Hi Hc. rewrite <- (Hcap i c Hi Hc).
    transitivity (sumR KU (fun l => sumR k (fun a => gR Q [i; a] * (gR U' [a; l] * (nth l S' 0 * gR V' [l; c]))))).
    { apply sumR_ext. intros l Hl. rewrite (g_matmul _ _ m k KU) by assumption.
      rewrite <- sumR_scal_r. apply sumR_ext. intros a Ha. ring. }
    rewrite sumR_exch. apply sumR_ext. intros a Ha. rewrite sumR_scal_l. f_equal. now apply Hin.
  - intros l c H1 H2 Hc. now apply Hz.
Qed.

(* transposed branch: (U', S', V' Q^T) *)
Lemma rand_contract_u_transposed (M Q red U' V' : tensor R) (S' : list R) (m n k r KU KV : nat) :
  shape Q = [n; k] -> shape U' = [m; KU] -> shape V' = [KV; k] -> (KU <= KV)%nat ->
  (forall j l, (j < KU)%nat -> (l < KU)%nat -> sumR m (fun i => gR U' [i; j] * gR U' [i; l]) = if Nat.eqb j l then 1 else 0) ->
  (forall i a, (i < m)%nat -> (a < k)%nat -> sumR KU (fun l => gR U' [i; l] * (nth l S' 0 * gR V' [l; a])) = gR red [i; a]) ->
  (forall i c, (i < m)%nat -> (c < n)%nat -> sumR k (fun a => gR red [i; a] * gR Q [c; a]) = gR M [i; c]) ->
  (forall l a, (Nat.min r KU <= l)%nat -> (l < KU)%nat -> (a < k)%nat -> nth l S' 0 * gR V' [l; a] = 0) ->
  svd_contract_u M m n r (U', S', matmul Rops V' (mtrans Rops Q)).
Proof.
  intros HQ HU HV HK OU Hin Hcap Hz. unfold svd_contract_u.
  exists KU, KU, (fun l c => sumR k (fun a => nth l S' 0 * gR V' [l; a] * gR Q [c; a])).
  split; [exact HU|]. split; [lia|]. split; [exact OU|]. split.
  - intros i c Hi Hc. rewrite <- (Hcap i c Hi Hc).
    transitivity (sumR KU (fun l => sumR k (fun a => gR U' [i; l] * (nth l S' 0 * gR V' [l; a]) * gR Q [c; a]))).
    { apply sumR_ext. intros l Hl. rewrite <- sumR_scal_l. apply sumR_ext. intros a Ha. ring. }
    rewrite sumR_exch. apply sumR_ext. intros a Ha. rewrite sumR_scal_r. f_equal. now apply Hin.
  - intros l c H1 H2 Hc. apply (fsumn_zero Rops Rops_ring). intros a Ha. cbn [f0 Rops]. rewrite Hz by assumption. ring.
Qed.

(* what is assumed about one randomized_svd call of the model when only its U matters (Tucker): QR's Q has orthonormal columns,
   the range is captured, the inner truncated SVD has orthonormal U, reproduces the reduced matrix and discards zero weights *)
Definition rand_call_u_ok (M : tensor R) (m n r : nat) (a : @svdans R) : Prop :=
  exists qr inner Omega ne n_over n_iter,
    a = randomized_svd Rops qr inner M Omega ne n_over n_iter /\ shape M = [m; n] /\
    let ne' := rand_n_eigenvecs m n ne in
    if rand_transposed m n ne' (rand_n_dims m n ne n_over) then
      let Q := range_finder Rops qr (mtrans Rops M) Omega n_iter in
      let red := mtrans Rops (matmul Rops (mtrans Rops Q) (mtrans Rops M)) in
      let '(U', S', V') := truncated_svd Rops (inner red) ne' in
      exists k KU KV, shape Q = [n; k] /\ shape U' = [m; KU] /\ shape V' = [KV; k] /\ (KU <= KV)%nat /\
        (forall j l, (j < KU)%nat -> (l < KU)%nat -> sumR m (fun i => gR U' [i; j] * gR U' [i; l]) = if Nat.eqb j l then 1 else 0) /\
        (forall i a', (i < m)%nat -> (a' < k)%nat -> sumR KU (fun l => gR U' [i; l] * (nth l S' 0 * gR V' [l; a'])) = gR red [i; a']) /\
        (forall i c, (i < m)%nat -> (c < n)%nat -> sumR k (fun a' => gR red [i; a'] * gR Q [c; a']) = gR M [i; c]) /\
        (forall l a', (Nat.min r KU <= l)%nat -> (l < KU)%nat -> (a' < k)%nat -> nth l S' 0 * gR V' [l; a'] = 0)
    else
      let Q := range_finder Rops qr M Omega n_iter in
      let red := matmul Rops (mtrans Rops Q) M in
      let '(U', S', V') := truncated_svd Rops (inner red) ne' in
      exists k KU KV, shape Q = [m; k] /\ shape U' = [k; KU] /\ shape V' = [KV; n] /\ (KU <= KV)%nat /\
        orthonormal_fun Rops (fun i a' => gR Q [i; a']) m k /\
        (forall j l, (j < KU)%nat -> (l < KU)%nat -> sumR k (fun a' => gR U' [a'; j] * gR U' [a'; l]) = if Nat.eqb j l then 1 else 0) /\
        (forall a' c, (a' < k)%nat -> (c < n)%nat -> sumR KU (fun l => gR U' [a'; l] * (nth l S' 0 * gR V' [l; c])) = gR red [a'; c]) /\
        (forall i c, (i < m)%nat -> (c < n)%nat -> sumR k (fun a' => gR Q [i; a'] * gR red [a'; c]) = gR M [i; c]) /\
        (forall l c, (Nat.min r KU <= l)%nat -> (l < KU)%nat -> (c < n)%nat -> nth l S' 0 * gR V' [l; c] = 0).

Theorem rand_call_u_ok_contract_u M m n r a : rand_call_u_ok M m n r a -> svd_contract_u M m n r a.
Proof.
  intros (qr & inner & Omega & ne & n_over & n_iter & -> & HM & H). cbv zeta in H.
  unfold randomized_svd, nrows, ncols. rewrite HM. cbn [nth]. cbv zeta.
  destruct (rand_transposed m n (rand_n_eigenvecs m n ne) (rand_n_dims m n ne n_over)).
  - destruct (truncated_svd Rops _ _) as [[U' S'] V'].
    destruct H as (k & KU & KV & HQ & HU & HV & HK & OU & Hin & Hcap & Hz).
    exact (rand_contract_u_transposed M _ _ U' V' S' m n k r KU KV HQ HU HV HK OU Hin Hcap Hz).
  - destruct (truncated_svd Rops _ _) as [[U' S'] V'].
    destruct H as (k & KU & KV & HQ & HU & HV & HK & OQ & OU & Hin & Hcap & Hz).
    exact (rand_contract_u_direct M _ _ U' V' S' m n k r KU KV HQ HU HV HK OQ OU Hin Hcap Hz).
Qed.

(* ------------------------------------------------------------------ symeig_svd, branch dim_1 > dim_2: U = flip of eigh's orthogonal W *)
Definition symeig_tall_u_ok (M : tensor R) (m n r : nat) (a : @svdans R) : Prop :=
  exists W s,
    a = symeig_ans Rops M W s /\ shape M = [m; n] /\ (n < m)%nat /\ shape W = [m; m] /\
    (forall i i', (i < m)%nat -> (i' < m)%nat -> sumR m (fun l => gR W [i; l] * gR W [i'; l]) = if Nat.eqb i i' then 1 else 0) /\
    (forall j l, (j < m)%nat -> (l < m)%nat -> sumR m (fun i => gR W [i; j] * gR W [i; l]) = if Nat.eqb j l then 1 else 0) /\
    (forall l c, (l < m - r)%nat -> (c < n)%nat -> sumR m (fun i' => gR M [i'; c] * gR W [i'; l]) = 0).

Theorem symeig_tall_u_ok_contract_u M m n r a : symeig_tall_u_ok M m n r a -> svd_contract_u M m n r a.
Proof.
  intros (W & s & -> & HM & Hnm & HW & Orow & Ocol & Hnull).
  unfold symeig_ans, symeig_raw. unfold nrows at 1 2 3, ncols at 1 2 3. rewrite HM. cbn [nth].
  assert (E : (n <? m)%nat = true) by (apply Nat.ltb_lt; exact Hnm). rewrite E.
  assert (HFW : shape (flip_cols Rops W) = [m; m]) by (unfold flip_cols; cbn [shape tabulate]; exact HW).
  assert (EU : cols_firstn Rops m (flip_cols Rops W) = tabulate [m; m] (fun idx => gR (flip_cols Rops W) idx)).
  { unfold cols_firstn, nrows, ncols. rewrite HFW. cbn [nth]. now rewrite Nat.min_id. }
  unfold svd_contract_u. rewrite EU.
  set (U := tabulate [m; m] (fun idx => gR (flip_cols Rops W) idx)).
  assert (gU : forall i l, (i < m)%nat -> (l < m)%nat -> gR U [i; l] = gR W [i; (m - 1 - l)%nat]).
  { intros i l Hi Hl. unfold U. rewrite (g_tab2 Rops) by assumption. now apply (g_flip_cols _ m m). }
  exists m, m, (fun l c => sumR m (fun i' => gR W [i'; (m - 1 - l)%nat] * gR M [i'; c])).
  split; [reflexivity|]. split; [lia|]. split; [|split].
  - intros j l Hj Hl.
    transitivity (sumR m (fun i => gR W [i; (m - 1 - j)%nat] * gR W [i; (m - 1 - l)%nat])).
    { apply sumR_ext. intros i Hi. now rewrite !gU by assumption. }
    rewrite Ocol by lia. destruct (Nat.eqb_spec j l) as [->|Hne]; [now rewrite Nat.eqb_refl|].
    destruct (Nat.eqb_spec (m - 1 - j) (m - 1 - l)); [lia | reflexivity].
  - intros i c Hi Hc.
    transitivity (sumR m (fun l => gR W [i; (m - 1 - l)%nat] * sumR m (fun i' => gR W [i'; (m - 1 - l)%nat] * gR M [i'; c]))).
    { apply sumR_ext. intros l Hl. now rewrite gU by assumption. }
    rewrite (sumR_rev m (fun l' => gR W [i; l'] * sumR m (fun i' => gR W [i'; l'] * gR M [i'; c]))).
    transitivity (sumR m (fun l => sumR m (fun i' => gR M [i'; c] * (gR W [i; l] * gR W [i'; l])))).
    { apply sumR_ext. intros l Hl. rewrite <- sumR_scal_l. apply sumR_ext. intros i' Hi'. ring. }
    rewrite sumR_exch.
    transitivity (sumR m (fun i' => gR M [i'; c] * dlt i' i)).
    { apply sumR_ext. intros i' Hi'. rewrite sumR_scal_l. f_equal. rewrite Orow by assumption.
      unfold dlt. destruct (Nat.eqb_spec i i') as [->|Hne]; [now rewrite Nat.eqb_refl|].
      destruct (Nat.eqb_spec i' i); [congruence | reflexivity]. }
    rewrite (fsumn_single Rops Rops_ring m i) by (first [exact Hi | intros i' Hi' Hne; unfold dlt;
      destruct (Nat.eqb_spec i' i); [congruence | cbn [f0 Rops]; ring]]).
    unfold dlt. rewrite Nat.eqb_refl. ring.
  - intros l c H1 H2 Hc. rewrite Nat.min_l in H1 by lia.
    transitivity (sumR m (fun i' => gR M [i'; c] * gR W [i'; (m - 1 - l)%nat])).
    { apply sumR_ext. intros i' Hi'. ring. }
    apply Hnull; [lia | exact Hc].
Qed.

(* ------------------------------------------------------------------ tucker *)
Definition method_u_ok (M : tensor R) (m n r : nat) (a : @svdans R) : Prop :=
  rand_call_u_ok M m n r a \/ symeig_tall_u_ok M m n r a \/ svd_contract_u M m n r a.

Lemma method_u_ok_contract_u M m n r a : method_u_ok M m n r a -> svd_contract_u M m n r a.
Proof.
  intros [H|[H|H]]; [now apply rand_call_u_ok_contract_u | now apply symeig_tall_u_ok_contract_u | exact H].
Qed.

Section RunTucker.
Variable svd : nat -> tensor R -> @svdans R.

(* every SVD call of initialize_tucker(init="svd") satisfies P *)
Fixpoint hosvd_call_pred (P : tensor R -> nat -> nat -> nat -> @svdans R -> Prop)
         (X : tensor R) (ranks : list nat) (m c : nat) : Prop :=
  match ranks with
  | [] => True
  | r :: ranks' =>
    match unfold 0 X m with
    | Ok Xm => P Xm (nth m (shape X) 0%nat) (prod (remove_nth m (shape X))) r (svd c Xm)
    | Err => True
    end /\ hosvd_call_pred P X ranks' (S m) (S c)
  end.

Lemma hosvd_call_pred_contract_u (P : tensor R -> nat -> nat -> nat -> @svdans R -> Prop) X :
  (forall M m n r a, P M m n r a -> svd_contract_u M m n r a) ->
  forall ranks m c, hosvd_call_pred P X ranks m c -> hosvd_contract_u svd X ranks m c.
Proof.
  intros HP. induction ranks as [|r ranks IH]; intros m c H; [exact I|].
  cbn [hosvd_call_pred hosvd_contract_u] in *. destruct H as [H1 H2]. split; [|now apply IH].
  destruct (unfold 0 X m); [now apply HP | exact I].
Qed.

(* tucker(init="svd", svd = "randomized_svd" / "symeig_svd" (tall mode unfoldings) / "truncated_svd", tol = 0), any number of
   HOOI sweeps (which use truncated_svd in the code, plain U-side contract), any rank request: exact reconstruction *)
Theorem tucker_methods_exact_R X rank n_iter core fs : wf X -> (0 < prod (shape X))%nat ->
  hosvd_call_pred method_u_ok X (validate_tucker_rank (ndim X) rank) 0 0 ->
  match hosvd_factors Rops svd X (validate_tucker_rank (ndim X) rank) 0 0 with
  | Ok fs0 => hooi_iter_contract_u svd X (validate_tucker_rank (ndim X) rank) n_iter (ndim X) fs0
  | Err => True
  end ->
  tucker Rops svd X rank n_iter = Ok (core, fs) ->
  tucker_to_tensor Rops core fs = Ok X.
Proof.
  intros WX Hpos H0 H1. apply (tucker_exact_gen_R svd X rank n_iter core fs WX Hpos); [|exact H1].
  exact (hosvd_call_pred_contract_u method_u_ok X method_u_ok_contract_u _ _ _ H0).
Qed.
End RunTucker.

(* ------------------------------------------------------------------ non-vacuity *)
Example rand_u_contract_satisfiable :
  rand_call_u_ok rxM 2 2 1 (randomized_svd Rops (fun _ _ => rxI) (fun _ => (rxI, [2; 0], rxI)) rxM rxI 1 5 0).
Proof.
  exists (fun _ _ => rxI), (fun _ => (rxI, [2; 0], rxI)), rxI, 1%nat, 5%nat, 0%nat.
  split; [reflexivity|]. split; [reflexivity|]. cbv zeta.
  change (rand_transposed 2 2 (rand_n_eigenvecs 2 2 1) (rand_n_dims 2 2 1 5)) with false. cbv iota.
  unfold range_finder, range_iter, truncated_svd.
  exists 2%nat, 1%nat, 1%nat.
  split; [reflexivity|]. split; [reflexivity|]. split; [reflexivity|]. split; [lia|]. split; [|split; [|split; [|split]]].
  - intros b b' Hb Hb'. destruct b as [|[|b]]; [| |lia]; (destruct b' as [|[|b']]; [| |lia]);
      unfold fsumn, g, get, rxI; cbn; lra.
  - intros j l Hj Hl. assert (j = 0%nat) by lia. assert (l = 0%nat) by lia. subst.
    unfold fsumn, g, get, cols_firstn, nrows, ncols, rxI; cbn; lra.
  - intros j c Hj Hc. destruct j as [|[|j]]; [| |lia]; (destruct c as [|[|c]]; [| |lia]);
      unfold fsumn, g, get, cols_firstn, rows_firstn, matmul, mtrans, nrows, ncols, rxI, rxM; cbn; lra.
  - intros i c Hi Hc. destruct i as [|[|i]]; [| |lia]; (destruct c as [|[|c]]; [| |lia]);
      unfold fsumn, g, get, matmul, mtrans, nrows, ncols, rxI, rxM; cbn; lra.
  - intros l c H1 H2 Hc. lia.
Qed.

Definition tallM : tensor R := mk [2; 1]%nat [3; 4].

Example symeig_tall_u_satisfiable : symeig_tall_u_ok tallM 2 1 1 (symeig_ans Rops tallM exW [1; 1]).
Proof.
  exists exW, [1; 1]. split; [reflexivity|]. split; [reflexivity|]. split; [lia|]. split; [reflexivity|].
  split; [|split].
  - intros i i' Hi Hi'. destruct i as [|[|i]]; [| |lia]; (destruct i' as [|[|i']]; [| |lia]);
      unfold fsumn, g, get, exW; cbn; lra.
  - intros j l Hj Hl. destruct j as [|[|j]]; [| |lia]; (destruct l as [|[|l]]; [| |lia]);
      unfold fsumn, g, get, exW; cbn; lra.
  - intros l c Hl Hc. assert (l = 0%nat) by lia. assert (c = 0%nat) by lia. subst.
    unfold fsumn, g, get, exW, tallM; cbn; lra.
Qed.
