(* C09, the lower bounds that need Eckart-Young and the literal root-sum-square upper bound of TT-SVD, as
   PARTIAL theorems: the classical results that are not available in any installed library appear as
   explicitly named hypotheses (Definitions used as premises, never axioms):
     eckart_young_stmt      : no matrix of the form P Q with inner dimension r is closer (Frobenius) to M than
                              the discarded tail of M's singular values
     working_tails_le_x_tails : the discarded tail of the k-th WORKING unfolding of a TT-SVD run is at most the
                              discarded tail of the k-th sequential unfolding of X (Eckart-Young applied to the
                              working unfolding, which is an orthogonal projection of X's unfolding) *)
From Coq Require Import List Arith Lia Bool Reals Lra RealField.
From TLV Require Import Base.Shape Base.PyList Base.Tensor Base.BigSum Base.Ops Model.Base Model.SvdDecomp
     Proofs.BaseProofs Proofs.SvdDecompProofs Proofs.SvdDecompProofsR Proofs.SvdDecompTucker Proofs.SvdDecompTuckerFull
     Proofs.SvdDecompPyth Proofs.SvdDecompError Proofs.SvdDecompTails Proofs.SvdDecompErrorR Proofs.SvdDecompTuckerErr
     Proofs.SvdDecompTuckerBound Proofs.SvdDecompHosvdBound Proofs.SvdDecompRing.
Import ListNotations.
Local Open Scope R_scope.

(* singular values as LAPACK returns them: non-negative and non-increasing *)
Definition sorted_nonneg (Sv : list R) : Prop :=
  forall l l', (l <= l')%nat -> (l' < length Sv)%nat -> 0 <= nth l' Sv 0 <= nth l Sv 0.

(* the full contract TOGETHER WITH the ordering of S: without the ordering "the tail S[r:]" is not the set of the
   smallest singular values and the Eckart-Young statement below would be false (M = diag(1,2), S = [1;2], r = 1) *)
Definition svd_sorted_contract (M : tensor R) (m n r : nat) (a : @svdans R) : Prop :=
  svd_full_contract M m n r a /\ sorted_nonneg (snd3 a).

(* Eckart-Young (Frobenius norm) for ONE matrix and one SVD answer of it: no product P Q with inner dimension r is closer
   to M than the discarded tail *)
Definition ey_for (M : tensor R) (m n r : nat) (a : @svdans R) : Prop :=
  forall (P Q : nat -> nat -> R),
    tail2 Rops r (snd3 a) <=
    sumR m (fun i => sumR n (fun c => sq Rops (gR M [i; c] - sumR r (fun b => P i b * Q b c)))).

(* the classical theorem, stated for every SVD answer meeting the full contract with sorted singular values *)
Definition eckart_young_stmt : Prop :=
  forall (M : tensor R) (m n r : nat) (a : @svdans R), svd_sorted_contract M m n r a -> ey_for M m n r a.

(* ------------------------------------------------------------------ the hypothesis is satisfiable: instances of the statement that ARE proved *)
(* r = 0 (nothing kept): equality, |M|^2 = sum of all squared singular values *)
Lemma eckart_young_rank0 M m n a : svd_sorted_contract M m n 0 a -> ey_for M m n 0 a.
Proof.
  intros [Hc _] P Q. destruct a as [[U Sv] V]. cbn [snd3].
  pose proof (disc_tail Rops Rops_ring _ _ _ _ _ _ _ (svd_full_contract_step_full _ _ _ _ _ Hc)) as Hd.
  destruct (svd_interface Rops (U, Sv, V) 0) as [[U' S'] V']. rewrite <- Hd. unfold disc. apply Req_le. reflexivity.
Qed.

(* everything kept: the tail is empty *)
Lemma eckart_young_no_discard M m n a : svd_sorted_contract M m n (length (snd3 a)) a -> ey_for M m n (length (snd3 a)) a.
Proof.
  intros _ P Q. replace (tail2 Rops (length (snd3 a)) (snd3 a)) with 0.
  - apply sumR_nonneg. intros. apply sumR_nonneg. intros. apply sq_nonneg.
  - symmetry. unfold tail2. apply (fsumn_zero Rops Rops_ring). intros l Hl.
    destruct (Nat.leb_spec (length (snd3 a)) l); [lia | reflexivity].
Qed.

(* a genuinely truncating instance: M = diag(2, 1) with its SVD (I, [2; 1], I), one triplet kept: the contract holds
   (sorted S) and NO matrix p q^T is closer to M than the discarded singular value 1 *)
Definition ey_M : tensor R := mk [2; 2]%nat [2; 0; 0; 1].
Definition ey_a : @svdans R := (mk [2; 2]%nat [1; 0; 0; 1], [2; 1], mk [2; 2]%nat [1; 0; 0; 1]).

Lemma ey_instance_contract : svd_sorted_contract ey_M 2 2 1 ey_a.
Proof.
  split.
  - unfold svd_full_contract, ey_a, ey_M. cbn [length]. split; [lia|]. split; [reflexivity|]. split; [reflexivity|].
    split; [|split].
    + intros j l Hj Hl. assert (Ej : j = 0%nat \/ j = 1%nat) by lia. assert (El : l = 0%nat \/ l = 1%nat) by lia.
      destruct Ej as [-> | ->]; destruct El as [-> | ->]; unfold fsumn, g, get; cbn; lra.
    + intros j l Hj Hl. assert (Ej : j = 0%nat \/ j = 1%nat) by lia. assert (El : l = 0%nat \/ l = 1%nat) by lia.
      destruct Ej as [-> | ->]; destruct El as [-> | ->]; unfold fsumn, g, get; cbn; lra.
    + intros i c Hi Hc. assert (Ei : i = 0%nat \/ i = 1%nat) by lia. assert (Ec : c = 0%nat \/ c = 1%nat) by lia.
      destruct Ei as [-> | ->]; destruct Ec as [-> | ->]; unfold fsumn, g, get; cbn; lra.
  - unfold sorted_nonneg, ey_a. cbn [snd3 length]. intros l l' H1 H2.
    assert (El' : l' = 0%nat \/ l' = 1%nat) by lia. destruct El' as [-> | ->].
    + assert (l = 0%nat) by lia. subst. cbn. lra.
    + assert (El : l = 0%nat \/ l = 1%nat) by lia. destruct El as [-> | ->]; cbn; lra.
Qed.

Lemma ey_instance_holds : ey_for ey_M 2 2 1 ey_a.
Proof.
  intros P Q.
  unfold tail2, ey_a, ey_M, fsumn, g, get, sq. cbn.
  set (p0 := P 0%nat 0%nat). set (p1 := P 1%nat 0%nat). set (q0 := Q 0%nat 0%nat). set (q1 := Q 0%nat 1%nat).
  set (A00 := 2 - (0 + p0 * q0)). set (A01 := 0 - (0 + p0 * q1)).
  set (A10 := 0 - (0 + p1 * q0)). set (A11 := 1 - (0 + p1 * q1)).
  assert (Hid : (A00 * A00 + A01 * A01 + (A10 * A10 + A11 * A11) - 1) * (q0 * q0 + q1 * q1) =
                3 * (q1 * q1) + (A00 * q0 + A01 * q1) * (A00 * q0 + A01 * q1) + (A10 * q0 + A11 * q1) * (A10 * q0 + A11 * q1))
    by (unfold A00, A01, A10, A11; ring).
  pose proof (Rle_0_sqr q0) as Hs0. pose proof (Rle_0_sqr q1) as Hs1. unfold Rsqr in Hs0, Hs1.
  pose proof (Rle_0_sqr (A00 * q0 + A01 * q1)) as Hs2. pose proof (Rle_0_sqr (A10 * q0 + A11 * q1)) as Hs3.
  unfold Rsqr in Hs2, Hs3.
  set (Fm1 := A00 * A00 + A01 * A01 + (A10 * A10 + A11 * A11) - 1) in *.
  set (sq_ := q0 * q0 + q1 * q1) in *.
  assert (Hge : 0 <= Fm1 * sq_) by (rewrite Hid; lra).
  destruct (Rle_lt_or_eq_dec 0 sq_ ltac:(unfold sq_; lra)) as [Hpos|Hz].
  - destruct (Rle_or_lt 0 Fm1) as [Hok|Hneg].
    + unfold Fm1 in Hok. lra.
    + exfalso. assert (Hp : 0 < (- Fm1) * sq_) by (apply Rmult_lt_0_compat; lra).
      replace (Fm1 * sq_) with (- ((- Fm1) * sq_)) in Hge by ring. lra.
  - assert (E0 : q0 * q0 = 0) by (unfold sq_ in Hz; lra). assert (E1 : q1 * q1 = 0) by (unfold sq_ in Hz; lra).
    apply Rmult_integral in E0. apply Rmult_integral in E1.
    assert (Z0 : q0 = 0) by tauto. assert (Z1 : q1 = 0) by tauto.
    unfold Fm1, A00, A01, A10, A11 in *. rewrite Z0, Z1. lra.
Qed.

(* ------------------------------------------------------------------ Tucker: the error is at least the discarded
   tail of EVERY mode unfolding (given Eckart-Young) *)

(* a product along mode k can be moved behind a run of products along later modes *)
Lemma multi_comm_rev : forall fs m Z0 Z1 W (U : tensor R) k tr trU, (k < m)%nat ->
  mode_dot Rops Z0 U k trU = Ok Z1 -> multi_mode_dot Rops Z1 fs m None tr = Ok W ->
  exists Y, multi_mode_dot Rops Z0 fs m None tr = Ok Y /\ mode_dot Rops Y U k trU = Ok W.
Proof.
  induction fs as [|V fs IH]; intros m Z0 Z1 W U k tr trU Hkm Hd Hm.
  - simpl in Hm. injection Hm as <-. exists Z0. split; [reflexivity | exact Hd].
  - cbn [multi_mode_dot] in Hm. destruct (mode_dot Rops Z1 V m tr) as [Z2|] eqn:E2; [|discriminate].
    cbn [rbind] in Hm.
    destruct (mode_dot_comm_ok Rops Rops_ring Z0 U V k m trU tr Z1 Z2 ltac:(lia) Hd E2) as (Y0 & HY0 & HY0').
    destruct (IH (S m) Y0 Z2 W U k tr trU ltac:(lia) HY0' Hm) as (Y & HY & HY').
    exists Y. split; [|exact HY']. cbn [multi_mode_dot]. rewrite HY0. exact HY.
Qed.

(* the reconstruction is an n-mode product with U_k of something: its mode-k unfolding has rank <= r_k *)
Lemma multi_extract : forall fs m Z W k, (m <= k)%nat -> (k < m + length fs)%nat ->
  multi_mode_dot Rops Z fs m None false = Ok W ->
  exists Y, mode_dot Rops Y (nth (k - m) fs (mk [] [])) k false = Ok W.
Proof.
  induction fs as [|V fs IH]; intros m Z W k Hmk Hk H; [simpl in Hk; lia|].
  cbn [multi_mode_dot] in H. destruct (mode_dot Rops Z V m false) as [Z1|] eqn:E1; [|discriminate]. cbn [rbind] in H.
  destruct (Nat.eq_dec k m) as [->|Hne].
  - rewrite Nat.sub_diag. cbn [nth].
    destruct (multi_comm_rev fs (S m) Z Z1 W V m false false ltac:(lia) E1 H) as (Y & _ & HY). exists Y. exact HY.
  - destruct (IH (S m) Z1 W k ltac:(lia) ltac:(simpl in Hk; lia) H) as (Y & HY).
    exists Y. replace (k - m)%nat with (S (k - S m)) by lia. exact HY.
Qed.

Section TuckerLower.
Variable svd : nat -> tensor R -> @svdans R.
Hypothesis eckart_young : eckart_young_stmt.

Theorem tucker_error_lower_partial X rank n_iter core fs Xh k Xk r a :
  wf X -> (0 < prod (shape X))%nat -> (k < ndim X)%nat ->
  tucker Rops svd X rank n_iter = Ok (core, fs) -> tucker_to_tensor Rops core fs = Ok Xh ->
  (k < length fs)%nat -> shape (nth k fs (mk [] [])) = [nth k (shape X) 0%nat; r] -> shape Xh = shape X ->
  unfold 0 X k = Ok Xk ->
  svd_sorted_contract Xk (nth k (shape X) 0%nat) (prod (remove_nth k (shape X))) r a ->
  tail2 Rops r (snd3 a) <= terr2 Rops X Xh.
Proof.
  intros WX Hpos Hk _ Hrec Hkf HU HsXh Hunf Hc.
  unfold tucker_to_tensor in Hrec.
  destruct (multi_extract fs 0 core Xh k ltac:(lia) ltac:(lia) Hrec) as (Y & HY).
  rewrite Nat.sub_0_r in HY. set (U := nth k fs (mk [] [])) in *.
  destruct (mode_dot_inv Rops _ _ _ _ _ HY) as [(HkY & _ & Hmin) EXh].
  set (s := shape X) in *. set (nk := nth k s 0%nat) in *. set (rs := remove_nth k s) in *. set (nc := prod rs) in *.
  unfold ndim in Hk. fold s in Hk.
  assert (HsY : set_nth k nk (shape Y) = s).
  { rewrite <- HsXh, EXh, shape_md. unfold mout, nrows. rewrite HU. reflexivity. }
  assert (HnkY : nth k (shape Y) 0%nat = r) by (unfold min_, ncols in Hmin; rewrite HU in Hmin; cbn [nth] in Hmin; auto).
  assert (HrsY : remove_nth k (shape Y) = rs).
  { unfold rs. rewrite <- HsY. now rewrite remove_nth_set_nth_same. }
  (* the unfolding, column by column (as in hosvd_resid_is_tail) *)
  assert (HM : forall i c, (i < nk)%nat -> (c < nc)%nat -> gR Xk [i; c] = gR X (insert_at k i (unravel rs c))).
  { intros i c Hi Hc'. set (ridx := unravel rs c).
    assert (Hr : inb rs ridx) by (apply unravel_inb; exact Hc').
    assert (Hlen : length ridx = (length s - 1)%nat).
    { rewrite (inb_length _ _ Hr). unfold rs. apply remove_nth_length. exact Hk. }
    assert (Hidx : inb s (insert_at k i ridx)).
    { unfold s. rewrite <- (insert_remove k (shape X) 0%nat) by exact Hk. fold s rs nk. apply inb_insert; assumption. }
    destruct (unfold_layout 0 X k Xk _ WX Hk Hpos Hunf Hidx) as [_ Hlay].
    rewrite nth_insert_same in Hlay by lia. rewrite remove_insert in Hlay by lia.
    fold s rs in Hlay. unfold ridx in Hlay at 1. rewrite ravel_unravel in Hlay by exact Hc'.
    exact Hlay. }
  pose proof (eckart_young Xk nk nc r a Hc (fun i b => gR U [i; b])
                (fun b c => gR Y (insert_at k b (unravel rs c)))) as Hey.
  eapply Rle_trans; [exact Hey|]. apply Req_le.
  unfold terr2. fold s. rewrite (sum_idx_split Rops Rops_ring k s) by exact Hk. fold rs nk.
  unfold sum_idx. fold nc. rewrite (fsumn_exchange Rops Rops_ring nk nc).
  apply (fsumn_ext Rops). intros c Hc'. apply (fsumn_ext Rops). intros i Hi.
  set (ridx := unravel rs c).
  assert (Hr : inb rs ridx) by (apply unravel_inb; exact Hc').
  f_equal. rewrite (HM i c Hi Hc'). fold ridx. cbn [fsub Rops]. f_equal.
  rewrite EXh. rewrite (md_fibre Rops).
  - rewrite HnkY. apply (fsumn_ext Rops). intros b Hb. reflexivity.
  - exact HkY.
  - rewrite HrsY. exact Hr.
  - unfold mout, nrows. rewrite HU. cbn [nth]. exact Hi.
Qed.

End TuckerLower.

(* ------------------------------------------------------------------ tensor_train *)
Lemma sum_idx_app (s1 s2 : list nat) (Fn : list nat -> R) :
  sum_idx R 0 Rplus (s1 ++ s2) Fn = sum_idx R 0 Rplus s1 (fun i1 => sum_idx R 0 Rplus s2 (fun i2 => Fn (i1 ++ i2))).
Proof.
  revert Fn. induction s1 as [|d s1 IH]; intros Fn.
  - cbn [app]. rewrite (sum_idx_nil R _ _ _ _ _ _ Rops_ring). reflexivity.
  - cbn [app]. rewrite !(sum_idx_cons R _ _ _ _ _ _ Rops_ring). apply bigsum_ext. intros i _.
    rewrite IH. reflexivity.
Qed.

Definition x_unfolding (X : tensor R) (k : nat) : tensor R :=
  mk [prod (firstn k (shape X)); prod (skipn k (shape X))] (data X).

Lemma bonds_last_right (A : list (tensor R)) : forall l m, A <> [] -> bonds l A m ->
  nth 2 (shape (nth (length A - 1) A (mk [] []))) 0%nat = m.
Proof.
  induction A as [|G A IH]; intros l m Hne Hb; [contradiction|].
  cbn [bonds] in Hb. destruct Hb as [_ Hb]. destruct A as [|G2 A2].
  - cbn [bonds] in Hb. cbn [length Nat.sub nth]. exact Hb.
  - replace (length (G :: G2 :: A2) - 1)%nat with (S (length (G2 :: A2) - 1)) by (cbn [length]; lia).
    cbn [nth]. apply (IH (nth 2 (shape G) 0%nat) m); [discriminate | exact Hb].
Qed.

Section TTPartial.
Variable svd : nat -> tensor R -> @svdans R.     (* the oracle of the run *)
Variable svdX : nat -> tensor R -> @svdans R.    (* an SVD of the sequential unfoldings of X itself *)

(* lower bound for ANY chain of cores with boundary bonds 1 (local form: Eckart-Young for the k-th sequential unfolding) *)
Lemma chain_cores_error_lower_local X cores k aX :
  bonds 1 cores 1 -> length cores = ndim X -> (0 < k)%nat -> (k < ndim X)%nat ->
  ey_for (x_unfolding X k) (prod (firstn k (shape X))) (prod (skipn k (shape X)))
         (nth 2 (shape (nth (k - 1) cores (mk [] []))) 0%nat) aX ->
  tail2 Rops (nth 2 (shape (nth (k - 1) cores (mk [] []))) 0%nat) (snd3 aX) <= tt_err2 Rops X cores.
Proof.
  intros Hb Hlen Hk0 Hk Hey0.
  set (s := shape X) in *. set (s1 := firstn k s) in *. set (s2 := skipn k s) in *.
  unfold ndim in Hk, Hlen. fold s in Hk, Hlen.
  set (A := firstn k cores). set (B := skipn k cores).
  assert (Ecores : cores = A ++ B) by (symmetry; apply firstn_skipn).
  assert (HlA : length A = k) by (unfold A; rewrite firstn_length; lia).
  rewrite Ecores in Hb. destruct (bonds_app _ _ _ _ Hb) as (m & HbA & HbB).
  assert (Hm : nth 2 (shape (nth (k - 1) cores (mk [] []))) 0%nat = m).
  { rewrite Ecores. rewrite app_nth1 by lia. rewrite <- HlA at 1.
    apply (bonds_last_right A 1%nat m); [|exact HbA]. intros E. rewrite E in HlA. simpl in HlA. lia. }
  rewrite Hm in *.
  set (M := x_unfolding X k) in *.
  set (P := fun row b => chain Rops A 0 (unravel s1 row) b).
  set (Q := fun b col => chain Rops B b (unravel s2 col) 0).
  pose proof (Hey0 P Q) as Hey.
  eapply Rle_trans; [exact Hey|]. apply Req_le.
  unfold tt_err2. fold s. rewrite <- (firstn_skipn k s). fold s1 s2. rewrite sum_idx_app.
  unfold sum_idx. apply (fsumn_ext Rops). intros row Hrow. apply (fsumn_ext Rops). intros col Hcol.
  assert (Hi1 : inb s1 (unravel s1 row)) by (apply unravel_inb; exact Hrow).
  assert (Hi2 : inb s2 (unravel s2 col)) by (apply unravel_inb; exact Hcol).
  f_equal. cbn [fsub Rops]. f_equal.
  - unfold M, x_unfolding, g, get. cbn [shape data]. fold s s1 s2. rewrite <- (firstn_skipn k s) at 1. fold s1 s2.
    rewrite ravel_app by (rewrite (inb_length _ _ Hi1); reflexivity).
    rewrite !ravel_unravel by assumption. cbn [ravel prod fold_right]. f_equal. lia.
  - unfold tt_entry. rewrite Ecores.
    rewrite (chain_app Rops Rops_ring A 1%nat m B 0%nat _ _ 0%nat HbA ltac:(lia)).
    + apply (fsumn_ext Rops). intros b _. reflexivity.
    + rewrite (inb_length _ _ Hi1). unfold s1. rewrite firstn_length. lia.
Qed.

(* lower bound: given Eckart-Young, the error is at least the discarded tail of EVERY sequential unfolding of X
   (at the bond dimension actually returned); no contract on the run's own oracle is needed *)
Theorem tt_error_lower_partial (eckart_young : eckart_young_stmt) X rank cores k aX :
  tensor_train Rops svd X rank = Ok cores -> (0 < k)%nat -> (k < ndim X)%nat ->
  svd_sorted_contract (x_unfolding X k) (prod (firstn k (shape X))) (prod (skipn k (shape X)))
                    (nth 2 (shape (nth (k - 1) cores (mk [] []))) 0%nat) aX ->
  tail2 Rops (nth 2 (shape (nth (k - 1) cores (mk [] []))) 0%nat) (snd3 aX) <= tt_err2 Rops X cores.
Proof.
  intros Hrun Hk0 Hk Hc. unfold tensor_train in Hrun.
  destruct (validate_tt_rank (ndim X) rank) as [rk|]; [|discriminate]. cbn [rbind] in Hrun.
  destruct (ndim X <=? 1); [discriminate|].
  destruct (chain_loop_bonds Rops svd _ _ _ _ _ _ _ Hrun) as [Hb Hlen].
  apply chain_cores_error_lower_local; auto.
Qed.

(* all hypotheses of the local lower bound discharged jointly on a concrete instance: X = diag(2, 1), the cores TT-SVD
   returns for the request (1,1,1), the cut k = 1, the SVD (I, [2;1], I) of the unfolding: 1 <= error^2 (= 1) *)
Example chain_cores_error_lower_nonvacuous :
  let cores := [mk [1; 2; 1]%nat [1; 0]; mk [1; 2; 1]%nat [2; 0]] in
  bonds 1 cores 1 /\ length cores = ndim ey_M /\
  svd_sorted_contract (x_unfolding ey_M 1) 2 2 1 ey_a /\
  ey_for (x_unfolding ey_M 1) (prod (firstn 1 (shape ey_M))) (prod (skipn 1 (shape ey_M)))
         (nth 2 (shape (nth (1 - 1) cores (mk [] []))) 0%nat) ey_a /\
  tail2 Rops 1 (snd3 ey_a) <= tt_err2 Rops ey_M cores.
Proof.
  intros cores. split; [cbn; auto|]. split; [reflexivity|]. split; [exact ey_instance_contract|].
  split; [exact ey_instance_holds|].
  change (tail2 Rops (nth 2 (shape (nth (1 - 1) cores (mk [] []))) 0%nat) (snd3 ey_a) <= tt_err2 Rops ey_M cores).
  apply (chain_cores_error_lower_local ey_M cores 1%nat ey_a); [cbn; auto | reflexivity | lia | cbn; lia | exact ey_instance_holds].
Qed.

(* the actual truncation ranks of the run *)
Fixpoint loop_rank_list (k : nat) (sizes ranks : list nat) (rk r0 : nat) (W : list R) : list nat :=
  match sizes with
  | [] => []
  | n :: rest =>
    match rest with
    | [] => []
    | _ :: _ =>
      let n_row := (rk * n)%nat in
      let n_col := (prod rest * r0)%nat in
      let r := Nat.min n_row (Nat.min n_col (hd 1%nat ranks)) in
      let '(U', S', V') := svd_interface Rops (svd k (mk [n_row; n_col] W)) r in
      r :: loop_rank_list (S k) rest (tl ranks) r r0 (data (sv_mul Rops S' V'))
    end
  end.

Definition tt_rank_list (X : tensor R) (rank : rank_spec) : list nat :=
  match validate_tt_rank (ndim X) rank with
  | Ok rk => loop_rank_list 0 (shape X) (tl rk) 1 1 (data X)
  | Err => []
  end.

(* the discarded tails of the sequential unfoldings of X at those ranks *)
Fixpoint x_tails_from (X : tensor R) (k : nat) (rs : list nat) : list R :=
  match rs with
  | [] => []
  | r :: rs' => tail2 Rops r (snd3 (svdX k (x_unfolding X k))) :: x_tails_from X (S k) rs'
  end.
Definition x_tail_list (X : tensor R) (rank : rank_spec) : list R := x_tails_from X 1 (tt_rank_list X rank).

(* NAMED HYPOTHESIS (Eckart-Young for the working unfolding + the working unfolding is an orthogonal projection of
   the unfolding of X): step by step, the discarded tail of the working unfolding is at most that of X's unfolding *)
Definition working_tails_le_x_tails (X : tensor R) (rank : rank_spec) : Prop :=
  Forall2 Rle (tt_tail_list svd X rank) (x_tail_list X rank).

(* the literal upper bound of the property (squared): error^2 <= sum over the sequential unfoldings of X of their
   discarded squared singular values *)
Theorem tt_error_root_sum_square_partial X rank cores :
  tt_full_R svd X rank -> tensor_train Rops svd X rank = Ok cores ->
  working_tails_le_x_tails X rank ->
  tt_err2 Rops X cores <= Rsum (x_tail_list X rank).
Proof. intros H Hrun Hhyp. exact (tt_error_upper_partial_R svd X rank cores _ H Hrun Hhyp). Qed.

End TTPartial.
