(* Lemmas about Model/SvdDecomp.v over an ARBITRARY commutative ring (carrier F, operations Op with a
   ring_theory hypothesis): one TT-SVD step is exact when the truncation keeps all non-zero singular
   values, and by induction over the modes so is the whole TT-SVD / the chain part of TR-SVD.
   The SVD oracle is a Section variable; what is assumed about its answers is the per-run contract
   step_ok / loop_ok (a premise of the theorems, never an axiom). *)
From Coq Require Import List Arith Lia Bool Ring.
From TLV Require Import Base.Shape Base.PyList Base.Tensor Base.BigSum Base.Ops Model.Base Model.SvdDecomp.
Import ListNotations.

Section RingProofs.
Context {F : Type} (Op : fops F).
Hypothesis Rth : ring_theory (f0 Op) (f1 Op) (fadd Op) (fmul Op) (fsub Op) (fopp Op) (@eq F).
Add Ring Fr : Rth.
Notation fz := (f0 Op).
Notation fone := (f1 Op).
Infix "+f" := (fadd Op) (at level 50, left associativity).
Infix "*f" := (fmul Op) (at level 40, left associativity).
Notation fsum := (fsumn Op).
Notation gg := (g Op).

(* ------------------------------------------------------------------ finite sums *)
Lemma fsumn_S n f : fsum (S n) f = fsum n f +f f n.
Proof. reflexivity. Qed.
Lemma fsumn_ext n f h : (forall i, i < n -> f i = h i) -> fsum n f = fsum n h.
Proof. induction n; intros H; [reflexivity|]. rewrite !fsumn_S, IHn, H; auto. Qed.
Lemma fsumn_zero n f : (forall i, i < n -> f i = fz) -> fsum n f = fz.
Proof. induction n; intros H; [reflexivity|]. rewrite fsumn_S, IHn, H by auto. ring. Qed.
Lemma fsumn_tail_zero K r f : r <= K -> (forall l, r <= l -> l < K -> f l = fz) -> fsum K f = fsum r f.
Proof.
  induction K; intros Hr H.
  - assert (r = 0) by lia. subst. reflexivity.
  - destruct (Nat.eq_dec r (S K)) as [->|Hne]; [reflexivity|].
    rewrite fsumn_S, IHK by (try lia; intros; apply H; lia). rewrite (H K) by lia. ring.
Qed.
Lemma fsumn_single n k f : k < n -> (forall i, i < n -> i <> k -> f i = fz) -> fsum n f = f k.
Proof.
  induction n; intros Hk H; [lia|]. rewrite fsumn_S. destruct (Nat.eq_dec k n) as [->|Hn].
  - rewrite fsumn_zero; [ring|]. intros i Hi. apply H; lia.
  - rewrite IHn by (try lia; intros; apply H; lia). rewrite (H n) by lia. ring.
Qed.
Lemma fsumn_add n f h : fsum n (fun i => f i +f h i) = fsum n f +f fsum n h.
Proof. induction n; [unfold fsumn; simpl; ring|]. rewrite !fsumn_S, IHn. ring. Qed.
Lemma fsumn_scale_l n c f : fsum n (fun i => c *f f i) = c *f fsum n f.
Proof. induction n; [unfold fsumn; simpl; ring|]. rewrite !fsumn_S, IHn. ring. Qed.
Lemma fsumn_scale_r n c f : fsum n (fun i => f i *f c) = fsum n f *f c.
Proof. induction n; [unfold fsumn; simpl; ring|]. rewrite !fsumn_S, IHn. ring. Qed.
Lemma fsumn_exchange n m (f : nat -> nat -> F) :
  fsum n (fun i => fsum m (fun j => f i j)) = fsum m (fun j => fsum n (fun i => f i j)).
Proof.
  induction n.
  - symmetry. apply fsumn_zero. reflexivity.
  - rewrite fsumn_S, IHn, <- fsumn_add. apply fsumn_ext. intros j _. now rewrite fsumn_S.
Qed.

(* ------------------------------------------------------------------ matrix access *)
Lemma inb2 m n i j : i < m -> j < n -> inb [m; n] [i; j].
Proof. simpl. tauto. Qed.

Lemma g_tab2 m n f i j : i < m -> j < n -> gg (tabulate [m; n] f) [i; j] = f [i; j].
Proof. intros. unfold g. apply get_tabulate. now apply inb2. Qed.

Lemma nth_firstn' {A} (l : list A) r i d : i < r -> nth i (firstn r l) d = nth i l d.
Proof.
  revert l i. induction r; intros l i H; [lia|]. destruct l; [destruct i; reflexivity|].
  destruct i; simpl; [reflexivity|]. apply IHr. lia.
Qed.

Lemma flip_signs_length U : length (flip_signs Op U) = ncols U.
Proof. unfold flip_signs. now rewrite map_length, seq_length. Qed.

(* ------------------------------------------------------------------ one SVD step *)
Definition sq1 (x : F) : Prop := x *f x = fone.

(* The contract on one oracle answer (U, S, Vh) for the query M (m x n) truncated at r:
   it has K >= r singular triplets, U diag(S) Vh = M, the discarded singular values are zero,
   and the sign-flip multipliers of the kept columns square to one (true over R whenever the
   columns of U are non-zero, e.g. orthonormal: see SvdDecompProofsR.v). *)
Definition step_ok (M : tensor F) (m n r : nat) (a : svdans) : Prop :=
  let '(U, Sv, V) := a in
  exists K, r <= K /\ shape U = [m; K] /\ shape V = [K; n] /\
    (forall i c, i < m -> c < n ->
       fsum K (fun l => gg U [i; l] *f (nth l Sv fz *f gg V [l; c])) = gg M [i; c]) /\
    (forall l, r <= l -> l < K -> nth l Sv fz = fz) /\
    r <= length Sv /\
    Forall sq1 (flip_signs Op (cols_firstn Op r U)).

Definition fact_exact (M : tensor F) (m n r : nat) (a : svdans) : Prop :=
  let '(U, Sv, V) := a in
  shape U = [m; r] /\ shape V = [r; n] /\ length Sv = r /\
  forall i c, i < m -> c < n ->
    fsum r (fun l => gg U [i; l] *f (nth l Sv fz *f gg V [l; c])) = gg M [i; c].

(* exactness of one TT-SVD step: svd_interface (truncate + sign flip) of a lossless answer
   still multiplies back to the query *)
Lemma svd_interface_exact M m n r a : step_ok M m n r a -> fact_exact M m n r (svd_interface Op a r).
Proof.
  destruct a as [[U Sv] V]. unfold step_ok, fact_exact, svd_interface, truncated_svd, svd_flip.
  intros (K & HrK & HU & HV & Hprod & Htail & HlenS & Hsq).
  assert (EU : cols_firstn Op r U = tabulate [m; r] (fun idx => gg U idx)).
  { unfold cols_firstn, nrows, ncols. rewrite HU. simpl nth. now rewrite Nat.min_l by exact HrK. }
  assert (EV : rows_firstn Op r V = tabulate [r; n] (fun idx => gg V idx)).
  { unfold rows_firstn, nrows, ncols. rewrite HV. simpl nth. now rewrite Nat.min_l by exact HrK. }
  rewrite EU in *. rewrite EV.
  set (sg := flip_signs Op (tabulate [m; r] (fun idx => gg U idx))) in *.
  assert (Lsg : length sg = r). { unfold sg. rewrite flip_signs_length. reflexivity. }
  repeat split.
  - rewrite firstn_length. lia.
  - intros i c Hi Hc. rewrite <- (Hprod i c Hi Hc). rewrite (fsumn_tail_zero K r); [| exact HrK |].
    + apply fsumn_ext. intros l Hl. unfold scale_cols, scale_rows. cbn [shape tabulate].
      rewrite !g_tab2 by assumption. cbv beta. rewrite ?g_tab2 by assumption. cbn [nth].
      rewrite nth_firstn' by exact Hl.
      assert (Hs : sq1 (nth l sg fone)). { rewrite Forall_forall in Hsq. apply Hsq. apply nth_In. lia. }
      unfold sq1 in Hs.
      transitivity (gg U [i; l] *f (nth l Sv fz *f gg V [l; c]) *f (nth l sg fone *f nth l sg fone)); [ring|].
      rewrite Hs. ring.
    + intros l H1 H2. rewrite (Htail l H1 H2). ring.
Qed.

(* ------------------------------------------------------------------ the whole chain *)
Variable svd : nat -> tensor F -> @svdans F.

(* every SVD call of this run satisfies P (query, rows, columns, truncation rank, answer) *)
Fixpoint loop_pred (P : tensor F -> nat -> nat -> nat -> @svdans F -> Prop)
         (k : nat) (sizes ranks : list nat) (rk r0 : nat) (W : list F) : Prop :=
  match sizes with
  | [] => True
  | n :: rest =>
    match rest with
    | [] => True
    | _ :: _ =>
      let n_row := rk * n in
      let n_col := prod rest * r0 in
      let r := Nat.min n_row (Nat.min n_col (hd 1 ranks)) in
      let M := mk [n_row; n_col] W in
      P M n_row n_col r (svd k M) /\
      (let '(U, Sv, V) := svd_interface Op (svd k M) r in
       loop_pred P (S k) rest (tl ranks) r r0 (data (sv_mul Op Sv V)))
    end
  end.

Lemma loop_pred_impl (P Q : tensor F -> nat -> nat -> nat -> @svdans F -> Prop) :
  (forall M m n r a, P M m n r a -> Q M m n r a) ->
  forall sizes k ranks rk r0 W, loop_pred P k sizes ranks rk r0 W -> loop_pred Q k sizes ranks rk r0 W.
Proof.
  intros HPQ. induction sizes as [|n rest IH]; intros k ranks rk r0 W H; [exact I|].
  destruct rest as [|n2 rest2]; [exact I|].
  cbn [loop_pred] in *. cbv zeta in *. destruct H as [H1 H2]. split; [now apply HPQ|].
  destruct (svd_interface Op _ _) as [[U' S'] V']. now apply IH.
Qed.

(* every SVD call of this run met the contract and kept all non-zero singular values *)
Definition loop_ok := loop_pred step_ok.

Lemma chain_nil a c : chain Op [] a [] c = if Nat.eqb a c then fone else fz.
Proof. reflexivity. Qed.
Lemma chain_cons G cs a i idx c :
  chain Op (G :: cs) a (i :: idx) c = fsum (nth 2 (shape G) 0) (fun b => gg G [a; i; b] *f chain Op cs b idx c).
Proof. reflexivity. Qed.

Theorem chain_loop_exact : forall sizes k ranks rk r0 W cores,
  loop_ok k sizes ranks rk r0 W ->
  chain_loop Op svd k sizes ranks rk r0 W = Ok cores ->
  forall a idx c, a < rk -> inb sizes idx -> c < r0 ->
    chain Op cores a idx c = nth ((a * prod sizes + ravel sizes idx) * r0 + c) W fz.
Proof.
  induction sizes as [|n rest IH]; intros k ranks rk r0 W cores Hok Hrun a idx c Ha Hidx Hc.
  - simpl in Hrun. discriminate.
  - destruct rest as [|n2 rest2].
    + (* last factor *)
      simpl in Hrun. injection Hrun as <-.
      destruct idx as [|i [|? ?]]; simpl in Hidx; try tauto. destruct Hidx as [Hi _].
      rewrite chain_cons. cbn [shape nth].
      rewrite (fsumn_single r0 c) by (first [exact Hc | intros b Hb Hne; rewrite chain_nil;
        destruct (Nat.eqb_spec b c); [contradiction | ring]]).
      rewrite chain_nil, Nat.eqb_refl. unfold g, get. cbn [shape data ravel prod fold_right].
      transitivity (nth (a * (n * (r0 * 1)) + (i * (r0 * 1) + (c * 1 + 0))) W fz); [ring|].
      f_equal. ring.
    + (* one SVD step, then the rest *)
      set (rest := n2 :: rest2) in *.
      destruct idx as [|i idx']; [simpl in Hidx; tauto|]. destruct Hidx as [Hi Hidx'].
      cbn [chain_loop] in Hrun. unfold loop_ok in Hok. cbn [loop_pred] in Hok. fold rest in Hrun, Hok.
      cbv zeta in Hrun, Hok.
      set (n_row := rk * n) in *. set (n_col := prod rest * r0) in *.
      set (r := Nat.min n_row (Nat.min n_col (hd 1 ranks))) in *.
      set (M := mk [n_row; n_col] W) in *.
      destruct Hok as [Hstep Hrest].
      pose proof (svd_interface_exact _ _ _ _ _ Hstep) as Hex.
      destruct (svd_interface Op (svd k M) r) as [[U' S'] V'] eqn:Esvd.
      destruct Hex as (HU' & HV' & HS' & Hprod).
      destruct (fact_shapes_ok n_row n_col r (U', S', V')); [|discriminate].
      destruct (chain_loop Op svd (S k) rest (tl ranks) r r0 (data (sv_mul Op S' V'))) as [cs|] eqn:Ecs;
        [|discriminate].
      simpl in Hrun. injection Hrun as <-.
      rewrite chain_cons. cbn [shape reshape nth].
      set (row := a * n + i). set (col := ravel rest idx' * r0 + c).
      assert (Hrow : row < n_row) by (unfold row, n_row; nia).
      assert (Hcol : col < n_col).
      { unfold col, n_col. pose proof (ravel_lt _ _ Hidx'). nia. }
      transitivity (fsum r (fun b => gg U' [row; b] *f (nth b S' fz *f gg V' [b; col]))).
      * apply fsumn_ext. intros b Hb. f_equal.
        -- unfold g, get, reshape. cbn [shape data]. rewrite HU'. cbn [ravel prod fold_right].
           f_equal. unfold row. ring.
        -- rewrite (IH (S k) (tl ranks) r r0 _ cs Hrest Ecs b idx' c Hb Hidx' Hc).
           transitivity (gg (sv_mul Op S' V') [b; col]).
           ++ unfold g, get. unfold sv_mul at 2. cbn [shape tabulate]. rewrite HV'.
              cbn [ravel prod fold_right]. f_equal. unfold col, n_col. ring.
           ++ unfold sv_mul. rewrite HV'. rewrite g_tab2 by assumption. reflexivity.
      * rewrite (Hprod row col Hrow Hcol). unfold M, g, get. cbn [shape data ravel prod fold_right].
        f_equal. unfold row, col, n_col. fold rest. change (fold_right Nat.mul 1 rest) with (prod rest). ring.
Qed.

(* ------------------------------------------------------------------ tensor_train *)
Definition tt_ok (X : tensor F) (rank : rank_spec) : Prop :=
  match validate_tt_rank (ndim X) rank with
  | Ok rk => loop_ok 0 (shape X) (tl rk) 1 1 (data X)
  | Err => True
  end.

Theorem tensor_train_exact X rank cores :
  tt_ok X rank -> tensor_train Op svd X rank = Ok cores ->
  forall idx, inb (shape X) idx -> tt_entry Op cores idx = gg X idx.
Proof.
  unfold tt_ok, tensor_train, tt_entry. destruct (validate_tt_rank (ndim X) rank) as [rk|]; [|discriminate].
  simpl rbind. intros Hok Hrun idx Hidx. destruct (ndim X <=? 1); [discriminate|].
  rewrite (chain_loop_exact _ _ _ _ _ _ _ Hok Hrun 0 idx 0) by (auto with arith).
  unfold g, get. f_equal. lia.
Qed.

End RingProofs.

(* ------------------------------------------------------------------ tensor_ring: rotation of the rank request *)
Lemma nth_skipn' {A} (l : list A) m j d : nth j (skipn m l) d = nth (m + j) l d.
Proof. revert l. induction m; intros l; [reflexivity|]. destruct l; [destruct j; reflexivity|]. apply IHm. Qed.

(* the rule of the source (after fix e10d22b) lists, for every start mode, bond (mode + j) mod n of the
   request at position j of the rotated ring (j = 0..n, the closing bond at both ends) *)
Theorem tr_rotate_rank_correct n mode rk : length rk = n + 1 -> mode < n ->
  tr_rotate_rank n mode rk = tr_rotate_rank_spec n mode rk.
Proof.
  intros Hl Hm. unfold tr_rotate_rank, tr_rotate_rank_spec.
  apply nth_ext with (d := 0) (d' := 0).
  - rewrite app_length, !firstn_length, skipn_length, map_length, seq_length. lia.
  - intros j Hj. rewrite app_length, !firstn_length, skipn_length in Hj.
    assert (Hj' : j < n + 1) by lia.
    rewrite (nth_map' (fun j => nth ((mode + j) mod n) rk 0) (seq 0 (n + 1)) j 0 0) by (rewrite seq_length; lia).
    rewrite seq_nth by lia. cbn [Nat.add].
    destruct (Nat.lt_ge_cases j (n - mode)) as [Hlt|Hge].
    + rewrite app_nth1 by (rewrite firstn_length, skipn_length; lia).
      rewrite nth_firstn' by lia. rewrite nth_skipn'. rewrite Nat.mod_small by lia. reflexivity.
    + rewrite app_nth2 by (rewrite firstn_length, skipn_length; lia).
      rewrite firstn_length, skipn_length. replace (Nat.min (n - mode) (length rk - mode)) with (n - mode) by lia.
      rewrite nth_firstn' by lia. f_equal.
      replace (mode + j) with ((j - (n - mode)) + 1 * n) by lia.
      rewrite Nat.mod_add by lia. rewrite Nat.mod_small by lia. reflexivity.
Qed.

(* the rule before the fix disagrees with the intended rotation as soon as the start mode is >= 2 and
   the leading ranks differ: request (1,2,1,1) on an order-3 tensor, start mode 2 *)
Lemma tr_old_rotation_refuted :
  exists n mode rk, length rk = n + 1 /\ mode < n /\ nth 0 rk 0 = nth n rk 0 /\
    firstn n (tr_rotate_rank_old mode rk) <> firstn n (tr_rotate_rank_spec n mode rk).
Proof. exists 3, 2, [1; 2; 1; 1]. repeat split; try (vm_compute; lia). vm_compute. discriminate. Qed.
