(* C09 over the reals: the sign-flip multipliers of svd_flip square to one whenever the kept columns of U
   are non-zero (in particular orthonormal), so the exactness theorems of SvdDecompProofs.v hold for the
   model instantiated at Rops under the plain SVD contract  U^T U = I, U diag(S) Vh = M, discarded
   singular values zero. *)
From Coq Require Import List Arith Lia Bool Reals Lra RealField.
From TLV Require Import Base.Shape Base.PyList Base.Tensor Base.BigSum Base.Ops Model.Base Model.SvdDecomp
     Proofs.SvdDecompProofs.
Import ListNotations.
Local Open Scope R_scope.

Notation ab := (fabs Rops).
Notation gR := (g Rops).
Notation sumR := (fsumn Rops).

Lemma ab_nonneg x : 0 <= ab x.
Proof. unfold fabs. cbn [fleb f0 fopp Rops]. destruct (Rleb 0 x) eqn:E; [apply Rleb_true in E | apply Rleb_false in E]; lra. Qed.
Lemma ab_zero x : ab x <= 0 -> x = 0.
Proof. unfold fabs. cbn [fleb f0 fopp Rops]. destruct (Rleb 0 x) eqn:E; [apply Rleb_true in E | apply Rleb_false in E]; lra. Qed.
Lemma ab_0 : ab 0 = 0.
Proof. unfold fabs. cbn [fleb f0 fopp Rops]. destruct (Rleb 0 0) eqn:E; [reflexivity | apply Rleb_false in E; lra]. Qed.

Lemma fltb_true a b : fltb Rops a b = true <-> a < b.
Proof. unfold fltb. cbn [fleb Rops]. destruct (Rleb b a) eqn:E; simpl; [apply Rleb_true in E | apply Rleb_false in E]; split; intros; try lra; try discriminate; reflexivity. Qed.
Lemma fltb_false a b : fltb Rops a b = false <-> b <= a.
Proof. unfold fltb. cbn [fleb Rops]. destruct (Rleb b a) eqn:E; simpl; [apply Rleb_true in E | apply Rleb_false in E]; split; intros; try lra; try discriminate; reflexivity. Qed.

(* np.sign(x)^2 = 1 for x <> 0 *)
Lemma fsign_sq x : x <> 0 -> fsign Rops x * fsign Rops x = 1.
Proof.
  intros Hx. unfold fsign. cbn [f0 f1 fopp Rops].
  destruct (fltb Rops 0 x) eqn:E1; [lra|].
  destruct (fltb Rops x 0) eqn:E2; [lra|].
  apply fltb_false in E1. apply fltb_false in E2. exfalso. apply Hx. lra.
Qed.

(* the running arg-max of |.|: either the incumbent survives and dominates the list, or the winner is an
   element of the list that dominates both *)
Lemma argmax_from_spec : forall (l : list R) (i best : nat) (bv : R),
  let res := argmax_from Rops l i best bv in
  (res = best /\ forall y, In y l -> ab y <= bv) \/
  ((i <= res)%nat /\ (res - i < length l)%nat /\ bv <= ab (nth (res - i) l 0) /\
   forall y, In y l -> ab y <= ab (nth (res - i) l 0)).
Proof.
  induction l as [|x l IH]; intros i best bv; cbn zeta.
  - left. split; [reflexivity|]. intros y [].
  - cbn [argmax_from]. destruct (fltb Rops bv (ab x)) eqn:E.
    + apply fltb_true in E. right.
      destruct (IH (S i) i (ab x)) as [[H1 H2]|(H1 & H2 & H3 & H4)]; cbn zeta in *.
      * rewrite H1. replace (i - i)%nat with 0%nat by lia. cbn [nth length].
        repeat split; try lia; try lra. intros y [<-|Hy]; [lra | now apply H2].
      * set (res := argmax_from Rops l (S i) i (ab x)) in *.
        replace (res - i)%nat with (S (res - S i)) by lia. cbn [nth length].
        repeat split; try lia; try lra. intros y [<-|Hy]; [lra | now apply H4].
    + apply fltb_false in E.
      destruct (IH (S i) best bv) as [[H1 H2]|(H1 & H2 & H3 & H4)]; cbn zeta in *.
      * left. split; [exact H1|]. intros y [<-|Hy]; [lra | now apply H2].
      * right. set (res := argmax_from Rops l (S i) best bv) in *.
        replace (res - i)%nat with (S (res - S i)) by lia. cbn [nth length].
        repeat split; try lia; try lra. intros y [<-|Hy]; [lra | now apply H4].
Qed.

Lemma argmax_abs_max (c : list R) y : In y c -> ab y <= ab (nth (argmax_abs Rops c) c 0).
Proof.
  destruct c as [|x l]; [intros []|]. intros Hy. unfold argmax_abs.
  destruct (argmax_from_spec l 1 0 (ab x)) as [[H1 H2]|(H1 & H2 & H3 & H4)]; cbn zeta in *.
  - rewrite H1. cbn [nth]. destruct Hy as [<-|Hy]; [lra | now apply H2].
  - set (res := argmax_from Rops l 1 0 (ab x)) in *.
    replace res with (S (res - 1)) by lia. cbn [nth]. destruct Hy as [<-|Hy]; [lra | now apply H4].
Qed.

(* a matrix whose first r columns each contain a non-zero entry *)
Definition cols_nonzero (U : tensor R) (m r : nat) : Prop :=
  forall j, (j < r)%nat -> exists i, (i < m)%nat /\ gR U [i; j] <> 0.

Lemma flip_signs_sq1 (U : tensor R) (m r : nat) :
  cols_nonzero U m r -> Forall (sq1 Rops) (flip_signs Rops (tabulate [m; r] (fun idx => gR U idx))).
Proof.
  intros Hnz. apply Forall_forall. intros x Hx. unfold flip_signs in Hx.
  apply in_map_iff in Hx. destruct Hx as (j & <- & Hj). apply in_seq in Hj.
  unfold ncols in Hj. cbn [shape tabulate nth] in Hj. assert (Hjr : (j < r)%nat) by lia.
  cbv zeta. unfold sq1. cbn [fmul f1 Rops]. apply fsign_sq.
  set (c := column Rops (tabulate [m; r] (fun idx => gR U idx)) j).
  intros Hz. destruct (Hnz j Hjr) as (i & Hi & Hne). apply Hne.
  apply ab_zero. rewrite <- ab_0, <- Hz.
  apply argmax_abs_max. unfold c, column, nrows. cbn [shape tabulate nth].
  apply in_map_iff. exists i. split; [| apply in_seq; lia].
  apply (g_tab2 Rops). exact Hi. exact Hjr.
Qed.

(* ------------------------------------------------------------------ the SVD contract over R *)
Lemma sumR_nonzero_exists n f : sumR n f <> 0 -> exists i, (i < n)%nat /\ f i <> 0.
Proof.
  induction n; intros H.
  - exfalso. apply H. reflexivity.
  - rewrite (fsumn_S Rops) in H. cbn [fadd Rops] in H. destruct (Req_dec (f n) 0) as [E|E].
    + destruct IHn as (i & Hi & Hf); [rewrite E in H; intros Hs; apply H; lra|]. exists i. split; [lia | exact Hf].
    + exists n. split; [lia | exact E].
Qed.

(* what the code relies on from LAPACK for a query M (m x n) truncated at r: K >= r triplets,
   orthonormal columns of U, U diag(S) Vh = M, discarded singular values zero *)
Definition svd_contract (M : tensor R) (m n r : nat) (a : @svdans R) : Prop :=
  let '(U, Sv, V) := a in
  exists K, (r <= K)%nat /\ shape U = [m; K] /\ shape V = [K; n] /\
    (forall j l, (j < K)%nat -> (l < K)%nat ->
       sumR m (fun i => gR U [i; j] * gR U [i; l]) = if Nat.eqb j l then 1 else 0) /\
    (forall i c, (i < m)%nat -> (c < n)%nat ->
       sumR K (fun l => gR U [i; l] * (nth l Sv 0 * gR V [l; c])) = gR M [i; c]) /\
    (forall l, (r <= l)%nat -> (l < K)%nat -> nth l Sv 0 = 0) /\
    (r <= length Sv)%nat.

Lemma svd_contract_step_ok M m n r a : svd_contract M m n r a -> step_ok Rops M m n r a.
Proof.
  destruct a as [[U Sv] V]. unfold svd_contract, step_ok.
  intros (K & HrK & HU & HV & Horth & Hprod & Htail & Hlen).
  exists K. repeat split; try assumption.
  assert (EU : cols_firstn Rops r U = tabulate [m; r] (fun idx => gR U idx)).
  { unfold cols_firstn, nrows, ncols. rewrite HU. cbn [nth]. now rewrite Nat.min_l by exact HrK. }
  rewrite EU. apply flip_signs_sq1. intros j Hj.
  destruct (sumR_nonzero_exists m (fun i => gR U [i; j] * gR U [i; j])) as (i & Hi & Hne).
  - rewrite Horth by lia. rewrite Nat.eqb_refl. lra.
  - exists i. split; [exact Hi|]. intros E. apply Hne. rewrite E. lra.
Qed.

Lemma Rops_ring : ring_theory (f0 Rops) (f1 Rops) (fadd Rops) (fmul Rops) (fsub Rops) (fopp Rops) (@eq R).
Proof. exact RTheory. Qed.

Section Run.
Variable svd : nat -> tensor R -> @svdans R.

Definition loop_contract := loop_pred Rops svd svd_contract.

Theorem chain_loop_exact_R sizes k ranks rk r0 W cores :
  loop_contract k sizes ranks rk r0 W ->
  chain_loop Rops svd k sizes ranks rk r0 W = Ok cores ->
  forall a idx c, (a < rk)%nat -> inb sizes idx -> (c < r0)%nat ->
    chain Rops cores a idx c = nth ((a * prod sizes + ravel sizes idx) * r0 + c) W 0.
Proof.
  intros H. apply (chain_loop_exact Rops Rops_ring svd).
  exact (loop_pred_impl Rops svd _ _ svd_contract_step_ok _ _ _ _ _ _ H).
Qed.

Definition tt_contract (X : tensor R) (rank : rank_spec) : Prop :=
  match validate_tt_rank (ndim X) rank with
  | Ok rk => loop_contract 0 (shape X) (tl rk) 1%nat 1%nat (data X)
  | Err => True
  end.

Theorem tensor_train_exact_R X rank cores :
  tt_contract X rank -> tensor_train Rops svd X rank = Ok cores ->
  forall idx, inb (shape X) idx -> tt_entry Rops cores idx = gR X idx.
Proof.
  intros H. apply (tensor_train_exact Rops Rops_ring svd). revert H. unfold tt_contract, tt_ok.
  destruct (validate_tt_rank (ndim X) rank); [|trivial].
  apply (loop_pred_impl Rops svd _ _ svd_contract_step_ok).
Qed.

End Run.
