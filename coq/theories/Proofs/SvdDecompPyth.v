(* C09, error part: the splitting of the truncation error that underlies the TT-SVD error identity,
   over an arbitrary commutative ring.  For U (m x r) with orthonormal columns, any x in F^m and any
   t in F^r, with w = U^T x:
        |x - U t|^2 = |x - U w|^2 + |w - t|^2            (squared sums, no square root needed)
   and column by column the same for matrices (Frobenius):
        |M - U T|^2 = |M - U U^T M|^2 + |U^T M - T|^2.
   In TT-SVD, M is the k-th working unfolding, U its kept left singular vectors, U^T M = diag(S) V the
   remainder the loop continues with and T the reconstruction of that remainder from the later cores. *)
From Coq Require Import List Arith Lia Bool Ring.
From TLV Require Import Base.Shape Base.PyList Base.Tensor Base.BigSum Base.Ops Model.Base Model.SvdDecomp
     Proofs.SvdDecompProofs.
Import ListNotations.

Section Pyth.
Context {F : Type} (Op : fops F).
Hypothesis Rth : ring_theory (f0 Op) (f1 Op) (fadd Op) (fmul Op) (fsub Op) (fopp Op) (@eq F).
Add Ring Fr5 : Rth.
Notation fz := (f0 Op).
Notation fone := (f1 Op).
Infix "+f" := (fadd Op) (at level 50, left associativity).
Infix "-f" := (fsub Op) (at level 50, left associativity).
Infix "*f" := (fmul Op) (at level 40, left associativity).
Notation fsum := (fsumn Op).

Definition sq (x : F) : F := x *f x.

Lemma fsumn_sub n f h : fsum n (fun i => f i -f h i) = fsum n f -f fsum n h.
Proof. induction n; [unfold fsumn; simpl; ring|]. rewrite !(fsumn_S Op), IHn. ring. Qed.

Lemma fsumn_prod2 n m f h : fsum n f *f fsum m h = fsum n (fun i => fsum m (fun j => f i *f h j)).
Proof.
  rewrite <- (fsumn_scale_r Op Rth). apply fsumn_ext. intros i _. now rewrite (fsumn_scale_l Op Rth).
Qed.

Lemma fsumn_delta r b h : b < r -> fsum r (fun b' => (if Nat.eqb b b' then fone else fz) *f h b') = h b.
Proof.
  intros Hb. rewrite (fsumn_single Op Rth r b).
  - rewrite Nat.eqb_refl. ring.
  - exact Hb.
  - intros i _ Hne. destruct (Nat.eqb_spec b i); [exfalso; auto | ring].
Qed.

Definition orthonormal_fun (U : nat -> nat -> F) (m r : nat) : Prop :=
  forall b b', b < r -> b' < r -> fsum m (fun i => U i b *f U i b') = if Nat.eqb b b' then fone else fz.

(* an orthonormal family is an isometry: |U d|^2 = |d|^2 *)
Lemma isometry_vec (m r : nat) (U : nat -> nat -> F) (d : nat -> F) :
  orthonormal_fun U m r ->
  fsum m (fun i => sq (fsum r (fun b => U i b *f d b))) = fsum r (fun b => sq (d b)).
Proof.
  intros Horth. unfold sq.
  rewrite (fsumn_ext Op m _ (fun i => fsum r (fun b => fsum r (fun b' => d b *f d b' *f (U i b *f U i b'))))).
  - rewrite (fsumn_exchange Op Rth). apply fsumn_ext. intros b Hb.
    rewrite (fsumn_exchange Op Rth).
    rewrite (fsumn_ext Op r _ (fun b' => (if Nat.eqb b b' then fone else fz) *f (d b *f d b'))).
    + now rewrite fsumn_delta by exact Hb.
    + intros b' Hb'. rewrite (fsumn_scale_l Op Rth). rewrite Horth by assumption. destruct (Nat.eqb b b'); ring.
  - intros i _. rewrite fsumn_prod2. apply fsumn_ext. intros b _. apply fsumn_ext. intros b' _. ring.
Qed.

(* a sum minus its first r terms *)
Lemma fsumn_tail_split K r f : r <= K ->
  fsum K f = fsum r f +f fsum K (fun l => if r <=? l then f l else fz).
Proof.
  induction K; intros Hr.
  - assert (r = 0) by lia. subst. unfold fsumn. simpl. ring.
  - destruct (Nat.eq_dec r (S K)) as [->|Hne].
    + rewrite (fsumn_zero Op Rth (S K) (fun l => if S K <=? l then f l else fz)); [ring|].
      intros l Hl. destruct (Nat.leb_spec (S K) l); [lia | reflexivity].
    + rewrite !(fsumn_S Op). rewrite IHK by lia.
      destruct (Nat.leb_spec r K); [ring | lia].
Qed.

(* vectors *)
Lemma pythagoras_vec (m r : nat) (U : nat -> nat -> F) (x : nat -> F) (t : nat -> F) :
  orthonormal_fun U m r ->
  let w := fun b => fsum m (fun i => U i b *f x i) in
  fsum m (fun i => sq (x i -f fsum r (fun b => U i b *f t b))) =
  fsum m (fun i => sq (x i -f fsum r (fun b => U i b *f w b))) +f fsum r (fun b => sq (w b -f t b)).
Proof.
  intros Horth w.
  set (a := fun i => x i -f fsum r (fun b => U i b *f w b)).
  set (d := fun b => w b -f t b).
  set (e := fun i => fsum r (fun b => U i b *f d b)).
  assert (Hsplit : forall i, x i -f fsum r (fun b => U i b *f t b) = a i +f e i).
  { intros i. unfold a, e, d.
    rewrite (fsumn_ext Op r (fun b => U i b *f (w b -f t b)) (fun b => U i b *f w b -f U i b *f t b))
      by (intros; ring).
    rewrite fsumn_sub. ring. }
  (* U^T a = 0 *)
  assert (Hortha : forall b, b < r -> fsum m (fun i => U i b *f a i) = fz).
  { intros b Hb. unfold a.
    rewrite (fsumn_ext Op m _ (fun i => U i b *f x i -f fsum r (fun b' => U i b *f U i b' *f w b'))).
    - rewrite fsumn_sub. rewrite (fsumn_exchange Op Rth).
      rewrite (fsumn_ext Op r _ (fun b' => (if Nat.eqb b b' then fone else fz) *f w b')).
      + rewrite fsumn_delta by exact Hb. unfold w. ring.
      + intros b' Hb'. rewrite (fsumn_scale_r Op Rth). rewrite Horth by assumption. reflexivity.
    - intros i _.
      replace (fsum r (fun b' => U i b *f U i b' *f w b')) with (U i b *f fsum r (fun b' => U i b' *f w b')).
      + ring.
      + rewrite <- (fsumn_scale_l Op Rth). apply fsumn_ext. intros; ring. }
  (* cross term *)
  assert (Hcross : fsum m (fun i => a i *f e i) = fz).
  { unfold e.
    rewrite (fsumn_ext Op m _ (fun i => fsum r (fun b => d b *f (U i b *f a i)))).
    - rewrite (fsumn_exchange Op Rth). apply fsumn_zero. exact Rth. intros b Hb.
      rewrite (fsumn_scale_l Op Rth). rewrite Hortha by exact Hb. ring.
    - intros i _. rewrite <- (fsumn_scale_l Op Rth). apply fsumn_ext. intros b _. ring. }
  (* |U d|^2 = |d|^2 *)
  assert (Hiso : fsum m (fun i => sq (e i)) = fsum r (fun b => sq (d b))).
  { unfold e, sq.
    rewrite (fsumn_ext Op m _ (fun i => fsum r (fun b => fsum r (fun b' => d b *f d b' *f (U i b *f U i b'))))).
    - rewrite (fsumn_exchange Op Rth). apply fsumn_ext. intros b Hb.
      rewrite (fsumn_exchange Op Rth).
      rewrite (fsumn_ext Op r _ (fun b' => (if Nat.eqb b b' then fone else fz) *f (d b *f d b'))).
      + now rewrite fsumn_delta by exact Hb.
      + intros b' Hb'. rewrite (fsumn_scale_l Op Rth). rewrite Horth by assumption. destruct (Nat.eqb b b'); ring.
    - intros i _. rewrite fsumn_prod2. apply fsumn_ext. intros b _. apply fsumn_ext. intros b' _. ring. }
  rewrite (fsumn_ext Op m _ (fun i => sq (a i) +f (a i *f e i +f a i *f e i) +f sq (e i)))
    by (intros i _; rewrite Hsplit; unfold sq; ring).
  rewrite !(fsumn_add Op Rth). rewrite Hcross, Hiso.
  change (fsum m (fun i => sq (a i)) +f (fz +f fz) +f fsum r (fun b => sq (d b)) =
          fsum m (fun i => sq (a i)) +f fsum r (fun b => sq (d b))). ring.
Qed.

(* matrices, column by column *)
Theorem pythagoras_mat (m n r : nat) (U M T : nat -> nat -> F) :
  orthonormal_fun U m r ->
  let Wp := fun b col => fsum m (fun i => U i b *f M i col) in
  fsum m (fun i => fsum n (fun col => sq (M i col -f fsum r (fun b => U i b *f T b col)))) =
  fsum m (fun i => fsum n (fun col => sq (M i col -f fsum r (fun b => U i b *f Wp b col)))) +f
  fsum r (fun b => fsum n (fun col => sq (Wp b col -f T b col))).
Proof.
  intros Horth Wp.
  rewrite !(fsumn_exchange Op Rth m n). rewrite (fsumn_exchange Op Rth r n).
  rewrite <- (fsumn_add Op Rth). apply fsumn_ext. intros col _.
  exact (pythagoras_vec m r U (fun i => M i col) (fun b => T b col) Horth).
Qed.

End Pyth.
