(* C09, svd="randomized_svd" (Model/SvdDecompRand.v): one randomized_svd call is exact -- in the sense of the weakest per-call
   contract step_exact of Proofs/SvdDecompSymeig.v -- when the range finder captured the range (Q Q^T M = M, resp. M Q Q^T = M
   in the transposed branch) and the inner truncated SVD of the reduced matrix multiplies back to it.  Nothing is assumed
   about orthonormality of Q, about the Gaussian test matrix or about the QR oracle beyond that; both branches.  Then
   tensor_train / tensor_train_matrix / tensor_ring (every start mode) with svd="randomized_svd" are exact. *)
From Coq Require Import List Arith Lia Bool Ring Reals Lra RealField.
From TLV Require Import Base.Shape Base.PyList Base.Tensor Base.BigSum Base.Ops Model.Base Model.SvdDecomp Model.SvdDecompSymeig
     Model.SvdDecompRand Proofs.SvdDecompProofs Proofs.SvdDecompProofsR Proofs.SvdDecompRing Proofs.SvdDecompTTM
     Proofs.SvdDecompSymeig Proofs.SvdDecompSymeigRing.
Import ListNotations.
Local Open Scope R_scope.

Lemma rand_terms_direct (M Q red U' V' : tensor R) (S' : list R) (m n k r KU KV : nat) :
  shape Q = [m; k] -> shape U' = [k; KU] -> shape V' = [KV; n] -> (r <= KU)%nat -> (r <= KV)%nat -> (r <= length S')%nat ->
  (forall j c, (j < k)%nat -> (c < n)%nat -> sumR r (fun l => gR U' [j; l] * (nth l S' 0 * gR V' [l; c])) = gR red [j; c]) ->
  (forall i c, (i < m)%nat -> (c < n)%nat -> sumR k (fun j => gR Q [i; j] * gR red [j; c]) = gR M [i; c]) ->
  terms_contract M m n r (matmul Rops Q U', S', V').
Proof.
  intros HQ HU HV HrU HrV HrS Hin Hcap. unfold terms_contract. exists KU, KV.
  repeat split; try assumption.
  - now apply (shape_matmul _ _ m k KU).
  - intros i c Hi Hc. rewrite <- (Hcap i c Hi Hc).
    transitivity (sumR r (fun l => sumR k (fun j => gR Q [i; j] * (gR U' [j; l] * (nth l S' 0 * gR V' [l; c]))))).
    { apply fsumn_ext. intros l Hl. rewrite (g_matmul _ _ m k KU) by (first [assumption | lia]).
      cbn [fmul Rops]. rewrite <- (fsumn_scale_r Rops Rops_ring). apply fsumn_ext. intros j Hj. cbn [fmul Rops]. ring. }
    rewrite (fsumn_exchange Rops Rops_ring). apply fsumn_ext. intros j Hj.
    rewrite (fsumn_scale_l Rops Rops_ring). cbn [fmul Rops]. f_equal. now apply Hin.
Qed.

Lemma rand_terms_transposed (M Q red U' V' : tensor R) (S' : list R) (m n k r KU KV : nat) :
  shape Q = [n; k] -> shape U' = [m; KU] -> shape V' = [KV; k] -> (r <= KU)%nat -> (r <= KV)%nat -> (r <= length S')%nat ->
  (forall i j, (i < m)%nat -> (j < k)%nat -> sumR r (fun l => gR U' [i; l] * (nth l S' 0 * gR V' [l; j])) = gR red [i; j]) ->
  (forall i c, (i < m)%nat -> (c < n)%nat -> sumR k (fun j => gR red [i; j] * gR Q [c; j]) = gR M [i; c]) ->
  terms_contract M m n r (U', S', matmul Rops V' (mtrans Rops Q)).
Proof.
  intros HQ HU HV HrU HrV HrS Hin Hcap. unfold terms_contract. exists KU, KV.
  assert (HQt : shape (mtrans Rops Q) = [k; n]) by (now apply shape_mtrans).
  repeat split; try assumption.
  - now apply (shape_matmul _ _ KV k n).
  - intros i c Hi Hc. rewrite <- (Hcap i c Hi Hc).
    transitivity (sumR r (fun l => sumR k (fun j => gR U' [i; l] * (nth l S' 0 * gR V' [l; j]) * gR Q [c; j]))).
    { apply fsumn_ext. intros l Hl. rewrite (g_matmul _ _ KV k n) by (first [assumption | lia]).
      cbn [fmul Rops].
      transitivity (gR U' [i; l] * nth l S' 0 * sumR k (fun j => gR V' [l; j] * gR (mtrans Rops Q) [j; c])); [ring|].
      rewrite <- (fsumn_scale_l Rops Rops_ring). apply fsumn_ext. intros j Hj. cbn [fmul Rops].
      rewrite (g_mtrans _ n k) by assumption. ring. }
    rewrite (fsumn_exchange Rops Rops_ring). apply fsumn_ext. intros j Hj.
    rewrite (fsumn_scale_r Rops Rops_ring). cbn [fmul Rops]. f_equal. now apply Hin.
Qed.

(* what is assumed about one randomized_svd call of the model (query M of shape m x n, truncation rank r of the caller) *)
Definition rand_call_ok (M : tensor R) (m n r : nat) (a : @svdans R) : Prop :=
  exists qr inner Omega ne n_over n_iter,
    a = randomized_svd Rops qr inner M Omega ne n_over n_iter /\ shape M = [m; n] /\
    let ne' := rand_n_eigenvecs m n ne in
    if rand_transposed m n ne' (rand_n_dims m n ne n_over) then
      let Q := range_finder Rops qr (mtrans Rops M) Omega n_iter in
      let red := mtrans Rops (matmul Rops (mtrans Rops Q) (mtrans Rops M)) in
      let '(U', S', V') := truncated_svd Rops (inner red) ne' in
      exists k KU KV, shape Q = [n; k] /\ shape U' = [m; KU] /\ shape V' = [KV; k] /\
        (r <= KU)%nat /\ (r <= KV)%nat /\ (r <= length S')%nat /\
        (forall i j, (i < m)%nat -> (j < k)%nat -> sumR r (fun l => gR U' [i; l] * (nth l S' 0 * gR V' [l; j])) = gR red [i; j]) /\
        (forall i c, (i < m)%nat -> (c < n)%nat -> sumR k (fun j => gR red [i; j] * gR Q [c; j]) = gR M [i; c])
    else
      let Q := range_finder Rops qr M Omega n_iter in
      let red := matmul Rops (mtrans Rops Q) M in
      let '(U', S', V') := truncated_svd Rops (inner red) ne' in
      exists k KU KV, shape Q = [m; k] /\ shape U' = [k; KU] /\ shape V' = [KV; n] /\
        (r <= KU)%nat /\ (r <= KV)%nat /\ (r <= length S')%nat /\
        (forall j c, (j < k)%nat -> (c < n)%nat -> sumR r (fun l => gR U' [j; l] * (nth l S' 0 * gR V' [l; c])) = gR red [j; c]) /\
        (forall i c, (i < m)%nat -> (c < n)%nat -> sumR k (fun j => gR Q [i; j] * gR red [j; c]) = gR M [i; c]).

Theorem rand_call_ok_step_exact M m n r a : rand_call_ok M m n r a -> step_exact Rops M m n r a.
Proof.
  intros (qr & inner & Omega & ne & n_over & n_iter & -> & HM & H). cbv zeta in H.
  apply svd_interface_exact_terms. unfold randomized_svd, nrows, ncols. rewrite HM. cbn [nth]. cbv zeta.
  destruct (rand_transposed m n (rand_n_eigenvecs m n ne) (rand_n_dims m n ne n_over)).
  - destruct (truncated_svd Rops _ _) as [[U' S'] V'].
    destruct H as (k & KU & KV & HQ & HU & HV & H1 & H2 & H3 & Hin & Hcap).
    exact (rand_terms_transposed M _ _ U' V' S' m n k r KU KV HQ HU HV H1 H2 H3 Hin Hcap).
  - destruct (truncated_svd Rops _ _) as [[U' S'] V'].
    destruct H as (k & KU & KV & HQ & HU & HV & H1 & H2 & H3 & Hin & Hcap).
    exact (rand_terms_direct M _ _ U' V' S' m n k r KU KV HQ HU HV H1 H2 H3 Hin Hcap).
Qed.

Section RunRand.
Variable svd : nat -> tensor R -> @svdans R.

Definition tt_rand_contract (X : tensor R) (rank : rank_spec) : Prop :=
  match validate_tt_rank (ndim X) rank with
  | Ok rk => loop_pred Rops svd rand_call_ok 0 (shape X) (tl rk) 1%nat 1%nat (data X)
  | Err => True
  end.

Theorem tensor_train_randomized_exact_R X rank cores :
  tt_rand_contract X rank -> tensor_train Rops svd X rank = Ok cores ->
  forall idx, inb (shape X) idx -> tt_entry Rops cores idx = gR X idx.
Proof.
  intros H. apply (tensor_train_exact_gen Rops Rops_ring svd). revert H. unfold tt_rand_contract, tt_exact_calls.
  destruct (validate_tt_rank (ndim X) rank) as [rk|]; [|trivial].
  apply (loop_pred_impl Rops svd). exact rand_call_ok_step_exact.
Qed.

Theorem tensor_ring_randomized_exact_R X rank mode cores :
  tr_pred Rops svd rand_call_ok X rank mode -> tensor_ring Rops svd X rank mode = Ok cores ->
  forall idx, inb (shape X) idx -> tr_entry Rops cores idx = gR X idx.
Proof.
  intros H. apply (tensor_ring_exact_gen Rops Rops_ring svd). revert H. unfold tr_pred. cbv zeta.
  destruct (validate_tr_rank (ndim X) rank) as [rk0|]; [|trivial].
  apply tr_core_pred_impl. exact rand_call_ok_step_exact.
Qed.
End RunRand.

(* non-vacuity: M = diag(2, 0), one triplet requested; QR oracle answering the identity, inner SVD (I, [2; 0], I) *)
Definition rxM : tensor R := mk [2; 2]%nat [2; 0; 0; 0].
Definition rxI : tensor R := mk [2; 2]%nat [1; 0; 0; 1].

Example rand_contract_satisfiable :
  rand_call_ok rxM 2 2 1 (randomized_svd Rops (fun _ _ => rxI) (fun _ => (rxI, [2; 0], rxI)) rxM rxI 1 5 0).
Proof.
  exists (fun _ _ => rxI), (fun _ => (rxI, [2; 0], rxI)), rxI, 1%nat, 5%nat, 0%nat.
  split; [reflexivity|]. split; [reflexivity|]. cbv zeta.
  change (rand_transposed 2 2 (rand_n_eigenvecs 2 2 1) (rand_n_dims 2 2 1 5)) with false. cbv iota.
  unfold range_finder, range_iter, truncated_svd.
  exists 2%nat, 1%nat, 1%nat.
  split; [reflexivity|]. split; [reflexivity|]. split; [reflexivity|].
  split; [lia|]. split; [lia|]. split; [simpl; lia|]. split.
  - intros j c Hj Hc. destruct j as [|[|j]]; [| |lia]; (destruct c as [|[|c]]; [| |lia]);
      unfold fsumn, g, get, cols_firstn, rows_firstn, matmul, mtrans, nrows, ncols, rxI, rxM; cbn; lra.
  - intros i c Hi Hc. destruct i as [|[|i]]; [| |lia]; (destruct c as [|[|c]]; [| |lia]);
      unfold fsumn, g, get, matmul, mtrans, nrows, ncols, rxI, rxM; cbn; lra.
Qed.
