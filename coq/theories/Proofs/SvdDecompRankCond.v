(* C09: from the property's RANK CONDITION to the per-run contract, for HOSVD (tucker with n_iter_max = 0), given
   Eckart-Young (named hypothesis eckart_young_stmt): if the mode-k unfolding of X has rank <= r_k (it factors through
   inner dimension r_k) and the SVD answer meets the full contract with sorted singular values, the discarded
   singular values are zero -- which is the premise of the exactness theorems.  All SVD calls of HOSVD are on
   unfoldings of X itself, so this closes the gap between "requested ranks >= ranks of the unfoldings" and
   "no SVD call discards a non-zero singular value" for n_iter_max = 0. *)
From Coq Require Import List Arith Lia Bool Reals Lra RealField.
From TLV Require Import Base.Shape Base.PyList Base.Tensor Base.BigSum Base.Ops Model.Base Model.SvdDecomp
     Proofs.BaseProofs Proofs.SvdDecompProofs Proofs.SvdDecompProofsR Proofs.SvdDecompTucker Proofs.SvdDecompTuckerFull
     Proofs.SvdDecompPyth Proofs.SvdDecompError Proofs.SvdDecompTails Proofs.SvdDecompErrorR Proofs.SvdDecompTuckerR
     Proofs.SvdDecompHosvdBound Proofs.SvdDecompPartial.
Import ListNotations.
Local Open Scope R_scope.

Lemma sumR_zero_each n f : (forall i, (i < n)%nat -> 0 <= f i) -> sumR n f = 0 -> forall i, (i < n)%nat -> f i = 0.
Proof.
  induction n; intros Hnn Hs i Hi; [lia|].
  rewrite (fsumn_S Rops) in Hs. cbn [fadd Rops] in Hs.
  assert (H1 : 0 <= sumR n f) by (apply sumR_nonneg; intros; apply Hnn; lia).
  assert (H2 : 0 <= f n) by (apply Hnn; lia).
  destruct (Nat.eq_dec i n) as [->|Hne]; [lra|]. apply IHn; auto; try lia. lra.
Qed.

(* a matrix of rank <= r: it factors through inner dimension r *)
Definition factors_through (M : tensor R) (m n r : nat) : Prop :=
  exists P Q : nat -> nat -> R, forall i c, (i < m)%nat -> (c < n)%nat -> gR M [i; c] = sumR r (fun b => P i b * Q b c).

Section RankCond.
Hypothesis eckart_young : eckart_young_stmt.

(* rank <= r  ==>  the discarded singular values are zero *)
Lemma low_rank_tail_zero M m n r U Sv V : svd_sorted_contract M m n r (U, Sv, V) -> factors_through M m n r ->
  forall l, (r <= l)%nat -> (l < length Sv)%nat -> nth l Sv 0 = 0.
Proof.
  intros Hc (P & Q & HPQ) l Hrl Hl.
  pose proof (eckart_young M m n r (U, Sv, V) Hc P Q) as Hey. cbn [snd3] in Hey.
  assert (Hz : sumR m (fun i => sumR n (fun c => sq Rops (gR M [i; c] - sumR r (fun b => P i b * Q b c)))) = 0).
  { apply (fsumn_zero Rops Rops_ring). intros i Hi. apply (fsumn_zero Rops Rops_ring). intros c Hcn.
    rewrite HPQ by assumption. unfold sq. cbn. ring. }
  rewrite Hz in Hey.
  assert (Ht : tail2 Rops r Sv = 0) by (pose proof (tail2_nonneg r Sv); lra).
  unfold tail2 in Ht.
  assert (Hnn : forall i, (i < length Sv)%nat -> 0 <= (if (r <=? i)%nat then sq Rops (nth i Sv (f0 Rops)) else f0 Rops)).
  { intros i _. destruct (r <=? i)%nat; [apply sq_nonneg | apply Rle_refl]. }
  pose proof (sumR_zero_each (length Sv) _ Hnn Ht l Hl) as Hl0.
  cbv beta in Hl0. destruct (Nat.leb_spec r l); [|lia].
  unfold sq in Hl0. cbn [fmul Rops] in Hl0. apply Rmult_integral in Hl0. tauto.
Qed.

(* hence the exactness contract *)
Lemma low_rank_svd_contract M m n r a : svd_sorted_contract M m n r a -> factors_through M m n r -> svd_contract M m n r a.
Proof.
  destruct a as [[U Sv] V]. intros Hc Hf. pose proof (low_rank_tail_zero M m n r U Sv V Hc Hf) as Htail.
  destruct Hc as [Hfull _]. unfold svd_full_contract in Hfull. cbv zeta in Hfull.
  destruct Hfull as (HrK & HU & HV & HorthU & _ & Hprod).
  exists (length Sv). repeat split; auto.
Qed.

Variable svd : nat -> tensor R -> @svdans R.

(* the rank condition of the property for HOSVD: every mode unfolding has rank <= the requested rank, and the SVD answers
   meet the full contract with sorted singular values *)
Fixpoint hosvd_rank_condition (X : tensor R) (ranks : list nat) (m c : nat) : Prop :=
  match ranks with
  | [] => True
  | r :: ranks' =>
    match unfold 0 X m with
    | Ok Xm => svd_sorted_contract Xm (nth m (shape X) 0%nat) (prod (remove_nth m (shape X))) r (svd c Xm) /\
               factors_through Xm (nth m (shape X) 0%nat) (prod (remove_nth m (shape X))) r
    | Err => True
    end /\ hosvd_rank_condition X ranks' (S m) (S c)
  end.

Lemma hosvd_rank_condition_contract X : forall ranks m c,
  hosvd_rank_condition X ranks m c -> hosvd_contract svd X ranks m c.
Proof.
  induction ranks as [|r ranks IH]; intros m c H; [exact I|].
  cbn [hosvd_rank_condition hosvd_contract] in *. destruct H as [H1 H2]. split; [|apply IH; exact H2].
  destruct (unfold 0 X m) as [Xm|]; [|exact I]. destruct H1 as [Hc Hf]. now apply low_rank_svd_contract.
Qed.

(* HOSVD is exact whenever the requested ranks are at least the ranks of the mode unfoldings of X (given Eckart-Young) *)
Theorem hosvd_exact_from_rank_condition_partial X rank core fs : wf X -> (0 < prod (shape X))%nat ->
  hosvd_rank_condition X (validate_tucker_rank (ndim X) rank) 0 0 ->
  tucker Rops svd X rank 0 = Ok (core, fs) ->
  tucker_to_tensor Rops core fs = Ok X.
Proof.
  intros WX Hpos Hrc Hrun.
  exact (hosvd_exact_R svd X rank core fs WX Hpos (hosvd_rank_condition_contract X _ _ _ Hrc) Hrun).
Qed.

End RankCond.
