(* C09: the ranks returned by the sequential-SVD loop respect the request (any carrier, any oracle):
   the right bond of the k-th computed core is min(n_row, n_col, requested rank) <= requested rank,
   and it never exceeds the row / column count of the working unfolding. *)
From Coq Require Import List Arith Lia Bool.
From TLV Require Import Base.Shape Base.PyList Base.Tensor Base.BigSum Base.Ops Model.Base Model.SvdDecomp.
Import ListNotations.

Section Ranks.
Context {F : Type} (Op : fops F).
Variable svd : nat -> tensor F -> @svdans F.

(* right bonds of all cores but the last against the requested ranks (missing requests count as 1, as in the model) *)
Fixpoint ranks_respected (cores : list (tensor F)) (ranks : list nat) : Prop :=
  match cores with
  | [] => True
  | G :: cs =>
    match cs with
    | [] => True
    | _ :: _ => nth 2 (shape G) 0 <= hd 1 ranks /\ ranks_respected cs (tl ranks)
    end
  end.

Theorem chain_loop_ranks_respected : forall sizes k ranks rk r0 W cores,
  chain_loop Op svd k sizes ranks rk r0 W = Ok cores -> ranks_respected cores ranks.
Proof.
  induction sizes as [|n rest IH]; intros k ranks rk r0 W cores H; [discriminate|].
  destruct rest as [|n2 rest2].
  - simpl in H. injection H as <-. exact I.
  - set (rest := n2 :: rest2) in *. cbn [chain_loop] in H. fold rest in H. cbv zeta in H.
    destruct (fact_shapes_ok _ _ _ _); [|discriminate].
    destruct (svd_interface Op _ _) as [[U Sv] V].
    destruct (chain_loop Op svd (S k) rest (tl ranks) _ r0 _) as [cs|] eqn:E; [|discriminate].
    cbn [rbind] in H. injection H as <-.
    pose proof (IH _ _ _ _ _ _ E) as Hcs.
    assert (Hne : cs <> []).
    { intros ->. unfold rest in E. cbn [chain_loop] in E. destruct rest2; [discriminate|].
      cbv zeta in E. destruct (fact_shapes_ok _ _ _ _); [|discriminate].
      destruct (svd_interface Op _ _) as [[? ?] ?]. destruct (chain_loop Op svd _ _ _ _ _ _); discriminate. }
    destruct cs as [|G2 cs2]; [contradiction|].
    cbn [ranks_respected shape reshape nth]. split; [lia | exact Hcs].
Qed.

Theorem tensor_train_ranks_respected X rank cores :
  tensor_train Op svd X rank = Ok cores ->
  match validate_tt_rank (ndim X) rank with Ok rk => ranks_respected cores (tl rk) | Err => False end.
Proof.
  unfold tensor_train. destruct (validate_tt_rank (ndim X) rank) as [rk|]; [|discriminate].
  cbn [rbind]. destruct (ndim X <=? 1); [discriminate|]. apply chain_loop_ranks_respected.
Qed.

End Ranks.
